#!/usr/bin/env python3
"""Writes MANIFEST.json from props.py (claimed checks) and the not-applicable/unbuilt list."""
import json, os, sys
sys.path.insert(0, os.path.dirname(os.path.abspath(__file__)))
from props import PROPS, MANIFEST_TEXT, NOT_CLAIMED

checks = []
for pid in sorted(PROPS):
    t = MANIFEST_TEXT[pid]
    checks.append({
        "property_id": pid,
        "quick_cmd": f"./check {pid} quick",
        "thorough_cmd": f"./check {pid} thorough",
        "evidence_file": f"/verif/evidence/{pid}.json",
        "replay_cmd_template": f"./check {pid} --replay {{path}}",
        "engine": "lean4-proof",
        "level_claimed": {"category": "proof", "text": t["text"], "design_ref": t["design_ref"]},
        "level_note": t["note"],
        "technique": t["technique"],
    })
m = {
    "version": 1,
    "setup_cmd": "./setup.sh",
    "hooks": {
        "guard": "verif",
        "enable": "go build -tags verif (the harness module /verif/go replaces the library import with /repo and is built with -tags verif)",
        "baseline_off_cmd": "cd /repo && GOFLAGS=-mod=mod GOPROXY=off GOSUMDB=off GOTOOLCHAIN=local go test -vet=off -count=1 -timeout 25m ./...",
        "source_commits": HOOK_COMMITS if (HOOK_COMMITS := json.load(open(os.path.join(os.path.dirname(os.path.abspath(__file__)), "hook_commits.json")))) else [],
        "add_only": True,
    },
    "engines": [{
        "name": "lean4-proof",
        "path": "/verif/lean",
        "serves_properties": sorted(PROPS),
        "kind_free_text": "Lean 4 model (Cql/*) + property theorems (Cql/Props/*), tied to /repo by a go/ast translator "
                          "(go/cmd/verif-extract -> Cql/Gen) and a differential correspondence harness (go/cmd/verif-harness) "
                          "talking to the compiled model driver (lean/Driver) over a line protocol",
    }],
    "checks": checks,
    "notes": "All checks go through ./check <id> quick|thorough. See DESIGN.md.",
    "not_applicable": [{"property_id": p, "reason": r} for p, r in sorted(NOT_CLAIMED.items()) if p not in PROPS],
}
json.dump(m, open(os.path.join(os.path.dirname(os.path.abspath(__file__)), "MANIFEST.json"), "w"), indent=1)
print("MANIFEST.json:", len(checks), "checks,", len(m["not_applicable"]), "not claimed")
