#!/usr/bin/env python3
"""Generate /verif/seeded/RESULTS.md from the meta.json files written by seedtest.py."""
import glob, json, os
rows = []
for d in sorted(x for x in glob.glob("/verif/seeded/C*-*m?*") if not x.endswith(".first")):
    mp = os.path.join(d, "meta.json")
    if not os.path.exists(mp):
        continue
    m = json.load(open(mp))
    name = os.path.basename(d)
    det = m.get("detected_by", "?")
    how = ""
    if m.get("failing_inputs"):
        how = "failing input: " + m["failing_inputs"][0]["what"][:110]
    elif m.get("broken_obligations"):
        how = "no failing input; broken: " + "; ".join(b["kind"] + " " + b["name"][:60] for b in m["broken_obligations"][:2])
    if m.get("broken_obligations") and m.get("failing_inputs"):
        kinds = sorted({b["kind"] for b in m["broken_obligations"]})
        how += " (also broken: " + ", ".join(kinds) + ")"
    note = m.get("note", "")
    first = d + ".first/meta.json"
    if os.path.exists(first):
        f0 = json.load(open(first))
        note = ("first run: " + f0.get("detected_by", "?").replace("./check ", "") +
                (" (" + f0.get("first_run_note", "") + ")" if f0.get("first_run_note") else "") + "; check strengthened, re-run shown. " + note)
    rows.append((name, m.get("summary", "")[:150].replace("|", "/"), det.replace("./check ", ""), how.replace("|", "/"), note))
with open("/verif/seeded/RESULTS.md", "w") as f:
    f.write("# Seeded property-breaking changes and what the checks report\n\n")
    f.write("Each change was produced by an independent sub-agent from the property text alone (see DESIGN.md §9), compiles, and passes the\n"
            "repository's own test suite. `detected by` is the first tier of the property's check that exits 1 with a VIOLATION line.\n\n")
    f.write("| seed | change | detected by | how | note |\n|---|---|---|---|---|\n")
    for r in rows:
        f.write("| " + " | ".join(r) + " |\n")
    n = len(rows)
    nd = sum(1 for r in rows if "NOT DETECTED" not in r[2])
    f.write(f"\n{nd} of {n} seeded changes detected.\n")
print(open("/verif/seeded/RESULTS.md").read()[-300:])
