#!/bin/sh
# runs every claimed check (tier $1, default quick) and reports; used before committing evidence
cd "$(dirname "$0")"
tier=${1:-quick}
rc=0
# the whole library must build (this is what MANIFEST.setup_cmd does on a fresh restore)
(cd lean && flock ../.lock lake build Cql Driver Audit driver > /tmp/verif_whole_build.log 2>&1) || { echo "WHOLE-LIBRARY BUILD FAILED"; tail -20 /tmp/verif_whole_build.log; exit 1; }
for id in $(python3 -c "import json;print(' '.join(c['property_id'] for c in json.load(open('MANIFEST.json'))['checks']))"); do
  ./check $id $tier | grep -v '^KNOWN-FINDING' || true
  python3 - "$id" <<'PY' || rc=1
import json,sys
d=json.load(open('evidence/%s.json'%sys.argv[1])); c=d['coverage']
ok = d.get('violations',0)==0 and c['obligations']==c['discharged']
print('   evidence', sys.argv[1], 'obligations', c['obligations'], 'discharged', c['discharged'], 'evals', c['evaluations'], 'wall', d['wall_s'], 'OK' if ok else 'NOT-OK')
sys.exit(0 if ok else 1)
PY
done
exit $rc
