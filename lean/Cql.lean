-- root of the model library: everything the checks need is imported here so `lake build Cql` builds it all
import Cql.Bytes
import Cql.Audit
import Cql.Gen.Constants
import Cql.Lemmas.ListSet
import Cql.Spec.Features
import Cql.Impl.Features
import Cql.Props.C19
