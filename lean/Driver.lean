import Driver.Main
