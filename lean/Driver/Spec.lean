import Cql.Impl.Frame
import Cql.Spec.Message
namespace Driver.Spec
open Cql Cql.Impl

/-- `spec frame <hex>`: decode the bytes of an uncompressed frame with the code-shaped decoder, then lay the decoded frame
    out as the specification documents prescribe → `ok <hex of Spec.frame>` | `err` | `panic <site>`;
    `spec hdr <b0> <opcode>` → `T|F T|F` (`HeaderOk`, `HeaderOkAnyVersion` of the documents) -/
def handle (args : List String) : String :=
  match args with
  | ["frame", h] =>
    match ofHex h with
    | some bs =>
      (match (decodeFrame none).run bs with
        | .ok (f, _) => "ok " ++ hexOrDash (Cql.Spec.frame f)
        | .err _ => "err"
        | .panic s => "panic " ++ s)
    | none => "bad-op"
  | ["hdr", b0, op] =>
    match b0.toNat?, op.toNat? with
    | some b0, some op =>
      (if decide (Cql.Spec.HeaderOk b0 op) then "T" else "F") ++ " " ++
      (if decide (Cql.Spec.HeaderOkAnyVersion b0 op) then "T" else "F")
    | _, _ => "bad-op"
  | _ => "bad-op"

end Driver.Spec
