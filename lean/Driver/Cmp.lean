import Cql.Compress
namespace Driver.Cmp
open Cql Cql.Compress

/-- block-function oracle tables filled by the harness from the real `pierrec/lz4` and `golang/snappy` -/
structure ZB where
  c : List (Bytes × Res Bytes) := []
  u : List ((Bytes × Nat) × Res Bytes) := []
  e : List (Bytes × Bytes) := []
  l : List (Bytes × Res Nat) := []
  d : List (Bytes × Res Bytes) := []

def ZB.codec (z : ZB) : BlockCodec :=
  { compressBlock := fun s => match z.c.find? (·.1 == s) with | some p => p.2 | none => .panic "compressBlock: not in oracle table"
    uncompressBlock := fun s n => match z.u.find? (·.1 == (s, n)) with | some p => p.2 | none => .panic "uncompressBlock: not in oracle table"
    encode := fun s => match z.e.find? (·.1 == s) with | some p => p.2 | none => []
    decodedLen := fun s => match z.l.find? (·.1 == s) with | some p => p.2 | none => .panic "decodedLen: not in oracle table"
    decode := fun s => match z.d.find? (·.1 == s) with | some p => p.2 | none => .panic "decode: not in oracle table" }

def resOf (s : String) : Res Bytes := if s == "!" then .err "oracle" else match ofHex s with
  | some x => .ok x | none => .panic "bad hex"

def show1 : Res Bytes → String
  | .ok b => "ok " ++ hexOrDash b
  | .err _ => "err"
  | .panic s => "panic " ++ s

def show2 : Res (Bytes × Bytes) → String
  | .ok (b, r) => s!"ok {hexOrDash b} {r.length}"
  | .err _ => "err"
  | .panic s => "panic " ++ s

/-- `zb clear` | `zb c <src> <out|!>` | `zb u <src> <size> <out|!>` | `zb e <src> <out>` | `zb d <src> <out|!>`
    `cmp lz4 c|cwl|d|dwl <hex>` | `cmp snappy cwl|dwl <hex>` -/
def handle (z : ZB) (args : List String) : ZB × String :=
  match args with
  | ["zb", "clear"] => ({}, "ok")
  | ["zb", "c", s, o] => match ofHex s with
    | some s => ({ z with c := (s, resOf o) :: z.c }, "ok") | none => (z, "bad-op")
  | ["zb", "u", s, n, o] => match ofHex s, n.toNat? with
    | some s, some n => ({ z with u := ((s, n), resOf o) :: z.u }, "ok") | _, _ => (z, "bad-op")
  | ["zb", "e", s, o] => match ofHex s, ofHex o with
    | some s, some o => ({ z with e := (s, o) :: z.e }, "ok") | _, _ => (z, "bad-op")
  | ["zb", "l", s, o] => match ofHex s with
    | some s => ({ z with l := (s, if o == "!" then .err "oracle" else match o.toNat? with | some n => .ok n | none => .panic "bad number") :: z.l }, "ok")
    | none => (z, "bad-op")
  | ["zb", "d", s, o] => match ofHex s with
    | some s => ({ z with d := (s, resOf o) :: z.d }, "ok") | none => (z, "bad-op")
  | ["cmp", alg, op, h] => match ofHex h with
    | some x =>
      (z, match alg, op with
        | "lz4", "c" => show1 (lz4Compress z.codec x)
        | "lz4", "cwl" => show1 (lz4CompressWithLength z.codec x)
        | "lz4", "d" => show1 (lz4Decompress z.codec x)
        | "lz4", "dwl" => show2 (lz4DecompressWithLengthRest z.codec x)
        | "snappy", "cwl" => show1 (snappyCompressWithLength z.codec x)
        | "snappy", "dwl" => show2 (snappyDecompressWithLengthRest z.codec x)
        | _, _ => "bad-op")
    | none => (z, "bad-op")
  | _ => (z, "bad-op")

end Driver.Cmp
