import Cql.Gen.Accessors
namespace Driver.C20
open Cql Cql.Gen

structure S where
  m : OptMap := OptMap.empty
  f : MutFrame := { flags := 0, tracingId := none, customPayload := none, warnings := none, opcode := 0 }

def showFrame (f : MutFrame) : String :=
  let o {α} (x : Option (List α)) : String := match x with | none => "nil" | some l => toString l.length
  s!"{f.flags} {match f.tracingId with | none => "nil" | some t => hexOrDash t} {o f.customPayload} {o f.warnings}"

def boolOf (s : String) : Option Bool := if s == "true" then some true else if s == "false" then some false else none

def dummyPayload (n : Nat) : List (Bytes × Option Bytes) := (List.range n).map fun i => ([UInt8.ofNat i], some [1])
def dummyWarnings (n : Nat) : List Bytes := (List.range n).map fun i => [UInt8.ofNat i]

/-- STARTUP: `snew` | `sput <hexkey> <hexval>` | `sset <Name> <hex|bool>` | `sget <Name>`
    frame:   `fnew <flags> <opcode>` | `fpayload nil|n` | `fwarn nil|n` | `ftracing nil|hex` | `freq b` | `fcompress b` -/
def handle (s : S) (args : List String) : S × String :=
  match args with
  | ["snew"] => ({ s with m := OptMap.empty }, "ok")
  | ["sput", k, v] => match ofHex k, ofHex v with
    | some k, some v => ({ s with m := s.m.set k v }, "ok")
    | _, _ => (s, "bad-op")
  | ["sset", name, v] =>
    let str (f : OptMap → Bytes → OptMap) : S × String := match ofHex v with
      | some x => ({ s with m := f s.m x }, "ok") | none => (s, "bad-op")
    match name with
    | "Compression" => str Startup_SetCompression
    | "ClientId" => str Startup_SetClientId
    | "ApplicationName" => str Startup_SetApplicationName
    | "ApplicationVersion" => str Startup_SetApplicationVersion
    | "DriverName" => str Startup_SetDriverName
    | "DriverVersion" => str Startup_SetDriverVersion
    | "ThrowOnOverload" => match boolOf v with
      | some b => ({ s with m := Startup_SetThrowOnOverload s.m b }, "ok") | none => (s, "bad-op")
    | _ => (s, "bad-op")
  | ["sget", name] =>
    match name with
    | "Compression" => (s, hexOrDash (Startup_GetCompression s.m))
    | "ClientId" => (s, hexOrDash (Startup_GetClientId s.m))
    | "ApplicationName" => (s, hexOrDash (Startup_GetApplicationName s.m))
    | "ApplicationVersion" => (s, hexOrDash (Startup_GetApplicationVersion s.m))
    | "DriverName" => (s, hexOrDash (Startup_GetDriverName s.m))
    | "DriverVersion" => (s, hexOrDash (Startup_GetDriverVersion s.m))
    | "ThrowOnOverload" => (s, toString (Startup_IsThrowOnOverload s.m))
    | _ => (s, "bad-op")
  | ["sraw", k] => match ofHex k with
    | some k => (s, match s.m k with | none => "nil" | some v => hexOrDash v)
    | none => (s, "bad-op")
  | ["fnew", fl, op] => match fl.toNat?, op.toNat? with
    | some fl, some op =>
      let f : MutFrame := { flags := fl, tracingId := none, customPayload := none, warnings := none, opcode := op }
      ({ s with f := f }, showFrame f)
    | _, _ => (s, "bad-op")
  | ["fpayload", a] =>
    let p := if a == "nil" then some none else a.toNat?.map (fun n => some (dummyPayload n))
    match p with
    | some p => let f := Frame_SetCustomPayload s.f p; ({ s with f := f }, showFrame f)
    | none => (s, "bad-op")
  | ["fwarn", a] =>
    let p := if a == "nil" then some none else a.toNat?.map (fun n => some (dummyWarnings n))
    match p with
    | some p => let f := Frame_SetWarnings s.f p; ({ s with f := f }, showFrame f)
    | none => (s, "bad-op")
  | ["ftracing", a] =>
    let p := if a == "nil" then some none else (ofHex a).map some
    match p with
    | some p => let f := Frame_SetTracingId s.f p; ({ s with f := f }, showFrame f)
    | none => (s, "bad-op")
  | ["freq", a] => match boolOf a with
    | some b => let f := Frame_RequestTracingId s.f b; ({ s with f := f }, showFrame f)
    | none => (s, "bad-op")
  | ["fcompress", a] => match boolOf a with
    | some b => let f := Frame_SetCompress s.f b; ({ s with f := f }, showFrame f)
    | none => (s, "bad-op")
  | _ => (s, "bad-op")

end Driver.C20
