import Cql.Bytes
import Cql.Gen.Constants
import Cql.Impl.Features
namespace Driver.C19
open Cql Cql.Gen

/-- `c19 valid <Type> <n>` / `c19 validstr <Type> <hex>` / `c19 feat <version> <Feature>` /
    `c19 req <op>` / `c19 resp <op>` / `c19 supported <v>` -/
def handle (args : List String) : String :=
  match args with
  | ["valid", ty, n] =>
    match natCodeTypes.find? (·.1 == ty), n.toNat? with
    | some t, some x =>
      match t.2.2.2.1 with
      | some cs => toString (cs.contains x)
      | none => "no-check"
    | _, _ => "bad-op"
  | ["validstr", ty, h] =>
    match strCodeTypes.find? (·.1 == ty), ofHex h with
    | some t, some x =>
      match t.2.2 with
      | some cs => toString (cs.contains x)
      | none => "no-check"
    | _, _ => "bad-op"
  | ["named", ty, n] =>
    match natCodeTypes.find? (·.1 == ty), n.toNat? with
    | some t, some x =>
      match t.2.2.2.2 with
      | some cs => toString ((cs.map (·.1)).contains x)
      | none => "no-check"
    | _, _ => "bad-op"
  | ["feat", v, f] =>
    match v.toNat?, Impl.featureByName f with
    | some v, some f => toString (Impl.implFeature v f)
    | _, _ => "bad-op"
  | ["req", n] => match n.toNat? with
    | some x => toString (OpCode_IsRequest x) | none => "bad-op"
  | ["resp", n] => match n.toNat? with
    | some x => toString (OpCode_IsResponse x) | none => "bad-op"
  | ["supported", n] => match n.toNat? with
    | some x => toString (ProtocolVersion_IsSupported x) | none => "bad-op"
  | _ => "bad-op"

end Driver.C19
