import Cql.Segment
namespace Driver.Seg
open Cql Cql.Segment Cql.Crc

structure Z where
  ctab : List (Bytes × Res Bytes) := []
  dtab : List (Bytes × Res Bytes) := []

def Z.comp (z : Z) : PayloadCompressor :=
  { compress := fun raw => match z.ctab.find? (·.1 == raw) with | some p => p.2 | none => .err "compress: not in oracle table"
    decompress := fun c => match z.dtab.find? (·.1 == c) with | some p => p.2 | none => .err "decompress: not in oracle table" }

def comp (z : Z) (flag : String) : Option PayloadCompressor := if flag == "z" then some z.comp else none

def boolOf (s : String) : Option Bool := if s == "true" then some true else if s == "false" then some false else none

/-- `crc 24 <data> <len>` | `crc 32 <hex>` | `zs clear` | `zs c <raw> <compressed|!>` | `zs d <compressed> <raw|!>` |
    `seg enc <none|z> <selfContained> <hex>` | `seg dec <none|z> <hex>` -/
def handle (z : Z) (args : List String) : Z × String :=
  match args with
  | ["crc", "24", d, l] => match d.toNat?, l.toNat? with
    | some d, some l => (z, toString (crc24 (BitVec.ofNat 64 d) l).toNat)
    | _, _ => (z, "bad-op")
  | ["crc", "32", h] => match ofHex h with
    | some bs => (z, toString (checksumIEEE bs).toNat)
    | none => (z, "bad-op")
  | ["zs", "clear"] => ({}, "ok")
  | ["zs", "c", raw, c] => match ofHex raw with
    | some r => ({ z with ctab := (r, if c == "!" then .err "oracle" else match ofHex c with
        | some x => .ok x | none => .err "bad hex") :: z.ctab }, "ok")
    | none => (z, "bad-op")
  | ["zs", "d", c, raw] => match ofHex c with
    | some x => ({ z with dtab := (x, if raw == "!" then .err "oracle" else match ofHex raw with
        | some r => .ok r | none => .err "bad hex") :: z.dtab }, "ok")
    | none => (z, "bad-op")
  | ["seg", "enc", flag, sc, h] => match boolOf sc, ofHex h with
    | some sc, some p => (z, match encodeSegment (comp z flag) sc p with
        | .ok b => "ok " ++ hexOrDash b
        | .err _ => "err"
        | .panic s => "panic " ++ s)
    | _, _ => (z, "bad-op")
  | ["seg", "dec", flag, h] => match ofHex h with
    | some bs => (z, match (decodeSegment (comp z flag)).run bs with
        | .ok (s, rest) => s!"ok {bs.length - rest.length} {s.header.isSelfContained} {s.header.uncompressedPayloadLength} {s.header.compressedPayloadLength} {s.header.crc24} {s.crc32} {hexOrDash s.payload}"
        | .err _ => "err"
        | .panic s => "panic " ++ s)
    | none => (z, "bad-op")
  | _ => (z, "bad-op")

end Driver.Seg
