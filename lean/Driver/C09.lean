import Cql.Inflight
namespace Driver.C09
open Cql.Inflight

def showOut : Out → String
  | .sent id h => s!"sent {id} {h}"
  | .delivered => "delivered"
  | .got t => s!"got {t}"
  | .empty => "empty"
  | .chanClosed => "closed"
  | .ok => "ok"
  | .err _ => "err"

def boolOf (s : String) : Option Bool := if s == "true" then some true else if s == "false" then some false else none

/-- `inf new N P` | `inf send k` | `inf deliver k last tag` | `inf consume h` | `inf close` | `inf stat` -/
def handle (s : S) (args : List String) : S × String :=
  match args with
  | ["new", n, p] => match n.toNat?, p.toNat? with
    | some n, some p => (init n p, "ok")
    | _, _ => (s, "bad-op")
  | ["send", k] => match k.toInt? with
    | some k => let (s', o) := step s (.send k); (s', showOut o)
    | none => (s, "bad-op")
  | ["deliver", k, l, t] => match k.toInt?, boolOf l, t.toNat? with
    | some k, some l, some t => let (s', o) := step s (.deliver k l t); (s', showOut o)
    | _, _, _ => (s, "bad-op")
  | ["consume", h] => match h.toNat? with
    | some h => let (s', o) := step s (.consume h); (s', showOut o)
    | none => (s, "bad-op")
  | ["close"] => let (s', o) := step s .close; (s', showOut o)
  | ["stat"] => (s, s!"{s.inFlight.length} {s.free.length}")
  | _ => (s, "bad-op")

end Driver.C09
