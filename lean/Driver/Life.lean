import Cql.Timer
namespace Driver.Life
open Cql.Timer

def parseEv (t : String) : Option Ev :=
  if t == "s" then some .send
  else if t == "c" then some .close
  else
    let rest := (t.drop 1).toString
    match t.front, rest.toNat? with
    | 'p', some h => some (.page h false)
    | 'l', some h => some (.page h true)
    | 'a', some d => some (.advance d)
    | _, _ => none

def showWhy : Option Why → String
  | none => "nil"
  | some .timeout => "timeout"
  | some .handlerClosed => "closed"

def showReq (r : Req) : String :=
  (if r.done then "done" else "open") ++ "," ++ showWhy r.err ++ "," ++ toString r.delivered ++ "," ++
    (match r.firedAt with | some t => toString t | none => "-")

def showOut : Out → String
  | .ok => "ok" | .refused => "refused" | .unknown => "unknown" | .requestClosed => "request-closed"

/-- `life <T> <ev>…` with events `s` (send) `p<h>` (page for request h) `l<h>` (last page) `a<dt>` (time passes) `c` (close)
    → the outcome of every event, then the final state of every request -/
def handle (args : List String) : String :=
  match args with
  | t :: evs =>
    match t.toNat?, evs.mapM parseEv with
    | some T, some es =>
      let r := es.foldl (fun (acc : H × List String) e => let so := step acc.1 e; (so.1, acc.2 ++ [showOut so.2])) (({ T := T } : H), [])
      " ".intercalate r.2 ++ " | " ++ ";".intercalate (r.1.reqs.map showReq)
    | _, _ => "bad-op"
  | _ => "bad-op"

end Driver.Life
