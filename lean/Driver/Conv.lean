import Cql.Gen.Conversions
namespace Driver.Conv
open Cql.Gen.Conv

/-- `conv <helper> <int>` → `ok <int>` | `err` -/
def handle (args : List String) : String :=
  match args with
  | [name, v] => match helpers.find? (·.1 == name), v.toInt? with
    | some h, some x => (match h.2.2.2 x with | .ok y => s!"ok {y}" | .error _ => "err")
    | _, _ => "bad-op"
  | _ => "bad-op"

end Driver.Conv
