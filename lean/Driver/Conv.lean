import Cql.Gen.Conversions
import Cql.TimeConv
namespace Driver.Conv
open Cql.Gen.Conv

def showR : Cql.TimeConv.R → String
  | .ok v => s!"ok {v}"
  | .outOfRange => "err"

/-- `conv time millis <unix seconds> <nanos>`, `conv time totime <millis>`, `conv time days <unix seconds>`,
`conv time fromdays <days>`, `conv time dur <nanos>`: the overflow-checked time conversions of `Cql/TimeConv.lean` -/
def timeOp : List String → String
  | ["millis", s, n] => match s.toInt?, n.toInt? with
    | some s, some n => showR (Cql.TimeConv.timeToEpochMillis s n)
    | _, _ => "bad-op"
  | ["totime", m] => match m.toInt? with
    | some m => let r := Cql.TimeConv.epochMillisToTime m; s!"{r.1} {r.2}"
    | none => "bad-op"
  | ["days", s] => match s.toInt? with
    | some s => showR (Cql.TimeConv.timeToEpochDays s)
    | none => "bad-op"
  | ["fromdays", d] => match d.toInt? with
    | some d => s!"{Cql.TimeConv.epochDaysToTime d}"
    | none => "bad-op"
  | ["dur", d] => match d.toInt? with
    | some d => showR (Cql.TimeConv.durationToNanosOfDay d)
    | none => "bad-op"
  | _ => "bad-op"

/-- `conv <helper> <int>` → `ok <int>` | `err` -/
def handle (args : List String) : String :=
  match args with
  | "time" :: rest => timeOp rest
  | [name, v] => match helpers.find? (·.1 == name), v.toInt? with
    | some h, some x => (match h.2.2.2 x with | .ok y => s!"ok {y}" | .error _ => "err")
    | _, _ => "bad-op"
  | _ => "bad-op"

end Driver.Conv
