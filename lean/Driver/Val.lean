import Cql.Value
import Cql.Vint
/-!
Line protocol for the CQL value codecs (C11–C14, C04 at value level):

  `val <version> <typehex> <valuehex|~>`

`<typehex>` is a type descriptor (`[option]`) read with `Cql.DataType.read version`; `<valuehex>` is the value's bytes
(`-` = empty non-nil byte string, `~` = NULL / nil). The answer is

  `ok <text> <rehex>`   the value decoded; `<text>` its canonical rendering, `<rehex>` = `encode` of the decoded value
                         (hex, `-` for empty, `~` for NULL; `err` / `panic:<site>` if re-encoding fails)
  `err`                 the decoder (or the type reader) returned an error
  `panic <site>`        the decoder reached a run-time panic

Canonical rendering: null `~`; integers decimal; bool `T`/`F`; float `f` + 8 hex digits of the bits; double `d` + 16;
bytes-like values lowercase hex (`-` when empty); decimal `<unscaled>e<scale>`; duration `<months>/<days>/<nanos>`;
list/set `[a,b,c]`; map `{k:v,k:v}` with Go-map semantics (a later duplicate key replaces the earlier entry) and the
entries sorted by rendered key; tuple `(a,b)`; udt `<a,b>` in declaration order.
-/
namespace Driver.Val
open Cql Cql.Prim Cql.Value Cql.Vint

/-- later duplicate key wins -/
def putEntry (k v : String) : List (String × String) → List (String × String)
  | [] => [(k, v)]
  | (k', v') :: es => if k' == k then (k, v) :: es else (k', v') :: putEntry k v es

def insertSorted (e : String × String) : List (String × String) → List (String × String)
  | [] => [e]
  | e' :: es => if e.1 < e'.1 then e :: e' :: es else e' :: insertSorted e es

/-- Go-map semantics, then plain string order of the keys -/
def canonEntries (es : List (String × String)) : List (String × String) :=
  (es.foldl (fun acc e => putEntry e.1 e.2 acc) []).foldl (fun acc e => insertSorted e acc) []

mutual
def render : CqlVal → String
  | .int v => toString v
  | .bool b => if b then "T" else "F"
  | .float bits => "f" ++ toHex (beBytes 4 bits)
  | .double bits => "d" ++ toHex (beBytes 8 bits)
  | .bytes b => hexOrDash b
  | .decimal u s => toString u ++ "e" ++ toString s
  | .duration m d n => toString m ++ "/" ++ toString d ++ "/" ++ toString n
  | .list xs => "[" ++ ",".intercalate (renderOpts xs) ++ "]"
  | .map es => "{" ++ ",".intercalate ((canonEntries (renderEntries es)).map fun e => e.1 ++ ":" ++ e.2) ++ "}"
  | .tuple fs => "(" ++ ",".intercalate (renderOpts fs) ++ ")"
  | .udt fs => "<" ++ ",".intercalate (renderOpts fs) ++ ">"
def renderOpt : Option CqlVal → String
  | none => "~"
  | some v => render v
def renderOpts : List (Option CqlVal) → List String
  | [] => []
  | o :: os => renderOpt o :: renderOpts os
def renderEntry : Option CqlVal × Option CqlVal → String × String
  | (k, v) => (renderOpt k, renderOpt v)
def renderEntries : List (Option CqlVal × Option CqlVal) → List (String × String)
  | [] => []
  | e :: es => renderEntry e :: renderEntries es
end

def showBytes : Option Bytes → String
  | none => "~"
  | some b => hexOrDash b

def showRe : Res (Option Bytes) → String
  | .ok b => showBytes b
  | .err _ => "err"
  | .panic s => "panic:" ++ s

/-- `~` is the nil slice, `-` the empty non-nil one -/
def parseValue (s : String) : Option (Option Bytes) :=
  if s == "~" then some none else (ofHex s).map some

def run (version : Nat) (t : DataType) (input : Option Bytes) : String :=
  match decode version t input with
  | .ok v => "ok " ++ renderOpt v ++ " " ++ showRe (encode version t v)
  | .err _ => "err"
  | .panic s => "panic " ++ s

/-- `val vint u <n>`: bytes of `WriteUnsignedVint(n)` and `LengthOfUnsignedVint(n)`; `val vint s <n as uint64>`: the same for the
zig-zag `WriteVint`/`LengthOfVint` of the int64 with that bit pattern; `val vint r <hex>`: `ReadUnsignedVint` and `ReadVint`
(value as uint64 bit pattern, bytes consumed). -/
def vintOp : List String → String
  | ["u", n] => match n.toNat? with
    | some v => if v < 18446744073709551616 then toHex (writeUnsignedVint v) ++ " " ++ toString (lengthOfUnsignedVint v) else "bad-op"
    | none => "bad-op"
  | ["s", n] => match n.toNat? with
    | some v => if v < 18446744073709551616 then
        toHex (writeVint (BitVec.ofNat 64 v)) ++ " " ++ toString (lengthOfVint (BitVec.ofNat 64 v)) else "bad-op"
    | none => "bad-op"
  | ["r", h] => match ofHex h with
    | some bs =>
      let u := match readUnsignedVint.run bs with
        | .ok (v, rest) => "ok " ++ toString v ++ " " ++ toString (bs.length - rest.length)
        | .err _ => "err"
        | .panic s => "panic " ++ s
      let z := match readVint.run bs with
        | .ok (v, rest) => "ok " ++ toString v.toNat ++ " " ++ toString (bs.length - rest.length)
        | .err _ => "err"
        | .panic s => "panic " ++ s
      u ++ " | " ++ z
    | none => "bad-op"
  | _ => "bad-op"

def handle (args : List String) : String :=
  let args := match args with | "val" :: rest => rest | _ => args
  match args with
  | "vint" :: rest => vintOp rest
  | [ver, typehex, valhex] =>
    match ver.toNat?, ofHex typehex, parseValue valhex with
    | some version, some tb, some input =>
      match (DataType.read version).run tb with
      | .ok (t, _) => run version t input
      | .err _ => "err"
      | .panic s => "panic " ++ s
    | _, _, _ => "bad-op"
  | _ => "bad-op"

end Driver.Val
