import Driver.C19
import Driver.C20
import Driver.C09
import Driver.Frame
import Driver.Seg
import Driver.Conv
import Driver.Cmp
import Driver.DeepCopy
import Driver.Spec
import Driver.Val
import Driver.Life
import Driver.Conn
/-! Line-protocol driver: one operation per input line, one canonical answer per output line. -/

structure St where
  c20 : Driver.C20.S := {}
  inf : Cql.Inflight.S := Cql.Inflight.init 0 0
  z : Driver.Frame.Z := {}
  zs : Driver.Seg.Z := {}
  zb : Driver.Cmp.ZB := {}

def step (st : St) (line : String) : St × String :=
  match (line.trimAscii.toString.splitOn " ").filter (· ≠ "") with
  | "c19" :: args => (st, Driver.C19.handle args)
  | "frame" :: args => let (z, o) := Driver.Frame.handle st.z ("frame" :: args); ({ st with z := z }, o)
  | "crc" :: args => let (z, o) := Driver.Seg.handle st.zs ("crc" :: args); ({ st with zs := z }, o)
  | "zs" :: args => let (z, o) := Driver.Seg.handle st.zs ("zs" :: args); ({ st with zs := z }, o)
  | "seg" :: args => let (z, o) := Driver.Seg.handle st.zs ("seg" :: args); ({ st with zs := z }, o)
  | "zb" :: args => let (z, o) := Driver.Cmp.handle st.zb ("zb" :: args); ({ st with zb := z }, o)
  | "cmp" :: args => let (z, o) := Driver.Cmp.handle st.zb ("cmp" :: args); ({ st with zb := z }, o)
  | "dc" :: args => (st, Driver.DeepCopy.handle args)
  | "spec" :: args => (st, Driver.Spec.handle args)
  | "val" :: args => (st, Driver.Val.handle args)
  | "life" :: args => (st, Driver.Life.handle args)
  | "conn" :: args => (st, Driver.Conn.handle ("conn" :: args))
  | "conv" :: args => (st, Driver.Conv.handle args)
  | "prim" :: args => let (z, o) := Driver.Frame.handle st.z ("prim" :: args); ({ st with z := z }, o)
  | "z" :: args => let (z, o) := Driver.Frame.handle st.z ("z" :: args); ({ st with z := z }, o)
  | "inf" :: args => let (s, o) := Driver.C09.handle st.inf args; ({ st with inf := s }, o)
  | "c20" :: args => let (s, o) := Driver.C20.handle st.c20 args; ({ st with c20 := s }, o)
  | _ => (st, "bad-op")

partial def loop (h : IO.FS.Stream) (out : IO.FS.Stream) (st : St) : IO Unit := do
  let line ← h.getLine
  if line.isEmpty then return ()
  let (st', o) := step st line
  out.putStrLn o
  loop h out st'

def main : IO Unit := do
  let out ← IO.getStdout
  loop (← IO.getStdin) out {}
  out.flush
