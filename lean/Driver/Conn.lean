import Cql.Conn
import Cql.Show
namespace Driver.Conn
open Cql Cql.Impl Cql.Conn

/-- `sc:<hex>` = payload of a self-contained segment, `mp:<hex>` = payload of a non-self-contained one (`-` = empty) -/
def parseItem (s : String) : Option (Bool × Bytes) :=
  match s.splitOn ":" with
  | ["sc", h] => (ofHex h).map fun b => (true, b)
  | ["mp", h] => (ofHex h).map fun b => (false, b)
  | _ => none

def parseItems : List String → Option (List (Bool × Bytes))
  | [] => some []
  | s :: ss => do
    let x ← parseItem s
    let xs ← parseItems ss
    pure (x :: xs)

/-- frames joined by ` | ` (`-` when none), then ` ABORT` when the connection aborts -/
def render (frames : List Frame) (abort : Bool) : String :=
  (if frames.isEmpty then "-" else " | ".intercalate (frames.map Show.frame)) ++ (if abort then " ABORT" else "")

/-- the modern-layout `incomingLoop` over a raw byte stream without compression, server view: segments are decoded one
    after the other with `decodeSegment none` and handed to `onSegment`; a clean end of the stream is not an abort -/
def wire (client : Bool) : Nat → St → Bytes → List Frame × Bool
  | 0, _, _ => ([], true)
  | fuel + 1, st, s =>
    if s.isEmpty then ([], false)
    else match (Segment.decodeSegment none).run s with
      | .ok (seg, rest) =>
        let r := if client then onSegmentClient none st seg.header.isSelfContained seg.payload
                 else onSegment none st seg.header.isSelfContained seg.payload
        if r.2.2 then (r.2.1, true)
        else
          let t := wire client fuel r.1 rest
          (r.2.1 ++ t.1, t.2)
      | .err _ => ([], true)
      | .panic _ => ([], true)

def modernSt : St := { modernLayout := true, acc := Acc.empty }

/-- `conn recv <sc:hex|mp:hex>…`  → frames delivered by `onSegment` (server view: no fatal-ERROR cut), ` ABORT` on abort
    `conn crecv <…>`              → the same through the client's `processIncomingFrame` (stops after a fatal ERROR)
    `conn wire <hex>`             → raw modern-layout stream, no compressor, server view
    `conn cwire <hex>`            → the same, client view
    `conn wseg <hex>`             → `<hex>` is a legacy-encoded frame: decode it (no compressor) and send it with
                                    `writeSegment none none`: `ok <segment hex>` | `err` | `panic <site>` -/
def handle (args : List String) : String :=
  match args with
  | "conn" :: "recv" :: items =>
    match parseItems items with
    | some xs => let r := onSegments none modernSt xs; render r.2.1 r.2.2
    | none => "bad-op"
  | "conn" :: "crecv" :: items =>
    match parseItems items with
    | some xs => let r := onSegmentsClient none modernSt xs; render r.2.1 r.2.2
    | none => "bad-op"
  | ["conn", "wire", h] =>
    match ofHex h with
    | some bs => let r := wire false (bs.length + 1) modernSt bs; render r.1 r.2
    | none => "bad-op"
  | ["conn", "cwire", h] =>
    match ofHex h with
    | some bs => let r := wire true (bs.length + 1) modernSt bs; render r.1 r.2
    | none => "bad-op"
  | ["conn", "wseg", h] =>
    match ofHex h with
    | some bs =>
      (match (decodeFrame none).run bs with
        | .ok (f, _) => (match writeSegment none none f with
            | .ok b => "ok " ++ hexOrDash b
            | .err _ => "err"
            | .panic s => "panic " ++ s)
        | .err _ => "err"
        | .panic s => "panic " ++ s)
    | none => "bad-op"
  | _ => "bad-op"

end Driver.Conn
