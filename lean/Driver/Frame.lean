import Cql.Impl.Frame
import Cql.Show
namespace Driver.Frame
open Cql Cql.Impl

/-- block-codec oracle tables filled by the harness from the real LZ4 / Snappy libraries -/
structure Z where
  dtab : List (Bytes × Res (Bytes × Bytes)) := []
  ctab : List (Bytes × Res Bytes) := []

def Z.compressor (z : Z) : BodyCompressor :=
  { compressWithLength := fun raw => match z.ctab.find? (·.1 == raw) with
      | some p => p.2 | none => .err "compress: not in oracle table"
    decompressWithLength := fun chunk => match z.dtab.find? (·.1 == chunk) with
      | some p => p.2 | none => .err "decompress: not in oracle table" }

def comp (z : Z) (flag : String) : Option BodyCompressor := if flag == "z" then some z.compressor else none

def showRes {α} (f : α → String) : Res α → String
  | .ok a => "ok " ++ f a
  | .err _ => "err"
  | .panic s => "panic " ++ s

/-- `z clear` | `z d <chunk> <raw|!> <unread>` | `z c <raw> <compressed|!>`
    `frame dec <none|z> <hex>`  → `ok <consumed> <frame text> | err | panic <site>`
    `frame rt <none|z> <hex>`   → decode, re-encode the decoded frame: `ok <hex> <declaredBodyLength>` | `err` …
    `frame hdr <hex>` → header only; `frame raw <hex>` → raw frame: `ok <consumed> <header text> <bodyhex>` -/
def handle (z : Z) (args : List String) : Z × String :=
  match args with
  | ["z", "clear"] => ({}, "ok")
  | ["z", "d", chunk, raw, unread] =>
    match ofHex chunk, ofHex unread with
    | some c, some u =>
      let r : Res (Bytes × Bytes) := if raw == "!" then .err "oracle" else match ofHex raw with
        | some r => .ok (r, u) | none => .err "bad hex"
      ({ z with dtab := (c, r) :: z.dtab }, "ok")
    | _, _ => (z, "bad-op")
  | ["z", "c", raw, compressed] =>
    match ofHex raw with
    | some r =>
      let v : Res Bytes := if compressed == "!" then .err "oracle" else match ofHex compressed with
        | some c => .ok c | none => .err "bad hex"
      ({ z with ctab := (r, v) :: z.ctab }, "ok")
    | none => (z, "bad-op")
  | ["frame", "dec", flag, h] =>
    match ofHex h with
    | some bs =>
      (z, match (decodeFrame (comp z flag)).run bs with
        | .ok (f, rest) => s!"ok {bs.length - rest.length} {Show.frame f}"
        | .err _ => "err"
        | .panic s => "panic " ++ s)
    | none => (z, "bad-op")
  | ["frame", "rt", flag, h] =>
    match ofHex h with
    | some bs =>
      (z, match (decodeFrame (comp z flag)).run bs with
        | .ok (f, _) => (match encodeFrame (comp z flag) f with
            | .ok (b, bl) => s!"ok {hexOrDash b} {bl}"
            | .err _ => "encode-err"
            | .panic s => "panic " ++ s)
        | .err _ => "err"
        | .panic s => "panic " ++ s)
    | none => (z, "bad-op")
  | ["frame", "len", flag, h] =>
    -- decode, then the length calculators on the decoded frame
    match ofHex h with
    | some bs =>
      (z, match (decodeFrame (comp z flag)).run bs with
        | .ok (f, _) => (match uncompressedBodyLength f.header f.body, lengthOfMsg f.header.version f.body.message with
            | .ok n, .ok m => s!"ok {n} {m}"
            | _, _ => "len-err")
        | .err _ => "err"
        | .panic s => "panic " ++ s)
    | none => (z, "bad-op")
  | ["frame", "hdr", h] =>
    match ofHex h with
    | some bs =>
      (z, match decodeHeader.run bs with
        | .ok (hd, rest) => s!"ok {bs.length - rest.length} {Show.header hd}"
        | .err _ => "err"
        | .panic s => "panic " ++ s)
    | none => (z, "bad-op")
  | ["frame", "raw", h] =>
    match ofHex h with
    | some bs =>
      (z, match decodeRawFrame.run bs with
        | .ok (f, rest) => s!"ok {bs.length - rest.length} {Show.header f.header} {hexOrDash f.body}"
        | .err _ => "err"
        | .panic s => "panic " ++ s)
    | none => (z, "bad-op")
  | ["frame", "msg", v, op, h] =>
    match v.toNat?, op.toNat?, ofHex h with
    | some v, some op, some bs =>
      (z, match (decodeMsg v op).run bs with
        | .ok (m, rest) => s!"ok {bs.length - rest.length} {Show.msg m}"
        | .err _ => "err"
        | .panic s => "panic " ++ s)
    | _, _, _ => (z, "bad-op")
  | ["prim", name, v, h] =>
    match v.toNat?, ofHex h with
    | some v, some bs =>
      let run {α} (p : Parser α) : String := match p.run bs with
        | .ok (_, rest) => s!"ok {bs.length - rest.length}"
        | .err _ => "err"
        | .panic s => "panic " ++ s
      (z, match name with
        | "string" => run Prim.readString
        | "longstring" => run Prim.readLongString
        | "bytes" => run Prim.readBytes
        | "shortbytes" => run Prim.readShortBytes
        | "stringlist" => run Prim.readStringList
        | "stringmap" => run Prim.readStringMap
        | "multimap" => run Prim.readStringMultiMap
        | "bytesmap" => run Prim.readBytesMap
        | "uuid" => run Prim.readUuid
        | "inetaddr" => run Prim.readInetAddr
        | "inet" => run Prim.readInet
        | "value" => run (Prim.readValue v)
        | "posvalues" => run (Prim.readPositionalValues v)
        | "namedvalues" => run (Prim.readNamedValues v)
        | "reasonmap" => run Prim.readReasonMap
        | "streamid" => run (Prim.readStreamId v)
        | "datatype" => run (DataType.read v)
        | _ => "bad-op")
    | _, _ => (z, "bad-op")
  | _ => (z, "bad-op")

end Driver.Frame
