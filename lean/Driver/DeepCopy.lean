import Cql.DeepCopy
import Cql.Gen.DeepCopy
namespace Driver.DeepCopy
open Cql.DeepCopy Cql.Gen.DeepCopy

/-- `dc aliased` → the type-level paths at which the model predicts that a deep copy shares memory with its original
    (`-` when there are none); `dc covered` → whether the regenerated environment passes the coverage check;
    `dc types` → number of struct types -/
def handle (args : List String) : String :=
  match args with
  | ["aliased"] =>
    let ps := (env.types.map (aliasedOfType env)).flatten ++
      ((roots.filter fun r => !covers env (fuel env) r.2.1 r.2.2).map fun r => r.1 ++ "!root")
    if ps.isEmpty then "-" else ",".intercalate ps
  | ["covered"] => toString (env.ok && roots.all fun r => covers env (fuel env) r.2.1 r.2.2)
  | ["types"] => toString env.types.length
  | _ => "bad-op"

end Driver.DeepCopy
