import Cql.Prim
/-!
# [unsigned vint] and [vint] (mirrors `primitive/vint.go`)

`uint64` values are carried as `Nat` (callers keep them `< 2^64`); the zig-zag functions, which are pure 64-bit bit
manipulation, are written on `BitVec 64` exactly as in the Go source. Go's byte operations `byte(x)`, `x >> k`,
`x | y`, `x & y`, `^x` (on a byte) are `x % 256`, `x >>> k`, `x ||| y`, `x &&& y`, `x ^^^ 255`.
-/
namespace Cql.Vint
open Cql Cql.Prim

/-- `bits.Len64` / `big.Int.BitLen`: the number of bits needed to write `n`; 0 for 0 -/
def bitLen (n : Nat) : Nat := if n = 0 then 0 else n.log2 + 1

/-- `bits.LeadingZeros64(v)` -/
def leadingZeros64 (v : Nat) : Nat := 64 - bitLen v

/-- `bits.LeadingZeros32(v)` -/
def leadingZeros32 (v : Nat) : Nat := 32 - bitLen v

/-- `numBytes := (639 - magnitude*9) >> 6` as a function of the leading-zero count -/
def numBytesOfLz (lz : Nat) : Nat := (639 - lz * 9) >>> 6

/-- `magnitude := bits.LeadingZeros64(v); numBytes := (639 - magnitude*9) >> 6` (0 when `v = 0`) -/
def numBytes (v : Nat) : Nat := numBytesOfLz (leadingZeros64 v)

/-- `LengthOfUnsignedVint` -/
def lengthOfUnsignedVint (v : Nat) : Nat :=
  if numBytes v ≤ 1 then 1 else numBytes v

/-- `byte(^(0xff >> uint(extraBytes)))`: the `extraBytes` high bits of a byte -/
def firstByteMask (extraBytes : Nat) : Nat := (255 >>> extraBytes) ^^^ 255

/-- `buf[0] |= m` -/
def orHead (m : Nat) : Bytes → Bytes
  | [] => []
  | b :: bs => UInt8.ofNat (b.toNat ||| m) :: bs

/-- `WriteUnsignedVint`. The loop `for i := extraBytes; i >= 0; i-- { buf[i] = byte(v); v >>= 8 }` fills `buf` with the
    `numBytes` low bytes of `v`, big-endian, i.e. `beBytes numBytes v`. -/
def writeUnsignedVint (v : Nat) : Bytes :=
  if numBytes v ≤ 1 then [UInt8.ofNat (v % 256)]
  else orHead (firstByteMask (numBytes v - 1)) (beBytes (numBytes v) v)

/-- `remainingBytes := bits.LeadingZeros32(uint32(^firstByte)) - 24` -/
def remainingBytes (firstByte : Nat) : Nat := leadingZeros32 (firstByte ^^^ 255) - 24

/-- one turn of `val <<= 8; val |= uint64(tail[i] & 0xff)` on a `uint64` -/
def shiftIn (val : Nat) (b : UInt8) : Nat := (val <<< 8) % 18446744073709551616 ||| (b.toNat &&& 255)

/-- `ReadUnsignedVint` (`io.ReadFull` errors on a short read; the count of bytes read is the parser's progress) -/
def readUnsignedVint : Parser Nat := do
  let firstByte ← readByte
  if firstByte &&& 128 = 0 then pure firstByte
  else do
    let tail ← take (remainingBytes firstByte)
    pure (tail.foldl shiftIn (firstByte &&& (255 >>> remainingBytes firstByte)))

/-- `encodeZigZag`: `uint64((n >> 63) ^ (n << 1))`, `>>` arithmetic on `int64` -/
def encodeZigZag (n : BitVec 64) : BitVec 64 := (n.sshiftRight 63) ^^^ (n <<< 1)

/-- `decodeZigZag`: `int64((n >> 1) ^ -(n & 1))`, `>>` logical on `uint64` -/
def decodeZigZag (n : BitVec 64) : BitVec 64 := (n >>> 1) ^^^ (-(n &&& 1#64))

/-- `WriteVint` -/
def writeVint (v : BitVec 64) : Bytes := writeUnsignedVint (encodeZigZag v).toNat

/-- `ReadVint` -/
def readVint : Parser (BitVec 64) := do
  let u ← readUnsignedVint
  pure (decodeZigZag (BitVec.ofNat 64 u))

/-- `LengthOfVint` -/
def lengthOfVint (v : BitVec 64) : Nat := lengthOfUnsignedVint (encodeZigZag v).toNat

end Cql.Vint
