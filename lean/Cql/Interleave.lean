/-!
# Interleavings of threads that only read what they share (generic part of C18)

A system of threads: every thread owns a local state (its frames, buffers, values, results) and all threads see one shared
state (the codec objects and package-level variables). A *step* of a thread is one codec call: it may read the shared state
and its own local state and produces a new local state — and, in general, a new shared state. `ReadOnly` says that no step
changes the shared state. Under `ReadOnly`, for every schedule each thread ends exactly where its own steps, run one
after another with nobody else around, would have brought it.
-/
namespace Cql.Interleave

structure Sys (Shared Local : Type) where
  /-- one codec call of thread `t` -/
  step : Nat → Shared → Local → Shared × Local

variable {Shared Local : Type}

/-- no step writes the shared state -/
def ReadOnly (sys : Sys Shared Local) : Prop := ∀ t s l, (sys.step t s l).1 = s

/-- global state: the shared part and every thread's local part -/
structure St (Shared Local : Type) where
  shared : Shared
  locals : Nat → Local

/-- thread `t` makes its next step -/
def Sys.exec (sys : Sys Shared Local) (st : St Shared Local) (t : Nat) : St Shared Local :=
  let r := sys.step t st.shared (st.locals t)
  { shared := r.1, locals := fun u => if u = t then r.2 else st.locals u }

/-- run a schedule (the list of thread ids in the order in which they get to make a step) -/
def Sys.run (sys : Sys Shared Local) (st : St Shared Local) (schedule : List Nat) : St Shared Local :=
  schedule.foldl sys.exec st

/-- thread `t` alone: `n` steps against the initial shared state -/
def Sys.alone (sys : Sys Shared Local) (s : Shared) (t : Nat) : Nat → Local → Local
  | 0, l => l
  | n + 1, l => sys.alone s t n (sys.step t s l).2

theorem run_shared (sys : Sys Shared Local) (h : ReadOnly sys) (schedule : List Nat) (st : St Shared Local) :
    (sys.run st schedule).shared = st.shared := by
  induction schedule generalizing st with
  | nil => rfl
  | cons t ts ih =>
    show (sys.run (sys.exec st t) ts).shared = st.shared
    rw [ih]; exact h t st.shared (st.locals t)

theorem alone_succ (sys : Sys Shared Local) (s : Shared) (t n : Nat) (l : Local) :
    sys.alone s t (n + 1) l = sys.alone s t n (sys.step t s l).2 := rfl

/-- **Interleaving = sequential.** With read-only sharing, after ANY schedule every thread's local state is what the
    thread computes by itself in as many steps as the schedule gave it. -/
theorem run_eq_alone (sys : Sys Shared Local) (h : ReadOnly sys) (schedule : List Nat) (st : St Shared Local) (t : Nat) :
    (sys.run st schedule).locals t = sys.alone st.shared t (schedule.count t) (st.locals t) := by
  induction schedule generalizing st with
  | nil => rfl
  | cons u us ih =>
    show (sys.run (sys.exec st u) us).locals t = _
    rw [ih]
    have hs : (sys.exec st u).shared = st.shared := h u st.shared (st.locals u)
    rw [hs]
    by_cases hut : u = t
    · subst hut
      rw [List.count_cons_self, alone_succ]
      simp [Sys.exec]
    · have : (u == t) = false := by simp [hut]
      rw [List.count_cons, this]
      simp [Sys.exec, Ne.symm hut]

/-- two schedules that give every thread the same number of steps end in the same state for every thread -/
theorem schedule_independent (sys : Sys Shared Local) (h : ReadOnly sys) (s1 s2 : List Nat) (st : St Shared Local)
    (hc : ∀ t, s1.count t = s2.count t) (t : Nat) :
    (sys.run st s1).locals t = (sys.run st s2).locals t := by
  rw [run_eq_alone sys h, run_eq_alone sys h, hc]

end Cql.Interleave
