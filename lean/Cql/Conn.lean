import Cql.Impl.Frame
import Cql.Segment
import Cql.Gen.Accessors
/-!
# Connection-level framing (`client/client.go`, `client/server.go`)

The part of `CqlClientConnection` / `CqlServerConnection` that decides HOW frames travel on the socket:

* legacy layout (v2–v4, DSE, and every handshake): frames back to back, body compression per frame;
* modern layout (v5 after READY / AUTHENTICATE): frames ("envelopes") inside checksummed segments, never compressed
  individually; a self-contained segment carries whole envelopes, a non-self-contained one carries a part of one envelope.

Mirrored functions: `incomingLoop` (dispatch on `modernLayout`), `readSegment`, `readSelfContainedSegment`,
`addMultiSegmentPayload` + `payloadAccumulator`, `writeSegment`, `writeFrame`, `readFrame`, `maybeSwitchToModernLayout`,
the server's adoption of the STARTUP compression, `NewBodyCompressor` / `NewPayloadCompressor`.

Modelled at /repo commit 9810261: the server's `writeSegment` stores the result of `Flags.Remove(COMPRESSED)`, its
`payloadAccumulator` is initialised, it does not flag responses of modern-layout versions as COMPRESSED, and
`addMultiSegmentPayload` (both sides) waits for a whole frame header before reading the target length. Goroutines, channels, time-outs and the in-flight table are not part of this model
(`Cql.Inflight`, `Cql.Timer`); "delivered" means handed to `processIncomingFrame`.

A Go run-time panic inside `DecodeFrame` would kill the reading goroutine; it is reported here as `abort` like an error
(`Cql.Props.C04` proves the decoders never panic).
-/
namespace Cql.Conn
open Cql Cql.Prim Cql.Gen Cql.Impl

/-! ## receiving: self-contained segments -/

/-- `readSelfContainedSegment`: `for payloadReader.Len() > 0 { if abort = readFrame(payloadReader); abort { break } }`.
    Returns the frames handed to `processIncomingFrame`, in order, and `abort`. A decoding error aborts and the rest of the
    payload is dropped. `fuel = payload.length + 1` is never exhausted: a successful `DecodeFrame` has read a header.
    (The same loop over the socket is the legacy layout's `incomingLoop`.) -/
def readFrames (c : Option BodyCompressor) : Nat → Bytes → List Frame × Bool
  | 0, _ => ([], true)
  | fuel + 1, s =>
    if s.isEmpty then ([], false)
    else match (decodeFrame c).run s with
      | .ok (f, rest) => (f :: (readFrames c fuel rest).1, (readFrames c fuel rest).2)
      | .err _ => ([], true)
      | .panic _ => ([], true)

/-! ## receiving: envelopes split over several segments -/

/-- `payloadAccumulator` (`targetLength` is a Go `int`; `accumulatedData` nil = empty) -/
structure Acc where
  targetLength : Int
  accumulatedData : Bytes
  deriving Repr, DecidableEq

/-- the zero value, and what `reset()` leaves -/
def Acc.empty : Acc := { targetLength := 0, accumulatedData := [] }

/-- `int(primitive.FrameHeaderLengthV3AndHigher + header.BodyLength)`: the sum is computed in `int32` (it wraps) -/
def targetLengthOf (bodyLength : Nat) : Int :=
  toInt32 ((FrameHeaderLengthV3AndHigher + bodyLength) % 4294967296)

/-- the tail of `addMultiSegmentPayload`: `if targetLength == len(accumulatedData) { reset(); return readFrame(…) }; return false`.
    The comparison is `==`; the accumulator is reset before the frame is decoded; bytes of the accumulated data beyond the
    frame are ignored. -/
def checkTarget (c : Option BodyCompressor) (target : Int) (data : Bytes) : Acc × List Frame × Bool :=
  if target = (data.length : Int) then
    match (decodeFrame c).run data with
    | .ok (f, _) => (Acc.empty, [f], false)
    | .err _ => (Acc.empty, [], true)
    | .panic _ => (Acc.empty, [], true)
  else ({ targetLength := target, accumulatedData := data }, [], false)

/-- `addMultiSegmentPayload`: new accumulator, frames delivered (at most one), abort. The part is appended first; while no
    target is known and fewer than 9 bytes have accumulated it waits; then the header is decoded from the ACCUMULATED bytes
    (an error aborts) and fixes the target. -/
def addPart (c : Option BodyCompressor) (acc : Acc) (part : Bytes) : Acc × List Frame × Bool :=
  if acc.targetLength = 0 then
    if (acc.accumulatedData ++ part).length < FrameHeaderLengthV3AndHigher then
      ({ targetLength := 0, accumulatedData := acc.accumulatedData ++ part }, [], false)
    else
      match decodeHeader.run (acc.accumulatedData ++ part) with
      | .ok (h, _) => checkTarget c (targetLengthOf h.bodyLength) (acc.accumulatedData ++ part)
      | .err _ => ({ targetLength := 0, accumulatedData := acc.accumulatedData ++ part }, [], true)
      | .panic _ => ({ targetLength := 0, accumulatedData := acc.accumulatedData ++ part }, [], true)
  else checkTarget c acc.targetLength (acc.accumulatedData ++ part)

/-- `addPart` over the payloads of consecutive non-self-contained segments; stops at the first abort -/
def addParts (c : Option BodyCompressor) : Acc → List Bytes → Acc × List Frame × Bool
  | acc, [] => (acc, [], false)
  | acc, p :: ps =>
    if (addPart c acc p).2.2 then addPart c acc p
    else ((addParts c (addPart c acc p).1 ps).1, (addPart c acc p).2.1 ++ (addParts c (addPart c acc p).1 ps).2.1,
          (addParts c (addPart c acc p).1 ps).2.2)

/-! ## receiving: one segment -/

structure St where
  modernLayout : Bool
  acc : Acc
  deriving Repr, DecidableEq

def St.init : St := { modernLayout := false, acc := Acc.empty }

/-- `readSegment` after `DecodeSegment` succeeded: dispatch on `Header.IsSelfContained`. This is the whole of the server's
    behaviour and the client's up to `clientView` below. -/
def onSegment (c : Option BodyCompressor) (st : St) (selfContained : Bool) (payload : Bytes) : St × List Frame × Bool :=
  if selfContained then (st, readFrames c (payload.length + 1) payload)
  else ({ st with acc := (addPart c st.acc payload).1 }, (addPart c st.acc payload).2)

/-! ## layout switch -/

def isReady (m : Msg) : Bool := match m with | .ready => true | _ => false
def isAuthenticate (m : Msg) : Bool := match m with | .authenticate _ => true | _ => false

/-- the condition of `maybeSwitchToModernLayout` apart from `!c.modernLayout` -/
def switches (version : Nat) (m : Msg) : Bool :=
  ProtocolVersion_SupportsModernFramingLayout version && (isReady m || isAuthenticate m)

/-- `maybeSwitchToModernLayout` (client: on every frame READ; server: on every frame WRITTEN by `writeFrame`) -/
def maybeSwitch (modernLayout : Bool) (f : Frame) : Bool :=
  if !modernLayout && switches f.header.version f.body.message then true else modernLayout

/-! ## the client's `processIncomingFrame`: a fatal ERROR response aborts after it has been delivered -/

def isFatal (f : Frame) : Bool :=
  match f.body.message with
  | .error e => ErrorCode_IsFatalError e.code
  | _ => false

/-- what the client makes of a batch of decoded frames: everything up to and including the first fatal ERROR is delivered,
    then the connection aborts (`readFrame` returns `abort` and the loops `break`) -/
def cutFatal : List Frame → Bool → List Frame × Bool
  | [], abort => ([], abort)
  | f :: fs, abort => if isFatal f then ([f], true) else (f :: (cutFatal fs abort).1, (cutFatal fs abort).2)

/-- client side of `onSegment`: `readFrame` = `maybeSwitchToModernLayout` + `processIncomingFrame` for each frame -/
def onSegmentClient (c : Option BodyCompressor) (st : St) (selfContained : Bool) (payload : Bytes) :
    St × List Frame × Bool :=
  let r := onSegment c st selfContained payload
  let d := cutFatal r.2.1 r.2.2
  ({ r.1 with modernLayout := d.1.foldl maybeSwitch r.1.modernLayout }, d)

/-! ## receiving from the byte stream -/

/-- result of one turn of `incomingLoop` -/
structure Recv where
  frames : List Frame
  st : St
  /-- the unread rest of the stream (the input itself when the turn aborted on a decoding error) -/
  rest : Bytes
  abort : Bool

/-- one turn of the client's `incomingLoop` on the stream `s` (an exhausted stream is a read error: abort) -/
def clientRecv (c : Option BodyCompressor) (sc : Option Segment.PayloadCompressor) (st : St) (s : Bytes) : Recv :=
  if st.modernLayout then
    match (Segment.decodeSegment sc).run s with
    | .ok (seg, rest) =>
      let r := onSegmentClient c st seg.header.isSelfContained seg.payload
      { frames := r.2.1, st := r.1, rest := rest, abort := r.2.2 }
    | .err _ => { frames := [], st := st, rest := s, abort := true }
    | .panic _ => { frames := [], st := st, rest := s, abort := true }
  else
    match (decodeFrame c).run s with
    | .ok (f, rest) =>
      { frames := [f], st := { st with modernLayout := maybeSwitch st.modernLayout f }, rest := rest, abort := isFatal f }
    | .err _ => { frames := [], st := st, rest := s, abort := true }
    | .panic _ => { frames := [], st := st, rest := s, abort := true }

/-! ### the server: compression is adopted from STARTUP -/

/-- the three compressor objects `NewBodyCompressor` / `NewPayloadCompressor` can return -/
structure Compressors where
  lz4Body : BodyCompressor
  snappyBody : BodyCompressor
  lz4Payload : Segment.PayloadCompressor

/-- `NewBodyCompressor` -/
def newBodyCompressor (k : Compressors) (compression : Bytes) : Option BodyCompressor :=
  if compression = CompressionNone then none
  else if compression = CompressionLz4 then some k.lz4Body
  else if compression = CompressionSnappy then some k.snappyBody
  else none

/-- `NewPayloadCompressor` ("Snappy not supported for payload compression") -/
def newPayloadCompressor (k : Compressors) (compression : Bytes) : Option Segment.PayloadCompressor :=
  if compression = CompressionNone then none
  else if compression = CompressionLz4 then some k.lz4Payload
  else none

/-- the decoded STARTUP options as the Go map they are (filled in wire order: the last entry of a key wins) -/
def optMapOf (l : List (Bytes × Bytes)) : OptMap :=
  fun key => (l.reverse.find? (fun p => p.1 == key)).map (·.2)

/-- `Startup.GetCompression()` (the regenerated accessor) on the decoded options; a nil map has no keys -/
def startupCompression (options : Option (List (Bytes × Bytes))) : Bytes :=
  Startup_GetCompression (optMapOf (options.getD []))

/-- server `readFrame`: `if startup, ok := incoming.Body.Message.(*message.Startup); ok { c.compression = … }` -/
def adopt (compression : Bytes) (f : Frame) : Bytes :=
  match f.body.message with
  | .startup o => startupCompression o
  | _ => compression

structure Srv where
  st : St
  compression : Bytes
  deriving Repr, DecidableEq

def Srv.init : Srv := { st := St.init, compression := CompressionNone }

/-- the server's `readSelfContainedSegment`: as `readFrames`, the codec being re-created after each STARTUP -/
def readFramesServer (k : Compressors) : Nat → Bytes → Bytes → List Frame × Bytes × Bool
  | 0, compression, _ => ([], compression, true)
  | fuel + 1, compression, s =>
    if s.isEmpty then ([], compression, false)
    else match (decodeFrame (newBodyCompressor k compression)).run s with
      | .ok (f, rest) =>
        (f :: (readFramesServer k fuel (adopt compression f) rest).1, (readFramesServer k fuel (adopt compression f) rest).2)
      | .err _ => ([], compression, true)
      | .panic _ => ([], compression, true)

/-- server side of `onSegment` -/
def onSegmentServer (k : Compressors) (srv : Srv) (selfContained : Bool) (payload : Bytes) : Srv × List Frame × Bool :=
  if selfContained then
    let r := readFramesServer k (payload.length + 1) srv.compression payload
    ({ srv with compression := r.2.1 }, r.1, r.2.2)
  else
    let r := addPart (newBodyCompressor k srv.compression) srv.st.acc payload
    ({ st := { srv.st with acc := r.1 }, compression := r.2.1.foldl adopt srv.compression }, r.2)

structure RecvS where
  frames : List Frame
  srv : Srv
  rest : Bytes
  abort : Bool

/-- one turn of the server's `incomingLoop` (reading never switches the layout on the server) -/
def serverRecv (k : Compressors) (srv : Srv) (s : Bytes) : RecvS :=
  if srv.st.modernLayout then
    match (Segment.decodeSegment (newPayloadCompressor k srv.compression)).run s with
    | .ok (seg, rest) =>
      let r := onSegmentServer k srv seg.header.isSelfContained seg.payload
      { frames := r.2.1, srv := r.1, rest := rest, abort := r.2.2 }
    | .err _ => { frames := [], srv := srv, rest := s, abort := true }
    | .panic _ => { frames := [], srv := srv, rest := s, abort := true }
  else
    match (decodeFrame (newBodyCompressor k srv.compression)).run s with
    | .ok (f, rest) => { frames := [f], srv := { srv with compression := adopt srv.compression f }, rest := rest, abort := false }
    | .err _ => { frames := [], srv := srv, rest := s, abort := true }
    | .panic _ => { frames := [], srv := srv, rest := s, abort := true }

/-! ## sending -/

/-- `writeFrame` into a byte sink -/
def writeLegacy (c : Option BodyCompressor) (f : Frame) : Res Bytes := do
  let r ← encodeFrame c f
  pure r.1

/-- `outgoing.Header.Flags = outgoing.Header.Flags.Remove(primitive.HeaderFlagCompressed)` -/
def clearCompressed (f : Frame) : Frame :=
  { f with header := { f.header with flags := HeaderFlag_Remove f.header.flags HeaderFlagCompressed } }

/-- `writeSegment`: the frame, its COMPRESSED flag cleared, is encoded into a buffer and the buffer is the payload of ONE
    self-contained segment (there is no splitting and no coalescing on the sending side) -/
def writeSegment (c : Option BodyCompressor) (sc : Option Segment.PayloadCompressor) (f : Frame) : Res Bytes := do
  let payload ← writeLegacy c (clearCompressed f)
  Segment.encodeSegment sc true payload

/-- one turn of the client's `outgoingLoop` -/
def clientSend (c : Option BodyCompressor) (sc : Option Segment.PayloadCompressor) (st : St) (f : Frame) : Res Bytes :=
  if st.modernLayout then writeSegment c sc f else writeLegacy c f

/-- the server's `outgoingLoop` sets COMPRESSED on every response when a compression was negotiated — except on versions
    with the modern framing layout, where compression belongs to the segments (this includes the unframed READY /
    AUTHENTICATE that answers STARTUP) -/
def markCompressed (compression : Bytes) (f : Frame) : Frame :=
  if compression ≠ CompressionNone ∧ ProtocolVersion_SupportsModernFramingLayout f.header.version = false then
    { f with header := { f.header with flags := HeaderFlag_Add f.header.flags HeaderFlagCompressed } }
  else f

/-- one turn of the server's `outgoingLoop` for a frame response: the layout is chosen BEFORE `writeFrame` runs
    `maybeSwitchToModernLayout`, so the READY / AUTHENTICATE that triggers the switch still goes out unframed -/
def serverSend (k : Compressors) (srv : Srv) (f : Frame) : Res Bytes × Srv :=
  if srv.st.modernLayout then
    (writeSegment (newBodyCompressor k srv.compression) (newPayloadCompressor k srv.compression)
      (markCompressed srv.compression f), srv)
  else
    (writeLegacy (newBodyCompressor k srv.compression) (markCompressed srv.compression f),
     { srv with st := { srv.st with modernLayout := maybeSwitch srv.st.modernLayout (markCompressed srv.compression f) } })

/-! ## a whole stream (for the line protocol and for stating the theorems) -/

/-- the client's `incomingLoop` until the stream is exhausted or the connection aborts; `fuel = s.length + 1` suffices -/
def clientRecvAll (c : Option BodyCompressor) (sc : Option Segment.PayloadCompressor) : Nat → St → Bytes → List Frame × St × Bool
  | 0, st, _ => ([], st, true)
  | fuel + 1, st, s =>
    if s.isEmpty then ([], st, false)
    else if (clientRecv c sc st s).abort then ((clientRecv c sc st s).frames, (clientRecv c sc st s).st, true)
    else ((clientRecv c sc st s).frames ++ (clientRecvAll c sc fuel (clientRecv c sc st s).st (clientRecv c sc st s).rest).1,
          (clientRecvAll c sc fuel (clientRecv c sc st s).st (clientRecv c sc st s).rest).2)

def serverRecvAll (k : Compressors) : Nat → Srv → Bytes → List Frame × Srv × Bool
  | 0, srv, _ => ([], srv, true)
  | fuel + 1, srv, s =>
    if s.isEmpty then ([], srv, false)
    else if (serverRecv k srv s).abort then ((serverRecv k srv s).frames, (serverRecv k srv s).srv, true)
    else ((serverRecv k srv s).frames ++ (serverRecvAll k fuel (serverRecv k srv s).srv (serverRecv k srv s).rest).1,
          (serverRecvAll k fuel (serverRecv k srv s).srv (serverRecv k srv s).rest).2)

/-- a sequence of already decoded segments `(selfContained, payload)` through `onSegment`; stops at the first abort -/
def onSegments (c : Option BodyCompressor) : St → List (Bool × Bytes) → St × List Frame × Bool
  | st, [] => (st, [], false)
  | st, x :: xs =>
    if (onSegment c st x.1 x.2).2.2 then onSegment c st x.1 x.2
    else ((onSegments c (onSegment c st x.1 x.2).1 xs).1,
          (onSegment c st x.1 x.2).2.1 ++ (onSegments c (onSegment c st x.1 x.2).1 xs).2.1,
          (onSegments c (onSegment c st x.1 x.2).1 xs).2.2)

/-- the client's view of the same (fatal ERROR cut) -/
def onSegmentsClient (c : Option BodyCompressor) : St → List (Bool × Bytes) → St × List Frame × Bool
  | st, [] => (st, [], false)
  | st, x :: xs =>
    if (onSegmentClient c st x.1 x.2).2.2 then onSegmentClient c st x.1 x.2
    else ((onSegmentsClient c (onSegmentClient c st x.1 x.2).1 xs).1,
          (onSegmentClient c st x.1 x.2).2.1 ++ (onSegmentsClient c (onSegmentClient c st x.1 x.2).1 xs).2.1,
          (onSegmentsClient c (onSegmentClient c st x.1 x.2).1 xs).2.2)

end Cql.Conn
