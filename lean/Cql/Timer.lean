/-!
# Request life-cycle with read timeouts and handler close (`client/inflight.go`), timed model for C16

Time is a natural number (any unit). One event = one call on the handler (`send`, a response `page`, `close`) or the passing
of time (`advance`), during which every timer whose deadline is reached fires. A request owns at most one live timer;
`deadline = none` means no live timer (stopped, or cancelled through the request's context when it completes).
The model follows the code after the repair of `resetTimeout` (pointer receiver): the new timer replaces the old one in the
request itself. `closes` counts how often the request's channel has been closed — a second close would be a run-time panic.
-/
namespace Cql.Timer

inductive Why where
  | timeout | handlerClosed
  deriving Repr, DecidableEq

structure Req where
  done : Bool := false              -- channel closed, `IsDone()`
  err : Option Why := none          -- `Err()`
  deadline : Option Nat := none     -- the live timer
  last : Nat := 0                   -- time of the last activity (send or page accepted)
  delivered : Nat := 0              -- frames accepted into the channel
  closes : Nat := 0                 -- number of `close(r.incoming)` executed
  firedAt : Option Nat := none      -- when the timeout fired, if it did
  deriving Repr, DecidableEq

structure H where
  T : Nat                           -- read timeout
  now : Nat := 0
  reqs : List Req := []
  closed : Bool := false
  deriving Repr, DecidableEq

inductive Ev where
  | send
  | page (h : Nat) (last : Bool)    -- a response frame for request handle `h`
  | advance (dt : Nat)
  | close
  deriving Repr, DecidableEq

inductive Out where
  | ok | refused | unknown | requestClosed
  deriving Repr, DecidableEq

/-- `inFlightRequest.close(err)`: idempotent; cancels the request's context and with it the live timer -/
def closeReq (r : Req) (why : Option Why) : Req :=
  if r.done then r else { r with done := true, err := why, deadline := none, closes := r.closes + 1 }

/-- the timer goroutine: `DeadlineExceeded` → `close(timeout)` -/
def fire (now : Nat) (r : Req) : Req :=
  match r.deadline with
  | some d => if d ≤ now ∧ !r.done then { closeReq r (some .timeout) with firedAt := some now } else r
  | none => r

def setReq (reqs : List Req) (h : Nat) (r : Req) : List Req := reqs.set h r

def step (s : H) : Ev → H × Out
  | .send =>
    if s.closed then (s, .refused)
    else ({ s with reqs := s.reqs ++ [{ deadline := some (s.now + s.T), last := s.now }] }, .ok)
  | .page h last =>
    if s.closed then (s, .refused)
    else match s.reqs[h]? with
      | none => (s, .unknown)
      | some r =>
        if r.done then (s, .requestClosed)
        else
          let r1 := { r with delivered := r.delivered + 1, last := s.now }
          let r2 := if last then closeReq { r1 with deadline := none } none      -- stopTimeout; close(nil)
                    else { r1 with deadline := some (s.now + s.T) }              -- resetTimeout
          ({ s with reqs := setReq s.reqs h r2 }, .ok)
  | .advance dt =>
    let now := s.now + dt
    ({ s with now := now, reqs := s.reqs.map (fire now) }, .ok)
  | .close =>
    if s.closed then (s, .ok)
    else ({ s with closed := true, reqs := s.reqs.map fun r => closeReq r (some .handlerClosed) }, .ok)

def run (s : H) : List Ev → H
  | [] => s
  | e :: es => run (step s e).1 es

end Cql.Timer
