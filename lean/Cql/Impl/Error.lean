import Cql.Msg
import Cql.Impl.Combinators
/-! `message/error.go` — `errorCodec` (Encode / EncodedLength / Decode) for the ERROR response.

The body is `<code:[int]><message:[string]>` followed by a code-specific tail. The Go codec switches on the error
code; ten codes carry nothing after the message (`ErrorMsg.simple`), every other declared code has its own struct.
Nothing in the codec validates `<cl>`; only the WRITE FAILURE *decoder* validates the write type. -/
namespace Cql.Impl
open Cql Cql.Prim Cql.Gen

/-- the ten codes whose `case` in the three switches is empty: code + message only -/
def simpleErrorCodes : List Nat :=
  [ErrorCodeServerError, ErrorCodeProtocolError, ErrorCodeAuthenticationError, ErrorCodeOverloaded,
   ErrorCodeIsBootstrapping, ErrorCodeTruncateError, ErrorCodeSyntaxError, ErrorCodeUnauthorized,
   ErrorCodeInvalid, ErrorCodeConfigError]

def isSimpleErrorCode (c : Nat) : Bool := simpleErrorCodes.contains c

/-- `GetErrorCode()` of each struct -/
def _root_.Cql.ErrorMsg.code : ErrorMsg → Nat
  | .simple code _ => code
  | .unavailable .. => ErrorCodeUnavailable
  | .readTimeout .. => ErrorCodeReadTimeout
  | .writeTimeout .. => ErrorCodeWriteTimeout
  | .readFailure .. => ErrorCodeReadFailure
  | .writeFailure .. => ErrorCodeWriteFailure
  | .functionFailure .. => ErrorCodeFunctionFailure
  | .unprepared .. => ErrorCodeUnprepared
  | .alreadyExists .. => ErrorCodeAlreadyExists

/-- `GetErrorMessage()` of each struct -/
def _root_.Cql.ErrorMsg.message : ErrorMsg → Bytes
  | .simple _ m => m
  | .unavailable m .. => m
  | .readTimeout m .. => m
  | .writeTimeout m .. => m
  | .readFailure m .. => m
  | .writeFailure m .. => m
  | .functionFailure m .. => m
  | .unprepared m .. => m
  | .alreadyExists m .. => m

/-! ### shared pieces -/

/-- `if x.DataPresent { WriteByte(1) } else { WriteByte(0) }` -/
def writeDataPresent (b : Bool) : Bytes := if b then writeByte 1 else writeByte 0

/-- `b, _ := ReadByte(); DataPresent = b > 0` -/
def decodeDataPresent : Parser Bool := do
  let b ← readByte
  pure (decide (b > 0))

/-- `<reasonmap>` where the version has it, `<numfailures>` otherwise. A nil `FailureReasons` ranges over nothing. -/
def encodeFailures (version numFailures : Nat) (reasons : Option (List FailureReason)) : Res Bytes :=
  if ProtocolVersion_SupportsReadWriteFailureReasonMap version then writeReasonMap (reasons.getD [])
  else .ok (writeInt numFailures)

/-- the decoder fills exactly one of `NumFailures` / `FailureReasons`; the other keeps its zero value -/
def decodeFailures (version : Nat) : Parser (Nat × Option (List FailureReason)) :=
  if ProtocolVersion_SupportsReadWriteFailureReasonMap version then (fun m => (0, some m)) <$> readReasonMap
  else (fun n => (n, none)) <$> readInt

/-- the condition under which the WRITE TIMEOUT *encoder* (and `EncodedLength`) emits `<contentions>` -/
def writesContentions (version : Nat) (writeType : Bytes) : Bool :=
  ProtocolVersion_SupportsWriteTimeoutContentions version && (writeType == WriteTypeCas)

/-- the condition under which the WRITE TIMEOUT *decoder* reads `<contentions>` (operands in the Go order) -/
def readsContentions (version : Nat) (writeType : Bytes) : Bool :=
  (writeType == WriteTypeCas) && ProtocolVersion_SupportsWriteTimeoutContentions version

/-! ### Encode -/

/-- the `switch errMsg.GetErrorCode()` of `Encode`: what follows `<code><message>` -/
def encodeErrorBody (version : Nat) : ErrorMsg → Res Bytes
  | .simple code _ => do
    guard (isSimpleErrorCode code) "unknown ERROR code"
    pure []
  | .unavailable _ cl required alive =>
    .ok (writeShort cl ++ writeInt required ++ writeInt alive)
  | .readTimeout _ cl received blockFor dataPresent =>
    .ok (writeShort cl ++ writeInt received ++ writeInt blockFor ++ writeDataPresent dataPresent)
  | .writeTimeout _ cl received blockFor writeType contentions =>
    .ok (writeShort cl ++ writeInt received ++ writeInt blockFor ++ writeString writeType ++
      optB (writesContentions version writeType) (writeShort contentions))
  | .readFailure _ cl received blockFor numFailures reasons dataPresent => do
    let f ← encodeFailures version numFailures reasons
    pure (writeShort cl ++ writeInt received ++ writeInt blockFor ++ f ++ writeDataPresent dataPresent)
  | .writeFailure _ cl received blockFor numFailures reasons writeType => do
    let f ← encodeFailures version numFailures reasons
    pure (writeShort cl ++ writeInt received ++ writeInt blockFor ++ f ++ writeString writeType)
  | .functionFailure _ keyspace function arguments =>
    .ok (writeString keyspace ++ writeString function ++ writeStringList (arguments.getD []))
  | .unprepared _ id => .ok (writeShortBytes id)
  | .alreadyExists _ keyspace table => .ok (writeString keyspace ++ writeString table)

/-- `errorCodec.Encode`: `WriteInt(int32(code))`, `WriteString(message)`, then the code-specific tail -/
def encodeError (version : Nat) (e : ErrorMsg) : Res Bytes := do
  let body ← encodeErrorBody version e
  pure (writeInt e.code ++ writeString e.message ++ body)

/-! ### EncodedLength (transcribed from its own switch, not derived from the encoder) -/

def lengthOfErrorBody (version : Nat) : ErrorMsg → Res Nat
  | .simple code _ => do
    guard (isSimpleErrorCode code) "unknown ERROR code"
    pure 0
  | .unavailable .. => .ok (lengthOfShort + lengthOfInt + lengthOfInt)
  | .readTimeout .. => .ok (lengthOfShort + lengthOfInt + lengthOfInt + lengthOfByte)
  | .writeTimeout _ _ _ _ writeType _ =>
    .ok (lengthOfShort + lengthOfInt + lengthOfInt + lengthOfString writeType +
      optN (writesContentions version writeType) lengthOfShort)
  | .readFailure _ _ _ _ _ reasons _ =>
    -- the data-present byte is counted before the reason map / numfailures
    if ProtocolVersion_SupportsReadWriteFailureReasonMap version then do
      let r ← lengthOfReasonMap (reasons.getD [])
      pure (lengthOfShort + lengthOfInt + lengthOfInt + lengthOfByte + r)
    else .ok (lengthOfShort + lengthOfInt + lengthOfInt + lengthOfByte + lengthOfInt)
  | .writeFailure _ _ _ _ _ reasons writeType =>
    -- the write type is counted before the reason map / numfailures
    if ProtocolVersion_SupportsReadWriteFailureReasonMap version then do
      let r ← lengthOfReasonMap (reasons.getD [])
      pure (lengthOfShort + lengthOfInt + lengthOfInt + lengthOfString writeType + r)
    else .ok (lengthOfShort + lengthOfInt + lengthOfInt + lengthOfString writeType + lengthOfInt)
  | .functionFailure _ keyspace function arguments =>
    .ok (lengthOfString keyspace + lengthOfString function + lengthOfStringList (arguments.getD []))
  | .unprepared _ id => .ok (lengthOfShortBytes id)
  | .alreadyExists _ keyspace table => .ok (lengthOfString keyspace + lengthOfString table)

def lengthOfError (version : Nat) (e : ErrorMsg) : Res Nat := do
  let body ← lengthOfErrorBody version e
  pure (lengthOfInt + lengthOfString e.message + body)

/-! ### Decode -/

def decodeUnavailable (msg : Bytes) : Parser ErrorMsg := do
  let cl ← readShort
  let required ← readInt
  let alive ← readInt
  pure (.unavailable msg cl required alive)

def decodeReadTimeout (msg : Bytes) : Parser ErrorMsg := do
  let cl ← readShort
  let received ← readInt
  let blockFor ← readInt
  let dp ← decodeDataPresent
  pure (.readTimeout msg cl received blockFor dp)

/-- the write type is NOT validated here (unlike WRITE FAILURE) -/
def decodeWriteTimeout (version : Nat) (msg : Bytes) : Parser ErrorMsg := do
  let cl ← readShort
  let received ← readInt
  let blockFor ← readInt
  let wt ← readString
  let contentions ← whenP (readsContentions version wt) readShort 0
  pure (.writeTimeout msg cl received blockFor wt contentions)

def decodeReadFailure (version : Nat) (msg : Bytes) : Parser ErrorMsg := do
  let cl ← readShort
  let received ← readInt
  let blockFor ← readInt
  let f ← decodeFailures version
  let dp ← decodeDataPresent
  pure (.readFailure msg cl received blockFor f.1 f.2 dp)

def decodeWriteFailure (version : Nat) (msg : Bytes) : Parser ErrorMsg := do
  let cl ← readShort
  let received ← readInt
  let blockFor ← readInt
  let f ← decodeFailures version
  let wt ← readString
  guardP (CheckValidWriteType wt) "invalid write type"
  pure (.writeFailure msg cl received blockFor f.1 f.2 wt)

def decodeFunctionFailure (msg : Bytes) : Parser ErrorMsg := do
  let keyspace ← readString
  let function ← readString
  let arguments ← readStringList
  pure (.functionFailure msg keyspace function (some arguments))

def decodeAlreadyExists (msg : Bytes) : Parser ErrorMsg := do
  let keyspace ← readString
  let table ← readString
  pure (.alreadyExists msg keyspace table)

def decodeUnprepared (msg : Bytes) : Parser ErrorMsg := do
  let id ← readShortBytes
  pure (.unprepared msg id)

/-- the `switch primitive.ErrorCode(code)` of `Decode` -/
def decodeErrorBody (version code : Nat) (msg : Bytes) : Parser ErrorMsg :=
  if isSimpleErrorCode code then pure (.simple code msg)
  else if code = ErrorCodeUnavailable then decodeUnavailable msg
  else if code = ErrorCodeReadTimeout then decodeReadTimeout msg
  else if code = ErrorCodeWriteTimeout then decodeWriteTimeout version msg
  else if code = ErrorCodeReadFailure then decodeReadFailure version msg
  else if code = ErrorCodeWriteFailure then decodeWriteFailure version msg
  else if code = ErrorCodeFunctionFailure then decodeFunctionFailure msg
  else if code = ErrorCodeAlreadyExists then decodeAlreadyExists msg
  else if code = ErrorCodeUnprepared then decodeUnprepared msg
  else Parser.fail "unknown ERROR code"

def decodeError (version : Nat) : Parser ErrorMsg := do
  let code ← readInt
  let msg ← readString
  decodeErrorBody version code msg

end Cql.Impl
