import Cql.Impl.Requests
import Cql.Impl.Prepare
import Cql.Impl.Error
import Cql.Impl.Event
import Cql.Impl.ResultMetadata
/-! Message-level dispatch: `resultCodec` on the `[int]` result kind, and `findMessageCodec(opcode)` of `frame/codec.go`
    with the default codecs of `message/main.go`. -/
namespace Cql.Impl
open Cql Cql.Prim Cql.Gen

def _root_.Cql.ResultMsg.resultType : ResultMsg → Nat
  | .void => ResultTypeVoid
  | .setKeyspace _ => ResultTypeSetKeyspace
  | .schemaChange _ => ResultTypeSchemaChange
  | .prepared _ _ _ _ => ResultTypePrepared
  | .rows _ _ => ResultTypeRows

def encodeResultBody (version : Nat) : ResultMsg → Res Bytes
  | .void => encodeVoidBody
  | .setKeyspace ks => encodeSetKeyspaceBody ks
  | .schemaChange sc => encodeSchemaChangeResultBody version sc
  | .prepared a b c d => encodePreparedBody version ⟨a, b, c, d⟩
  | .rows m d => encodeRowsBody version ⟨m, d⟩

def encodeResult (version : Nat) (r : ResultMsg) : Res Bytes := do
  guard (CheckValidResultType r.resultType) "invalid result type"
  let body ← encodeResultBody version r
  pure (writeInt r.resultType ++ body)

def lengthOfResultBody (version : Nat) : ResultMsg → Res Nat
  | .void => lengthOfVoidBody
  | .setKeyspace ks => lengthOfSetKeyspaceBody ks
  | .schemaChange sc => lengthOfSchemaChangeResultBody version sc
  | .prepared a b c d => lengthOfPreparedBody version ⟨a, b, c, d⟩
  | .rows m d => lengthOfRowsBody version ⟨m, d⟩

def lengthOfResult (version : Nat) (r : ResultMsg) : Res Nat := do
  let body ← lengthOfResultBody version r
  pure (lengthOfInt + body)

def decodeResultBody (version ty : Nat) : Parser ResultMsg :=
  if ty = ResultTypeVoid then (fun _ => ResultMsg.void) <$> decodeVoidBody
  else if ty = ResultTypeSetKeyspace then ResultMsg.setKeyspace <$> decodeSetKeyspaceBody
  else if ty = ResultTypeSchemaChange then ResultMsg.schemaChange <$> decodeSchemaChangeResultBody version
  else if ty = ResultTypePrepared then PreparedResult.toMsg <$> decodePreparedBody version
  else if ty = ResultTypeRows then RowsResult.toMsg <$> decodeRowsBody version
  else Parser.fail "unknown RESULT type"

def decodeResult (version : Nat) : Parser ResultMsg := do
  let ty ← readInt
  decodeResultBody version ty

/-- `encoder.Encode(body.Message, dest, header.Version)` after `findMessageCodec(body.Message.GetOpCode())` -/
def encodeMsg (version : Nat) : Msg → Res Bytes
  | .startup o => encodeStartup version o
  | .options => encodeOptions version
  | .ready => encodeReady version
  | .query q o => encodeQuery version q o
  | .prepare q ks => encodePrepare version ⟨q, ks⟩
  | .execute a b o => encodeExecute version a b o
  | .batch b => encodeBatch version b
  | .register l => encodeRegister version l
  | .authResponse t => encodeAuthResponse version t
  | .authChallenge t => encodeAuthChallenge version t
  | .authSuccess t => encodeAuthSuccess version t
  | .authenticate a => encodeAuthenticate version a
  | .supported o => encodeSupported version o
  | .revise a b c => encodeRevise version a b c
  | .error e => encodeError version e
  | .result r => encodeResult version r
  | .event e => encodeEvent version e

def lengthOfMsg (version : Nat) : Msg → Res Nat
  | .startup o => lengthOfStartup version o
  | .options => lengthOfOptions version
  | .ready => lengthOfReady version
  | .query q o => lengthOfQuery version q o
  | .prepare q ks => lengthOfPrepare version ⟨q, ks⟩
  | .execute a b o => lengthOfExecute version a b o
  | .batch b => lengthOfBatch version b
  | .register l => lengthOfRegister version l
  | .authResponse t => lengthOfAuthResponse version t
  | .authChallenge t => lengthOfAuthChallenge version t
  | .authSuccess t => lengthOfAuthSuccess version t
  | .authenticate a => lengthOfAuthenticate version a
  | .supported o => lengthOfSupported version o
  | .revise a b c => lengthOfRevise version a b c
  | .error e => lengthOfError version e
  | .result r => lengthOfResult version r
  | .event e => lengthOfEvent version e

/-- `decoder.Decode(source, header.Version)` after `findMessageCodec(header.OpCode)`; an opcode without a registered
    codec is "unsupported opcode" -/
def decodeMsg (version opCode : Nat) : Parser Msg :=
  if opCode = OpCodeStartup then Msg.startup <$> decodeStartup version
  else if opCode = OpCodeOptions then (fun _ => Msg.options) <$> decodeOptions version
  else if opCode = OpCodeQuery then (fun p => Msg.query p.1 p.2) <$> decodeQuery version
  else if opCode = OpCodePrepare then (fun p => Msg.prepare p.query p.keyspace) <$> decodePrepare version
  else if opCode = OpCodeExecute then (fun p => Msg.execute p.1 p.2.1 p.2.2) <$> decodeExecute version
  else if opCode = OpCodeRegister then Msg.register <$> decodeRegister version
  else if opCode = OpCodeBatch then Msg.batch <$> decodeBatch version
  else if opCode = OpCodeAuthResponse then Msg.authResponse <$> decodeAuthResponse version
  else if opCode = OpCodeDseRevise then (fun p => Msg.revise p.1 p.2.1 p.2.2) <$> decodeRevise version
  else if opCode = OpCodeError then Msg.error <$> decodeError version
  else if opCode = OpCodeReady then (fun _ => Msg.ready) <$> decodeReady version
  else if opCode = OpCodeAuthenticate then Msg.authenticate <$> decodeAuthenticate version
  else if opCode = OpCodeSupported then Msg.supported <$> decodeSupported version
  else if opCode = OpCodeResult then Msg.result <$> decodeResult version
  else if opCode = OpCodeEvent then Msg.event <$> decodeEvent version
  else if opCode = OpCodeAuthChallenge then Msg.authChallenge <$> decodeAuthChallenge version
  else if opCode = OpCodeAuthSuccess then Msg.authSuccess <$> decodeAuthSuccess version
  else Parser.fail "unsupported opcode"

end Cql.Impl
