import Cql.Msg
import Cql.Impl.Combinators
/-! `message/query_options.go`, `message/dse_continuous_paging_options.go` -/
namespace Cql.Impl
open Cql Cql.Prim Cql.Gen

/-! ### continuous paging options -/

def encodeContinuousPagingOptions (version : Nat) (o : ContinuousPagingOptions) : Res Bytes := do
  guard (CheckDseProtocolVersion version) "invalid DSE protocol version"
  pure (writeInt o.maxPages ++ writeInt o.pagesPerSecond ++
    (if version ≥ ProtocolVersionDse2 then writeInt o.nextPages else []))

def lengthOfContinuousPagingOptions (version : Nat) : Res Nat := do
  guard (CheckDseProtocolVersion version) "invalid DSE protocol version"
  pure (lengthOfInt + lengthOfInt + (if version ≥ ProtocolVersionDse2 then lengthOfInt else 0))

def decodeContinuousPagingOptions (version : Nat) : Parser ContinuousPagingOptions := do
  guardP (CheckDseProtocolVersion version) "invalid DSE protocol version"
  let maxPages ← readInt
  let pps ← readInt
  let next ← whenP (decide (version ≥ ProtocolVersionDse2)) readInt 0
  pure { maxPages := maxPages, pagesPerSecond := pps, nextPages := next }

/-! ### query options -/

/-- `QueryOptions.Flags()`, as a function of the eleven presence tests it performs -/
def qflags (vals names skip page pageBytes pstate serial ts ks now cont : Bool) : Nat :=
  let f := 0
  let f := if vals then QueryFlag_Add f QueryFlagValues else f
  let f := if names then QueryFlag_Add f QueryFlagValueNames else f
  let f := if skip then QueryFlag_Add f QueryFlagSkipMetadata else f
  let f := if page then QueryFlag_Add f QueryFlagPageSize else f
  let f := if pageBytes then QueryFlag_Add f QueryFlagDsePageSizeBytes else f
  let f := if pstate then QueryFlag_Add f QueryFlagPagingState else f
  let f := if serial then QueryFlag_Add f QueryFlagSerialConsistency else f
  let f := if ts then QueryFlag_Add f QueryFlagDefaultTimestamp else f
  let f := if ks then QueryFlag_Add f QueryFlagWithKeyspace else f
  let f := if now then QueryFlag_Add f QueryFlagNowInSeconds else f
  let f := if cont then QueryFlag_Add f QueryFlagDseWithContinuousPagingOptions else f
  f

/-- `o.PageSize > 0` on the int32 value -/
def pos32 (n : Nat) : Bool := decide (0 < n ∧ n < 2147483648)

def _root_.Cql.QueryOptions.flags (o : QueryOptions) : Nat :=
  qflags (o.positionalValues.isSome || o.namedValues.isSome)
    (o.positionalValues.isNone && o.namedValues.isSome)
    o.skipMetadata (pos32 o.pageSize) (pos32 o.pageSize && o.pageSizeInBytes) o.pagingState.isSome
    o.serialConsistency.isSome o.defaultTimestamp.isSome (o.keyspace != []) o.nowInSeconds.isSome
    o.continuousPagingOptions.isSome

def has (flags bit : Nat) : Bool := QueryFlag_Contains flags bit

/-- the `<flags>` field: `[int]` from v5 / DSE, `[byte]` (a truncating cast) before -/
def writeQueryFlags (version flags : Nat) : Bytes :=
  if ProtocolVersion_Uses4BytesQueryFlags version then writeInt flags else writeByte (flags % 256)
def readQueryFlags (version : Nat) : Parser Nat :=
  if ProtocolVersion_Uses4BytesQueryFlags version then readInt else readByte
def lengthOfQueryFlags (version : Nat) : Nat :=
  if ProtocolVersion_Uses4BytesQueryFlags version then lengthOfInt else lengthOfByte

def encodeQueryValues (version : Nat) (o : QueryOptions) (flags : Nat) : Res Bytes :=
  whenW (has flags QueryFlagValues)
    (if has flags QueryFlagValueNames then writeNamedValues version (o.namedValues.getD [])
     else writePositionalValues version (o.positionalValues.getD []))

def lengthOfQueryValues (o : QueryOptions) (flags : Nat) : Res Nat :=
  whenL (has flags QueryFlagValues)
    (if has flags QueryFlagValueNames then lengthOfNamedValues (o.namedValues.getD [])
     else lengthOfPositionalValues (o.positionalValues.getD []))

def decodeQueryValues (version flags : Nat) :
    Parser (Option (List (Option Value)) × Option (List (Bytes × Option Value))) :=
  if has flags QueryFlagValues then
    if has flags QueryFlagValueNames then (fun n => (none, some n)) <$> readNamedValues version
    else (fun p => (some p, none)) <$> readPositionalValues version
  else pure (none, none)

def encodeSerial (o : QueryOptions) : Res Bytes := do
  guard (CheckSerialConsistencyLevel (o.serialConsistency.getD 0)) "invalid serial consistency level"
  pure (writeShort (o.serialConsistency.getD 0))

def decodeSerial : Parser (Option Nat) := do
  let s ← readShort
  guardP (CheckValidConsistencyLevel s) "invalid consistency level"
  pure (some s)

def encodeKeyspace (ks : Bytes) : Res Bytes := do
  guard (ks != []) "cannot write empty keyspace"
  pure (writeString ks)

def encodeQueryOptions (version : Nat) (o? : Option QueryOptions) : Res Bytes := do
  let o := o?.getD QueryOptions.default
  guard (CheckValidConsistencyLevel o.consistency) "invalid consistency level"
  let flags := o.flags
  let vals ← encodeQueryValues version o flags
  let serial ← whenW (has flags QueryFlagSerialConsistency) (encodeSerial o)
  let ks ← whenW (has flags QueryFlagWithKeyspace) (encodeKeyspace o.keyspace)
  let cont ← whenW (has flags QueryFlagDseWithContinuousPagingOptions)
    (encodeContinuousPagingOptions version (o.continuousPagingOptions.getD ⟨0, 0, 0⟩))
  pure (writeShort o.consistency ++ writeQueryFlags version flags ++ vals ++
    optB (has flags QueryFlagPageSize) (writeInt o.pageSize) ++
    optB (has flags QueryFlagPagingState) (writeBytes o.pagingState) ++ serial ++
    optB (has flags QueryFlagDefaultTimestamp) (writeLong (o.defaultTimestamp.getD 0)) ++ ks ++
    optB (has flags QueryFlagNowInSeconds) (writeInt (o.nowInSeconds.getD 0)) ++ cont)

def lengthOfQueryOptions (version : Nat) (o? : Option QueryOptions) : Res Nat := do
  let o := o?.getD QueryOptions.default
  let flags := o.flags
  let vals ← lengthOfQueryValues o flags
  let cont ← whenL (has flags QueryFlagDseWithContinuousPagingOptions) (lengthOfContinuousPagingOptions version)
  pure (lengthOfShort + lengthOfQueryFlags version + vals +
    optN (has flags QueryFlagPageSize) lengthOfInt +
    optN (has flags QueryFlagPagingState) (lengthOfBytes o.pagingState) +
    optN (has flags QueryFlagSerialConsistency) lengthOfShort +
    optN (has flags QueryFlagDefaultTimestamp) lengthOfLong +
    optN (has flags QueryFlagWithKeyspace) (lengthOfString o.keyspace) +
    optN (has flags QueryFlagNowInSeconds) lengthOfInt + cont)

def decodeQueryOptions (version : Nat) : Parser QueryOptions := do
  let c ← readShort
  guardP (CheckValidConsistencyLevel c) "invalid consistency level"
  let flags ← readQueryFlags version
  let vals ← decodeQueryValues version flags
  let pageSize ← whenP (has flags QueryFlagPageSize) readInt 0
  let pstate ← whenP (has flags QueryFlagPagingState) readBytes none
  let serial ← whenP (has flags QueryFlagSerialConsistency) decodeSerial none
  let ts ← whenP (has flags QueryFlagDefaultTimestamp) (some <$> readLong) none
  let ks ← whenP (has flags QueryFlagWithKeyspace) readString []
  let now ← whenP (has flags QueryFlagNowInSeconds) (some <$> readInt) none
  let cont ← whenP (has flags QueryFlagDseWithContinuousPagingOptions)
    (some <$> decodeContinuousPagingOptions version) none
  pure { consistency := c, positionalValues := vals.1, namedValues := vals.2,
         skipMetadata := has flags QueryFlagSkipMetadata, pageSize := pageSize,
         pageSizeInBytes := has flags QueryFlagPageSize && has flags QueryFlagDsePageSizeBytes,
         pagingState := pstate, serialConsistency := serial, defaultTimestamp := ts, keyspace := ks,
         nowInSeconds := now, continuousPagingOptions := cont }

end Cql.Impl
