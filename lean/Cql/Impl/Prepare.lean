import Cql.Msg
import Cql.Impl.Combinators
/-! `message/prepare.go` — second exemplar: a small message with one version-gated optional field. -/
namespace Cql.Impl
open Cql Cql.Prim Cql.Gen

structure Prepare where
  query : Bytes
  keyspace : Bytes
  deriving Repr, DecidableEq

/-- `Prepare.Flags()` -/
def Prepare.flags (p : Prepare) : Nat :=
  if p.keyspace != [] then PrepareFlag_Add 0 PrepareFlagWithKeyspace else 0

def encodePrepare (version : Nat) (p : Prepare) : Res Bytes := do
  guard (p.query != []) "cannot write PREPARE empty query string"
  let tail ← whenW (ProtocolVersion_SupportsPrepareFlags version) (do
    let ks ← whenW (PrepareFlag_Contains p.flags PrepareFlagWithKeyspace) (do
      guard (p.keyspace != []) "cannot write empty keyspace"
      pure (writeString p.keyspace))
    pure (writeInt p.flags ++ ks))
  pure (writeLongString p.query ++ tail)

def lengthOfPrepare (version : Nat) (p : Prepare) : Res Nat :=
  .ok (lengthOfLongString p.query +
    optN (ProtocolVersion_SupportsPrepareFlags version)
      (lengthOfInt + optN (p.keyspace != []) (lengthOfString p.keyspace)))

def decodePrepareTail : Parser Bytes := do
  let flags ← readInt
  whenP (PrepareFlag_Contains flags PrepareFlagWithKeyspace) readString []

def decodePrepare (version : Nat) : Parser Prepare := do
  let q ← readLongString
  let ks ← whenP (ProtocolVersion_SupportsPrepareFlags version) decodePrepareTail []
  pure { query := q, keyspace := ks }

end Cql.Impl
