import Cql.Msg
import Cql.Impl.Combinators
import Cql.Impl.QueryOptions
/-!
`message/result_metadata.go` (all of it) and the `ResultTypePrepared` / `ResultTypeRows` branches of `resultCodec`
in `message/result.go` — everything AFTER the `[int]` result type, which the RESULT dispatcher writes/reads.

`pos32` (an `int32 > 0` test on a bit pattern) comes from `Cql.Impl.QueryOptions`.
-/
namespace Cql.Impl
open Cql Cql.Prim Cql.Gen

/-! ### `haveSameTable`, `Flags()` -/

/-- `haveSameTable`: false for nil/empty, otherwise "every later column has the first column's keyspace and table"
    (the Go loop returns false at the first mismatch, which is the same Boolean) -/
def haveSameTable : List ColumnMetadata → Bool
  | [] => false
  | c :: cs => cs.all fun d => decide (d.keyspace = c.keyspace ∧ d.table = c.table)

/-- `VariablesMetadata.Flags()`, as a function of its one test -/
def vflags (global : Bool) : Nat :=
  if global then VariablesFlag_Add 0 VariablesFlagGlobalTablesSpec else 0

def _root_.Cql.VariablesMetadata.flags (m : VariablesMetadata) : Nat :=
  vflags (decide ((m.columns.getD []).length > 0) && haveSameTable (m.columns.getD []))

/-- `RowsMetadata.Flags()`, as a function of the six tests it performs -/
def rflags (noMeta global more changed cont last : Bool) : Nat :=
  let f := 0
  let f := if noMeta then RowsFlag_Add f RowsFlagNoMetadata
    else if global then RowsFlag_Add f RowsFlagGlobalTablesSpec else f
  let f := if more then RowsFlag_Add f RowsFlagHasMorePages else f
  let f := if changed then RowsFlag_Add f RowsFlagMetadataChanged else f
  let f := if cont then
      (if last then RowsFlag_Add (RowsFlag_Add f RowsFlagDseContinuousPaging) RowsFlagDseLastContinuousPage
       else RowsFlag_Add f RowsFlagDseContinuousPaging)
    else f
  f

def _root_.Cql.RowsMetadata.flags (m : RowsMetadata) : Nat :=
  rflags (decide ((m.columns.getD []).length = 0)) (haveSameTable (m.columns.getD []))
    m.pagingState.isSome m.newResultMetadataId.isSome (pos32 m.continuousPageNumber) m.lastContinuousPage

/-- `&RowsMetadata{}` -/
def _root_.Cql.RowsMetadata.zero : RowsMetadata :=
  { columnCount := 0, pagingState := none, newResultMetadataId := none, continuousPageNumber := 0,
    lastContinuousPage := false, columns := none }

/-- `&VariablesMetadata{}` -/
def _root_.Cql.VariablesMetadata.zero : VariablesMetadata := { pkIndices := none, columns := none }

/-! ### columns metadata -/

/-- `datatype.WriteDataType` on a possibly-nil interface value -/
def writeDataTypeOpt (version : Nat) : Option DataType → Res Bytes
  | none => .err "DataType can not be nil"
  | some t => DataType.write version t

/-- `datatype.LengthOfDataType` starts with `t.Code()`: a nil interface value is a nil dereference -/
def lengthOfDataTypeOpt (version : Nat) : Option DataType → Res Nat
  | none => .panic "LengthOfDataType: nil DataType"
  | some t => DataType.lengthOf version t

/-- one iteration of the loop of `encodeColumnsMetadata` -/
def encodeColumn (version : Nat) (global : Bool) (c : ColumnMetadata) : Res Bytes := do
  let t ← writeDataTypeOpt version c.type
  pure (optB (!global) (writeString c.keyspace) ++ optB (!global) (writeString c.table) ++ writeString c.name ++ t)

def lengthOfColumn (version : Nat) (global : Bool) (c : ColumnMetadata) : Res Nat := do
  let t ← lengthOfDataTypeOpt version c.type
  pure (optN (!global) (lengthOfString c.keyspace) + optN (!global) (lengthOfString c.table) +
    lengthOfString c.name + t)

/-- `firstCol := cols[0]` and the two global strings. The index expression panics on an empty slice; both callers
    guard the call with `len(Columns) > 0`, so that outcome is unreachable from them. -/
def encodeGlobalSpec : Bool → List ColumnMetadata → Res Bytes
  | false, _ => .ok []
  | true, [] => .panic "encodeColumnsMetadata: cols[0] out of range"
  | true, c :: _ => .ok (writeString c.keyspace ++ writeString c.table)

def lengthOfGlobalSpec : Bool → List ColumnMetadata → Res Nat
  | false, _ => .ok 0
  | true, [] => .panic "lengthOfColumnsMetadata: cols[0] out of range"
  | true, c :: _ => .ok (lengthOfString c.keyspace + lengthOfString c.table)

def encodeColumnsMetadata (version : Nat) (global : Bool) (cols : List ColumnMetadata) : Res Bytes := do
  let g ← encodeGlobalSpec global cols
  let body ← writeAll (encodeColumn version global) cols
  pure (g ++ body)

def lengthOfColumnsMetadata (version : Nat) (global : Bool) (cols : List ColumnMetadata) : Res Nat := do
  let g ← lengthOfGlobalSpec global cols
  let body ← sumAll (lengthOfColumn version global) cols
  pure (g + body)

/-- one iteration of the loop of `decodeColumnsMetadata`; `Index` keeps its zero value -/
def decodeColumn (version : Nat) (global : Bool) (gks gtb : Bytes) : Parser ColumnMetadata := do
  let ks ← whenP (!global) readString gks
  let tb ← whenP (!global) readString gtb
  let name ← readString
  let t ← DataType.read version
  pure { keyspace := ks, table := tb, name := name, index := 0, type := some t }

/-- `decodeColumnsMetadata`: the global spec is read BEFORE the count is checked; a negative count is an error
    (so `make` cannot panic); the result is a non-nil slice even for count 0 (callers wrap it in `some`) -/
def decodeColumnsMetadata (version : Nat) (global : Bool) (count : Nat) : Parser (List ColumnMetadata) := do
  let gks ← whenP global readString []
  let gtb ← whenP global readString []
  if isNeg32 count then Parser.fail "invalid column count"
  else readN count (decodeColumn version global gks gtb)

/-! ### variables metadata -/

/-- the `if version >= ProtocolVersion4` block of `encodeVariablesMetadata` (`PkIndices` is a `[]uint16`) -/
def encodePkIndices (pks : List Nat) : Bytes :=
  writeInt (pks.length % 4294967296) ++ (pks.map writeShort).flatten

def lengthOfPkIndices (pks : List Nat) : Nat := lengthOfInt + lengthOfShort * pks.length

/-- `PkIndices` is allocated (and the loop runs) only when `pkCount > 0`: zero and negative counts leave it nil -/
def decodePkIndices : Parser (Option (List Nat)) := do
  let n ← readInt
  if pos32 n then some <$> readN n readShort else pure none

/-- `encodeVariablesMetadata` after the nil pointer has been replaced by `&VariablesMetadata{}` -/
def encodeVariablesMetadata' (version : Nat) (m : VariablesMetadata) : Res Bytes := do
  let flags := m.flags
  let cols := m.columns.getD []
  let colsB ← whenW (decide (cols.length > 0))
    (encodeColumnsMetadata version (VariablesFlag_Contains flags VariablesFlagGlobalTablesSpec) cols)
  pure (writeInt flags ++ writeInt (cols.length % 4294967296) ++
    optB (decide (version ≥ ProtocolVersion4)) (encodePkIndices (m.pkIndices.getD [])) ++ colsB)

def encodeVariablesMetadata (version : Nat) (m? : Option VariablesMetadata) : Res Bytes :=
  encodeVariablesMetadata' version (m?.getD VariablesMetadata.zero)

def lengthOfVariablesMetadata' (version : Nat) (m : VariablesMetadata) : Res Nat := do
  let cols := m.columns.getD []
  let colsL ← whenL (decide (cols.length > 0))
    (lengthOfColumnsMetadata version (VariablesFlag_Contains m.flags VariablesFlagGlobalTablesSpec) cols)
  pure (lengthOfInt + lengthOfInt +
    optN (decide (version ≥ ProtocolVersion4)) (lengthOfPkIndices (m.pkIndices.getD [])) + colsL)

def lengthOfVariablesMetadata (version : Nat) (m? : Option VariablesMetadata) : Res Nat :=
  lengthOfVariablesMetadata' version (m?.getD VariablesMetadata.zero)

/-- always returns a non-nil struct -/
def decodeVariablesMetadata (version : Nat) : Parser VariablesMetadata := do
  let flags ← readInt
  let count ← readInt
  let pks ← whenP (decide (version ≥ ProtocolVersion4)) decodePkIndices none
  let cols ← whenP (pos32 count)
    (some <$> decodeColumnsMetadata version (VariablesFlag_Contains flags VariablesFlagGlobalTablesSpec) count) none
  pure { pkIndices := pks, columns := cols }

/-! ### rows metadata -/

/-- `columnSpecsLength > 0 && int(metadata.ColumnCount) != columnSpecsLength` -/
def countMismatch (columnCount len : Nat) : Bool :=
  decide (len > 0) && decide (toInt32 columnCount ≠ (len : Int))

/-- `flags&RowsFlagNoMetadata == 0 && columnSpecsLength > 0` -/
def writesColumns (flags len : Nat) : Bool :=
  !(RowsFlag_Contains flags RowsFlagNoMetadata) && decide (len > 0)

/-- `encodeRowsMetadata` after the nil pointer has been replaced by `&RowsMetadata{}` -/
def encodeRowsMetadata' (version : Nat) (m : RowsMetadata) : Res Bytes := do
  let flags := m.flags
  let cols := m.columns.getD []
  guard (!(countMismatch m.columnCount cols.length)) "invalid RESULT Rows metadata: ColumnCount != len(Columns)"
  let colsB ← whenW (writesColumns flags cols.length)
    (encodeColumnsMetadata version (RowsFlag_Contains flags RowsFlagGlobalTablesSpec) cols)
  pure (writeInt flags ++ writeInt m.columnCount ++
    optB (RowsFlag_Contains flags RowsFlagHasMorePages) (writeBytes m.pagingState) ++
    optB (RowsFlag_Contains flags RowsFlagMetadataChanged) (writeShortBytes m.newResultMetadataId) ++
    optB (RowsFlag_Contains flags RowsFlagDseContinuousPaging) (writeInt m.continuousPageNumber) ++ colsB)

def encodeRowsMetadata (version : Nat) (m? : Option RowsMetadata) : Res Bytes :=
  encodeRowsMetadata' version (m?.getD RowsMetadata.zero)

/-- `lengthOfRowsMetadata` does not repeat the ColumnCount check of the encoder -/
def lengthOfRowsMetadata' (version : Nat) (m : RowsMetadata) : Res Nat := do
  let flags := m.flags
  let cols := m.columns.getD []
  let colsL ← whenL (writesColumns flags cols.length)
    (lengthOfColumnsMetadata version (RowsFlag_Contains flags RowsFlagGlobalTablesSpec) cols)
  pure (lengthOfInt + lengthOfInt +
    optN (RowsFlag_Contains flags RowsFlagHasMorePages) (lengthOfBytes m.pagingState) +
    optN (RowsFlag_Contains flags RowsFlagMetadataChanged) (lengthOfShortBytes m.newResultMetadataId) +
    optN (RowsFlag_Contains flags RowsFlagDseContinuousPaging) lengthOfInt + colsL)

def lengthOfRowsMetadata (version : Nat) (m? : Option RowsMetadata) : Res Nat :=
  lengthOfRowsMetadata' version (m?.getD RowsMetadata.zero)

/-- always returns a non-nil struct; `Columns` stays nil under NO_METADATA -/
def decodeRowsMetadata (version : Nat) : Parser RowsMetadata := do
  let flags ← readInt
  let count ← readInt
  let ps ← whenP (RowsFlag_Contains flags RowsFlagHasMorePages) readBytes none
  let newId ← whenP (RowsFlag_Contains flags RowsFlagMetadataChanged) readShortBytes none
  let page ← whenP (RowsFlag_Contains flags RowsFlagDseContinuousPaging) readInt 0
  let cols ← whenP (!(RowsFlag_Contains flags RowsFlagNoMetadata))
    (some <$> decodeColumnsMetadata version (RowsFlag_Contains flags RowsFlagGlobalTablesSpec) count) none
  pure { columnCount := count, pagingState := ps, newResultMetadataId := newId, continuousPageNumber := page,
         lastContinuousPage := RowsFlag_Contains flags RowsFlagDseContinuousPaging &&
           RowsFlag_Contains flags RowsFlagDseLastContinuousPage,
         columns := cols }

/-! ### RESULT Prepared (after the result type) -/

/-- `*PreparedResult` -/
structure PreparedResult where
  preparedQueryId : Option Bytes
  resultMetadataId : Option Bytes
  variables : Option VariablesMetadata
  result : Option RowsMetadata
  deriving Repr

def PreparedResult.toMsg (p : PreparedResult) : ResultMsg :=
  .prepared p.preparedQueryId p.resultMetadataId p.variables p.result

def encodePreparedBody (version : Nat) (p : PreparedResult) : Res Bytes := do
  guard ((p.preparedQueryId.getD []).length != 0) "cannot write empty RESULT Prepared query id"
  guard (!(ProtocolVersion_SupportsResultMetadataId version) || (p.resultMetadataId.getD []).length != 0)
    "cannot write empty RESULT Prepared result metadata id"
  let vars ← encodeVariablesMetadata version p.variables
  let res ← encodeRowsMetadata version p.result
  pure (writeShortBytes p.preparedQueryId ++
    optB (ProtocolVersion_SupportsResultMetadataId version) (writeShortBytes p.resultMetadataId) ++ vars ++ res)

def lengthOfPreparedBody (version : Nat) (p : PreparedResult) : Res Nat := do
  let vars ← lengthOfVariablesMetadata version p.variables
  let res ← lengthOfRowsMetadata version p.result
  pure (lengthOfShortBytes p.preparedQueryId +
    optN (ProtocolVersion_SupportsResultMetadataId version) (lengthOfShortBytes p.resultMetadataId) + vars + res)

def decodePreparedBody (version : Nat) : Parser PreparedResult := do
  let id ← readShortBytes
  let rid ← whenP (ProtocolVersion_SupportsResultMetadataId version) readShortBytes none
  let vars ← decodeVariablesMetadata version
  let res ← decodeRowsMetadata version
  pure { preparedQueryId := id, resultMetadataId := rid, variables := some vars, result := some res }

/-! ### RESULT Rows (after the result type) -/

/-- `*RowsResult`; `Data` is a `[][][]byte` whose outer slice, rows and cells can each be nil -/
structure RowsResult where
  metadata : Option RowsMetadata
  data : Option (List (Option (List (Option Bytes))))
  deriving Repr

def RowsResult.toMsg (r : RowsResult) : ResultMsg := .rows r.metadata r.data

/-- the inner loop: every cell of the row as it is, however many there are (no check against ColumnCount) -/
def encodeRow (row : Option (List (Option Bytes))) : Bytes := ((row.getD []).map writeBytes).flatten

def lengthOfRow (row : Option (List (Option Bytes))) : Nat := ((row.getD []).map lengthOfBytes).sum

/-- `<rows_count><rows_content>`: `int32(len(Data))`, then every cell of every row -/
def encodeRowsData (data : List (Option (List (Option Bytes)))) : Bytes :=
  writeInt (data.length % 4294967296) ++ (data.map encodeRow).flatten

def lengthOfRowsData (data : List (Option (List (Option Bytes)))) : Nat :=
  lengthOfInt + (data.map lengthOfRow).sum

/-- negative row / column counts are errors (so neither `make` can panic); `Data` and every row are non-nil -/
def decodeRowsData (columnCount : Nat) : Parser (List (Option (List (Option Bytes)))) := do
  let n ← readInt
  if isNeg32 n then Parser.fail "invalid RESULT Rows data length"
  else if isNeg32 columnCount then Parser.fail "invalid RESULT Rows metadata column count"
  else if n > 0 ∧ columnCount = 0 then Parser.fail "invalid RESULT Rows: rows declared, but no columns"
  else readN n (some <$> readN columnCount readBytes)

def encodeRowsBody (version : Nat) (r : RowsResult) : Res Bytes := do
  let m ← encodeRowsMetadata version r.metadata
  pure (m ++ encodeRowsData (r.data.getD []))

/-- `EncodedLength` refuses a nil `Metadata`, which `Encode` accepts (and encodes as `&RowsMetadata{}`) -/
def lengthOfRowsMetadataNonNil (version : Nat) : Option RowsMetadata → Res Nat
  | none => .err "cannot compute length of nil RESULT Rows metadata"
  | some m => lengthOfRowsMetadata version (some m)

def lengthOfRowsBody (version : Nat) (r : RowsResult) : Res Nat := do
  let lm ← lengthOfRowsMetadataNonNil version r.metadata
  pure (lm + lengthOfRowsData (r.data.getD []))

def decodeRowsBody (version : Nat) : Parser RowsResult := do
  let m ← decodeRowsMetadata version
  let data ← decodeRowsData m.columnCount
  pure { metadata := some m, data := some data }

end Cql.Impl
