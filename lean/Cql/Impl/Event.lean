import Cql.Msg
import Cql.Impl.Combinators
/-!
`message/event.go` (`eventCodec`) and the three simple kinds of `message/result.go` (`resultCodec`, branches
`ResultTypeVoid`, `ResultTypeSetKeyspace`, `ResultTypeSchemaChange`).

The schema-change body of a RESULT and of an EVENT have the same wire format and nearly the same Go text. Each encoder
is transcribed from its own file; they differ in ONE test: for FUNCTION / AGGREGATE targets `result.go:246` checks
`sce.Object == ""` while `event.go:175` checks `sce.Keyspace == ""` (already known to be non-empty at that point, so
the event encoder accepts an empty function name). `EncodedLength` and `Decode` of the two codecs are line-for-line
identical (`result.go:346-368` = `event.go:253-275`, `result.go:430-479` = `event.go:313-362`), so they share the
functions `lengthOfSchemaChangeBody` / `decodeSchemaChangeBody`.

The result-body functions cover everything AFTER the `[int]` result type.
-/
namespace Cql.Impl
open Cql Cql.Prim Cql.Gen

/-! ### the `switch sce.Target` of protocol v3 and later -/

/-- `event.go:162-183`. KEYSPACE: nothing more; TABLE/TYPE: object; AGGREGATE/FUNCTION: object and arguments.
    The switch has no `default:` (nothing is written for an unknown target). -/
def encodeEventTarget3 (sc : SchemaChange) : Res Bytes :=
  if sc.target = SchemaChangeTargetKeyspace then pure []
  else if sc.target = SchemaChangeTargetTable ∨ sc.target = SchemaChangeTargetType then do
    guard (sc.object != []) "EVENT SchemaChange: cannot write empty object"
    pure (writeString sc.object)
  else if sc.target = SchemaChangeTargetAggregate ∨ sc.target = SchemaChangeTargetFunction then do
    -- sic: the Go code tests `sce.Keyspace` here, not `sce.Object`
    guard (sc.keyspace != []) "EVENT SchemaChange: cannot write empty object"
    pure (writeString sc.object ++ writeStringList (sc.arguments.getD []))
  else pure []

/-- `result.go:233-254` -/
def encodeResultTarget3 (sc : SchemaChange) : Res Bytes :=
  if sc.target = SchemaChangeTargetKeyspace then pure []
  else if sc.target = SchemaChangeTargetTable ∨ sc.target = SchemaChangeTargetType then do
    guard (sc.object != []) "RESULT SchemaChange: cannot write empty object"
    pure (writeString sc.object)
  else if sc.target = SchemaChangeTargetAggregate ∨ sc.target = SchemaChangeTargetFunction then do
    guard (sc.object != []) "RESULT SchemaChange: cannot write empty object"
    pure (writeString sc.object ++ writeStringList (sc.arguments.getD []))
  else pure []

/-- `event.go:260-271` = `result.go:353-364` -/
def lengthOfSchemaChangeTarget3 (sc : SchemaChange) : Nat :=
  if sc.target = SchemaChangeTargetKeyspace then 0
  else if sc.target = SchemaChangeTargetTable ∨ sc.target = SchemaChangeTargetType then lengthOfString sc.object
  else if sc.target = SchemaChangeTargetAggregate ∨ sc.target = SchemaChangeTargetFunction then
    lengthOfString sc.object + lengthOfStringList (sc.arguments.getD [])
  else 0

/-- `event.go:330-349` = `result.go:447-466`: returns `(Object, Arguments)`; this switch does have a `default:` -/
def decodeSchemaChangeTarget3 (target : Bytes) : Parser (Bytes × Option (List Bytes)) :=
  if target = SchemaChangeTargetKeyspace then pure ([], none)
  else if target = SchemaChangeTargetTable ∨ target = SchemaChangeTargetType then do
    let obj ← readString
    pure (obj, none)
  else if target = SchemaChangeTargetAggregate ∨ target = SchemaChangeTargetFunction then do
    let obj ← readString
    let args ← readStringList
    pure (obj, some args)
  else Parser.fail "unknown schema change target"

/-! ### the `switch sce.Target` of protocol v2 (no `<target>` on the wire: `<keyspace><table>`) -/

/-- `event.go:193-206` = `result.go:264-277`; no `default:` -/
def encodeSchemaChangeTarget2 (sc : SchemaChange) : Res Bytes :=
  if sc.target = SchemaChangeTargetKeyspace then do
    guard (sc.object == []) "SchemaChange: table must be empty for keyspace targets"
    pure (writeString [])
  else if sc.target = SchemaChangeTargetTable then do
    guard (sc.object != []) "SchemaChange: cannot write empty table"
    pure (writeString sc.object)
  else pure []

/-! ### schema-change bodies -/

/-- `event.go:146-208`: everything after the event type -/
def encodeSchemaChangeEventBody (version : Nat) (sc : SchemaChange) : Res Bytes := do
  guard (CheckValidSchemaChangeType sc.changeType) "invalid schema change type"
  if version ≥ ProtocolVersion3 then do
    guard (CheckValidSchemaChangeTarget sc.target version) "invalid schema change target"
    guard (sc.keyspace != []) "EVENT SchemaChange: cannot write empty keyspace"
    let tail ← encodeEventTarget3 sc
    pure (writeString sc.changeType ++ writeString sc.target ++ writeString sc.keyspace ++ tail)
  else do
    guard (CheckValidSchemaChangeTarget sc.target version) "invalid schema change target"
    guard (sc.keyspace != []) "EVENT SchemaChange: cannot write empty keyspace"
    let tail ← encodeSchemaChangeTarget2 sc
    pure (writeString sc.changeType ++ writeString sc.keyspace ++ tail)

/-- `result.go:217-278`: everything after the `[int]` result type -/
def encodeSchemaChangeResultBody (version : Nat) (sc : SchemaChange) : Res Bytes := do
  guard (CheckValidSchemaChangeType sc.changeType) "invalid schema change type"
  if version ≥ ProtocolVersion3 then do
    guard (CheckValidSchemaChangeTarget sc.target version) "invalid schema change target"
    guard (sc.keyspace != []) "RESULT SchemaChange: cannot write empty keyspace"
    let tail ← encodeResultTarget3 sc
    pure (writeString sc.changeType ++ writeString sc.target ++ writeString sc.keyspace ++ tail)
  else do
    guard (CheckValidSchemaChangeTarget sc.target version) "invalid schema change target"
    guard (sc.keyspace != []) "RESULT SchemaChange: cannot write empty keyspace"
    let tail ← encodeSchemaChangeTarget2 sc
    pure (writeString sc.changeType ++ writeString sc.keyspace ++ tail)

/-- `event.go:253-275` = `result.go:346-368`: `CheckValidSchemaChangeTarget` comes before the version split; neither the
    change type nor the emptiness of keyspace / object is checked here -/
def lengthOfSchemaChangeBody (version : Nat) (sc : SchemaChange) : Res Nat := do
  guard (CheckValidSchemaChangeTarget sc.target version) "invalid schema change target"
  if version ≥ ProtocolVersion3 then
    pure (lengthOfString sc.changeType + lengthOfString sc.target + lengthOfString sc.keyspace +
      lengthOfSchemaChangeTarget3 sc)
  else
    pure (lengthOfString sc.changeType + lengthOfString sc.keyspace + lengthOfString sc.object)

/-- `event.go:313-362` = `result.go:430-479`. The change type is not validated. In v2 the target is DERIVED from
    `Object == ""`. -/
def decodeSchemaChangeBody (version : Nat) : Parser SchemaChange := do
  let changeType ← readString
  if version ≥ ProtocolVersion3 then do
    let target ← readString
    guardP (CheckValidSchemaChangeTarget target version) "invalid schema change target"
    let ks ← readString
    let oa ← decodeSchemaChangeTarget3 target
    pure { changeType := changeType, target := target, keyspace := ks, object := oa.1, arguments := oa.2 }
  else do
    let ks ← readString
    let obj ← readString
    pure { changeType := changeType,
           target := if obj = [] then SchemaChangeTargetKeyspace else SchemaChangeTargetTable,
           keyspace := ks, object := obj, arguments := none }

def lengthOfSchemaChangeResultBody (version : Nat) (sc : SchemaChange) : Res Nat :=
  lengthOfSchemaChangeBody version sc

def decodeSchemaChangeResultBody (version : Nat) : Parser SchemaChange :=
  decodeSchemaChangeBody version

/-! ### RESULT Void / SetKeyspace (after the `[int]` result type) -/

/-- `result.go:200-201`, `333-334`, `420-421`: a Void result has no body -/
def encodeVoidBody : Res Bytes := pure []
def lengthOfVoidBody : Res Nat := pure 0
def decodeVoidBody : Parser Unit := pure ()

/-- `result.go:207-211` -/
def encodeSetKeyspaceBody (keyspace : Bytes) : Res Bytes := do
  guard (keyspace != []) "RESULT SetKeyspace: cannot write empty keyspace"
  pure (writeString keyspace)

/-- `result.go:340` (no emptiness check) -/
def lengthOfSetKeyspaceBody (keyspace : Bytes) : Res Nat := pure (lengthOfString keyspace)

/-- `result.go:423-427` (no emptiness check) -/
def decodeSetKeyspaceBody : Parser Bytes := readString

/-! ### status / topology change events -/

/-- `event.go:214-222` -/
def encodeStatusChangeBody (changeType : Bytes) (address : Option Inet) : Res Bytes := do
  guard (CheckValidStatusChangeType changeType) "invalid status change type"
  let a ← writeInet address
  pure (writeString changeType ++ a)

/-- `event.go:228-236` -/
def encodeTopologyChangeBody (version : Nat) (changeType : Bytes) (address : Option Inet) : Res Bytes := do
  guard (CheckValidTopologyChangeType changeType version) "invalid topology change type"
  let a ← writeInet address
  pure (writeString changeType ++ a)

/-- `event.go:282-288` = `event.go:294-300`: the change type is not checked by `EncodedLength` -/
def lengthOfNodeChangeBody (changeType : Bytes) (address : Option Inet) : Res Nat := do
  let a ← lengthOfInet address
  pure (lengthOfString changeType + a)

/-- `event.go:365-374` = `event.go:376-385`: the change type is NOT validated by the decoder -/
def decodeNodeChangeBody : Parser (Bytes × Option Inet) := do
  let changeType ← readString
  let a ← readInet
  pure (changeType, some a)

/-! ### EVENT -/

/-- `GetEventType()` -/
def _root_.Cql.EventMsg.eventType : EventMsg → Bytes
  | .schemaChange _ => EventTypeSchemaChange
  | .statusChange _ _ => EventTypeStatusChange
  | .topologyChange _ _ => EventTypeTopologyChange

/-- the `switch event.GetEventType()` of `eventCodec.Encode` -/
def encodeEventBody (version : Nat) : EventMsg → Res Bytes
  | .schemaChange sc => encodeSchemaChangeEventBody version sc
  | .statusChange t a => encodeStatusChangeBody t a
  | .topologyChange t a => encodeTopologyChangeBody version t a

/-- `eventCodec.Encode` -/
def encodeEvent (version : Nat) (e : EventMsg) : Res Bytes := do
  guard (CheckValidEventType e.eventType) "invalid event type"
  let body ← encodeEventBody version e
  pure (writeString e.eventType ++ body)

/-- the `switch event.GetEventType()` of `eventCodec.EncodedLength` -/
def lengthOfEventBody (version : Nat) : EventMsg → Res Nat
  | .schemaChange sc => lengthOfSchemaChangeBody version sc
  | .statusChange t a => lengthOfNodeChangeBody t a
  | .topologyChange t a => lengthOfNodeChangeBody t a

/-- `eventCodec.EncodedLength` (the event type is not checked) -/
def lengthOfEvent (version : Nat) (e : EventMsg) : Res Nat := do
  let body ← lengthOfEventBody version e
  pure (lengthOfString e.eventType + body)

/-- the `switch primitive.EventType(eventType)` of `eventCodec.Decode` -/
def decodeEventBody (version : Nat) (eventType : Bytes) : Parser EventMsg :=
  if eventType = EventTypeSchemaChange then EventMsg.schemaChange <$> decodeSchemaChangeBody version
  else if eventType = EventTypeStatusChange then (fun p => EventMsg.statusChange p.1 p.2) <$> decodeNodeChangeBody
  else if eventType = EventTypeTopologyChange then (fun p => EventMsg.topologyChange p.1 p.2) <$> decodeNodeChangeBody
  else Parser.fail "unknown EVENT type"

/-- `eventCodec.Decode` -/
def decodeEvent (version : Nat) : Parser EventMsg := do
  let eventType ← readString
  decodeEventBody version eventType

end Cql.Impl
