import Cql.Impl.Message
/-! `frame/encode.go`, `frame/decode.go`, `frame/convert.go`, `frame/codec.go` -/
namespace Cql.Impl
open Cql Cql.Prim Cql.Gen

/-- `frame.BodyCompressor`, as the codec sees it. `decompressWithLength` is handed the bytes the
    `io.LimitReader(source, BodyLength)` can deliver and returns the decompressed body together with the part of those
    bytes it did not consume (the concrete wrappers are modelled in `Cql/Compress.lean`). -/
structure BodyCompressor where
  compressWithLength : Bytes → Res Bytes
  decompressWithLength : Bytes → Res (Bytes × Bytes)

def hasFlag (flags bit : Nat) : Bool := HeaderFlag_Contains flags bit

/-! ### header -/

def versionAndDirection (h : Header) : Nat := h.version ||| (if h.isResponse then 128 else 0)

def encodeHeader (h : Header) : Res Bytes := do
  let useBeta := hasFlag h.flags HeaderFlagUseBeta
  guard (CheckSupportedProtocolVersion h.version) "unsupported protocol version"
  guard (!(ProtocolVersion_IsBeta h.version && !useBeta)) "expected USE_BETA flag to be set"
  let sid ← writeStreamId h.version h.streamId
  pure (writeByte (versionAndDirection h) ++ writeByte h.flags ++ sid ++ writeByte h.opCode ++ writeInt h.bodyLength)

def checkDirection (isResponse : Bool) (opCode : Nat) : Bool :=
  if isResponse then CheckResponseOpCode opCode else CheckRequestOpCode opCode

def decodeHeader : Parser Header := do
  let vd ← readByte
  let isResponse := decide (vd &&& 128 > 0)
  let version := vd &&& 127
  let flags ← readByte
  let useBeta := hasFlag flags HeaderFlagUseBeta
  guardP (CheckSupportedProtocolVersion version) "unsupported protocol version"
  guardP (!(ProtocolVersion_IsBeta version && !useBeta)) "expected USE_BETA flag to be set"
  let sid ← readStreamId version
  let opCode ← readByte
  let bodyLength ← readInt
  guardP (CheckValidOpCode opCode) "invalid opcode"
  guardP (checkDirection isResponse opCode) "opcode does not match direction"
  pure { isResponse := isResponse, version := version, flags := flags, streamId := sid, opCode := opCode,
         bodyLength := bodyLength }

/-! ### body -/

/-- the optional parts in front of the message: tracing id (responses), warnings, custom payload — in this order -/
def encodeBodyPrefix (h : Header) (b : Body) : Res Bytes := do
  let tracing ← whenW (hasFlag h.flags HeaderFlagTracing && b.message.isResponse) (writeUuid b.tracingId)
  let warnings ← whenW (hasFlag h.flags HeaderFlagWarning && b.message.isResponse)
    (if h.version < ProtocolVersion4 ∧ b.warnings.isSome then .err "warnings are not supported"
     else .ok (writeStringList (b.warnings.getD [])))
  let payload ← whenW (hasFlag h.flags HeaderFlagCustomPayload)
    (if h.version < ProtocolVersion4 then .err "custom payloads are not supported"
     else .ok (writeBytesMap (b.customPayload.getD [])))
  pure (tracing ++ warnings ++ payload)

def encodeBodyUncompressed (h : Header) (b : Body) : Res Bytes := do
  let pre ← encodeBodyPrefix h b
  let msg ← encodeMsg h.version b.message
  pure (pre ++ msg)

def uncompressedBodyLength (h : Header) (b : Body) : Res Nat := do
  let msg ← lengthOfMsg h.version b.message
  pure (msg + optN (hasFlag h.flags HeaderFlagTracing && b.message.isResponse) lengthOfUuid +
    optN (hasFlag h.flags HeaderFlagCustomPayload) (lengthOfBytesMap (b.customPayload.getD [])) +
    optN (hasFlag h.flags HeaderFlagWarning && b.message.isResponse) (lengthOfStringList (b.warnings.getD [])))

/-- `EncodeBody`: compresses when the COMPRESSED flag is set -/
def encodeBody (c : Option BodyCompressor) (h : Header) (b : Body) : Res Bytes := do
  guard (h.opCode == b.message.opCode) "opcode mismatch between header and body"
  if hasFlag h.flags HeaderFlagCompressed then
    match c with
    | none => .err "cannot compress body: no compressor available"
    | some comp => do
      let _ ← uncompressedBodyLength h b
      let raw ← encodeBodyUncompressed h b
      comp.compressWithLength raw
  else encodeBodyUncompressed h b

def decodeBodyPlain (h : Header) : Parser Body := do
  let tracing ← whenP (h.isResponse && hasFlag h.flags HeaderFlagTracing) (some <$> readUuid) none
  let warnings ← whenP (h.isResponse && hasFlag h.flags HeaderFlagWarning) (some <$> readStringList) none
  let payload ← whenP (hasFlag h.flags HeaderFlagCustomPayload) (some <$> readBytesMap) none
  let msg ← decodeMsg h.version h.opCode
  pure { tracingId := tracing, customPayload := payload, warnings := warnings, message := msg }

/-- the bytes `io.LimitReader(source, int64(BodyLength))` can deliver (none for a negative length) -/
def limited (bodyLength : Nat) (s : Bytes) : Bytes × Bytes :=
  if isNeg32 bodyLength then ([], s) else (s.take bodyLength, s.drop bodyLength)

/-- `DecodeBody`. Uncompressed: the message decoder reads straight from the stream (the declared body length is not
    consulted). Compressed: the decompressor reads from the length-limited stream, the body is decoded from the
    decompressed buffer and whatever that buffer holds beyond the message is dropped. -/
def decodeBody (c : Option BodyCompressor) (h : Header) : Parser Body :=
  if hasFlag h.flags HeaderFlagCompressed then
    match c with
    | none => Parser.fail "cannot decompress body: no compressor available"
    | some comp => ⟨fun s =>
        let (chunk, beyond) := limited h.bodyLength s
        match comp.decompressWithLength chunk with
        | .err e => .err e
        | .panic e => .panic e
        | .ok (raw, unread) =>
          match (decodeBodyPlain h).run raw with
          | .ok (body, _) => .ok (body, unread ++ beyond)
          | .err e => .err e
          | .panic e => .panic e⟩
  else decodeBodyPlain h

/-! ### frames -/

/-- `EncodeFrame`: returns the bytes and the body length it stored into the header -/
def encodeFrame (c : Option BodyCompressor) (f : Frame) : Res (Bytes × Nat) :=
  if hasFlag f.header.flags HeaderFlagCompressed then do
    let body ← encodeBody c f.header f.body
    let bl := body.length % 4294967296
    let hdr ← encodeHeader { f.header with bodyLength := bl }
    pure (hdr ++ body, bl)
  else do
    let n ← uncompressedBodyLength f.header f.body
    let bl := n % 4294967296
    let hdr ← encodeHeader { f.header with bodyLength := bl }
    let body ← encodeBody c { f.header with bodyLength := bl } f.body
    pure (hdr ++ body, bl)

def decodeFrame (c : Option BodyCompressor) : Parser Frame := do
  let h ← decodeHeader
  let b ← decodeBody c h
  pure { header := h, body := b }

/-! ### raw frames and partial operations -/

def encodeRawFrame (f : RawFrame) : Res Bytes := do
  guard (CheckSupportedProtocolVersion f.header.version) "unsupported protocol version"
  let hdr ← encodeHeader { f.header with bodyLength := f.body.length % 4294967296 }
  pure (hdr ++ f.body)

/-- `DecodeRawBody`: exactly `BodyLength` bytes, or an error -/
def decodeRawBody (h : Header) : Parser Bytes :=
  if isNeg32 h.bodyLength then Parser.fail "invalid body length"
  else if h.bodyLength = 0 then pure []
  else take h.bodyLength

/-- `DiscardBody` for a non-seekable source (`io.CopyN` to `ioutil.Discard`) -/
def discardBody (h : Header) : Parser Unit :=
  if isNeg32 h.bodyLength then Parser.fail "invalid body length"
  else if h.bodyLength = 0 then pure ()
  else (fun _ => ()) <$> take h.bodyLength

/-- `DiscardBody` for a seekable source: `Seek(count, io.SeekCurrent)` succeeds even past the end of the data -/
def discardBodySeek (h : Header) : Parser Unit :=
  if isNeg32 h.bodyLength then Parser.fail "invalid body length"
  else if h.bodyLength = 0 then pure ()
  else ⟨fun s => .ok ((), s.drop h.bodyLength)⟩

def decodeRawFrame : Parser RawFrame := do
  let h ← decodeHeader
  let b ← decodeRawBody h
  pure { header := h, body := b }

/-- `ConvertToRawFrame` (the raw frame shares the header, whose `BodyLength` is updated) -/
def convertToRawFrame (c : Option BodyCompressor) (f : Frame) : Res RawFrame := do
  let body ← encodeBody c f.header f.body
  pure { header := { f.header with bodyLength := body.length % 4294967296 }, body := body }

/-- `ConvertFromRawFrame`: `DecodeBody(frame.Header, bytes.NewBuffer(frame.Body))` -/
def convertFromRawFrame (c : Option BodyCompressor) (f : RawFrame) : Res Frame :=
  match (decodeBody c f.header).run f.body with
  | .ok (b, _) => .ok { header := f.header, body := b }
  | .err e => .err e
  | .panic e => .panic e

end Cql.Impl
