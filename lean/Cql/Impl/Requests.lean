import Cql.Msg
import Cql.Impl.Combinators
import Cql.Impl.QueryOptions
/-!
Request-side messages and the small bytes/string responses:
`message/startup.go`, `options.go`, `ready.go`, `query.go`, `execute.go`, `batch.go`, `register.go`,
`auth_response.go`, `auth_challenge.go`, `auth_success.go`, `authenticate.go`, `supported.go`,
`dse_revise_request.go`.

Every function takes the fields of the corresponding `Cql.Msg` constructor; decoders return those fields
(a tuple when there are several).
-/
namespace Cql.Impl
open Cql Cql.Prim Cql.Gen

/-! ### STARTUP: a `[string map]`; a nil map is written as the empty map -/

def encodeStartup (_version : Nat) (options : Option (List (Bytes × Bytes))) : Res Bytes :=
  .ok (writeStringMap (options.getD []))

def lengthOfStartup (_version : Nat) (options : Option (List (Bytes × Bytes))) : Res Nat :=
  .ok (lengthOfStringMap (options.getD []))

/-- `ReadStringMap` always returns a non-nil map -/
def decodeStartup (_version : Nat) : Parser (Option (List (Bytes × Bytes))) :=
  some <$> readStringMap

/-! ### OPTIONS, READY: empty bodies -/

def encodeOptions (_version : Nat) : Res Bytes := .ok []
def lengthOfOptions (_version : Nat) : Res Nat := .ok 0
def decodeOptions (_version : Nat) : Parser Unit := pure ()

def encodeReady (_version : Nat) : Res Bytes := .ok []
def lengthOfReady (_version : Nat) : Res Nat := .ok 0
def decodeReady (_version : Nat) : Parser Unit := pure ()

/-! ### QUERY: `<query><query_parameters>` -/

def encodeQuery (version : Nat) (query : Bytes) (opts : Option QueryOptions) : Res Bytes := do
  let o ← encodeQueryOptions version opts
  pure (writeLongString query ++ o)

def lengthOfQuery (version : Nat) (query : Bytes) (opts : Option QueryOptions) : Res Nat := do
  let o ← lengthOfQueryOptions version opts
  pure (lengthOfLongString query + o)

/-- `DecodeQueryOptions` always returns a non-nil struct -/
def decodeQuery (version : Nat) : Parser (Bytes × Option QueryOptions) := do
  let q ← readLongString
  let o ← decodeQueryOptions version
  pure (q, some o)

/-! ### EXECUTE: `<id>[<result_metadata_id>]<query_parameters>`; empty ids are refused in both directions -/

/-- `if len(id) == 0 { return err }; WriteShortBytes(id)` -/
def encodeExecuteId (id : Option Bytes) (msg : String) : Res Bytes := do
  guard ((id.getD []) != []) msg
  pure (writeShortBytes id)

/-- `ReadShortBytes` followed by `if len(id) == 0 { return err }` -/
def decodeExecuteId (msg : String) : Parser (Option Bytes) := do
  let id ← readShortBytes
  guardP ((id.getD []) != []) msg
  pure id

def encodeExecute (version : Nat) (queryId resultMetadataId : Option Bytes) (opts : Option QueryOptions) :
    Res Bytes := do
  let qid ← encodeExecuteId queryId "EXECUTE missing query id"
  let rid ← whenW (ProtocolVersion_SupportsResultMetadataId version)
    (encodeExecuteId resultMetadataId "EXECUTE missing result metadata id")
  let o ← encodeQueryOptions version opts
  pure (qid ++ rid ++ o)

def lengthOfExecute (version : Nat) (queryId resultMetadataId : Option Bytes) (opts : Option QueryOptions) :
    Res Nat := do
  let o ← lengthOfQueryOptions version opts
  pure (lengthOfShortBytes queryId +
    optN (ProtocolVersion_SupportsResultMetadataId version) (lengthOfShortBytes resultMetadataId) + o)

def decodeExecute (version : Nat) : Parser (Option Bytes × Option Bytes × Option QueryOptions) := do
  let qid ← decodeExecuteId "EXECUTE missing query id"
  let rid ← whenP (ProtocolVersion_SupportsResultMetadataId version)
    (decodeExecuteId "EXECUTE missing result metadata id") none
  let o ← decodeQueryOptions version
  pure (qid, rid, some o)

/-! ### BATCH -/

/-- `Batch.Flags()`, as a function of the four presence tests it performs -/
def bflags (serial ts ks now : Bool) : Nat :=
  let f := 0
  let f := if serial then QueryFlag_Add f QueryFlagSerialConsistency else f
  let f := if ts then QueryFlag_Add f QueryFlagDefaultTimestamp else f
  let f := if ks then QueryFlag_Add f QueryFlagWithKeyspace else f
  let f := if now then QueryFlag_Add f QueryFlagNowInSeconds else f
  f

def _root_.Cql.Batch.flags (b : Batch) : Nat :=
  bflags b.serialConsistency.isSome b.defaultTimestamp.isSome (b.keyspace != []) b.nowInSeconds.isSome

/-- the kind byte and the query string or prepared id; the kind is chosen by `child.Query != ""`
    (an `Id` next to a non-empty `Query` is silently ignored) -/
def encodeBatchChildHead (c : BatchChild) : Res Bytes :=
  if c.query != [] then .ok (writeByte BatchChildTypeQueryString ++ writeLongString c.query)
  else do
    guard ((c.id.getD []) != []) "cannot write empty BATCH query id"
    pure (writeByte BatchChildTypePreparedId ++ writeShortBytes c.id)

def encodeBatchChild (version : Nat) (c : BatchChild) : Res Bytes := do
  let head ← encodeBatchChildHead c
  let vals ← writePositionalValues version (c.values.getD [])
  pure (head ++ vals)

def lengthOfBatchChild (c : BatchChild) : Res Nat := do
  let vals ← lengthOfPositionalValues (c.values.getD [])
  pure (lengthOfByte + (if c.query != [] then lengthOfLongString c.query else lengthOfShortBytes c.id) + vals)

/-- the kind byte, then `Query` (kind 0) or `Id` (kind 1); the other field keeps its zero value -/
def decodeBatchChildHead : Parser (Bytes × Option Bytes) := do
  let kind ← readByte
  if kind = BatchChildTypeQueryString then (fun q => (q, none)) <$> readLongString
  else if kind = BatchChildTypePreparedId then (fun i => ([], i)) <$> readShortBytes
  else Parser.fail "unsupported BATCH child type"

def decodeBatchChild (version : Nat) : Parser BatchChild := do
  let head ← decodeBatchChildHead
  let vals ← readPositionalValues version
  pure { query := head.1, id := head.2, values := some vals }

/-- the encoder's test for an optional trailing field: `version.SupportsQueryFlag(f) && flags.Contains(f)` -/
def bhas (version flags bit : Nat) : Bool := ProtocolVersion_SupportsQueryFlag version bit && has flags bit

/-- everything after `<consistency>` (only where BATCH has flags, i.e. v3+) -/
def encodeBatchTail (version : Nat) (b : Batch) : Res Bytes := do
  let ks ← whenW (bhas version b.flags QueryFlagWithKeyspace) (encodeKeyspace b.keyspace)
  pure (writeQueryFlags version b.flags ++
    optB (bhas version b.flags QueryFlagSerialConsistency) (writeShort (b.serialConsistency.getD 0)) ++
    optB (bhas version b.flags QueryFlagDefaultTimestamp) (writeLong (b.defaultTimestamp.getD 0)) ++ ks ++
    optB (bhas version b.flags QueryFlagNowInSeconds) (writeInt (b.nowInSeconds.getD 0)))

def lengthOfBatchTail (version : Nat) (b : Batch) : Nat :=
  lengthOfQueryFlags version +
    optN (bhas version b.flags QueryFlagSerialConsistency) lengthOfShort +
    optN (bhas version b.flags QueryFlagDefaultTimestamp) lengthOfLong +
    optN (bhas version b.flags QueryFlagWithKeyspace) (lengthOfString b.keyspace) +
    optN (bhas version b.flags QueryFlagNowInSeconds) lengthOfInt

structure BatchTail where
  serialConsistency : Option Nat
  defaultTimestamp : Option Nat
  keyspace : Bytes
  nowInSeconds : Option Nat
  deriving Repr, DecidableEq

/-- serial consistency and timestamp are read on the flag alone; keyspace and now-in-seconds also ask the version.
    Neither consistency level is validated. -/
def decodeBatchTail (version : Nat) : Parser BatchTail := do
  let flags ← readQueryFlags version
  guardP (!(has flags QueryFlagValueNames)) "cannot use BATCH with named values, see CASSANDRA-10246"
  let serial ← whenP (has flags QueryFlagSerialConsistency) (some <$> readShort) none
  let ts ← whenP (has flags QueryFlagDefaultTimestamp) (some <$> readLong) none
  let ks ← whenP (bhas version flags QueryFlagWithKeyspace) readString []
  let now ← whenP (bhas version flags QueryFlagNowInSeconds) (some <$> readInt) none
  pure { serialConsistency := serial, defaultTimestamp := ts, keyspace := ks, nowInSeconds := now }

def encodeBatch (version : Nat) (b : Batch) : Res Bytes := do
  guard (CheckValidBatchType b.type) "invalid BATCH type"
  guard (decide ((b.children.getD []).length ≤ 65535)) "BATCH messages can contain at most 65535 child queries"
  let cs ← writeAll (encodeBatchChild version) (b.children.getD [])
  let tail ← whenW (ProtocolVersion_SupportsBatchQueryFlags version) (encodeBatchTail version b)
  pure (writeByte b.type ++ writeShort ((b.children.getD []).length % 65536) ++ cs ++
    writeShort b.consistency ++ tail)

def lengthOfBatch (version : Nat) (b : Batch) : Res Nat := do
  guard (decide ((b.children.getD []).length ≤ 65535)) "BATCH messages can contain at most 65535 queries"
  let cs ← sumAll lengthOfBatchChild (b.children.getD [])
  pure (lengthOfByte + lengthOfShort + cs + lengthOfShort +
    optN (ProtocolVersion_SupportsBatchQueryFlags version) (lengthOfBatchTail version b))

def decodeBatch (version : Nat) : Parser Batch := do
  let t ← readByte
  guardP (CheckValidBatchType t) "invalid BATCH type"
  let n ← readShort
  let children ← readN n (decodeBatchChild version)
  let c ← readShort
  let tail ← whenP (ProtocolVersion_SupportsBatchQueryFlags version) (decodeBatchTail version) ⟨none, none, [], none⟩
  pure { type := t, children := some children, consistency := c, serialConsistency := tail.serialConsistency,
         defaultTimestamp := tail.defaultTimestamp, keyspace := tail.keyspace, nowInSeconds := tail.nowInSeconds }

/-! ### REGISTER: a non-empty `[string list]` of valid event types -/

def encodeRegister (_version : Nat) (eventTypes : Option (List Bytes)) : Res Bytes := do
  guard ((eventTypes.getD []).length != 0) "REGISTER messages must have at least one event type"
  guard ((eventTypes.getD []).all CheckValidEventType) "invalid event type"
  pure (writeStringList (eventTypes.getD []))

def lengthOfRegister (_version : Nat) (eventTypes : Option (List Bytes)) : Res Nat :=
  .ok (lengthOfStringList (eventTypes.getD []))

/-- the decoder checks the event types but not that there is at least one -/
def decodeRegister (_version : Nat) : Parser (Option (List Bytes)) := do
  let l ← readStringList
  guardP (l.all CheckValidEventType) "invalid event type"
  pure (some l)

/-! ### AUTH_RESPONSE, AUTH_CHALLENGE, AUTH_SUCCESS: one `[bytes]` token (null is allowed and preserved) -/

def encodeAuthResponse (_version : Nat) (token : Option Bytes) : Res Bytes := .ok (writeBytes token)
def lengthOfAuthResponse (_version : Nat) (token : Option Bytes) : Res Nat := .ok (lengthOfBytes token)
def decodeAuthResponse (_version : Nat) : Parser (Option Bytes) := readBytes

def encodeAuthChallenge (_version : Nat) (token : Option Bytes) : Res Bytes := .ok (writeBytes token)
def lengthOfAuthChallenge (_version : Nat) (token : Option Bytes) : Res Nat := .ok (lengthOfBytes token)
def decodeAuthChallenge (_version : Nat) : Parser (Option Bytes) := readBytes

def encodeAuthSuccess (_version : Nat) (token : Option Bytes) : Res Bytes := .ok (writeBytes token)
def lengthOfAuthSuccess (_version : Nat) (token : Option Bytes) : Res Nat := .ok (lengthOfBytes token)
def decodeAuthSuccess (_version : Nat) : Parser (Option Bytes) := readBytes

/-! ### AUTHENTICATE: a non-empty `[string]` (the decoder does not check emptiness) -/

def encodeAuthenticate (_version : Nat) (authenticator : Bytes) : Res Bytes := do
  guard (authenticator != []) "AUTHENTICATE authenticator cannot be empty"
  pure (writeString authenticator)

def lengthOfAuthenticate (_version : Nat) (authenticator : Bytes) : Res Nat :=
  .ok (lengthOfString authenticator)

def decodeAuthenticate (_version : Nat) : Parser Bytes := readString

/-! ### SUPPORTED: a `[string multimap]`; a nil map is written as the empty map -/

def encodeSupported (_version : Nat) (options : Option (List (Bytes × List Bytes))) : Res Bytes :=
  .ok (writeStringMultiMap (options.getD []))

def lengthOfSupported (_version : Nat) (options : Option (List (Bytes × List Bytes))) : Res Nat :=
  .ok (lengthOfStringMultiMap (options.getD []))

def decodeSupported (_version : Nat) : Parser (Option (List (Bytes × List Bytes))) :=
  some <$> readStringMultiMap

/-! ### REVISE_REQUEST (DSE) -/

def encodeRevise (version : Nat) (revisionType targetStreamId nextPages : Nat) : Res Bytes := do
  guard (CheckDseProtocolVersion version) "invalid DSE protocol version"
  guard (CheckValidDseRevisionType revisionType version) "invalid DSE revision type"
  pure (writeInt revisionType ++ writeInt targetStreamId ++
    optB (revisionType == DseRevisionTypeMoreContinuousPages) (writeInt nextPages))

def lengthOfRevise (version : Nat) (revisionType _targetStreamId _nextPages : Nat) : Res Nat := do
  guard (CheckDseProtocolVersion version) "invalid DSE protocol version"
  pure (lengthOfInt + lengthOfInt + optN (revisionType == DseRevisionTypeMoreContinuousPages) lengthOfInt)

def decodeRevise (version : Nat) : Parser (Nat × Nat × Nat) := do
  guardP (CheckDseProtocolVersion version) "invalid DSE protocol version"
  let t ← readInt
  guardP (CheckValidDseRevisionType t version) "invalid DSE revision type"
  let sid ← readInt
  let next ← whenP (t == DseRevisionTypeMoreContinuousPages) readInt 0
  pure (t, sid, next)

end Cql.Impl
