import Cql.Prim
import Cql.Lemmas.PrimRT
/-! Small code-shaped combinators used by the message models, with their round-trip lemmas. -/
namespace Cql.Impl
open Cql Cql.Prim Cql.Parser

/-- `if cond { field, err = read(source) }` — the field keeps its zero value `d` otherwise -/
def whenP {α} (c : Bool) (p : Parser α) (d : α) : Parser α := if c then p else pure d

/-- `if cond { write(...) }` -/
def whenW (c : Bool) (b : Res Bytes) : Res Bytes := if c then b else .ok []

def whenL (c : Bool) (n : Res Nat) : Res Nat := if c then n else .ok 0

theorem whenP_true {α} (p : Parser α) (d : α) : whenP true p d = p := rfl
theorem whenP_false {α} (p : Parser α) (d : α) : whenP false p d = pure d := rfl

theorem whenP_RT {α} (c : Bool) (p : Parser α) (d x : α) (b rest : Bytes)
    (ht : c = true → p.run (b ++ rest) = .ok (x, rest))
    (hf : c = false → b = [] ∧ x = d) :
    (whenP c p d).run (b ++ rest) = .ok (x, rest) := by
  cases c with
  | true => rw [whenP_true]; exact ht rfl
  | false =>
    obtain ⟨hb, hx⟩ := hf rfl
    rw [whenP_false, hb, hx]; rfl

theorem whenW_true (b : Res Bytes) : whenW true b = b := rfl
theorem whenW_false (b : Res Bytes) : whenW false b = .ok [] := rfl
theorem whenL_true (b : Res Nat) : whenL true b = b := rfl
theorem whenL_false (b : Res Nat) : whenL false b = .ok 0 := rfl

/-- `if cond { write }` for an infallible writer -/
def optB (c : Bool) (b : Bytes) : Bytes := if c then b else []
def optN (c : Bool) (n : Nat) : Nat := if c then n else 0

theorem optB_len (c : Bool) (b : Bytes) (n : Nat) (h : b.length = n) : (optB c b).length = optN c n := by
  cases c <;> simp [optB, optN, h]

theorem whenP_optB_RT {α} (c : Bool) (p : Parser α) (d x : α) (w rest : Bytes)
    (ht : c = true → p.run (w ++ rest) = .ok (x, rest)) (hf : c = false → x = d) :
    (whenP c p d).run (optB c w ++ rest) = .ok (x, rest) := by
  cases c with
  | true => exact ht rfl
  | false => rw [hf rfl]; rfl

theorem whenP_whenW_RT {α} (c : Bool) (p : Parser α) (d x : α) (e : Res Bytes) (b : Bytes) (hw : whenW c e = .ok b)
    (rest : Bytes) (ht : c = true → ∀ b', e = .ok b' → p.run (b' ++ rest) = .ok (x, rest)) (hf : c = false → x = d) :
    (whenP c p d).run (b ++ rest) = .ok (x, rest) := by
  cases c with
  | true => exact ht rfl b hw
  | false =>
    rw [whenW_false] at hw
    rw [← Res.ok_inj hw, hf rfl]; rfl

theorem whenL_whenW_len (c : Bool) (e : Res Bytes) (l : Res Nat) (b : Bytes) (hw : whenW c e = .ok b)
    (h : c = true → ∀ b', e = .ok b' → l = .ok b'.length) : whenL c l = .ok b.length := by
  cases c with
  | true => exact h rfl b hw
  | false => rw [whenW_false] at hw; rw [← Res.ok_inj hw]; rfl

/-- lift an infallible writer -/
def okW (b : Bytes) : Res Bytes := .ok b

/-- `if !check { return err }` -/
def guard (c : Bool) (e : String) : Res Unit := if c then .ok () else .err e

theorem guard_ok_inv {c : Bool} {e : String} (h : guard c e = .ok ()) : c = true := by
  cases c with
  | true => rfl
  | false => rw [guard] at h; cases h

def guardP (c : Bool) (e : String) : Parser Unit := if c then pure () else Parser.fail e

theorem guardP_true (e : String) (s : Bytes) : (guardP true e).run s = .ok ((), s) := rfl

end Cql.Impl
