import Cql.Gen.Constants
import Cql.Spec.Features
/-! The library's answer for each (version, feature) pair, read off the regenerated predicates. -/
namespace Cql.Impl
open Cql.Gen

open Cql.Spec in
/-- the library's answer for each (version, feature) pair, read off the regenerated predicates -/
def implFeature (v : Nat) : Feature → Bool
  | .collLen4 => ProtocolVersion_Uses4BytesCollectionLength v
  | .queryFlags4 => ProtocolVersion_Uses4BytesQueryFlags v
  | .batchFlags => ProtocolVersion_SupportsBatchQueryFlags v
  | .prepareFlags => ProtocolVersion_SupportsPrepareFlags v
  | .resultMetadataId => ProtocolVersion_SupportsResultMetadataId v
  | .reasonMap => ProtocolVersion_SupportsReadWriteFailureReasonMap v
  | .contentions => ProtocolVersion_SupportsWriteTimeoutContentions v
  | .modernFraming => ProtocolVersion_SupportsModernFramingLayout v
  | .unsetValues => ProtocolVersion_SupportsUnsetValues v
  | .snappy => ProtocolVersion_SupportsCompression v CompressionSnappy
  | .lz4 => ProtocolVersion_SupportsCompression v CompressionLz4
  | .noCompression => ProtocolVersion_SupportsCompression v CompressionNone
  | .qfValues => ProtocolVersion_SupportsQueryFlag v QueryFlagValues
  | .qfSkipMetadata => ProtocolVersion_SupportsQueryFlag v QueryFlagSkipMetadata
  | .qfPageSize => ProtocolVersion_SupportsQueryFlag v QueryFlagPageSize
  | .qfPagingState => ProtocolVersion_SupportsQueryFlag v QueryFlagPagingState
  | .qfSerialConsistency => ProtocolVersion_SupportsQueryFlag v QueryFlagSerialConsistency
  | .qfDefaultTimestamp => ProtocolVersion_SupportsQueryFlag v QueryFlagDefaultTimestamp
  | .qfValueNames => ProtocolVersion_SupportsQueryFlag v QueryFlagValueNames
  | .qfKeyspace => ProtocolVersion_SupportsQueryFlag v QueryFlagWithKeyspace
  | .qfNowInSeconds => ProtocolVersion_SupportsQueryFlag v QueryFlagNowInSeconds
  | .qfDsePageSizeBytes => ProtocolVersion_SupportsQueryFlag v QueryFlagDsePageSizeBytes
  | .qfDseContinuousPaging => ProtocolVersion_SupportsQueryFlag v QueryFlagDseWithContinuousPagingOptions
  | .sctKeyspace => ProtocolVersion_SupportsSchemaChangeTarget v SchemaChangeTargetKeyspace
  | .sctTable => ProtocolVersion_SupportsSchemaChangeTarget v SchemaChangeTargetTable
  | .sctType => ProtocolVersion_SupportsSchemaChangeTarget v SchemaChangeTargetType
  | .sctFunction => ProtocolVersion_SupportsSchemaChangeTarget v SchemaChangeTargetFunction
  | .sctAggregate => ProtocolVersion_SupportsSchemaChangeTarget v SchemaChangeTargetAggregate
  | .tcNewNode => ProtocolVersion_SupportsTopologyChangeType v TopologyChangeTypeNewNode
  | .tcRemovedNode => ProtocolVersion_SupportsTopologyChangeType v TopologyChangeTypeRemovedNode
  | .tcMovedNode => ProtocolVersion_SupportsTopologyChangeType v TopologyChangeTypeMovedNode
  | .reviseCancel => ProtocolVersion_SupportsDseRevisionType v DseRevisionTypeCancelContinuousPaging
  | .reviseMorePages => ProtocolVersion_SupportsDseRevisionType v DseRevisionTypeMoreContinuousPages
  | .header9 => ProtocolVersion_FrameHeaderLengthInBytes v == 9


def featureByName (n : String) : Option Spec.Feature :=
  Spec.Feature.all.find? (fun f => toString (repr f) == "Cql.Spec.Feature." ++ n)

end Cql.Impl
