/-!
# Concurrent senders with caller-chosen stream ids: the two critical sections of `onOutgoingFrameEnqueued`

`client/inflight.go` registers a request in two steps that other goroutines can interleave with: first, under the READ lock,
it looks at the in-flight map ("too many in-flight requests", "stream id already in use"); then `addInFlight` takes the WRITE
lock and inserts. In the original code the second step trusted what the first had seen; the repaired code looks again under
the write lock. Both variants are modelled here at the granularity of these critical sections (each is atomic; anything may
happen between them), together with a responder that removes ids.
-/
namespace Cql.InflightMicro

inductive Pc where
  | start
  | checked (ok : Bool)      -- after the first critical section: what it saw
  | finished (accepted : Bool)
  deriving Repr, DecidableEq

structure Thread where
  id : Int
  pc : Pc := .start
  deriving Repr, DecidableEq

structure St where
  n : Nat                     -- maxInFlight
  inFlight : List Int := []   -- the registered stream ids (a map in Go: an id registered twice is an overwrite)
  threads : List Thread := []
  deriving Repr, DecidableEq

/-- what both critical sections test -/
def admissible (s : St) (id : Int) : Bool := decide (s.inFlight.length < s.n) && !s.inFlight.contains id

inductive Ev where
  | thread (i : Nat)          -- thread i executes its next critical section
  | respond (k : Int)         -- the final response for id k arrives
  deriving Repr, DecidableEq

/-- the next critical section of a thread; `recheck = true` is the repaired code -/
def threadStep (recheck : Bool) (s : St) (t : Thread) : St × Thread :=
  match t.pc with
  | .start => (s, { t with pc := .checked (admissible s t.id) })
  | .checked ok =>
    let go := if recheck then ok && admissible s t.id else ok
    if go then ({ s with inFlight := t.id :: s.inFlight }, { t with pc := .finished true })
    else (s, { t with pc := .finished false })
  | .finished _ => (s, t)

def step (recheck : Bool) (s : St) : Ev → St
  | .thread i =>
    match s.threads[i]? with
    | none => s
    | some t => let r := threadStep recheck s t; { r.1 with threads := r.1.threads.set i r.2 }
  | .respond k => { s with inFlight := s.inFlight.erase k }

def run (recheck : Bool) (s : St) : List Ev → St
  | [] => s
  | e :: es => run recheck (step recheck s e) es

end Cql.InflightMicro
