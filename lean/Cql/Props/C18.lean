import Cql.Effects
import Cql.Interleave
/-!
# C18 — codecs can be shared by concurrent goroutines

Two parts.

* **Generic (proved once):** threads that only *read* what they share compute, under every interleaving, exactly what each
  computes alone (`C18_interleaving_equals_sequential`, `C18_schedule_independent`).
* **Per run (decided by the kernel on data regenerated from the SSA form of the Go source):** every function reachable
  from a codec entry point — frame, raw, segment, message and CQL value codecs, the compressors, every exported primitive
  reader/writer — through the module's call graph (interface calls resolved to every implementation, closures included)
  writes no package-level variable and no field of a shared object (`C18_reachable_code_writes_nothing_shared`); package-level
  variables are written by `init` functions only (`C18_globals_written_only_by_init`). This is what licenses modelling a codec
  call as a step of a `ReadOnly` system.

What the model cannot exhibit — data races inside the Go runtime's memory model, third-party code (`pierrec/lz4`'s pools,
`golang/snappy`, `math/big`, `zerolog`) — is observed by the stress harness under the race detector and listed in the
trusted base.
-/
namespace Cql.Props.C18
open Cql.Effects Cql.Gen.Effects Cql.Interleave

/-- the reachable set, computed by iteration from the entry points -/
def reachable : Nat := closure fns 64 (entryMask fns)

theorem C18_reachable_closed : closed fns reachable = true := by decide +kernel
theorem C18_reachable_has_entries : entryMask fns ||| reachable = reachable := by decide +kernel
theorem C18_reachable_clean : clean fns reachable = true := by decide +kernel

/-- **C18 (per run).** Whatever a codec entry point can reach writes neither a package-level variable nor a field of a shared
    codec, compressor or singleton. -/
theorem C18_reachable_code_writes_nothing_shared (i : Nat) (f : Fn) (hr : Reach fns i) (hf : fns[i]? = some f) :
    f.writesGlobals = [] ∧ f.writesShared = [] :=
  clean_of_reach fns reachable C18_reachable_closed C18_reachable_has_entries C18_reachable_clean i f hr hf

/-- package-level variables (the codec singletons, `DefaultMessageCodecs`, the CRC table, error values, type tokens) are written
    by package initialisation only -/
theorem C18_globals_written_only_by_init : fns.all (fun f => f.init || f.writesGlobals.isEmpty) = true := by decide +kernel

/-- the only writes to a shared object outside initialisation are the configuration operations (constructors and
    `SetBodyCompressor`), which are excluded from the claim and reported -/
theorem C18_shared_written_only_by_config : fns.all (fun f => f.config || f.init || f.writesShared.isEmpty) = true := by
  decide +kernel

/-- the claim is about something: there are entry points, and they reach code -/
theorem C18_nonvacuous : 100 ≤ (fns.filter (·.entry)).length ∧ reachable ≠ 0 := by decide +kernel

/-- **C18 (generic).** With read-only sharing, after ANY schedule each goroutine has the results of its own calls made one
    after another. -/
theorem C18_interleaving_equals_sequential {Shared Local : Type} (sys : Sys Shared Local) (h : ReadOnly sys)
    (schedule : List Nat) (st : St Shared Local) (t : Nat) :
    (sys.run st schedule).locals t = sys.alone st.shared t (schedule.count t) (st.locals t) :=
  run_eq_alone sys h schedule st t

theorem C18_schedule_independent {Shared Local : Type} (sys : Sys Shared Local) (h : ReadOnly sys) (s1 s2 : List Nat)
    (st : St Shared Local) (hc : ∀ t, s1.count t = s2.count t) (t : Nat) :
    (sys.run st s1).locals t = (sys.run st s2).locals t :=
  schedule_independent sys h s1 s2 st hc t

/-- and the shared state is the same after any schedule -/
theorem C18_shared_unchanged {Shared Local : Type} (sys : Sys Shared Local) (h : ReadOnly sys) (schedule : List Nat)
    (st : St Shared Local) : (sys.run st schedule).shared = st.shared :=
  run_shared sys h schedule st

/-- `ReadOnly` is necessary: a codec with a scratch buffer (every call leaves its argument in the shared state and returns
    what it finds there) gives thread 0 a different result when thread 1 runs in between -/
example :
    let sys : Sys Nat Nat := { step := fun t s _ => (t + 1, s) }
    (sys.run ⟨0, fun _ => 0⟩ [0, 0]).locals 0 ≠ (sys.run ⟨0, fun _ => 0⟩ [0, 1, 0]).locals 0 := by decide

/-- the reachability check is not vacuous: in a call graph where an entry point reaches a function that writes a codec field,
    the closed set is not clean -/
example :
    let fs : List Fn := [⟨"Encode", [], [], [], [1], true, false, false⟩, ⟨"helper", [], [], ["*codec.buf (store)"], [], false, false, false⟩]
    closed fs (closure fs 8 (entryMask fs)) = true ∧ clean fs (closure fs 8 (entryMask fs)) = false := by decide

end Cql.Props.C18
