import Cql.Conn
import Cql.Lemmas.ConnLemmas
import Cql.Props.C01
import Cql.Props.C03
import Cql.Props.C06
import Cql.Props.C08
import Cql.Show
/-!
# C15 — what is sent on a connection is what is received, under both framing layouts

`Cql.Conn` is the code-shaped model of the framing logic of `client/client.go` and `client/server.go` (`incomingLoop`,
`readSegment`, `readSelfContainedSegment`, `addMultiSegmentPayload`, `writeSegment`, `writeFrame`, `readFrame`,
`maybeSwitchToModernLayout`, adoption of the STARTUP compression) at /repo commit 9810261 (server: flag removal stored,
accumulator initialised, no COMPRESSED flag on modern-layout versions; both sides: reassembly waits for a whole header). It sits on the frame codec of C01/C03 and the
segment codec of C06; compressors are parameters constrained as in C01 (`Lossless`) and C06 (`LosslessOn`), which C08
discharges for LZ4.

Every theorem quantifies over EVERY version-valid frame (`C01.ValidFrame`: every message kind, version, optional part),
ANY bytes following on the stream, and — where it says so — ANY number of frames and ANY split into parts.

* `C15_legacy_stream`, `C15_legacy_client`, `C15_legacy_server` — legacy layout (v2–v4, DSE, and every handshake).
* `C15_self_contained_many` — any number of envelopes in one self-contained segment.
* `C15_multi_segment_reassembly`, `C15_v5_split_on_the_wire` — an envelope split over any number of segments, anywhere.
* `C15_v5_end_to_end`, `C15_v5_wire_layout`, `C15_v5_client_to_server`, `C15_v5_server_to_client` — modern layout.
* `C15_layout_switch`, `C15_layout_switch_client`, `C15_layout_switch_server`, `C15_handshake_unframed` — the switch.
* `C15_oversized_envelope_aborts` (SUSPECT) — the sender never splits.
-/
namespace Cql.Props.C15
open Cql Cql.Prim Cql.Parser Cql.Gen Cql.Impl Cql.Conn Cql.Props.C01 Cql.Props.C03

/-! ## 1. legacy layout -/

/-- **C15 (legacy).** Any finite sequence of valid frames (each with its own version, flags and — given a compressor that
    is lossless on its body — body compression) written back to back with `EncodeFrame` and read frame after frame until
    the bytes are exhausted is delivered complete, in order and equal (up to `canonFrame`), without abort. -/
theorem C15_legacy_stream (c : Option BodyCompressor) (xs : List (Frame × Bytes × Nat))
    (h : ∀ x ∈ xs, ValidFrame c x.1 ∧ encodeFrame c x.1 = .ok (x.2.1, x.2.2)) :
    readFrames c ((xs.map (·.2.1)).flatten.length + 1) (xs.map (·.2.1)).flatten =
      (xs.map (fun x => canonFrame x.1 x.2.2), false) :=
  readFrames_encoded c xs h _ (by have := flatten_encoded_length c xs h; omega)

/-- … through the client's `incomingLoop` (`readFrame` = decode, `maybeSwitchToModernLayout`, `processIncomingFrame`):
    on a connection of a version without the modern layout (v2, v3, v4, DSE v1, DSE v2) every response is delivered, the
    layout never changes, the loop never aborts — provided no response is a fatal ERROR (after which the client closes
    the connection by design). -/
theorem C15_legacy_client (c : Option BodyCompressor) (sc : Option Segment.PayloadCompressor)
    (xs : List (Frame × Bytes × Nat))
    (h : ∀ x ∈ xs, ValidFrame c x.1 ∧ encodeFrame c x.1 = .ok (x.2.1, x.2.2))
    (hver : ∀ x ∈ xs, ProtocolVersion_SupportsModernFramingLayout x.1.header.version = false)
    (hfatal : ∀ x ∈ xs, isFatal x.1 = false) (st : St) (hm : st.modernLayout = false) :
    clientRecvAll c sc ((xs.map (·.2.1)).flatten.length + 1) st (xs.map (·.2.1)).flatten =
      (xs.map (fun x => canonFrame x.1 x.2.2), st, false) :=
  clientRecvAll_legacy c sc xs h
    (fun x hx => ⟨by rw [switches, hver x hx]; rfl, hfatal x hx⟩) _
    (by have := flatten_encoded_length c xs h; omega) st hm

/-- … and through the server's `incomingLoop` with the compression it adopted from STARTUP (`newBodyCompressor`), for
    requests that are not themselves a STARTUP changing it: every request is delivered, nothing else changes. -/
theorem C15_legacy_server (k : Compressors) (srv : Srv) (hm : srv.st.modernLayout = false)
    (xs : List (Frame × Bytes × Nat))
    (h : ∀ x ∈ xs, ValidFrame (newBodyCompressor k srv.compression) x.1 ∧
      encodeFrame (newBodyCompressor k srv.compression) x.1 = .ok (x.2.1, x.2.2))
    (hstartup : ∀ x ∈ xs, adopt srv.compression x.1 = srv.compression) :
    serverRecvAll k ((xs.map (·.2.1)).flatten.length + 1) srv (xs.map (·.2.1)).flatten =
      (xs.map (fun x => canonFrame x.1 x.2.2), srv, false) :=
  serverRecvAll_legacy k xs srv hm h hstartup _ (by have := flatten_encoded_length _ xs h; omega)

/-- the server adopts the compression a STARTUP asks for, for everything it reads and writes afterwards -/
theorem C15_server_adopts_startup (k : Compressors) (srv : Srv) (hm : srv.st.modernLayout = false) (f : Frame)
    (hv : ValidFrame (newBodyCompressor k srv.compression) f) (e : Bytes) (bl : Nat)
    (hw : encodeFrame (newBodyCompressor k srv.compression) f = .ok (e, bl)) (o : Option (List (Bytes × Bytes)))
    (hs : f.body.message = .startup o) (rest : Bytes) :
    (serverRecv k srv (e ++ rest)).frames = [canonFrame f bl] ∧ (serverRecv k srv (e ++ rest)).rest = rest ∧
    (serverRecv k srv (e ++ rest)).abort = false ∧
    (serverRecv k srv (e ++ rest)).srv = { srv with compression := startupCompression o } := by
  rw [serverRecv_legacy k srv _ _ _ hm (C01_frame_roundtrip _ f hv e bl hw rest), adopt_canon, adopt, hs]
  exact ⟨rfl, rfl, rfl, rfl⟩

/-! ## 2. several envelopes in one self-contained segment -/

/-- **C15 (self-contained).** For ANY list of valid uncompressed frames, the loop of `readSelfContainedSegment` over the
    concatenation of their encodings delivers all of them, in order, and does not abort: every packing of 1, 2, …, k
    envelopes into one self-contained segment is understood (the zero-envelope payload delivers nothing). -/
theorem C15_self_contained_many (xs : List (Frame × Bytes × Nat))
    (h : ∀ x ∈ xs, ValidFrame none x.1 ∧ encodeFrame none x.1 = .ok (x.2.1, x.2.2)) :
    readFrames none ((xs.map (·.2.1)).flatten.length + 1) (xs.map (·.2.1)).flatten =
      (xs.map (fun x => canonFrame x.1 x.2.2), false) :=
  C15_legacy_stream none xs h

/-- the same through `onSegment`, whatever body compressor the receiving codec has (the envelopes carry no COMPRESSED
    flag, so it is never consulted), the accumulator and layout untouched -/
theorem C15_self_contained_many_any_codec (c : Option BodyCompressor) (st : St) (xs : List (Frame × Bytes × Nat))
    (h : ∀ x ∈ xs, ValidFrame none x.1 ∧ encodeFrame none x.1 = .ok (x.2.1, x.2.2)) :
    onSegment c st true (xs.map (·.2.1)).flatten = (st, xs.map (fun x => canonFrame x.1 x.2.2), false) :=
  onSegment_encoded c st xs (fun x hx => by
    obtain ⟨hv, hw⟩ := h x hx
    have hcl := flag_clear_of_validFrame_none x.1 hv
    exact ⟨validFrame_of_flag_clear none c x.1 hv hcl, by rw [encodeFrame_flag_clear c x.1 hcl]; exact hw⟩)

/-! ## 3. an envelope split over several segments -/

/-- **C15 (reassembly).** Take a valid frame of a version with the 9-byte header (v3 and later — the modern layout exists
    only for v5), its encoding `e` of less than 2 GiB (the protocol limits a frame to 256 MiB; `targetLength` is computed in
    `int32`), and ANY split of `e` into non-empty parts — however short the first ones are. Feeding the parts to
    `addMultiSegmentPayload` from the empty accumulator
    * delivers nothing and does not abort on any proper prefix of the parts, everything received so far being kept (the
      target length is still 0 while fewer than 9 bytes have arrived, the length of `e` afterwards);
    * delivers exactly the frame on the last part, without abort, and leaves the accumulator empty. -/
theorem C15_multi_segment_reassembly (c : Option BodyCompressor) (f : Frame) (hv : ValidFrame c f) (e : Bytes) (bl : Nat)
    (hw : encodeFrame c f = .ok (e, bl)) (h3 : f.header.version ≥ ProtocolVersion3) (hsz : e.length < 2147483648)
    (parts : List Bytes) (hflat : parts.flatten = e) (hne : ∀ p ∈ parts, p ≠ []) :
    (∀ k, k < parts.length →
      addParts c Acc.empty (parts.take k) =
        ({ targetLength := if (parts.take k).flatten.length < FrameHeaderLengthV3AndHigher then 0 else (e.length : Nat),
           accumulatedData := (parts.take k).flatten }, [], false)) ∧
    addParts c Acc.empty parts = (Acc.empty, [canonFrame f bl], false) := by
  obtain ⟨hall, hpre⟩ := reassembly c e _ (envelope_of_encoded c f hv e bl hw h3 hsz) parts hflat hne
  exact ⟨hpre, hall⟩

/-- the part that completes the envelope may be followed by further segments: the accumulator is empty again, so the next
    self-contained segment or the next split envelope is handled from scratch (here: one more self-contained segment) -/
theorem C15_reassembly_then_next (c : Option BodyCompressor) (f : Frame) (hv : ValidFrame c f) (e : Bytes) (bl : Nat)
    (hw : encodeFrame c f = .ok (e, bl)) (h3 : f.header.version ≥ ProtocolVersion3) (hsz : e.length < 2147483648)
    (parts : List Bytes) (hflat : parts.flatten = e) (hne : ∀ p ∈ parts, p ≠ [])
    (g : Frame) (hvg : ValidFrame c g) (eg : Bytes) (blg : Nat) (hwg : encodeFrame c g = .ok (eg, blg)) (m : Bool) :
    (addParts c Acc.empty parts).1 = Acc.empty ∧
    onSegment c { modernLayout := m, acc := (addParts c Acc.empty parts).1 } true eg =
      ({ modernLayout := m, acc := Acc.empty }, [canonFrame g blg], false) := by
  have h := (C15_multi_segment_reassembly c f hv e bl hw h3 hsz parts hflat hne).2
  rw [h]
  exact ⟨rfl, onSegment_single c _ g hvg eg blg hwg⟩

/-- **… on the wire.** The peer splits the envelope into any non-empty parts and sends each in its own non-self-contained
    segment (`EncodeSegment`, segment compressor absent or lossless on the parts); the client's `incomingLoop`, in the modern
    layout with an empty accumulator, reading the concatenated segments until the bytes are exhausted, delivers exactly that
    frame, aborts nothing and ends with an empty accumulator (a fatal ERROR is excluded: the client closes after it). -/
theorem C15_v5_split_on_the_wire (c : Option BodyCompressor) (sc : Option Segment.PayloadCompressor) (f : Frame)
    (hv : ValidFrame c f) (e : Bytes) (bl : Nat) (hw : encodeFrame c f = .ok (e, bl))
    (h3 : f.header.version ≥ ProtocolVersion3) (hsz : e.length < 2147483648) (hnf : isFatal f = false)
    (xs : List (Bytes × Bytes)) (hflat : (xs.map (·.1)).flatten = e) (hne : ∀ x ∈ xs, x.1 ≠ [])
    (henc : ∀ x ∈ xs, Segment.encodeSegment sc false x.1 = .ok x.2 ∧ ∀ comp, sc = some comp → C06.LosslessOn comp x.1) :
    clientRecvAll c sc ((xs.map (·.2)).flatten.length + 1) { modernLayout := true, acc := Acc.empty } (xs.map (·.2)).flatten =
      ([canonFrame f bl], { modernLayout := true, acc := Acc.empty }, false) := by
  have hadd := (C15_multi_segment_reassembly c f hv e bl hw h3 hsz (xs.map (·.1)) hflat (fun p hp => by
    obtain ⟨x, hx, rfl⟩ := List.mem_map.mp hp
    exact hne x hx)).2
  have hsim := clientRecvAll_parts c sc xs { modernLayout := true, acc := Acc.empty } rfl henc
    (by show (addParts c Acc.empty (xs.map (·.1))).2.2 = false; rw [hadd])
    (by
      show ∀ F ∈ (addParts c Acc.empty (xs.map (·.1))).2.1, isFatal F = false
      rw [hadd]
      intro F hF
      rw [List.mem_singleton.mp hF, isFatal_canon, hnf])
    ((xs.map (·.2)).flatten.length + 1) (by have := flatten_segments_length sc xs henc; omega)
  rw [hsim]
  show ((addParts c Acc.empty (xs.map (·.1))).2.1,
    ({ modernLayout := true, acc := (addParts c Acc.empty (xs.map (·.1))).1 } : St), false) = _
  rw [hadd]

/-- the envelope header itself may arrive in pieces: while no target is known and fewer than 9 bytes have accumulated,
    `addMultiSegmentPayload` neither aborts nor delivers, whatever the bytes are (at /repo 617fb97 the header was decoded
    from the first part alone and a first part shorter than the header closed the connection; repaired in 9810261) -/
theorem C15_short_parts_wait (c : Option BodyCompressor) (d part : Bytes)
    (h : (d ++ part).length < FrameHeaderLengthV3AndHigher) :
    addPart c { targetLength := 0, accumulatedData := d } part =
      ({ targetLength := 0, accumulatedData := d ++ part }, [], false) :=
  addPart_wait c d part h

/-! ## 4. modern layout, sender to receiver -/

/-- **C15 (v5 end to end).** Whatever `writeSegment` wrote for a valid frame `f` (codec compressor `c`, segment compressor
    `sc` absent or lossless on the payload as in C06 — C08 proves it for LZ4):
    * the payload of the segment is `EncodeFrame` WITHOUT compressor of `f` with the COMPRESSED flag cleared — envelopes
      are not compressed individually, whatever the flag and the codec's compressor were — and fits a segment;
    * `DecodeSegment` on those bytes followed by ANY bytes returns a self-contained segment with that payload and leaves
      exactly the following bytes;
    * `onSegment` on it, with ANY body compressor on the receiving side, delivers exactly that frame (up to `canonFrame`),
      no abort, accumulator and layout untouched. -/
theorem C15_v5_end_to_end (c c' : Option BodyCompressor) (sc : Option Segment.PayloadCompressor) (f : Frame)
    (hv : ValidFrame c f) (bs : Bytes) (hw : writeSegment c sc f = .ok bs)
    (hl : ∀ comp p bl, sc = some comp → encodeFrame none (clearCompressed f) = .ok (p, bl) → C06.LosslessOn comp p) :
    ∃ p bl, encodeFrame none (clearCompressed f) = .ok (p, bl) ∧
      hasFlag (clearCompressed f).header.flags HeaderFlagCompressed = false ∧ p.length ≤ Segment.maxPayloadLength ∧
      ∀ rest, ∃ seg, (Segment.decodeSegment sc).run (bs ++ rest) = .ok (seg, rest) ∧
        seg.header.isSelfContained = true ∧ seg.payload = p ∧
        ∀ st, onSegment c' st true seg.payload = (st, [canonFrame (clearCompressed f) bl], false) := by
  obtain ⟨p, bl, hp, hseg⟩ := writeSegment_inv c sc f bs hw
  have hcl := clearCompressed_flag f hv.flags
  rw [encodeFrame_flag_clear c _ hcl] at hp
  have hvn := validFrame_clearCompressed c f hv
  refine ⟨p, bl, hp, hcl, encodeSegment_ok_length sc true p bs hseg, fun rest => ?_⟩
  obtain ⟨seg, hdec, hpay, hself⟩ := segment_delivery sc true p bs (fun comp h => hl comp p bl h hp) hseg rest
  refine ⟨seg, hdec, hself, hpay, fun st => ?_⟩
  rw [hpay]
  exact onSegment_single c' st _ (validFrame_of_flag_clear none c' _ hvn hcl) p bl
    (by rw [encodeFrame_flag_clear c' _ hcl]; exact hp)

/-- **the bytes on the wire follow the specification**: the segment `writeSegment` emits is exactly the v5
    specification's self-contained frame (§2.1 without, §2.2 with compression — `Cql.Spec.specSegment*`, written from
    the specification with plain arithmetic, see C06) around the uncompressed envelope. -/
theorem C15_v5_wire_layout (c : Option BodyCompressor) (sc : Option Segment.PayloadCompressor) (f : Frame)
    (hv : ValidFrame c f) (bs : Bytes) (hw : writeSegment c sc f = .ok bs) :
    ∃ p bl, encodeFrame none (clearCompressed f) = .ok (p, bl) ∧
      (sc = none → bs = Spec.specSegmentUncompressed true p) ∧
      (∀ comp cp, sc = some comp → comp.compress p = .ok cp →
        bs = if cp.length ≤ p.length then Spec.specSegmentCompressed true cp p.length
             else Spec.specSegmentCompressed true p 0) := by
  obtain ⟨p, bl, hp, hseg⟩ := writeSegment_inv c sc f bs hw
  rw [encodeFrame_flag_clear c _ (clearCompressed_flag f hv.flags)] at hp
  have hlen := encodeSegment_ok_length sc true p bs hseg
  refine ⟨p, bl, hp, fun hsc => ?_, fun comp cp hsc hcp => ?_⟩
  · rw [hsc, C06.C06_layout_uncompressed true p hlen] at hseg
    exact (Res.ok_inj hseg).symm
  · rw [hsc, C06.C06_layout_compressed comp true p cp hlen hcp] at hseg
    exact (Res.ok_inj hseg).symm

/-- **requests, v5**: what a client in the modern layout sends is what a server in the modern layout with the same
    negotiated compression receives: the request (COMPRESSED flag cleared) is delivered, the rest of the stream is left,
    no abort; the server's state changes only if the request is a STARTUP. -/
theorem C15_v5_client_to_server (k : Compressors) (c : Option BodyCompressor) (st : St) (hmc : st.modernLayout = true)
    (srv : Srv) (hms : srv.st.modernLayout = true) (f : Frame) (hv : ValidFrame c f) (bs : Bytes)
    (hw : clientSend c (newPayloadCompressor k srv.compression) st f = .ok bs)
    (hl : ∀ comp p, newPayloadCompressor k srv.compression = some comp → C06.LosslessOn comp p) (rest : Bytes) :
    ∃ bl, (serverRecv k srv (bs ++ rest)).frames = [canonFrame (clearCompressed f) bl] ∧
      (serverRecv k srv (bs ++ rest)).rest = rest ∧ (serverRecv k srv (bs ++ rest)).abort = false ∧
      (serverRecv k srv (bs ++ rest)).srv = { srv with compression := adopt srv.compression f } := by
  rw [clientSend, hmc, if_pos rfl] at hw
  obtain ⟨p, bl, hp, hseg⟩ := writeSegment_inv c _ f bs hw
  have hcl := clearCompressed_flag f hv.flags
  rw [encodeFrame_flag_clear c _ hcl] at hp
  have hvn := validFrame_clearCompressed c f hv
  obtain ⟨seg, hdec, hpay, hself⟩ := segment_delivery _ true p bs (fun comp h => hl comp p h) hseg rest
  have hpos : 0 < p.length := List.length_pos_iff.mpr (encoded_ne_nil none _ hvn p bl hp)
  have hrf := readFramesServer_encoded k [(clearCompressed f, p, bl)]
    (fun x hx => by rw [List.mem_singleton] at hx; rw [hx]; exact ⟨hvn, hp⟩) (p.length + 1)
    (by simp only [List.length_cons, List.length_nil]; omega) srv.compression
  rw [List.map_cons, List.map_nil, List.flatten_cons, List.flatten_nil, List.append_nil] at hrf
  refine ⟨bl, ?_⟩
  rw [serverRecv_modern k srv _ rest seg hms hdec, hself, hpay, onSegmentServer, if_pos rfl, hrf]
  exact ⟨rfl, rfl, rfl, rfl⟩

/-- **responses, v5**: what a server in the modern layout sends (it first sets COMPRESSED when a compression was
    negotiated; the repaired `writeSegment` clears it again) is what a client in the modern layout receives: the response
    with the COMPRESSED flag clear, handed to `processIncomingFrame` (which routes it to the request of the same stream id,
    see C16/C19); the client aborts afterwards exactly when the response is a fatal ERROR. -/
theorem C15_v5_server_to_client (k : Compressors) (c : Option BodyCompressor) (st : St) (hmc : st.modernLayout = true)
    (srv : Srv) (hms : srv.st.modernLayout = true) (f : Frame) (hv : ValidFrame none f) (bs : Bytes)
    (hw : (serverSend k srv f).1 = .ok bs)
    (hl : ∀ comp p, newPayloadCompressor k srv.compression = some comp → C06.LosslessOn comp p) (rest : Bytes) :
    ∃ bl, (clientRecv c (newPayloadCompressor k srv.compression) st (bs ++ rest)).frames = [canonFrame (clearCompressed f) bl] ∧
      (clientRecv c (newPayloadCompressor k srv.compression) st (bs ++ rest)).rest = rest ∧
      (clientRecv c (newPayloadCompressor k srv.compression) st (bs ++ rest)).abort = isFatal f ∧
      (clientRecv c (newPayloadCompressor k srv.compression) st (bs ++ rest)).st = st ∧
      (serverSend k srv f).2 = srv := by
  rw [serverSend_modern k srv f hms] at hw ⊢
  have hw' : writeSegment (newBodyCompressor k srv.compression) (newPayloadCompressor k srv.compression)
      (markCompressed srv.compression f) = .ok bs := hw
  obtain ⟨p, bl, hp, hseg⟩ := writeSegment_inv _ _ _ bs hw'
  rw [clearCompressed_markCompressed srv.compression f hv.flags] at hp
  have hcl := clearCompressed_flag f hv.flags
  rw [encodeFrame_flag_clear _ _ hcl] at hp
  have hvn := validFrame_clearCompressed none f hv
  obtain ⟨seg, hdec, hpay, hself⟩ := segment_delivery _ true p bs (fun comp h => hl comp p h) hseg rest
  have hon := onSegment_single c st _ (validFrame_of_flag_clear none c _ hvn hcl) p bl
    (by rw [encodeFrame_flag_clear c _ hcl]; exact hp)
  refine ⟨bl, ?_⟩
  rw [clientRecv_modern c _ st _ rest seg hmc hdec, hself, hpay, onSegmentClient_modern c st true p hmc, hon]
  show (cutFatal [canonFrame (clearCompressed f) bl] false).1 = _ ∧ rest = rest ∧
    (cutFatal [canonFrame (clearCompressed f) bl] false).2 = _ ∧ st = st ∧ srv = srv
  rw [cutFatal_single, isFatal_canon]
  exact ⟨rfl, rfl, rfl, rfl, rfl⟩

/-- **SUSPECT.** The sender wraps every envelope in ONE self-contained segment (`// TODO write coalescer`): an envelope
    whose encoding exceeds the segment payload limit of 131071 bytes is not split over several segments as the v5
    specification prescribes (§2: "a large frame is split over several segments") — `EncodeSegment` refuses it and the
    connection is closed. Any v5 request or response larger than 128 KiB (a QUERY with a long statement, a RESULT Rows
    page) cannot be sent by this client/server. -/
theorem C15_oversized_envelope_aborts (c : Option BodyCompressor) (sc : Option Segment.PayloadCompressor) (f : Frame)
    (p : Bytes) (bl : Nat) (hp : encodeFrame c (clearCompressed f) = .ok (p, bl))
    (hbig : p.length > Segment.maxPayloadLength) : ∃ e, writeSegment c sc f = .err e := by
  rw [writeSegment, writeLegacy, hp]
  exact C06.C06_refuses_oversized sc true p hbig

/-! ## 5. the layout switch -/

/-- **C15 (switch rule).** `maybeSwitchToModernLayout`: from the legacy layout the flag becomes true exactly on a READY or
    AUTHENTICATE of a version with `SupportsModernFramingLayout` (among the supported versions: v5 only); once true it
    stays true whatever frame comes; a frame of any other version never changes it. -/
theorem C15_layout_switch (f : Frame) :
    (maybeSwitch false f = true ↔
      ProtocolVersion_SupportsModernFramingLayout f.header.version = true ∧
        (f.body.message = .ready ∨ ∃ a, f.body.message = .authenticate a)) ∧
    maybeSwitch true f = true ∧
    (ProtocolVersion_SupportsModernFramingLayout f.header.version = false → ∀ b, maybeSwitch b f = b) ∧
    (∀ v ∈ SupportedProtocolVersions, (ProtocolVersion_SupportsModernFramingLayout v = true ↔ v = ProtocolVersion5)) :=
  ⟨by rw [maybeSwitch_false]; exact switches_iff _ _, maybeSwitch_true f,
   fun h b => maybeSwitch_unsupported b f h, supportsModern_iff⟩

/-- **client side**: in the legacy layout the next frame on the stream is read with `DecodeFrame` straight from the socket —
    the READY / AUTHENTICATE itself arrives unframed — and the layout is switched AFTER it has been read, exactly when the
    rule says; whatever follows on the stream is then read as segments. Once modern, always modern. -/
theorem C15_layout_switch_client (c : Option BodyCompressor) (sc : Option Segment.PayloadCompressor) (st : St) (f : Frame)
    (hv : ValidFrame c f) (e : Bytes) (bl : Nat) (hw : encodeFrame c f = .ok (e, bl)) (rest : Bytes) :
    (st.modernLayout = false →
      (clientRecv c sc st (e ++ rest)).frames = [canonFrame f bl] ∧ (clientRecv c sc st (e ++ rest)).rest = rest ∧
      (clientRecv c sc st (e ++ rest)).st.modernLayout = switches f.header.version f.body.message ∧
      (clientRecv c sc st (e ++ rest)).st.acc = st.acc) ∧
    (∀ s, st.modernLayout = true → (clientRecv c sc st s).st.modernLayout = true) := by
  refine ⟨fun hm => ?_, fun s hm => clientRecv_stays_modern c sc st s hm⟩
  rw [clientRecv_legacy c sc st _ _ _ hm (C01_frame_roundtrip c f hv e bl hw rest), maybeSwitch_false, switches_canon]
  exact ⟨rfl, rfl, rfl, rfl⟩

/-- **server side**: the layout is chosen before `writeFrame` runs `maybeSwitchToModernLayout`, so in the legacy layout the
    response — also the READY / AUTHENTICATE that triggers the switch — goes out as a plain `EncodeFrame`, and the layout is
    switched for the NEXT response exactly when the rule says; in the modern layout every response goes out through
    `writeSegment` and the state does not change; reading never changes the server's layout. -/
theorem C15_layout_switch_server (k : Compressors) (srv : Srv) (f : Frame) :
    (srv.st.modernLayout = false →
      (serverSend k srv f).1 = writeLegacy (newBodyCompressor k srv.compression) (markCompressed srv.compression f) ∧
      (serverSend k srv f).2.st.modernLayout = switches f.header.version f.body.message ∧
      (serverSend k srv f).2.compression = srv.compression ∧ (serverSend k srv f).2.st.acc = srv.st.acc) ∧
    (srv.st.modernLayout = true →
      (serverSend k srv f).1 = writeSegment (newBodyCompressor k srv.compression)
        (newPayloadCompressor k srv.compression) (markCompressed srv.compression f) ∧
      (serverSend k srv f).2 = srv) ∧
    (∀ s, (serverRecv k srv s).srv.st.modernLayout = srv.st.modernLayout) := by
  refine ⟨fun hm => ?_, fun hm => ?_, fun s => serverRecv_layout k srv s⟩
  · rw [serverSend_legacy k srv f hm]; exact ⟨rfl, rfl, rfl, rfl⟩
  · rw [serverSend_modern k srv f hm]; exact ⟨rfl, rfl⟩

/-- **the handshake is unframed (v5 spec §2: "the first messages are exchanged unframed")**: a server still in the legacy
    layout answers with READY or AUTHENTICATE of v5 — written with a plain `EncodeFrame`, and not flagged COMPRESSED whatever
    compression was negotiated; a client still in the legacy layout reads exactly that frame from the bytes the server
    wrote, whatever its own body compressor, and BOTH sides are in the modern layout afterwards. -/
theorem C15_handshake_unframed (k : Compressors) (c : Option BodyCompressor) (sc : Option Segment.PayloadCompressor)
    (srv : Srv) (hms : srv.st.modernLayout = false) (st : St) (hmc : st.modernLayout = false) (f : Frame)
    (hsw : switches f.header.version f.body.message = true) (hv : ValidFrame none f) (bs : Bytes)
    (hw : (serverSend k srv f).1 = .ok bs) (rest : Bytes) :
    ∃ bl, encodeFrame none f = .ok (bs, bl) ∧
      (clientRecv c sc st (bs ++ rest)).frames = [canonFrame f bl] ∧ (clientRecv c sc st (bs ++ rest)).rest = rest ∧
      (clientRecv c sc st (bs ++ rest)).st.modernLayout = true ∧ (serverSend k srv f).2.st.modernLayout = true := by
  rw [serverSend_legacy k srv f hms, markCompressed_modern _ f (switches_supports _ _ hsw)] at hw ⊢
  have hcl := flag_clear_of_validFrame_none f hv
  have hw' : writeLegacy (newBodyCompressor k srv.compression) f = .ok bs := hw
  rw [writeLegacy, encodeFrame_flag_clear _ f hcl] at hw'
  obtain ⟨r, hr, hb⟩ := Res.bind_ok_inv hw'
  have hb : r.1 = bs := Res.pure_ok_inv hb
  have hr' : encodeFrame none f = .ok (bs, r.2) := by rw [hr, ← hb]
  refine ⟨r.2, hr', ?_⟩
  rw [clientRecv_legacy c sc st _ _ _ hmc (C01_frame_roundtrip c f (validFrame_of_flag_clear none c f hv hcl) bs r.2
    (by rw [encodeFrame_flag_clear c f hcl]; exact hr') rest), maybeSwitch_false, switches_canon, hsw]
  exact ⟨rfl, rfl, rfl, rfl⟩

/-! ## 6. the model's constants are the extracted ones -/

theorem C15_constants :
    FrameHeaderLengthV3AndHigher = 9 ∧ Segment.maxPayloadLength = 131071 ∧
    (∀ v, headerLength v = if v ≥ ProtocolVersion3 then FrameHeaderLengthV3AndHigher else FrameHeaderLengthV2AndLower) ∧
    HeaderFlagCompressed = 1 ∧ ErrorCode_IsFatalError_cases = [ErrorCodeServerError, ErrorCodeProtocolError, ErrorCodeAuthenticationError] :=
  ⟨rfl, rfl, fun _ => rfl, rfl, rfl⟩

/-! ## 7. non-vacuity: concrete v5 frames, kernel-evaluated through the model -/

/-- a v5 PREPARE request on stream 7 -/
def exPrepare5 : Frame :=
  { header := { isResponse := false, version := 5, flags := 0, streamId := 7, opCode := OpCodePrepare, bodyLength := 0 },
    body := { tracingId := none, customPayload := none, warnings := none, message := .prepare [83, 69, 76] [] } }

/-- a v5 READY response on stream 7 -/
def exReady5 : Frame :=
  { header := { isResponse := true, version := 5, flags := 0, streamId := 7, opCode := OpCodeReady, bodyLength := 0 },
    body := { tracingId := none, customPayload := none, warnings := none, message := .ready } }

theorem exPrepare5_valid : ValidFrame none exPrepare5 :=
  { version := by decide, flags := by decide, streamId := by decide
    body := { msg := ⟨⟨by decide, by decide⟩, by decide, fun h => absurd rfl h⟩, opCode := rfl, direction := rfl
              tracing := fun h => absurd h (by decide), noTracing := fun _ => rfl
              warnings := fun h => absurd h (by decide), payload := fun h => absurd h (by decide) }
    size := fun bs h => by
      have h0 : encodeBodyUncompressed exPrepare5.header exPrepare5.body = Res.ok [0, 0, 0, 3, 83, 69, 76, 0, 0, 0, 0] := by
        decide
      rw [h0] at h
      rw [← Res.ok_inj h]; decide
    compression := fun h => absurd h (by decide) }

theorem exReady5_valid : ValidFrame none exReady5 :=
  { version := by decide, flags := by decide, streamId := by decide
    body := { msg := trivial, opCode := rfl, direction := rfl
              tracing := fun h => absurd h (by decide), noTracing := fun _ => rfl
              warnings := fun h => absurd h (by decide), payload := fun h => absurd h (by decide) }
    size := fun bs h => by
      have h0 : encodeBodyUncompressed exReady5.header exReady5.body = Res.ok [] := by decide
      rw [h0] at h
      rw [← Res.ok_inj h]; decide
    compression := fun h => absurd h (by decide) }

/-- the 20-byte envelope of `exPrepare5` and the 9-byte envelope of `exReady5` -/
def ePrepare5 : Bytes := [5, 0, 0, 7, 9, 0, 0, 0, 11, 0, 0, 0, 3, 83, 69, 76, 0, 0, 0, 0]
def eReady5 : Bytes := [133, 0, 0, 7, 2, 0, 0, 0, 0]

theorem ePrepare5_encoded : encodeFrame none exPrepare5 = .ok (ePrepare5, 11) := by decide
theorem eReady5_encoded : encodeFrame none exReady5 = .ok (eReady5, 0) := by decide

def shows (r : List Frame × Bool) : List String × Bool := (r.1.map Show.frame, r.2)
def showsA (r : Acc × List Frame × Bool) : Acc × List String × Bool := (r.1, r.2.1.map Show.frame, r.2.2)

/-- two envelopes in one self-contained segment: both delivered, in order (evaluated) … -/
example : shows (readFrames none ((ePrepare5 ++ eReady5).length + 1) (ePrepare5 ++ eReady5)) =
    (["F(H(F,5,0,7,9,11),Y(~,~,~,Prepare(53454c,-)))", "F(H(T,5,0,7,2,0),Y(~,~,~,Ready()))"], false) := by decide

/-- … and by the theorem, for three -/
example : readFrames none ((ePrepare5 ++ (eReady5 ++ (ePrepare5 ++ []))).length + 1) (ePrepare5 ++ (eReady5 ++ (ePrepare5 ++ []))) =
    ([canonFrame exPrepare5 11, canonFrame exReady5 0, canonFrame exPrepare5 11], false) :=
  C15_self_contained_many [(exPrepare5, ePrepare5, 11), (exReady5, eReady5, 0), (exPrepare5, ePrepare5, 11)]
    (fun x hx => by
      simp only [List.mem_cons, List.not_mem_nil, or_false] at hx
      rcases hx with rfl | rfl | rfl
      · exact ⟨exPrepare5_valid, ePrepare5_encoded⟩
      · exact ⟨exReady5_valid, eReady5_encoded⟩
      · exact ⟨exPrepare5_valid, ePrepare5_encoded⟩)

/-- a truncated second envelope: the first is delivered, then the connection aborts -/
example : shows (readFrames none 100 (eReady5 ++ ePrepare5.take 15)) =
    (["F(H(T,5,0,7,2,0),Y(~,~,~,Ready()))"], true) := by decide

/-- an envelope split 1 + 3 + 7 + 9 bytes — the header itself in three pieces (this split closed the connection before
    /repo 9810261): nothing until the last part, then the frame, accumulator empty (evaluated) -/
example : showsA (addParts none Acc.empty [[5], [0, 0, 7], [9, 0, 0, 0, 11, 0, 0], [0, 3, 83, 69, 76, 0, 0, 0, 0]]) =
    (Acc.empty, ["F(H(F,5,0,7,9,11),Y(~,~,~,Prepare(53454c,-)))"], false) := by decide

example : showsA (addParts none Acc.empty [[5], [0, 0, 7], [9, 0, 0, 0, 11, 0, 0]]) =
    ({ targetLength := 20, accumulatedData := [5, 0, 0, 7, 9, 0, 0, 0, 11, 0, 0] }, [], false) := by decide

example : showsA (addParts none Acc.empty [[5], [0, 0, 7]]) =
    ({ targetLength := 0, accumulatedData := [5, 0, 0, 7] }, [], false) := by decide

/-- … and by the theorem, for EVERY split of that envelope into non-empty parts -/
example (parts : List Bytes) (hflat : parts.flatten = ePrepare5) (hne : ∀ p ∈ parts, p ≠ []) :
    addParts none Acc.empty parts = (Acc.empty, [canonFrame exPrepare5 11], false) :=
  (C15_multi_segment_reassembly none exPrepare5 exPrepare5_valid ePrepare5 11 ePrepare5_encoded (by decide) (by decide)
    parts hflat hne).2

/-- a header that `DecodeHeader` refuses (version 9) aborts once 9 bytes are there -/
example : showsA (addParts none Acc.empty [[9, 0, 0, 7], [9, 0, 0, 0, 11, 0]]) =
    ({ targetLength := 0, accumulatedData := [9, 0, 0, 7, 9, 0, 0, 0, 11, 0] }, [], true) := by decide

/-- the segment `writeSegment` emits for `exPrepare5` — also when the frame carried the COMPRESSED flag: header `14 00 02`
    (length 20, self-contained), CRC-24, the uncompressed envelope with flags `00`, CRC-32 (evaluated) -/
example : writeSegment none none exPrepare5 =
    .ok [20, 0, 2, 173, 196, 41, 5, 0, 0, 7, 9, 0, 0, 0, 11, 0, 0, 0, 3, 83, 69, 76, 0, 0, 0, 0, 53, 42, 221, 13] := by
  decide +kernel

example : writeSegment none none { exPrepare5 with header := { exPrepare5.header with flags := 1 } } =
    writeSegment none none exPrepare5 := by decide +kernel

/-- … which the receiving side decodes and delivers, leaving what follows (evaluated) -/
example : (match (Segment.decodeSegment none).run
      ([20, 0, 2, 173, 196, 41, 5, 0, 0, 7, 9, 0, 0, 0, 11, 0, 0, 0, 3, 83, 69, 76, 0, 0, 0, 0, 53, 42, 221, 13] ++ [1, 2]) with
    | .ok (seg, rest) =>
      (seg.header.isSelfContained, rest, shows (onSegment none St.init seg.header.isSelfContained seg.payload).2)
    | _ => (false, [], ([], true))) =
    (true, [1, 2], (["F(H(F,5,0,7,9,11),Y(~,~,~,Prepare(53454c,-)))"], false)) := by decide +kernel

/-- the end-to-end theorem instantiated: its hypotheses are satisfiable -/
example (rest : Bytes) : ∃ bs seg, writeSegment none none exPrepare5 = .ok bs ∧
    (Segment.decodeSegment none).run (bs ++ rest) = .ok (seg, rest) ∧
    onSegment none St.init true seg.payload = (St.init, [canonFrame (clearCompressed exPrepare5) 11], false) := by
  have hw : writeSegment none none exPrepare5 =
      .ok [20, 0, 2, 173, 196, 41, 5, 0, 0, 7, 9, 0, 0, 0, 11, 0, 0, 0, 3, 83, 69, 76, 0, 0, 0, 0, 53, 42, 221, 13] := by
    decide +kernel
  obtain ⟨p, bl, hp, _, _, h⟩ := C15_v5_end_to_end none none none exPrepare5 exPrepare5_valid _ hw
    (fun comp _ _ h => by cases h)
  obtain ⟨seg, hdec, _, _, hon⟩ := h rest
  have hbl : bl = 11 := by
    have h1 : encodeFrame none (clearCompressed exPrepare5) = .ok (ePrepare5, 11) := by decide
    rw [h1] at hp
    exact (congrArg Prod.snd (Res.ok_inj hp)).symm
  rw [hbl] at hon
  exact ⟨_, seg, hw, hdec, hon St.init⟩

/-- the switch: READY of v5 switches, READY of v4 and a v5 PREPARE do not; a legacy client reading the unframed READY of v5
    ends up in the modern layout with the frame delivered (evaluated) -/
example : maybeSwitch false exReady5 = true ∧
    maybeSwitch false { exReady5 with header := { exReady5.header with version := 4 } } = false ∧
    maybeSwitch false { exReady5 with header := { exReady5.header with version := 65 } } = false ∧
    maybeSwitch false exPrepare5 = false := by decide

example : (let r := clientRecv none none St.init (eReady5 ++ [7, 7]); (r.frames.map Show.frame, r.st, r.rest, r.abort)) =
    (["F(H(T,5,0,7,2,0),Y(~,~,~,Ready()))"], { modernLayout := true, acc := Acc.empty }, [7, 7], false) := by decide

/-- a fatal ERROR (ProtocolError, code 10) in the middle of a self-contained segment: the client delivers it and closes -/
example : (cutFatal [exReady5, { exReady5 with body := { exReady5.body with message := .error (.simple 10 [120]) } }, exReady5] false).1.length = 2 ∧
    (cutFatal [exReady5, { exReady5 with body := { exReady5.body with message := .error (.simple 10 [120]) } }, exReady5] false).2 = true := by
  decide

/-- the server adopts LZ4 from `STARTUP {COMPRESSION: LZ4}` and nothing from an empty STARTUP -/
example : startupCompression (some [(StartupOptionCompression, CompressionLz4)]) = CompressionLz4 ∧
    startupCompression (some []) = CompressionNone ∧ startupCompression none = CompressionNone := by decide

end Cql.Props.C15
