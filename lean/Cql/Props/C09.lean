import Cql.Inflight
import Cql.Lemmas.InflightLemmas
/-!
# C09 — stream ids: unique while in flight, bounded, recycled, refused when exhausted

API-level model `Cql.Inflight` of `client/inflight.go` (validated against the real handler, operation by operation, by
the correspondence harness). All theorems quantify over arbitrary finite histories / arbitrary states satisfying the
invariant; `N` and the channel capacity are arbitrary.
-/
namespace Cql.Props.C09
open Cql.Inflight

/-- histories of a connection that uses automatic stream-id assignment only -/
def managedOp : Op → Bool
  | .send k => k == 0
  | _ => true

/-- every id of 1..N is, at any moment, in exactly one place: the pool or the in-flight map (never both, never twice,
    never lost); in-flight entries point at live managed requests carrying that id -/
structure Inv (s : S) : Prop where
  count : ∀ i : Int, s.free.count i + (keys s.inFlight).count i = if (1 : Int) ≤ i ∧ i ≤ s.n then 1 else 0
  size : s.free.length + s.inFlight.length = s.n
  reqs : ∀ p ∈ s.inFlight, ∃ r, s.reqs[p.2]? = some r ∧ r.managed = true ∧ r.streamId = p.1

theorem inv_init (n p : Nat) : Inv (init n p) := by
  constructor
  · intro i
    show (idsFrom 1 n).count i + (keys ([] : List (Int × Nat))).count i = if (1 : Int) ≤ i ∧ i ≤ (n : Int) then 1 else 0
    simp only [keys, List.map_nil, List.count_nil, Nat.add_zero, idsFrom_count]
    split <;> split <;> first | rfl | omega
  · simp [init, idsFrom_length]
  · intro p hp; simp [init] at hp

private theorem getElem?_setReq (reqs : List Req) (h j : Nat) (r : Req) :
    (setReq reqs h r)[j]? = if h = j then (if j < reqs.length then some r else none) else reqs[j]? := by
  rw [setReq, List.getElem?_set]
  by_cases hj : h = j
  · simp [hj]
  · simp [hj]

private theorem receive_keeps (mp : Nat) (r : Req) (l : Bool) (t : Nat) :
    (receive mp r l t).1.managed = r.managed ∧ (receive mp r l t).1.streamId = r.streamId := by
  rw [receive]; split
  · exact ⟨rfl, rfl⟩
  · split <;> exact ⟨rfl, rfl⟩

theorem inv_send (s : S) (hi : Inv s) (hc : s.closed = false) : Inv (send s 0).1 := by
  rw [send, hc]
  simp only [Bool.false_eq_true, if_false, beq_self_eq_true, if_true]
  cases hf : s.free with
  | nil => exact hi
  | cons id rest =>
    simp only []
    have hcnt := hi.count id
    have hsz := hi.size
    rw [hf] at hcnt hsz
    simp only [List.count_cons_self, List.length_cons] at hcnt hsz
    have hk0 : (keys s.inFlight).count id = 0 := by
      by_cases h : (1 : Int) ≤ id ∧ id ≤ s.n
      · rw [if_pos h] at hcnt; omega
      · rw [if_neg h] at hcnt; omega
    have hnot : id ∉ keys s.inFlight := List.count_eq_zero.mp hk0
    rw [register]
    have h1 : (s.inFlight.length == s.n) = false := by simp; omega
    simp only [h1, Bool.false_eq_true, if_false]
    have h2 : lookup s.inFlight id = none := (lookup_none_iff _ _).mpr hnot
    simp only [h2, Option.isSome_none, Bool.false_eq_true, if_false]
    constructor
    · intro i
      have := hi.count i
      rw [hf] at this
      simp only [keys, List.map_cons, List.count_cons] at this ⊢
      by_cases hid : id = i
      · subst hid; simp only [beq_self_eq_true, if_true] at this ⊢; omega
      · have : (id == i) = false := by simpa using hid
        simp only [this, Bool.false_eq_true, if_false, Nat.add_zero] at *
        assumption
    · simp only [List.length_cons]; omega
    · intro p hp
      simp only [List.mem_cons] at hp
      rcases hp with hp | hp
      · subst hp
        exact ⟨{ streamId := id, managed := true }, by simp, rfl, rfl⟩
      · obtain ⟨r, hr, hm, hs⟩ := hi.reqs p hp
        refine ⟨r, ?_, hm, hs⟩
        rw [List.getElem?_append_left]
        · exact hr
        · exact (List.getElem?_eq_some_iff.mp hr).1

theorem inv_deliver (s : S) (hi : Inv s) (hc : s.closed = false) (k : Int) (l : Bool) (t : Nat) :
    Inv (deliver s k l t).1 := by
  rw [deliver, hc]
  simp only [Bool.false_eq_true, if_false]
  cases hl : lookup s.inFlight k with
  | none => exact hi
  | some h =>
    simp only []
    have hmem := lookup_some_mem _ _ _ hl
    obtain ⟨r, hr, hm, hs⟩ := hi.reqs _ hmem
    simp only at hr hs
    rw [hr]
    simp only [hm, Bool.and_true]
    have hkin : k ∈ keys s.inFlight := List.mem_map_of_mem (f := (·.1)) hmem
    have hcntk := hi.count k
    have hk1 : (keys s.inFlight).count k = 1 := by
      have : 0 < (keys s.inFlight).count k := List.count_pos_iff.mpr hkin
      by_cases hh : (1 : Int) ≤ k ∧ k ≤ s.n
      · rw [if_pos hh] at hcntk; omega
      · rw [if_neg hh] at hcntk; omega
    have hrange : (1 : Int) ≤ k ∧ k ≤ s.n := by
      by_cases hh : (1 : Int) ≤ k ∧ k ≤ s.n
      · exact hh
      · rw [if_neg hh] at hcntk; omega
    have hfree0 : s.free.count k = 0 := by rw [if_pos hrange] at hcntk; omega
    have hpos : 0 < s.inFlight.length := List.length_pos_of_mem hmem
    cases l with
    | false =>
      simp only [Bool.false_eq_true, if_false, Bool.false_and]
      constructor
      · exact hi.count
      · exact hi.size
      · intro p hp
        obtain ⟨r', hr', hm', hs'⟩ := hi.reqs p hp
        by_cases hph : h = p.2
        · refine ⟨(receive s.maxPending r false t).1, ?_, ?_, ?_⟩
          · rw [getElem?_setReq, if_pos hph, if_pos (by rw [← hph]; exact (List.getElem?_eq_some_iff.mp hr).1)]
          · rw [(receive_keeps _ _ _ _).1]; exact hm
          · rw [(receive_keeps _ _ _ _).2]
            rw [← hph, hr] at hr'
            cases hr'; exact hs'
        · exact ⟨r', by rw [getElem?_setReq, if_neg hph]; exact hr', hm', hs'⟩
    | true =>
      simp only [if_true, Bool.true_and]
      have hlt : s.free.length < s.n := by have := hi.size; omega
      simp only [hlt, decide_true, Bool.not_true, Bool.false_eq_true, if_false]
      constructor
      · intro i
        have := hi.count i
        simp only [List.count_append, keys_erase_count]
        by_cases hik : i = k
        · subst hik
          simp only [if_true, List.count_cons_self, List.count_nil]
          rw [if_pos hrange]; omega
        · have hki : (k == i) = false := by simpa using fun h => hik h.symm
          simp only [hik, if_false, List.count_cons, hki, Bool.false_eq_true, List.count_nil]
          omega
      · have := erase_length s.inFlight k hk1
        have := hi.size
        simp only [List.length_append, List.length_cons, List.length_nil]
        omega
      · intro p hp
        rw [mem_erase] at hp
        obtain ⟨r', hr', hm', hs'⟩ := hi.reqs p hp.1
        by_cases hph : h = p.2
        · refine ⟨(receive s.maxPending r true t).1, ?_, ?_, ?_⟩
          · rw [getElem?_setReq, if_pos hph, if_pos (by rw [← hph]; exact (List.getElem?_eq_some_iff.mp hr).1)]
          · rw [(receive_keeps _ _ _ _).1]; exact hm
          · rw [(receive_keeps _ _ _ _).2]
            rw [← hph, hr] at hr'
            cases hr'; exact hs'
        · exact ⟨r', by rw [getElem?_setReq, if_neg hph]; exact hr', hm', hs'⟩

theorem inv_consume (s : S) (hi : Inv s) (h : Nat) : Inv (consume s h).1 := by
  rw [consume]
  cases hr : s.reqs[h]? with
  | none => exact hi
  | some r =>
    simp only []
    cases ht : r.delivered[r.consumed]? with
    | none => exact hi
    | some t =>
      simp only []
      refine ⟨hi.count, hi.size, ?_⟩
      intro p hp
      obtain ⟨r', hr', hm', hs'⟩ := hi.reqs p hp
      by_cases hph : h = p.2
      · refine ⟨{ r with consumed := r.consumed + 1 }, ?_, ?_, ?_⟩
        · rw [getElem?_setReq, if_pos hph, if_pos (by rw [← hph]; exact (List.getElem?_eq_some_iff.mp hr).1)]
        · rw [← hph, hr] at hr'; cases hr'; exact hm'
        · rw [← hph, hr] at hr'; cases hr'; exact hs'
      · exact ⟨r', by rw [getElem?_setReq, if_neg hph]; exact hr', hm', hs'⟩

/-- the invariant is what "not closed" states satisfy; closing ends the bookkeeping -/
def Good (s : S) : Prop := s.closed = true ∨ Inv s

theorem closed_stays (s : S) (op : Op) (h : s.closed = true) : (step s op).1.closed = true := by
  cases op with
  | send k => simp [step, send, h]
  | deliver k l t => simp [step, deliver, h]
  | consume hd =>
    simp only [step, consume]
    cases s.reqs[hd]? with
    | none => exact h
    | some r => simp only []; cases r.delivered[r.consumed]? <;> exact h
  | close => simp [step, close, h]

theorem good_step (s : S) (op : Op) (hg : Good s) (hm : managedOp op = true) : Good (step s op).1 := by
  rcases hg with hc | hi
  · exact Or.inl (closed_stays s op hc)
  · cases hcl : s.closed with
    | true => exact Or.inl (closed_stays s op hcl)
    | false =>
      cases op with
      | send k =>
        have : k = 0 := by simpa [managedOp] using hm
        subst this
        exact Or.inr (inv_send s hi hcl)
      | deliver k l t => exact Or.inr (inv_deliver s hi hcl k l t)
      | consume h => exact Or.inr (inv_consume s hi h)
      | close => left; simp [step, close, hcl]

/-- **Every reachable state** of a connection using automatic assignment satisfies the bookkeeping invariant
    (or the handler has been closed). -/
theorem C09_reachable_good (n p : Nat) (ops : List Op) (hm : ∀ op ∈ ops, managedOp op = true) :
    Good (run (init n p) ops) := by
  have : ∀ s, Good s → Good (run s ops) := by
    induction ops with
    | nil => intro s hs; exact hs
    | cons op rest ih =>
      intro s hs
      exact ih (fun o ho => hm o (List.mem_cons_of_mem _ ho)) _ (good_step s op hs (hm op List.mem_cons_self))
  exact this _ (Or.inr (inv_init n p))

/-- An accepted managed send carries an id in 1..N that no unanswered request carries, and registers it. -/
theorem C09_accepted_send_is_fresh (s : S) (hi : Inv s) (hc : s.closed = false) (s' : S) (id : Int) (h : Nat)
    (hs : send s 0 = (s', .sent id h)) :
    (1 : Int) ≤ id ∧ id ≤ s.n ∧ id ∉ keys s.inFlight ∧ id ∈ keys s'.inFlight ∧ (keys s'.inFlight).count id = 1 := by
  rw [send, hc] at hs
  simp only [Bool.false_eq_true, if_false, beq_self_eq_true, if_true] at hs
  cases hf : s.free with
  | nil => rw [hf] at hs; cases hs
  | cons x rest =>
    rw [hf] at hs
    simp only [] at hs
    have hcnt := hi.count x
    have hsz := hi.size
    rw [hf] at hcnt hsz
    simp only [List.count_cons_self, List.length_cons] at hcnt hsz
    have hrange : (1 : Int) ≤ x ∧ x ≤ s.n := by
      by_cases hh : (1 : Int) ≤ x ∧ x ≤ s.n
      · exact hh
      · rw [if_neg hh] at hcnt; omega
    have hk0 : (keys s.inFlight).count x = 0 := by rw [if_pos hrange] at hcnt; omega
    have hnot : x ∉ keys s.inFlight := List.count_eq_zero.mp hk0
    rw [register] at hs
    have h1 : (s.inFlight.length == s.n) = false := by simp; omega
    have h2 : lookup s.inFlight x = none := (lookup_none_iff _ _).mpr hnot
    simp only [h1, Bool.false_eq_true, if_false, h2, Option.isSome_none] at hs
    cases hs
    refine ⟨hrange.1, hrange.2, hnot, ?_, ?_⟩
    · simp [keys]
    · simp only [keys] at hk0
      simp only [keys, List.map_cons, List.count_cons_self]
      omega

/-- what an accepted send does to the state -/
theorem send_sent_shape (s s' : S) (k id : Int) (h : Nat) (hs : send s k = (s', .sent id h)) :
    s'.inFlight = (id, h) :: s.inFlight ∧ s'.closed = s.closed ∧ s'.n = s.n ∧ s.closed = false := by
  rw [send] at hs
  cases hc : s.closed with
  | true => rw [hc] at hs; simp only [if_true] at hs; cases hs
  | false =>
    rw [hc] at hs
    simp only [Bool.false_eq_true, if_false] at hs
    have reg : ∀ (t : S) (x : Int) (m : Bool), register t x m = (s', .sent id h) →
        s'.inFlight = (id, h) :: t.inFlight ∧ s'.closed = t.closed ∧ s'.n = t.n := by
      intro t x m ht
      rw [register] at ht
      by_cases h1 : (t.inFlight.length == t.n) = true
      · simp only [h1, if_true] at ht; cases ht
      · simp only [h1, Bool.false_eq_true, if_false] at ht
        by_cases h2 : (lookup t.inFlight x).isSome = true
        · simp only [h2, if_true] at ht; cases ht
        · simp only [h2, Bool.false_eq_true, if_false] at ht
          cases ht; exact ⟨rfl, rfl, rfl⟩
    by_cases hk : (k == 0) = true
    · simp only [hk, if_true] at hs
      cases hf : s.free with
      | nil => rw [hf] at hs; cases hs
      | cons x rest =>
        rw [hf] at hs
        have := reg _ _ _ hs
        exact ⟨this.1, by first | (rw [this.2.1]; exact hc) | rw [this.2.1], this.2.2, rfl⟩
    · simp only [hk, Bool.false_eq_true, if_false] at hs
      have := reg _ _ _ hs
      exact ⟨this.1, by first | (rw [this.2.1]; exact hc) | rw [this.2.1], this.2.2, rfl⟩

/-- When N requests are unanswered a further send is refused with an error and changes nothing. -/
theorem C09_exhausted_refused (s : S) (hi : Inv s) (hfull : s.inFlight.length = s.n) :
    ∃ e, send s 0 = (s, .err e) := by
  rw [send]
  cases hc : s.closed with
  | true => exact ⟨_, rfl⟩
  | false =>
    simp only [Bool.false_eq_true, if_false, beq_self_eq_true, if_true]
    have : s.free = [] := by
      have := hi.size
      exact List.length_eq_zero_iff.mp (by omega)
    rw [this]
    exact ⟨_, rfl⟩

/-- Below the limit a managed send is accepted. -/
theorem C09_below_limit_accepted (s : S) (hi : Inv s) (hc : s.closed = false) (hlt : s.inFlight.length < s.n) :
    ∃ s' id h, send s 0 = (s', .sent id h) := by
  rw [send, hc]
  simp only [Bool.false_eq_true, if_false, beq_self_eq_true, if_true]
  cases hf : s.free with
  | nil => have := hi.size; rw [hf] at this; simp at this; omega
  | cons x rest =>
    simp only []
    have hcnt := hi.count x
    have hsz := hi.size
    rw [hf] at hcnt hsz
    simp only [List.count_cons_self, List.length_cons] at hcnt hsz
    have hk0 : (keys s.inFlight).count x = 0 := by
      by_cases h : (1 : Int) ≤ x ∧ x ≤ s.n
      · rw [if_pos h] at hcnt; omega
      · rw [if_neg h] at hcnt; omega
    have hnot : x ∉ keys s.inFlight := List.count_eq_zero.mp hk0
    rw [register]
    have h1 : (s.inFlight.length == s.n) = false := by simp; omega
    have h2 : lookup s.inFlight x = none := (lookup_none_iff _ _).mpr hnot
    simp only [h1, Bool.false_eq_true, if_false, h2, Option.isSome_none]
    exact ⟨_, _, _, rfl⟩

/-- Once the final response for an unanswered request has arrived its id is back in the pool and no longer in flight. -/
theorem C09_final_response_recycles (s : S) (hi : Inv s) (hc : s.closed = false) (k : Int) (hk : k ∈ keys s.inFlight)
    (t : Nat) : k ∈ (deliver s k true t).1.free ∧ k ∉ keys (deliver s k true t).1.inFlight := by
  have hinv := inv_deliver s hi hc k true t
  rw [deliver, hc] at hinv ⊢
  simp only [Bool.false_eq_true, if_false] at hinv ⊢
  cases hl : lookup s.inFlight k with
  | none => exact absurd hk ((lookup_none_iff _ _).mp hl)
  | some h =>
    have hmem := lookup_some_mem _ _ _ hl
    obtain ⟨r, hr, hm, _⟩ := hi.reqs _ hmem
    simp only at hr
    simp only [hr, hm, Bool.and_true, if_true, Bool.true_and]
    have hpos : 0 < s.inFlight.length := List.length_pos_of_mem hmem
    have hlt : s.free.length < s.n := by have := hi.size; omega
    simp only [hlt, decide_true, Bool.not_true, Bool.false_eq_true, if_false]
    constructor
    · simp
    · intro hmem'
      have : (keys (erase s.inFlight k)).count k = 0 := by rw [keys_erase_count]; simp
      exact (List.count_eq_zero.mp this) hmem'

/-- the state after `m` further managed sends -/
def sendMany : Nat → S → S
  | 0, s => s
  | m + 1, s => sendMany m (send s 0).1

/-- After all requests have been answered, N new requests can be sent (each accepted), and the N+1-st is refused. -/
theorem C09_all_answered_then_N_more (s : S) (hi : Inv s) (hc : s.closed = false) (m : Nat)
    (hm : s.inFlight.length + m ≤ s.n) :
    Inv (sendMany m s) ∧ (sendMany m s).closed = false ∧ (sendMany m s).inFlight.length = s.inFlight.length + m ∧
      (sendMany m s).n = s.n := by
  induction m generalizing s with
  | zero => exact ⟨hi, hc, rfl, rfl⟩
  | succ m ih =>
    obtain ⟨s', id, h, hs⟩ := C09_below_limit_accepted s hi hc (by omega)
    have hi' := inv_send s hi hc
    have hshape := send_sent_shape s s' 0 id h hs
    have hfst : (send s 0).1 = s' := by rw [hs]
    have hlen : (send s 0).1.inFlight.length = s.inFlight.length + 1 ∧ (send s 0).1.closed = false ∧ (send s 0).1.n = s.n := by
      rw [hfst, hshape.1, hshape.2.1, hshape.2.2.1]
      exact ⟨by simp, hc, rfl⟩
    have := ih (send s 0).1 hi' hlen.2.1 (by rw [hlen.1, hlen.2.2]; omega)
    refine ⟨this.1, this.2.1, ?_, ?_⟩
    · rw [sendMany, this.2.2.1, hlen.1]; omega
    · rw [sendMany, this.2.2.2, hlen.2.2]

/-- With caller-chosen ids: reusing the id of an unanswered request is refused (in ANY state, no invariant needed),
    and the state is unchanged. -/
theorem C09_explicit_reuse_refused (s : S) (k : Int) (hk0 : k ≠ 0) (hk : k ∈ keys s.inFlight) :
    ∃ e, send s k = (s, .err e) := by
  rw [send]
  cases s.closed with
  | true => exact ⟨_, rfl⟩
  | false =>
    have : (k == 0) = false := by simpa using hk0
    simp only [Bool.false_eq_true, if_false, this]
    rw [register]
    by_cases h1 : (s.inFlight.length == s.n) = true
    · simp only [h1, if_true]; exact ⟨_, rfl⟩
    · simp only [h1, Bool.false_eq_true, if_false]
      have : (lookup s.inFlight k).isSome = true := by
        cases hl : lookup s.inFlight k with
        | none => exact absurd hk ((lookup_none_iff _ _).mp hl)
        | some h => rfl
      simp only [this, if_true]; exact ⟨_, rfl⟩

/-- After close every send is refused. -/
theorem C09_closed_refuses (s : S) (k : Int) (hc : s.closed = true) : ∃ e, send s k = (s, .err e) := by
  rw [send, hc]; exact ⟨_, rfl⟩

/-! ## non-vacuity: a concrete history reaches a non-trivial state satisfying the invariant -/
example : Inv (run (init 2 2) [.send 0, .send 0, .deliver 1 false 5, .deliver 2 true 6, .send 0]) := by
  have := C09_reachable_good 2 2 [.send 0, .send 0, .deliver 1 false 5, .deliver 2 true 6, .send 0] (by decide)
  rcases this with h | h
  · exact absurd h (by decide)
  · exact h
example : (run (init 2 2) [.send 0, .send 0]).inFlight.length = 2 := by decide
example : (step (run (init 2 2) [.send 0, .send 0]) (.send 0)).2 = .err "no stream id available" := by decide

end Cql.Props.C09
