import Cql.Segment
import Cql.Spec.Segment
import Cql.Gen.CrcFacts
import Cql.Lemmas.SegmentRT
/-!
# C06 — segment round trip and v5 framing layout

`Cql.Segment` is the code-shaped model of `segment/encode.go`, `segment/decode.go` and `Cql.Crc` that of `crc/*.go`
(both compared with the real code byte-for-byte by the differential harness). The theorems quantify over EVERY payload
up to the format's limit of 131071 bytes, both values of the self-contained flag, any payload compressor that is lossless
on the payload at hand, and ANY bytes following the segment on the stream.

`Cql.Spec.specSegmentUncompressed` / `specSegmentCompressed` are written from `native_protocol_v5.spec` §2.1/§2.2 with plain
arithmetic; `C06_layout_*` prove that the encoder emits exactly those bytes.
-/
namespace Cql.Props.C06
open Cql Cql.Prim Cql.Parser Cql.Crc Cql.Segment

/-! ## 1. little-endian integers -/

/-- writing `k` little-endian bytes keeps exactly the low `8k` bits, and reading them back returns those -/
theorem C06_le_roundtrip (k n : Nat) : leNat (leBytes k n) = n % 256 ^ k ∧ (leBytes k n).length = k :=
  ⟨leNat_leBytes k n, leBytes_length k n⟩

/-! ## 2. bit packing of the two header layouts -/

/-- 3-byte header: a 17-bit length and the flag at bit 17 fit 24 bits and are recovered by the decoder's masks/shifts -/
theorem C06_header_bits_uncompressed (sc : Bool) (len : Nat) (hlen : len < 131072) :
    (len ||| (if sc then 1 <<< 17 else 0)) < 2 ^ 24 ∧
    (len ||| (if sc then 1 <<< 17 else 0)) &&& 131071 = len ∧
    ((((len ||| (if sc then 1 <<< 17 else 0)) >>> 17) &&& 1 = 1) ↔ sc = true) :=
  headerU_facts sc len hlen

/-- 5-byte header: two 17-bit lengths and the flag at bit 34 fit 40 bits and are recovered -/
theorem C06_header_bits_compressed (sc : Bool) (c u : Nat) (hc : c < 131072) (hu : u < 131072) :
    (c ||| (u <<< 17) ||| (if sc then 1 <<< 34 else 0)) < 2 ^ 40 ∧
    (c ||| (u <<< 17) ||| (if sc then 1 <<< 34 else 0)) &&& 131071 = c ∧
    ((c ||| (u <<< 17) ||| (if sc then 1 <<< 34 else 0)) >>> 17) &&& 131071 = u ∧
    ((((c ||| (u <<< 17) ||| (if sc then 1 <<< 34 else 0)) >>> 34) &&& 1 = 1) ↔ sc = true) :=
  headerC_facts sc c u hc hu

/-- the header value passes through the `uint64` register of `ChecksumKoopman` unchanged -/
theorem C06_header_fits_register (h : Nat) (hh : h < 2 ^ 64) : (BitVec.ofNat 64 h).toNat = h := by
  rw [BitVec.toNat_ofNat, Nat.mod_eq_of_lt hh]

/-- `ChecksumKoopman` returns a 24-bit value for every register content and length (the Go code, unlike the Java original,
    does not mask `data` to its low byte before `<< 16`; the stray bits are shifted out by the eight bit steps) -/
theorem C06_crc24_is_24_bits (data : BitVec 64) (len : Nat) : (crc24 data len).toNat < 2 ^ 24 := crc24_lt data len

/-- `ChecksumKoopman(data, len)` is the reference byte-at-a-time CRC-24 (`crc ^= (byte) << 16`, eight shift/xor steps) of
    the `len ≤ 8` bytes the register holds, least significant first: the missing mask changes nothing -/
theorem C06_crc24_bytewise (bs : Bytes) (h : bs.length ≤ 8) :
    (crc24 (BitVec.ofNat 64 (leNat bs)) bs.length).toNat = Spec.crc24OfBytes bs := crc24_eq_bytewise bs h

/-! ## 3. round trip without a compressor -/

/-- **C06 (uncompressed).** Whatever `EncodeSegment` wrote for a payload within the limit, followed by any bytes, decodes to
    the same flag, length and payload, with the checksums the encoder computed, and leaves exactly the following bytes. -/
theorem C06_segment_roundtrip (sc : Bool) (p rest : Bytes) (hp : p.length ≤ 131071) (b : Bytes)
    (hw : encodeSegment none sc p = .ok b) :
    (decodeSegment none).run (b ++ rest) =
      .ok ({ header := { isSelfContained := sc, uncompressedPayloadLength := p.length, compressedPayloadLength := 0,
                         crc24 := (crc24 (BitVec.ofNat 64 (p.length ||| (if sc then 1 <<< 17 else 0))) 3).toNat },
             payload := p, crc32 := (checksumIEEE p).toNat }, rest) := by
  rw [encodeSegment, if_neg (by rw [maxPayloadLength]; omega)] at hw
  rw [← Res.ok_inj hw]
  simp only [List.append_assoc]
  rw [decodeSegment, bind_ok (decodeSegmentHeader_uncompressed_RT sc p.length (by omega) _),
    bind_ok (decodeSegmentPayload_plain none _ p rfl rfl rest)]
  rfl

/-! ## 4. round trip with a payload compressor -/

/-- What `EncodeSegment`/`DecodeSegment` need from a payload compressor for THIS payload. `nonempty`: the decoder reads a
    compressed-length field of 0 as "payload not compressed" (`decodeSegmentPayload`: `header.CompressedPayloadLength == 0`),
    so a compressor that turned a non-empty payload into zero bytes could not be undone; no LZ4 block is empty
    (the block of the empty input is the single byte `00`), see `Cql.Props.C08`. -/
structure LosslessOn (comp : PayloadCompressor) (p : Bytes) : Prop where
  roundtrip : ∀ c, comp.compress p = .ok c → comp.decompress c = .ok p
  nonempty : ∀ c, comp.compress p = .ok c → c = [] → p = []

/-- **compressed form on the wire**: the compressed bytes are not longer than the payload (and the payload is not
    empty); the header carries both lengths, the CRC-32 is that of the compressed bytes, the decoder decompresses. -/
theorem C06_roundtrip_compressed_form (comp : PayloadCompressor) (sc : Bool) (p c rest : Bytes) (hp : p.length ≤ 131071)
    (hne : p ≠ []) (hl : LosslessOn comp p) (hc : comp.compress p = .ok c) (hle : c.length ≤ p.length) (b : Bytes)
    (hw : encodeSegment (some comp) sc p = .ok b) :
    (decodeSegment (some comp)).run (b ++ rest) =
      .ok ({ header := { isSelfContained := sc, uncompressedPayloadLength := p.length, compressedPayloadLength := c.length,
                         crc24 := (crc24 (BitVec.ofNat 64 (c.length ||| (p.length <<< 17) ||| (if sc then 1 <<< 34 else 0))) 5).toNat },
             payload := p, crc32 := (checksumIEEE c).toNat }, rest) := by
  obtain ⟨c', hc', hb⟩ := encodeSegment_some_inv comp sc p b hp hw
  rw [hc] at hc'
  rw [← Res.ok_inj hc', if_pos hle] at hb
  have hp0 : p.length ≠ 0 := fun h => hne (List.length_eq_zero_iff.mp h)
  have hc0 : c.length ≠ 0 := fun h => hne (hl.nonempty c hc (List.length_eq_zero_iff.mp h))
  rw [hb]
  simp only [List.append_assoc]
  rw [decodeSegment, bind_ok (decodeSegmentHeader_compressed_RT comp sc c.length p.length (by omega) (by omega) hp0 _),
    bind_ok (decodeSegmentPayload_comp comp _ c p rfl hc0 (hl.roundtrip c hc) rest)]
  rfl

/-- **fallback**: the compressed bytes would be longer; the payload goes out as it is, the header carries its length in the
    compressed-length field and 0 in the uncompressed-length field, and the decoder restores the length. Needs nothing
    from the decompressor. -/
theorem C06_roundtrip_fallback (comp : PayloadCompressor) (sc : Bool) (p c rest : Bytes) (hp : p.length ≤ 131071)
    (hc : comp.compress p = .ok c) (hgt : p.length < c.length) (b : Bytes)
    (hw : encodeSegment (some comp) sc p = .ok b) :
    (decodeSegment (some comp)).run (b ++ rest) =
      .ok ({ header := { isSelfContained := sc, uncompressedPayloadLength := p.length, compressedPayloadLength := 0,
                         crc24 := (crc24 (BitVec.ofNat 64 (p.length ||| (0 <<< 17) ||| (if sc then 1 <<< 34 else 0))) 5).toNat },
             payload := p, crc32 := (checksumIEEE p).toNat }, rest) := by
  obtain ⟨c', hc', hb⟩ := encodeSegment_some_inv comp sc p b hp hw
  rw [hc] at hc'
  rw [← Res.ok_inj hc', if_neg (by omega)] at hb
  rw [hb]
  simp only [List.append_assoc]
  rw [decodeSegment, bind_ok (decodeSegmentHeader_fallback_RT comp sc p.length (by omega) _),
    bind_ok (decodeSegmentPayload_plain (some comp) _ p rfl rfl rest)]
  rfl

/-- **the corner**: an empty payload whose compressed form is empty too. `compressed.length ≤ 0` selects the compressed
    form, both length fields are 0, and the decoder — for which an uncompressed-length field of 0 is the fallback marker —
    takes the (empty) payload as it is, without calling the decompressor. -/
theorem C06_roundtrip_empty (comp : PayloadCompressor) (sc : Bool) (rest : Bytes)
    (hc : comp.compress [] = .ok []) (b : Bytes) (hw : encodeSegment (some comp) sc [] = .ok b) :
    (decodeSegment (some comp)).run (b ++ rest) =
      .ok ({ header := { isSelfContained := sc, uncompressedPayloadLength := 0, compressedPayloadLength := 0,
                         crc24 := (crc24 (BitVec.ofNat 64 (0 ||| (0 <<< 17) ||| (if sc then 1 <<< 34 else 0))) 5).toNat },
             payload := [], crc32 := (checksumIEEE []).toNat }, rest) := by
  obtain ⟨c', hc', hb⟩ := encodeSegment_some_inv comp sc [] b (by decide) hw
  rw [hc] at hc'
  rw [← Res.ok_inj hc', if_pos (Nat.le_refl _)] at hb
  rw [hb]
  simp only [List.append_assoc]
  rw [decodeSegment]
  show ((decodeSegmentHeader (some comp)) >>= _).run (encodeHeaderCompressed sc 0 0 ++ ([] ++ (writePayloadCrc [] ++ rest))) = _
  rw [bind_ok (decodeSegmentHeader_fallback_RT comp sc 0 (by decide) _),
    bind_ok (decodeSegmentPayload_plain (some comp) _ [] rfl rfl rest)]
  rfl

/-- **C06 (compressed).** With any compressor that is lossless on the payload, in every branch the encoder can take:
    the decoded segment has the same payload, the same flag, the payload's length as `UncompressedPayloadLength`,
    and exactly the following bytes are left. -/
theorem C06_segment_roundtrip_compressed (comp : PayloadCompressor) (sc : Bool) (p rest : Bytes) (hp : p.length ≤ 131071)
    (hl : LosslessOn comp p) (b : Bytes) (hw : encodeSegment (some comp) sc p = .ok b) :
    ∃ seg, (decodeSegment (some comp)).run (b ++ rest) = .ok (seg, rest) ∧ seg.payload = p ∧
      seg.header.isSelfContained = sc ∧ seg.header.uncompressedPayloadLength = p.length := by
  obtain ⟨c, hc, _⟩ := encodeSegment_some_inv comp sc p b hp hw
  by_cases hle : c.length ≤ p.length
  · by_cases hne : p = []
    · subst hne
      have hc0 : c = [] := List.length_eq_zero_iff.mp (Nat.le_zero.mp hle)
      subst hc0
      exact ⟨_, C06_roundtrip_empty comp sc rest hc b hw, rfl, rfl, rfl⟩
    · exact ⟨_, C06_roundtrip_compressed_form comp sc p c rest hp hne hl hc hle b hw, rfl, rfl, rfl⟩
  · exact ⟨_, C06_roundtrip_fallback comp sc p c rest hp hc (by omega) b hw, rfl, rfl, rfl⟩

/-! ## 5. refusal of oversized payloads -/

/-- a payload of more than 131071 bytes is refused, with or without a compressor (and before the compressor is called) -/
theorem C06_refuses_oversized (c : Option PayloadCompressor) (sc : Bool) (p : Bytes) (hp : p.length > 131071) :
    ∃ e, encodeSegment c sc p = .err e := by
  rw [encodeSegment.eq_def, if_pos (by rw [maxPayloadLength]; exact hp)]
  exact ⟨_, rfl⟩

/-! ## 6. layout against the v5 specification -/

/-- **C06 (layout, §2.1).** Without a compressor, every payload within the limit is accepted and the bytes written are
    exactly the specification's uncompressed frame: 3 little-endian bytes of `length + 2^17·flag`, the byte-wise CRC-24
    of those 3 bytes, the payload, the CRC-32 of `FA 2D 55 CA` followed by the payload. -/
theorem C06_layout_uncompressed (sc : Bool) (p : Bytes) (hp : p.length ≤ 131071) :
    encodeSegment none sc p = .ok (Spec.specSegmentUncompressed sc p) := by
  rw [encodeSegment, if_neg (by rw [maxPayloadLength]; omega)]
  show Res.ok (encodeHeaderUncompressed sc p.length ++ p ++ writePayloadCrc p) = _
  rw [uncompressed_layout sc p hp]

/-- **C06 (layout, §2.2).** With a compressor, whenever compression succeeds the bytes written are exactly the
    specification's compressed frame, 5 little-endian header bytes of `clen + 2^17·ulen + 2^34·flag`, their CRC-24, the
    transmitted payload and its seeded CRC-32, where
    * the transmitted payload is the compressed form `c` with `(clen, ulen) = (c.length, p.length)` when `c` is not
      longer than the payload, and
    * otherwise the payload itself with `(clen, ulen) = (p.length, 0)`.

    On §2.3.2: the prose says an uncompressed payload is signalled "by setting the compressed length to 0". The code zeroes
    the *second* header field (bits 17–33, which §2.2 item 2 names "Uncompressed length") and puts the payload's length into
    the first (bits 0–16, §2.2 item 1 "Compressed length"); this is what Cassandra's `FrameEncoderLZ4` writes and
    `FrameDecoderLZ4` tests (`uncompressedLength == 0`), so the code agrees with the reference implementation on the wire
    and the sentence of §2.3.2 names the other field than the one actually zeroed. The Go decoder accepts both
    readings: a zero second field (`decodeSegmentHeader`) and a zero first field (`decodeSegmentPayload`) each mean "take
    the payload as it is". -/
theorem C06_layout_compressed (comp : PayloadCompressor) (sc : Bool) (p c : Bytes) (hp : p.length ≤ 131071)
    (hc : comp.compress p = .ok c) :
    encodeSegment (some comp) sc p =
      .ok (if c.length ≤ p.length then Spec.specSegmentCompressed sc c p.length
           else Spec.specSegmentCompressed sc p 0) := by
  rw [encodeSegment, if_neg (by rw [maxPayloadLength]; omega)]
  show (comp.compress p >>= _) = _
  rw [hc]
  show (if c.length ≤ p.length then _ else _) = _
  by_cases hle : c.length ≤ p.length
  · rw [if_pos hle, if_pos hle]
    show Res.ok _ = _
    rw [compressed_layout sc c p.length (by omega) hp]
  · rw [if_neg hle, if_neg hle]
    show Res.ok _ = _
    rw [compressed_layout sc p 0 hp (by decide)]

/-- the only way `EncodeSegment` fails on a payload within the limit is a failing compressor -/
theorem C06_encodes (c : Option PayloadCompressor) (sc : Bool) (p : Bytes) (hp : p.length ≤ 131071)
    (hc : ∀ comp, c = some comp → ∃ x, comp.compress p = .ok x) : ∃ b, encodeSegment c sc p = .ok b := by
  cases c with
  | none => exact ⟨_, C06_layout_uncompressed sc p hp⟩
  | some comp =>
    obtain ⟨x, hx⟩ := hc comp rfl
    exact ⟨_, C06_layout_compressed comp sc p x hp hx⟩

/-- the specification's limit (`2^17 - 1`, §2.1 item 5) is the code's -/
theorem C06_max_payload : Spec.maxPayloadLength = Cql.Segment.maxPayloadLength := by decide

/-! ## 7. the model's constants are the ones extracted from the Go source -/

theorem C06_constants :
    Cql.Gen.CrcFacts.segment_MaxPayloadLength = Cql.Segment.maxPayloadLength ∧
    Cql.Gen.CrcFacts.segment_UncompressedHeaderLength = Cql.Segment.uncompressedHeaderLength ∧
    Cql.Gen.CrcFacts.segment_CompressedHeaderLength = Cql.Segment.compressedHeaderLength ∧
    Cql.Gen.CrcFacts.encodeHeaderUncompressed_headerLength = 3 ∧
    Cql.Gen.CrcFacts.encodeHeaderCompressed_headerLength = 5 ∧
    Cql.Gen.CrcFacts.segment_Crc24Length = Cql.Segment.crc24Length ∧
    Cql.Gen.CrcFacts.segment_Crc24Length = 3 ∧
    Cql.Gen.CrcFacts.segment_Crc32Length = 4 ∧
    Cql.Gen.CrcFacts.encodeHeaderUncompressed_flagOffset = 17 ∧
    Cql.Gen.CrcFacts.encodeHeaderCompressed_flagOffset = 34 ∧
    Cql.Gen.CrcFacts.encodeHeaderUncompressed_literals = [17, 1] ∧
    Cql.Gen.CrcFacts.encodeHeaderCompressed_literals = [34, 17, 1] ∧
    Cql.Gen.CrcFacts.crc_crc24Init = crc24Init.toNat ∧
    Cql.Gen.CrcFacts.crc_crc24Poly = crc24Poly.toNat ∧
    Cql.Gen.CrcFacts.crc32InitialBytes = Cql.Crc.initialBytes ∧
    Cql.Gen.CrcFacts.crc32InitialBytes = Spec.crc32Seed ∧
    Cql.Gen.CrcFacts.koopmanLiterals = [0, 16, 8, 0, 8, 1, 16777216, 0] ∧
    Cql.Gen.CrcFacts.koopmanOperators = ["<", "^=", "<<", ">>=", "<", "<<=", "!=", "&", "^="] := by
  decide

/-- the flag offsets the model shifts by are the extracted ones -/
theorem C06_flag_offsets (sc : Bool) (len c u : Nat) :
    encodeHeaderUncompressed sc len =
      writeHeaderDataAndCrc (len ||| (if sc then 1 <<< Cql.Gen.CrcFacts.encodeHeaderUncompressed_flagOffset else 0))
        Cql.Gen.CrcFacts.encodeHeaderUncompressed_headerLength ∧
    encodeHeaderCompressed sc c u =
      writeHeaderDataAndCrc (c ||| (u <<< 17) ||| (if sc then 1 <<< Cql.Gen.CrcFacts.encodeHeaderCompressed_flagOffset else 0))
        Cql.Gen.CrcFacts.encodeHeaderCompressed_headerLength :=
  ⟨rfl, rfl⟩

/-! ## 8. the decoder never panics; non-vacuity -/

/-- `DecodeSegment` reaches no run-time panic on any input, for every compressor whose `Decompress` does not panic -/
theorem C06_decodeSegment_noPanic (c : Option PayloadCompressor)
    (hc : ∀ comp, c = some comp → ∀ x e, comp.decompress x ≠ .panic e) : NoPanic (decodeSegment c) :=
  decodeSegment_noPanic c hc

theorem C06_decodeSegment_noPanic_none : NoPanic (decodeSegment none) :=
  decodeSegment_noPanic none (fun _ h => by cases h)

/-- a concrete self-contained segment with the 3-byte payload `01 02 03`: header `03 00 02`, CRC-24 `42 96 7C`, payload,
    CRC-32 `D7 BB AE A5` (the values an independent CRC implementation gives), kernel-evaluated -/
example : encodeSegment none true [1, 2, 3] = .ok [3, 0, 2, 66, 150, 124, 1, 2, 3, 215, 187, 174, 165] := by
  decide +kernel

/-- … and it decodes back, leaving the bytes that follow (kernel-evaluated, both checksums recomputed by the decoder) -/
example : (decodeSegment none).run ([3, 0, 2, 66, 150, 124, 1, 2, 3, 215, 187, 174, 165] ++ [9, 9]) =
    .ok ({ header := { isSelfContained := true, uncompressedPayloadLength := 3, compressedPayloadLength := 0,
                       crc24 := 8164930 },
           payload := [1, 2, 3], crc32 := 2779691991 }, [9, 9]) := by
  decide +kernel

/-- one flipped payload bit is detected -/
example : (decodeSegment none).run [3, 0, 2, 66, 150, 124, 1, 2, 2, 215, 187, 174, 165] = .err "crc mismatch on payload" := by
  decide +kernel

/-- the identity "compressor": lossless on every payload except that it maps nothing non-empty to the empty string -/
def idCompressor : PayloadCompressor := { compress := fun x => .ok x, decompress := fun x => .ok x }

theorem idCompressor_lossless (p : Bytes) : LosslessOn idCompressor p :=
  { roundtrip := fun c h => by
      have : p = c := Res.ok_inj h
      rw [this]; rfl
    nonempty := fun c h h0 => by
      have : p = c := Res.ok_inj h
      rw [this]; exact h0 }

/-- theorem 4 instantiated: hypotheses are satisfiable and the encoder does produce bytes -/
example (sc : Bool) (p rest : Bytes) (hp : p.length ≤ 131071) :
    ∃ b seg, encodeSegment (some idCompressor) sc p = .ok b ∧
      (decodeSegment (some idCompressor)).run (b ++ rest) = .ok (seg, rest) ∧ seg.payload = p := by
  obtain ⟨b, hb⟩ := C06_encodes (some idCompressor) sc p hp (fun comp h => by cases h; exact ⟨p, rfl⟩)
  obtain ⟨seg, hseg, hpay, _, _⟩ := C06_segment_roundtrip_compressed idCompressor sc p rest hp (idCompressor_lossless p) b hb
  exact ⟨b, seg, hb, hseg, hpay⟩

/-- a compressor that doubles every payload: the fallback branch is taken and the round trip holds -/
def doublingCompressor : PayloadCompressor :=
  { compress := fun x => .ok (x ++ x ++ [0]), decompress := fun _ => .err "never called" }

example (sc : Bool) (p rest : Bytes) (hp : p.length ≤ 131071) (b : Bytes)
    (hw : encodeSegment (some doublingCompressor) sc p = .ok b) :
    ∃ seg, (decodeSegment (some doublingCompressor)).run (b ++ rest) = .ok (seg, rest) ∧ seg.payload = p :=
  ⟨_, C06_roundtrip_fallback doublingCompressor sc p (p ++ p ++ [0]) rest hp rfl
        (by rw [List.length_append, List.length_append]; simp only [List.length_cons, List.length_nil]; omega) b hw, rfl⟩

/-- `LosslessOn.nonempty` is needed: a "compressor" that is invertible on `[7]` but maps it to the empty string produces a
    segment with compressed length 0, which the decoder reads as "not compressed, 1 byte of payload" and then runs out
    of input (no LZ4 block is empty, so this cannot happen with the real compressor) -/
def emptyingCompressor : PayloadCompressor := { compress := fun _ => .ok [], decompress := fun _ => .ok [7] }

example : (match encodeSegment (some emptyingCompressor) true [7] with
    | .ok b => (decodeSegment (some emptyingCompressor)).run b
    | _ => .err "encoder failed") = .err "eof" := by decide +kernel

end Cql.Props.C06
