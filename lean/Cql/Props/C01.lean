import Cql.Impl.Frame
import Cql.Lemmas.FrameRT
import Cql.Show
/-!
# C01 — frame round-trip fidelity for every message, version and compression

`Cql.Impl.*` is the code-shaped model of `frame/*.go`, `message/*.go`, `primitive/*.go`, `datatype/*.go` (compared with
the real code byte-for-byte and structure-for-structure by the correspondence harness on every run). The theorem below
quantifies over EVERY frame satisfying the version-validity predicate — every message kind, every optional-field
subset, every string/list/row/children size below the notation's limit, arbitrarily nested column types — every
supported version, any body compressor that is lossless on the body at hand, and ANY bytes following the frame.
-/
namespace Cql.Props.C01
open Cql Cql.Prim Cql.Parser Cql.Gen Cql.Impl

/-- what the frame codec needs from a body compressor for THIS body: decompression of the compressed bytes returns the
    body and consumes all of them; the compressed size fits the header's `[int]` -/
def Lossless (comp : BodyCompressor) (raw : Bytes) : Prop :=
  ∀ c, comp.compressWithLength raw = .ok c → comp.decompressWithLength c = .ok (raw, []) ∧ c.length < 2147483648

/-- version-validity of a frame (header, optional body parts, message), independent of the encoder:
    see `ValidHeader`, `ValidBody`, `ValidMsg` and the per-message predicates, each written from the specs. -/
structure ValidFrame (c : Option BodyCompressor) (f : Frame) : Prop where
  version : ProtocolVersion_IsSupported f.header.version = true
  flags : f.header.flags < 256
  streamId : f.header.streamId < 65536
  body : ValidBody f.header f.body
  /-- the uncompressed body fits the header's 32-bit signed length -/
  size : ∀ bs, encodeBodyUncompressed f.header f.body = .ok bs → bs.length < 2147483648
  /-- the COMPRESSED flag needs a compressor that is lossless on this body -/
  compression : hasFlag f.header.flags HeaderFlagCompressed = true →
    ∃ comp, c = some comp ∧ ∀ bs, encodeBodyUncompressed f.header f.body = .ok bs → Lossless comp bs

/-- what the round trip may erase at frame level: the header's `BodyLength` is the computed one; body parts without their
    flag are absent; the message through `canonMsg` -/
def canonFrame (f : Frame) (bodyLength : Nat) : Frame :=
  { header := { f.header with bodyLength := bodyLength }, body := canonBody f.header f.body }

private theorem validBody_bl {h : Header} {b : Body} (hv : ValidBody h b) (x : Nat) :
    ValidBody { h with bodyLength := x } b :=
  { msg := hv.msg, opCode := hv.opCode, direction := hv.direction, tracing := hv.tracing, noTracing := hv.noTracing,
    warnings := hv.warnings, payload := hv.payload }

private theorem op_valid (m : Msg) : OpCode_IsValid m.opCode = true := by cases m <;> rfl

private theorem validHeader_of (c : Option BodyCompressor) (f : Frame) (hv : ValidFrame c f) (bl : Nat) (hbl : bl < 4294967296) :
    ValidHeader { f.header with bodyLength := bl } :=
  { version := hv.version, flags := hv.flags, streamId := hv.streamId
    opCode := by show OpCode_IsValid f.header.opCode = true; rw [hv.body.opCode]; exact op_valid _
    direction := by
      show f.header.isResponse = OpCode_IsResponse f.header.opCode
      rw [hv.body.direction, hv.body.opCode]; rfl
    bodyLength := hbl }

/-- **C01.** Decoding the bytes `EncodeFrame` produced for a version-valid frame — followed by any further bytes —
    with the same compression setting returns the same frame (up to `canonFrame`) and leaves exactly those further bytes. -/
theorem C01_frame_roundtrip (c : Option BodyCompressor) (f : Frame) (hv : ValidFrame c f) (b : Bytes) (bl : Nat)
    (hw : encodeFrame c f = .ok (b, bl)) (rest : Bytes) :
    (decodeFrame c).run (b ++ rest) = .ok (canonFrame f bl, rest) := by
  rw [encodeFrame] at hw
  have hop : (f.header.opCode == f.body.message.opCode) = true := by rw [hv.body.opCode]; exact beq_self_eq_true _
  cases hc : hasFlag f.header.flags HeaderFlagCompressed with
  | false =>
    rw [hc, if_neg (by decide)] at hw
    obtain ⟨n, hn, hw⟩ := Res.bind_ok_inv hw
    obtain ⟨hdr, hhdr, hw⟩ := Res.bind_ok_inv hw
    obtain ⟨body, hbody, hw⟩ := Res.bind_ok_inv hw
    have hw := Res.pure_ok_inv hw
    have hb : b = hdr ++ body := (congrArg Prod.fst hw).symm
    have hbl : bl = n % 4294967296 := (congrArg Prod.snd hw).symm
    rw [encodeBody.eq_def] at hbody
    obtain ⟨_, _, hbody⟩ := Res.bind_ok_inv hbody
    have hc' : hasFlag ({ f.header with bodyLength := n % 4294967296 } : Header).flags HeaderFlagCompressed = false := hc
    rw [hc', if_neg (by decide)] at hbody
    have hbody' : encodeBodyUncompressed f.header f.body = .ok body := hbody
    have hvh := validHeader_of c f hv (n % 4294967296) (Nat.mod_lt _ (by decide))
    rw [hb, hbl, List.append_assoc, decodeFrame, bind_ok (decodeHeader_RT _ hvh hdr hhdr _), decodeBody.eq_def, hc',
      if_neg (by decide)]
    have hvb := validBody_bl hv.body (n % 4294967296)
    rw [bind_ok (decodeBodyPlain_RT _ f.body hvb body hbody' rest)]
    rfl
  | true =>
    rw [hc, if_pos rfl] at hw
    obtain ⟨body, hbody, hw⟩ := Res.bind_ok_inv hw
    obtain ⟨hdr, hhdr, hw⟩ := Res.bind_ok_inv hw
    have hw := Res.pure_ok_inv hw
    have hb : b = hdr ++ body := (congrArg Prod.fst hw).symm
    have hbl : bl = body.length % 4294967296 := (congrArg Prod.snd hw).symm
    obtain ⟨comp, hcomp, hloss⟩ := hv.compression hc
    rw [encodeBody.eq_def, hop, hc, if_pos rfl, hcomp] at hbody
    obtain ⟨_, _, hbody⟩ := Res.bind_ok_inv hbody
    obtain ⟨_, _, hbody⟩ := Res.bind_ok_inv hbody
    obtain ⟨raw, hraw, hbody⟩ := Res.bind_ok_inv hbody
    obtain ⟨hdec, hlen⟩ := hloss raw hraw body hbody
    have hmod : body.length % 4294967296 = body.length := Nat.mod_eq_of_lt (by omega)
    have hvh := validHeader_of c f hv (body.length % 4294967296) (Nat.mod_lt _ (by decide))
    rw [hb, hbl, List.append_assoc, decodeFrame, bind_ok (decodeHeader_RT _ hvh hdr hhdr _), decodeBody.eq_def]
    have hc' : hasFlag ({ f.header with bodyLength := body.length % 4294967296 } : Header).flags HeaderFlagCompressed = true := hc
    rw [hc', if_pos rfl, hcomp]
    have hvb := validBody_bl hv.body (body.length % 4294967296)
    have hplain := decodeBodyPlain_RT _ f.body hvb raw hraw []
    rw [List.append_nil] at hplain
    have hlim : limited (body.length % 4294967296) (body ++ rest) = (body, rest) := by
      rw [limited, hmod]
      have : isNeg32 body.length = false := by rw [isNeg32]; exact decide_eq_false (by omega)
      rw [this, if_neg (by decide), List.take_left' rfl, List.drop_left' rfl]
    show (Parser.bind' _ _).run _ = _
    simp only [Parser.bind', hlim, hdec, hplain]
    rfl

/-- **The encoder refuses no valid frame** (keeps `ValidFrame` honest: it is not merely "whatever encodes"). -/
theorem C01_valid_frames_encode (f : Frame) (hv : ValidFrame none f)
    (hnc : hasFlag f.header.flags HeaderFlagCompressed = false)
    (hsid : f.header.version < ProtocolVersion3 → ¬ (toInt16 f.header.streamId > 127 ∨ toInt16 f.header.streamId < -128)) :
    ∃ b bl, encodeFrame none f = .ok (b, bl) := by
  obtain ⟨m, hm⟩ := encodeMsg_ok f.header.version f.body.message hv.body.msg
  have hop : (f.header.opCode == f.body.message.opCode) = true := by rw [hv.body.opCode]; exact beq_self_eq_true _
  -- the optional prefix always encodes for a valid body
  have hpre : ∃ pre, encodeBodyPrefix f.header f.body = .ok pre := by
    rw [encodeBodyPrefix]
    have h1 : ∃ tr, whenW (hasFlag f.header.flags HeaderFlagTracing && f.body.message.isResponse) (writeUuid f.body.tracingId) = .ok tr := by
      cases hc : (hasFlag f.header.flags HeaderFlagTracing && f.body.message.isResponse) with
      | false => exact ⟨_, rfl⟩
      | true =>
        have hc' : (f.header.isResponse && hasFlag f.header.flags HeaderFlagTracing) = true := by
          rw [hv.body.direction, Bool.and_comm]; exact hc
        obtain ⟨u, hu, _⟩ := hv.body.tracing hc'
        rw [whenW_true, hu]; exact ⟨_, rfl⟩
    have hwc : (hasFlag f.header.flags HeaderFlagWarning && f.body.message.isResponse) = hasFlag f.header.flags HeaderFlagWarning := by
      cases hf : hasFlag f.header.flags HeaderFlagWarning with
      | false => rfl
      | true => rw [← hv.body.direction, (hv.body.warnings hf).1]; rfl
    rw [hwc]
    have h2 : ∃ wa, whenW (hasFlag f.header.flags HeaderFlagWarning)
        (if f.header.version < ProtocolVersion4 ∧ f.body.warnings.isSome then Res.err "warnings are not supported"
         else .ok (writeStringList (f.body.warnings.getD []))) = .ok wa := by
      cases hc : hasFlag f.header.flags HeaderFlagWarning with
      | false => exact ⟨_, rfl⟩
      | true =>
        obtain ⟨_, h4, _⟩ := hv.body.warnings hc
        rw [whenW_true, if_neg (by omega)]; exact ⟨_, rfl⟩
    have h3 : ∃ pa, whenW (hasFlag f.header.flags HeaderFlagCustomPayload)
        (if f.header.version < ProtocolVersion4 then Res.err "custom payloads are not supported"
         else .ok (writeBytesMap (f.body.customPayload.getD []))) = .ok pa := by
      cases hc : hasFlag f.header.flags HeaderFlagCustomPayload with
      | false => exact ⟨_, rfl⟩
      | true =>
        obtain ⟨h4, _⟩ := hv.body.payload hc
        rw [whenW_true, if_neg (by omega)]; exact ⟨_, rfl⟩
    obtain ⟨tr, htr⟩ := h1
    obtain ⟨wa, hwa⟩ := h2
    obtain ⟨pa, hpa⟩ := h3
    rw [htr, hwa, hpa]; exact ⟨_, rfl⟩
  obtain ⟨pre, hpre⟩ := hpre
  have hbody : encodeBodyUncompressed f.header f.body = .ok (pre ++ m) := by
    rw [encodeBodyUncompressed, hpre, hm]; rfl
  have hlen := encodeBodyUncompressed_len f.header f.body hv.body _ hbody
  have hvh := validHeader_of none f hv ((pre ++ m).length % 4294967296) (Nat.mod_lt _ (by decide))
  obtain ⟨hdr, hhdr⟩ := encodeHeader_ok _ hvh hsid
  refine ⟨hdr ++ (pre ++ m), (pre ++ m).length % 4294967296, ?_⟩
  rw [encodeFrame, hnc, if_neg (by decide), hlen]
  show (encodeHeader _ >>= fun hdr => encodeBody none _ f.body >>= fun body => pure (hdr ++ body, _)) = _
  rw [hhdr]
  show (encodeBody none _ f.body >>= fun body => pure (hdr ++ body, _)) = _
  have : encodeBody none ({ f.header with bodyLength := (pre ++ m).length % 4294967296 } : Header) f.body = .ok (pre ++ m) := by
    rw [encodeBody.eq_def]
    show (guard (f.header.opCode == f.body.message.opCode) _ >>= fun _ =>
      if hasFlag f.header.flags HeaderFlagCompressed = true then _ else encodeBodyUncompressed _ f.body) = _
    rw [hop, hnc, if_neg (by decide)]
    exact hbody
  rw [this]; rfl

/-- **No two frames share an encoding** (up to what the wire cannot carry): if two version-valid frames encode to the same
    bytes, they are the same frame after `canonFrame`. An encoder that dropped or conflated a field would break this. -/
theorem C01_encoding_injective (c : Option BodyCompressor) (f g : Frame) (hf : ValidFrame c f) (hg : ValidFrame c g)
    (b : Bytes) (bl bl' : Nat) (h1 : encodeFrame c f = .ok (b, bl)) (h2 : encodeFrame c g = .ok (b, bl')) :
    canonFrame f bl = canonFrame g bl' := by
  have r1 := C01_frame_roundtrip c f hf b bl h1 []
  have r2 := C01_frame_roundtrip c g hg b bl' h2 []
  rw [r1] at r2
  exact congrArg Prod.fst (Res.ok_inj r2)

/-- a frame followed by any bytes decodes to the same frame as the frame alone: the decoder never looks past the frame -/
theorem C01_decoder_ignores_what_follows (c : Option BodyCompressor) (f : Frame) (hv : ValidFrame c f) (b : Bytes) (bl : Nat)
    (hw : encodeFrame c f = .ok (b, bl)) (rest : Bytes) :
    ((decodeFrame c).run (b ++ rest)).isOk = true ∧
      ∀ f1 r1 f2 r2, (decodeFrame c).run (b ++ rest) = .ok (f1, r1) → (decodeFrame c).run b = .ok (f2, r2) → f1 = f2 ∧ r1 = rest ∧ r2 = [] := by
  have h1 := C01_frame_roundtrip c f hv b bl hw rest
  have h2 := C01_frame_roundtrip c f hv b bl hw []
  rw [List.append_nil] at h2
  refine ⟨by rw [h1]; rfl, ?_⟩
  intro f1 r1 f2 r2 e1 e2
  rw [h1] at e1; rw [h2] at e2
  have a := Res.ok_inj e1
  have b' := Res.ok_inj e2
  exact ⟨(congrArg Prod.fst a).symm.trans (congrArg Prod.fst b'), (congrArg Prod.snd a).symm, (congrArg Prod.snd b').symm⟩

/-! ## non-vacuity: concrete non-trivial frames satisfy `ValidFrame` (one request, one response) -/

def exFrame : Frame :=
  { header := { isResponse := false, version := 4, flags := 0, streamId := 7, opCode := OpCodePrepare, bodyLength := 0 },
    body := { tracingId := none, customPayload := none, warnings := none, message := .prepare [83, 69, 76] [] } }

example : ValidFrame none exFrame :=
  { version := by decide, flags := by decide, streamId := by decide
    body := { msg := ⟨⟨by decide, by decide⟩, by decide, fun h => absurd rfl h⟩, opCode := rfl, direction := rfl
              tracing := fun h => absurd h (by decide), noTracing := fun _ => rfl
              warnings := fun h => absurd h (by decide), payload := fun h => absurd h (by decide) }
    size := fun bs h => by
      have h0 : encodeBodyUncompressed exFrame.header exFrame.body = Res.ok (writeLongString [83, 69, 76]) := by decide
      rw [h0] at h
      rw [← Res.ok_inj h]; decide
    compression := fun h => absurd h (by decide) }

example : (match encodeFrame none exFrame with
    | .ok (b, bl) => (match (decodeFrame none).run (b ++ [1, 2, 3]) with
      | .ok (f', r) => r == [1, 2, 3] && bl == 7 && b.length == 16 && Show.frame f' == Show.frame (canonFrame exFrame bl)
      | _ => false)
    | _ => false) = true := by decide

end Cql.Props.C01
