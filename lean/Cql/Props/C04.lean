import Cql.Impl.Frame
import Cql.Lemmas.FrameRT
/-!
# C04 — decoders never panic, fault or hang on arbitrary input bytes

In the model a Go run-time panic reachable from wire-controlled data is the third outcome `Res.panic site`
(`make` with a negative length, index out of range, nil dereference, failed type assertion); `NoPanic p` says that NO byte
string — of any length, not only up to 1 MiB — drives the reader `p` into such a site. Every model decoder is a total
Lean function defined by structural recursion on an explicit count or fuel that the input bounds, which is the model-level
statement of termination; `DataType.read` recurses at most once per 2 input bytes (fuel = input length + 1).

Not covered by these theorems (observed by the harness only): third-party decompressors (`BodyCompressor` is a
parameter assumed not to panic), the `reflect`-based CQL value decoders, stack depth and allocation volume of the Go runtime.
-/
namespace Cql.Props.C04
open Cql Cql.Prim Cql.Parser Cql.Gen Cql.Impl

/-- every primitive notation reader -/
theorem C04_primitives (v : Nat) :
    NoPanic readByte ∧ NoPanic readShort ∧ NoPanic readInt ∧ NoPanic readLong ∧ NoPanic readString ∧
    NoPanic readLongString ∧ NoPanic readBytes ∧ NoPanic readShortBytes ∧ NoPanic readStringList ∧ NoPanic readStringMap ∧
    NoPanic readStringMultiMap ∧ NoPanic readBytesMap ∧ NoPanic readUuid ∧ NoPanic readInetAddr ∧ NoPanic readInet ∧
    NoPanic (readValue v) ∧ NoPanic (readPositionalValues v) ∧ NoPanic (readNamedValues v) ∧ NoPanic readReasonMap ∧
    NoPanic (readStreamId v) :=
  ⟨NoPanic.readByte, NoPanic.readShort, NoPanic.readInt, NoPanic.readLong, NoPanic.readString, NoPanic.readLongString,
   NoPanic.readBytes, NoPanic.readShortBytes, NoPanic.readStringList, NoPanic.readStringMap, NoPanic.readStringMultiMap,
   NoPanic.readBytesMap, NoPanic.readUuid, NoPanic.readInetAddr, NoPanic.readInet, NoPanic.readValue v,
   NoPanic.readPositionalValues v, NoPanic.readNamedValues v, NoPanic.readReasonMap, NoPanic.readStreamId v⟩

/-- type descriptors, to any nesting depth -/
theorem C04_type_descriptor (v : Nat) : NoPanic (DataType.read v) := DataType.read_noPanic v

/-- every message body decoder, for every opcode byte (registered or not) and every version number -/
theorem C04_message_body (version opCode : Nat) : NoPanic (decodeMsg version opCode) := decodeMsg_noPanic version opCode

theorem C04_header : NoPanic decodeHeader := decodeHeader_noPanic

/-- a compressor that does not panic itself -/
def CompressorNoPanic (c : Option BodyCompressor) : Prop :=
  ∀ comp, c = some comp → ∀ chunk e, comp.decompressWithLength chunk ≠ .panic e

theorem decodeBody_noPanic (c : Option BodyCompressor) (hc : CompressorNoPanic c) (h : Header) : NoPanic (decodeBody c h) := by
  rw [decodeBody.eq_def]
  by_cases hf : hasFlag h.flags HeaderFlagCompressed = true
  · rw [if_pos hf]
    cases hcomp : c with
    | none => exact NoPanic.fail _
    | some comp =>
      intro s e hp
      simp only [] at hp
      cases hd : comp.decompressWithLength (limited h.bodyLength s).1 with
      | panic e' => exact hc comp hcomp _ e' hd
      | err e' => rw [hd] at hp; cases hp
      | ok x =>
        obtain ⟨raw, unread⟩ := x
        rw [hd] at hp
        simp only [] at hp
        cases hb : (decodeBodyPlain h).run raw with
        | panic e' => exact decodeBodyPlain_noPanic h raw e' hb
        | err e' => rw [hb] at hp; cases hp
        | ok y => rw [hb] at hp; cases hp
  · rw [if_neg hf]; exact decodeBodyPlain_noPanic h

/-- **frames**: `DecodeFrame` on arbitrary bytes, for every compression setting whose decompressor does not itself panic -/
theorem C04_frame (c : Option BodyCompressor) (hc : CompressorNoPanic c) : NoPanic (decodeFrame c) := by
  rw [decodeFrame]
  no_panic [decodeHeader_noPanic, decodeBody_noPanic c hc]

theorem decodeRawBody_noPanic (h : Header) : NoPanic (decodeRawBody h) := by rw [decodeRawBody]; no_panic
theorem discardBody_noPanic (h : Header) : NoPanic (discardBody h) := by rw [discardBody]; no_panic

/-- raw frames and the partial operations -/
theorem C04_raw_frame : NoPanic decodeRawFrame := by
  rw [decodeRawFrame]; no_panic [decodeHeader_noPanic, decodeRawBody_noPanic]

/-- `ConvertFromRawFrame` on an arbitrary raw frame -/
theorem C04_convert_from_raw (c : Option BodyCompressor) (hc : CompressorNoPanic c) (f : RawFrame) (e : String) :
    convertFromRawFrame c f ≠ .panic e := by
  intro hp
  rw [convertFromRawFrame] at hp
  cases hb : (decodeBody c f.header).run f.body with
  | panic e' => exact decodeBody_noPanic c hc f.header f.body e' hb
  | err e' => rw [hb] at hp; cases hp
  | ok y => rw [hb] at hp; cases hp

/-- no decoder in the model reaches a panic site: the only sites are in ENCODER-side helpers (`cols[0]` of an empty
    column list, `t.Code()` of a nil DataType in `LengthOfDataType`), which wire data cannot reach -/
example : (match (decodeFrame none).run [0x84, 0, 0, 1, 8, 0, 0, 0, 8, 0, 0, 0, 2, 0xff, 0xff, 0xff, 0xff] with
    | .err _ => true | _ => false) = true := by decide

end Cql.Props.C04
