import Cql.Value
import Cql.Spec.Value
import Cql.Lemmas.ValueRT
/-!
# C11 — CQL values round-trip: `decode (encode x) = x`

`Cql.Value.encode/decode` mirror the byte level of `datacodec` (`write*`/`read*` of every scalar codec and the recursion
of the list / set / map / tuple / UDT codecs over their element codecs, `NewCodec` included). `Spec.HasType` is
well-typedness + representability written from the specification (integer widths, 16-byte uuids, 4|16-byte addresses,
`[int]` scale, `int32` months/days, counts and element sizes within their length fields, v2 collections without null
elements), for arbitrarily nested types. The theorem is for every protocol version: the hypothesis adapts to
`Spec.fourByte version` (v3+: `[int]` counts, `[bytes]` elements; v2: `[short]`, `[short bytes]`).
-/
namespace Cql.Props.C11
open Cql Cql.Prim Cql.Value Cql.Spec Cql.Gen

/-- every well-typed value of every supported type, at any nesting depth, in every protocol version:
    `Encode` succeeds and `Decode` of its output is the value itself (null elements included — `HasType` admits them
    wherever the version's format can express them) -/
theorem C11_roundtrip (version : Nat) (t : DataType) (x : CqlVal) (hs : Supported t = true) (ht : HasType version t x) :
    (encode version t (some x) >>= decode version t) = .ok (some x) := by
  rw [encode_spec version t x hs ht]
  exact decode_spec version t x hs ht

/-- NULL round-trips as NULL -/
theorem C11_roundtrip_null (version : Nat) (t : DataType) (hs : Supported t = true) :
    (encode version t none >>= decode version t) = .ok none := by
  rw [encode_none version t hs]
  exact decode_none version t hs

/-- the two collection layouts spelled out: the theorem covers versions with 2-byte and with 4-byte lengths -/
theorem C11_roundtrip_supported_versions (version : Nat) (hv : version ∈ SupportedProtocolVersions) :
    (version = ProtocolVersion2 ∧ fourByte version = false) ∨ fourByte version = true := by
  have : ∀ v ∈ SupportedProtocolVersions, (v = ProtocolVersion2 ∧ fourByte v = false) ∨ fourByte v = true := by decide
  exact this version hv

/-! ## what does NOT round-trip (kept visible as hypotheses of `HasType`) -/

/-- SUSPECT (inet, spec §5.10): the 16-byte IPv4-mapped address `::ffff:1.2.3.4` is a legal 16-byte inet value, but
    `convertToIP`/`compactV4` shorten it to 4 bytes on encode, so it decodes as the 4-byte address `1.2.3.4` -/
theorem inet_v4mapped_not_roundtrip (version : Nat) :
    (encode version (.prim DataTypeCodeInet) (some (.bytes [0, 0, 0, 0, 0, 0, 0, 0, 0, 0, 255, 255, 1, 2, 3, 4])) >>=
      decode version (.prim DataTypeCodeInet)) = .ok (some (.bytes [1, 2, 3, 4])) := rfl

/-- SUSPECT (tuple / UDT without fields): the only value `()` serializes to the empty byte string; `writeTuple` /
    `writeUdt` return the nil slice of a never-written buffer, i.e. NULL, and in any case every decoder reads an empty
    byte string as NULL (`wasNull = len(source) == 0`) -/
theorem empty_tuple_not_roundtrip (version : Nat) :
    (encode version (.tuple []) (some (.tuple [])) >>= decode version (.tuple [])) = .ok none ∧
    (encode version (.udt [] [] [] []) (some (.udt [])) >>= decode version (.udt [] [] [] [])) = .ok none :=
  ⟨rfl, rfl⟩

example (version : Nat) : encode version (.tuple []) (some (.tuple [])) = .ok none := rfl
example (version : Nat) : decode version (.tuple []) (some []) = .ok none := rfl

/-! ## non-vacuity -/

/-- `list<map<int, tuple<varint, varchar>>>` -/
def tNested : DataType :=
  .list (.map (.prim DataTypeCodeInt) (.tuple [.prim DataTypeCodeVarint, .prim DataTypeCodeVarchar]))

/-- `[{5: (-129, null), 6: null}, null]`: a negative varint, a null tuple field, a null map value, a null list element -/
def vNested : CqlVal :=
  .list [some (.map [(some (.int 5), some (.tuple [some (.int (-129)), none])), (some (.int 6), none)]), none]

theorem tNested_supported : Supported tNested = true := by decide

theorem vNested_hasType : HasType 4 tNested vNested := by
  rw [tNested, vNested, HasType]
  refine ⟨by rw [CountOk]; decide, ?_⟩
  intro o ho
  simp only [List.mem_cons, List.not_mem_nil, or_false] at ho
  rcases ho with rfl | rfl
  · refine ⟨?_, by decide⟩
    rw [HasType]
    refine ⟨by rw [CountOk]; decide, ?_⟩
    intro p hp
    simp only [List.mem_cons, List.not_mem_nil, or_false] at hp
    rcases hp with rfl | rfl
    · refine ⟨⟨?_, by decide⟩, ⟨?_, by decide⟩⟩
      · exact ⟨.int 4, by decide, (by decide : fitsTwos 4 _ = true)⟩
      · rw [HasType]
        refine ⟨by decide, ⟨⟨.varint, by decide, trivial⟩, by decide⟩, trivial, trivial⟩
    · exact ⟨⟨⟨.int 4, by decide, (by decide : fitsTwos 4 _ = true)⟩, by decide⟩, rfl⟩
  · rfl

example : (encode 4 tNested (some vNested) >>= decode 4 tNested) = .ok (some vNested) :=
  C11_roundtrip 4 tNested vNested tNested_supported vNested_hasType

-- the bytes of that value (v4): count 2; element of 38 bytes = map with 2 entries …; element NULL
example : encode 4 tNested (some vNested) = .ok (some
    [0, 0, 0, 2,
     0, 0, 0, 38,
       0, 0, 0, 2,
       0, 0, 0, 4, 0, 0, 0, 5,   0, 0, 0, 10,  0, 0, 0, 2, 0xFF, 0x7F,  0xFF, 0xFF, 0xFF, 0xFF,
       0, 0, 0, 4, 0, 0, 0, 6,   0xFF, 0xFF, 0xFF, 0xFF,
     0xFF, 0xFF, 0xFF, 0xFF]) := by decide

/-- a negative varint and a duration -/
example : HasType 4 (.prim DataTypeCodeVarint) (.int (-18446744073709551617)) := ⟨.varint, by decide, trivial⟩
example : (encode 4 (.prim DataTypeCodeVarint) (some (.int (-18446744073709551617))) >>=
    decode 4 (.prim DataTypeCodeVarint)) = .ok (some (.int (-18446744073709551617))) :=
  C11_roundtrip 4 _ _ (by decide) ⟨.varint, by decide, trivial⟩

example : HasType 5 (.prim DataTypeCodeDuration) (.duration 14 (-3) 3000000000) :=
  ⟨.duration, by decide, by decide, by decide, by decide⟩
example : encode 5 (.prim DataTypeCodeDuration) (some (.duration 14 (-3) 3000000000)) =
    .ok (some [0x1C, 0x05, 0xF1, 0x65, 0xA0, 0xBC, 0x00]) := by decide

/-- v2: the same nested shape without nulls in the collections (the tuple may still hold one) -/
example : HasType 2 (.list (.prim DataTypeCodeInt)) (.list [some (.int 1), some (.int (-1))]) := by
  rw [HasType]
  refine ⟨by rw [CountOk]; decide, ?_⟩
  intro o ho
  simp only [List.mem_cons, List.not_mem_nil, or_false] at ho
  rcases ho with rfl | rfl <;> exact ⟨⟨.int 4, by decide, (by decide : fitsTwos 4 _ = true)⟩, by decide⟩

end Cql.Props.C11
