import Cql.Lemmas.CrcLemmas
import Cql.Lemmas.Crc32Period.All
import Cql.Gen.CrcFacts
/-!
# C07 — a segment altered after encoding is never accepted when the alteration lies within the checksums'
guaranteed detection range

* header and its CRC-24: 1..7 flipped bits anywhere in the `n` data bytes (`n = 3` without, `n = 5` with a
  compressor) and the 3 CRC bytes ⇒ `decodeSegmentHeader`, hence `decodeSegment`, returns
  `.err "crc mismatch on header"` (no header field is used, no payload is returned);
* payload and its CRC-32: one flipped bit, two flipped bits, or any nonzero pattern within 32 consecutive bit
  positions (burst), anywhere in payload or CRC bytes, payload of at most 131071 bytes ⇒ `decodeSegmentPayload`,
  hence `decodeSegment`, returns `.err "crc mismatch on payload"`.

An alteration is a xor mask over the wire bytes (`xorBytes sent mask`); `popcountBytes mask` is the number of flipped
bits; `bitAt mask p` is bit `p % 8` (LSB first) of byte `p / 8`.

Trusted base: the two enumeration theorems `Cql.Crc.Detect.crc24_weight_core_3` / `_5` are proved by `native_decide`
(each adds one axiom `…_native.native_decide.ax_1_1` asserting the evaluated proposition — this Lean version's form of
`Lean.ofReduceBool`); everything else, including the eight `crc32_period_chunk_<i>` theorems (`decide +kernel`),
depends only on `propext`, `Classical.choice`, `Quot.sound`. See the list at the end of the file.
-/
namespace Cql.Props.C07
open Cql Cql.Crc Cql.Crc.Detect Cql.Segment Cql.Parser

/-! ## Part 1: CRC-24 -/

/-- (1a) the CRC-24 is xor-linear in (initial register, data) -/
theorem crc24_linear (a b : BitVec 32) (d e : BitVec 64) (n : Nat) :
    crc24From (a ^^^ b) (d ^^^ e) n = crc24From a d n ^^^ crc24From b e n :=
  crc24From_xor a b d e n

/-- (1a) flipping the data bits `e` changes the checksum by the checksum of `e` from register 0 -/
theorem crc24_of_flipped_data (d e : BitVec 64) (n : Nat) : crc24 (d ^^^ e) n = crc24 d n ^^^ crc24From 0#32 e n :=
  crc24_xor d e n

/-- (1b) 3-byte header: a nonzero error pattern (`e` on the 24 data bits, `c` on the checksum) of total weight at most
7 is never a codeword, i.e. the code `d ↦ (d, crc24 d 3)` has minimum distance at least 8 -/
theorem crc24_distance_3 (e : BitVec 64) (c : BitVec 32) (he : ∀ i, 24 ≤ i → e.getLsbD i = false)
    (hpos : 0 < pcB 24 e + pcB 32 c) (hle : pcB 24 e + pcB 32 c ≤ 7) : crc24From 0#32 e 3 ≠ c :=
  crc24_core 3 24 crc24_weight_core_3 e c he hpos hle

/-- (1b) 5-byte header: the same on 40 data bits -/
theorem crc24_distance_5 (e : BitVec 64) (c : BitVec 32) (he : ∀ i, 40 ≤ i → e.getLsbD i = false)
    (hpos : 0 < pcB 40 e + pcB 32 c) (hle : pcB 40 e + pcB 32 c ≤ 7) : crc24From 0#32 e 5 ≠ c :=
  crc24_core 5 40 crc24_weight_core_5 e c he hpos hle

/-- (1c) the header written for header data `d` (`writeHeaderDataAndCrc`, `headerLength c` data bytes and 3 CRC bytes)
with between 1 and 7 bits flipped anywhere in these bytes is rejected by `decodeSegmentHeader`, whatever follows -/
theorem header_bitflips_rejected (c : Option PayloadCompressor) (d : Nat) (hd : d < 2 ^ (8 * headerLength c))
    (mask rest : Bytes) (hlen : mask.length = headerLength c + crc24Length)
    (h1 : 1 ≤ popcountBytes mask) (h7 : popcountBytes mask ≤ 7) :
    (decodeSegmentHeader c).run (xorBytes (writeHeaderDataAndCrc d (headerLength c)) mask ++ rest)
      = .err "crc mismatch on header" := by
  cases c with
  | none => exact header_reject_generic none 2 rfl crc24_weight_core_3 (by decide) d hd mask rest hlen h1 h7
  | some comp =>
    exact header_reject_generic (some comp) 4 rfl crc24_weight_core_5 (by decide) d hd mask rest hlen h1 h7

/-- (1c) … and so is the whole segment: `decodeSegment` reports the error and returns no payload -/
theorem segment_header_bitflips_rejected (c : Option PayloadCompressor) (d : Nat) (hd : d < 2 ^ (8 * headerLength c))
    (mask rest : Bytes) (hlen : mask.length = headerLength c + crc24Length)
    (h1 : 1 ≤ popcountBytes mask) (h7 : popcountBytes mask ≤ 7) :
    (decodeSegment c).run (xorBytes (writeHeaderDataAndCrc d (headerLength c)) mask ++ rest)
      = .err "crc mismatch on header" := by
  rw [decodeSegment]
  exact bind_err (header_bitflips_rejected c d hd mask rest hlen h1 h7) _

/-- (1c) end to end, no compressor: the bytes `EncodeSegment` writes for a payload, with 1..7 bits flipped in the
6 header bytes, are rejected by `DecodeSegment` -/
theorem encoded_segment_header_bitflips_rejected (selfContained : Bool) (payload wire : Bytes)
    (henc : encodeSegment none selfContained payload = .ok wire) (mask : Bytes) (hlen : mask.length = 6)
    (h1 : 1 ≤ popcountBytes mask) (h7 : popcountBytes mask ≤ 7) :
    (decodeSegment none).run (xorBytes (wire.take 6) mask ++ wire.drop 6) = .err "crc mismatch on header" := by
  rw [encodeSegment] at henc
  by_cases hp : payload.length > maxPayloadLength
  · rw [if_pos hp] at henc; cases henc
  · rw [if_neg hp] at henc
    have hw := Res.ok_inj henc
    have hl : (encodeHeaderUncompressed selfContained payload.length).length = 6 := by
      rw [encodeHeaderUncompressed, writeHeaderDataAndCrc, List.length_append, leBytes_length, leBytes_length]; rfl
    rw [← hw, List.append_assoc, List.take_left' hl, List.drop_left' hl, encodeHeaderUncompressed]
    have hd : (payload.length ||| if selfContained = true then 1 <<< 17 else 0) < 2 ^ (8 * headerLength none) := by
      have hpl : payload.length < 2 ^ 24 := by rw [maxPayloadLength] at hp; omega
      apply Nat.or_lt_two_pow hpl
      cases selfContained <;> decide
    exact segment_header_bitflips_rejected none _ hd mask _ hlen h1 h7

/-! ## Part 2: CRC-32 -/

/-- (2a) the bit step of the reflected CRC-32 is xor-linear … -/
theorem crc32Bit_linear (a b : BitVec 32) : crc32Bit (a ^^^ b) = crc32Bit a ^^^ crc32Bit b := crc32Bit_xor a b

/-- (2a) … and injective -/
theorem crc32Bit_injective (a b : BitVec 32) (h : crc32Bit a = crc32Bit b) : a = b := crc32Bit_inj a b h

/-- (2a) the raw register run is xor-affine: two runs over equally long byte strings differ by the run of the difference
of the strings from the difference of the registers -/
theorem crc32Raw_difference (a b : BitVec 32) (x y : Bytes) (h : x.length = y.length) :
    crc32Raw (a ^^^ b) (xorBytes x y) = crc32Raw a x ^^^ crc32Raw b y := crc32Raw_xor a b x y h

/-- (2b) burst: payload followed by its CRC-32 as sent, altered by a nonzero mask all of whose set bits lie in a window
of 32 consecutive bit positions (anywhere: inside the payload, across the payload/CRC boundary, inside the CRC): the
receiver's check fails. No bound on the payload length is needed. -/
theorem payload_burst_rejected (payload mask : Bytes) (hlen : mask.length = payload.length + 4) (s p0 : Nat)
    (hp0 : bitAt mask p0 = true) (hwin : ∀ p, bitAt mask p = true → s ≤ p ∧ p < s + 32) :
    accepts (xorBytes (payload ++ writePayloadCrc payload) mask) = false :=
  accepts_corrupt payload mask hlen (mask_burst mask s p0 hp0 hwin)

/-- (2b) one flipped bit, at any position `i` of payload or CRC -/
theorem payload_single_bit_rejected (payload mask : Bytes) (hlen : mask.length = payload.length + 4) (i : Nat)
    (hbits : ∀ p, bitAt mask p = decide (p = i)) :
    accepts (xorBytes (payload ++ writePayloadCrc payload) mask) = false := by
  apply payload_burst_rejected payload mask hlen i i
  · rw [hbits]; exact decide_eq_true rfl
  · intro p hp
    rw [hbits, decide_eq_true_eq] at hp
    omega

/-- (2c) the register value `1` does not return to `1` within 1 048 832 bit steps (8 kernel-evaluated chunks) -/
theorem crc32_no_short_period (k : Nat) (h1 : 1 ≤ k) (h2 : k ≤ 1048832) : iter crc32Bit k 1#32 ≠ 1#32 :=
  crc32_period k h1 h2

/-- (2c) two flipped bits `i < j` anywhere in payload or CRC, payload of at most 131071 bytes -/
theorem payload_two_bits_rejected (payload mask : Bytes) (hlen : mask.length = payload.length + 4)
    (hp : payload.length ≤ maxPayloadLength) (i j : Nat) (hij : i < j)
    (hbits : ∀ p, bitAt mask p = (decide (p = i) || decide (p = j))) :
    accepts (xorBytes (payload ++ writePayloadCrc payload) mask) = false := by
  apply accepts_corrupt payload mask hlen
  have hj : j < 8 * mask.length := bitAt_lt mask j (by rw [hbits]; simp)
  rw [maxPayloadLength] at hp
  exact mask_two mask i j hij hbits (crc32_period (j - i) (by omega) (by omega))

/-- (2d) the decoder: for a header that announces the length of the bytes that were sent, payload+CRC-32 altered by a
detectable pattern (`Crc32Detectable`: nonzero within 32 consecutive bits — in particular a single bit — or exactly
two bits) is rejected by `decodeSegmentPayload`; nothing is returned (and nothing is decompressed) -/
theorem payload_corruption_rejected (c : Option PayloadCompressor) (h : Header) (payload mask rest : Bytes)
    (hh : payloadWireLength c h = payload.length) (hp : payload.length ≤ maxPayloadLength)
    (hlen : mask.length = payload.length + 4) (hm : Crc32Detectable mask) :
    (decodeSegmentPayload c h).run (xorBytes (payload ++ writePayloadCrc payload) mask ++ rest)
      = .err "crc mismatch on payload" := by
  rw [maxPayloadLength] at hp
  exact payload_reject_generic 1048832 crc32_period c h payload mask rest hh hlen (by omega) hm

/-- (2d) … and so is the whole segment, when its header bytes `hb` decode (to the header `h`) -/
theorem segment_payload_corruption_rejected (c : Option PayloadCompressor) (h : Header)
    (hb payload mask rest : Bytes)
    (hhdr : ∀ r, (decodeSegmentHeader c).run (hb ++ r) = .ok (h, r))
    (hh : payloadWireLength c h = payload.length) (hp : payload.length ≤ maxPayloadLength)
    (hlen : mask.length = payload.length + 4) (hm : Crc32Detectable mask) :
    (decodeSegment c).run (hb ++ (xorBytes (payload ++ writePayloadCrc payload) mask ++ rest))
      = .err "crc mismatch on payload" := by
  rw [decodeSegment, bind_ok (hhdr _)]
  exact bind_err (payload_corruption_rejected c h payload mask rest hh hp hlen hm) _

/-! ## Non-vacuity: a concrete segment (`EncodeSegment(nil, selfContained, {1,2,3})`) and single flipped bits -/

example : encodeSegment none true [1, 2, 3] = .ok [3, 0, 2, 66, 150, 124, 1, 2, 3, 215, 187, 174, 165] := by decide +kernel

-- unaltered: accepted
example : (decodeSegment none).run [3, 0, 2, 66, 150, 124, 1, 2, 3, 215, 187, 174, 165]
    = .ok ({ header := { isSelfContained := true, uncompressedPayloadLength := 3, compressedPayloadLength := 0,
                         crc24 := 8164930 },
             payload := [1, 2, 3], crc32 := 2779691991 }, []) := by decide +kernel

-- lowest bit of the length flipped (3 → 2)
example : (decodeSegment none).run [2, 0, 2, 66, 150, 124, 1, 2, 3, 215, 187, 174, 165]
    = .err "crc mismatch on header" := by decide +kernel

-- a bit of the CRC-24 flipped
example : (decodeSegment none).run [3, 0, 2, 66, 150, 125, 1, 2, 3, 215, 187, 174, 165]
    = .err "crc mismatch on header" := by decide +kernel

-- a payload bit flipped
example : (decodeSegment none).run [3, 0, 2, 66, 150, 124, 1, 6, 3, 215, 187, 174, 165]
    = .err "crc mismatch on payload" := by decide +kernel

-- a bit of the CRC-32 flipped
example : (decodeSegment none).run [3, 0, 2, 66, 150, 124, 1, 2, 3, 215, 187, 174, 164]
    = .err "crc mismatch on payload" := by decide +kernel

-- the hypotheses of the theorems are satisfiable: the header theorem on this segment's header data (3 | 1<<17),
-- two flipped bits …
example (rest : Bytes) : (decodeSegmentHeader none).run
      (xorBytes (writeHeaderDataAndCrc 131075 (headerLength none)) [0, 4, 0, 0, 0, 1] ++ rest)
    = .err "crc mismatch on header" :=
  header_bitflips_rejected none 131075 (by decide +kernel) [0, 4, 0, 0, 0, 1] rest (by decide +kernel)
    (by decide +kernel) (by decide +kernel)

-- … and the payload theorem with a two-bit mask (bits 10 and 50) on payload [1,2,3] + CRC-32
example : accepts (xorBytes ([1, 2, 3] ++ writePayloadCrc [1, 2, 3]) [0, 4, 0, 0, 0, 0, 4]) = false := by
  apply payload_two_bits_rejected [1, 2, 3] [0, 4, 0, 0, 0, 0, 4] rfl (by decide +kernel) 10 50 (by decide)
  intro p
  by_cases hp : p < 56
  · revert p; decide +kernel
  · have h1 : bitAt [0, 4, 0, 0, 0, 0, 4] p = false := by
      cases hb : bitAt [0, 4, 0, 0, 0, 0, 4] p with
      | false => rfl
      | true => exact absurd (bitAt_lt _ p hb) hp
    rw [h1, decide_eq_false (by omega), decide_eq_false (by omega)]; rfl

-- … and the decoder-level payload theorem: header announcing 3 payload bytes, bit 10 (byte 1, bit 2) flipped
example (rest : Bytes) :
    (decodeSegmentPayload none { isSelfContained := true, uncompressedPayloadLength := 3, compressedPayloadLength := 0,
                                 crc24 := 8164930 }).run
      (xorBytes ([1, 2, 3] ++ writePayloadCrc [1, 2, 3]) [0, 4, 0, 0, 0, 0, 0] ++ rest)
    = .err "crc mismatch on payload" := by
  apply payload_corruption_rejected none _ [1, 2, 3] [0, 4, 0, 0, 0, 0, 0] rest (by decide +kernel) (by decide +kernel)
    (by decide +kernel)
  refine Or.inl ⟨10, 10, by decide +kernel, ?_⟩
  intro p hp
  have hlt := bitAt_lt _ p hp
  have key : ∀ p, p < 56 → bitAt [0, 4, 0, 0, 0, 0, 0] p = true → 10 ≤ p ∧ p < 10 + 32 := by decide +kernel
  exact key p hlt hp

/-- **The CRC code is the code the theorems are about.** The parameters and the shape of the Go functions, regenerated from
    crc/crc24.go, crc/crc32.go and segment/*.go on every run: initial value and polynomial of the CRC-24, the integer literals
    and the operators of `ChecksumKoopman` in source order (loop bounds, shifts by 16 / 8 / 1, the 2^24 mask), the CRC-32 seed
    bytes, the header and trailer lengths. A rewrite of the CRC (another polynomial, a table-driven version, a changed mask)
    changes these facts and this theorem stops checking. -/
theorem C07_crc_code_is_the_modelled_one :
    Cql.Gen.CrcFacts.crc_crc24Init = crc24Init.toNat ∧
    Cql.Gen.CrcFacts.crc_crc24Poly = crc24Poly.toNat ∧
    Cql.Gen.CrcFacts.koopmanLiterals = [0, 16, 8, 0, 8, 1, 16777216, 0] ∧
    Cql.Gen.CrcFacts.koopmanOperators = ["<", "^=", "<<", ">>=", "<", "<<=", "!=", "&", "^="] ∧
    Cql.Gen.CrcFacts.crc32InitialBytes = Cql.Crc.initialBytes ∧
    Cql.Gen.CrcFacts.segment_Crc24Length = 3 ∧ Cql.Gen.CrcFacts.segment_Crc32Length = 4 ∧
    Cql.Gen.CrcFacts.segment_UncompressedHeaderLength = 3 ∧ Cql.Gen.CrcFacts.segment_CompressedHeaderLength = 5 := by
  decide

end Cql.Props.C07

/-! ## Axioms (`#print axioms`, Lean 4.33.0; also printed by `Audit/C07.lean`)

In this Lean version `native_decide` does not cite `Lean.ofReduceBool` directly: each use adds one axiom named after
the theorem, stating exactly the evaluated proposition:
`Cql.Crc.Detect.crc24_weight_core_3._native.native_decide.ax_1_1 :
   decide (walk (synList 3 24) 0 0#32 = true) = true` and
`Cql.Crc.Detect.crc24_weight_core_5._native.native_decide.ax_1_1 :
   decide (walk (synList 5 40) 0 0#32 = true) = true`
(abbreviated `core_3.ax`, `core_5.ax` below). No other theorem uses `native_decide`.

* `crc24_linear`, `crc24_of_flipped_data`, `crc32Bit_linear`, `crc32Bit_injective`: `propext`, `Quot.sound`
* `crc24_distance_3`: `propext`, `Quot.sound`, `core_3.ax`
* `crc24_distance_5`: `propext`, `Quot.sound`, `core_5.ax`
* `header_bitflips_rejected`, `segment_header_bitflips_rejected`, `encoded_segment_header_bitflips_rejected`:
  `propext`, `Classical.choice`, `Quot.sound`, `core_3.ax`, `core_5.ax`
* `crc32Raw_difference`, `crc32_no_short_period`, `payload_burst_rejected`, `payload_single_bit_rejected`,
  `payload_two_bits_rejected`, `payload_corruption_rejected`, `segment_payload_corruption_rejected`:
  `propext`, `Classical.choice`, `Quot.sound`
* helper theorems: `Cql.Crc.Detect.crc32_period_chunk_<i>` (i = 0..7, `decide +kernel`): `propext`;
  `Cql.Crc.Detect.crc32_period`: `propext`, `Classical.choice`, `Quot.sound`
-/
