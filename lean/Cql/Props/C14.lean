import Cql.Value
import Cql.Spec.Value
import Cql.Lemmas.ValueRT
import Cql.Props.C11
/-!
# C14 — NULL handling of the value codecs

`none` on the value side is a nil source / `wasNull`; `none` on the byte side is `[]byte(nil)` (the `[bytes]` of
length -1 once framed). An EMPTY non-nil byte string is something else, and the codecs treat it per type.
-/
namespace Cql.Props.C14
open Cql Cql.Prim Cql.Value Cql.Spec Cql.Gen

/-- a nil source encodes to NULL, for every constructible codec and every version -/
theorem C14_encode_null (version : Nat) (t : DataType) (hs : Supported t = true) : encode version t none = .ok none :=
  encode_none version t hs

/-- NULL decodes to `wasNull`, for every constructible codec and every version -/
theorem C14_decode_null (version : Nat) (t : DataType) (hs : Supported t = true) : decode version t none = .ok none :=
  decode_none version t hs

/-- an EMPTY non-nil byte string decodes to NULL for every type except those handled by the string and blob codecs
    (ascii, varchar, blob, custom), where it is the empty string / empty blob. (The specification, §5 preamble, says an
    empty value "is distinct from NULL": for the other types the Go decoders do not keep that distinction.) -/
theorem C14_decode_empty (version : Nat) (t : DataType) (hs : Supported t = true) :
    decode version t (some []) = if emptyIsValue t then .ok (some (.bytes [])) else .ok none :=
  decode_empty version t hs

theorem C14_emptyIsValue_cases :
    emptyIsValue (.prim DataTypeCodeAscii) = true ∧ emptyIsValue (.prim DataTypeCodeVarchar) = true ∧
    emptyIsValue (.prim DataTypeCodeBlob) = true ∧ emptyIsValue (.custom []) = true ∧
    emptyIsValue (.prim DataTypeCodeInt) = false ∧ emptyIsValue (.prim DataTypeCodeVarint) = false ∧
    emptyIsValue (.prim DataTypeCodeUuid) = false ∧ emptyIsValue (.prim DataTypeCodeInet) = false ∧
    emptyIsValue (.list (.prim DataTypeCodeBlob)) = false ∧ emptyIsValue (.tuple [.prim DataTypeCodeBlob]) = false := by
  decide

/-- v3+: a null element at ANY position of a list / set survives the round trip -/
theorem C14_null_list_element (version : Nat) (h4 : fourByte version = true) (e : DataType) (hs : Supported e = true)
    (pre post : List (Option CqlVal)) (hc : CountOk version (pre ++ none :: post).length)
    (hpre : ∀ o ∈ pre, ElemOk version (HasType version e) (serialize version e) o)
    (hpost : ∀ o ∈ post, ElemOk version (HasType version e) (serialize version e) o) :
    (encode version (.list e) (some (.list (pre ++ none :: post))) >>= decode version (.list e)) =
      .ok (some (.list (pre ++ none :: post))) ∧
    (encode version (.set e) (some (.list (pre ++ none :: post))) >>= decode version (.set e)) =
      .ok (some (.list (pre ++ none :: post))) := by
  have hall : ∀ o ∈ pre ++ none :: post, ElemOk version (HasType version e) (serialize version e) o := by
    intro o ho
    rcases List.mem_append.mp ho with h | h
    · exact hpre o h
    · rcases List.mem_cons.mp h with rfl | h
      · exact h4
      · exact hpost o h
  constructor
  · exact C11.C11_roundtrip version (.list e) _ (by rw [Supported]; exact hs) (by rw [HasType]; exact ⟨hc, hall⟩)
  · exact C11.C11_roundtrip version (.set e) _ (by rw [Supported]; exact hs) (by rw [HasType]; exact ⟨hc, hall⟩)

/-- v3+: a null map value (and even a null key) at any position survives the round trip -/
theorem C14_null_map_value (version : Nat) (h4 : fourByte version = true) (k v : DataType) (hk : Supported k = true)
    (hv : Supported v = true) (pre post : List (Option CqlVal × Option CqlVal)) (key : Option CqlVal)
    (hc : CountOk version (pre ++ (key, none) :: post).length)
    (hkey : ElemOk version (HasType version k) (serialize version k) key)
    (hrest : ∀ p ∈ pre ++ post, ElemOk version (HasType version k) (serialize version k) p.1 ∧
      ElemOk version (HasType version v) (serialize version v) p.2) :
    (encode version (.map k v) (some (.map (pre ++ (key, none) :: post))) >>= decode version (.map k v)) =
      .ok (some (.map (pre ++ (key, none) :: post))) := by
  apply C11.C11_roundtrip version (.map k v) _ (by rw [Supported, hk, hv]; rfl)
  rw [HasType]
  refine ⟨hc, fun p hp => ?_⟩
  rcases List.mem_append.mp hp with h | h
  · exact hrest p (List.mem_append.mpr (Or.inl h))
  · rcases List.mem_cons.mp h with rfl | h
    · exact ⟨hkey, h4⟩
    · exact hrest p (List.mem_append.mpr (Or.inr h))

/-- every version: a null tuple / UDT field at any position survives the round trip (fields are always `[bytes]`) -/
theorem C14_null_field (version : Nat) (ts : List DataType) (fs : List (Option CqlVal)) (hs : SupportedList ts = true)
    (hne : ts ≠ []) (hf : HasFields version ts fs) (names : List Bytes) (hn : names.length = ts.length) (ks nm : Bytes) :
    (encode version (.tuple ts) (some (.tuple fs)) >>= decode version (.tuple ts)) = .ok (some (.tuple fs)) ∧
    (encode version (.udt ks nm names ts) (some (.udt fs)) >>= decode version (.udt ks nm names ts)) =
      .ok (some (.udt fs)) :=
  ⟨C11.C11_roundtrip version (.tuple ts) _ (by rw [Supported]; exact hs) (by rw [HasType]; exact ⟨hne, hf⟩),
   C11.C11_roundtrip version (.udt ks nm names ts) _ (by rw [Supported]; exact hs)
     (by rw [HasType]; exact ⟨hne, hn, hf⟩)⟩

/-- `HasFields` puts no condition on a null field: `none` is admitted at every position -/
theorem C14_null_field_admitted (version : Nat) (t : DataType) (ts : List DataType) (fs : List (Option CqlVal))
    (h : HasFields version ts fs) : HasFields version (t :: ts) (none :: fs) := by
  rw [HasFields]; exact ⟨trivial, h⟩

/-- v2 (`Uses4BytesCollectionLength() == false`): a list / set containing a null element is refused by `Encode`
    (`collectionElementNil`) -/
theorem C14_v2_null_element_refused (version : Nat) (h2 : fourByte version = false) (e : DataType)
    (hs : Supported e = true) (xs : List (Option CqlVal)) (hnull : none ∈ xs) (b : Option Bytes) :
    encode version (.list e) (some (.list xs)) ≠ .ok b ∧ encode version (.set e) (some (.list xs)) ≠ .ok b :=
  encode_list_null_v2 version e hs h2 xs hnull b

/-- v2: a map with a null key or a null value is refused by `Encode` (`errNilMapKey` / `errNilMapValue`) -/
theorem C14_v2_null_map_entry_refused (version : Nat) (h2 : fourByte version = false) (k v : DataType)
    (hk : Supported k = true) (hv : Supported v = true) (es : List (Option CqlVal × Option CqlVal))
    (hnull : ∃ p ∈ es, p.1 = none ∨ p.2 = none) (b : Option Bytes) :
    encode version (.map k v) (some (.map es)) ≠ .ok b :=
  encode_map_null_v2 version k v hk hv h2 es hnull b

/-- `Uses4BytesCollectionLength` of the Go code is the specification's v2 / v3+ split -/
theorem C14_uses4 (version : Nat) : uses4 version = fourByte version := uses4_eq version

/-! ## non-vacuity -/

-- the exact error, v2
example : encode 2 (.list (.prim DataTypeCodeInt)) (some (.list [some (.int 1), none])) =
    .err "collection element is nil" := by decide
-- the same value, v3: encoded with length -1 for the null element
example : encode 3 (.list (.prim DataTypeCodeInt)) (some (.list [some (.int 1), none])) =
    .ok (some [0, 0, 0, 2, 0, 0, 0, 4, 0, 0, 0, 1, 0xFF, 0xFF, 0xFF, 0xFF]) := by decide
-- a zero-length element of a non-string type decodes as a null element (and is re-encoded with length -1)
example : decode 3 (.list (.prim DataTypeCodeInt)) (some [0, 0, 0, 1, 0, 0, 0, 0]) = .ok (some (.list [none])) := rfl
-- … but as the empty string for varchar
example : decode 3 (.list (.prim DataTypeCodeVarchar)) (some [0, 0, 0, 1, 0, 0, 0, 0]) =
    .ok (some (.list [some (.bytes [])])) := rfl
-- an empty list is not NULL: it has a count
example : encode 3 (.list (.prim DataTypeCodeInt)) (some (.list [])) = .ok (some [0, 0, 0, 0]) := by decide
example : decode 3 (.list (.prim DataTypeCodeInt)) (some [0, 0, 0, 0]) = .ok (some (.list [])) := rfl
example : decode 3 (.list (.prim DataTypeCodeInt)) (some []) = .ok none := rfl

end Cql.Props.C14
