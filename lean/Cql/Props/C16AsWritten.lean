import Cql.Props.C16Close
import Cql.Gen.ConnFacts
import Cql.Gen.TimerFacts
/-!
# C16: the `Send`/`Close` micro-step theorems, stated for the locking order found in the source

`Cql/Props/C16Close.lean` proves that no `Send` can hit a closed channel when the closed flag is looked at and the channel is
used under ONE hold of the read lock, and `Close` sets the flag first and closes the channels under the write lock. Whether the
code does that is read off `client/client.go` and `client/server.go` on every run (`Cql/Gen/ConnFacts.lean`: the order of
`RLock`, `IsClosed`, the channel send and `RUnlock` in `Send`/`SendRaw`; of `setClosed`, `Lock`, `close(chan)`, `Unlock` and
`waitGroup.Wait` in `Close`). A `Send` that looks at the flag before taking the lock is the model with `locked = false`, for
which `C16_original_send_could_panic` exhibits the panic.
-/
namespace Cql.Props.C16AsWritten
open Cql.CloseMicro Cql.Props.C16Close

/-- the locking order of the three senders and the two closers, as found in the source -/
theorem C16_locking_order_as_written :
    Gen.ConnFacts.clientSendLocked = true ∧ Gen.ConnFacts.serverSendLocked = true ∧ Gen.ConnFacts.serverSendRawLocked = true ∧
    Gen.ConnFacts.clientCloseSetsFlagBeforeLocking = true ∧ Gen.ConnFacts.serverCloseSetsFlagBeforeLocking = true ∧
    Gen.ConnFacts.clientCloseClosesChannelsUnderWriteLock = true ∧ Gen.ConnFacts.serverCloseClosesChannelsUnderWriteLock = true := by
  decide

/-- `Close` gives the write lock back before it waits for the connection's goroutines (a reader goroutine that needs the read
    lock to deliver an event could otherwise never finish, and `Close` never return). The micro-step model has no notion of
    waiting; this is the fact itself, re-checked against the source. -/
theorem C16_close_unlocks_before_waiting_as_written :
    Gen.ConnFacts.clientCloseUnlocksBeforeWaiting = true ∧ Gen.ConnFacts.serverCloseUnlocksBeforeWaiting = true := by decide

/-- no `Send` of the client connection reaches "send on closed channel", under every interleaving with `Close` -/
theorem C16_client_send_never_panics_as_written (n : Nat) (schedule : List Ev) :
    SPc.panicked ∉ (run Gen.ConnFacts.clientSendLocked { senders := List.replicate n .idle } schedule).senders := by
  rw [C16_locking_order_as_written.1]; exact C16_send_never_panics n schedule

theorem C16_server_send_never_panics_as_written (n : Nat) (schedule : List Ev) :
    SPc.panicked ∉ (run Gen.ConnFacts.serverSendLocked { senders := List.replicate n .idle } schedule).senders := by
  rw [C16_locking_order_as_written.2.1]; exact C16_send_never_panics n schedule

theorem C16_server_sendraw_never_panics_as_written (n : Nat) (schedule : List Ev) :
    SPc.panicked ∉ (run Gen.ConnFacts.serverSendRawLocked { senders := List.replicate n .idle } schedule).senders := by
  rw [C16_locking_order_as_written.2.2.1]; exact C16_send_never_panics n schedule

/-- **The read timeout as written** is the one of the timed model `Cql/Timer.lean` (whose theorems are `Cql/Props/C16.lean`):
    every non-final page restarts the clock — `resetTimeout` is exactly "stop, then start", with no condition, and is what the
    non-final branch of `onFrameReceived` calls; the final page stops the clock and completes the request; the timer runs the full
    read timeout; and its goroutine fails the request only when the deadline has passed, not when the timer was cancelled by a
    restart. Regenerated from `client/inflight.go` on every run (`Cql/Gen/TimerFacts.lean`). -/
theorem C16_read_timeout_as_written :
    Gen.TimerFacts.resetStopsThenStartsUnconditionally = true ∧ Gen.TimerFacts.everyPageRestartsTheClock = true ∧
    Gen.TimerFacts.lastPageStopsTheClockAndCompletes = true ∧ Gen.TimerFacts.timerRunsTheFullReadTimeout = true ∧
    Gen.TimerFacts.timerFailsTheRequestOnlyWhenTheDeadlinePassed = true := by decide

end Cql.Props.C16AsWritten
