import Cql.CloseMicro
/-!
# C16 — `Send` never panics, whatever `Close` does concurrently (every interleaving of their atomic steps)
-/
namespace Cql.Props.C16Close
open Cql.CloseMicro

/-- a sender between acquiring and releasing the read lock -/
def holding : SPc → Bool
  | .holdsR | .checkedOpen => true
  | _ => false

/-- the lock discipline and what it protects -/
structure Inv (s : St) : Prop where
  /-- the channel is closed only after the flag was set -/
  flag : s.chanClosed = true → s.closedFlag = true
  /-- the number of read-lock holders is the number of senders between acquire and release -/
  readers : s.readers = (s.senders.filter holding).length
  /-- while the write lock is held nobody holds the read lock -/
  excl : s.writer = true → s.readers = 0
  /-- the closer holds the write lock exactly in its critical section -/
  writer : s.writer = true ↔ (s.closer = .holdsW ∨ s.closer = .chanClosed)
  /-- the closer's progress and the two flags -/
  closerFlag : s.closer ≠ .idle → s.closedFlag = true
  chanOpen : (s.closer = .idle ∨ s.closer = .flagSet ∨ s.closer = .holdsW) → s.chanClosed = false
  /-- a sender that saw the flag clear still holds the read lock, so the channel cannot have been closed since -/
  checked : SPc.checkedOpen ∈ s.senders → s.chanClosed = false
  /-- nobody has panicked -/
  noPanic : SPc.panicked ∉ s.senders

theorem filter_set_length {α} (l : List α) (p : α → Bool) (i : Nat) (a b : α) (h : l[i]? = some a) :
    ((l.set i b).filter p).length + (if p a then 1 else 0) = (l.filter p).length + (if p b then 1 else 0) := by
  induction l generalizing i with
  | nil => simp at h
  | cons x xs ih =>
    cases i with
    | zero =>
      simp only [List.getElem?_cons_zero, Option.some.injEq] at h
      subst h
      simp only [List.set_cons_zero, List.filter_cons]
      cases p x <;> cases p b <;> simp <;> omega
    | succ i =>
      simp only [List.getElem?_cons_succ] at h
      have := ih i h
      simp only [List.set_cons_succ, List.filter_cons]
      cases p x <;> simp <;> omega

theorem set_same {α} (l : List α) (i : Nat) (a : α) (h : l[i]? = some a) : l.set i a = l := by
  induction l generalizing i with
  | nil => rfl
  | cons x xs ih =>
    cases i with
    | zero => simp only [List.getElem?_cons_zero, Option.some.injEq] at h; subst h; rfl
    | succ i => simp only [List.getElem?_cons_succ] at h; simp only [List.set_cons_succ, ih i h]

theorem holding_pos {s : St} (hi : Inv s) {pc : SPc} (hm : pc ∈ s.senders) (hh : holding pc = true) : 0 < s.readers := by
  rw [hi.readers]; exact List.length_pos_of_mem (List.mem_filter.mpr ⟨hm, hh⟩)

theorem no_writer_of_holding {s : St} (hi : Inv s) {pc : SPc} (hm : pc ∈ s.senders) (hh : holding pc = true) : s.writer = false := by
  cases h : s.writer with
  | false => rfl
  | true => have := hi.excl h; have := holding_pos hi hm hh; omega

theorem no_checked_of_writer {s : St} (hi : Inv s) (hw : s.writer = true) : SPc.checkedOpen ∉ s.senders := by
  intro hm
  have := holding_pos hi hm rfl
  have := hi.excl hw
  omega

/-- the closer's steps -/
theorem closer_inv (s : St) (hi : Inv s) : Inv (closerStep true s) := by
  simp only [closerStep]
  cases hc : s.closer with
  | idle =>
    simp only
    have hw : s.writer = false := by
      cases h : s.writer with
      | false => rfl
      | true => have := hi.writer.mp h; simp [hc] at this
    exact { flag := fun _ => rfl, readers := hi.readers, excl := fun h => (by simp [hw] at h),
            writer := (by simp [hw]), closerFlag := fun _ => rfl,
            chanOpen := fun _ => hi.chanOpen (Or.inl hc), checked := fun _ => hi.chanOpen (Or.inl hc),
            noPanic := hi.noPanic }
  | flagSet =>
    simp only [if_true]
    split
    · rename_i h
      exact { flag := hi.flag, readers := hi.readers, excl := fun _ => h.1, writer := (by simp),
              closerFlag := fun _ => hi.closerFlag (by simp [hc]),
              chanOpen := fun _ => hi.chanOpen (Or.inr (Or.inl hc)),
              checked := fun _ => hi.chanOpen (Or.inr (Or.inl hc)), noPanic := hi.noPanic }
    · exact hi
  | holdsW =>
    simp only
    have hw : s.writer = true := hi.writer.mpr (Or.inl hc)
    exact { flag := fun _ => hi.closerFlag (by simp [hc]), readers := hi.readers, excl := fun _ => hi.excl hw,
            writer := (by simp [hw]), closerFlag := fun _ => hi.closerFlag (by simp [hc]),
            chanOpen := fun h => (by simp at h), checked := fun h => absurd h (no_checked_of_writer (s := s) hi hw),
            noPanic := hi.noPanic }
  | chanClosed =>
    simp only
    have hw : s.writer = true := hi.writer.mpr (Or.inr hc)
    exact { flag := hi.flag, readers := hi.readers, excl := fun h => (by simp at h), writer := (by simp),
            closerFlag := fun _ => hi.closerFlag (by simp [hc]), chanOpen := fun h => (by simp at h),
            checked := fun h => absurd h (no_checked_of_writer (s := s) hi hw), noPanic := hi.noPanic }
  | finished => exact hi

/-- a sender's steps -/
theorem sender_inv (s : St) (hi : Inv s) (i : Nat) (pc : SPc) (hs : s.senders[i]? = some pc) :
    Inv { (senderStep true s pc).1 with senders := (senderStep true s pc).1.senders.set i (senderStep true s pc).2 } := by
  have hmem : pc ∈ s.senders := List.mem_of_getElem? hs
  have key := fun b => filter_set_length s.senders holding i pc b hs
  have memset : ∀ {b x : SPc}, x ∈ s.senders.set i b → x ∈ s.senders ∨ x = b := fun h => List.mem_or_eq_of_mem_set h
  cases pc with
  | idle =>
    simp only [senderStep, if_true]
    cases hw : s.writer with
    | true =>
      simp only [if_true]
      rw [set_same _ _ _ hs]; exact hi
    | false =>
      simp only [Bool.false_eq_true, if_false]
      have k := key .holdsR
      simp only [holding, Bool.false_eq_true, if_false, if_true, Nat.add_zero] at k
      exact { flag := hi.flag,
              readers := (by show s.readers + 1 = (List.filter holding (s.senders.set i .holdsR)).length; rw [hi.readers]; omega),
              excl := fun h => (by simp [hw] at h), writer := (by simpa [hw] using hi.writer),
              closerFlag := hi.closerFlag, chanOpen := hi.chanOpen,
              checked := fun h => (by
                rcases memset h with h | h
                · exact hi.checked h
                · cases h),
              noPanic := fun h => (by
                rcases memset h with h | h
                · exact hi.noPanic h
                · cases h) }
  | holdsR =>
    simp only [senderStep, if_true]
    have hpos := holding_pos hi hmem rfl
    have hw := no_writer_of_holding hi hmem rfl
    cases hf : s.closedFlag with
    | true =>
      simp only [if_true]
      have k := key .refused
      simp only [holding, Bool.false_eq_true, if_false, if_true, Nat.add_zero] at k
      exact { flag := fun _ => rfl,
              readers := (by show s.readers - 1 = (List.filter holding (s.senders.set i .refused)).length; rw [hi.readers]; omega),
              excl := fun h => (by simp [hw] at h), writer := (by simpa [hw] using hi.writer),
              closerFlag := fun _ => rfl, chanOpen := hi.chanOpen,
              checked := fun h => (by
                rcases memset h with h | h
                · exact hi.checked h
                · cases h),
              noPanic := fun h => (by
                rcases memset h with h | h
                · exact hi.noPanic h
                · cases h) }
    | false =>
      simp only [Bool.false_eq_true, if_false]
      have k := key .checkedOpen
      simp only [holding, if_true] at k
      -- the flag is clear, so the closer has not started, so the channel is open
      have hidle : s.closer = .idle := by
        cases hc : s.closer with
        | idle => rfl
        | flagSet => have := hi.closerFlag (by simp [hc]); simp [hf] at this
        | holdsW => have := hi.closerFlag (by simp [hc]); simp [hf] at this
        | chanClosed => have := hi.closerFlag (by simp [hc]); simp [hf] at this
        | finished => have := hi.closerFlag (by simp [hc]); simp [hf] at this
      exact { flag := fun h => (by have := hi.flag h; simp [hf] at this),
              readers := (by show s.readers = (List.filter holding (s.senders.set i .checkedOpen)).length; rw [hi.readers]; omega),
              excl := hi.excl, writer := hi.writer,
              closerFlag := fun h => (by have := hi.closerFlag h; simp [hf] at this), chanOpen := hi.chanOpen,
              checked := fun _ => hi.chanOpen (Or.inl hidle),
              noPanic := fun h => (by
                rcases memset h with h | h
                · exact hi.noPanic h
                · cases h) }
  | checkedOpen =>
    simp only [senderStep, if_true]
    have hopen := hi.checked hmem
    rw [hopen]
    simp only [Bool.false_eq_true, if_false]
    have k := key .sent
    simp only [holding, Bool.false_eq_true, if_false, if_true, Nat.add_zero] at k
    have hpos := holding_pos hi hmem rfl
    have hw := no_writer_of_holding hi hmem rfl
    exact { flag := fun h => (by simp [hopen] at h),
            readers := (by show s.readers - 1 = (List.filter holding (s.senders.set i .sent)).length; rw [hi.readers]; omega),
            excl := fun h => (by simp [hw] at h), writer := (by simpa [hw] using hi.writer),
            closerFlag := hi.closerFlag, chanOpen := fun _ => rfl,
            checked := fun _ => rfl,
            noPanic := fun h => (by
              rcases memset h with h | h
              · exact hi.noPanic h
              · cases h) }
  | refused => simp only [senderStep]; rw [set_same _ _ _ hs]; exact hi
  | sent => simp only [senderStep]; rw [set_same _ _ _ hs]; exact hi
  | panicked => simp only [senderStep]; rw [set_same _ _ _ hs]; exact hi

/-- **Invariant (repaired code).** Preserved by every atomic step of every goroutine. -/
theorem step_inv (s : St) (e : Ev) (hi : Inv s) : Inv (step true s e) := by
  cases e with
  | closer => exact closer_inv s hi
  | sender i =>
    simp only [step]
    cases hs : s.senders[i]? with
    | none => exact hi
    | some pc => exact sender_inv s hi i pc hs

theorem init_inv (n : Nat) : Inv { senders := List.replicate n .idle } :=
  { flag := fun h => (by simp at h), readers := (by simp [List.filter_replicate, holding]), excl := fun h => (by simp at h),
    writer := (by simp), closerFlag := fun h => (by simp at h), chanOpen := fun _ => rfl, checked := fun _ => rfl,
    noPanic := fun h => (by have := List.eq_of_mem_replicate h; cases this) }

/-- **C16 (no panic on send, repaired code).** With any number of goroutines calling `Send` while `Close` runs, under EVERY
    interleaving of their atomic steps, no sender ever reaches "send on closed channel": each is either refused with an
    error or its frame is enqueued on the still-open channel. -/
theorem C16_send_never_panics (n : Nat) (schedule : List Ev) :
    SPc.panicked ∉ (run true { senders := List.replicate n .idle } schedule).senders := by
  have h0 := init_inv n
  generalize ({ senders := List.replicate n .idle } : St) = s at h0
  induction schedule generalizing s with
  | nil => exact h0.noPanic
  | cons e es ih => exact ih (step true s e) (step_inv s e h0)

/-- **The original code could panic** (the defect repaired by 1d582a2): check the flag, `Close` runs to completion, send. -/
theorem C16_original_send_could_panic :
    (run false { senders := [.idle] } [.sender 0, .sender 0, .closer, .closer, .closer, .sender 0]).senders = [.panicked] := by
  decide

/-- the same schedule under the lock: `Close` cannot close the channel while the sender holds the read lock -/
example :
    (run true { senders := [.idle] } [.sender 0, .sender 0, .closer, .closer, .closer, .sender 0]).senders = [.sent] := by
  decide

end Cql.Props.C16Close
