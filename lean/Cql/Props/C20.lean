import Cql.Gen.Accessors
/-!
# C20 — frame mutators keep flags and body in step; STARTUP option accessors are consistent

All functions named `Cql.Gen.Startup_*`, `Cql.Gen.Frame_*`, `Cql.Gen.isCompressible`, `Cql.Gen.HeaderFlag_*` are regenerated
from `message/startup.go`, `frame/frame.go` and `primitive/constants.go` on every run.
-/
namespace Cql.Props.C20
open Cql Cql.Gen

/-! ## STARTUP option accessors -/

inductive Opt where
  | compression | clientId | appName | appVersion | driverName | driverVersion | throwOnOverload
  deriving DecidableEq, Repr

inductive Val where
  | s (b : Bytes)
  | b (x : Bool)
  deriving DecidableEq, Repr

/-- the value kind each accessor pair takes -/
def kindOk : Opt → Val → Bool
  | .throwOnOverload, .b _ => true
  | .throwOnOverload, .s _ => false
  | _, .s _ => true
  | _, .b _ => false

def keyOf : Opt → Bytes
  | .compression => StartupOptionCompression
  | .clientId => StartupOptionClientId
  | .appName => StartupOptionApplicationName
  | .appVersion => StartupOptionApplicationVersion
  | .driverName => StartupOptionDriverName
  | .driverVersion => StartupOptionDriverVersion
  | .throwOnOverload => StartupOptionThrowOnOverload

def setOpt (o : Opt) (m : OptMap) (a : Val) : OptMap :=
  match o, a with
  | .compression, .s x => Startup_SetCompression m x
  | .clientId, .s x => Startup_SetClientId m x
  | .appName, .s x => Startup_SetApplicationName m x
  | .appVersion, .s x => Startup_SetApplicationVersion m x
  | .driverName, .s x => Startup_SetDriverName m x
  | .driverVersion, .s x => Startup_SetDriverVersion m x
  | .throwOnOverload, .b x => Startup_SetThrowOnOverload m x
  | _, _ => m

def getOpt (o : Opt) (m : OptMap) : Val :=
  match o with
  | .compression => .s (Startup_GetCompression m)
  | .clientId => .s (Startup_GetClientId m)
  | .appName => .s (Startup_GetApplicationName m)
  | .appVersion => .s (Startup_GetApplicationVersion m)
  | .driverName => .s (Startup_GetDriverName m)
  | .driverVersion => .s (Startup_GetDriverVersion m)
  | .throwOnOverload => .b (Startup_IsThrowOnOverload m)

theorem keys_distinct : ∀ o o' : Opt, o ≠ o' → keyOf o ≠ keyOf o' := by
  intro o o' h; cases o <;> cases o' <;> first | (exact absurd rfl h) | decide

/-- a setter touches no key but its own (in particular never CQL_VERSION or another option's key) -/
theorem C20_setter_frame (o : Opt) (m : OptMap) (a : Val) (k : Bytes) (hk : k ≠ keyOf o) :
    (setOpt o m a) k = m k := by
  cases o <;> cases a <;>
    simp only [setOpt, keyOf, Startup_SetCompression, Startup_SetClientId, Startup_SetApplicationName,
      Startup_SetApplicationVersion, Startup_SetDriverName, Startup_SetDriverVersion, Startup_SetThrowOnOverload] at * <;>
    first
      | rfl
      | (split <;> simp [OptMap.set, OptMap.del, hk])
      | simp [OptMap.set, OptMap.del, hk]

/-- a getter reads no key but its own -/
theorem getter_frame (o : Opt) (m m' : OptMap) (h : m' (keyOf o) = m (keyOf o)) : getOpt o m' = getOpt o m := by
  cases o <;>
    simp only [getOpt, keyOf, Startup_GetCompression, Startup_GetClientId, Startup_GetApplicationName,
      Startup_GetApplicationVersion, Startup_GetDriverName, Startup_GetDriverVersion, Startup_IsThrowOnOverload] at * <;>
    rw [h]

/-- what a setter stores is what the matching getter returns -/
theorem C20_get_set (o : Opt) (m : OptMap) (a : Val) (hk : kindOk o a = true) : getOpt o (setOpt o m a) = a := by
  cases o <;> cases a <;> simp only [kindOk] at hk <;> try (exact absurd hk (by decide))
  case compression.s x =>
    simp only [setOpt, getOpt, Startup_SetCompression, Startup_GetCompression]
    by_cases hx : x = CompressionNone
    · simp [hx, OptMap.del]
    · simp [hx, OptMap.set]
  case throwOnOverload.b x =>
    simp only [setOpt, getOpt, Startup_SetThrowOnOverload, Startup_IsThrowOnOverload]
    cases x <;> simp [OptMap.set, OptMap.del]
  all_goals
    simp [setOpt, getOpt, Startup_SetClientId, Startup_GetClientId,
      Startup_SetApplicationName, Startup_GetApplicationName, Startup_SetApplicationVersion,
      Startup_GetApplicationVersion, Startup_SetDriverName, Startup_GetDriverName, Startup_SetDriverVersion,
      Startup_GetDriverVersion, OptMap.set]

/-- no other option changes -/
theorem C20_get_set_other (o o' : Opt) (m : OptMap) (a : Val) (h : o ≠ o') :
    getOpt o' (setOpt o m a) = getOpt o' m :=
  getter_frame o' m _ (C20_setter_frame o m a (keyOf o') (keys_distinct o' o (Ne.symm h)))

/-- histories: after any sequence of setter calls, every getter returns the last value set through its own setter,
    or what it returned initially — i.e. the accessors behave like an abstract record of seven independent options. -/
def applyOps (m : OptMap) : List (Opt × Val) → OptMap
  | [] => m
  | (o, a) :: rest => applyOps (setOpt o m a) rest

def specGet (init : Opt → Val) : List (Opt × Val) → Opt → Val
  | [], o => init o
  | (o', a) :: rest, o => specGet (fun x => if x = o' then a else init x) rest o

theorem C20_startup_history (ops : List (Opt × Val)) (hk : ∀ p ∈ ops, kindOk p.1 p.2 = true) (m : OptMap) (o : Opt) :
    getOpt o (applyOps m ops) = specGet (fun x => getOpt x m) ops o := by
  induction ops generalizing m with
  | nil => rfl
  | cons p rest ih =>
    obtain ⟨o', a⟩ := p
    have hk' : ∀ p ∈ rest, kindOk p.1 p.2 = true := fun p hp => hk p (List.mem_cons_of_mem _ hp)
    have hka : kindOk o' a = true := hk (o', a) List.mem_cons_self
    rw [applyOps, specGet, ih hk']
    congr 1
    funext x
    by_cases hx : x = o'
    · subst hx; simp [C20_get_set x m a hka]
    · simp [hx, C20_get_set_other o' x m a (Ne.symm hx)]

/-! ## Frame mutators -/

def flagBits : List Nat := [HeaderFlagCompressed, HeaderFlagTracing, HeaderFlagCustomPayload, HeaderFlagWarning, HeaderFlagUseBeta]

/-- complete behaviour of Add/Remove/Contains on the whole 8-bit flag domain (kernel-decided, 256 × 5 × 5 cases) -/
def flagAlgebraB : Bool :=
  (List.range 256).all fun f => flagBits.all fun x => flagBits.all fun y =>
    (HeaderFlag_Contains (HeaderFlag_Add f x) y == (x == y || HeaderFlag_Contains f y)) &&
    (HeaderFlag_Contains (HeaderFlag_Remove f x) y == (x != y && HeaderFlag_Contains f y)) &&
    decide (HeaderFlag_Add f x < 256) && decide (HeaderFlag_Remove f x < 256)

set_option maxRecDepth 100000 in
theorem flagAlgebra_ok : flagAlgebraB = true := by decide

theorem flag_algebra : ∀ f, f < 256 → ∀ x ∈ flagBits, ∀ y ∈ flagBits,
    HeaderFlag_Contains (HeaderFlag_Add f x) y = (x == y || HeaderFlag_Contains f y) ∧
    HeaderFlag_Contains (HeaderFlag_Remove f x) y = (x != y && HeaderFlag_Contains f y) ∧
    HeaderFlag_Add f x < 256 ∧ HeaderFlag_Remove f x < 256 := by
  intro f hf x hx y hy
  have h := List.all_eq_true.mp (List.all_eq_true.mp (List.all_eq_true.mp flagAlgebra_ok f (List.mem_range.mpr hf)) x hx) y hy
  simp only [Bool.and_eq_true, beq_iff_eq, decide_eq_true_eq] at h
  exact ⟨h.1.1.1, h.1.1.2, h.1.2, h.2⟩

inductive MutOp where
  | payload (p : Option (List (Bytes × Option Bytes)))
  | warnings (w : Option (List Bytes))
  | tracingId (t : Option Bytes)
  | requestTracing (b : Bool)
  | compress (b : Bool)
  deriving Repr

def applyMut (f : MutFrame) : MutOp → MutFrame
  | .payload p => Frame_SetCustomPayload f p
  | .warnings w => Frame_SetWarnings f w
  | .tracingId t => Frame_SetTracingId f t
  | .requestTracing b => Frame_RequestTracingId f b
  | .compress b => Frame_SetCompress f b

/-- documented applicability: tracing id and warnings belong to responses, tracing requests to requests -/
def applicable (isResponse : Bool) : MutOp → Bool
  | .payload _ => true
  | .compress _ => true
  | .warnings _ => isResponse
  | .tracingId _ => isResponse
  | .requestTracing _ => !isResponse

def has (f : MutFrame) (bit : Nat) : Bool := HeaderFlag_Contains f.flags bit

/-- header flags reflect exactly which optional body parts are present -/
structure Inv (isResponse : Bool) (f : MutFrame) : Prop where
  width : f.flags < 256
  payload : has f HeaderFlagCustomPayload = decide (optLen f.customPayload > 0)
  warnings : has f HeaderFlagWarning = decide (optLen f.warnings > 0)
  tracing : isResponse = true → has f HeaderFlagTracing = f.tracingId.isSome
  noTracingId : isResponse = false → f.tracingId = none
  noWarnings : isResponse = false → optLen f.warnings = 0
  compressed : has f HeaderFlagCompressed = true → isCompressible f.opcode = true

private theorem mem1 : HeaderFlagCompressed ∈ flagBits := by decide
private theorem mem2 : HeaderFlagTracing ∈ flagBits := by decide
private theorem mem3 : HeaderFlagCustomPayload ∈ flagBits := by decide
private theorem mem4 : HeaderFlagWarning ∈ flagBits := by decide

/-- a frame made by `NewFrame` (no flags except possibly USE_BETA, empty body parts) satisfies the invariant -/
theorem inv_new (isResponse : Bool) (opcode : Nat) (beta : Bool) :
    Inv isResponse { flags := if beta then HeaderFlagUseBeta else 0, tracingId := none, customPayload := none,
                     warnings := none, opcode := opcode } := by
  have h0 : ∀ y, y = HeaderFlagCompressed ∨ y = HeaderFlagTracing ∨ y = HeaderFlagCustomPayload ∨ y = HeaderFlagWarning →
      HeaderFlag_Contains 0 y = false ∧ HeaderFlag_Contains HeaderFlagUseBeta y = false := by
    intro y hy; rcases hy with h | h | h | h <;> subst h <;> decide
  cases beta
  · exact ⟨(by decide : (0:Nat) < 256), (h0 _ (.inr (.inr (.inl rfl)))).1, (h0 _ (.inr (.inr (.inr rfl)))).1,
      fun _ => (h0 _ (.inr (.inl rfl))).1, fun _ => rfl, fun _ => rfl,
      fun h => by rw [has, if_neg (by decide), (h0 _ (.inl rfl)).1] at h; exact absurd h (by decide)⟩
  · exact ⟨(by decide : HeaderFlagUseBeta < 256), (h0 _ (.inr (.inr (.inl rfl)))).2, (h0 _ (.inr (.inr (.inr rfl)))).2,
      fun _ => (h0 _ (.inr (.inl rfl))).2, fun _ => rfl, fun _ => rfl,
      fun h => by rw [has, if_pos rfl, (h0 _ (.inl rfl)).2] at h; exact absurd h (by decide)⟩

/-- effect of setting / clearing bit `x` on the four flags the invariant talks about -/
private theorem has_set (f : MutFrame) (hw : f.flags < 256) (x : Nat) (hx : x ∈ flagBits) (g : MutFrame)
    (hg : g.flags = HeaderFlag_Add f.flags x) : g.flags < 256 ∧ ∀ y ∈ flagBits, has g y = (x == y || has f y) := by
  refine ⟨?_, ?_⟩
  · rw [hg]; exact (flag_algebra f.flags hw x hx x hx).2.2.1
  · intro y hy; simp only [has, hg]; exact (flag_algebra f.flags hw x hx y hy).1

private theorem has_clear (f : MutFrame) (hw : f.flags < 256) (x : Nat) (hx : x ∈ flagBits) (g : MutFrame)
    (hg : g.flags = HeaderFlag_Remove f.flags x) : g.flags < 256 ∧ ∀ y ∈ flagBits, has g y = (x != y && has f y) := by
  refine ⟨?_, ?_⟩
  · rw [hg]; exact (flag_algebra f.flags hw x hx x hx).2.2.2
  · intro y hy; simp only [has, hg]; exact (flag_algebra f.flags hw x hx y hy).2.1

private theorem ne12 : (HeaderFlagCompressed == HeaderFlagTracing) = false := by decide
private theorem ne13 : (HeaderFlagCompressed == HeaderFlagCustomPayload) = false := by decide
private theorem ne14 : (HeaderFlagCompressed == HeaderFlagWarning) = false := by decide
private theorem ne21 : (HeaderFlagTracing == HeaderFlagCompressed) = false := by decide
private theorem ne23 : (HeaderFlagTracing == HeaderFlagCustomPayload) = false := by decide
private theorem ne24 : (HeaderFlagTracing == HeaderFlagWarning) = false := by decide
private theorem ne31 : (HeaderFlagCustomPayload == HeaderFlagCompressed) = false := by decide
private theorem ne32 : (HeaderFlagCustomPayload == HeaderFlagTracing) = false := by decide
private theorem ne34 : (HeaderFlagCustomPayload == HeaderFlagWarning) = false := by decide
private theorem ne41 : (HeaderFlagWarning == HeaderFlagCompressed) = false := by decide
private theorem ne42 : (HeaderFlagWarning == HeaderFlagTracing) = false := by decide
private theorem ne43 : (HeaderFlagWarning == HeaderFlagCustomPayload) = false := by decide

/-- generic step: a mutator that sets or clears bit `x` according to `c` and otherwise changes only body parts -/
private theorem step_generic (isResponse : Bool) (f g : MutFrame) (hi : Inv isResponse f) (x : Nat) (hx : x ∈ flagBits)
    (c : Bool) (hg : g.flags = if c then HeaderFlag_Add f.flags x else HeaderFlag_Remove f.flags x)
    (hop : g.opcode = f.opcode) :
    g.flags < 256 ∧ ∀ y ∈ flagBits, has g y = if x == y then c else has f y := by
  cases c with
  | true =>
    have h := has_set f hi.width x hx g (by simpa using hg)
    refine ⟨h.1, fun y hy => ?_⟩
    rw [h.2 y hy]; cases (x == y) <;> simp
  | false =>
    have h := has_clear f hi.width x hx g (by simpa using hg)
    refine ⟨h.1, fun y hy => ?_⟩
    rw [h.2 y hy]; cases hxy : (x == y) <;> simp [bne, hxy]

theorem C20_mutator_step (isResponse : Bool) (f : MutFrame) (op : MutOp) (hi : Inv isResponse f)
    (ha : applicable isResponse op = true) : Inv isResponse (applyMut f op) := by
  cases op with
  | payload p =>
    have hg : (applyMut f (.payload p)).flags = if decide (optLen p > 0) then HeaderFlag_Add f.flags HeaderFlagCustomPayload
        else HeaderFlag_Remove f.flags HeaderFlagCustomPayload := by
      simp only [applyMut, Frame_SetCustomPayload]; split <;> rfl
    have hb : (applyMut f (.payload p)).customPayload = p ∧ (applyMut f (.payload p)).warnings = f.warnings ∧
        (applyMut f (.payload p)).tracingId = f.tracingId ∧ (applyMut f (.payload p)).opcode = f.opcode := by
      simp only [applyMut, Frame_SetCustomPayload]; split <;> exact ⟨rfl, rfl, rfl, rfl⟩
    have h := step_generic isResponse f _ hi _ mem3 _ hg hb.2.2.2
    constructor
    · exact h.1
    · rw [h.2 _ mem3, hb.1]; simp
    · rw [h.2 _ mem4, hb.2.1, ne34]; exact hi.warnings
    · intro hr; rw [h.2 _ mem2, hb.2.2.1, ne32]; exact hi.tracing hr
    · intro hr; rw [hb.2.2.1]; exact hi.noTracingId hr
    · intro hr; rw [hb.2.1]; exact hi.noWarnings hr
    · rw [h.2 _ mem1, hb.2.2.2, ne31]; exact hi.compressed
  | warnings w =>
    have hr : isResponse = true := by simpa [applicable] using ha
    have hg : (applyMut f (.warnings w)).flags = if decide (optLen w > 0) then HeaderFlag_Add f.flags HeaderFlagWarning
        else HeaderFlag_Remove f.flags HeaderFlagWarning := by
      simp only [applyMut, Frame_SetWarnings]; split <;> rfl
    have hb : (applyMut f (.warnings w)).customPayload = f.customPayload ∧ (applyMut f (.warnings w)).warnings = w ∧
        (applyMut f (.warnings w)).tracingId = f.tracingId ∧ (applyMut f (.warnings w)).opcode = f.opcode := by
      simp only [applyMut, Frame_SetWarnings]; split <;> exact ⟨rfl, rfl, rfl, rfl⟩
    have h := step_generic isResponse f _ hi _ mem4 _ hg hb.2.2.2
    constructor
    · exact h.1
    · rw [h.2 _ mem3, hb.1, ne43]; exact hi.payload
    · rw [h.2 _ mem4, hb.2.1]; simp
    · intro hr; rw [h.2 _ mem2, hb.2.2.1, ne42]; exact hi.tracing hr
    · intro h'; rw [hr] at h'; exact absurd h' (by decide)
    · intro h'; rw [hr] at h'; exact absurd h' (by decide)
    · rw [h.2 _ mem1, hb.2.2.2, ne41]; exact hi.compressed
  | tracingId t =>
    have hr : isResponse = true := by simpa [applicable] using ha
    have hg : (applyMut f (.tracingId t)).flags = if t.isSome then HeaderFlag_Add f.flags HeaderFlagTracing
        else HeaderFlag_Remove f.flags HeaderFlagTracing := by
      simp only [applyMut, Frame_SetTracingId]; split <;> rfl
    have hb : (applyMut f (.tracingId t)).customPayload = f.customPayload ∧ (applyMut f (.tracingId t)).warnings = f.warnings ∧
        (applyMut f (.tracingId t)).tracingId = t ∧ (applyMut f (.tracingId t)).opcode = f.opcode := by
      simp only [applyMut, Frame_SetTracingId]; split <;> exact ⟨rfl, rfl, rfl, rfl⟩
    have h := step_generic isResponse f _ hi _ mem2 _ hg hb.2.2.2
    constructor
    · exact h.1
    · rw [h.2 _ mem3, hb.1, ne23]; exact hi.payload
    · rw [h.2 _ mem4, hb.2.1, ne24]; exact hi.warnings
    · intro _; rw [h.2 _ mem2, hb.2.2.1]; simp
    · intro h'; rw [hr] at h'; exact absurd h' (by decide)
    · intro h'; rw [hr] at h'; exact absurd h' (by decide)
    · rw [h.2 _ mem1, hb.2.2.2, ne21]; exact hi.compressed
  | requestTracing b =>
    have hr : isResponse = false := by simpa [applicable] using ha
    have hg : (applyMut f (.requestTracing b)).flags = if b then HeaderFlag_Add f.flags HeaderFlagTracing
        else HeaderFlag_Remove f.flags HeaderFlagTracing := by
      simp only [applyMut, Frame_RequestTracingId]; split <;> rfl
    have hb : (applyMut f (.requestTracing b)).customPayload = f.customPayload ∧ (applyMut f (.requestTracing b)).warnings = f.warnings ∧
        (applyMut f (.requestTracing b)).tracingId = f.tracingId ∧ (applyMut f (.requestTracing b)).opcode = f.opcode := by
      simp only [applyMut, Frame_RequestTracingId]; split <;> exact ⟨rfl, rfl, rfl, rfl⟩
    have h := step_generic isResponse f _ hi _ mem2 _ hg hb.2.2.2
    constructor
    · exact h.1
    · rw [h.2 _ mem3, hb.1, ne23]; exact hi.payload
    · rw [h.2 _ mem4, hb.2.1, ne24]; exact hi.warnings
    · intro h'; rw [hr] at h'; exact absurd h' (by decide)
    · intro h'; rw [hb.2.2.1]; exact hi.noTracingId h'
    · intro h'; rw [hb.2.1]; exact hi.noWarnings h'
    · rw [h.2 _ mem1, hb.2.2.2, ne21]; exact hi.compressed
  | compress b =>
    have hg : (applyMut f (.compress b)).flags = if (b && isCompressible f.opcode) then HeaderFlag_Add f.flags HeaderFlagCompressed
        else HeaderFlag_Remove f.flags HeaderFlagCompressed := by
      simp only [applyMut, Frame_SetCompress]; split <;> rfl
    have hb : (applyMut f (.compress b)).customPayload = f.customPayload ∧ (applyMut f (.compress b)).warnings = f.warnings ∧
        (applyMut f (.compress b)).tracingId = f.tracingId ∧ (applyMut f (.compress b)).opcode = f.opcode := by
      simp only [applyMut, Frame_SetCompress]; split <;> exact ⟨rfl, rfl, rfl, rfl⟩
    have h := step_generic isResponse f _ hi _ mem1 _ hg hb.2.2.2
    constructor
    · exact h.1
    · rw [h.2 _ mem3, hb.1, ne13]; exact hi.payload
    · rw [h.2 _ mem4, hb.2.1, ne14]; exact hi.warnings
    · intro hr; rw [h.2 _ mem2, hb.2.2.1, ne12]; exact hi.tracing hr
    · intro hr; rw [hb.2.2.1]; exact hi.noTracingId hr
    · intro hr; rw [hb.2.1]; exact hi.noWarnings hr
    · rw [h.2 _ mem1, hb.2.2.2]; simp only [beq_self_eq_true, if_true, Bool.and_eq_true]; intro hc; exact hc.2

/-- After ANY finite sequence of applicable mutator calls, with arbitrary arguments (nil, empty, non-empty), starting
    from any consistent frame (e.g. a fresh `NewFrame`), the flags reflect exactly the optional body parts present and
    compression is never flagged for STARTUP, OPTIONS or READY. -/
theorem C20_mutators_keep_flags_in_step (isResponse : Bool) (ops : List MutOp) (f : MutFrame) (hi : Inv isResponse f)
    (ha : ∀ op ∈ ops, applicable isResponse op = true) : Inv isResponse (ops.foldl applyMut f) := by
  induction ops generalizing f with
  | nil => exact hi
  | cons op rest ih =>
    exact ih _ (C20_mutator_step isResponse f op hi (ha op List.mem_cons_self))
      (fun o ho => ha o (List.mem_cons_of_mem _ ho))

theorem C20_never_compress_startup_options_ready (isResponse : Bool) (ops : List MutOp) (f : MutFrame) (hi : Inv isResponse f)
    (ha : ∀ op ∈ ops, applicable isResponse op = true) :
    has (ops.foldl applyMut f) HeaderFlagCompressed = true →
      (ops.foldl applyMut f).opcode ≠ OpCodeStartup ∧ (ops.foldl applyMut f).opcode ≠ OpCodeOptions ∧
      (ops.foldl applyMut f).opcode ≠ OpCodeReady := by
  intro h
  have := (C20_mutators_keep_flags_in_step isResponse ops f hi ha).compressed h
  simp only [isCompressible, Bool.and_eq_true, bne_iff_ne] at this
  exact ⟨this.1.1, this.1.2, this.2⟩

/-! ## non-vacuity -/
example : Inv true (applyMut (applyMut { flags := 0, tracingId := none, customPayload := none, warnings := none, opcode := 8 }
    (.warnings (some [[119]]))) (.compress true)) :=
  C20_mutators_keep_flags_in_step true [.warnings (some [[119]]), .compress true] _ (inv_new true 8 false) (by decide)
example : getOpt .clientId (applyOps OptMap.empty [(.clientId, .s [1]), (.compression, .s CompressionLz4)]) = .s [1] := by
  rw [C20_startup_history _ (by decide)]; rfl

end Cql.Props.C20
