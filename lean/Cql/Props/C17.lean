import Cql.Lemmas.DeepCopyLemmas
import Cql.Gen.DeepCopy
/-!
# C17 — deep copies are equal to and independent of their originals

`Cql/DeepCopy.lean` models Go values as trees whose pointer, slice, map and interface nodes carry the location of the
memory they refer to, and a deep-copy routine as a *plan* executed with a fresh-location allocator. `Cql/Gen/DeepCopy.lean`
is regenerated on every run: for each of the struct types with a `DeepCopyInto` method the *shape* of every field (from the
struct declaration) and the *plan* the method body carries out for it (from the AST of the generated code), extracted
independently of each other. The meta-theorem `copy_good` is proved once for every environment, shape, plan and value;
the per-run obligation is that the regenerated environment is *covered* (`C17_env_covered`, `C17_roots_covered`),
which the kernel decides by evaluation. A field added to a struct without regenerating the copy code, or a hand edit
that drops or weakens a copy block, leaves a non-flat shape under an `.assign` plan and the obligation fails.
-/
namespace Cql.Props.C17
open Cql.DeepCopy Cql.Gen.DeepCopy

/-- every named struct type's `DeepCopyInto` covers every field; every interface implementation is a covered type -/
theorem C17_env_covered : env.ok = true := by decide

/-- every public deep-copy operation (`T.DeepCopy()` for every struct type, `DeepCopyMessage`, `DeepCopyDataType`,
    `UUID.DeepCopy`) is covered -/
theorem C17_roots_covered : roots.all (fun r => covers env (fuel env) r.2.1 r.2.2) = true := by decide

/-- there are operations to speak of: one per struct type and interface (plus hand-written copies) -/
theorem C17_roots_count : env.types.length + env.ifaces.length ≤ roots.length ∧ 0 < env.types.length := by decide

/-- **C17 (equality).** For every deep-copy operation and EVERY value of the receiver's shape (every field populated or
    nil, any sizes, any nesting), the copy equals the original up to memory locations. -/
theorem C17_copy_equal (r : String × Shape × Plan) (hr : r ∈ roots) (v : Val) (n : Nat)
    (hs : hasShape env r.2.1 v = true) :
    erase (copy env r.2.2 v n).1 = erase v := by
  have hc := List.all_eq_true.mp C17_roots_covered r hr
  exact (copy_good env C17_env_covered v r.2.1 r.2.2 n hc hs).eq

/-- **C17 (independence).** … and shares no mutable memory with it: when the allocator hands out locations not used by the
    original (`n` above every location of `v`), no location reachable from the copy is reachable from the original. -/
theorem C17_copy_disjoint (r : String × Shape × Plan) (hr : r ∈ roots) (v : Val) (n : Nat)
    (hs : hasShape env r.2.1 v = true) (hn : ∀ l ∈ locs v, l < n) :
    ∀ l ∈ locs (copy env r.2.2 v n).1, l ∉ locs v := by
  have hc := List.all_eq_true.mp C17_roots_covered r hr
  intro l hl hl'
  have h1 := (copy_good env C17_env_covered v r.2.1 r.2.2 n hc hs).good.fresh l hl
  have h2 := hn l hl'
  omega

mutual
/-- writing through location `l` (any change `g` to what lives there) -/
def writeAt (l : Nat) (g : Val → Val) : Val → Val
  | .scalar k => .scalar k
  | .nil => .nil
  | .ptr m v => if m = l then g (.ptr m v) else .ptr m (writeAt l g v)
  | .slice m es => if m = l then g (.slice m es) else .slice m (writeAtAll l g es)
  | .map m ks vs => if m = l then g (.map m ks vs) else .map m ks (writeAtAll l g vs)
  | .struct fs => .struct (writeAtAll l g fs)
  | .iface d m fs => if m = l then g (.iface d m fs) else .iface d m (writeAtAll l g fs)
def writeAtAll (l : Nat) (g : Val → Val) : List Val → List Val
  | [] => []
  | v :: vs => writeAt l g v :: writeAtAll l g vs
end

mutual
theorem writeAt_unreachable (l : Nat) (g : Val → Val) : ∀ v : Val, l ∉ locs v → writeAt l g v = v
  | .scalar _, _ => by simp [writeAt]
  | .nil, _ => by simp [writeAt]
  | .ptr m v, h => by
    simp only [locs, List.mem_cons, not_or] at h
    simp only [writeAt]; rw [if_neg (fun e => h.1 e.symm), writeAt_unreachable l g v h.2]
  | .slice m es, h => by
    simp only [locs, List.mem_cons, not_or] at h
    simp only [writeAt]; rw [if_neg (fun e => h.1 e.symm), writeAtAll_unreachable l g es h.2]
  | .map m ks vs, h => by
    simp only [locs, List.mem_cons, not_or] at h
    simp only [writeAt]; rw [if_neg (fun e => h.1 e.symm), writeAtAll_unreachable l g vs h.2]
  | .struct fs, h => by
    simp only [locs] at h
    simp only [writeAt]; rw [writeAtAll_unreachable l g fs h]
  | .iface d m fs, h => by
    simp only [locs, List.mem_cons, not_or] at h
    simp only [writeAt]; rw [if_neg (fun e => h.1 e.symm), writeAtAll_unreachable l g fs h.2]
theorem writeAtAll_unreachable (l : Nat) (g : Val → Val) : ∀ vs : List Val, l ∉ locsAll vs → writeAtAll l g vs = vs
  | [], _ => by simp [writeAtAll]
  | v :: vs, h => by
    simp only [locsAll, List.mem_append, not_or] at h
    simp only [writeAtAll]; rw [writeAt_unreachable l g v h.1, writeAtAll_unreachable l g vs h.2]
end

/-- **C17 (non-observability).** Changing anything reachable from the copy — any byte, slice element, map entry or nested
    structure, i.e. a write `g` through any location `l` of the copy — leaves the original as it was. -/
theorem C17_write_to_copy_not_seen_by_original (r : String × Shape × Plan) (hr : r ∈ roots) (v : Val) (n : Nat)
    (hs : hasShape env r.2.1 v = true) (hn : ∀ l ∈ locs v, l < n) (l : Nat) (hl : l ∈ locs (copy env r.2.2 v n).1)
    (g : Val → Val) : writeAt l g v = v :=
  writeAt_unreachable l g v (C17_copy_disjoint r hr v n hs hn l hl)

/-- … and the reverse: a write through any location of the original leaves the copy as it was. -/
theorem C17_write_to_original_not_seen_by_copy (r : String × Shape × Plan) (hr : r ∈ roots) (v : Val) (n : Nat)
    (hs : hasShape env r.2.1 v = true) (hn : ∀ l ∈ locs v, l < n) (l : Nat) (hl : l ∈ locs v)
    (g : Val → Val) : writeAt l g (copy env r.2.2 v n).1 = (copy env r.2.2 v n).1 :=
  writeAt_unreachable l g _ (fun h => C17_copy_disjoint r hr v n hs hn l h hl)

/-- the meta-theorem is not specific to today's environment: ANY covered environment, shape and plan -/
theorem C17_any_covered_plan (e : Env) (he : e.ok = true) (s : Shape) (p : Plan) (hc : covers e (fuel e) s p = true)
    (v : Val) (n : Nat) (hs : hasShape e s v = true) (hn : ∀ l ∈ locs v, l < n) :
    erase (copy e p v n).1 = erase v ∧ ∀ l ∈ locs (copy e p v n).1, l ∉ locs v := by
  have h := copy_good e he v s p n hc hs
  refine ⟨h.eq, fun l hl hl' => ?_⟩
  have h1 := h.good.fresh l hl
  have h2 := hn l hl'
  omega

/-- the check is not vacuous: a shallowly copied pointer field is NOT covered, and its copy does share memory -/
example : covers env (fuel env) (.ptr .scalar) .assign = false := by decide
example : locs (copy env .assign (.ptr 3 (.scalar 1)) 10).1 = [3] := by decide
/-- a populated value in a small hand-made environment of the same form (a batch with one child holding an id and one
    value): well-shaped, covered, and copied with all locations fresh -/
def exEnv : Env :=
  { types := [
      { name := 0, label := "Batch", fieldNames := ["Type", "Children", "Timestamp"],
        shapes := [.scalar, .slice (.ptr (.named 1)), .ptr .scalar],
        plans := [.assign, .makeSlice (.newPtr (.call 1)), .newPtr .assign] },
      { name := 1, label := "Child", fieldNames := ["Query", "Id", "Values"],
        shapes := [.scalar, .slice .scalar, .slice (.ptr (.named 2))],
        plans := [.assign, .makeSlice .assign, .makeSlice (.newPtr (.call 2))] },
      { name := 2, label := "Value", fieldNames := ["Type", "Contents"],
        shapes := [.scalar, .slice .scalar], plans := [.assign, .makeSlice .assign] }],
    ifaces := [] }
example :
    let v : Val := .ptr 1 (.struct [.scalar 0, .slice 2 [.ptr 3 (.struct [.scalar 7, .slice 4 [.scalar 1],
      .slice 5 [.ptr 6 (.struct [.scalar 0, .slice 7 [.scalar 9]])]])], .ptr 8 (.scalar 5)])
    exEnv.ok = true ∧ hasShape exEnv (.ptr (.named 0)) v = true ∧
      locs (copy exEnv (.newPtr (.call 0)) v 100).1 = [100, 101, 102, 103, 104, 105, 106, 107] := by
  decide
/-- the same environment with the copy block of `Child.Id` dropped is rejected, and the copy then shares location 4 -/
example :
    let bad : Env := { exEnv with types := exEnv.types.map fun t =>
      if t.name = 1 then { t with plans := [.assign, .assign, .makeSlice (.newPtr (.call 2))] } else t }
    let v : Val := .ptr 1 (.struct [.scalar 0, .slice 2 [.ptr 3 (.struct [.scalar 7, .slice 4 [.scalar 1], .nil])], .nil])
    bad.ok = false ∧ 4 ∈ locs (copy bad (.newPtr (.call 0)) v 100).1 := by
  decide

end Cql.Props.C17
