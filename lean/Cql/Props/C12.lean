import Cql.Value
import Cql.Spec.Value
import Cql.Lemmas.ValueRT
/-!
# C12 — the codecs produce and accept exactly the specification's serialization formats

`Cql.Spec.serialize` (`Cql/Spec/Value.lean`) is transcribed from `native_protocol_v5.spec` §3 and §5–§6 (and, for v2
collections, `native_protocol_v2.spec` §6) with arithmetic definitions that share nothing with the Go-shaped code:
positional big-endian numerals, two's complement as `v mod 2^(8k)`, varint as the SHORTEST two's-complement numeral,
vints from the number of payload bits per length, dates as `days + 2^31`.
-/
namespace Cql.Props.C12
open Cql Cql.Prim Cql.Value Cql.Spec Cql.Gen

/-- `Encode` of a well-typed value is, byte for byte, the specification's serialization — for every type, any nesting,
    every protocol version -/
theorem C12_encode_conforms (version : Nat) (t : DataType) (x : CqlVal) (hs : Supported t = true)
    (ht : HasType version t x) : encode version t (some x) = .ok (some (serialize version t x)) :=
  encode_spec version t x hs ht

/-- `Decode` accepts the specification's serialization of every well-typed value and returns that value -/
theorem C12_decode_conforms (version : Nat) (t : DataType) (x : CqlVal) (hs : Supported t = true)
    (ht : HasType version t x) : decode version t (some (serialize version t x)) = .ok (some x) :=
  decode_spec version t x hs ht

/-- §5.24 varint: `writeBigInt` (two's complement via `big.Int`) yields the shortest two's-complement numeral, for
    every integer -/
theorem C12_varint_minimal (v : Int) : writeBigInt v = minimalTwosComplement v := writeBigInt_eq_spec v

/-- what "shortest" means: the numeral has `minTwosLen v` bytes, that many bytes can denote `v`, and no smaller
    positive number of bytes can -/
theorem C12_varint_length_is_least (v : Int) :
    (minimalTwosComplement v).length = minTwosLen v ∧ 1 ≤ minTwosLen v ∧ fitsTwos (minTwosLen v) v = true ∧
    ∀ k, 1 ≤ k → fitsTwos k v = true → minTwosLen v ≤ k :=
  ⟨minimalTwosComplement_length v, (minTwosLen_spec v).1, (minTwosLen_spec v).2, fun k hk hf => minTwosLen_least v k hk hf⟩

/-- and it reads back: `readBigInt` inverts it for every integer -/
theorem C12_varint_read (v : Int) : readBigInt (minimalTwosComplement v) = some v := readBigInt_spec v

/-- §3 `[unsigned vint]` / `[vint]`: exact layout, for every `uint64` / `int64` -/
theorem C12_vint_layout :
    (∀ v, v < 18446744073709551616 → Vint.writeUnsignedVint v = unsignedVint v) ∧
    (∀ i : Int, -9223372036854775808 ≤ i → i ≤ 9223372036854775807 → Vint.writeVint (BitVec.ofInt 64 i) = vint i) :=
  ⟨writeUnsignedVint_eq_spec, writeVint_eq_spec⟩

/-- the switch of `NewCodec` and the specification's table of formats agree on every type code (in particular the
    same codes are supported) -/
theorem C12_codec_table (c : Nat) : formatOf c = (primCodec c).map fmt := formatOf_eq c

/-- the positional big-endian numerals of the specification are the ones the Go code's `binary.BigEndian` writes -/
theorem C12_big_endian (k n : Nat) : be k n = beBytes k n := be_eq_beBytes k n

/-! ## non-vacuity: concrete serializations, computed from the SPEC side only -/

example : serialize 4 (.prim DataTypeCodeVarint) (.int (-129)) = [0xFF, 0x7F] := by decide
example : serialize 4 (.prim DataTypeCodeBigint) (.int (-2)) = [0xFF, 0xFF, 0xFF, 0xFF, 0xFF, 0xFF, 0xFF, 0xFE] := by decide
example : serialize 4 (.prim DataTypeCodeDate) (.int 1) = [0x80, 0, 0, 1] := by decide
example : serialize 4 (.prim DataTypeCodeDecimal) (.decimal (-129) 2) = [0, 0, 0, 2, 0xFF, 0x7F] := by decide
example : serialize 5 (.prim DataTypeCodeDuration) (.duration 14 (-3) 3000000000) =
    [0x1C, 0x05, 0xF1, 0x65, 0xA0, 0xBC, 0x00] := by decide
-- v2 vs v3+: `[short]` count and `[short bytes]` elements vs `[int]` and `[bytes]`
example : serialize 2 (.list (.prim DataTypeCodeSmallint)) (.list [some (.int 7)]) = [0, 1, 0, 2, 0, 7] := by decide
example : serialize 3 (.list (.prim DataTypeCodeSmallint)) (.list [some (.int 7), none]) =
    [0, 0, 0, 2, 0, 0, 0, 2, 0, 7, 0xFF, 0xFF, 0xFF, 0xFF] := by decide

-- the Go-shaped encoder on a nested value (the bytes are the ones the specification prescribes)
example : encode 4 (.map (.prim DataTypeCodeVarchar) (.tuple [.prim DataTypeCodeVarint]))
      (some (.map [(some (.bytes [0x61]), some (.tuple [some (.int 128)]))])) =
    .ok (some [0, 0, 0, 1, 0, 0, 0, 1, 0x61, 0, 0, 0, 6, 0, 0, 0, 2, 0x00, 0x80]) := by decide

end Cql.Props.C12
