import Cql.Value
import Cql.Spec.Value
import Cql.Lemmas.ValueRT
/-!
# C12 — the codecs produce and accept exactly the specification's serialization formats

`Cql.Spec.serialize` (`Cql/Spec/Value.lean`) is transcribed from `native_protocol_v5.spec` §3 and §5–§6 (and, for v2
collections, `native_protocol_v2.spec` §6) with arithmetic definitions that share nothing with the Go-shaped code:
positional big-endian numerals, two's complement as `v mod 2^(8k)`, varint as the SHORTEST two's-complement numeral,
vints from the number of payload bits per length, dates as `days + 2^31`.
-/
namespace Cql.Props.C12
open Cql Cql.Prim Cql.Value Cql.Spec Cql.Gen

/-- `Encode` of a well-typed value is, byte for byte, the specification's serialization — for every type, any nesting,
    every protocol version -/
theorem C12_encode_conforms (version : Nat) (t : DataType) (x : CqlVal) (hs : Supported t = true)
    (ht : HasType version t x) : encode version t (some x) = .ok (some (serialize version t x)) :=
  encode_spec version t x hs ht

/-- `Decode` accepts the specification's serialization of every well-typed value and returns that value -/
theorem C12_decode_conforms (version : Nat) (t : DataType) (x : CqlVal) (hs : Supported t = true)
    (ht : HasType version t x) : decode version t (some (serialize version t x)) = .ok (some x) :=
  decode_spec version t x hs ht

/-- §5.24 varint: `writeBigInt` (two's complement via `big.Int`) yields the shortest two's-complement numeral, for
    every integer -/
theorem C12_varint_minimal (v : Int) : writeBigInt v = minimalTwosComplement v := writeBigInt_eq_spec v

/-- what "shortest" means: the numeral has `minTwosLen v` bytes, that many bytes can denote `v`, and no smaller
    positive number of bytes can -/
theorem C12_varint_length_is_least (v : Int) :
    (minimalTwosComplement v).length = minTwosLen v ∧ 1 ≤ minTwosLen v ∧ fitsTwos (minTwosLen v) v = true ∧
    ∀ k, 1 ≤ k → fitsTwos k v = true → minTwosLen v ≤ k :=
  ⟨minimalTwosComplement_length v, (minTwosLen_spec v).1, (minTwosLen_spec v).2, fun k hk hf => minTwosLen_least v k hk hf⟩

/-- and it reads back: `readBigInt` inverts it for every integer -/
theorem C12_varint_read (v : Int) : readBigInt (minimalTwosComplement v) = some v := readBigInt_spec v

/-- §3 `[unsigned vint]` / `[vint]`: exact layout, for every `uint64` / `int64` -/
theorem C12_vint_layout :
    (∀ v, v < 18446744073709551616 → Vint.writeUnsignedVint v = unsignedVint v) ∧
    (∀ i : Int, -9223372036854775808 ≤ i → i ≤ 9223372036854775807 → Vint.writeVint (BitVec.ofInt 64 i) = vint i) :=
  ⟨writeUnsignedVint_eq_spec, writeVint_eq_spec⟩

/-- the switch of `NewCodec` and the specification's table of formats agree on every type code (in particular the
    same codes are supported) -/
theorem C12_codec_table (c : Nat) : formatOf c = (primCodec c).map fmt := formatOf_eq c

/-- the positional big-endian numerals of the specification are the ones the Go code's `binary.BigEndian` writes -/
theorem C12_big_endian (k n : Nat) : be k n = beBytes k n := be_eq_beBytes k n

/-! ## v2: `[short bytes]` elements cannot be longer than 65535 bytes -/

/-- v2 (`Uses4BytesCollectionLength() == false`): a list / set holding an element, or a map holding a key or a value,
    whose own encoding `b` is longer than 65535 bytes is never encoded (`collectionElementTooLarge`) — the `[short]`
    length is not silently truncated. No hypothesis on the types, the other elements or their position. -/
theorem C12_v2_long_element_refused (version : Nat) (h2 : fourByte version = false) (b : Bytes)
    (hlong : 65535 < b.length) :
    (∀ (e : DataType) (xs : List (Option CqlVal)) (o : Option CqlVal) (r : Option Bytes), o ∈ xs →
      encode version e o = .ok (some b) →
      encode version (.list e) (some (.list xs)) ≠ .ok r ∧ encode version (.set e) (some (.list xs)) ≠ .ok r) ∧
    (∀ (k v : DataType) (es : List (Option CqlVal × Option CqlVal)) (p : Option CqlVal × Option CqlVal)
      (r : Option Bytes), p ∈ es → (encode version k p.1 = .ok (some b) ∨ encode version v p.2 = .ok (some b)) →
      encode version (.map k v) (some (.map es)) ≠ .ok r) :=
  ⟨fun e xs o r ho henc => encode_list_long_v2 version e h2 xs o ho b henc hlong r,
   fun k v es p r hp henc => encode_map_long_v2 version k v h2 es p hp b hlong henc r⟩

/-- the exact outcome at the element: the error, raised after the nil check and before anything is written -/
theorem C12_v2_long_element_error (version : Nat) (h2 : fourByte version = false)
    (enc : Option CqlVal → Res (Option Bytes)) (o : Option CqlVal) (b : Bytes) (henc : enc o = .ok (some b))
    (hlong : 65535 < b.length) : writeElem version enc o = .err "collection element too large" :=
  writeElem_long_v2 version enc h2 o b henc hlong

/-- 65535 bytes is still fine and 65536 is not: the bound of `HasType` (`ElemOk`: `< 65536`) is exactly the encoder's,
    so `C12_encode_conforms` loses nothing to the new check -/
theorem C12_v2_element_bound_tight (version : Nat) (h2 : fourByte version = false) (y : CqlVal) (e : DataType)
    (hy : HasType version e y) :
    ElemOk version (HasType version e) (serialize version e) (some y) ↔ ¬ 65535 < (serialize version e y).length := by
  rw [ElemOk, h2, if_neg (by decide)]
  exact ⟨fun h => by omega, fun h => ⟨hy, by omega⟩⟩

/-! ## §6: a UDT value with fewer fields than its type -/

/-- native_protocol_v5.spec §6: "A UDT value will generally have one value for each field of the type it represents,
    but it is allowed to have less values than the type has fields". For a well-typed UDT value whose LAST `k` fields
    are null (`present ++ replicate k none`; any `k`, `k = 0` included), `Decode` of the specification's serialization
    of only the leading fields `present` is that value, the missing fields being NULL. `present ≠ []`: with no field
    at all the serialization is the empty byte string, which is NULL (`C12_udt_no_fields_is_null`). -/
theorem C12_udt_fewer_fields (version : Nat) (ks nm : Bytes) (names : List Bytes) (ts : List DataType)
    (present : List (Option CqlVal)) (k : Nat) (hs : Supported (.udt ks nm names ts) = true)
    (ht : HasType version (.udt ks nm names ts) (.udt (present ++ List.replicate k none))) (hne : present ≠ []) :
    decode version (.udt ks nm names ts) (some (serialize version (.udt ks nm names ts) (.udt present))) =
      .ok (some (.udt (present ++ List.replicate k none))) :=
  decode_udt_fewer version ks nm names ts present k hs ht hne

/-- the short form is a prefix of the full one: the serialization of `present` followed by one NULL `[bytes]`
    (`FF FF FF FF`) per missing field is the serialization of the whole value -/
theorem C12_udt_fewer_fields_prefix (version : Nat) : ∀ (ts : List DataType) (present : List (Option CqlVal)) (k : Nat),
    (present ++ List.replicate k none).length = ts.length →
    serializeFields version ts (present ++ List.replicate k none) =
      serializeFields version ts present ++ (List.replicate k (bytesOpt none)).flatten
  | [], [], 0, _ => rfl
  | [], [], _ + 1, h => by simp at h
  | [], _ :: _, _, h => by simp at h
  | _ :: _, [], 0, h => by simp at h
  | t :: ts, [], k + 1, h => by
    have ih := C12_udt_fewer_fields_prefix version ts [] k (by simpa using h)
    rw [serializeFields_nil] at ih ⊢
    show serializeFields version (t :: ts) (none :: ([] ++ List.replicate k none)) = _
    rw [serializeFields, ih, List.replicate_succ, List.flatten_cons]
    rfl
  | t :: ts, f :: fs, k, h => by
    have ih := C12_udt_fewer_fields_prefix version ts fs k (by simpa using h)
    show serializeFields version (t :: ts) (f :: (fs ++ List.replicate k none)) = _
    rw [serializeFields, ih, serializeFields, List.append_assoc]

/-- no field present: the empty byte string, which every decoder reads as NULL (not as a UDT of nulls) -/
theorem C12_udt_no_fields_is_null (version : Nat) (ks nm : Bytes) (names : List Bytes) (ts : List DataType)
    (hs : Supported (.udt ks nm names ts) = true) :
    serialize version (.udt ks nm names ts) (.udt []) = [] ∧
    decode version (.udt ks nm names ts) (some (serialize version (.udt ks nm names ts) (.udt []))) = .ok none := by
  have e : serialize version (.udt ks nm names ts) (.udt []) = [] := by rw [serialize, serializeFields_nil]
  refine ⟨e, ?_⟩
  rw [e, decode_empty version _ hs]
  rfl

/-- tuples are unchanged: `readTuple` requires every field (§5.21 has no such allowance) -/
example : decode 4 (.tuple [.prim DataTypeCodeInt, .prim DataTypeCodeVarchar]) (some [0, 0, 0, 4, 0, 0, 0, 1]) =
    .err "eof" := rfl

-- `udt<int,varchar>`, bytes `00000004 00000001`: `<1,~>`
set_option maxRecDepth 4096 in
example : decode 4 (.udt [] [] [[0x61], [0x62]] [.prim DataTypeCodeInt, .prim DataTypeCodeVarchar])
    (some [0, 0, 0, 4, 0, 0, 0, 1]) = .ok (some (.udt [some (.int 1), none])) := rfl
-- … which is the specification's serialization of the one present field, and an instance of the theorem
example : serialize 4 (.udt [] [] [[0x61], [0x62]] [.prim DataTypeCodeInt, .prim DataTypeCodeVarchar])
    (.udt [some (.int 1)]) = [0, 0, 0, 4, 0, 0, 0, 1] := by decide
example : decode 4 (.udt [] [] [[0x61], [0x62]] [.prim DataTypeCodeInt, .prim DataTypeCodeVarchar])
    (some (serialize 4 (.udt [] [] [[0x61], [0x62]] [.prim DataTypeCodeInt, .prim DataTypeCodeVarchar])
      (.udt [some (.int 1)]))) = .ok (some (.udt ([some (.int 1)] ++ List.replicate 1 none))) :=
  C12_udt_fewer_fields 4 [] [] [[0x61], [0x62]] [.prim DataTypeCodeInt, .prim DataTypeCodeVarchar] [some (.int 1)] 1
    (by decide)
    (by
      rw [HasType]
      exact ⟨by decide, rfl, ⟨⟨.int 4, by decide, (by decide : fitsTwos 4 _ = true)⟩, by decide⟩, trivial, trivial⟩)
    (by decide)
-- trailing bytes after the last field of the type are still refused
example : decode 4 (.udt [] [] [[0x61]] [.prim DataTypeCodeInt]) (some [0, 0, 0, 4, 0, 0, 0, 1, 0]) =
    .err "bytes remaining" := rfl
-- a field cut short is still an error (only a field that has not started may be missing)
example : decode 4 (.udt [] [] [[0x61], [0x62]] [.prim DataTypeCodeInt, .prim DataTypeCodeVarchar])
    (some [0, 0, 0, 4, 0, 0, 0, 1, 0, 0]) = .err "eof" := rfl

-- v2: a 65536-byte blob element is refused, in a list, a set and as a map value
example (r : Option Bytes) :
    encode 2 (.list (.prim DataTypeCodeBlob)) (some (.list [some (.bytes (List.replicate 65536 0))])) ≠ .ok r ∧
    encode 2 (.set (.prim DataTypeCodeBlob)) (some (.list [some (.bytes (List.replicate 65536 0))])) ≠ .ok r :=
  (C12_v2_long_element_refused 2 (by decide) (List.replicate 65536 0) (by rw [List.length_replicate]; decide)).1
    _ _ _ r (List.mem_singleton.mpr rfl) rfl
example (r : Option Bytes) :
    encode 2 (.map (.prim DataTypeCodeInt) (.prim DataTypeCodeBlob))
      (some (.map [(some (.int 1), some (.bytes (List.replicate 65536 0)))])) ≠ .ok r :=
  (C12_v2_long_element_refused 2 (by decide) (List.replicate 65536 0) (by rw [List.length_replicate]; decide)).2
    _ _ _ _ r (List.mem_singleton.mpr rfl) (Or.inr rfl)

/-! ## non-vacuity: concrete serializations, computed from the SPEC side only -/

example : serialize 4 (.prim DataTypeCodeVarint) (.int (-129)) = [0xFF, 0x7F] := by decide
example : serialize 4 (.prim DataTypeCodeBigint) (.int (-2)) = [0xFF, 0xFF, 0xFF, 0xFF, 0xFF, 0xFF, 0xFF, 0xFE] := by decide
example : serialize 4 (.prim DataTypeCodeDate) (.int 1) = [0x80, 0, 0, 1] := by decide
example : serialize 4 (.prim DataTypeCodeDecimal) (.decimal (-129) 2) = [0, 0, 0, 2, 0xFF, 0x7F] := by decide
example : serialize 5 (.prim DataTypeCodeDuration) (.duration 14 (-3) 3000000000) =
    [0x1C, 0x05, 0xF1, 0x65, 0xA0, 0xBC, 0x00] := by decide
-- v2 vs v3+: `[short]` count and `[short bytes]` elements vs `[int]` and `[bytes]`
example : serialize 2 (.list (.prim DataTypeCodeSmallint)) (.list [some (.int 7)]) = [0, 1, 0, 2, 0, 7] := by decide
example : serialize 3 (.list (.prim DataTypeCodeSmallint)) (.list [some (.int 7), none]) =
    [0, 0, 0, 2, 0, 0, 0, 2, 0, 7, 0xFF, 0xFF, 0xFF, 0xFF] := by decide

-- the Go-shaped encoder on a nested value (the bytes are the ones the specification prescribes)
example : encode 4 (.map (.prim DataTypeCodeVarchar) (.tuple [.prim DataTypeCodeVarint]))
      (some (.map [(some (.bytes [0x61]), some (.tuple [some (.int 128)]))])) =
    .ok (some [0, 0, 0, 1, 0, 0, 0, 1, 0x61, 0, 0, 0, 6, 0, 0, 0, 2, 0x00, 0x80]) := by decide

end Cql.Props.C12
