import Cql.TimeConv
/-!
# C13 for the temporal types: the overflow-checked conversions deliver the exact number or an error

For EVERY `int64` count of seconds and every nanosecond part: `ConvertTimeToEpochMillis` returns ⌊(s·10⁹+ns)/10⁶⌋ when that
fits 64 bits and an error otherwise — never a wrapped value; `ConvertEpochMillisToTime` is its exact inverse on all of
`int64`; `ConvertTimeToEpochDays` returns ⌊s/86400⌋ when that fits 32 bits and an error otherwise; `ConvertEpochDaysToTime`
never overflows; a `time.Duration` is accepted exactly within [0, 24h).
-/
namespace Cql.Props.C13Time
open Cql.TimeConv

theorem wrap64_id (i : Int) (h : inI64 i) : wrap64 i = i := by
  unfold inI64 at h; unfold wrap64; omega

theorem wrap64_range (i : Int) : inI64 (wrap64 i) := by
  unfold inI64 wrap64; omega

theorem tquot_pos (a b : Int) (hb : 0 < b) : tquot a b = if 0 ≤ a then a / b else -((-a) / b) := by
  unfold tquot
  have : 0 ≤ b := Int.le_of_lt hb
  simp only [this, if_true]

/-- `addExact` reports overflow exactly when the mathematical sum leaves the 64-bit range -/
theorem addExact_spec (x y : Int) (hx : inI64 x) (hy : inI64 y) :
    addExact x y = if inI64 (x + y) then (x + y, false) else (0, true) := by
  unfold inI64 at hx hy
  by_cases h : inI64 (x + y)
  · have hw : wrap64 (x + y) = x + y := wrap64_id _ h
    unfold addExact
    simp only [hw, if_pos h]
    unfold inI64 at h
    have hc : ((neg x != neg (x + y)) && (neg y != neg (x + y))) = false := by
      unfold neg
      by_cases a : x < 0 <;> by_cases b : y < 0 <;> by_cases c : x + y < 0 <;> simp [a, b, c] <;> omega
    rw [hc]; rfl
  · unfold addExact
    simp only [if_neg h]
    unfold inI64 at h
    have hc : ((neg x != neg (wrap64 (x + y))) && (neg y != neg (wrap64 (x + y)))) = true := by
      unfold neg wrap64
      by_cases a : x < 0 <;> by_cases b : y < 0 <;>
        by_cases c : (x + y + 9223372036854775808) % 18446744073709551616 - 9223372036854775808 < 0 <;> simp [a, b, c] <;> omega
    rw [hc]; rfl

/-- `multiplyExact x 1000` reports overflow exactly when `x·1000` leaves the 64-bit range -/
theorem multiplyExact_1000_spec (x : Int) (hx : inI64 x) :
    multiplyExact x 1000 = if inI64 (x * 1000) then (x * 1000, false) else (0, true) := by
  unfold inI64 at hx
  by_cases h0 : x = 0
  · subst h0; decide
  by_cases h1 : x = 1
  · subst h1; decide
  by_cases hm : x = minI64
  · subst hm; decide
  have hcond : ¬(x = 0 ∨ (1000 : Int) = 0 ∨ x = 1 ∨ (1000 : Int) = 1) := by omega
  have hcond2 : ¬(x = minI64 ∨ (1000 : Int) = minI64) := by unfold minI64 at *; omega
  unfold multiplyExact
  rw [if_neg hcond, if_neg hcond2]
  by_cases h : inI64 (x * 1000)
  · have hw : wrap64 (x * 1000) = x * 1000 := wrap64_id _ h
    have hq : tquot (x * 1000) 1000 = x := by
      rw [tquot_pos _ _ (by decide)]; split <;> omega
    simp only [hw, hq, if_pos h]
    rw [wrap64_id x (by unfold inI64; omega)]
    simp
  · have hr := wrap64_range (x * 1000)
    simp only [if_neg h]
    unfold inI64 at h hr
    generalize wrap64 (x * 1000) = r at hr
    have hq : -9223372036854775 ≤ tquot r 1000 ∧ tquot r 1000 ≤ 9223372036854775 := by
      rw [tquot_pos _ _ (by decide)]; split <;> omega
    have hwq : wrap64 (tquot r 1000) = tquot r 1000 := wrap64_id _ (by unfold inI64; omega)
    rw [hwq]
    have : tquot r 1000 ≠ x := by omega
    simp [this]

/-- **C13, `time.Time` → timestamp.** For every `int64` count of seconds and every nanosecond part 0 … 999 999 999,
    `ConvertTimeToEpochMillis` returns ⌊(s·10⁹ + ns)/10⁶⌋ if that number fits 64 bits and reports an error otherwise: no
    time is ever encoded as a wrapped or truncated number of milliseconds. -/
theorem C13_time_to_epoch_millis (s n : Int) (hs : inI64 s) (hn : 0 ≤ n ∧ n < 1000000000) :
    timeToEpochMillis s n =
      if inI64 ((s * 1000000000 + n) / 1000000) then .ok ((s * 1000000000 + n) / 1000000) else .outOfRange := by
  have hk : tquot n 1000000 = n / 1000000 := by rw [tquot_pos _ _ (by decide)]; simp [hn.1]
  have hkr : 0 ≤ n / 1000000 ∧ n / 1000000 ≤ 999 := by omega
  have hsum : (s * 1000000000 + n) / 1000000 = s * 1000 + n / 1000000 := by omega
  rw [hsum]
  unfold inI64 at hs
  unfold timeToEpochMillis
  by_cases hb : s < 0 ∧ n > 0
  · rw [if_pos hb]
    have hw1 : wrap64 (s + 1) = s + 1 := wrap64_id _ (by unfold inI64; omega)
    have hw2 : wrap64 (tquot n 1000000 - 1000) = n / 1000000 - 1000 := by rw [hk]; exact wrap64_id _ (by unfold inI64; omega)
    rw [hw1, hw2, multiplyExact_1000_spec (s + 1) (by unfold inI64; omega)]
    by_cases hm : inI64 ((s + 1) * 1000)
    · simp only [if_pos hm, Bool.false_eq_true, if_false]
      rw [addExact_spec _ _ hm (by unfold inI64; omega)]
      have he : (s + 1) * 1000 + (n / 1000000 - 1000) = s * 1000 + n / 1000000 := by omega
      rw [he]
      by_cases hf : inI64 (s * 1000 + n / 1000000)
      · simp [hf]
      · simp [hf]
    · simp only [if_neg hm, if_true]
      have hf : ¬ inI64 (s * 1000 + n / 1000000) := by unfold inI64 at *; omega
      simp [hf]
  · rw [if_neg hb, hk, multiplyExact_1000_spec s (by unfold inI64; omega)]
    by_cases hm : inI64 (s * 1000)
    · simp only [if_pos hm, Bool.false_eq_true, if_false]
      rw [addExact_spec _ _ hm (by unfold inI64; omega)]
      by_cases hf : inI64 (s * 1000 + n / 1000000)
      · simp [hf]
      · simp [hf]
    · simp only [if_neg hm, if_true]
      have hf : ¬ inI64 (s * 1000 + n / 1000000) := by unfold inI64 at *; omega
      simp [hf]

/-- `floorDiv x y` for a positive literal divisor is the floor of the quotient (shown for the two divisors the codecs use) -/
theorem floorDiv_1000 (x : Int) (hx : inI64 x) : floorDiv x 1000 = x / 1000 := by
  unfold inI64 at hx
  unfold floorDiv neg
  rw [tquot_pos _ _ (by decide)]
  by_cases h : 0 ≤ x
  · rw [if_pos h, wrap64_id _ (by unfold inI64; omega)]
    have : decide (x < 0) = false := by simp; omega
    simp [this]
  · rw [if_neg h, wrap64_id _ (by unfold inI64; omega)]
    have hx0 : decide (x < 0) = true := by simp; omega
    dsimp only
    rw [wrap64_id (-(-x / 1000) * 1000) (by unfold inI64; omega)]
    by_cases he : -(-x / 1000) * 1000 = x
    · have hc : (decide (x < 0) != decide ((1000 : Int) < 0) && decide (-(-x / 1000) * 1000 ≠ x)) = false := by simp [he]
      rw [hc]; simp only [Bool.false_eq_true, if_false]; omega
    · have hc : (decide (x < 0) != decide ((1000 : Int) < 0) && decide (-(-x / 1000) * 1000 ≠ x)) = true := by simp [hx0, he]
      rw [hc]; simp only [if_true]; rw [wrap64_id _ (by unfold inI64; omega)]; omega

theorem floorDiv_86400 (x : Int) (hx : inI64 x) : floorDiv x 86400 = x / 86400 := by
  unfold inI64 at hx
  unfold floorDiv neg
  rw [tquot_pos _ _ (by decide)]
  by_cases h : 0 ≤ x
  · rw [if_pos h, wrap64_id _ (by unfold inI64; omega)]
    have : decide (x < 0) = false := by simp; omega
    simp [this]
  · rw [if_neg h, wrap64_id _ (by unfold inI64; omega)]
    have hx0 : decide (x < 0) = true := by simp; omega
    dsimp only
    rw [wrap64_id (-(-x / 86400) * 86400) (by unfold inI64; omega)]
    by_cases he : -(-x / 86400) * 86400 = x
    · have hc : (decide (x < 0) != decide ((86400 : Int) < 0) && decide (-(-x / 86400) * 86400 ≠ x)) = false := by simp [he]
      rw [hc]; simp only [Bool.false_eq_true, if_false]; omega
    · have hc : (decide (x < 0) != decide ((86400 : Int) < 0) && decide (-(-x / 86400) * 86400 ≠ x)) = true := by simp [hx0, he]
      rw [hc]; simp only [if_true]; rw [wrap64_id _ (by unfold inI64; omega)]; omega

/-- `floorMod x 1000` is the non-negative remainder — also where the intermediate product wraps around (x near −2^63) -/
theorem floorMod_1000 (x : Int) (hx : inI64 x) : floorMod x 1000 = x % 1000 := by
  unfold floorMod
  rw [floorDiv_1000 x hx]
  unfold inI64 at hx
  unfold wrap64
  omega

/-- **C13, timestamp → `time.Time`.** For every `int64` number of milliseconds the (seconds, nanoseconds) pair handed to
    `time.Unix` is exact: ⌊m/1000⌋ seconds and (m mod 1000)·10⁶ nanoseconds … -/
theorem C13_epoch_millis_to_time (m : Int) (hm : inI64 m) :
    epochMillisToTime m = (m / 1000, (m % 1000) * 1000000) := by
  unfold epochMillisToTime
  rw [floorDiv_1000 m hm, floorMod_1000 m hm, wrap64_id _ (by unfold inI64; omega)]

/-- … and converting back gives the same number: timestamp ↔ `time.Time` loses nothing on all of `int64` -/
theorem C13_timestamp_roundtrip (m : Int) (hm : inI64 m) :
    timeToEpochMillis (epochMillisToTime m).1 (epochMillisToTime m).2 = .ok m := by
  rw [C13_epoch_millis_to_time m hm]
  unfold inI64 at hm
  rw [C13_time_to_epoch_millis _ _ (by unfold inI64; omega) (by omega)]
  have : (m / 1000 * 1000000000 + m % 1000 * 1000000) / 1000000 = m := by omega
  rw [this, if_pos (by unfold inI64; omega)]

/-- **C13, `time.Time` → date.** ⌊s/86400⌋ days if that fits 32 bits, an error otherwise -/
theorem C13_time_to_epoch_days (s : Int) (hs : inI64 s) :
    timeToEpochDays s = if -2147483648 ≤ s / 86400 ∧ s / 86400 ≤ 2147483647 then .ok (s / 86400) else .outOfRange := by
  unfold timeToEpochDays
  rw [floorDiv_86400 s hs]
  by_cases h : -2147483648 ≤ s / 86400 ∧ s / 86400 ≤ 2147483647
  · rw [if_pos h, if_neg (by omega)]
  · rw [if_neg h, if_pos (by omega)]

/-- **C13, date → `time.Time`.** no 32-bit day count overflows the seconds -/
theorem C13_epoch_days_to_time (d : Int) (hd : -2147483648 ≤ d ∧ d ≤ 2147483647) : epochDaysToTime d = d * 86400 := by
  unfold epochDaysToTime; exact wrap64_id _ (by unfold inI64; omega)

theorem C13_date_roundtrip (d : Int) (hd : -2147483648 ≤ d ∧ d ≤ 2147483647) : timeToEpochDays (epochDaysToTime d) = .ok d := by
  rw [C13_epoch_days_to_time d hd, C13_time_to_epoch_days _ (by unfold inI64; omega)]
  have : d * 86400 / 86400 = d := by omega
  rw [this, if_pos hd]

/-- **C13, `time.Duration` ↔ time.** accepted exactly within [0, 24 h) and then unchanged -/
theorem C13_duration_to_nanos_of_day (d : Int) :
    durationToNanosOfDay d = if 0 ≤ d ∧ d < 86400000000000 then .ok d else .outOfRange := by
  unfold durationToNanosOfDay
  by_cases h : 0 ≤ d ∧ d < 86400000000000
  · rw [if_pos h, if_neg (by omega)]
  · rw [if_neg h, if_pos (by omega)]

/-- non-vacuity and the boundary cases of the documentation: `TimestampMax`, one millisecond beyond it, `TimestampMin`, and a
    time 2^64 ms away whose milliseconds would wrap around to a small positive number -/
example : timeToEpochMillis 9223372036854775 807000000 = .ok 9223372036854775807 := by decide
example : timeToEpochMillis 9223372036854775 808000000 = .outOfRange := by decide
example : timeToEpochMillis (-9223372036854776) 192000000 = .ok (-9223372036854775808) := by decide
example : timeToEpochMillis (-9223372036854776) 191999999 = .outOfRange := by decide
example : timeToEpochMillis 18446744073709551 807000000 = .outOfRange := by decide

end Cql.Props.C13Time
