import Cql.Dispatch
import Cql.Gen.DispatchFacts
/-!
# C10: events and responses part ways before the in-flight handler, and neither can hold up the other

Theorems over `Cql/Dispatch.lean` (the client's `processIncomingFrame` in front of the in-flight handler model), for EVERY
state and EVERY sequence of incoming frames:

* an event never touches a request, whatever its stream id (`C10_event_never_reaches_a_request`);
* a response never enters the event queue or a handler, whatever its stream id — negative ones included
  (`C10_response_never_reaches_the_event_queue`);
* the in-flight handler sees exactly the non-event frames, in arrival order: with any event traffic interleaved, requests
  end up exactly as without it (`C10_requests_do_not_see_events`) — so everything `Cql/Props/C10.lean` proves about
  delivery histories holds on a connection that also receives events;
* the reader never stalls: events that find the queue full are discarded, and the frames behind them are processed
  (`C10_reader_never_stalls`); every event reaches the handlers, in order (`C10_handlers_see_every_event`); the queue never
  exceeds its capacity and keeps arrival order (`C10_event_queue_bounded`).

Both facts the model is instantiated with — the branch is on the opcode, the send on the event queue has a `default` —
are read off `client/client.go` on every run (`Cql/Gen/DispatchFacts.lean`); for each of the two variants a failing history
is exhibited.
-/
namespace Cql.Props.C10Dispatch
open Cql.Inflight Cql.Dispatch

def toOp (f : Incoming) : Op := .deliver f.streamId f.last f.tag

theorem C10_event_never_reaches_a_request (nb : Bool) (d : D) (f : Incoming) (he : f.isEvent = true) :
    (dispatch true nb d f).h = d.h := by
  unfold dispatch looksLikeEvent
  simp only [if_true, he]
  split
  · rfl
  · split
    · rfl
    · split <;> rfl

theorem C10_response_never_reaches_the_event_queue (nb : Bool) (d : D) (f : Incoming) (he : f.isEvent = false) :
    (dispatch true nb d f).events = d.events ∧ (dispatch true nb d f).handled = d.handled ∧
    (d.stalled = false → (dispatch true nb d f).h = (deliver d.h f.streamId f.last f.tag).1) := by
  unfold dispatch looksLikeEvent
  simp only [if_true, he]
  split
  · rename_i hs; exact ⟨rfl, rfl, fun h => by rw [h] at hs; cases hs⟩
  · exact ⟨rfl, rfl, fun _ => rfl⟩

theorem dispatch_not_stalled (d : D) (f : Incoming) (hs : d.stalled = false) : (dispatch true true d f).stalled = false := by
  unfold dispatch
  rw [hs]
  simp only [Bool.false_eq_true, if_false, if_true]
  split
  · split <;> first | rfl | exact hs
  · first | rfl | exact hs

/-- **the reader never stalls** -/
theorem C10_reader_never_stalls (d : D) (fs : List Incoming) (hs : d.stalled = false) : (Dispatch.run true true d fs).stalled = false := by
  induction fs generalizing d with
  | nil => exact hs
  | cons f fs ih => exact ih _ (dispatch_not_stalled d f hs)

/-- **requests do not see events**: the handler's state after any sequence of incoming frames is its state after the
    non-event frames alone, delivered in the same order -/
theorem C10_requests_do_not_see_events (d : D) (fs : List Incoming) (hs : d.stalled = false) :
    (Dispatch.run true true d fs).h = Inflight.run d.h ((fs.filter (fun f => !f.isEvent)).map toOp) := by
  induction fs generalizing d with
  | nil => rfl
  | cons f fs ih =>
    have hn := dispatch_not_stalled d f hs
    show (Dispatch.run true true (dispatch true true d f) fs).h = _
    rw [ih _ hn]
    cases he : f.isEvent with
    | true =>
      rw [C10_event_never_reaches_a_request true d f he]
      simp [List.filter, he]
    | false =>
      rw [(C10_response_never_reaches_the_event_queue true d f he).2.2 hs]
      simp [List.filter, he, toOp, Inflight.run, Inflight.step]

/-- the handlers are called with every event, in arrival order, and with nothing else -/
theorem C10_handlers_see_every_event (d : D) (fs : List Incoming) (hs : d.stalled = false) :
    (Dispatch.run true true d fs).handled = d.handled ++ (fs.filter (·.isEvent)).map (·.tag) := by
  induction fs generalizing d with
  | nil => simp [Dispatch.run]
  | cons f fs ih =>
    have hn := dispatch_not_stalled d f hs
    show (Dispatch.run true true (dispatch true true d f) fs).handled = _
    rw [ih _ hn]
    cases he : f.isEvent with
    | true =>
      have : (dispatch true true d f).handled = d.handled ++ [f.tag] := by
        unfold dispatch looksLikeEvent
        rw [hs]; simp only [Bool.false_eq_true, if_false, if_true, he]
        split <;> rfl
      rw [this]; simp [List.filter, he]
    | false =>
      rw [(C10_response_never_reaches_the_event_queue true d f he).2.1]
      simp [List.filter, he]

/-- the event queue never exceeds its capacity (once within it) -/
theorem C10_event_queue_bounded (d : D) (fs : List Incoming) (hb : d.events.length ≤ d.cap) :
    (Dispatch.run true true d fs).events.length ≤ (Dispatch.run true true d fs).cap ∧ (Dispatch.run true true d fs).cap = d.cap := by
  induction fs generalizing d with
  | nil => exact ⟨hb, rfl⟩
  | cons f fs ih =>
    have h1 : (dispatch true true d f).events.length ≤ (dispatch true true d f).cap ∧ (dispatch true true d f).cap = d.cap := by
      unfold dispatch
      split
      · exact ⟨hb, rfl⟩
      · split
        · simp only [if_true]
          split
          · rename_i hlt; exact ⟨by simp only [List.length_append, List.length_singleton]; omega, rfl⟩
          · exact ⟨hb, rfl⟩
        · exact ⟨hb, rfl⟩
    have h2 := ih _ h1.1
    exact ⟨h2.1, h2.2.trans h1.2⟩

/-- **as written**: the two facts, regenerated from `client/client.go` -/
theorem C10_dispatch_as_written :
    Gen.DispatchFacts.eventBranchIsOnOpcode = true ∧ Gen.DispatchFacts.eventQueueSendHasDefault = true := by decide

theorem C10_requests_do_not_see_events_as_written (d : D) (fs : List Incoming) (hs : d.stalled = false) :
    (Dispatch.run Gen.DispatchFacts.eventBranchIsOnOpcode Gen.DispatchFacts.eventQueueSendHasDefault d fs).h =
      Inflight.run d.h ((fs.filter (fun f => !f.isEvent)).map toOp) := by
  rw [C10_dispatch_as_written.1, C10_dispatch_as_written.2]
  exact C10_requests_do_not_see_events d fs hs

theorem C10_reader_never_stalls_as_written (d : D) (fs : List Incoming) (hs : d.stalled = false) :
    (Dispatch.run Gen.DispatchFacts.eventBranchIsOnOpcode Gen.DispatchFacts.eventQueueSendHasDefault d fs).stalled = false := by
  rw [C10_dispatch_as_written.1, C10_dispatch_as_written.2]
  exact C10_reader_never_stalls d fs hs

/-- a connection with one request outstanding on stream id `k` (managed = false), event queue of capacity `cap` -/
def oneOutstanding (k : Int) (cap : Nat) : D :=
  { h := (Inflight.send (Inflight.init 4 4) k).1, cap := cap }

/-- **a blocking send on the event queue holds up responses**: capacity 1, two events nobody consumes, then the response — it is
    never delivered -/
theorem C10_blocking_event_send_holds_up_the_response :
    let d := Dispatch.run true false (oneOutstanding 7 1) [⟨true, -1, true, 100⟩, ⟨true, -1, true, 101⟩, ⟨false, 7, true, 5⟩]
    d.stalled = true ∧ (d.h.reqs.map (·.delivered)) = [[]] := by decide

/-- the same frames with the code's non-blocking send: the second event is discarded, the response is delivered -/
example :
    let d := Dispatch.run true true (oneOutstanding 7 1) [⟨true, -1, true, 100⟩, ⟨true, -1, true, 101⟩, ⟨false, 7, true, 5⟩]
    d.stalled = false ∧ (d.h.reqs.map (·.delivered)) = [[5]] ∧ d.events = [100] ∧ d.handled = [100, 101] := by decide

/-- **telling events by a negative stream id loses responses**: a request sent with the caller-chosen id −5 never gets its answer -/
theorem C10_event_by_stream_id_loses_the_response :
    let d := Dispatch.run false true (oneOutstanding (-5) 4) [⟨false, -5, true, 5⟩]
    (d.h.reqs.map (·.delivered)) = [[]] ∧ d.events = [5] := by decide

example :
    let d := Dispatch.run true true (oneOutstanding (-5) 4) [⟨false, -5, true, 5⟩]
    (d.h.reqs.map (·.delivered)) = [[5]] ∧ d.events = [] := by decide

end Cql.Props.C10Dispatch
