import Cql.Vint
import Cql.Spec.Value
import Cql.Lemmas.VintRT
import Cql.Lemmas.ValueRT
/-!
# C03 for `[unsigned vint]` / `[vint]` — the declared length is the emitted length, and reading undoes writing

`Cql/Vint.lean` mirrors `primitive/vint.go` (`numBytes = (639 - lz*9) >> 6`, the first-byte mask, `LeadingZeros32(^b) - 24`
on read, the shift-and-or loop, the zig-zag bit tricks on `int64`/`uint64`). The theorems hold for ALL 2^64 values: the
proofs split on the 65 possible leading-zero counts (nine magnitude classes) and on the first byte, by `decide`.
-/
namespace Cql.Props.C03Vint
open Cql Cql.Prim Cql.Parser Cql.Vint

/-- `LengthOfUnsignedVint(v)` is the number of bytes `WriteUnsignedVint(v)` emits, for every `uint64` -/
theorem C03_unsignedVint_length (v : Nat) (hv : v < 18446744073709551616) :
    (writeUnsignedVint v).length = lengthOfUnsignedVint v := writeUnsignedVint_len v hv

/-- `ReadUnsignedVint` returns exactly what `WriteUnsignedVint` wrote and consumes exactly those bytes, for every `uint64` -/
theorem C03_unsignedVint_roundtrip (v : Nat) (hv : v < 18446744073709551616) (rest : Bytes) :
    readUnsignedVint.run (writeUnsignedVint v ++ rest) = .ok (v, rest) := readUnsignedVint_RT v hv rest

/-- the length is between 1 and 9, `n ≤ 8` bytes carry `7n` payload bits, and no shorter encoding would do -/
theorem C03_unsignedVint_classes (v : Nat) (hv : v < 18446744073709551616) :
    1 ≤ lengthOfUnsignedVint v ∧ lengthOfUnsignedVint v ≤ 9 ∧
    (lengthOfUnsignedVint v ≤ 8 → v < 2 ^ (7 * lengthOfUnsignedVint v)) ∧
    (2 ≤ lengthOfUnsignedVint v → 2 ^ (7 * (lengthOfUnsignedVint v - 1)) ≤ v) := vint_class v hv

/-- `decodeZigZag(encodeZigZag(n)) == n` for every `int64` -/
theorem C03_zigzag (n : BitVec 64) : decodeZigZag (encodeZigZag n) = n := decodeZigZag_encodeZigZag n

/-- zig-zag in arithmetic terms: `n ≥ 0 ↦ 2n`, `n < 0 ↦ -2n - 1` (on the unsigned patterns) -/
theorem C03_zigzag_value (n : BitVec 64) : (encodeZigZag n).toNat =
    if n.toNat < 9223372036854775808 then 2 * n.toNat else 36893488147419103231 - 2 * n.toNat :=
  encodeZigZag_toNat n

theorem C03_vint_length (n : BitVec 64) : (writeVint n).length = lengthOfVint n := writeVint_len n

theorem C03_vint_roundtrip (n : BitVec 64) (rest : Bytes) : readVint.run (writeVint n ++ rest) = .ok (n, rest) :=
  readVint_RT n rest

/-- the same on mathematical integers in the `int64` range -/
theorem C03_vint_roundtrip_int (i : Int) (h1 : -9223372036854775808 ≤ i) (h2 : i ≤ 9223372036854775807) (rest : Bytes) :
    (readVint.run (writeVint (BitVec.ofInt 64 i) ++ rest)) = .ok (BitVec.ofInt 64 i, rest) ∧
    (BitVec.ofInt 64 i).toInt = i :=
  ⟨readVint_RT _ rest, Value.toInt_ofInt64 i h1 h2⟩

/-- C12 for vints: the bytes are the ones §3 of the specification describes (`e` leading one-bits for `e` extra bytes,
    the least `e` that holds the value, big-endian payload; zig-zag `0,-1,1,-2,… ↦ 0,1,2,3,…`) -/
theorem C12_unsignedVint_layout (v : Nat) (hv : v < 18446744073709551616) : writeUnsignedVint v = Spec.unsignedVint v :=
  Value.writeUnsignedVint_eq_spec v hv

theorem C12_vint_layout (i : Int) (h1 : -9223372036854775808 ≤ i) (h2 : i ≤ 9223372036854775807) :
    writeVint (BitVec.ofInt 64 i) = Spec.vint i := Value.writeVint_eq_spec i h1 h2

/-- C04 for vints: no byte string makes the readers panic -/
theorem C04_vint_noPanic : NoPanic readUnsignedVint ∧ NoPanic readVint :=
  ⟨Vint.NoPanic.readUnsignedVint, Vint.NoPanic.readVint⟩

/-! non-vacuity / sanity: the specification's own example and the class boundaries -/

example : writeUnsignedVint 256000 = [0xC3, 0xE8, 0x00] := by decide
example : readUnsignedVint.run [0xC3, 0xE8, 0x00, 0x07] = .ok (256000, [0x07]) := by decide
example : [0, 127, 128, 16383, 16384].map lengthOfUnsignedVint = [1, 1, 2, 2, 3] := by decide
example : lengthOfUnsignedVint 72057594037927935 = 8 ∧ lengthOfUnsignedVint 72057594037927936 = 9 ∧
    lengthOfUnsignedVint 18446744073709551615 = 9 := by decide
example : writeVint (BitVec.ofInt 64 (-1)) = [0x01] ∧ writeVint (BitVec.ofInt 64 1) = [0x02] := by decide
example : writeUnsignedVint 18446744073709551615 = [0xFF, 0xFF, 0xFF, 0xFF, 0xFF, 0xFF, 0xFF, 0xFF, 0xFF] := by decide
-- a truncated vint is an error, not a panic
example : readUnsignedVint.run [0xC3, 0xE8] = .err "eof" := by decide

end Cql.Props.C03Vint
