import Cql.ManagedMicro
import Cql.Gen.InflightFacts
import Cql.Props.C09Concurrent
/-!
# C09 with managed stream ids under concurrency (step interleavings of senders and the reader)

`Cql/Props/C09.lean` proves C09 for API-level histories, `Cql/Props/C09Concurrent.lean` for concurrent senders with
caller-chosen ids. Here: automatic assignment, any number of senders running step by step while the reader goroutine
processes final responses step by step, EVERY interleaving. Proved for the code's order (remove the registration, then put
the id back):

* every id is, at every moment, in exactly one place (pool, table, a sender's hands, the reader's hands): no id is ever
  given to two unanswered requests, ids stay within 1..N, at most N are registered;
* a sender that got an id out of the pool is never refused afterwards — so no id is ever lost;
* whenever nothing is in progress and every request has been answered, all N ids are back in the pool, and N new requests
  are accepted.

And for the other order (put the id back, then remove the registration) a schedule is exhibited that loses an id for good.
-/
namespace Cql.Props.C09Managed
open Cql.ManagedMicro

/-- the invariant of the code's order -/
structure Inv (s : St) : Prop where
  perm : (allIds s).Perm (List.range' 1 s.n)
  found : ∀ id, s.reader = .found id → id ∈ s.inFlight
  noLeak : s.leaked = []

theorem inv_init (n : Nat) : Inv (init n) :=
  ⟨by simp [allIds, init, heldByReader], by intro id h; simp [init] at h, rfl⟩

theorem Inv.nodup {s : St} (h : Inv s) : (allIds s).Nodup := h.perm.nodup_iff.mpr (List.nodup_range' ..)
theorem Inv.length {s : St} (h : Inv s) : (allIds s).length = s.n := by rw [h.perm.length_eq, List.length_range']

theorem Inv.range {s : St} (h : Inv s) (id : Nat) (hm : id ∈ allIds s) : 1 ≤ id ∧ id ≤ s.n := by
  have := (h.perm.mem_iff).mp hm
  simp only [List.mem_range'_1] at this
  omega

/-- **a sender holding an id is never refused**: its id is not registered (every id is in one place) and the table cannot be
    full (it holds at most the other N−1 ids) -/
theorem held_admissible {s : St} (h : Inv s) (id : Nat) (hm : id ∈ s.held) : admissible s id = true := by
  have hnd := h.nodup
  have hlen := h.length
  simp only [allIds, List.length_append] at hlen
  have hpos : 0 < s.held.length := List.length_pos_of_mem hm
  have hni : id ∉ s.inFlight := by
    intro hin
    have h2 : (s.inFlight ++ (s.held ++ (s.leaked ++ heldByReader s))).Nodup := (List.nodup_append.mp hnd).2.1
    exact (List.nodup_append.mp h2).2.2 id hin id (List.mem_append_left _ hm) rfl
  simp only [admissible, Bool.and_eq_true, decide_eq_true_eq, Bool.not_eq_true', List.contains_eq_mem, decide_eq_false_iff_not]
  exact ⟨by omega, hni⟩

/-- counting argument used for every step: two lists with the same count of every element are permutations -/
theorem perm_of_count {l₁ l₂ : List Nat} (h : ∀ a, l₁.count a = l₂.count a) : l₁.Perm l₂ := List.perm_iff_count.mpr h

theorem count_erase_mem {l : List Nat} {b : Nat} (hb : b ∈ l) (a : Nat) :
    (l.erase b).count a + (if b = a then 1 else 0) = l.count a := by
  have hpos : 0 < l.count b := List.count_pos_iff.mpr hb
  rw [List.count_erase]
  split
  · rename_i hab; simp only [beq_iff_eq] at hab; subst hab; simp; omega
  · rename_i hab; simp only [beq_iff_eq] at hab; simp [hab]

theorem step_inv (s : St) (e : Ev) (h : Inv s) : Inv (step false s e) ∧ (step false s e).n = s.n := by
  cases e with
  | borrow =>
    cases hp : s.pool with
    | nil =>
      have e : step false s .borrow = s := by simp only [step, hp]
      rw [e]; exact ⟨h, rfl⟩
    | cons id rest =>
      have e : step false s .borrow = { s with pool := rest, held := id :: s.held } := by simp only [step, hp]
      rw [e]
      refine ⟨⟨?_, h.found, h.noLeak⟩, rfl⟩
      refine (perm_of_count ?_).trans h.perm
      intro a
      simp only [allIds, heldByReader, hp, List.count_append, List.count_cons]
      omega
  | check id =>
    simp only [step]
    split
    · rename_i hc
      simp only [Bool.and_eq_true, List.contains_eq_mem, decide_eq_true_eq, Bool.not_eq_true'] at hc
      rw [held_admissible h id hc.1] at hc
      exact absurd hc.2 (by simp)
    · exact ⟨h, rfl⟩
  | add id =>
    simp only [step]
    split
    · rename_i hc
      simp only [List.contains_eq_mem, decide_eq_true_eq] at hc
      rw [if_pos (held_admissible h id hc)]
      refine ⟨⟨?_, ?_, h.noLeak⟩, rfl⟩
      · refine (perm_of_count ?_).trans h.perm
        intro a
        have hce := count_erase_mem hc a
        simp only [allIds, heldByReader, List.count_append, List.count_cons]
        by_cases hia : id = a
        · subst hia; simp only [beq_self_eq_true] at hce ⊢; omega
        · have hb : (id == a) = false := by simpa using hia
          simp only [if_neg hia, hb] at hce ⊢; simp only [Bool.false_eq_true, if_false] ; omega
      · intro k hk
        exact List.mem_cons_of_mem _ (h.found k hk)
    · exact ⟨h, rfl⟩
  | arrive id =>
    simp only [step]
    cases hr : s.reader with
    | idle =>
      simp only
      split
      · rename_i hc
        simp only [List.contains_eq_mem, decide_eq_true_eq] at hc
        refine ⟨⟨?_, ?_, h.noLeak⟩, rfl⟩
        · have := h.perm
          simpa [allIds, heldByReader, hr] using this
        · intro k hk
          simp only [RPc.found.injEq] at hk
          exact hk ▸ hc
      · exact ⟨h, rfl⟩
    | found k => exact ⟨h, rfl⟩
    | half k => exact ⟨h, rfl⟩
  | reader =>
    cases hr : s.reader with
    | idle =>
      have e : step false s .reader = s := by simp only [step, readerStep, hr]
      rw [e]; exact ⟨h, rfl⟩
    | found k =>
      have e : step false s .reader = { s with inFlight := s.inFlight.erase k, reader := .half k } := by
        simp only [step, readerStep, hr, Bool.false_eq_true, if_false]
      rw [e]
      have hk : k ∈ s.inFlight := h.found k hr
      refine ⟨⟨?_, ?_, h.noLeak⟩, rfl⟩
      · refine (perm_of_count ?_).trans h.perm
        intro a
        have hce := count_erase_mem hk a
        simp only [allIds, heldByReader, hr, List.count_append, List.count_cons, List.count_nil]
        by_cases hia : k = a
        · subst hia; simp only [beq_self_eq_true] at hce ⊢; omega
        · have hb : (k == a) = false := by simpa using hia
          simp only [if_neg hia, hb] at hce ⊢; simp only [Bool.false_eq_true, if_false]; omega
      · intro j hj; simp at hj
    | half k =>
      have e : step false s .reader = { s with pool := s.pool ++ [k], reader := .idle } := by
        simp only [step, readerStep, hr, Bool.false_eq_true, if_false]
      rw [e]
      refine ⟨⟨?_, ?_, h.noLeak⟩, rfl⟩
      · refine (perm_of_count ?_).trans h.perm
        intro a
        simp only [allIds, heldByReader, hr, List.count_append, List.count_cons, List.count_nil]
        omega
      · intro j hj; simp at hj

theorem run_inv (s : St) (sched : List Ev) (h : Inv s) : Inv (run false s sched) ∧ (run false s sched).n = s.n := by
  induction sched generalizing s with
  | nil => exact ⟨h, rfl⟩
  | cons e es ih =>
    have h1 := step_inv s e h
    have h2 := ih (step false s e) h1.1
    exact ⟨h2.1, h2.2.trans h1.2⟩

/-- **C09 (managed ids, any interleaving of senders and the reader, the code's order).** At every moment: the registered ids are
    pairwise different, lie in 1..N and number at most N; no sender that obtained an id has been refused (nothing leaked). -/
theorem C09_managed_concurrent_safe (n : Nat) (sched : List Ev) :
    (run false (init n) sched).inFlight.Nodup ∧ (∀ id ∈ (run false (init n) sched).inFlight, 1 ≤ id ∧ id ≤ n) ∧
    (run false (init n) sched).inFlight.length ≤ n ∧ (run false (init n) sched).leaked = [] := by
  have h := run_inv (init n) sched (inv_init n)
  have hn : (run false (init n) sched).n = n := h.2
  have hnd := h.1.nodup
  have hlen := h.1.length
  refine ⟨?_, ?_, ?_, h.1.noLeak⟩
  · exact (List.nodup_append.mp (List.nodup_append.mp hnd).2.1).1
  · intro id hid
    have := h.1.range id (by simp only [allIds, List.mem_append]; exact Or.inr (Or.inl hid))
    omega
  · simp only [allIds, List.length_append] at hlen
    omega

/-- **… and the ids come back.** Whenever no sender and no delivery is in progress and every registered request has been
    answered, all N ids are in the pool again (each exactly once). -/
theorem C09_managed_all_ids_return (n : Nat) (sched : List Ev)
    (hq : (run false (init n) sched).held = [] ∧ (run false (init n) sched).reader = .idle ∧ (run false (init n) sched).inFlight = []) :
    ((run false (init n) sched).pool).Perm (List.range' 1 n) := by
  have h := run_inv (init n) sched (inv_init n)
  have hp := h.1.perm
  have hn : (run false (init n) sched).n = n := h.2
  rw [hn] at hp
  simpa [allIds, heldByReader, hq.1, hq.2.1, hq.2.2, h.1.noLeak] using hp

/-- so N new requests are then accepted: sending one more (borrow, check, add) from a state with `k+1` ids in the pool and an
    intact invariant registers an id and keeps the invariant -/
theorem C09_managed_send_accepted (s : St) (h : Inv s) (id : Nat) (rest : List Nat) (hp : s.pool = id :: rest) :
    (run false s [.borrow, .check id, .add id]).inFlight = id :: s.inFlight ∧
    (run false s [.borrow, .check id, .add id]).pool = rest ∧ Inv (run false s [.borrow, .check id, .add id]) := by
  have e1 : step false s .borrow = { s with pool := rest, held := id :: s.held } := by simp only [step, hp]
  have h1 : Inv { s with pool := rest, held := id :: s.held } := e1 ▸ (step_inv s .borrow h).1
  have hm : id ∈ ({ s with pool := rest, held := id :: s.held } : St).held := List.mem_cons_self
  have ha := held_admissible h1 id hm
  have hc : ({ s with pool := rest, held := id :: s.held } : St).held.contains id = true := by simp
  have e2 : step false { s with pool := rest, held := id :: s.held } (.check id) = { s with pool := rest, held := id :: s.held } := by
    simp only [step, ha, hc]; simp
  have e3 : step false { s with pool := rest, held := id :: s.held } (.add id) =
      { s with pool := rest, held := (id :: s.held).erase id, inFlight := id :: s.inFlight } := by
    simp only [step, ha, hc]; simp
  have hrun : run false s [.borrow, .check id, .add id] =
      { s with pool := rest, held := (id :: s.held).erase id, inFlight := id :: s.inFlight } := by
    simp only [run, e1, e2, e3]
  have h3 := (step_inv _ (.add id) h1).1
  rw [e3] at h3
  rw [hrun]
  exact ⟨rfl, rfl, h3⟩

/-- **The order the theorems are about is the order in the source** (`Cql/Gen/InflightFacts.lean` is regenerated from
    `client/inflight.go` on every run): the registration is removed before the id is put back; a sender borrows its id first,
    looks at the table under the read lock and again under the write lock; a refused sender does not hand its id back. -/
theorem C09_managed_code_order :
    Gen.InflightFacts.deliverReleasesBeforeRemoving = false ∧ Gen.InflightFacts.sendBorrowsBeforeLooking = true ∧
    Gen.InflightFacts.sendLooksBeforeAdding = true ∧ Gen.InflightFacts.addInFlightLooksAgain = true ∧
    Gen.InflightFacts.addInFlightHoldsWriteLock = true ∧ Gen.InflightFacts.refusedSenderHandsIdBack = false := by decide

/-- C09 for managed ids under every interleaving, stated for the order found in the source -/
theorem C09_managed_concurrent_safe_as_written (n : Nat) (sched : List Ev) :
    (run Gen.InflightFacts.deliverReleasesBeforeRemoving (init n) sched).inFlight.Nodup ∧
    (∀ id ∈ (run Gen.InflightFacts.deliverReleasesBeforeRemoving (init n) sched).inFlight, 1 ≤ id ∧ id ≤ n) ∧
    (run Gen.InflightFacts.deliverReleasesBeforeRemoving (init n) sched).inFlight.length ≤ n ∧
    (run Gen.InflightFacts.deliverReleasesBeforeRemoving (init n) sched).leaked = [] := by
  rw [C09_managed_code_order.1]
  exact C09_managed_concurrent_safe n sched

/-- `C09_concurrent_senders_safe` (caller-chosen ids, `Cql/Props/C09Concurrent.lean`) stated for what `addInFlight` does in the
    source: whether it looks at the table again under the write lock is read off the code, not assumed -/
theorem C09_concurrent_senders_safe_as_written (n : Nat) (threads : List InflightMicro.Thread) (schedule : List InflightMicro.Ev) :
    C09Concurrent.Safe (InflightMicro.run Gen.InflightFacts.addInFlightLooksAgain { n := n, threads := threads } schedule) := by
  rw [C09_managed_code_order.2.2.2.1]
  exact C09Concurrent.C09_concurrent_senders_safe n threads schedule

/-- **The other order loses ids.** With "put the id back, then remove the registration", N = 1: a request is sent and answered;
    while the reader is between its two effects a second sender takes the id out of the pool, finds it still registered and is
    refused — the id goes with it. Afterwards nothing is in progress, nothing is registered, and the pool is empty for good. -/
theorem C09_release_before_remove_loses_an_id :
    let s := run true (init 1) [.borrow, .check 1, .add 1, .arrive 1, .reader, .borrow, .check 1, .reader]
    s.pool = [] ∧ s.inFlight = [] ∧ s.held = [] ∧ s.reader = .idle ∧ s.leaked = [1] := by decide

/-- the same schedule under the code's order: the second sender finds the pool empty (it is refused, legitimately: the first
    request's response is still being processed) and the id is back in the pool at the end -/
example :
    let s := run false (init 1) [.borrow, .check 1, .add 1, .arrive 1, .reader, .borrow, .check 1, .reader]
    s.pool = [1] ∧ s.inFlight = [] ∧ s.held = [] ∧ s.reader = .idle ∧ s.leaked = [] := by decide

/-- non-vacuity: a reachable state with requests registered, a sender in progress and the reader between its two effects -/
example :
    let s := run false (init 3) [.borrow, .add 1, .borrow, .add 2, .borrow, .arrive 1, .reader]
    s.inFlight = [2] ∧ s.held = [3] ∧ s.reader = .half 1 ∧ s.pool = [] := by decide

end Cql.Props.C09Managed
