import Cql.Timer
import Cql.Lemmas.TimerLemmas
/-!
# C16 — connections terminate cleanly on close; timeouts fire after the read timeout of silence, not earlier

The timed model `Cql/Timer.lean` covers the part of C16 that is logic: the life-cycle of in-flight requests under every
history of {send, response page, last page, passing of time, handler close}. What the model cannot exhibit — goroutines that
outlive a connection, blocked socket reads, the scheduling of the close protocol's steps — is observed on the real client and
server by the harness (goroutine counts, bounded-time Close, fault injection at step boundaries) and is listed as partial.
-/
namespace Cql.Props.C16
open Cql.Timer

/-- **C16 (no double close).** Under every history the channel of every request is closed at most once — the run-time
    panic "close of closed channel" is unreachable — and `IsDone` is true exactly when it has been closed. -/
theorem C16_channel_closed_at_most_once (T : Nat) (hT : 0 < T) (es : List Ev) :
    ∀ r ∈ (run (init T) es).reqs, r.closes ≤ 1 ∧ (r.done = true ↔ r.closes = 1) := fun r hr =>
  let h := (run_good (init T) hT (init_good T) es).1 r hr
  ⟨h.closes_le, h.done_iff⟩

/-- **C16 (close completes every pending request).** Closing the handler at ANY moment completes every request still
    awaiting a response: its channel is closed and `Err()` is non-nil; requests completed before keep their outcome. -/
theorem C16_close_completes_pending (s : H) (hc : s.closed = false) :
    (step s .close).1.reqs = s.reqs.map (fun r => closeReq r (some .handlerClosed)) ∧
    ∀ r ∈ s.reqs, (closeReq r (some .handlerClosed)).done = true ∧
      (r.done = false → (closeReq r (some .handlerClosed)).err = some .handlerClosed) ∧
      (r.done = true → closeReq r (some .handlerClosed) = r) := by
  refine ⟨by simp [step, hc], fun r _ => ?_⟩
  unfold closeReq
  cases hd : r.done <;> simp [hd]

/-- after close (reached by any history) every request is done, and no timer is left running -/
theorem C16_after_close_all_done (T : Nat) (hT : 0 < T) (es : List Ev) (hc : (run (init T) es).closed = true) :
    ∀ r ∈ (run (init T) es).reqs, r.done = true ∧ r.deadline = none := fun r hr =>
  let h := (run_good (init T) hT (init_good T) es).1 r hr
  ⟨h.closed_done hc, h.done_timer (h.closed_done hc)⟩

/-- **C16 (later sends are refused).** On a closed handler sends and deliveries are refused with an error and change nothing. -/
theorem C16_closed_refuses (s : H) (hc : s.closed = true) (h : Nat) (last : Bool) :
    step s .send = (s, .refused) ∧ step s (.page h last) = (s, .refused) ∧ step s .close = (s, .ok) := by
  simp [step, hc]

/-- **C16 (timeout, not earlier).** A request fails with the timeout error only at a time at least one read timeout after its
    last activity (its send, or the arrival of its latest page): never while pages keep arriving within the timeout. -/
theorem C16_timeout_only_after_silence (T : Nat) (hT : 0 < T) (es : List Ev) :
    ∀ r ∈ (run (init T) es).reqs, r.err = some .timeout → ∃ t, r.firedAt = some t ∧ r.last + T ≤ t := fun r hr he => by
  have h := run_good (init T) hT (init_good T) es
  have := (h.1 r hr).timeout_late he
  rw [h.2] at this
  exact this

/-- every unfinished request has exactly one live timer, due one read timeout after its last activity, and that moment has
    not yet come -/
theorem C16_one_live_timer (T : Nat) (hT : 0 < T) (es : List Ev) :
    ∀ r ∈ (run (init T) es).reqs, r.done = false →
      r.deadline = some (r.last + T) ∧ (run (init T) es).now < r.last + T := fun r hr hd => by
  have h := run_good (init T) hT (init_good T) es
  have := (h.1 r hr).open_timer hd
  rw [h.2] at this
  exact this

/-- **C16 (timeout, eventually).** A request whose response never arrives fails with the timeout error once the read timeout
    has passed. -/
theorem C16_timeout_fires (T : Nat) (hT : 0 < T) (es : List Ev) (dt : Nat) :
    ∀ r ∈ (run (init T) es).reqs, r.done = false → r.last + T ≤ (run (init T) es).now + dt →
      (fire ((run (init T) es).now + dt) r).done = true ∧ (fire ((run (init T) es).now + dt) r).err = some .timeout := by
  intro r hr hd hle
  have hdl := (C16_one_live_timer T hT es r hr hd).1
  unfold fire
  rw [hdl]
  simp only
  rw [if_pos ⟨hle, by simp [hd]⟩]
  unfold closeReq
  simp [hd]

/-- the hypotheses are met by real histories: a request that gets two pages 3 apart (timeout 5) is alive at time 9, and
    fails at 11 = last page + 5; after close nothing is pending -/
example :
    let s := run (init 5) [.send, .advance 3, .page 0 false, .advance 3, .page 0 false, .advance 3]
    let s' := run s [.advance 2]
    s.reqs.map (·.done) = [false] ∧ s'.reqs.map (·.err) = [some .timeout] ∧ s'.reqs.map (·.firedAt) = [some 11] ∧
    (run s [.close]).reqs.map (·.err) = [some .handlerClosed] ∧ (step (run s [.close]) .send).2 = .refused := by decide

end Cql.Props.C16
