import Cql.Props.C01
/-!
# C03 — declared lengths equal emitted bytes; back-to-back frames decode in sequence

The length calculators (`lengthOf*`, `uncompressedBodyLength`) are separate transcriptions of the Go `LengthOf*` /
`EncodedLength` functions, not derived from the writers.
-/
namespace Cql.Props.C03
open Cql Cql.Prim Cql.Parser Cql.Gen Cql.Impl Cql.Props.C01

/-- every primitive notation: the length it reports for itself is the number of bytes its writer emits
    (over the whole value domain — no size hypothesis at all) -/
theorem C03_primitive_lengths :
    (∀ n, (writeByte n).length = lengthOfByte) ∧ (∀ n, (writeShort n).length = lengthOfShort) ∧
    (∀ n, (writeInt n).length = lengthOfInt) ∧ (∀ n, (writeLong n).length = lengthOfLong) ∧
    (∀ s, (writeString s).length = lengthOfString s) ∧ (∀ s, (writeLongString s).length = lengthOfLongString s) ∧
    (∀ b, (writeBytes b).length = lengthOfBytes b) ∧ (∀ b, (writeShortBytes b).length = lengthOfShortBytes b) ∧
    (∀ l, (writeStringList l).length = lengthOfStringList l) ∧ (∀ m, (writeStringMap m).length = lengthOfStringMap m) ∧
    (∀ m, (writeStringMultiMap m).length = lengthOfStringMultiMap m) ∧ (∀ m, (writeBytesMap m).length = lengthOfBytesMap m) :=
  ⟨writeByte_len, writeShort_len, writeInt_len, writeLong_len, writeString_len, writeLongString_len, writeBytes_len,
   writeShortBytes_len, writeStringList_len, writeStringMap_len, writeStringMultiMap_len, writeBytesMap_len⟩

/-- the notations whose writer can refuse: whenever it writes, the reported length is what it wrote -/
theorem C03_fallible_primitive_lengths (version : Nat) :
    (∀ v b, writeValue version v = .ok b → lengthOfValue v = .ok b.length) ∧
    (∀ vs b, writePositionalValues version vs = .ok b → lengthOfPositionalValues vs = .ok b.length) ∧
    (∀ vs b, writeNamedValues version vs = .ok b → lengthOfNamedValues vs = .ok b.length) ∧
    (∀ ip b, (∀ x, ip = some x → validIp x) → writeInetAddr ip = .ok b → lengthOfInetAddr ip = .ok b.length) ∧
    (∀ t b, DataType.write version t = .ok b → DataType.lengthOf version t = .ok b.length) :=
  ⟨writeValue_len version, writePositionalValues_len version, writeNamedValues_len version,
   fun ip b hv hw => writeInetAddr_len ip hv b hw, DataType.write_len version⟩

/-- every message kind: `EncodedLength` = number of bytes `Encode` writes -/
theorem C03_message_length (version : Nat) (m : Msg) (hv : ValidMsg version m) (b : Bytes)
    (hw : encodeMsg version m = .ok b) : lengthOfMsg version m = .ok b.length :=
  encodeMsg_len version m hv b hw

/-- **Frames: the body length written in the header is the number of body bytes emitted**, with and without body
    compression; the frame is exactly header + that many bytes. -/
theorem C03_declared_body_length (c : Option BodyCompressor) (f : Frame) (hv : ValidFrame c f) (b : Bytes) (bl : Nat)
    (hw : encodeFrame c f = .ok (b, bl)) :
    b.length = headerLength f.header.version + bl ∧
    ∃ h rest, decodeHeader.run b = .ok (h, rest) ∧ h.bodyLength = bl ∧ rest.length = bl := by
  have hrt := C01_frame_roundtrip c f hv b bl hw []
  rw [List.append_nil] at hrt
  rw [encodeFrame] at hw
  cases hc : hasFlag f.header.flags HeaderFlagCompressed with
  | false =>
    rw [hc, if_neg (by decide)] at hw
    obtain ⟨n, hn, hw⟩ := Res.bind_ok_inv hw
    obtain ⟨hdr, hhdr, hw⟩ := Res.bind_ok_inv hw
    obtain ⟨body, hbody, hw⟩ := Res.bind_ok_inv hw
    have hw := Res.pure_ok_inv hw
    have hb : b = hdr ++ body := (congrArg Prod.fst hw).symm
    have hbl : bl = n % 4294967296 := (congrArg Prod.snd hw).symm
    rw [encodeBody.eq_def] at hbody
    obtain ⟨_, _, hbody⟩ := Res.bind_ok_inv hbody
    have hc' : hasFlag ({ f.header with bodyLength := n % 4294967296 } : Header).flags HeaderFlagCompressed = false := hc
    rw [hc', if_neg (by decide)] at hbody
    have hbody' : encodeBodyUncompressed f.header f.body = .ok body := hbody
    have hlen := encodeBodyUncompressed_len f.header f.body hv.body body hbody'
    rw [hn] at hlen
    have hn' : n = body.length := Res.ok_inj hlen
    have hsz := hv.size body hbody'
    have hmod : n % 4294967296 = body.length := by rw [hn']; exact Nat.mod_eq_of_lt (by omega)
    have hl := encodeHeader_len _ hdr hhdr
    have hvh : ValidHeader { f.header with bodyLength := n % 4294967296 } :=
      { version := hv.version, flags := hv.flags, streamId := hv.streamId
        opCode := by
          show OpCode_IsValid f.header.opCode = true
          rw [hv.body.opCode]; cases f.body.message <;> rfl
        direction := by
          show f.header.isResponse = OpCode_IsResponse f.header.opCode
          rw [hv.body.direction, hv.body.opCode]; rfl
        bodyLength := Nat.mod_lt _ (by decide) }
    refine ⟨by rw [hb, List.length_append, hl, hbl, hmod], { f.header with bodyLength := bl }, body, ?_, rfl, ?_⟩
    · rw [hb, hbl]; exact decodeHeader_RT _ hvh hdr hhdr body
    · rw [hbl, hmod]
  | true =>
    rw [hc, if_pos rfl] at hw
    obtain ⟨body, hbody, hw⟩ := Res.bind_ok_inv hw
    obtain ⟨hdr, hhdr, hw⟩ := Res.bind_ok_inv hw
    have hw := Res.pure_ok_inv hw
    have hb : b = hdr ++ body := (congrArg Prod.fst hw).symm
    have hbl : bl = body.length % 4294967296 := (congrArg Prod.snd hw).symm
    obtain ⟨comp, hcomp, hloss⟩ := hv.compression hc
    have hop : (f.header.opCode == f.body.message.opCode) = true := by rw [hv.body.opCode]; exact beq_self_eq_true _
    rw [encodeBody.eq_def, hop, hc, if_pos rfl, hcomp] at hbody
    obtain ⟨_, _, hbody⟩ := Res.bind_ok_inv hbody
    obtain ⟨_, _, hbody⟩ := Res.bind_ok_inv hbody
    obtain ⟨raw, hraw, hbody⟩ := Res.bind_ok_inv hbody
    obtain ⟨_, hlen⟩ := hloss raw hraw body hbody
    have hmod : body.length % 4294967296 = body.length := Nat.mod_eq_of_lt (by omega)
    have hl := encodeHeader_len _ hdr hhdr
    have hvh : ValidHeader { f.header with bodyLength := body.length % 4294967296 } :=
      { version := hv.version, flags := hv.flags, streamId := hv.streamId
        opCode := by
          show OpCode_IsValid f.header.opCode = true
          rw [hv.body.opCode]; cases f.body.message <;> rfl
        direction := by
          show f.header.isResponse = OpCode_IsResponse f.header.opCode
          rw [hv.body.direction, hv.body.opCode]; rfl
        bodyLength := Nat.mod_lt _ (by decide) }
    refine ⟨by rw [hb, List.length_append, hl, hbl, hmod], { f.header with bodyLength := bl }, body, ?_, rfl, ?_⟩
    · rw [hb, hbl]; exact decodeHeader_RT _ hvh hdr hhdr body
    · rw [hbl, hmod]

/-- **The decoder consumes exactly header + declared body length**: whatever follows the frame is left untouched. -/
theorem C03_decoder_consumes_exactly (c : Option BodyCompressor) (f : Frame) (hv : ValidFrame c f) (b : Bytes) (bl : Nat)
    (hw : encodeFrame c f = .ok (b, bl)) (rest : Bytes) :
    ∃ f', (decodeFrame c).run (b ++ rest) = .ok (f', rest) ∧ b.length = headerLength f.header.version + bl :=
  ⟨_, C01_frame_roundtrip c f hv b bl hw rest, (C03_declared_body_length c f hv b bl hw).1⟩

/-- decode `k` frames one after the other from one stream -/
def decodeFrames (c : Option BodyCompressor) : Nat → Parser (List Frame)
  | 0 => pure []
  | k + 1 => do
    let f ← decodeFrame c
    let fs ← decodeFrames c k
    pure (f :: fs)

/-- **Any finite sequence of frames written back-to-back on one stream decodes to the same sequence, with nothing left
    over or short** (by induction over the sequence; each frame may use its own flags, version, compression flag). -/
theorem C03_back_to_back (c : Option BodyCompressor) :
    ∀ (fs : List (Frame × Bytes × Nat)), (∀ x ∈ fs, ValidFrame c x.1 ∧ encodeFrame c x.1 = .ok (x.2.1, x.2.2)) →
      ∀ rest, (decodeFrames c fs.length).run ((fs.map (·.2.1)).flatten ++ rest) =
        .ok (fs.map (fun x => canonFrame x.1 x.2.2), rest)
  | [], _, rest => rfl
  | x :: xs, h, rest => by
    obtain ⟨hv, hw⟩ := h x List.mem_cons_self
    rw [List.length_cons, decodeFrames, List.map_cons, List.flatten_cons, List.append_assoc,
      bind_ok (C01_frame_roundtrip c x.1 hv x.2.1 x.2.2 hw _),
      bind_ok (C03_back_to_back c xs (fun y hy => h y (List.mem_cons_of_mem _ hy)) rest)]
    rfl

end Cql.Props.C03
