import Cql.Props.C06AsWritten
import Cql.Props.C07
/-!
# C07 for the header bytes AS WRITTEN (`segment/encode.go` + `crc/crc24.go`): 1..7 flipped bits are rejected

The functions below are regenerated on every run from the Go source (`Cql/Gen/GoFn*.lean`, statement by statement onto bit
vectors). Through the tie lemmas of `Cql/Lemmas/GoFnTie/*.lean` the theorems about the hand-written models hold for them.
-/
namespace Cql.Props.C07AsWritten
open Cql Cql.Prim Cql.Parser Cql.GoFnTie Cql.Segment Cql.Crc

open Cql.Props.C06AsWritten

/-- **C07 as written, end to end for the header.** The six bytes produced by the header code as written, with between 1
    and 7 bits flipped, are rejected by the segment decoder -/
theorem C07_header_as_written_bitflips_rejected (l : BitVec 32) (sc : Bool) (h : l.toNat ≤ 131071)
    (mask rest : Bytes) (hlen : mask.length = 6) (h1 : 1 ≤ Detect.popcountBytes mask) (h7 : Detect.popcountBytes mask ≤ 7) :
    (decodeSegment none).run
      (Detect.xorBytes (leBytes 3 (Gen.GoFn.encodeHeaderUncompressed l sc).1.toNat ++
        leBytes 3 (Gen.GoFn.ChecksumKoopman (Gen.GoFn.encodeHeaderUncompressed l sc).1
          (Gen.GoFn.encodeHeaderUncompressed l sc).2).toNat) mask ++ rest) = .err "crc mismatch on header" := by
  rw [← C06_header_uncompressed_as_written l sc h, Segment.encodeHeaderUncompressed]
  have hd : (l.toNat ||| if sc = true then 1 <<< 17 else 0) < 2 ^ (8 * headerLength none) := by
    have hpl : l.toNat < 2 ^ 24 := by omega
    apply Nat.or_lt_two_pow hpl
    cases sc <;> decide
  exact Props.C07.segment_header_bitflips_rejected none _ hd mask rest hlen h1 h7


end Cql.Props.C07AsWritten
