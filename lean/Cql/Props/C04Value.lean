import Cql.Value
import Cql.Lemmas.ValueRT
/-!
# C04 at value level — `Decode` never panics on arbitrary bytes

`Cql.Value.decode` reaches `.panic` exactly where the Go code can reach a run-time panic with caller-controlled data:
`readUdt` (and `writeUdt`) index `fieldNames[i]` while ranging over the field CODECS, so a hand-built
`datatype.UserDefined` with fewer names than field types panics. `NamesCover t` excludes exactly that; every type
descriptor obtained from the wire (`ReadDataType`) and every type built with `datatype.NewUserDefined` satisfies it.
Negative collection sizes, sizes beyond the remaining input, short input, wrong fixed lengths and trailing bytes are
errors, not panics.
-/
namespace Cql.Props.C04Value
open Cql Cql.Prim Cql.Value Cql.Gen

/-- no byte string (nil, empty or otherwise) makes the decoder of any type panic, in any version -/
theorem C04_decode_noPanic (version : Nat) (t : DataType) (h : NamesCover t) (bs : Option Bytes) (e : String) :
    decode version t bs ≠ .panic e := decode_noPanic version t h bs e

/-- in particular for every type descriptor that was itself read from the wire: type bytes and value bytes are both
    arbitrary -/
theorem C04_decode_noPanic_wire (version : Nat) (typeBytes : Bytes) (t : DataType) (rest : Bytes)
    (ht : (DataType.read version).run typeBytes = .ok (t, rest)) (bs : Option Bytes) (e : String) :
    decode version t bs ≠ .panic e :=
  decode_noPanic version t (read_namesCover version typeBytes t rest ht) bs e

/-- the hypothesis is needed: a UDT type with a field type but no field name panics in `readUdt`
    (`name := fieldNames[i]`) — and only once the decoder gets as far as that field -/
example : decode 4 (.udt [] [] [] [.prim DataTypeCodeInt]) (some [0, 0, 0, 4, 0, 0, 0, 1]) =
    .panic "readUdt: fieldNames index out of range" := rfl
example : decode 4 (.udt [] [] [] [.prim DataTypeCodeInt]) (some []) = .ok none := rfl

/-- errors, not panics -/
example : decode 4 (.list (.prim DataTypeCodeInt)) (some [0xFF, 0xFF, 0xFF, 0xFF]) = .err "negative collection size" := rfl
example : decode 4 (.list (.prim DataTypeCodeInt)) (some [0x7F, 0xFF, 0xFF, 0xFF]) =
    .err "collection size exceeds remaining bytes" := rfl
example : decode 4 (.list (.prim DataTypeCodeInt)) (some [0, 0, 0, 1, 0, 0, 0, 2, 7, 7]) = .err "wrong fixed length" := rfl
example : decode 4 (.tuple [.prim DataTypeCodeInt, .prim DataTypeCodeInt]) (some [0, 0, 0, 4, 0, 0, 0, 1]) = .err "eof" := rfl
example : decode 4 (.prim DataTypeCodeInt) (some [0, 0, 0, 1, 9]) = .err "wrong fixed length" := rfl
-- a UDT (unlike a tuple) may stop early: input exhausted before a field is neither a panic nor an error, the field is
-- NULL (spec §6; `Cql.Props.C12.C12_udt_fewer_fields`); a field cut short is still an error
example : decode 4 (.udt [] [] [[0x61], [0x62]] [.prim DataTypeCodeBlob, .prim DataTypeCodeBlob])
    (some [0, 0, 0, 1, 7]) = .ok (some (.udt [some (.bytes [7]), none])) := rfl
example : decode 4 (.udt [] [] [[0x61], [0x62]] [.prim DataTypeCodeBlob, .prim DataTypeCodeBlob])
    (some [0, 0, 0, 1, 7, 0, 0]) = .err "eof" := rfl

end Cql.Props.C04Value
