import Cql.InflightMicro
/-!
# C09 under concurrent senders (critical-section interleavings)

Complements `Cql/Props/C09.lean` (API-level histories): here several goroutines send with caller-chosen ids while a responder
answers, and ANY interleaving of their critical sections is considered.
-/
namespace Cql.Props.C09Concurrent
open Cql.InflightMicro

/-- no id is registered twice and the limit holds -/
def Safe (s : St) : Prop := s.inFlight.Nodup ∧ s.inFlight.length ≤ s.n

theorem admissible_spec (s : St) (id : Int) (h : admissible s id = true) : s.inFlight.length < s.n ∧ id ∉ s.inFlight := by
  simp only [admissible, Bool.and_eq_true, decide_eq_true_eq, Bool.not_eq_true', List.contains_eq_mem,
    decide_eq_false_iff_not] at h
  exact h

theorem threadStep_safe (s : St) (t : Thread) (hs : Safe s) : Safe (threadStep true s t).1 ∧ (threadStep true s t).1.n = s.n := by
  unfold threadStep
  cases t.pc with
  | start => exact ⟨hs, rfl⟩
  | finished a => exact ⟨hs, rfl⟩
  | checked ok =>
    simp only [if_true]
    split
    · rename_i h
      simp only [Bool.and_eq_true] at h
      obtain ⟨hlt, hni⟩ := admissible_spec s t.id h.2
      exact ⟨⟨List.nodup_cons.mpr ⟨hni, hs.1⟩, by show (t.id :: s.inFlight).length ≤ s.n; simp; omega⟩, rfl⟩
    · exact ⟨hs, rfl⟩

theorem step_safe (s : St) (e : Ev) (hs : Safe s) : Safe (step true s e) := by
  cases e with
  | respond k =>
    show Safe { s with inFlight := s.inFlight.erase k }
    exact ⟨hs.1.erase k, Nat.le_trans (List.length_erase_le ..) hs.2⟩
  | thread i =>
    simp only [step]
    cases ht : s.threads[i]? with
    | none => exact hs
    | some t =>
      have h := threadStep_safe s t hs
      exact ⟨h.1.1, by show (threadStep true s t).1.inFlight.length ≤ (threadStep true s t).1.n; exact h.1.2⟩

/-- **C09 (concurrent senders, repaired code).** Under EVERY interleaving of the critical sections of any number of senders
    (any caller-chosen ids, the same id as often as one likes) and a responder, no stream id is ever registered for two
    unanswered requests and the limit of N in-flight requests is never exceeded. -/
theorem C09_concurrent_senders_safe (n : Nat) (threads : List Thread) (schedule : List Ev) :
    Safe (run true { n := n, threads := threads } schedule) := by
  have h0 : Safe ({ n := n, threads := threads } : St) := ⟨List.nodup_nil, Nat.zero_le _⟩
  generalize ({ n := n, threads := threads } : St) = s at h0
  induction schedule generalizing s with
  | nil => exact h0
  | cons e es ih => exact ih (step true s e) (step_safe s e h0)

/-- a sender is accepted only if, AT THE MOMENT OF REGISTRATION, its id was free and the limit not reached -/
theorem C09_accepted_means_free_at_registration (s : St) (t : Thread) (ok : Bool) (hpc : t.pc = .checked ok)
    (hacc : (threadStep true s t).2.pc = .finished true) : t.id ∉ s.inFlight ∧ s.inFlight.length < s.n := by
  unfold threadStep at hacc
  rw [hpc] at hacc
  simp only [if_true] at hacc
  split at hacc
  · rename_i h
    simp only [Bool.and_eq_true] at h
    have := admissible_spec s t.id h.2
    exact ⟨this.2, this.1⟩
  · simp at hacc

/-- … and a sender whose id is in use or who finds the table full at that moment is refused -/
theorem C09_in_use_refused_at_registration (s : St) (t : Thread) (ok : Bool) (hpc : t.pc = .checked ok)
    (hbusy : t.id ∈ s.inFlight ∨ s.n ≤ s.inFlight.length) :
    (threadStep true s t).2.pc = .finished false ∧ (threadStep true s t).1 = s := by
  have hna : admissible s t.id = false := by
    cases h : admissible s t.id with
    | false => rfl
    | true =>
      have := admissible_spec s t.id h
      cases hbusy with
      | inl hb => exact absurd hb this.2
      | inr hb => omega
  unfold threadStep
  rw [hpc]
  simp [hna]

/-- **The original code was not safe** (the defect repaired by the `fix:` commit recorded in known_findings.txt): two senders
    with the same caller-chosen id, interleaved check–check–insert–insert, are BOTH accepted. The model exhibits it; the
    harness replays this schedule shape on the real handler. -/
theorem C09_original_code_unsafe :
    let s := run false { n := 4, threads := [{ id := 7 }, { id := 7 }] } [.thread 0, .thread 1, .thread 0, .thread 1]
    s.inFlight = [7, 7] ∧ s.threads.map (·.pc) = [.finished true, .finished true] := by decide

/-- with the repaired code the same schedule accepts exactly one of them -/
example :
    let s := run true { n := 4, threads := [{ id := 7 }, { id := 7 }] } [.thread 0, .thread 1, .thread 0, .thread 1]
    s.inFlight = [7] ∧ s.threads.map (·.pc) = [.finished true, .finished false] := by decide

end Cql.Props.C09Concurrent
