import Cql.Inflight
import Cql.Lemmas.InflightLemmas
/-!
# C10 — responses reach exactly the request with the same stream id

Same model as C09 (`Cql.Inflight`). Here NO assumption is made on how ids were chosen (managed or explicit, mixed), and
the theorems hold for every state / every history. Frames carry a tag, so delivering to the wrong request, twice, or out
of order is a disequality.
-/
namespace Cql.Props.C10
open Cql.Inflight

private theorem getElem?_setReq (reqs : List Req) (h j : Nat) (r : Req) :
    (setReq reqs h r)[j]? = if h = j then (if j < reqs.length then some r else none) else reqs[j]? := by
  rw [setReq, List.getElem?_set]
  by_cases hj : h = j
  · simp [hj]
  · simp [hj]

/-- A response for an unknown stream id is dropped: an error is returned and NOTHING changes. -/
theorem C10_unknown_dropped (s : S) (k : Int) (l : Bool) (t : Nat) (hk : lookup s.inFlight k = none) :
    ∃ e, deliver s k l t = (s, .err e) := by
  rw [deliver]
  cases s.closed with
  | true => exact ⟨_, rfl⟩
  | false => simp only [Bool.false_eq_true, if_false, hk]; exact ⟨_, rfl⟩

/-- A delivery never touches a request other than the one registered under the frame's stream id. -/
theorem C10_others_untouched (s : S) (k : Int) (l : Bool) (t : Nat) (j : Nat) (hj : lookup s.inFlight k ≠ some j) :
    (deliver s k l t).1.reqs[j]? = s.reqs[j]? := by
  rw [deliver]
  cases s.closed with
  | true => rfl
  | false =>
    simp only [Bool.false_eq_true, if_false]
    cases hl : lookup s.inFlight k with
    | none => rfl
    | some h =>
      simp only []
      have hne : h ≠ j := fun e => hj (by rw [hl, e])
      cases hr : s.reqs[h]? with
      | none => rfl
      | some r =>
        simp only []
        split
        · rfl
        · exact (getElem?_setReq _ _ _ _).trans (if_neg hne)

/-- What the addressed request sees: on success exactly this frame is appended after everything delivered before
    (arrival order, exactly once), and the request completes precisely on the last page. On failure its queue is unchanged. -/
theorem C10_addressee (s : S) (k : Int) (l : Bool) (t : Nat) (h : Nat) (r : Req)
    (hl : lookup s.inFlight k = some h) (hr : s.reqs[h]? = some r) :
    ((deliver s k l t).2 = .delivered →
        (deliver s k l t).1.reqs[h]? = some { r with delivered := r.delivered ++ [t], done := l } ∧ r.done = false) ∧
    ((deliver s k l t).2 ≠ .delivered →
        ∀ r', (deliver s k l t).1.reqs[h]? = some r' → r'.delivered = r.delivered) := by
  have hlt : h < s.reqs.length := (List.getElem?_eq_some_iff.mp hr).1
  rw [deliver]
  cases s.closed with
  | true =>
    simp only [if_true]
    exact ⟨fun h' => (by cases h'), fun _ r' hr' => by rw [hr] at hr'; cases hr'; rfl⟩
  | false =>
    simp only [Bool.false_eq_true, if_false, hl, hr]
    split
    · exact ⟨fun h' => (by cases h'), fun _ r' hr' => by rw [hr] at hr'; cases hr'; rfl⟩
    · show ((receive s.maxPending r l t).2 = .delivered →
            (setReq s.reqs h (receive s.maxPending r l t).1)[h]? =
              some { r with delivered := r.delivered ++ [t], done := l } ∧ r.done = false) ∧
          ((receive s.maxPending r l t).2 ≠ .delivered →
            ∀ r', (setReq s.reqs h (receive s.maxPending r l t).1)[h]? = some r' → r'.delivered = r.delivered)
      rw [getElem?_setReq, if_pos rfl, if_pos hlt, receive]
      cases hd : r.done with
      | true =>
        simp only [if_true]
        exact ⟨fun h' => (by cases h'), fun _ r' hr' => by cases hr'; rfl⟩
      | false =>
        simp only [Bool.false_eq_true, if_false]
        by_cases hp : r.delivered.length - r.consumed < s.maxPending
        · simp only [hp, if_true]
          exact ⟨fun _ => ⟨by first | rfl | trivial, by first | rfl | trivial⟩, fun h' => absurd rfl h'⟩
        · simp only [hp, if_false]
          exact ⟨fun h' => (by cases h'), fun _ r' hr' => by cases hr'; rfl⟩

/-- in-flight entries always point at a request that carries exactly that stream id (and handles are in range) -/
def Wf (s : S) : Prop := ∀ p ∈ s.inFlight, ∃ r, s.reqs[p.2]? = some r ∧ r.streamId = p.1

theorem wf_init (n p : Nat) : Wf (init n p) := by intro p hp; simp [init] at hp

private theorem receive_id (mp : Nat) (r : Req) (l : Bool) (t : Nat) : (receive mp r l t).1.streamId = r.streamId := by
  rw [receive]; split
  · rfl
  · split <;> rfl

theorem wf_step (s : S) (op : Op) (hw : Wf s) : Wf (step s op).1 := by
  cases op with
  | send k =>
    have reg : ∀ (t : S) (x : Int) (m : Bool), Wf t → Wf (register t x m).1 := by
      intro t x m ht
      rw [register]
      split
      · exact ht
      · split
        · exact ht
        · intro p hp
          simp only [List.mem_cons] at hp
          rcases hp with hp | hp
          · subst hp; exact ⟨{ streamId := x, managed := m }, by simp, rfl⟩
          · obtain ⟨r, hr, hs⟩ := ht p hp
            exact ⟨r, by rw [List.getElem?_append_left (List.getElem?_eq_some_iff.mp hr).1]; exact hr, hs⟩
    simp only [step, send]
    split
    · exact hw
    · split
      · split
        · exact hw
        · exact reg _ _ _ (fun p hp => hw p hp)
      · exact reg _ _ _ hw
  | deliver k l t =>
    simp only [step]
    rw [deliver]
    split
    · exact hw
    · cases hl : lookup s.inFlight k with
      | none => exact hw
      | some h =>
        simp only []
        cases hr : s.reqs[h]? with
        | none => exact hw
        | some r =>
          simp only []
          have sub : ∀ (m : List (Int × Nat)), (∀ p ∈ m, p ∈ s.inFlight) → ∀ (reqs' : List Req),
              (∀ j, reqs'[j]? = if h = j then some (receive s.maxPending r l t).1 else s.reqs[j]?) →
              ∀ p ∈ m, ∃ r', reqs'[p.2]? = some r' ∧ r'.streamId = p.1 := by
            intro m hm reqs' hreqs p hp
            obtain ⟨r0, hr0, hs0⟩ := hw p (hm p hp)
            by_cases hph : h = p.2
            · refine ⟨_, by rw [hreqs, if_pos hph], ?_⟩
              rw [receive_id]
              rw [← hph, hr] at hr0; cases hr0; exact hs0
            · exact ⟨r0, by rw [hreqs, if_neg hph]; exact hr0, hs0⟩
          have hset : ∀ j, (setReq s.reqs h (receive s.maxPending r l t).1)[j]? =
              if h = j then some (receive s.maxPending r l t).1 else s.reqs[j]? := by
            intro j
            rw [getElem?_setReq]
            by_cases hj : h = j
            · rw [if_pos hj, if_pos hj, if_pos (by rw [← hj]; exact (List.getElem?_eq_some_iff.mp hr).1)]
            · rw [if_neg hj, if_neg hj]
          split
          · split
            · intro p hp; rw [mem_erase] at hp; exact hw p hp.1
            · exact hw
          · have hm : ∀ p ∈ (if l = true then erase s.inFlight k else s.inFlight), p ∈ s.inFlight := by
              intro p hp
              split at hp
              · exact ((mem_erase _ _ _).mp hp).1
              · exact hp
            split
            · exact sub _ hm _ hset
            · exact sub _ hm _ hset
  | consume h =>
    simp only [step, consume]
    cases hr : s.reqs[h]? with
    | none => exact hw
    | some r =>
      simp only []
      cases r.delivered[r.consumed]? with
      | none => exact hw
      | some t =>
        intro p hp
        obtain ⟨r0, hr0, hs0⟩ := hw p hp
        by_cases hph : h = p.2
        · refine ⟨{ r with consumed := r.consumed + 1 }, ?_, ?_⟩
          · rw [getElem?_setReq, if_pos hph, if_pos (by rw [← hph]; exact (List.getElem?_eq_some_iff.mp hr).1)]
          · rw [← hph, hr] at hr0; cases hr0; exact hs0
        · exact ⟨r0, by rw [getElem?_setReq, if_neg hph]; exact hr0, hs0⟩
  | close =>
    simp only [step, close]
    split
    · exact hw
    · intro p hp; simp at hp

theorem C10_wf_reachable (n p : Nat) (ops : List Op) : Wf (run (init n p) ops) := by
  have : ∀ s, Wf s → Wf (run s ops) := by
    induction ops with
    | nil => intro s hs; exact hs
    | cons op rest ih => intro s hs; exact ih _ (wf_step s op hs)
  exact this _ (wf_init n p)

/-- In every reachable state, the request a frame for stream id `k` is routed to was sent with stream id `k`. -/
theorem C10_routed_to_same_id (n p : Nat) (ops : List Op) (k : Int) (h : Nat)
    (hl : lookup (run (init n p) ops).inFlight k = some h) :
    ∃ r, (run (init n p) ops).reqs[h]? = some r ∧ r.streamId = k := by
  have := C10_wf_reachable n p ops (k, h) (lookup_some_mem _ _ _ hl)
  exact this

/-- The consumer of a request receives its frames in the order they were accepted, each exactly once. -/
theorem C10_consume_in_order (s : S) (h : Nat) (r : Req) (hr : s.reqs[h]? = some r) (t : Nat) (s' : S)
    (hc : consume s h = (s', .got t)) :
    r.delivered[r.consumed]? = some t ∧ s'.reqs[h]? = some { r with consumed := r.consumed + 1 } := by
  rw [consume, hr] at hc
  simp only [] at hc
  cases hd : r.delivered[r.consumed]? with
  | none => rw [hd] at hc; simp only [] at hc; split at hc <;> cases hc
  | some t' =>
    rw [hd] at hc
    simp only [] at hc
    cases hc
    refine ⟨rfl, ?_⟩
    rw [getElem?_setReq, if_pos rfl, if_pos (List.getElem?_eq_some_iff.mp hr).1]

/-! ## non-vacuity -/
example : (step (run (init 3 2) [.send 0, .send 0, .deliver 2 false 7]) (.deliver 2 true 8)).2 = .delivered := by decide
example : ((run (init 3 2) [.send 0, .send 0, .deliver 2 false 7, .deliver 2 true 8, .deliver 1 true 9]).reqs.map (·.delivered))
    = [[9], [7, 8]] := by decide
example : lookup (run (init 3 2) [.send 0, .send 0]).inFlight 2 = some 1 := by decide

end Cql.Props.C10
