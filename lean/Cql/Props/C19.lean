import Cql.Gen.Constants
import Cql.Lemmas.ListSet
import Cql.Spec.Features
import Cql.Impl.Features
/-!
# C19 — declared constants and validity checks agree; capability tables match the specs

Everything here is stated over `Cql.Gen.*`, which `verif-extract` regenerates from
`primitive/constants.go` and `primitive/util.go` on every run. The statements quantify over the
whole value domain of each code type (`∀ x : Nat`, `∀ x : List UInt8`), not over samples.
-/
namespace Cql.Props.C19
open Cql Cql.Gen Cql.Impl

/-- code types the property text names: each must have a validity check in the source. -/
def requiredValidNat : List String :=
  ["OpCode", "ConsistencyLevel", "ErrorCode", "ResultType", "DataTypeCode", "BatchType", "BatchChildType",
   "FailureCode", "DseRevisionType"]
def requiredValidStr : List String :=
  ["WriteType", "EventType", "SchemaChangeType", "SchemaChangeTarget", "TopologyChangeType", "StatusChangeType",
   "Compression"]
def requiredStringNat : List String :=
  ["ProtocolVersion", "OpCode", "ConsistencyLevel", "ErrorCode", "ResultType", "DataTypeCode", "BatchType",
   "BatchChildType", "FailureCode", "DseRevisionType", "HeaderFlag", "QueryFlag", "RowsFlag", "VariablesFlag",
   "PrepareFlag"]

/-! ## Boolean obligations (decided by the kernel on the regenerated tables) -/

def natClosedB : Bool :=
  natCodeTypes.all fun t => match t.2.2.2.1 with
    | some cs => sameSet cs t.2.2.1
    | none => true

def strClosedB : Bool :=
  strCodeTypes.all fun t => match t.2.2 with
    | some cs => sameSet cs t.2.1
    | none => true

def requiredPresentB : Bool :=
  requiredValidNat.all (fun n => natCodeTypes.any fun t => t.1 == n && t.2.2.2.1.isSome) &&
  requiredValidStr.all (fun n => strCodeTypes.any fun t => t.1 == n && t.2.2.isSome) &&
  requiredStringNat.all (fun n => natCodeTypes.any fun t => t.1 == n && t.2.2.2.2.isSome)

def natPrintedB : Bool :=
  natCodeTypes.all fun t => match t.2.2.2.2 with
    | some cs => subList t.2.2.1 (cs.map (·.1)) && distinct (cs.map (·.2)) && distinct (cs.map (·.1))
    | none => true

def declaredDistinctB : Bool :=
  natCodeTypes.all (fun t => distinct t.2.2.1) && strCodeTypes.all (fun t => distinct t.2.1)

def inWidthB : Bool :=
  natCodeTypes.all fun t => t.2.2.1.all fun x => decide (x < 2 ^ t.2.1)

theorem natClosed_ok : natClosedB = true := by decide
theorem strClosed_ok : strClosedB = true := by decide
theorem requiredPresent_ok : requiredPresentB = true := by decide
theorem natPrinted_ok : natPrintedB = true := by decide
theorem declaredDistinct_ok : declaredDistinctB = true := by decide
theorem inWidth_ok : inWidthB = true := by decide

/-! ## The property, at full strength -/

/-- Every integer code type: the validity check accepts exactly the declared constants
    (both directions, over all of `Nat`, hence over the complete 8/16/32-bit domain). -/
theorem C19_nat_valid_iff_declared :
    ∀ t ∈ natCodeTypes, ∀ cs, t.2.2.2.1 = some cs → ∀ x : Nat, cs.contains x = true ↔ x ∈ t.2.2.1 := by
  intro t ht cs hcs x
  have h := List.all_eq_true.mp natClosed_ok t ht
  simp only [hcs] at h
  exact sameSet_sound h x

/-- Every string code type: the validity check accepts exactly the declared constants. -/
theorem C19_str_valid_iff_declared :
    ∀ t ∈ strCodeTypes, ∀ cs, t.2.2 = some cs → ∀ x : List UInt8, cs.contains x = true ↔ x ∈ t.2.1 := by
  intro t ht cs hcs x
  have h := List.all_eq_true.mp strClosed_ok t ht
  simp only [hcs] at h
  exact sameSet_sound h x

/-- Protocol versions: `IsSupported` accepts exactly the declared versions. -/
theorem C19_version_supported_iff_declared :
    ∀ v : Nat, ProtocolVersion_IsSupported v = true ↔ v ∈ ProtocolVersion_declared := by
  intro v
  have h : sameSet SupportedProtocolVersions ProtocolVersion_declared = true := by decide
  exact sameSet_sound h v

/-- Every declared integer constant has its own case in `String()`, and no two cases print alike. -/
theorem C19_printed_specifically :
    ∀ t ∈ natCodeTypes, ∀ cs, t.2.2.2.2 = some cs →
      (∀ x ∈ t.2.2.1, x ∈ cs.map (·.1)) ∧ (cs.map (·.2)).Nodup := by
  intro t ht cs hcs
  have h := List.all_eq_true.mp natPrinted_ok t ht
  simp only [hcs] at h
  have h1 := Bool.and_eq_true_iff.mp h
  have h2 := Bool.and_eq_true_iff.mp h1.1
  exact ⟨subList_sound h2.1, distinct_sound h2.2⟩

/-- Opcodes: over all of `Nat`, a valid opcode is exactly one of request / response, and an
    invalid one is neither. -/
theorem C19_opcode_classified (op : Nat) :
    (OpCode_IsValid op = true → (OpCode_IsRequest op != OpCode_IsResponse op) = true) ∧
    (OpCode_IsValid op = false → OpCode_IsRequest op = false ∧ OpCode_IsResponse op = false) := by
  have hv : ∀ x, OpCode_IsValid_cases.contains x = true ↔ x ∈ OpCode_declared :=
    sameSet_sound (by decide)
  have hall : OpCode_declared.all (fun x => OpCode_IsRequest x != OpCode_IsResponse x) = true := by decide
  have hreq : subList OpCode_IsRequest_cases OpCode_IsValid_cases = true := by decide
  have hres : subList OpCode_IsResponse_cases OpCode_IsValid_cases = true := by decide
  constructor
  · intro h
    exact List.all_eq_true.mp hall op ((hv op).mp h)
  · intro h
    constructor
    · cases hq : OpCode_IsRequest op with
      | false => rfl
      | true =>
        have : op ∈ OpCode_IsValid_cases := subList_sound hreq op (by simpa [OpCode_IsRequest] using hq)
        have : OpCode_IsValid op = true := by simpa [OpCode_IsValid] using this
        rw [h] at this; exact absurd this (by decide)
    · cases hq : OpCode_IsResponse op with
      | false => rfl
      | true =>
        have : op ∈ OpCode_IsValid_cases := subList_sound hres op (by simpa [OpCode_IsResponse] using hq)
        have : OpCode_IsValid op = true := by simpa [OpCode_IsValid] using this
        rw [h] at this; exact absurd this (by decide)

/-- `Check*` helpers say exactly what the corresponding predicate says. -/
theorem C19_checks_agree :
    (∀ x, CheckValidOpCode x = OpCode_IsValid x) ∧ (∀ x, CheckRequestOpCode x = OpCode_IsRequest x) ∧
    (∀ x, CheckResponseOpCode x = OpCode_IsResponse x) ∧
    (∀ x, CheckValidConsistencyLevel x = ConsistencyLevel_IsValid x) ∧
    (∀ x, CheckSerialConsistencyLevel x = ConsistencyLevel_IsSerial x) ∧
    (∀ x, CheckValidEventType x = EventType_IsValid x) ∧ (∀ x, CheckValidWriteType x = WriteType_IsValid x) ∧
    (∀ x, CheckValidBatchType x = BatchType_IsValid x) ∧ (∀ x v, CheckValidDataTypeCode x v = DataTypeCode_IsValid x) ∧
    (∀ x, CheckValidSchemaChangeType x = SchemaChangeType_IsValid x) ∧
    (∀ x, CheckValidStatusChangeType x = StatusChangeType_IsValid x) ∧
    (∀ x, CheckValidResultType x = ResultType_IsValid x) ∧ (∀ x, CheckValidFailureCode x = FailureCode_IsValid x) ∧
    (∀ x, CheckSupportedProtocolVersion x = ProtocolVersion_IsSupported x) ∧
    (∀ x v, CheckValidSchemaChangeTarget x v = (SchemaChangeTarget_IsValid x && ProtocolVersion_SupportsSchemaChangeTarget v x)) ∧
    (∀ x v, CheckValidTopologyChangeType x v = (TopologyChangeType_IsValid x && ProtocolVersion_SupportsTopologyChangeType v x)) ∧
    (∀ x v, CheckValidDseRevisionType x v = (DseRevisionType_IsValid x && ProtocolVersion_SupportsDseRevisionType v x)) := by
  refine ⟨?_, ?_, ?_, ?_, ?_, ?_, ?_, ?_, ?_, ?_, ?_, ?_, ?_, ?_, ?_, ?_, ?_⟩
  · intro x; unfold CheckValidOpCode; cases OpCode_IsValid x <;> rfl
  · intro x; unfold CheckRequestOpCode; cases OpCode_IsRequest x <;> rfl
  · intro x; unfold CheckResponseOpCode; cases OpCode_IsResponse x <;> rfl
  · intro x; unfold CheckValidConsistencyLevel; cases ConsistencyLevel_IsValid x <;> rfl
  · intro x; unfold CheckSerialConsistencyLevel; cases ConsistencyLevel_IsSerial x <;> rfl
  · intro x; unfold CheckValidEventType; cases EventType_IsValid x <;> rfl
  · intro x; unfold CheckValidWriteType; cases WriteType_IsValid x <;> rfl
  · intro x; unfold CheckValidBatchType; cases BatchType_IsValid x <;> rfl
  · intro x v; unfold CheckValidDataTypeCode; cases DataTypeCode_IsValid x <;> rfl
  · intro x; unfold CheckValidSchemaChangeType; cases SchemaChangeType_IsValid x <;> rfl
  · intro x; unfold CheckValidStatusChangeType; cases StatusChangeType_IsValid x <;> rfl
  · intro x; unfold CheckValidResultType; cases ResultType_IsValid x <;> rfl
  · intro x; unfold CheckValidFailureCode; cases FailureCode_IsValid x <;> rfl
  · intro x; unfold CheckSupportedProtocolVersion; cases ProtocolVersion_IsSupported x <;> rfl
  · intro x v; unfold CheckValidSchemaChangeTarget
    cases SchemaChangeTarget_IsValid x <;> cases ProtocolVersion_SupportsSchemaChangeTarget v x <;> rfl
  · intro x v; unfold CheckValidTopologyChangeType
    cases TopologyChangeType_IsValid x <;> cases ProtocolVersion_SupportsTopologyChangeType v x <;> rfl
  · intro x v; unfold CheckValidDseRevisionType
    cases DseRevisionType_IsValid x <;> cases ProtocolVersion_SupportsDseRevisionType v x <;> rfl

/-! ## Capability predicates against the specifications' feature tables -/

def capabilityB : Bool :=
  Spec.versions.all fun v => Spec.Feature.all.all fun f =>
    match Spec.feature v f with
    | some b => implFeature v f == b
    | none => true

theorem capability_ok : capabilityB = true := by decide

/-- the supported versions are exactly the versions the specification documents describe -/
theorem C19_versions_are_spec_versions : sameSet SupportedProtocolVersions Spec.versions = true := by decide

/-- For every supported version and every feature the documents pronounce on, the capability
    predicate gives the documents' answer. -/
theorem C19_capabilities_match_specs :
    ∀ v, ProtocolVersion_IsSupported v = true → ∀ f b, Spec.feature v f = some b → implFeature v f = b := by
  intro v hv f b hb
  have hv' : v ∈ Spec.versions := (sameSet_sound C19_versions_are_spec_versions v).mp hv
  have hf : f ∈ Spec.Feature.all := by cases f <;> decide
  have h := List.all_eq_true.mp (List.all_eq_true.mp capability_ok v hv') f hf
  simp only [hb] at h
  simpa using h

/-! ## Non-vacuity: the tables are non-empty and the hypotheses are met by real entries -/
example : natCodeTypes.length ≥ 10 ∧ strCodeTypes.length ≥ 7 := by decide
example : OpCode_IsValid 0x07 = true ∧ OpCode_IsRequest 0x07 = true ∧ OpCode_IsResponse 0x07 = false := by decide
example : OpCode_IsValid 0x04 = false := by decide
example : WriteType_IsValid WriteTypeSimple = true := by decide
example : Spec.feature 5 .snappy = some false ∧ implFeature 5 .snappy = false := by decide

end Cql.Props.C19
