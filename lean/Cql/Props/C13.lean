import Cql.GoNum
import Cql.Gen.Conversions
/-!
# C13 — numeric conversions never lose information silently

`Cql.Gen.Conv.*` is regenerated on every run from `datacodec/conversions.go` (every integer helper, as a function on
mathematical integers with each Go conversion `T(e)` made explicit as `wrap`) and from the type switches of the
bigint/counter, int, smallint, tinyint and varint codecs (as tables). The theorems quantify over ALL integers of the
source kind, not over boundary samples.
-/
namespace Cql.Props.C13
open Cql.GoNum Cql.Gen.Conv

/-- a conversion helper from kind `src` to kind `dst` is exact-or-error: on every representable input it either returns
    the SAME mathematical value (which then is representable in `dst`), or it reports an error — and it reports an error
    only when the value really is not representable (no spurious refusal) -/
def ExactOrError (h : String × K × K × (Int → Except Unit Int)) : Prop :=
  ∀ val : Int, inRange h.2.1 val →
    (∀ y, h.2.2.2 val = .ok y → y = val ∧ inRange h.2.2.1 y) ∧
    (h.2.2.2 val = .error () → ¬ inRange h.2.2.1 val)

/-- proves `ExactOrError` for one generated helper: unfold the helper, split its range test, unfold `wrap` and the
    ranges, split the wrap-around conditions, and finish by linear arithmetic -/
macro "exact_or_error" : tactic => `(tactic|
  (intro val hr
   refine ⟨fun y hy => ?_, fun he => ?_⟩
   · simp only [int64ToInt, int64ToInt32, int64ToInt16, int64ToInt8, int64ToUint64, int64ToUint, int64ToUint32, int64ToUint16,
       int64ToUint8, intToInt32, intToInt16, intToInt8, int32ToInt16, int32ToInt8, int32ToUint64, int32ToUint, int32ToUint32,
       int32ToUint16, int32ToUint8, int16ToInt8, int16ToUint64, int16ToUint, int16ToUint32, int16ToUint16, int16ToUint8,
       int8ToUint64, int8ToUint, int8ToUint32, int8ToUint16, int8ToUint8, uint64ToInt64, uint64ToInt32, uint64ToInt16,
       uint64ToInt8, uintToInt64, uintToInt32, uintToInt16, uintToInt8, uint32ToInt32, uint32ToInt16, uint32ToInt8,
       uint16ToInt16, uint16ToInt8, uint8ToInt8, bigIntToInt64, bigIntToInt, bigIntToInt32, bigIntToInt16, bigIntToInt8,
       bigIntToUint64, bigIntToUint, bigIntToUint32, bigIntToUint16, bigIntToUint8] at hy
     split at hy
     · cases hy
     · have hy' := Except.ok.inj hy
       simp only [inRange, wrap, K.lo, K.hi, K.signed, K.bits, reduceCtorEq, false_or, true_or, Bool.false_eq_true,
         false_and, true_and, if_false, if_true] at *
       repeat' split at hy'
       all_goals (first | omega | (constructor <;> omega) | (subst hy'; constructor <;> omega) | simp_all)
   · simp only [int64ToInt, int64ToInt32, int64ToInt16, int64ToInt8, int64ToUint64, int64ToUint, int64ToUint32, int64ToUint16,
       int64ToUint8, intToInt32, intToInt16, intToInt8, int32ToInt16, int32ToInt8, int32ToUint64, int32ToUint, int32ToUint32,
       int32ToUint16, int32ToUint8, int16ToInt8, int16ToUint64, int16ToUint, int16ToUint32, int16ToUint16, int16ToUint8,
       int8ToUint64, int8ToUint, int8ToUint32, int8ToUint16, int8ToUint8, uint64ToInt64, uint64ToInt32, uint64ToInt16,
       uint64ToInt8, uintToInt64, uintToInt32, uintToInt16, uintToInt8, uint32ToInt32, uint32ToInt16, uint32ToInt8,
       uint16ToInt16, uint16ToInt8, uint8ToInt8, bigIntToInt64, bigIntToInt, bigIntToInt32, bigIntToInt16, bigIntToInt8,
       bigIntToUint64, bigIntToUint, bigIntToUint32, bigIntToUint16, bigIntToUint8] at he
     split at he
     · simp only [inRange, wrap, K.lo, K.hi, K.signed, K.bits, reduceCtorEq, false_or, true_or, Bool.false_eq_true,
         false_and, true_and, if_false, if_true] at *
       first | omega | (intro h; omega) | simp_all
     · cases he))

/-- **Every integer helper of conversions.go is exact-or-error**, over all integers of its source kind. -/
theorem C13_helpers_exact_or_error : ∀ h ∈ helpers, ExactOrError h := by
  unfold helpers
  repeat (first
    | exact List.forall_mem_nil _
    | (refine List.forall_mem_cons.mpr ⟨?_, ?_⟩
       · unfold ExactOrError
         exact_or_error))

/-- a plain Go conversion from kind `src` to kind `dst` is exact when every `src` value is representable in `dst` -/
def castExact (src dst : K) : Bool := dst == .big || (src != .big && decide (dst.lo ≤ src.lo) && decide (src.hi ≤ dst.hi))

theorem castExact_sound (src dst : K) (h : castExact src dst = true) (x : Int) (hx : inRange src x) :
    wrap dst x = x ∧ inRange dst x := by
  have hin : inRange dst x := by
    cases src <;> cases dst <;> simp [castExact, K.lo, K.hi, K.signed, K.bits] at h <;>
      simp [inRange, K.lo, K.hi, K.signed, K.bits] at hx ⊢ <;> omega
  exact ⟨wrap_of_inRange dst x hin, hin⟩

def kindOfName : String → Option K
  | "int" => some .int | "int64" => some .int64 | "int32" => some .int32 | "int16" => some .int16 | "int8" => some .int8
  | "uint" => some .uint | "uint64" => some .uint64 | "uint32" => some .uint32 | "uint16" => some .uint16
  | "uint8" => some .uint8 | "big" => some .big | "bigval" => some .big
  | _ => none

/-- one case of a codec's type switch is sound: a plain conversion must be value-preserving for the kinds involved; a
    named helper must be one of the (proved) helpers, with exactly the kinds of this case; string parsing / formatting,
    `*interface{}` destinations and `nil` carry no integer conversion -/
def entryOk (cql : K) (toCql : Bool) (e : String × Bool × Conv) : Bool :=
  match e.2.2, kindOfName e.1 with
  | .nil, _ => true
  | .other _, _ => true
  | .cast, none => e.1 == "iface" || e.1 == "string"
  | .cast, some k => if toCql then castExact k cql else castExact cql k
  | .helper name, some k =>
    helpers.any fun h => h.1 == name && (if toCql then h.2.1 == k && h.2.2.1 == cql else h.2.1 == cql && h.2.2.1 == k)
  | .helper _, none => false

/-- **Every (CQL integer type, Go integer type) pair, in both directions**: the conversion the codec performs for it is
    either a value-preserving cast or a helper that is exact-or-error (previous theorem). -/
theorem C13_tables_sound : ∀ t ∈ tables, ∀ e ∈ t.2.2.2, entryOk t.2.1 t.2.2.1 e = true := by decide

/-- every integer Go kind the documentation lists is handled by every integer codec, in both directions, by value
    and by pointer (encoding) / by pointer (decoding) -/
theorem C13_tables_complete :
    ∀ t ∈ tables, ∀ k ∈ ["int", "int64", "int32", "int16", "int8", "uint", "uint64", "uint32", "uint16", "uint8"],
      t.2.2.2.any (fun e => e.1 == k && e.2.1 == true) = true ∧
      (t.2.2.1 = true → t.2.2.2.any (fun e => e.1 == k && e.2.1 == false) = true) := by decide

/-! ## non-vacuity -/
example : helpers.length ≥ 50 ∧ tables.length = 10 := by decide
example : int64ToInt8 127 = .ok 127 ∧ int64ToInt8 128 = .error () ∧ int64ToUint8 (-1) = .error () := by
  refine ⟨rfl, rfl, rfl⟩
example : wrap .int8 200 = -56 ∧ wrap .uint16 (-1) = 65535 := by decide

end Cql.Props.C13
