import Cql.Lemmas.GoFnTie.Vint
import Cql.Props.C03Vint
/-!
# C03 for the `[vint]` length and zig-zag code AS WRITTEN in `primitive/vint.go`

The functions below are regenerated on every run from the Go source (`Cql/Gen/GoFn*.lean`, statement by statement onto bit
vectors). Through the tie lemmas of `Cql/Lemmas/GoFnTie/*.lean` the theorems about the hand-written models hold for them.
-/
namespace Cql.Props.C03AsWritten
open Cql Cql.Prim Cql.Parser Cql.Vint Cql.GoFnTie

/-- **C03, `[vint]`, as written.** `LengthOfVint(v)` is the number of bytes `WriteVint(v)` emits, for every `int64` -/
theorem C03_vint_length_as_written (n : BitVec 64) : (writeVint n).length = (Gen.GoFn.LengthOfVint n).toNat := by
  rw [lengthOfVint_tie]; exact Props.C03Vint.C03_vint_length n

/-- **C03, `[unsigned vint]`, as written.** `LengthOfUnsignedVint(v)` is the number of bytes written, for every `uint64` -/
theorem C03_unsignedVint_length_as_written (v : BitVec 64) :
    (writeUnsignedVint v.toNat).length = (Gen.GoFn.LengthOfUnsignedVint v).toNat := by
  rw [lengthOfUnsignedVint_tie]; exact Props.C03Vint.C03_unsignedVint_length _ v.isLt

/-- the zig-zag functions as written undo each other on every `int64` -/
theorem C03_zigzag_as_written (n : BitVec 64) : Gen.GoFn.decodeZigZag (Gen.GoFn.encodeZigZag n) = n := by
  rw [encodeZigZag_tie, decodeZigZag_tie]; exact Props.C03Vint.C03_zigzag n

/-- the declared length as written is between 1 and 9 bytes -/
theorem C03_unsignedVint_length_bounds_as_written (v : BitVec 64) :
    1 ≤ (Gen.GoFn.LengthOfUnsignedVint v).toNat ∧ (Gen.GoFn.LengthOfUnsignedVint v).toNat ≤ 9 := by
  rw [lengthOfUnsignedVint_tie]
  have h := Props.C03Vint.C03_unsignedVint_classes _ v.isLt
  exact ⟨h.1, h.2.1⟩

/-- non-vacuity: the regenerated code evaluated on concrete values -/
example : Gen.GoFn.encodeZigZag (BitVec.ofInt 64 (-1)) = 1#64 ∧ Gen.GoFn.decodeZigZag 1#64 = BitVec.ofInt 64 (-1) := by decide

end Cql.Props.C03AsWritten
