import Cql.Lemmas.GoFnTie.Crc
import Cql.Props.C06
/-!
# C06 / C07 for the header word and the CRC-24 AS WRITTEN in `segment/encode.go`, `crc/crc24.go`

The functions below are regenerated on every run from the Go source (`Cql/Gen/GoFn*.lean`, statement by statement onto bit
vectors). Through the tie lemmas of `Cql/Lemmas/GoFnTie/*.lean` the theorems about the hand-written models hold for them.
-/
namespace Cql.Props.C06AsWritten
open Cql Cql.Prim Cql.Parser Cql.GoFnTie Cql.Segment Cql.Crc

/-- **C07, the CRC-24 as written.** `ChecksumKoopman(data, n)` for the header lengths the format uses is the CRC the
    detection theorems (`crc24_distance_3/5`, `header_bitflips_rejected`) are about -/
theorem C07_checksumKoopman_as_written (data : BitVec 64) :
    Gen.GoFn.ChecksumKoopman data 3#64 = crc24 data 3 ∧ Gen.GoFn.ChecksumKoopman data 5#64 = crc24 data 5 := by
  refine ⟨?_, ?_⟩ <;> rw [checksumKoopman_tie] <;> rfl

/-- … and for every non-negative `len`; a negative `len` runs no iteration -/
theorem C07_checksumKoopman_any_length_as_written (data len : BitVec 64) :
    Gen.GoFn.ChecksumKoopman data len = crc24 data (if len.slt 0#64 then 0 else len.toNat) :=
  checksumKoopman_tie data len

/-- **C06 / C07, the uncompressed header as written.** The header word and length that `encodeHeaderUncompressed` hands
    to `writeHeaderDataAndCrc`, followed by the CRC-24 as written, are the six bytes of the model (= the specification's
    layout, `C06_layout_uncompressed`), for every payload length the encoder admits -/
theorem C06_header_uncompressed_as_written (l : BitVec 32) (sc : Bool) (h : l.toNat ≤ 131071) :
    Segment.encodeHeaderUncompressed sc l.toNat =
      leBytes 3 (Gen.GoFn.encodeHeaderUncompressed l sc).1.toNat ++
      leBytes 3 (Gen.GoFn.ChecksumKoopman (Gen.GoFn.encodeHeaderUncompressed l sc).1 (Gen.GoFn.encodeHeaderUncompressed l sc).2).toNat := by
  rw [encodeHeaderUncompressed_tie l sc (by omega), writeHeaderDataAndCrc, checksumKoopman_tie]
  have h2 : (Gen.GoFn.encodeHeaderUncompressed l sc).2 = 3#64 := by cases sc <;> rfl
  rw [h2]
  simp only [BitVec.ofNat_toNat, BitVec.setWidth_eq]
  rfl

/-- **C06 / C07, the compressed header as written** (both lengths within the 17 bits of their fields) -/
theorem C06_header_compressed_as_written (c u : BitVec 32) (sc : Bool) (hc : c.toNat ≤ 131071) (hu : u.toNat ≤ 131071) :
    Segment.encodeHeaderCompressed sc c.toNat u.toNat =
      leBytes 5 (Gen.GoFn.encodeHeaderCompressed c u sc).1.toNat ++
      leBytes 3 (Gen.GoFn.ChecksumKoopman (Gen.GoFn.encodeHeaderCompressed c u sc).1 (Gen.GoFn.encodeHeaderCompressed c u sc).2).toNat := by
  rw [encodeHeaderCompressed_tie c u sc (by omega) (by omega), writeHeaderDataAndCrc, checksumKoopman_tie]
  have h2 : (Gen.GoFn.encodeHeaderCompressed c u sc).2 = 5#64 := by cases sc <;> rfl
  rw [h2]
  simp only [BitVec.ofNat_toNat, BitVec.setWidth_eq]
  rfl

/-- the header encoders as written read exactly the length fields and the self-contained flag of the header they are given -/
theorem C06_header_encoders_read :
    Gen.GoFn.encodeHeaderUncompressed_reads = ["header_UncompressedPayloadLength", "header_IsSelfContained"] ∧
    Gen.GoFn.encodeHeaderCompressed_reads =
      ["header_CompressedPayloadLength", "header_UncompressedPayloadLength", "header_IsSelfContained"] := ⟨rfl, rfl⟩

/-- non-vacuity: the regenerated code evaluated on concrete values -/
example : (Gen.GoFn.encodeHeaderUncompressed 3#32 true).1 = 131075#64 := by decide
example : Gen.GoFn.ChecksumKoopman 131075#64 3#64 = crc24 131075#64 3 := by decide +kernel

end Cql.Props.C06AsWritten
