import Cql.Lemmas.GoFnTie.Crc
import Cql.Props.C06
/-!
# C06 / C07 for the header word and the CRC-24 AS WRITTEN in `segment/encode.go`, `crc/crc24.go`

The functions below are regenerated on every run from the Go source (`Cql/Gen/GoFn*.lean`, statement by statement onto bit
vectors). Through the tie lemmas of `Cql/Lemmas/GoFnTie/*.lean` the theorems about the hand-written models hold for them.
-/
namespace Cql.Props.C06AsWritten
open Cql Cql.Prim Cql.Parser Cql.GoFnTie Cql.Segment Cql.Crc

/-- **C07, the CRC-24 as written.** `ChecksumKoopman(data, n)` for the header lengths the format uses is the CRC the
    detection theorems (`crc24_distance_3/5`, `header_bitflips_rejected`) are about -/
theorem C07_checksumKoopman_as_written (data : BitVec 64) :
    Gen.GoFn.ChecksumKoopman data 3#64 = crc24 data 3 ∧ Gen.GoFn.ChecksumKoopman data 5#64 = crc24 data 5 := by
  refine ⟨?_, ?_⟩ <;> rw [checksumKoopman_tie] <;> rfl

/-- … and for every non-negative `len`; a negative `len` runs no iteration -/
theorem C07_checksumKoopman_any_length_as_written (data len : BitVec 64) :
    Gen.GoFn.ChecksumKoopman data len = crc24 data (if len.slt 0#64 then 0 else len.toNat) :=
  checksumKoopman_tie data len

/-- **C06 / C07, the uncompressed header as written.** The header word and length that `encodeHeaderUncompressed` hands
    to `writeHeaderDataAndCrc`, followed by the CRC-24 as written, are the six bytes of the model (= the specification's
    layout, `C06_layout_uncompressed`), for every payload length the encoder admits -/
theorem C06_header_uncompressed_as_written (l : BitVec 32) (sc : Bool) (h : l.toNat ≤ 131071) :
    Segment.encodeHeaderUncompressed sc l.toNat =
      leBytes 3 (Gen.GoFn.encodeHeaderUncompressed l sc).1.toNat ++
      leBytes 3 (Gen.GoFn.ChecksumKoopman (Gen.GoFn.encodeHeaderUncompressed l sc).1 (Gen.GoFn.encodeHeaderUncompressed l sc).2).toNat := by
  rw [encodeHeaderUncompressed_tie l sc (by omega), writeHeaderDataAndCrc, checksumKoopman_tie]
  have h2 : (Gen.GoFn.encodeHeaderUncompressed l sc).2 = 3#64 := by cases sc <;> rfl
  rw [h2]
  simp only [BitVec.ofNat_toNat, BitVec.setWidth_eq]
  rfl

/-- **C06 / C07, the compressed header as written** (both lengths within the 17 bits of their fields) -/
theorem C06_header_compressed_as_written (c u : BitVec 32) (sc : Bool) (hc : c.toNat ≤ 131071) (hu : u.toNat ≤ 131071) :
    Segment.encodeHeaderCompressed sc c.toNat u.toNat =
      leBytes 5 (Gen.GoFn.encodeHeaderCompressed c u sc).1.toNat ++
      leBytes 3 (Gen.GoFn.ChecksumKoopman (Gen.GoFn.encodeHeaderCompressed c u sc).1 (Gen.GoFn.encodeHeaderCompressed c u sc).2).toNat := by
  rw [encodeHeaderCompressed_tie c u sc (by omega) (by omega), writeHeaderDataAndCrc, checksumKoopman_tie]
  have h2 : (Gen.GoFn.encodeHeaderCompressed c u sc).2 = 5#64 := by cases sc <;> rfl
  rw [h2]
  simp only [BitVec.ofNat_toNat, BitVec.setWidth_eq]
  rfl

/-- **C06, header words as written, without a compressor.** What `decodeSegmentHeader` (after its CRC check) makes of the word
    `encodeHeaderUncompressed` builds is exactly the header that was encoded: same length, same flag, compressed length 0 -/
theorem C06_header_word_roundtrip_uncompressed_as_written (l crc : BitVec 32) (sc : Bool) (h : l.toNat ≤ 131071) :
    Gen.GoFn.decodeSegmentHeaderFields crc (Gen.GoFn.encodeHeaderUncompressed l sc).1 true = (sc, l, 0#32, crc, false) := by
  rw [decodeFields_nil]
  have hw := encodeHeaderUncompressed_word l sc (by omega)
  have facts := Props.C06.C06_header_bits_uncompressed sc l.toNat (by omega)
  have hl : BitVec.setWidth 32 ((Gen.GoFn.encodeHeaderUncompressed l sc).1 &&& 131071#64) = l := by
    apply BitVec.eq_of_toNat_eq; rw [toNat_low17, hw, facts.2.1]
  rw [hl, hw]
  have hsc : decide ((l.toNat ||| (if sc then 1 <<< 17 else 0)) >>> 17 &&& 1 = 1) = sc := by
    cases sc
    · exact decide_eq_false (fun hh => by have := facts.2.2.mp hh; cases this)
    · exact decide_eq_true (facts.2.2.mpr rfl)
  rw [hsc]

/-- **C06, header words as written, with a compressor.** The word `encodeHeaderCompressed` builds decodes to the two lengths and the
    flag; when the uncompressed-length field is 0 ("not compressed") the decoder reports the other field as the payload length -/
theorem C06_header_word_roundtrip_compressed_as_written (c u crc : BitVec 32) (sc : Bool) (hc : c.toNat ≤ 131071)
    (hu : u.toNat ≤ 131071) :
    Gen.GoFn.decodeSegmentHeaderFields crc (Gen.GoFn.encodeHeaderCompressed c u sc).1 false =
      if u = 0#32 then (sc, c, 0#32, crc, false) else (sc, u, c, crc, false) := by
  rw [decodeFields_some]
  have hw := encodeHeaderCompressed_word c u sc (by omega) (by omega)
  have facts := Props.C06.C06_header_bits_compressed sc c.toNat u.toNat (by omega) (by omega)
  have hcl : BitVec.setWidth 32 ((Gen.GoFn.encodeHeaderCompressed c u sc).1 &&& 131071#64) = c := by
    apply BitVec.eq_of_toNat_eq; rw [toNat_low17, hw, facts.2.1]
  have hul : BitVec.setWidth 32 (((Gen.GoFn.encodeHeaderCompressed c u sc).1 >>> (17 : Nat)) &&& 131071#64) = u := by
    apply BitVec.eq_of_toNat_eq; rw [toNat_low17, BitVec.toNat_ushiftRight, hw, facts.2.2.1]
  rw [hcl, hul, hw, facts.2.2.1]
  have hsc : decide ((c.toNat ||| (u.toNat <<< 17) ||| (if sc then 1 <<< 34 else 0)) >>> 34 &&& 1 = 1) = sc := by
    cases sc
    · exact decide_eq_false (fun hh => by have := facts.2.2.2.mp hh; cases this)
    · exact decide_eq_true (facts.2.2.2.mpr rfl)
  rw [hsc]
  by_cases hz : u = 0#32
  · subst hz; simp
  · have : u.toNat ≠ 0 := fun e => hz (BitVec.eq_of_toNat_eq (by simpa using e))
    rw [if_neg this, if_neg hz]

/-- the decoder as written reads as many header bytes as the encoder as written hands to `writeHeaderDataAndCrc`: 3 without a
    compressor, 5 with one -/
theorem C06_header_lengths_agree_as_written (l c u : BitVec 32) (sc : Bool) :
    Gen.GoFn.headerLength true = (Gen.GoFn.encodeHeaderUncompressed l sc).2 ∧
    Gen.GoFn.headerLength false = (Gen.GoFn.encodeHeaderCompressed c u sc).2 := by
  constructor <;> cases sc <;> rfl

/-- the header encoders as written read exactly the length fields and the self-contained flag of the header they are given -/
theorem C06_header_encoders_read :
    Gen.GoFn.encodeHeaderUncompressed_reads = ["header_UncompressedPayloadLength", "header_IsSelfContained"] ∧
    Gen.GoFn.encodeHeaderCompressed_reads =
      ["header_CompressedPayloadLength", "header_UncompressedPayloadLength", "header_IsSelfContained"] := ⟨rfl, rfl⟩

/-- non-vacuity: the regenerated code evaluated on concrete values -/
example : Gen.GoFn.decodeSegmentHeaderFields 7#32 (Gen.GoFn.encodeHeaderCompressed 10#32 20#32 true).1 false = (true, 20#32, 10#32, 7#32, false) := by decide
example : Gen.GoFn.decodeSegmentHeaderFields 7#32 (Gen.GoFn.encodeHeaderCompressed 10#32 0#32 false).1 false = (false, 10#32, 0#32, 7#32, false) := by decide
example : (Gen.GoFn.encodeHeaderUncompressed 3#32 true).1 = 131075#64 := by decide
example : Gen.GoFn.ChecksumKoopman 131075#64 3#64 = crc24 131075#64 3 := by decide +kernel

end Cql.Props.C06AsWritten
