import Cql.Props.C03
/-!
# C05 — header-only and raw-body operations agree with the full codec

For the bytes `b` that `EncodeFrame` produces for a version-valid frame (followed by arbitrary further bytes `rest`),
every partial path a proxy can take ends in the same place as `DecodeFrame`.
-/
namespace Cql.Props.C05
open Cql Cql.Prim Cql.Parser Cql.Gen Cql.Impl Cql.Props.C01 Cql.Props.C03

/-- what `EncodeFrame` produces, split at the header: `b = hdr ++ body`, `hdr` encodes the header with the computed body
    length, `body` is `EncodeBody`'s output and has exactly `bl` bytes -/
theorem encodeFrame_split (c : Option BodyCompressor) (f : Frame) (hv : ValidFrame c f) (b : Bytes) (bl : Nat)
    (hw : encodeFrame c f = .ok (b, bl)) :
    ∃ hdr body, b = hdr ++ body ∧ encodeHeader { f.header with bodyLength := bl } = .ok hdr ∧
      encodeBody c f.header f.body = .ok body ∧ body.length = bl ∧ bl < 2147483648 ∧
      ValidHeader { f.header with bodyLength := bl } := by
  have hop : (f.header.opCode == f.body.message.opCode) = true := by rw [hv.body.opCode]; exact beq_self_eq_true _
  have hvh : ∀ x, x < 4294967296 → ValidHeader { f.header with bodyLength := x } := fun x hx =>
    { version := hv.version, flags := hv.flags, streamId := hv.streamId
      opCode := by
        show OpCode_IsValid f.header.opCode = true
        rw [hv.body.opCode]; cases f.body.message <;> rfl
      direction := by
        show f.header.isResponse = OpCode_IsResponse f.header.opCode
        rw [hv.body.direction, hv.body.opCode]; rfl
      bodyLength := hx }
  rw [encodeFrame] at hw
  cases hc : hasFlag f.header.flags HeaderFlagCompressed with
  | false =>
    rw [hc, if_neg (by decide)] at hw
    obtain ⟨n, hn, hw⟩ := Res.bind_ok_inv hw
    obtain ⟨hdr, hhdr, hw⟩ := Res.bind_ok_inv hw
    obtain ⟨body, hbody, hw⟩ := Res.bind_ok_inv hw
    have hw := Res.pure_ok_inv hw
    have hb : b = hdr ++ body := (congrArg Prod.fst hw).symm
    have hbl : bl = n % 4294967296 := (congrArg Prod.snd hw).symm
    have hbody0 := hbody
    rw [encodeBody.eq_def] at hbody
    obtain ⟨_, _, hbody⟩ := Res.bind_ok_inv hbody
    have hc' : hasFlag ({ f.header with bodyLength := n % 4294967296 } : Header).flags HeaderFlagCompressed = false := hc
    rw [hc', if_neg (by decide)] at hbody
    have hbody' : encodeBodyUncompressed f.header f.body = .ok body := hbody
    have hlen := encodeBodyUncompressed_len f.header f.body hv.body body hbody'
    rw [hn] at hlen
    have hn' : n = body.length := Res.ok_inj hlen
    have hsz := hv.size body hbody'
    have hmod : n % 4294967296 = body.length := by rw [hn']; exact Nat.mod_eq_of_lt (by omega)
    have hfull : encodeBody c f.header f.body = .ok body := by
      rw [encodeBody.eq_def, hop, hc, if_neg (by decide)]; exact hbody'
    exact ⟨hdr, body, hb, by rw [hbl]; exact hhdr, hfull, by rw [hbl, hmod], by rw [hbl, hmod]; exact hsz,
      hvh _ (by rw [hbl]; exact Nat.mod_lt _ (by decide))⟩
  | true =>
    rw [hc, if_pos rfl] at hw
    obtain ⟨body, hbody, hw⟩ := Res.bind_ok_inv hw
    obtain ⟨hdr, hhdr, hw⟩ := Res.bind_ok_inv hw
    have hw := Res.pure_ok_inv hw
    have hb : b = hdr ++ body := (congrArg Prod.fst hw).symm
    have hbl : bl = body.length % 4294967296 := (congrArg Prod.snd hw).symm
    obtain ⟨comp, hcomp, hloss⟩ := hv.compression hc
    have hbody0 := hbody
    rw [encodeBody.eq_def, hop, hc, if_pos rfl, hcomp] at hbody
    obtain ⟨_, _, hbody⟩ := Res.bind_ok_inv hbody
    obtain ⟨_, _, hbody⟩ := Res.bind_ok_inv hbody
    obtain ⟨raw, hraw, hbody⟩ := Res.bind_ok_inv hbody
    obtain ⟨_, hlen⟩ := hloss raw hraw body hbody
    have hmod : body.length % 4294967296 = body.length := Nat.mod_eq_of_lt (by omega)
    exact ⟨hdr, body, hb, by rw [hbl]; exact hhdr, hbody0, by rw [hbl, hmod], by rw [hbl, hmod]; exact hlen,
      hvh _ (by rw [hbl]; exact Nat.mod_lt _ (by decide))⟩

/-- `EncodeHeader` followed by `EncodeBody` (with `BodyLength` set) writes exactly `EncodeFrame`'s bytes. -/
theorem C05_header_then_body_is_frame (c : Option BodyCompressor) (f : Frame) (hv : ValidFrame c f) (b : Bytes) (bl : Nat)
    (hw : encodeFrame c f = .ok (b, bl)) :
    ∃ hdr body, encodeHeader { f.header with bodyLength := bl } = .ok hdr ∧ encodeBody c f.header f.body = .ok body ∧
      b = hdr ++ body := by
  obtain ⟨hdr, body, hb, hh, hbd, _⟩ := encodeFrame_split c f hv b bl hw
  exact ⟨hdr, body, hh, hbd, hb⟩

/-- `DecodeRawFrame` reads the header and exactly the declared body; then `ConvertFromRawFrame` gives what
    `DecodeFrame` gives on the same bytes. -/
theorem C05_raw_then_convert (c : Option BodyCompressor) (f : Frame) (hv : ValidFrame c f) (b : Bytes) (bl : Nat)
    (hw : encodeFrame c f = .ok (b, bl)) (rest : Bytes) :
    ∃ raw, decodeRawFrame.run (b ++ rest) = .ok (raw, rest) ∧
      (∃ hdr, b = hdr ++ raw.body) ∧ raw.body.length = bl ∧
      convertFromRawFrame c raw = .ok (canonFrame f bl) ∧
      (decodeFrame c).run (b ++ rest) = .ok (canonFrame f bl, rest) := by
  obtain ⟨hdr, body, hb, hh, hbd, hlen, hlt, hvh⟩ := encodeFrame_split c f hv b bl hw
  have hfull := C01_frame_roundtrip c f hv b bl hw
  refine ⟨{ header := { f.header with bodyLength := bl }, body := body }, ?_, ⟨hdr, hb⟩, hlen, ?_, hfull rest⟩
  · rw [hb, List.append_assoc, decodeRawFrame, bind_ok (decodeHeader_RT _ hvh hdr hh _), decodeRawBody]
    have hn : isNeg32 ({ f.header with bodyLength := bl } : Header).bodyLength = false := by
      show isNeg32 bl = false
      rw [isNeg32]; exact decide_eq_false (by omega)
    rw [hn, if_neg (by decide)]
    by_cases h0 : bl = 0
    · have : body = [] := List.length_eq_zero_iff.mp (by rw [hlen, h0])
      subst this
      show ((if bl = 0 then pure [] else take bl) >>= _).run _ = _
      rw [if_pos h0]; rfl
    · show ((if bl = 0 then pure [] else take bl) >>= _).run _ = _
      rw [if_neg h0, bind_ok (take_RT bl body rest hlen)]; rfl
  · -- decoding the body alone is what DecodeFrame does after the header
    have h1 := hfull []
    rw [List.append_nil, hb, decodeFrame, bind_ok (decodeHeader_RT _ hvh hdr hh body)] at h1
    rw [convertFromRawFrame]
    cases hr : (decodeBody c { f.header with bodyLength := bl }).run body with
    | ok x =>
      obtain ⟨bd, r⟩ := x
      rw [bind_ok hr] at h1
      have := Res.ok_inj h1
      have hbd' : bd = canonBody f.header f.body := by
        have := congrArg (fun p => p.1.body) this; exact this
      rw [hbd']; rfl
    | err e => rw [bind_err hr] at h1; cases h1
    | panic e => rw [bind_panic hr] at h1; cases h1

/-- After a decoded header, `DecodeRawBody` and `DiscardBody` (copying and seeking variants) consume exactly the declared
    body length: what follows the frame is left untouched. -/
theorem C05_raw_body_and_discard (c : Option BodyCompressor) (f : Frame) (hv : ValidFrame c f) (b : Bytes) (bl : Nat)
    (hw : encodeFrame c f = .ok (b, bl)) (rest : Bytes) :
    ∃ h body afterHeader, decodeHeader.run (b ++ rest) = .ok (h, afterHeader) ∧ h.bodyLength = bl ∧
      (decodeRawBody h).run afterHeader = .ok (body, rest) ∧ body.length = bl ∧
      (discardBody h).run afterHeader = .ok ((), rest) ∧ (discardBodySeek h).run afterHeader = .ok ((), rest) := by
  obtain ⟨hdr, body, hb, hh, _, hlen, hlt, hvh⟩ := encodeFrame_split c f hv b bl hw
  have hn : isNeg32 bl = false := by rw [isNeg32]; exact decide_eq_false (by omega)
  refine ⟨{ f.header with bodyLength := bl }, body, body ++ rest, ?_, rfl, ?_, hlen, ?_, ?_⟩
  · rw [hb, List.append_assoc]; exact decodeHeader_RT _ hvh hdr hh _
  · rw [decodeRawBody]
    show (if isNeg32 bl = true then _ else if bl = 0 then _ else _ : Parser Bytes).run _ = _
    rw [hn, if_neg (by decide)]
    by_cases h0 : bl = 0
    · have : body = [] := List.length_eq_zero_iff.mp (by rw [hlen, h0])
      subst this; rw [if_pos h0]; rfl
    · rw [if_neg h0]; exact take_RT bl body rest hlen
  · rw [discardBody]
    show (if isNeg32 bl = true then _ else if bl = 0 then _ else _ : Parser Unit).run _ = _
    rw [hn, if_neg (by decide)]
    by_cases h0 : bl = 0
    · have : body = [] := List.length_eq_zero_iff.mp (by rw [hlen, h0])
      subst this; rw [if_pos h0]; rfl
    · rw [if_neg h0, map_run, take_RT bl body rest hlen]
  · rw [discardBodySeek]
    show (if isNeg32 bl = true then _ else if bl = 0 then _ else _ : Parser Unit).run _ = _
    rw [hn, if_neg (by decide)]
    by_cases h0 : bl = 0
    · have : body = [] := List.length_eq_zero_iff.mp (by rw [hlen, h0])
      subst this; rw [if_pos h0]; rfl
    · rw [if_neg h0]
      show Res.ok ((), (body ++ rest).drop bl) = _
      rw [List.drop_left' hlen]

/-- `ConvertToRawFrame` then `EncodeRawFrame` writes `EncodeFrame`'s bytes (so they decode to the same frame). -/
theorem C05_convert_then_encode_raw (c : Option BodyCompressor) (f : Frame) (hv : ValidFrame c f) (b : Bytes) (bl : Nat)
    (hw : encodeFrame c f = .ok (b, bl)) :
    ∃ raw, convertToRawFrame c f = .ok raw ∧ encodeRawFrame raw = .ok b ∧
      ∀ rest, (decodeFrame c).run (b ++ rest) = .ok (canonFrame f bl, rest) := by
  obtain ⟨hdr, body, hb, hh, hbd, hlen, hlt, hvh⟩ := encodeFrame_split c f hv b bl hw
  have hmod : body.length % 4294967296 = bl := by rw [hlen]; exact Nat.mod_eq_of_lt (by omega)
  refine ⟨{ header := { f.header with bodyLength := body.length % 4294967296 }, body := body }, ?_, ?_,
    C01_frame_roundtrip c f hv b bl hw⟩
  · rw [convertToRawFrame, hbd]; rfl
  · rw [encodeRawFrame]
    have hck : CheckSupportedProtocolVersion f.header.version = true := by
      rw [CheckSupportedProtocolVersion, hv.version]; rfl
    show (guard (CheckSupportedProtocolVersion f.header.version) _ >>= fun _ =>
      encodeHeader { f.header with bodyLength := body.length % 4294967296 } >>= fun hdr => pure (hdr ++ body)) = _
    rw [hck, hmod]
    show (encodeHeader { f.header with bodyLength := bl } >>= fun hdr => pure (hdr ++ body)) = _
    rw [hh, hb]; rfl

end Cql.Props.C05
