import Cql.Lemmas.GoFnTie.Time
import Cql.Props.C13Time
/-!
# C13 for the temporal conversions AS WRITTEN in `datacodec/math.go`, `timestamp.go`, `date.go`, `time.go`

`Cql/Gen/GoFn*.lean` is regenerated on every run by a statement-by-statement translation of the Go functions onto 64-bit
(and 32-bit) bit vectors: wrap-around, truncating division, the sign tests written with `^` and `&`, the conversions. The
theorems of `Props/C13Time.lean` are stated here for these regenerated definitions — for EVERY `int64` — through the tie
lemmas of `Cql/Lemmas/GoFnTie/*.lean` (each hand-written model function = the regenerated one). A change of the Go source that
alters what one of these functions computes makes a tie lemma, and with it these theorems, stop checking.

`toR` reads a Go result `(value, error)` / `(value, overflow)`: `.outOfRange` when the flag is set, the value otherwise.
-/
namespace Cql.Props.C13AsWritten
open Cql Cql.TimeConv Cql.GoFnTie Cql.Props.C13Time

/-- `addExact` as written: the exact sum, or the overflow flag exactly when the sum leaves 64 bits -/
theorem C13_addExact_as_written (x y : BitVec 64) :
    ((Gen.GoFn.addExact x y).1.toInt, (Gen.GoFn.addExact x y).2) =
      if inI64 (x.toInt + y.toInt) then (x.toInt + y.toInt, false) else (0, true) := by
  rw [addExact_tie]; exact addExact_spec _ _ (toInt_range x) (toInt_range y)

/-- `multiplyExact(x, 1000)` as written: the exact product, or the overflow flag exactly when it leaves 64 bits -/
theorem C13_multiplyExact_1000_as_written (x : BitVec 64) :
    ((Gen.GoFn.multiplyExact x 1000#64).1.toInt, (Gen.GoFn.multiplyExact x 1000#64).2) =
      if inI64 (x.toInt * 1000) then (x.toInt * 1000, false) else (0, true) := by
  rw [multiplyExact_tie, toInt_1000]; exact multiplyExact_1000_spec _ (toInt_range x)

/-- `floorDiv` / `floorMod` as written are the mathematical floor division and modulus for the divisors the library uses -/
theorem C13_floorDiv_floorMod_as_written (x : BitVec 64) :
    (Gen.GoFn.floorDiv x 1000#64).toInt = x.toInt / 1000 ∧ (Gen.GoFn.floorMod x 1000#64).toInt = x.toInt % 1000 ∧
    (Gen.GoFn.floorDiv x 86400#64).toInt = x.toInt / 86400 := by
  refine ⟨?_, ?_, ?_⟩
  · rw [floorDiv_tie, toInt_1000]; exact floorDiv_1000 _ (toInt_range x)
  · rw [floorMod_tie, toInt_1000]; exact floorMod_1000 _ (toInt_range x)
  · rw [floorDiv_tie, toInt_86400]; exact floorDiv_86400 _ (toInt_range x)

/-- **C13, `time.Time` → timestamp, as written.** For every `t.Unix()` and every nanosecond part in [0, 10⁹):
    ⌊(s·10⁹+ns)/10⁶⌋ when it fits 64 bits, an error otherwise — never a wrapped number -/
theorem C13_time_to_epoch_millis_as_written (s n : BitVec 64) (hn : 0 ≤ n.toInt ∧ n.toInt < 1000000000) :
    toR (Gen.GoFn.ConvertTimeToEpochMillis s n) =
      if inI64 ((s.toInt * 1000000000 + n.toInt) / 1000000) then .ok ((s.toInt * 1000000000 + n.toInt) / 1000000)
      else .outOfRange := by
  rw [timeToEpochMillis_tie]; exact C13_time_to_epoch_millis _ _ (toInt_range s) hn

/-- **C13, timestamp → `time.Time` → timestamp, as written.** Every `int64` millisecond count comes back unchanged -/
theorem C13_timestamp_roundtrip_as_written (m : BitVec 64) :
    toR (Gen.GoFn.ConvertTimeToEpochMillis (Gen.GoFn.ConvertEpochMillisToTime m).1 (Gen.GoFn.ConvertEpochMillisToTime m).2)
      = .ok m.toInt := by
  rw [timeToEpochMillis_tie]
  have h := epochMillisToTime_tie m
  have h1 : (Gen.GoFn.ConvertEpochMillisToTime m).1.toInt = (epochMillisToTime m.toInt).1 := congrArg Prod.fst h
  have h2 : (Gen.GoFn.ConvertEpochMillisToTime m).2.toInt = (epochMillisToTime m.toInt).2 := congrArg Prod.snd h
  rw [h1, h2]
  exact C13_timestamp_roundtrip _ (toInt_range m)

/-- … and the nanoseconds handed to `time.Unix` are a whole number of milliseconds within one second -/
theorem C13_epoch_millis_to_time_as_written (m : BitVec 64) :
    (Gen.GoFn.ConvertEpochMillisToTime m).1.toInt = m.toInt / 1000 ∧
    (Gen.GoFn.ConvertEpochMillisToTime m).2.toInt = (m.toInt % 1000) * 1000000 := by
  have h := epochMillisToTime_tie m
  rw [C13_epoch_millis_to_time _ (toInt_range m)] at h
  exact ⟨congrArg Prod.fst h, congrArg Prod.snd h⟩

/-- **C13, `time.Time` → date, as written.** ⌊s/86400⌋ days when that fits 32 bits, an error otherwise -/
theorem C13_time_to_epoch_days_as_written (s : BitVec 64) :
    toR32 (Gen.GoFn.ConvertTimeToEpochDays s) =
      if -2147483648 ≤ s.toInt / 86400 ∧ s.toInt / 86400 ≤ 2147483647 then .ok (s.toInt / 86400) else .outOfRange := by
  rw [timeToEpochDays_tie]; exact C13_time_to_epoch_days _ (toInt_range s)

/-- **C13, date → `time.Time` → date, as written.** Every 32-bit day count comes back unchanged -/
theorem C13_date_roundtrip_as_written (d : BitVec 32) :
    toR32 (Gen.GoFn.ConvertTimeToEpochDays (Gen.GoFn.ConvertEpochDaysToTime d).1) = .ok d.toInt := by
  rw [timeToEpochDays_tie, (epochDaysToTime_tie d).1]
  have h1 := @BitVec.toInt_lt 32 d
  have h2 := @BitVec.le_toInt 32 d
  exact C13_date_roundtrip _ (by simp at h1 h2; omega)

/-- **C13, `time.Duration` ↔ time, as written.** accepted exactly within [0, 24 h) and then unchanged, in both directions -/
theorem C13_duration_as_written (d : BitVec 64) :
    toR (Gen.GoFn.ConvertDurationToNanosOfDay d) = (if 0 ≤ d.toInt ∧ d.toInt < 86400000000000 then .ok d.toInt else .outOfRange) ∧
    toR (Gen.GoFn.ConvertNanosOfDayToDuration d) = (if 0 ≤ d.toInt ∧ d.toInt < 86400000000000 then .ok d.toInt else .outOfRange) := by
  rw [durationToNanosOfDay_tie, nanosOfDayToDuration_tie]
  exact ⟨C13_duration_to_nanos_of_day _, C13_duration_to_nanos_of_day _⟩

/-- **C12/C13, `time.Time` → time of day, as written.** The function reads the clock fields of the time IN UTC (`t = t.UTC()`
    precedes the reads — `…_reads` lists what the regenerated function takes from its `time.Time`), and for fields within
    their ranges the result is the exact count of nanoseconds since midnight, below 24 h: nothing wraps -/
theorem C13_time_of_day_as_written (ns s m h : BitVec 64) (hns : ns.toNat < 1000000000) (hs : s.toNat < 60)
    (hm : m.toNat < 60) (hh : h.toNat < 24) :
    Gen.GoFn.ConvertTimeToNanosOfDay_reads = ["t_Nanosecond", "t_UTC_Second", "t_UTC_Minute", "t_UTC_Hour"] ∧
    (Gen.GoFn.ConvertTimeToNanosOfDay ns s m h).toNat =
      ns.toNat + s.toNat * 1000000000 + m.toNat * 60000000000 + h.toNat * 3600000000000 ∧
    (Gen.GoFn.ConvertTimeToNanosOfDay ns s m h).toNat < 86400000000000 := by
  refine ⟨rfl, nanosOfDay_tie ns s m h hns hs hm hh, ?_⟩
  rw [nanosOfDay_tie ns s m h hns hs hm hh]; omega

/-- the timestamp and date conversions read only what is the same in every location: `t.Unix()` and `t.Nanosecond()` -/
theorem C13_instant_conversions_read_the_instant :
    Gen.GoFn.ConvertTimeToEpochMillis_reads = ["t_Unix", "t_Nanosecond"] ∧
    Gen.GoFn.ConvertTimeToEpochDays_reads = ["t_Unix"] := ⟨rfl, rfl⟩

/-- non-vacuity: the regenerated functions evaluated on the documentation's boundary cases (`TimestampMax` and one
    millisecond beyond it) and on a value whose intermediate product wraps -/
example : toR (Gen.GoFn.ConvertTimeToEpochMillis 9223372036854775#64 807000000#64) = .ok 9223372036854775807 := by decide
example : toR (Gen.GoFn.ConvertTimeToEpochMillis 9223372036854775#64 808000000#64) = .outOfRange := by decide
example : (Gen.GoFn.addExact 9223372036854775807#64 1#64).2 = true := by decide
example : (Gen.GoFn.floorDiv (BitVec.ofInt 64 (-1)) 1000#64).toInt = -1 := by decide

end Cql.Props.C13AsWritten
