import Cql.Spec.Message
import Cql.Lemmas.SpecFrame
import Cql.Lemmas.SpecRequests
import Cql.Lemmas.SpecResponses
import Cql.Props.C01
/-!
# C02 — emitted bytes are the specification's bytes; bad headers are rejected

`Cql/Spec/*.lean` is written from the documents in /repo/specs (every clause quotes its sentence), independently of the
code-shaped `Cql/Impl/*.lean` that mirrors the Go control flow and is compared with the Go code on every run. The theorems
below say that the code-shaped encoder produces exactly the specification's bytes for every version-valid frame of every
message kind, and that the decoder reads specification-formatted bytes back to the frame they denote; a mistake made
symmetrically in the Go encoder and decoder (mirrored in `Impl` by the correspondence run) leaves `Spec` untouched, so
these theorems stop checking.
-/
namespace Cql.Props.C02
open Cql Cql.Prim Cql.Parser Cql.Gen Cql.Impl Cql.Props.C01

/-- elements that the message's version does not define are unset (a v4 QUERY carries no keyspace, a v2 QUERY no default
    timestamp or named values, only DSE carries continuous paging …): part of version-validity for C02. The encoder itself
    does not check this — see `C02_undefined_fields_are_written`. -/
abbrev FieldsDefined := SpecRequests.MsgFieldsDefined

theorem supported_known {v : Nat} (h : ProtocolVersion_IsSupported v = true) : v ∈ Spec.knownVersions ∧ v ∈ SupportedProtocolVersions := by
  have hmem : v ∈ SupportedProtocolVersions := by simpa [ProtocolVersion_IsSupported] using h
  have hlt : v < 256 := by
    have : ∀ x ∈ SupportedProtocolVersions, x < 256 := by decide
    exact this _ hmem
  have := SpecFrame.knownVersions_eq v hlt
  rw [h] at this
  exact ⟨by simpa using this.symm, hmem⟩

/-- **Message bodies.** For all 17 message kinds (every ERROR, RESULT and EVENT variant, every optional field subset): the body
    the encoder writes for a version-valid message is the body §4 of that version's document prescribes. -/
theorem C02_message_body (version : Nat) (hver : ProtocolVersion_IsSupported version = true) (m : Msg)
    (hv : ValidMsg version m) (hd : FieldsDefined version m) (b : Bytes) (hw : encodeMsg version m = .ok b) :
    b = Spec.messageBody version m := by
  obtain ⟨hk, hs⟩ := supported_known hver
  cases m with
  | ready => exact SpecResponses.encodeReady_spec version hv b hw
  | authenticate a => exact SpecResponses.encodeAuthenticate_spec version a hv b hw
  | supported o => exact SpecResponses.encodeSupported_spec version o hv b hw
  | authChallenge t => exact SpecResponses.encodeAuthChallenge_spec version t hv b hw
  | authSuccess t => exact SpecResponses.encodeAuthSuccess_spec version t hv b hw
  | error e => exact SpecResponses.encodeError_spec version hs e hv b hw
  | result r => exact SpecResponses.encodeResult_spec version hs r hv b hw
  | event e => exact SpecResponses.encodeEvent_spec version hs e hv b hw
  | startup o => exact SpecRequests.encodeMsg_spec_request version hk _ hv hd b hw _ rfl
  | options => exact SpecRequests.encodeMsg_spec_request version hk _ hv hd b hw _ rfl
  | query q o => exact SpecRequests.encodeMsg_spec_request version hk _ hv hd b hw _ rfl
  | prepare q ks => exact SpecRequests.encodeMsg_spec_request version hk _ hv hd b hw _ rfl
  | execute a c o => exact SpecRequests.encodeMsg_spec_request version hk _ hv hd b hw _ rfl
  | batch x => exact SpecRequests.encodeMsg_spec_request version hk _ hv hd b hw _ rfl
  | register l => exact SpecRequests.encodeMsg_spec_request version hk _ hv hd b hw _ rfl
  | authResponse t => exact SpecRequests.encodeMsg_spec_request version hk _ hv hd b hw _ rfl
  | revise a c d => exact SpecRequests.encodeMsg_spec_request version hk _ hv hd b hw _ rfl

/-- the frame body: optional parts in the documents' order (tracing id, warnings, custom payload), then the message -/
theorem C02_frame_body (h : Header) (b : Body) (hver : ProtocolVersion_IsSupported h.version = true) (hfl : h.flags < 256)
    (hv : ValidBody h b) (hd : FieldsDefined h.version b.message) (bs : Bytes) (hw : encodeBodyUncompressed h b = .ok bs) :
    bs = Spec.frameBody h b := by
  rw [encodeBodyUncompressed] at hw
  obtain ⟨pre, hpre, hw⟩ := Res.bind_ok_inv hw
  obtain ⟨m, hm, hw⟩ := Res.bind_ok_inv hw
  rw [← Res.pure_ok_inv hw, SpecFrame.encodeBodyPrefix_spec h b hfl hv pre hpre,
    C02_message_body h.version hver b.message hv.msg hd m hm, Spec.frameBody]

/-- **C02 (encoder).** The bytes `EncodeFrame` produces for a version-valid uncompressed frame — any version, any message,
    any field values — are exactly the specification's: header layout with direction bit and version-dependent stream-id
    width, one flags byte, opcode, `[int]` length equal to the body's length; then the body. -/
theorem C02_frame_bytes (f : Frame) (hv : ValidFrame none f) (hd : FieldsDefined f.header.version f.body.message)
    (hnc : hasFlag f.header.flags HeaderFlagCompressed = false) (b : Bytes) (bl : Nat)
    (hw : encodeFrame none f = .ok (b, bl)) :
    b = Spec.frame f ∧ bl = (Spec.frameBody f.header f.body).length := by
  rw [encodeFrame, hnc, if_neg (by decide)] at hw
  obtain ⟨n, hn, hw⟩ := Res.bind_ok_inv hw
  obtain ⟨hdr, hhdr, hw⟩ := Res.bind_ok_inv hw
  obtain ⟨body, hbody, hw⟩ := Res.bind_ok_inv hw
  have hw := Res.pure_ok_inv hw
  -- the body
  have hbody' : encodeBodyUncompressed f.header f.body = .ok body := by
    rw [encodeBody.eq_def] at hbody
    obtain ⟨_, _, hbody⟩ := Res.bind_ok_inv hbody
    have : hasFlag ({ f.header with bodyLength := n % 4294967296 } : Header).flags HeaderFlagCompressed = false := hnc
    rw [this, if_neg (by decide)] at hbody
    exact hbody
  have hspec := C02_frame_body f.header f.body hv.version hv.flags hv.body hd body hbody'
  have hlen := encodeBodyUncompressed_len f.header f.body hv.body body hbody'
  rw [hn] at hlen
  have hn' : n = body.length := Res.ok_inj hlen
  have hsize := hv.size body hbody'
  have hmod : n % 4294967296 = body.length := by rw [hn']; omega
  -- the header
  have hvh : ValidHeader ({ f.header with bodyLength := n % 4294967296 } : Header) :=
    { version := hv.version, flags := hv.flags, streamId := hv.streamId
      opCode := by
        show OpCode_IsValid f.header.opCode = true
        rw [hv.body.opCode]; cases f.body.message <;> rfl
      direction := by
        show f.header.isResponse = OpCode_IsResponse f.header.opCode
        rw [hv.body.direction, hv.body.opCode]; rfl
      bodyLength := Nat.mod_lt _ (by decide) }
  have hh := SpecFrame.encodeHeader_spec _ hvh hdr hhdr
  have e1 : b = hdr ++ body := (congrArg Prod.fst hw).symm
  have e2 : bl = n % 4294967296 := (congrArg Prod.snd hw).symm
  constructor
  · rw [e1, hh, hspec, Spec.frame]
    show Spec.header f.header.version f.header.isResponse f.header.flags f.header.streamId f.header.opCode (n % 4294967296) ++ _ = _
    rw [hmod, hspec]
  · rw [e2, hmod, hspec]

/-- **C02 (decoder).** Specification-formatted bytes decode to the frame they denote: for every version-valid frame the
    decoder reads `Spec.frame f` (followed by anything) back as `f` (up to what the wire does not carry) and stops exactly
    at its end. -/
theorem C02_spec_bytes_decode (f : Frame) (hv : ValidFrame none f) (hd : FieldsDefined f.header.version f.body.message)
    (hnc : hasFlag f.header.flags HeaderFlagCompressed = false)
    (hsid : f.header.version < ProtocolVersion3 → ¬ (toInt16 f.header.streamId > 127 ∨ toInt16 f.header.streamId < -128))
    (rest : Bytes) :
    (decodeFrame none).run (Spec.frame f ++ rest) = .ok (canonFrame f (Spec.frameBody f.header f.body).length, rest) := by
  obtain ⟨b, bl, hw⟩ := C01_valid_frames_encode f hv hnc hsid
  obtain ⟨hb, hbl⟩ := C02_frame_bytes f hv hd hnc b bl hw
  rw [← hb, ← hbl]
  exact C01_frame_roundtrip none f hv b bl hw rest

/-- **C02 (compressed frames).** With the COMPRESSED flag the header is the specification's header for the length of the
    compressed body, and the body is the compressor's output on exactly the specification's uncompressed body. -/
theorem C02_compressed_frame_bytes (comp : BodyCompressor) (f : Frame) (hv : ValidFrame (some comp) f)
    (hd : FieldsDefined f.header.version f.body.message)
    (hc : hasFlag f.header.flags HeaderFlagCompressed = true) (b : Bytes) (bl : Nat)
    (hw : encodeFrame (some comp) f = .ok (b, bl)) :
    ∃ z, comp.compressWithLength (Spec.frameBody f.header f.body) = .ok z ∧ bl = z.length ∧
      b = Spec.header f.header.version f.header.isResponse f.header.flags f.header.streamId f.header.opCode z.length ++ z := by
  rw [encodeFrame, hc, if_pos rfl] at hw
  obtain ⟨z, hz, hw⟩ := Res.bind_ok_inv hw
  obtain ⟨hdr, hhdr, hw⟩ := Res.bind_ok_inv hw
  have hpair := Res.pure_ok_inv hw
  rw [encodeBody.eq_def] at hz
  obtain ⟨_, _, hz⟩ := Res.bind_ok_inv hz
  rw [hc, if_pos rfl] at hz
  obtain ⟨_, _, hz⟩ := Res.bind_ok_inv hz
  obtain ⟨raw, hraw, hz⟩ := Res.bind_ok_inv hz
  have hspec := C02_frame_body f.header f.body hv.version hv.flags hv.body hd raw hraw
  obtain ⟨comp', hcomp', hl⟩ := hv.compression hc
  have hce : comp' = comp := (Option.some.inj hcomp').symm
  subst hce
  have hzl := ((hl raw hraw) z hz).2
  have hmod : z.length % 4294967296 = z.length := by omega
  have hvh : ValidHeader ({ f.header with bodyLength := z.length % 4294967296 } : Header) :=
    { version := hv.version, flags := hv.flags, streamId := hv.streamId
      opCode := by
        show OpCode_IsValid f.header.opCode = true
        rw [hv.body.opCode]; cases f.body.message <;> rfl
      direction := by
        show f.header.isResponse = OpCode_IsResponse f.header.opCode
        rw [hv.body.direction, hv.body.opCode]; rfl
      bodyLength := Nat.mod_lt _ (by decide) }
  have hh := SpecFrame.encodeHeader_spec _ hvh hdr hhdr
  refine ⟨z, by rw [← hspec]; exact hz, ?_, ?_⟩
  · have e2 : z.length % 4294967296 = bl := congrArg Prod.snd hpair
    rw [← e2, hmod]
  · have e1 : hdr ++ z = b := congrArg Prod.fst hpair
    rw [← e1, hh]
    show Spec.header f.header.version f.header.isResponse f.header.flags f.header.streamId f.header.opCode (z.length % 4294967296) ++ z = _
    rw [hmod]

/-- **C02 (rejection, all 2^16 combinations).** Whatever the first byte (version and direction) and the opcode byte are: if
    the version is not one of the six documented ones, or the opcode is not declared, or a request opcode carries the
    response bit or the reverse, the header decoder returns an error — for every value of the other header bytes and
    whatever follows. (The opcode is the 4th byte for the 1-byte stream ids of v2 and the 5th otherwise.) -/
theorem C02_bad_header_rejected (b0 b1 b2 b3 b4 : UInt8) (tl : Bytes)
    (hbad : ¬ Spec.HeaderOkAnyVersion b0.toNat (if Spec.versionOf b0.toNat ≤ Spec.versionV2 then b3.toNat else b4.toNat)) :
    ∃ e, decodeHeader.run (b0 :: b1 :: b2 :: b3 :: b4 :: tl) = .err e :=
  SpecFrame.header_rejected_raw b0 b1 b2 b3 b4 tl hbad

/-- … and the frame decoder accepts only headers the document of THAT version allows (the DSE-only opcode 0xFF with a
    non-DSE version byte passes `DecodeHeader` but is refused by `DecodeFrame`) -/
theorem C02_decoded_frames_have_spec_headers (c : Option BodyCompressor) (s : Bytes) (f : Frame) (rest : Bytes)
    (hd : (decodeFrame c).run s = .ok (f, rest)) :
    Spec.HeaderOk (Spec.versionByte f.header.version f.header.isResponse) f.header.opCode :=
  SpecFrame.decodeFrame_headerOk c s f rest hd

/-- a header the specification allows is accepted and read back field by field -/
theorem C02_good_header_accepted (version : Nat) (isResponse : Bool) (flags streamId opcode bodyLength : Nat)
    (hv : version < 128) (hok : Spec.HeaderOk (Spec.versionByte version isResponse) opcode)
    (hfl : flags < 256) (hsid : streamId < 65536)
    (hsid8 : version ≤ Spec.versionV2 → streamId < 128 ∨ 65408 ≤ streamId)
    (hbl : bodyLength < 4294967296) (rest : Bytes) :
    decodeHeader.run (Spec.header version isResponse flags streamId opcode bodyLength ++ rest) =
      .ok ({ isResponse := isResponse, version := version, flags := flags, streamId := streamId, opCode := opcode,
             bodyLength := bodyLength }, rest) :=
  SpecFrame.decodeHeader_spec version isResponse flags streamId opcode bodyLength hv hok hfl hsid hsid8 hbl rest

end Cql.Props.C02
