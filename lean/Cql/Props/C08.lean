import Cql.Compress
import Cql.Lemmas.CompressRT
import Cql.Props.C01
import Cql.Props.C06
/-!
# C08 — compression is lossless (the repository's wrapper logic)

`Cql.Compress` models `compression/lz4/lz4.go` and `compression/snappy/snappy.go` as they are now: the 4-byte big-endian
length prefix, the special cases for empty messages, the destination-growing loop of `decompress` and what
`DecompressWithLength` consumes from its source. The block functions of `pierrec/lz4` and `golang/snappy` are parameters
constrained by `Lz4Law` / `SnappyLaw`; the theorems hold for EVERY byte string and EVERY block codec satisfying the
contract (`literalCodec` shows the contract is satisfiable).
-/
namespace Cql.Props.C08
open Cql Cql.Prim Cql.Parser Cql.Gen Cql.Impl Cql.Compress

/-! ## the loop of `decompress` -/

/-- `growFuel` (9) iterations are never exhausted: whatever `UncompressBlock` does, for a non-empty source the loop started
    at `2·len` ends within 8 iterations (at size `256·len > 255·len` at the latest), so more fuel changes nothing. -/
theorem C08_growLoop_fuel (codec : BlockCodec) (src : Bytes) (h : src ≠ []) (extra : Nat) :
    growLoop codec src (growFuel + extra) (src.length * 2) = growLoop codec src growFuel (src.length * 2) := by
  have h0 : src.length ≠ 0 := fun h0 => h (List.length_eq_zero_iff.mp h0)
  have := growLoop_extra codec src 8 (src.length * 2) extra (growFuel_enough src h0)
  rw [growFuel, Nat.add_right_comm 8 1 extra]
  exact this

/-- `Decompress` never panics (in particular never runs out of fuel) when `UncompressBlock` does not -/
theorem C08_lz4Decompress_noPanic (codec : BlockCodec) (hc : ∀ c d e, codec.uncompressBlock c d ≠ .panic e) (src : Bytes)
    (e : String) : lz4Decompress codec src ≠ .panic e := by
  rw [lz4Decompress]; exact decompress_noPanic codec hc src e

/-! ## LZ4, raw block format (payload of v5 segments) -/

/-- **C08 (LZ4 raw).** `Decompress` undoes `Compress` for every input: the empty one (block `00`), and any compression
    ratio the format can reach (the destination grows `2n, 4n, …, 256n`), not only ratios up to a fixed small factor. -/
theorem C08_lz4_roundtrip (codec : BlockCodec) (law : Lz4Law codec) (x : Bytes) :
    (lz4Compress codec x >>= lz4Decompress codec) = .ok x := by
  obtain ⟨c, hc⟩ := law.compress_total x
  rw [lz4Compress, hc]
  show lz4Decompress codec c = _
  rw [lz4Decompress]
  exact decompress_compressBlock codec law x c hc

theorem C08_lz4_roundtrip' (codec : BlockCodec) (law : Lz4Law codec) (x c : Bytes) (hc : lz4Compress codec x = .ok c) :
    lz4Decompress codec c = .ok x := by
  rw [lz4Compress] at hc
  rw [lz4Decompress]
  exact decompress_compressBlock codec law x c hc

/-- `Compress` itself never fails -/
theorem C08_lz4_compress_ok (codec : BlockCodec) (law : Lz4Law codec) (x : Bytes) : ∃ c, lz4Compress codec x = .ok c :=
  law.compress_total x

/-! ## LZ4, length-prefixed format (frame bodies) -/

/-- `DecompressWithLength` undoes `CompressWithLength` and reads every byte `CompressWithLength` wrote, for every input
    shorter than 4 GiB (the prefix is `uint32(len)`), including the empty one (prefix 0, block `00`). -/
theorem C08_lz4_withLength_consumes (codec : BlockCodec) (law : Lz4Law codec) (x : Bytes) (hx : x.length < 4294967296)
    (c : Bytes) (hc : lz4CompressWithLength codec x = .ok c) :
    lz4DecompressWithLengthRest codec c = .ok (x, []) := by
  rw [lz4CompressWithLength] at hc
  obtain ⟨block, hblock, hc⟩ := Res.bind_ok_inv hc
  rw [← Res.pure_ok_inv hc, Nat.mod_eq_of_lt hx, lz4DecompressWithLengthRest_prefixed codec _ hx]
  by_cases h0 : x = []
  · subst h0
    rw [law.compress_nil] at hblock
    rw [← Res.ok_inj hblock]
    rfl
  · have hn : x.length ≠ 0 := fun h => h0 (List.length_eq_zero_iff.mp h)
    rw [if_neg hn, lz4Decompress, decompress_block codec law x block h0 hblock]
    rfl

/-- **C08 (LZ4 with length).** -/
theorem C08_lz4_withLength_roundtrip (codec : BlockCodec) (law : Lz4Law codec) (x : Bytes) (hx : x.length < 4294967296) :
    (lz4CompressWithLength codec x >>= lz4DecompressWithLength codec) = .ok x := by
  obtain ⟨block, hblock⟩ := law.compress_total x
  have hc : lz4CompressWithLength codec x = .ok (writeInt (x.length % 4294967296) ++ block) := by
    rw [lz4CompressWithLength, hblock]; rfl
  rw [hc]
  show lz4DecompressWithLength codec _ = _
  rw [lz4DecompressWithLength, C08_lz4_withLength_consumes codec law x hx _ hc]
  rfl

/-- why the bound is there: a non-empty input whose length is a multiple of 2^32 gets the prefix 0, which
    `DecompressWithLength` reads as "empty message" — it does not return the input. -/
theorem C08_lz4_withLength_prefix_wraps (codec : BlockCodec) (x : Bytes) (hne : x ≠ [])
    (hx : x.length % 4294967296 = 0) (c : Bytes) (hc : lz4CompressWithLength codec x = .ok c) :
    lz4DecompressWithLengthRest codec c ≠ .ok (x, []) := by
  rw [lz4CompressWithLength] at hc
  obtain ⟨block, _, hc⟩ := Res.bind_ok_inv hc
  rw [← Res.pure_ok_inv hc, hx, lz4DecompressWithLengthRest_prefixed codec 0 (by decide), if_pos rfl]
  cases block with
  | nil => intro h; cases h
  | cons b bs =>
    intro h
    have h1 : (([] : Bytes), bs) = (x, []) := Res.ok_inj h
    exact hne (congrArg Prod.fst h1).symm

/-! ## Snappy -/

/-- the length check never refuses what `snappy.Encode` produced -/
theorem snappyDecodeChecked_encode (codec : BlockCodec) (law : SnappyLaw codec) (x : Bytes) :
    snappyDecodeChecked codec (codec.encode x) = .ok x := by
  rw [snappyDecodeChecked, law.decodedLen_encode]
  show (if x.length > snappyMaxRatio * (codec.encode x).length then _ else codec.decode (codec.encode x)) = _
  rw [if_neg (Nat.not_lt.mpr (law.ratio x)), law.decode_encode]

/-- a block whose header declares more than 64 times its own size is refused before anything is allocated for it -/
theorem C08_snappy_implausible_length_refused (codec : BlockCodec) (chunk : Bytes) (n : Nat)
    (hn : codec.decodedLen chunk = .ok n) (hbig : 64 * chunk.length < n) :
    snappyDecompressWithLength codec chunk = .err "declared length is impossible" := by
  rw [snappyDecompressWithLength, snappyDecodeChecked, hn]
  show (if n > snappyMaxRatio * chunk.length then _ else _) = _
  exact if_pos hbig

/-- **C08 (Snappy).** -/
theorem C08_snappy_roundtrip (codec : BlockCodec) (law : SnappyLaw codec) (x : Bytes) :
    (snappyCompressWithLength codec x >>= snappyDecompressWithLength codec) = .ok x := by
  rw [snappyCompressWithLength]
  show snappyDecompressWithLength codec (codec.encode x) = _
  rw [snappyDecompressWithLength, snappyDecodeChecked_encode codec law]

theorem C08_snappy_consumes (codec : BlockCodec) (law : SnappyLaw codec) (x c : Bytes)
    (hc : snappyCompressWithLength codec x = .ok c) : snappyDecompressWithLengthRest codec c = .ok (x, []) := by
  rw [snappyCompressWithLength] at hc
  rw [← Res.ok_inj hc, snappyDecompressWithLengthRest, snappyDecodeChecked_encode codec law]
  rfl

/-! ## the compressors under the frame codec (C01) and the segment codec (C06) -/

/-- the LZ4 compressor meets C01's requirement on every body whose block bound, with the 4 prefix bytes, fits the
    header's 32-bit signed `BodyLength` -/
theorem C08_lz4_lossless (codec : BlockCodec) (law : Lz4Law codec) (raw : Bytes)
    (h : raw.length + raw.length / 255 + 20 < 2147483648) : C01.Lossless (lz4BodyCompressor codec) raw := by
  intro c hc
  have hc' : lz4CompressWithLength codec raw = .ok c := hc
  refine ⟨C08_lz4_withLength_consumes codec law raw (by omega) c hc', ?_⟩
  rw [lz4CompressWithLength] at hc'
  obtain ⟨block, hblock, hc'⟩ := Res.bind_ok_inv hc'
  have hb := law.bound raw block hblock
  rw [← Res.pure_ok_inv hc', List.length_append, writeInt_len]
  omega

/-- … in particular on every body of at most 2^31 − 2^24 bytes -/
theorem C08_lz4_lossless_of_le (codec : BlockCodec) (law : Lz4Law codec) (raw : Bytes) (h : raw.length ≤ 2130706432) :
    C01.Lossless (lz4BodyCompressor codec) raw :=
  C08_lz4_lossless codec law raw (by omega)

theorem C08_snappy_lossless (codec : BlockCodec) (law : SnappyLaw codec) (raw : Bytes)
    (h : 32 + raw.length + raw.length / 6 < 2147483648) : C01.Lossless (snappyBodyCompressor codec) raw := by
  intro c hc
  have hc' : snappyCompressWithLength codec raw = .ok c := hc
  refine ⟨C08_snappy_consumes codec law raw c hc', ?_⟩
  rw [snappyCompressWithLength] at hc'
  have hb := law.bound raw
  rw [← Res.ok_inj hc']
  omega

/-- the LZ4 compressor meets C06's requirement on every segment payload -/
theorem C08_lz4_losslessOn (codec : BlockCodec) (law : Lz4Law codec) (p : Bytes) :
    C06.LosslessOn (lz4PayloadCompressor codec) p :=
  { roundtrip := fun c hc => C08_lz4_roundtrip' codec law p c hc
    nonempty := fun c hc h0 => by
      have hc' : codec.compressBlock p = .ok c := hc
      by_cases hp : p = []
      · exact hp
      · exact absurd (Or.inl (by rw [h0]; rfl)) (block_proper codec law p c hp hc') }

/-- **segments with LZ4**: every payload within the limit, followed by any bytes, survives
    `EncodeSegment`/`DecodeSegment` with the LZ4 compressor, whichever branch (compressed form / fallback) is taken -/
theorem C08_segment_roundtrip_lz4 (codec : BlockCodec) (law : Lz4Law codec) (sc : Bool) (p rest : Bytes)
    (hp : p.length ≤ 131071) :
    ∃ b seg, Segment.encodeSegment (some (lz4PayloadCompressor codec)) sc p = .ok b ∧
      (Segment.decodeSegment (some (lz4PayloadCompressor codec))).run (b ++ rest) = .ok (seg, rest) ∧
      seg.payload = p ∧ seg.header.isSelfContained = sc ∧ seg.header.uncompressedPayloadLength = p.length := by
  obtain ⟨b, hb⟩ := C06.C06_encodes (some (lz4PayloadCompressor codec)) sc p hp
    (fun comp h => by cases h; exact law.compress_total p)
  obtain ⟨seg, hseg, h1, h2, h3⟩ :=
    C06.C06_segment_roundtrip_compressed (lz4PayloadCompressor codec) sc p rest hp (C08_lz4_losslessOn codec law p) b hb
  exact ⟨b, seg, hb, hseg, h1, h2, h3⟩

/-- the segment decoder with the LZ4 compressor never panics -/
theorem C08_decodeSegment_lz4_noPanic (codec : BlockCodec) (hc : ∀ c d e, codec.uncompressBlock c d ≠ .panic e) :
    NoPanic (Segment.decodeSegment (some (lz4PayloadCompressor codec))) :=
  C06.C06_decodeSegment_noPanic _ (fun comp h x e => by
    cases h
    exact C08_lz4Decompress_noPanic codec hc x e)

/-! ## frames: compression is transparent -/

/-- a frame that is valid apart from compression is valid for the codec with the LZ4 compressor, provided its
    uncompressed body is at most 2^31 − 2^24 bytes (so that the compressed body fits `BodyLength`) -/
theorem C08_validFrame_lz4 (codec : BlockCodec) (law : Lz4Law codec) (f : Frame)
    (version : ProtocolVersion_IsSupported f.header.version = true) (flags : f.header.flags < 256)
    (streamId : f.header.streamId < 65536) (body : ValidBody f.header f.body)
    (size : ∀ bs, encodeBodyUncompressed f.header f.body = .ok bs → bs.length ≤ 2130706432) :
    C01.ValidFrame (some (lz4BodyCompressor codec)) f :=
  { version := version, flags := flags, streamId := streamId, body := body
    size := fun bs h => by have := size bs h; omega
    compression := fun _ => ⟨_, rfl, fun bs h => C08_lz4_lossless_of_le codec law bs (size bs h)⟩ }

/-- **C08 (frames).** Take a frame `f` with the COMPRESSED flag and the frame `g` that differs from it only by that
    flag, both version-valid, the uncompressed body at most 2^31 − 2^24 bytes. Encoding `f` with the LZ4 compressor and `g`
    without any, then decoding each with its own setting, succeeds, leaves exactly the bytes that followed, and yields the
    same body (tracing id, warnings, custom payload, message). -/
theorem C08_frame_compression_transparent (codec : BlockCodec) (law : Lz4Law codec) (f g : Frame)
    (version : ProtocolVersion_IsSupported f.header.version = true) (flags : f.header.flags < 256)
    (streamId : f.header.streamId < 65536) (body : ValidBody f.header f.body)
    (size : ∀ bs, encodeBodyUncompressed f.header f.body = .ok bs → bs.length ≤ 2130706432)
    (hvg : C01.ValidFrame none g)
    (hbody : g.body = f.body) (hversion : g.header.version = f.header.version)
    (hflags : g.header.flags = HeaderFlag_Remove f.header.flags HeaderFlagCompressed)
    (b : Bytes) (bl : Nat) (hw : encodeFrame (some (lz4BodyCompressor codec)) f = .ok (b, bl))
    (b' : Bytes) (bl' : Nat) (hw' : encodeFrame none g = .ok (b', bl')) (rest rest' : Bytes) :
    ∃ F G, (decodeFrame (some (lz4BodyCompressor codec))).run (b ++ rest) = .ok (F, rest) ∧
      (decodeFrame none).run (b' ++ rest') = .ok (G, rest') ∧ F.body = G.body := by
  have hvf := C08_validFrame_lz4 codec law f version flags streamId body size
  refine ⟨_, _, C01.C01_frame_roundtrip _ f hvf b bl hw rest, C01.C01_frame_roundtrip _ g hvg b' bl' hw' rest', ?_⟩
  obtain ⟨_, _, h3, h4, _, _⟩ := remove_compressed_flags f.header.flags hvf.flags
  show canonBody f.header f.body = canonBody g.header g.body
  rw [canonBody, canonBody, hbody, hversion, hflags, h3, h4]

/-! ## non-vacuity: the contracts are satisfiable -/

/-- the "all literals" codec satisfies every clause of the LZ4 contract -/
theorem C08_literalCodec_lz4Law : Lz4Law literalCodec :=
  { compress_total := fun x => by
      by_cases hx : x = []
      · subst hx; exact ⟨[0], rfl⟩
      · exact ⟨_, literal_block x hx⟩
    compress_nil := rfl
    uncompress_fits := fun x c dst hx hc hfit => by
      rw [literal_block x hx] at hc
      rw [← Res.ok_inj hc]
      show (if x.length ≤ dst then Res.ok x else Res.err "short buffer") = _
      rw [if_pos hfit]
    uncompress_short := fun x c dst hx hc hshort => by
      rw [literal_block x hx] at hc
      rw [← Res.ok_inj hc]
      refine ⟨"short buffer", ?_⟩
      show (if x.length ≤ dst then Res.ok x else Res.err "short buffer") = _
      rw [if_neg (by omega)]
    ratio := fun x c hx hc => by
      rw [literal_block x hx] at hc
      rw [← Res.ok_inj hc, List.length_cons]; omega
    block_ne_zero := fun x c hx hc h => by
      rw [literal_block x hx, h] at hc
      have h1 : (1 :: x : Bytes) = [0] := Res.ok_inj hc
      have h2 := List.head_eq_of_cons_eq h1
      exact absurd h2 (by decide)
    bound := fun x c hc => by
      by_cases hx : x = []
      · subst hx
        have h1 : ([0] : Bytes) = c := Res.ok_inj hc
        rw [← h1]; decide
      · rw [literal_block x hx] at hc
        rw [← Res.ok_inj hc, List.length_cons]; omega }

theorem C08_literalCodec_snappyLaw : SnappyLaw literalCodec :=
  { decode_encode := fun _ => rfl
    decodedLen_encode := fun _ => rfl
    ratio := fun x => (by show x.length ≤ 64 * x.length; omega)
    bound := fun x => (by show x.length ≤ _; omega) }

/-- the round-trip theorem instantiated on the concrete codec … -/
example (x : Bytes) : (lz4Compress literalCodec x >>= lz4Decompress literalCodec) = .ok x :=
  C08_lz4_roundtrip literalCodec C08_literalCodec_lz4Law x

/-- … and evaluated on concrete bytes, through the actual loop -/
example : lz4CompressWithLength literalCodec [7, 8, 9] = .ok [0, 0, 0, 3, 1, 7, 8, 9] := by decide
example : lz4DecompressWithLengthRest literalCodec [0, 0, 0, 3, 1, 7, 8, 9] = .ok ([7, 8, 9], []) := by decide
example : lz4CompressWithLength literalCodec [] = .ok [0, 0, 0, 0, 0] := by decide
example : lz4DecompressWithLengthRest literalCodec [0, 0, 0, 0, 0, 42] = .ok ([], [42]) := by decide

/-- a toy codec with ratio 200:1 (a run of `05`, one block byte per started 200 input bytes): the 2-byte block of 400
    bytes needs a destination of at least 400 = 200·n bytes, which the loop reaches at its 8th size `256·n = 512`
    (sizes 4, 8, …, 256 are refused first) -/
def rleCodec : BlockCodec :=
  { compressBlock := fun x => if x.length = 0 then .ok [0] else .ok (List.replicate ((x.length + 199) / 200) 1)
    uncompressBlock := fun c dst => if c.length * 200 ≤ dst then .ok (List.replicate (c.length * 200) 5) else .err "short buffer"
    encode := fun x => x
    decodedLen := fun x => .ok x.length
    decode := fun x => .ok x }

example : (lz4Compress rleCodec (List.replicate 400 5) >>= lz4Decompress rleCodec) = .ok (List.replicate 400 5) := by
  decide +kernel

/-- C01's requirement instantiated on the concrete codec -/
example (raw : Bytes) (h : raw.length ≤ 2130706432) : C01.Lossless (lz4BodyCompressor literalCodec) raw :=
  C08_lz4_lossless_of_le literalCodec C08_literalCodec_lz4Law raw h

/-- a v5 segment whose payload really goes out compressed (400 bytes → the 2-byte block `01 01`, header lengths 2 / 400)
    and comes back through `decompress`'s loop, kernel-evaluated -/
example : (match Segment.encodeSegment (some (lz4PayloadCompressor rleCodec)) true (List.replicate 400 5) with
    | .ok b => b.length == 5 + 3 + 2 + 4 &&
        (match (Segment.decodeSegment (some (lz4PayloadCompressor rleCodec))).run (b ++ [9]) with
          | .ok (seg, r) => seg.payload == List.replicate 400 5 && seg.header.compressedPayloadLength == 2 &&
              seg.header.uncompressedPayloadLength == 400 && r == [9]
          | _ => false)
    | _ => false) = true := by decide +kernel

/-- … and one that falls back (the literal codec's block is one byte longer than the payload) -/
example : (match Segment.encodeSegment (some (lz4PayloadCompressor literalCodec)) false [1, 2, 3] with
    | .ok b => b.length == 5 + 3 + 3 + 4 &&
        (match (Segment.decodeSegment (some (lz4PayloadCompressor literalCodec))).run b with
          | .ok (seg, r) => seg.payload == [1, 2, 3] && seg.header.compressedPayloadLength == 0 &&
              seg.header.uncompressedPayloadLength == 3 && r == []
          | _ => false)
    | _ => false) = true := by decide +kernel

end Cql.Props.C08
