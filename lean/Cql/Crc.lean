import Cql.Bytes
/-!
# The two checksums of the v5 framing (`crc/crc24.go`, `crc/crc32.go`)

`crc24` is a literal transcription of `ChecksumKoopman` (registers as `BitVec 32` / `BitVec 64`, i.e. Go's `uint32` /
`uint64` with wrap-around). `crc32` is the bit-at-a-time reflected CRC-32 (IEEE polynomial `0xEDB88320`); the Go code
computes the same function with `hash/crc32`'s table / SIMD code, which is a parameter of the model (compared
differentially on every run). Constants come from `Cql.Gen.CrcFacts` where the translator extracts them.
-/
namespace Cql.Crc

def crc24Init : BitVec 32 := 0x875060#32
def crc24Poly : BitVec 32 := 0x1974F0B#32

/-- `crc <<= 1; if (crc & 0x1000000) != 0 { crc ^= crc24Poly }` -/
def crc24Bit (crc : BitVec 32) : BitVec 32 :=
  let c := crc <<< 1
  if c &&& 0x1000000#32 ≠ 0#32 then c ^^^ crc24Poly else c

def iter {α} (f : α → α) : Nat → α → α
  | 0, x => x
  | n + 1, x => iter f n (f x)

/-- one iteration of the outer loop: `crc ^= (uint32)(data) << 16; data >>= 8;` then eight bit steps -/
def crc24Byte (st : BitVec 32 × BitVec 64) : BitVec 32 × BitVec 64 :=
  let crc := st.1 ^^^ ((st.2.setWidth 32) <<< 16)
  (iter crc24Bit 8 crc, st.2 >>> 8)

/-- `ChecksumKoopman(data, len)` started from an arbitrary register value -/
def crc24From (init : BitVec 32) (data : BitVec 64) (len : Nat) : BitVec 32 := (iter crc24Byte len (init, data)).1

def crc24 (data : BitVec 64) (len : Nat) : BitVec 32 := crc24From crc24Init data len

/-! ### CRC-32 -/

def crc32Poly : BitVec 32 := 0xEDB88320#32

/-- one bit of the reflected CRC-32: `if crc&1 == 1 { crc = crc>>1 ^ poly } else { crc >>= 1 }` -/
def crc32Bit (crc : BitVec 32) : BitVec 32 :=
  if crc &&& 1#32 = 1#32 then (crc >>> 1) ^^^ crc32Poly else crc >>> 1

def crc32Byte (crc : BitVec 32) (b : UInt8) : BitVec 32 :=
  iter crc32Bit 8 (crc ^^^ (BitVec.ofNat 32 b.toNat))

/-- the raw register update over a byte string (no initial / final complement) -/
def crc32Raw (crc : BitVec 32) (bs : Bytes) : BitVec 32 := bs.foldl crc32Byte crc

/-- `crc32.Update(crc, crc32.IEEETable, p)` -/
def crc32Update (crc : BitVec 32) (bs : Bytes) : BitVec 32 := ~~~ (crc32Raw (~~~ crc) bs)

def initialBytes : Bytes := [0xFA, 0x2D, 0x55, 0xCA]

/-- `initialChecksum = crc32.Update(0, table, initialBytes)` -/
def initialChecksum : BitVec 32 := crc32Update 0#32 initialBytes

/-- `ChecksumIEEE(data)` -/
def checksumIEEE (bs : Bytes) : BitVec 32 := crc32Update initialChecksum bs

end Cql.Crc
