/-!
# Run-time support for the regenerated Go functions (`Cql/Gen/GoFn*.lean`)

Only what the translated code calls: counted loops, the iteration count of a loop bounded by a Go `int`, and
`math/bits.LeadingZeros64/32` (external to the repository; modelled through the bit length).
-/
namespace Cql.GoRt

/-- `for i := start; fuel iterations; i++ { s = f i s }` -/
def forUpFrom {σ : Type} (f : Nat → σ → σ) : Nat → Nat → σ → σ
  | 0, _, s => s
  | n + 1, i, s => forUpFrom f n (i + 1) (f i s)

/-- `for i := 0; i < n; i++ { s = f i s }` -/
def forUp {σ : Type} (n : Nat) (init : σ) (f : Nat → σ → σ) : σ := forUpFrom f n 0 init

/-- number of iterations of `for i := 0; i < n; i++` for a Go `int` bound: none when `n ≤ 0` -/
def count (n : BitVec 64) : Nat := if n.slt 0#64 then 0 else n.toNat

/-- `bits.Len64`: number of bits needed to write `n`; 0 for 0 -/
def bitLen (n : Nat) : Nat := if n = 0 then 0 else n.log2 + 1

/-- `bits.LeadingZeros64(v)` as a Go `int` -/
def lz64 (v : BitVec 64) : BitVec 64 := BitVec.ofNat 64 (64 - bitLen v.toNat)

/-- `bits.LeadingZeros32(v)` as a Go `int` -/
def lz32 (v : BitVec 32) : BitVec 64 := BitVec.ofNat 64 (32 - bitLen v.toNat)

end Cql.GoRt
