import Cql.Prim
import Cql.Crc
/-!
# v5 segments (`segment/encode.go`, `segment/decode.go`)

The payload compressor (`Compress` / `Decompress` of the raw block format) is a parameter.
-/
namespace Cql.Segment
open Cql Cql.Prim Cql.Crc

def maxPayloadLength : Nat := 131071
def uncompressedHeaderLength : Nat := 3
def compressedHeaderLength : Nat := 5
def crc24Length : Nat := 3

structure PayloadCompressor where
  compress : Bytes → Res Bytes
  decompress : Bytes → Res Bytes

structure Header where
  isSelfContained : Bool
  uncompressedPayloadLength : Nat      -- int32 bit pattern
  compressedPayloadLength : Nat
  crc24 : Nat
  deriving Repr, DecidableEq

structure Segment where
  header : Header
  payload : Bytes                      -- `Payload.UncompressedData`
  crc32 : Nat
  deriving Repr, DecidableEq

/-- `k` bytes little-endian: `for i < k { write(byte(x)); x >>= 8 }` -/
def leBytes : Nat → Nat → Bytes
  | 0, _ => []
  | k + 1, n => UInt8.ofNat (n % 256) :: leBytes k (n / 256)

/-- `x |= uint64(b) << (8*i)` over the bytes read, first byte least significant -/
def leNat : Bytes → Nat
  | [] => 0
  | b :: bs => b.toNat + 256 * leNat bs

/-- `writeHeaderDataAndCrc` -/
def writeHeaderDataAndCrc (headerData headerLength : Nat) : Bytes :=
  let crc := (crc24 (BitVec.ofNat 64 headerData) headerLength).toNat
  leBytes headerLength headerData ++ leBytes crc24Length crc

def encodeHeaderUncompressed (selfContained : Bool) (uncompressedLength : Nat) : Bytes :=
  writeHeaderDataAndCrc (uncompressedLength ||| (if selfContained then 1 <<< 17 else 0)) uncompressedHeaderLength

def encodeHeaderCompressed (selfContained : Bool) (compressedLength uncompressedLength : Nat) : Bytes :=
  writeHeaderDataAndCrc (compressedLength ||| (uncompressedLength <<< 17) ||| (if selfContained then 1 <<< 34 else 0))
    compressedHeaderLength

def writePayloadCrc (bs : Bytes) : Bytes := leBytes 4 (checksumIEEE bs).toNat

/-- `EncodeSegment` (only `IsSelfContained` and the payload of the input segment matter; lengths and CRCs are computed) -/
def encodeSegment (c : Option PayloadCompressor) (selfContained : Bool) (payload : Bytes) : Res Bytes :=
  if payload.length > maxPayloadLength then .err "payload length exceeds maximum allowed"
  else match c with
    | none => .ok (encodeHeaderUncompressed selfContained payload.length ++ payload ++ writePayloadCrc payload)
    | some comp => do
      let compressed ← comp.compress payload
      -- the compressed form is used only when it is not larger; otherwise the payload goes out as it is and the
      -- header says so by an uncompressed length of zero
      if compressed.length ≤ payload.length then
        pure (encodeHeaderCompressed selfContained compressed.length payload.length ++ compressed ++ writePayloadCrc compressed)
      else
        pure (encodeHeaderCompressed selfContained payload.length 0 ++ payload ++ writePayloadCrc payload)

def headerLength (c : Option PayloadCompressor) : Nat :=
  match c with
  | none => uncompressedHeaderLength
  | some _ => compressedHeaderLength

/-- `decodeSegmentHeader` -/
def decodeSegmentHeader (c : Option PayloadCompressor) : Parser Header := do
  let hb ← take (headerLength c)
  let cb ← take crc24Length
  let headerData := leNat hb
  let expected := leNat cb
  let actual := (crc24 (BitVec.ofNat 64 headerData) (headerLength c)).toNat
  if actual ≠ expected then Parser.fail "crc mismatch on header"
  else match c with
    | none =>
      pure { isSelfContained := (headerData >>> 17) &&& 1 = 1, uncompressedPayloadLength := headerData &&& maxPayloadLength,
             compressedPayloadLength := 0, crc24 := actual }
    | some _ =>
      let compressed := headerData &&& maxPayloadLength
      let uncompressed := (headerData >>> 17) &&& maxPayloadLength
      let selfContained := (headerData >>> 34) &&& 1 = 1
      if uncompressed = 0 then
        pure { isSelfContained := selfContained, uncompressedPayloadLength := compressed, compressedPayloadLength := 0, crc24 := actual }
      else
        pure { isSelfContained := selfContained, uncompressedPayloadLength := uncompressed, compressedPayloadLength := compressed,
               crc24 := actual }

/-- `decodeSegmentPayload` -/
def decodeSegmentPayload (c : Option PayloadCompressor) (h : Header) : Parser (Bytes × Nat) := do
  let plain := c.isNone || h.compressedPayloadLength = 0
  let length := if plain then h.uncompressedPayloadLength else h.compressedPayloadLength
  let encoded ← take length
  let cb ← take 4
  let expected := leNat cb
  let actual := (checksumIEEE encoded).toNat
  if actual ≠ expected then Parser.fail "crc mismatch on payload"
  else if plain then pure (encoded, actual)
  else match c with
    | none => pure (encoded, actual)
    | some comp => ⟨fun s => match comp.decompress encoded with
        | .ok raw => .ok ((raw, actual), s)
        | .err e => .err e
        | .panic e => .panic e⟩

def decodeSegment (c : Option PayloadCompressor) : Parser Segment := do
  let h ← decodeSegmentHeader c
  let p ← decodeSegmentPayload c h
  pure { header := h, payload := p.1, crc32 := p.2 }

end Cql.Segment
