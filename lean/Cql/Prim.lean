import Cql.Bytes
import Cql.Gen.Constants
/-!
# Primitive notations (mirrors `primitive/*.go`)

Fixed-width wire integers are carried as their unsigned bit pattern (`Nat`); signedness is applied where the
Go code applies it (`length < 0` is `n ≥ 2^31`). Go strings are byte lists. A possibly-nil `[]byte` is an
`Option Bytes`. A Go map is an association list in iteration (= wire) order.

Every reader returns the unread remainder, so each round-trip lemma (`*_RT`, in `Cql/Lemmas/PrimRT.lean`) has the form
`read.run (write x ++ rest) = .ok (x, rest)`.
-/
namespace Cql.Prim
open Cql

/-! ## big-endian integers -/

/-- `k` bytes, big-endian, of `n` (truncating: only `n % 256^k` is represented — this is Go's `uintN(x)` cast) -/
def beBytes : Nat → Nat → Bytes
  | 0, _ => []
  | k + 1, n => beBytes k (n / 256) ++ [UInt8.ofNat (n % 256)]

def beNat (bs : Bytes) : Nat := bs.foldl (fun acc b => acc * 256 + b.toNat) 0

/-- read exactly `k` bytes (`io.ReadFull`): error on short input -/
def take (k : Nat) : Parser Bytes :=
  ⟨fun s => if s.length < k then .err "eof" else .ok (s.take k, s.drop k)⟩

def readBE (k : Nat) : Parser Nat :=
  ⟨fun s => if s.length < k then .err "eof" else .ok (beNat (s.take k), s.drop k)⟩

def readByte : Parser Nat := ⟨fun s => (readBE 1).run s⟩
def readShort : Parser Nat := ⟨fun s => (readBE 2).run s⟩
def readInt : Parser Nat := ⟨fun s => (readBE 4).run s⟩
def readLong : Parser Nat := ⟨fun s => (readBE 8).run s⟩

def writeByte (n : Nat) : Bytes := beBytes 1 n
def writeShort (n : Nat) : Bytes := beBytes 2 n
def writeInt (n : Nat) : Bytes := beBytes 4 n
def writeLong (n : Nat) : Bytes := beBytes 8 n

def lengthOfByte : Nat := 1
def lengthOfShort : Nat := 2
def lengthOfInt : Nat := 4
def lengthOfLong : Nat := 8

/-- the bit pattern of an `int32` is negative -/
def isNeg32 (n : Nat) : Bool := decide (n ≥ 2147483648)
/-- value of a 32-bit pattern as a Go `int32` -/
def toInt32 (n : Nat) : Int := if n ≥ 2147483648 then (n : Int) - 4294967296 else n
def toInt64 (n : Nat) : Int := if n ≥ 9223372036854775808 then (n : Int) - 18446744073709551616 else n
def toInt16 (n : Nat) : Int := if n ≥ 32768 then (n : Int) - 65536 else n
def toInt8 (n : Nat) : Int := if n ≥ 128 then (n : Int) - 256 else n
/-- bit pattern (width `bits`) of a Go signed integer -/
def ofInt (bits : Nat) (i : Int) : Nat := (i % (2 ^ bits : Nat)).toNat

/-! ## [string], [long string] -/

def readString : Parser Bytes := do
  let n ← readShort
  take n

/-- `WriteString` writes `uint16(len(s))` — silently truncating the length — and then all of `s` -/
def writeString (s : Bytes) : Bytes := writeShort (s.length % 65536) ++ s
def lengthOfString (s : Bytes) : Nat := lengthOfShort + s.length

def readLongString : Parser Bytes := do
  let n ← readInt
  if isNeg32 n then pure []     -- `length <= 0` gives ""
  else take n

def writeLongString (s : Bytes) : Bytes := writeInt (s.length % 4294967296) ++ s
def lengthOfLongString (s : Bytes) : Nat := lengthOfInt + s.length

/-! ## [bytes], [short bytes] -/

def readBytes : Parser (Option Bytes) := do
  let n ← readInt
  if isNeg32 n then pure none
  else if n = 0 then pure (some [])
  else do
    let b ← take n
    pure (some b)

def writeBytes : Option Bytes → Bytes
  | none => writeInt 4294967295
  | some b => writeInt (b.length % 4294967296) ++ b

def lengthOfBytes : Option Bytes → Nat
  | none => lengthOfInt
  | some b => lengthOfInt + b.length

/-- `ReadShortBytes`: never returns nil for a well-formed input (length 0 gives the empty slice) -/
def readShortBytes : Parser (Option Bytes) := do
  let n ← readShort
  if n = 0 then pure (some [])
  else do
    let b ← take n
    pure (some b)

/-- nil and empty both write length 0 -/
def writeShortBytes (b : Option Bytes) : Bytes :=
  let c := b.getD []
  writeShort (c.length % 65536) ++ c

def lengthOfShortBytes (b : Option Bytes) : Nat := lengthOfShort + (b.getD []).length

/-! ## counted repetition -/

/-- the Go loop `for i := 0; i < n; i++ { x := read(); out[i] = x }` -/
def readN {α} : Nat → Parser α → Parser (List α)
  | 0, _ => pure []
  | n + 1, p => do
    let x ← p
    let xs ← readN n p
    pure (x :: xs)

/-! ## [string list], [string map], [string multimap], [bytes map] -/

/-- `ReadStringList`: count 0 gives the empty (non-nil) slice -/
def readStringList : Parser (List Bytes) := do
  let n ← readShort
  readN n readString

def writeStringList (l : List Bytes) : Bytes :=
  writeShort (l.length % 65536) ++ (l.map writeString).flatten

def lengthOfStringList (l : List Bytes) : Nat :=
  lengthOfShort + (l.map lengthOfString).sum

def readStringPair : Parser (Bytes × Bytes) := do
  let k ← readString
  let v ← readString
  pure (k, v)

def writeStringPair (p : Bytes × Bytes) : Bytes := writeString p.1 ++ writeString p.2

def readStringMap : Parser (List (Bytes × Bytes)) := do
  let n ← readShort
  readN n readStringPair

def writeStringMap (m : List (Bytes × Bytes)) : Bytes :=
  writeShort (m.length % 65536) ++ (m.map writeStringPair).flatten

def lengthOfStringMap (m : List (Bytes × Bytes)) : Nat :=
  lengthOfShort + (m.map fun p => lengthOfString p.1 + lengthOfString p.2).sum

def readStringMultiPair : Parser (Bytes × List Bytes) := do
  let k ← readString
  let v ← readStringList
  pure (k, v)

def writeStringMultiPair (p : Bytes × List Bytes) : Bytes := writeString p.1 ++ writeStringList p.2

def readStringMultiMap : Parser (List (Bytes × List Bytes)) := do
  let n ← readShort
  readN n readStringMultiPair

def writeStringMultiMap (m : List (Bytes × List Bytes)) : Bytes :=
  writeShort (m.length % 65536) ++ (m.map writeStringMultiPair).flatten

def lengthOfStringMultiMap (m : List (Bytes × List Bytes)) : Nat :=
  lengthOfShort + (m.map fun p => lengthOfString p.1 + lengthOfStringList p.2).sum

def readBytesPair : Parser (Bytes × Option Bytes) := do
  let k ← readString
  let v ← readBytes
  pure (k, v)

def writeBytesPair (p : Bytes × Option Bytes) : Bytes := writeString p.1 ++ writeBytes p.2

def readBytesMap : Parser (List (Bytes × Option Bytes)) := do
  let n ← readShort
  readN n readBytesPair

def writeBytesMap (m : List (Bytes × Option Bytes)) : Bytes :=
  writeShort (m.length % 65536) ++ (m.map writeBytesPair).flatten

def lengthOfBytesMap (m : List (Bytes × Option Bytes)) : Nat :=
  lengthOfShort + (m.map fun p => lengthOfString p.1 + lengthOfBytes p.2).sum

/-! ## [uuid] -/

def lengthOfUuid : Nat := 16
def readUuid : Parser Bytes := take 16
/-- `WriteUuid(nil)` is an error; a non-nil `*UUID` always has 16 bytes -/
def writeUuid : Option Bytes → Res Bytes
  | none => .err "cannot write nil [uuid]"
  | some u => .ok u

/-! ## [inetaddr], [inet] -/

/-- a `net.IP` as Go holds it: nil, or a byte slice of any length. `To4()` succeeds for 4-byte slices and for
    16-byte slices with the IPv4-in-IPv6 prefix; `To16()` of a slice that is neither 4 nor 16 bytes is nil
    (and then nothing is written after the length byte). -/
def v4InV6Prefix : Bytes := [0, 0, 0, 0, 0, 0, 0, 0, 0, 0, 255, 255]

def to4 (ip : Bytes) : Option Bytes :=
  if ip.length = 4 then some ip
  else if ip.length = 16 ∧ ip.take 12 = v4InV6Prefix then some (ip.drop 12)
  else none

def to16 (ip : Bytes) : Option Bytes :=
  if ip.length = 4 then some (v4InV6Prefix ++ ip)
  else if ip.length = 16 then some ip
  else none

/-- `ReadInetAddr`: an IPv4 address is returned by `net.IPv4(a,b,c,d)`, i.e. in its 16-byte form -/
def readInetAddr : Parser Bytes := do
  let n ← readByte
  if n = 4 then do
    let b ← take 4
    pure (v4InV6Prefix ++ b)
  else if n = 16 then take 16
  else Parser.fail "unknown inet address length"

def writeInetAddr : Option Bytes → Res Bytes
  | none => .err "cannot write nil [inetaddr]"
  | some ip =>
    match to4 ip with
    | some b4 => .ok (writeByte 4 ++ b4)
    | none =>
      -- `dest.Write(inetAddr.To16())`: for a slice that is neither 4 nor 16 bytes `To16()` is nil, 0 bytes are
      -- written and the "not enough capacity" error is returned
      match to16 ip with
      | some b16 => .ok (writeByte 16 ++ b16)
      | none => .err "not enough capacity to write [inetaddr] IPv6 content"

def lengthOfInetAddr : Option Bytes → Res Nat
  | none => .err "cannot compute nil [inetaddr] length"
  | some ip => match to4 ip with
    | some _ => .ok (lengthOfByte + 4)
    | none => .ok (lengthOfByte + 16)

structure Inet where
  addr : Option Bytes
  port : Nat            -- int32 bit pattern
  deriving Repr, DecidableEq

def readInet : Parser Inet := do
  let a ← readInetAddr
  let p ← readInt
  pure { addr := some a, port := p }

def writeInet : Option Inet → Res Bytes
  | none => .err "cannot write nil [inet]"
  | some i => do
    let a ← writeInetAddr i.addr
    pure (a ++ writeInt i.port)

def lengthOfInet : Option Inet → Res Nat
  | none => .err "cannot compute nil [inet] length"
  | some i => do
    let a ← lengthOfInetAddr i.addr
    pure (a + lengthOfInt)

/-! ## [value] -/

inductive Value where
  | regular (contents : Option Bytes)   -- `Type = ValueTypeRegular`; nil contents are written as null
  | null
  | unset
  | other (ty : Int)                    -- any other `Type`: refused by the encoder
  deriving Repr, DecidableEq

def readValue (version : Nat) : Parser Value := do
  let n ← readInt
  if n = 4294967295 then pure .null
  else if n = 4294967294 then
    if version < Gen.ProtocolVersion4 then Parser.fail "cannot use unset value" else pure .unset
  else if isNeg32 n then Parser.fail "invalid [value] length"
  else if n = 0 then pure (.regular (some []))
  else do
    let b ← take n
    pure (.regular (some b))

/-- `WriteValue`; a nil `*Value` is `none` -/
def writeValue (version : Nat) : Option Value → Res Bytes
  | none => .err "cannot write a nil [value]"
  | some .null => .ok (writeInt 4294967295)
  | some .unset =>
    if Gen.ProtocolVersion_SupportsUnsetValues version then .ok (writeInt 4294967294)
    else .err "cannot use unset value"
  | some (.regular none) => .ok (writeInt 4294967295)
  | some (.regular (some b)) => .ok (writeInt (b.length % 4294967296) ++ b)
  | some (.other _) => .err "unknown [value] type"

def lengthOfValue : Option Value → Res Nat
  | none => .err "cannot compute length of a nil [value]"
  | some .null => .ok lengthOfInt
  | some .unset => .ok lengthOfInt
  | some (.regular c) => .ok (lengthOfInt + (c.getD []).length)
  | some (.other _) => .err "unknown [value] type"

/-- sequential encoding of a list with a fallible element writer (first error wins, as in the Go loops) -/
def writeAll {α} (w : α → Res Bytes) : List α → Res Bytes
  | [] => .ok []
  | x :: xs => do
    let a ← w x
    let b ← writeAll w xs
    pure (a ++ b)

def sumAll {α} (w : α → Res Nat) : List α → Res Nat
  | [] => .ok 0
  | x :: xs => do
    let a ← w x
    let b ← sumAll w xs
    pure (a + b)

def readPositionalValues (version : Nat) : Parser (List (Option Value)) := do
  let n ← readShort
  readN n (some <$> readValue version)

def writePositionalValues (version : Nat) (vs : List (Option Value)) : Res Bytes := do
  let body ← writeAll (writeValue version) vs
  pure (writeShort (vs.length % 65536) ++ body)

def lengthOfPositionalValues (vs : List (Option Value)) : Res Nat := do
  let s ← sumAll lengthOfValue vs
  pure (lengthOfShort + s)

def readNamedValue (version : Nat) : Parser (Bytes × Option Value) := do
  let k ← readString
  let v ← readValue version
  pure (k, some v)

def writeNamedValue (version : Nat) (p : Bytes × Option Value) : Res Bytes := do
  let v ← writeValue version p.2
  pure (writeString p.1 ++ v)

def readNamedValues (version : Nat) : Parser (List (Bytes × Option Value)) := do
  let n ← readShort
  readN n (readNamedValue version)

def writeNamedValues (version : Nat) (vs : List (Bytes × Option Value)) : Res Bytes := do
  let body ← writeAll (writeNamedValue version) vs
  pure (writeShort (vs.length % 65536) ++ body)

def lengthOfNamedValues (vs : List (Bytes × Option Value)) : Res Nat := do
  let s ← sumAll (fun p => do let v ← lengthOfValue p.2; pure (lengthOfString p.1 + v)) vs
  pure (lengthOfShort + s)

/-! ## reason map -/

structure FailureReason where
  endpoint : Option Bytes
  code : Nat
  deriving Repr, DecidableEq

def readFailureReason : Parser FailureReason := do
  let a ← readInetAddr
  let c ← readShort
  if Gen.FailureCode_IsValid c then pure { endpoint := some a, code := c }
  else Parser.fail "invalid failure code"

/-- `ReadReasonMap`: the count is an `[int]`; a negative count is refused -/
def readReasonMap : Parser (List FailureReason) := do
  let n ← readInt
  if isNeg32 n then Parser.fail "invalid reason map length"
  else readN n readFailureReason

def writeFailureReason (r : FailureReason) : Res Bytes := do
  let a ← writeInetAddr r.endpoint
  if Gen.FailureCode_IsValid r.code then pure (a ++ writeShort r.code)
  else .err "invalid failure code"

def writeReasonMap (m : List FailureReason) : Res Bytes := do
  let body ← writeAll writeFailureReason m
  pure (writeInt (m.length % 4294967296) ++ body)

def lengthOfReasonMap (m : List FailureReason) : Res Nat := do
  let s ← sumAll (fun r => do let a ← lengthOfInetAddr r.endpoint; pure (a + lengthOfShort)) m
  pure (lengthOfInt + s)

/-! ## stream id -/

/-- stream ids are `int16`, carried here as 16-bit patterns. v3+: 2 bytes; v2: 1 byte, sign-extended on read and
    refused on write when outside the `int8` range. -/
def readStreamId (version : Nat) : Parser Nat :=
  if version ≥ Gen.ProtocolVersion3 then readShort
  else do
    let b ← readByte
    pure (if b ≥ 128 then b + 65280 else b)

def writeStreamId (version : Nat) (id : Nat) : Res Bytes :=
  if version ≥ Gen.ProtocolVersion3 then .ok (writeShort id)
  else if toInt16 id > 127 ∨ toInt16 id < -128 then .err "stream id out of range"
  else .ok (writeByte (id % 256))

end Cql.Prim
