/-!
# Stream-id bookkeeping and response routing (`client/inflight.go`), API-level model

One step = one call of `onOutgoingFrameEnqueued` (send), `onIncomingFrameReceived` (deliver), `close`, or one receive by
the consumer of a request's channel. Timers are not part of this model (see `Cql/Timer.lean`, C16).
Stream ids are `Int` (Go: `int16`; negative ids occur for server events). `ManagedStreamId = 0`.
-/
namespace Cql.Inflight

structure Req where
  streamId : Int
  managed : Bool
  delivered : List Nat := []     -- tags of the frames accepted into the channel, oldest first
  consumed : Nat := 0            -- how many of them the consumer has received
  done : Bool := false           -- channel closed
  failed : Bool := false         -- `err != nil`
  deriving Repr, DecidableEq

structure S where
  n : Nat                        -- maxInFlight
  maxPending : Nat               -- capacity of every request channel
  free : List Int                -- the `streamIds` channel, front first
  inFlight : List (Int × Nat)    -- the `inFlight` map: stream id ↦ request handle (index into `reqs`)
  reqs : List Req                -- every request ever created
  closed : Bool
  deriving Repr, DecidableEq

inductive Op where
  | send (streamId : Int)                         -- 0 = managed
  | deliver (streamId : Int) (last : Bool) (tag : Nat)
  | consume (handle : Nat)
  | close
  deriving Repr, DecidableEq

inductive Out where
  | sent (streamId : Int) (handle : Nat)
  | delivered
  | got (tag : Nat)
  | empty                                          -- the consumer would block
  | chanClosed
  | ok
  | err (what : String)
  deriving Repr, DecidableEq

def idsFrom : Nat → Nat → List Int
  | _, 0 => []
  | i, k + 1 => (i : Int) :: idsFrom (i + 1) k

def init (n maxPending : Nat) : S :=
  { n := n, maxPending := maxPending, free := idsFrom 1 n, inFlight := [], reqs := [], closed := false }

def lookup (m : List (Int × Nat)) (k : Int) : Option Nat := (m.find? (·.1 == k)).map (·.2)
def erase (m : List (Int × Nat)) (k : Int) : List (Int × Nat) := m.filter (·.1 != k)

/-- the second half of `onOutgoingFrameEnqueued`: limit check, duplicate check, registration -/
def register (s : S) (id : Int) (managed : Bool) : S × Out :=
  if s.inFlight.length == s.n then (s, .err "too many in-flight requests")
  else if (lookup s.inFlight id).isSome then (s, .err "stream id already in use")
  else
    let h := s.reqs.length
    ({ s with inFlight := (id, h) :: s.inFlight, reqs := s.reqs ++ [{ streamId := id, managed := managed }] }, .sent id h)

def send (s : S) (streamId : Int) : S × Out :=
  if s.closed then (s, .err "handler closed")
  else if streamId == 0 then
    match s.free with
    | [] => (s, .err "no stream id available")
    | id :: rest => register { s with free := rest } id true
  else register s streamId false

/-- `inFlightRequest.onFrameReceived` -/
def receive (maxPending : Nat) (r : Req) (last : Bool) (tag : Nat) : Req × Out :=
  if r.done then (r, .err "request closed")
  else if r.delivered.length - r.consumed < maxPending then
    ({ r with delivered := r.delivered ++ [tag], done := last }, .delivered)
  else ({ r with done := true, failed := true }, .err "too many pending incoming frames")

def setReq (reqs : List Req) (h : Nat) (r : Req) : List Req := reqs.set h r

def deliver (s : S) (k : Int) (last : Bool) (tag : Nat) : S × Out :=
  if s.closed then (s, .err "handler closed")
  else match lookup s.inFlight k with
    | none => (s, .err "unknown stream id")
    | some h =>
      match s.reqs[h]? with
      | none => (s, .err "internal: dangling handle")
      | some r =>
        -- a final frame first frees the slot and (managed ids) returns the id to the pool
        let inFlight' := if last then erase s.inFlight k else s.inFlight
        if last && r.managed && !(s.free.length < s.n) then ({ s with inFlight := inFlight' }, .err "release failed")
        else
          let free' := if last && r.managed then s.free ++ [k] else s.free
          let ro := receive s.maxPending r last tag
          ({ s with inFlight := inFlight', free := free', reqs := setReq s.reqs h ro.1 }, ro.2)

def consume (s : S) (h : Nat) : S × Out :=
  match s.reqs[h]? with
  | none => (s, .err "no such request")
  | some r =>
    match r.delivered[r.consumed]? with
    | some t => ({ s with reqs := setReq s.reqs h { r with consumed := r.consumed + 1 } }, .got t)
    | none => (s, if r.done then .chanClosed else .empty)

/-- `close`: every request still registered is completed with an error; the id pool is closed -/
def closeReq (r : Req) : Req := if r.done then r else { r with done := true, failed := true }

def close (s : S) : S × Out :=
  if s.closed then (s, .ok)
  else
    let hs := s.inFlight.map (·.2)
    ({ s with closed := true, inFlight := [], free := [],
              reqs := s.reqs.zipIdx.map fun (r, i) => if hs.contains i then closeReq r else r }, .ok)

def step (s : S) : Op → S × Out
  | .send k => send s k
  | .deliver k l t => deliver s k l t
  | .consume h => consume s h
  | .close => close s

def run (s : S) : List Op → S
  | [] => s
  | op :: ops => run (step s op).1 ops

end Cql.Inflight
