import Cql.DataType
/-!
# Messages and frames (mirrors the structs of `message/*.go` and `frame/frame.go`)

Conventions: fixed-width integers are unsigned bit patterns (`Nat`); a Go string is `Bytes`; a slice/map/pointer that
can be nil is an `Option`; a Go map is an association list in iteration order.
-/
namespace Cql
open Cql.Prim

structure ContinuousPagingOptions where
  maxPages : Nat
  pagesPerSecond : Nat
  nextPages : Nat
  deriving Repr, DecidableEq

structure QueryOptions where
  consistency : Nat
  positionalValues : Option (List (Option Value))
  namedValues : Option (List (Bytes × Option Value))
  skipMetadata : Bool
  pageSize : Nat                     -- int32 bit pattern
  pageSizeInBytes : Bool
  pagingState : Option Bytes
  serialConsistency : Option Nat
  defaultTimestamp : Option Nat      -- int64 bit pattern
  keyspace : Bytes
  nowInSeconds : Option Nat          -- int32 bit pattern
  continuousPagingOptions : Option ContinuousPagingOptions
  deriving Repr, DecidableEq

/-- `&QueryOptions{}` -/
def QueryOptions.default : QueryOptions :=
  { consistency := 0, positionalValues := none, namedValues := none, skipMetadata := false, pageSize := 0,
    pageSizeInBytes := false, pagingState := none, serialConsistency := none, defaultTimestamp := none,
    keyspace := [], nowInSeconds := none, continuousPagingOptions := none }

structure BatchChild where
  query : Bytes
  id : Option Bytes
  values : Option (List (Option Value))
  deriving Repr, DecidableEq

structure Batch where
  type : Nat
  children : Option (List BatchChild)
  consistency : Nat
  serialConsistency : Option Nat
  defaultTimestamp : Option Nat
  keyspace : Bytes
  nowInSeconds : Option Nat
  deriving Repr, DecidableEq

structure ColumnMetadata where
  keyspace : Bytes
  table : Bytes
  name : Bytes
  index : Nat                         -- int32 bit pattern; never on the wire
  type : Option DataType              -- nil interface is refused by the encoder
  deriving Repr

structure VariablesMetadata where
  pkIndices : Option (List Nat)
  columns : Option (List ColumnMetadata)
  deriving Repr

structure RowsMetadata where
  columnCount : Nat                   -- int32 bit pattern
  pagingState : Option Bytes
  newResultMetadataId : Option Bytes
  continuousPageNumber : Nat          -- int32 bit pattern
  lastContinuousPage : Bool
  columns : Option (List ColumnMetadata)
  deriving Repr

/-- the fields shared by SchemaChangeResult and SchemaChangeEvent -/
structure SchemaChange where
  changeType : Bytes
  target : Bytes
  keyspace : Bytes
  object : Bytes
  arguments : Option (List Bytes)
  deriving Repr, DecidableEq

inductive ResultMsg where
  | void
  | setKeyspace (keyspace : Bytes)
  | schemaChange (sc : SchemaChange)
  | prepared (preparedQueryId resultMetadataId : Option Bytes) (variables : Option VariablesMetadata)
      (result : Option RowsMetadata)
  | rows (metadata : Option RowsMetadata) (data : Option (List (Option (List (Option Bytes)))))
  deriving Repr

inductive EventMsg where
  | schemaChange (sc : SchemaChange)
  | statusChange (changeType : Bytes) (address : Option Inet)
  | topologyChange (changeType : Bytes) (address : Option Inet)
  deriving Repr, DecidableEq

inductive ErrorMsg where
  | simple (code : Nat) (message : Bytes)        -- ServerError … ConfigError: code + message only
  | unavailable (message : Bytes) (consistency required alive : Nat)
  | readTimeout (message : Bytes) (consistency received blockFor : Nat) (dataPresent : Bool)
  | writeTimeout (message : Bytes) (consistency received blockFor : Nat) (writeType : Bytes) (contentions : Nat)
  | readFailure (message : Bytes) (consistency received blockFor numFailures : Nat)
      (failureReasons : Option (List FailureReason)) (dataPresent : Bool)
  | writeFailure (message : Bytes) (consistency received blockFor numFailures : Nat)
      (failureReasons : Option (List FailureReason)) (writeType : Bytes)
  | functionFailure (message keyspace function : Bytes) (arguments : Option (List Bytes))
  | unprepared (message : Bytes) (id : Option Bytes)
  | alreadyExists (message keyspace table : Bytes)
  deriving Repr, DecidableEq

inductive Msg where
  | startup (options : Option (List (Bytes × Bytes)))
  | options
  | ready
  | query (query : Bytes) (opts : Option QueryOptions)
  | prepare (query keyspace : Bytes)
  | execute (queryId resultMetadataId : Option Bytes) (opts : Option QueryOptions)
  | batch (b : Batch)
  | register (eventTypes : Option (List Bytes))
  | authResponse (token : Option Bytes)
  | authChallenge (token : Option Bytes)
  | authSuccess (token : Option Bytes)
  | authenticate (authenticator : Bytes)
  | supported (options : Option (List (Bytes × List Bytes)))
  | revise (revisionType targetStreamId nextPages : Nat)
  | error (e : ErrorMsg)
  | result (r : ResultMsg)
  | event (e : EventMsg)
  deriving Repr

namespace Msg
open Cql.Gen

def opCode : Msg → Nat
  | startup _ => OpCodeStartup
  | options => OpCodeOptions
  | ready => OpCodeReady
  | query _ _ => OpCodeQuery
  | prepare _ _ => OpCodePrepare
  | execute _ _ _ => OpCodeExecute
  | batch _ => OpCodeBatch
  | register _ => OpCodeRegister
  | authResponse _ => OpCodeAuthResponse
  | authChallenge _ => OpCodeAuthChallenge
  | authSuccess _ => OpCodeAuthSuccess
  | authenticate _ => OpCodeAuthenticate
  | supported _ => OpCodeSupported
  | revise _ _ _ => OpCodeDseRevise
  | error _ => OpCodeError
  | result _ => OpCodeResult
  | event _ => OpCodeEvent

def isResponse (m : Msg) : Bool := OpCode_IsResponse m.opCode

end Msg

structure Header where
  isResponse : Bool
  version : Nat
  flags : Nat
  streamId : Nat          -- int16 bit pattern
  opCode : Nat
  bodyLength : Nat        -- int32 bit pattern
  deriving Repr, DecidableEq

structure Body where
  tracingId : Option Bytes
  customPayload : Option (List (Bytes × Option Bytes))
  warnings : Option (List Bytes)
  message : Msg
  deriving Repr

structure Frame where
  header : Header
  body : Body
  deriving Repr

structure RawFrame where
  header : Header
  body : Bytes
  deriving Repr, DecidableEq

end Cql
