import Cql.Gen.Effects
/-!
# Reachability over the regenerated call graph (C18)

`Cql/Gen/Effects.lean` lists every function of the codec packages with the package-level variables it writes, the writes
it makes through the receiver of a shared (codec/compressor/singleton) type, and its callees inside the module.
Here: the set of functions reachable from the codec entry points, as a bit mask computed by iteration and *checked* to be
closed; `Reach` is the inductive definition and `reach_in_mask` shows the mask contains it.
-/
namespace Cql.Effects
open Cql.Gen.Effects

def calleeMask (f : Fn) : Nat := f.callees.foldl (fun m c => m ||| 2 ^ c) 0

def entryMask (fs : List Fn) : Nat :=
  fs.zipIdx.foldl (fun m p => if p.1.entry then m ||| 2 ^ p.2 else m) 0

/-- one round: add the callees of every function already in the set -/
def grow (fs : List Fn) (m : Nat) : Nat :=
  fs.zipIdx.foldl (fun acc p => if m.testBit p.2 then acc ||| calleeMask p.1 else acc) m

def closure (fs : List Fn) : Nat → Nat → Nat
  | 0, m => m
  | k + 1, m => let m' := grow fs m; if m' = m then m else closure fs k m'

/-- the set is closed under calls -/
def closed (fs : List Fn) (m : Nat) : Bool :=
  fs.zipIdx.all fun p => !m.testBit p.2 || (calleeMask p.1 ||| m == m)

/-- no function of the set writes a package-level variable or a field of a shared object -/
def clean (fs : List Fn) (m : Nat) : Bool :=
  fs.zipIdx.all fun p => !m.testBit p.2 || (p.1.writesGlobals.isEmpty && p.1.writesShared.isEmpty)

/-- reachable from an entry point through calls (interface calls resolved to every implementation) -/
inductive Reach (fs : List Fn) : Nat → Prop
  | entry (i : Nat) (f : Fn) : fs[i]? = some f → f.entry = true → Reach fs i
  | call (i c : Nat) (f : Fn) : Reach fs i → fs[i]? = some f → c ∈ f.callees → Reach fs c

theorem testBit_of_or_eq {a m i : Nat} (h : a ||| m = m) (ha : a.testBit i = true) : m.testBit i = true := by
  rw [← h, Nat.testBit_or, ha]; rfl

theorem foldl_or_keeps (l : List Nat) (a i : Nat) (h : a.testBit i = true) :
    (l.foldl (fun m c => m ||| 2 ^ c) a).testBit i = true := by
  induction l generalizing a with
  | nil => exact h
  | cons x xs ih => exact ih _ (by rw [Nat.testBit_or, h]; rfl)

theorem foldl_or_mem (l : List Nat) (a c : Nat) (h : c ∈ l) :
    (l.foldl (fun m c => m ||| 2 ^ c) a).testBit c = true := by
  induction l generalizing a with
  | nil => cases h
  | cons x xs ih =>
    cases h with
    | head => exact foldl_or_keeps xs _ c (by rw [Nat.testBit_or, Nat.testBit_two_pow_self]; simp)
    | tail _ h => exact ih _ h

theorem calleeMask_mem (f : Fn) (c : Nat) (h : c ∈ f.callees) : (calleeMask f).testBit c = true :=
  foldl_or_mem f.callees 0 c h

theorem entry_foldl_keeps (l : List (Fn × Nat)) (a i : Nat) (h : a.testBit i = true) :
    (l.foldl (fun m p => if p.1.entry then m ||| 2 ^ p.2 else m) a).testBit i = true := by
  induction l generalizing a with
  | nil => exact h
  | cons x xs ih =>
    rw [List.foldl_cons]
    apply ih
    show (if x.1.entry then a ||| 2 ^ x.2 else a).testBit i = true
    split
    · rw [Nat.testBit_or, h]; rfl
    · exact h

theorem entry_foldl_mem (l : List (Fn × Nat)) (a : Nat) (f : Fn) (i : Nat) (h : (f, i) ∈ l) (he : f.entry = true) :
    (l.foldl (fun m p => if p.1.entry then m ||| 2 ^ p.2 else m) a).testBit i = true := by
  induction l generalizing a with
  | nil => cases h
  | cons x xs ih =>
    cases h with
    | head =>
      rw [List.foldl_cons]
      apply entry_foldl_keeps
      show (if f.entry then a ||| 2 ^ i else a).testBit i = true
      rw [if_pos he, Nat.testBit_or, Nat.testBit_two_pow_self]; simp
    | tail _ h => exact ih _ h

theorem mem_zipIdx {fs : List Fn} {i : Nat} {f : Fn} (h : fs[i]? = some f) : (f, i) ∈ fs.zipIdx := by
  rw [List.mem_zipIdx_iff_getElem?]; simpa using h

/-- a closed set that contains the entry points contains everything reachable -/
theorem reach_in_mask (fs : List Fn) (m : Nat) (hc : closed fs m = true) (he : entryMask fs ||| m = m) (i : Nat)
    (h : Reach fs i) : m.testBit i = true := by
  induction h with
  | entry i f hf hentry =>
    exact testBit_of_or_eq he (entry_foldl_mem _ 0 f i (mem_zipIdx hf) hentry)
  | call i c f _ hf hcal ih =>
    have := List.all_eq_true.mp hc (f, i) (mem_zipIdx hf)
    simp only [ih, Bool.not_true, Bool.false_or, beq_iff_eq] at this
    exact testBit_of_or_eq this (calleeMask_mem f c hcal)

theorem clean_of_reach (fs : List Fn) (m : Nat) (hc : closed fs m = true) (he : entryMask fs ||| m = m)
    (hk : clean fs m = true) (i : Nat) (f : Fn) (hr : Reach fs i) (hf : fs[i]? = some f) :
    f.writesGlobals = [] ∧ f.writesShared = [] := by
  have hb := reach_in_mask fs m hc he i hr
  have := List.all_eq_true.mp hk (f, i) (mem_zipIdx hf)
  simp only [hb, Bool.not_true, Bool.false_or, Bool.and_eq_true, List.isEmpty_iff] at this
  exact this

end Cql.Effects
