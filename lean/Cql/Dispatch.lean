import Cql.Inflight
/-!
# The client's dispatch of an incoming frame (`CqlClientConnection.processIncomingFrame`, client/client.go)

    if incoming.Header.OpCode == primitive.OpCodeEvent {
        for _, handler := range c.handlers { handler(incoming, c) }
        … select { case c.events <- incoming: …  default: /* queue full: the event is discarded */ }
    } else {
        c.inFlightHandler.onIncomingFrameReceived(incoming)  …
    }

The branch is taken on the OPCODE (an event is recognised by what it is, not by its stream id: requests may carry any
stream id, negative ones included); the event queue is a buffered channel of capacity `MaxInFlight`, and the send on it
never blocks. The model puts this in front of the in-flight handler model `Cql/Inflight.lean`. `byOpcode` and
`nonBlocking` are the two facts read off the source (`Cql/Gen/DispatchFacts.lean`); with `nonBlocking = false` an event
that finds the queue full stalls the reader goroutine: the frame and everything after it stay undelivered (`stalled`).
-/
namespace Cql.Dispatch
open Cql.Inflight

structure Incoming where
  isEvent : Bool            -- opcode EVENT
  streamId : Int
  last : Bool               -- final response (not a non-final page)
  tag : Nat
  deriving Repr, DecidableEq

structure D where
  h : S                     -- the in-flight handler
  events : List Nat := []   -- the event queue (tags, oldest first)
  handled : List Nat := []  -- events the registered handlers were called with, oldest first
  cap : Nat                 -- capacity of the event queue
  stalled : Bool := false   -- the reader goroutine is blocked for good
  deriving Repr

/-- how the code decides that a frame is an event: by opcode (`byOpcode = true`), or — the variant — by a negative stream id -/
def looksLikeEvent (byOpcode : Bool) (f : Incoming) : Bool := if byOpcode then f.isEvent else decide (f.streamId < 0)

def dispatch (byOpcode nonBlocking : Bool) (d : D) (f : Incoming) : D :=
  if d.stalled then d
  else if looksLikeEvent byOpcode f then
    let d := { d with handled := d.handled ++ [f.tag] }
    if d.events.length < d.cap then { d with events := d.events ++ [f.tag] }
    else if nonBlocking then d else { d with stalled := true }
  else { d with h := (deliver d.h f.streamId f.last f.tag).1 }

def run (byOpcode nonBlocking : Bool) (d : D) : List Incoming → D
  | [] => d
  | f :: fs => run byOpcode nonBlocking (dispatch byOpcode nonBlocking d f) fs

end Cql.Dispatch
