/-!
Foundations of the model: byte strings, the three-way outcome `Res` (value / error / Go run-time panic),
and the parser monad. Core Lean only.
-/
namespace Cql

abbrev Bytes := List UInt8

/-- Outcome of a Go call: a value, a returned `error`, or a run-time panic (named by its site). -/
inductive Res (α : Type) where
  | ok : α → Res α
  | err : String → Res α
  | panic : String → Res α
  deriving Repr, DecidableEq

namespace Res

@[inline] def bind {α β} (r : Res α) (f : α → Res β) : Res β :=
  match r with
  | .ok a => f a
  | .err e => .err e
  | .panic p => .panic p

instance : Monad Res where
  pure := .ok
  bind := Res.bind

def isOk {α} : Res α → Bool
  | .ok _ => true
  | _ => false

def isPanic {α} : Res α → Bool
  | .panic _ => true
  | _ => false

@[simp] theorem pure_eq {α} (a : α) : (pure a : Res α) = .ok a := rfl
@[simp] theorem bind_ok' {α β} (a : α) (f : α → Res β) : (Res.ok a >>= f) = f a := rfl
@[simp] theorem bind_err' {α β} (e : String) (f : α → Res β) : (Res.err e >>= f) = .err e := rfl
@[simp] theorem bind_panic' {α β} (e : String) (f : α → Res β) : (Res.panic e >>= f) = .panic e := rfl

theorem bind_eq_ok {α β} {r : Res α} {a : α} (h : r = .ok a) (f : α → Res β) : (r >>= f) = f a := by
  subst h; rfl

/-- inversion: a `do` block that succeeded had a successful first step -/
theorem bind_ok_inv {α β} {r : Res α} {f : α → Res β} {b : β} (h : (r >>= f) = .ok b) :
    ∃ a, r = .ok a ∧ f a = .ok b := by
  cases r with
  | ok a => exact ⟨a, rfl, h⟩
  | err e => exact absurd h (by intro h'; cases h')
  | panic e => exact absurd h (by intro h'; cases h')

theorem ok_inj {α} {a b : α} (h : (Res.ok a : Res α) = .ok b) : a = b := by cases h; rfl

theorem pure_ok_inv {α} {a b : α} (h : (pure a : Res α) = .ok b) : a = b := by cases h; rfl

end Res

/-- A reader over the unread input; returns the value and the unread remainder. -/
structure Parser (α : Type) where
  run : Bytes → Res (α × Bytes)

namespace Parser

@[inline] def pure' {α} (a : α) : Parser α := ⟨fun s => .ok (a, s)⟩

@[inline] def bind' {α β} (p : Parser α) (f : α → Parser β) : Parser β :=
  ⟨fun s => match p.run s with
    | .ok (a, r) => (f a).run r
    | .err e => .err e
    | .panic e => .panic e⟩

instance : Monad Parser where
  pure := pure'
  bind := bind'

def fail {α} (e : String) : Parser α := ⟨fun _ => .err e⟩
def panic {α} (e : String) : Parser α := ⟨fun _ => .panic e⟩

theorem pure_run {α} (a : α) (s : Bytes) : (pure a : Parser α).run s = .ok (a, s) := rfl

theorem bind_ok {α β} {p : Parser α} {s r : Bytes} {a : α} (h : p.run s = .ok (a, r)) (f : α → Parser β) :
    (p >>= f).run s = (f a).run r := by
  show (bind' p f).run s = _
  simp only [bind', h]

theorem bind_err {α β} {p : Parser α} {s : Bytes} {e : String} (h : p.run s = .err e) (f : α → Parser β) :
    (p >>= f).run s = .err e := by
  show (bind' p f).run s = _
  simp only [bind', h]

theorem bind_panic {α β} {p : Parser α} {s : Bytes} {e : String} (h : p.run s = .panic e) (f : α → Parser β) :
    (p >>= f).run s = .panic e := by
  show (bind' p f).run s = _
  simp only [bind', h]

theorem fail_run {α} (e : String) (s : Bytes) : (fail e : Parser α).run s = .err e := rfl
theorem panic_run {α} (e : String) (s : Bytes) : (panic e : Parser α).run s = .panic e := rfl

theorem map_run {α β} (f : α → β) (p : Parser α) (s : Bytes) :
    (f <$> p).run s = match p.run s with
      | .ok (a, r) => .ok (f a, r)
      | .err e => .err e
      | .panic e => .panic e := by
  show (bind' p (fun a => pure' (f a))).run s = _
  simp only [bind']
  cases p.run s with
  | ok x => cases x; rfl
  | err e => rfl
  | panic e => rfl

end Parser

/-! ### hex, for the line protocol -/

def hexDigit (n : Nat) : Char :=
  if n < 10 then Char.ofNat (48 + n) else Char.ofNat (87 + n)

def toHex (bs : Bytes) : String :=
  String.ofList (bs.flatMap fun b => [hexDigit (b.toNat / 16), hexDigit (b.toNat % 16)])

def hexVal (c : Char) : Option Nat :=
  if '0' ≤ c ∧ c ≤ '9' then some (c.toNat - 48)
  else if 'a' ≤ c ∧ c ≤ 'f' then some (c.toNat - 87)
  else if 'A' ≤ c ∧ c ≤ 'F' then some (c.toNat - 55)
  else none

def ofHexChars : List Char → Option Bytes
  | [] => some []
  | [_] => none
  | a :: b :: rest => do
    let x ← hexVal a
    let y ← hexVal b
    let r ← ofHexChars rest
    pure (UInt8.ofNat (x * 16 + y) :: r)

/-- "-" denotes the empty byte string on the line protocol -/
def ofHex (s : String) : Option Bytes :=
  if s == "-" then some [] else ofHexChars s.toList

def hexOrDash (bs : Bytes) : String := if bs.isEmpty then "-" else toHex bs

end Cql
