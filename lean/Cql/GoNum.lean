/-!
Go's sized integer kinds as mathematical integers: ranges, and the wrap-around of a conversion `T(x)`.
`int`/`uint` are 64 bits wide (the platform the checks run on; `strconv.IntSize = 64`). `big` is `*big.Int`: unbounded.
-/
namespace Cql.GoNum

inductive K where
  | int | int64 | int32 | int16 | int8 | uint | uint64 | uint32 | uint16 | uint8 | big
  deriving DecidableEq, Repr

def K.bits : K → Nat
  | .int | .int64 | .uint | .uint64 => 64
  | .int32 | .uint32 => 32
  | .int16 | .uint16 => 16
  | .int8 | .uint8 => 8
  | .big => 0

def K.signed : K → Bool
  | .int | .int64 | .int32 | .int16 | .int8 | .big => true
  | _ => false

def K.lo (k : K) : Int := if k.signed then -(2 ^ (k.bits - 1) : Nat) else 0
def K.hi (k : K) : Int := if k.signed then (2 ^ (k.bits - 1) : Nat) - 1 else (2 ^ k.bits : Nat) - 1

/-- the value is representable in the kind -/
def inRange (k : K) (x : Int) : Prop := k = .big ∨ (k.lo ≤ x ∧ x ≤ k.hi)

instance (k : K) (x : Int) : Decidable (inRange k x) := by unfold inRange; exact inferInstance

def inRangeB (k : K) (x : Int) : Bool := k == .big || (decide (k.lo ≤ x) && decide (x ≤ k.hi))

theorem inRangeB_iff (k : K) (x : Int) : inRangeB k x = true ↔ inRange k x := by
  unfold inRangeB inRange; cases k <;> simp

/-- Go's conversion `T(x)` of an integer to a sized integer type: keep the low `bits`, reinterpret -/
def wrap (k : K) (x : Int) : Int :=
  match k with
  | .big => x
  | _ =>
    let m : Int := (2 ^ k.bits : Nat)
    let r := x % m
    if k.signed = true ∧ r ≥ m / 2 then r - m else r

/-- a conversion of a representable value is the identity -/
theorem wrap_of_inRange (k : K) (x : Int) (h : inRange k x) : wrap k x = x := by
  cases k <;> simp [inRange, K.lo, K.hi, K.signed, K.bits] at h <;> simp [wrap, K.bits, K.signed] <;> omega

/-- how a case of a numeric codec's type switch obtains / stores the value -/
inductive Conv where
  | cast                     -- a plain Go conversion `T(s)` / `big.NewInt(int64(s))` / assignment
  | helper (name : String)   -- a range-checked helper of conversions.go
  | other (name : String)    -- string parsing/formatting and the like (a parameter of the model)
  | nil                      -- the `case nil:` entry
  deriving DecidableEq, Repr

end Cql.GoNum
