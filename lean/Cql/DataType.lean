import Cql.Prim
/-!
# CQL type descriptors (`[option]`), mirrors `datatype/*.go`
-/
namespace Cql
open Cql.Prim

inductive DataType where
  | prim (code : Nat)                         -- `*PrimitiveType` with this code
  | custom (className : Bytes)
  | list (elem : DataType)
  | set (elem : DataType)
  | map (key value : DataType)
  | tuple (fields : List DataType)
  | udt (keyspace name : Bytes) (fieldNames : List Bytes) (fieldTypes : List DataType)
  deriving Repr

namespace DataType
open Cql.Gen

def code : DataType → Nat
  | prim c => c
  | custom _ => DataTypeCodeCustom
  | list _ => DataTypeCodeList
  | set _ => DataTypeCodeSet
  | map _ _ => DataTypeCodeMap
  | tuple _ => DataTypeCodeTuple
  | udt _ _ _ _ => DataTypeCodeUdt

/-- codes for which `ReadDataType` returns the shared primitive singleton -/
def primCodes : List Nat :=
  [DataTypeCodeAscii, DataTypeCodeBigint, DataTypeCodeBlob, DataTypeCodeBoolean, DataTypeCodeCounter,
   DataTypeCodeDecimal, DataTypeCodeDouble, DataTypeCodeFloat, DataTypeCodeInt, DataTypeCodeTimestamp,
   DataTypeCodeUuid, DataTypeCodeVarchar, DataTypeCodeVarint, DataTypeCodeTimeuuid, DataTypeCodeInet,
   DataTypeCodeDate, DataTypeCodeTime, DataTypeCodeSmallint, DataTypeCodeTinyint, DataTypeCodeDuration]

-- `WriteDataType`. A nil DataType is not representable here; callers model it separately.
mutual
def write (version : Nat) : DataType → Res Bytes
  | prim c =>
    if CheckValidDataTypeCode c version then .ok (writeShort c) else .err "invalid data type code"
  | custom cn => .ok (writeShort DataTypeCodeCustom ++ writeString cn)
  | list e => do
    let b ← write version e
    pure (writeShort DataTypeCodeList ++ b)
  | set e => do
    let b ← write version e
    pure (writeShort DataTypeCodeSet ++ b)
  | map k v => do
    let a ← write version k
    let b ← write version v
    pure (writeShort DataTypeCodeMap ++ a ++ b)
  | tuple fs => do
    let b ← writeList version fs
    pure (writeShort DataTypeCodeTuple ++ writeShort (fs.length % 65536) ++ b)
  | udt ks name names types =>
    if names.length ≠ types.length then .err "invalid user-defined type"
    else do
      let b ← writeUdtFields version names types
      pure (writeShort DataTypeCodeUdt ++ writeString ks ++ writeString name ++ writeShort (types.length % 65536) ++ b)

def writeList (version : Nat) : List DataType → Res Bytes
  | [] => .ok []
  | t :: ts => do
    let a ← write version t
    let b ← writeList version ts
    pure (a ++ b)

def writeUdtFields (version : Nat) : List Bytes → List DataType → Res Bytes
  | [], _ => .ok []
  | _ :: _, [] => .ok []      -- unreachable: lengths are checked equal by the caller
  | n :: ns, t :: ts => do
    let a ← write version t
    let b ← writeUdtFields version ns ts
    pure (writeString n ++ a ++ b)
end

mutual
def lengthOf (version : Nat) : DataType → Res Nat
  | prim _ => .ok lengthOfShort
  | custom cn => .ok (lengthOfShort + lengthOfString cn)
  | list e => do
    let b ← lengthOf version e
    pure (lengthOfShort + b)
  | set e => do
    let b ← lengthOf version e
    pure (lengthOfShort + b)
  | map k v => do
    let a ← lengthOf version k
    let b ← lengthOf version v
    pure (lengthOfShort + (a + b))
  | tuple fs => do
    let b ← lengthOfList version fs
    pure (lengthOfShort + (lengthOfShort + b))
  | udt ks name names types =>
    if names.length ≠ types.length then .err "invalid user-defined type"
    else do
      let b ← lengthOfUdtFields version names types
      pure (lengthOfShort + (lengthOfString ks + lengthOfString name + lengthOfShort + b))

def lengthOfList (version : Nat) : List DataType → Res Nat
  | [] => .ok 0
  | t :: ts => do
    let a ← lengthOf version t
    let b ← lengthOfList version ts
    pure (a + b)

def lengthOfUdtFields (version : Nat) : List Bytes → List DataType → Res Nat
  | [], _ => .ok 0
  | _ :: _, [] => .ok 0
  | n :: ns, t :: ts => do
    let a ← lengthOf version t
    let b ← lengthOfUdtFields version ns ts
    pure (lengthOfString n + a + b)
end

def readUdtField (p : Parser DataType) : Parser (Bytes × DataType) := do
  let n ← readString
  let t ← p
  pure (n, t)

/-- `ReadDataType`, with the recursion depth as explicit fuel (each level consumes at least the 2-byte code,
    so `fuel = input length` always suffices; see `read`). -/
def readF (version : Nat) : Nat → Parser DataType
  | 0 => Parser.fail "fuel"
  | fuel + 1 => do
    let c ← readShort
    if !CheckValidDataTypeCode c version then Parser.fail "invalid data type code"
    else if primCodes.contains c then pure (prim c)
    else if c = DataTypeCodeText then pure (prim DataTypeCodeVarchar)   -- the v1/v2 alias of varchar
    else if c = DataTypeCodeCustom then do
      let cn ← readString
      pure (custom cn)
    else if c = DataTypeCodeList then do
      let e ← readF version fuel
      pure (list e)
    else if c = DataTypeCodeMap then do
      let k ← readF version fuel
      let v ← readF version fuel
      pure (map k v)
    else if c = DataTypeCodeSet then do
      let e ← readF version fuel
      pure (set e)
    else if c = DataTypeCodeUdt then do
      let ks ← readString
      let name ← readString
      let n ← readShort
      let fs ← readN n (readUdtField (readF version fuel))
      pure (udt ks name (fs.map (·.1)) (fs.map (·.2)))
    else if c = DataTypeCodeTuple then do
      let n ← readShort
      let fs ← readN n (readF version fuel)
      pure (tuple fs)
    else Parser.fail "unknown type code"

def read (version : Nat) : Parser DataType := ⟨fun s => (readF version (s.length + 1)).run s⟩

-- nesting depth
mutual
def depth : DataType → Nat
  | prim _ => 1
  | custom _ => 1
  | list e => depth e + 1
  | set e => depth e + 1
  | map k v => max (depth k) (depth v) + 1
  | tuple fs => depthList fs + 1
  | udt _ _ _ ts => depthList ts + 1
def depthList : List DataType → Nat
  | [] => 0
  | t :: ts => max (depth t) (depthList ts)
end

end DataType
end Cql
