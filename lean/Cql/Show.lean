import Cql.Msg
/-!
Canonical text rendering of decoded frames for the line protocol. The Go harness renders what the real decoder returned
with the same grammar (`/verif/go/internal/show`), so equality of the two strings is equality of the decoded structures,
including nil-vs-empty distinctions. Maps are rendered sorted by key with last-wins de-duplication (a Go map).
-/
namespace Cql.Show
open Cql Cql.Prim

def B (b : Bytes) : String := if b.isEmpty then "-" else toHex b
def OB : Option Bytes → String
  | none => "~"
  | some b => B b
def N (n : Nat) : String := toString n
def T (b : Bool) : String := if b then "T" else "F"
def L {α} (f : α → String) (l : List α) : String := "[" ++ ",".intercalate (l.map f) ++ "]"
def OL {α} (f : α → String) : Option (List α) → String
  | none => "~"
  | some l => L f l
def O {α} (f : α → String) : Option α → String
  | none => "~"
  | some x => f x

/-- byte-wise lexicographic order -/
def bytesLt : Bytes → Bytes → Bool
  | [], [] => false
  | [], _ :: _ => true
  | _ :: _, [] => false
  | a :: as, b :: bs => if a < b then true else if b < a then false else bytesLt as bs

/-- Go map semantics for a wire-order association list: last entry wins, then sorted by key -/
def normMap {β} (m : List (Bytes × β)) : List (Bytes × β) :=
  let dedup := m.foldl (fun acc p => (acc.filter (fun q => q.1 != p.1)) ++ [p]) []
  dedup.mergeSort (fun a b => !bytesLt b.1 a.1)

def M {β} (f : β → String) (m : List (Bytes × β)) : String :=
  "{" ++ ",".intercalate ((normMap m).map fun p => B p.1 ++ ":" ++ f p.2) ++ "}"
def OM {β} (f : β → String) : Option (List (Bytes × β)) → String
  | none => "~"
  | some m => M f m

def value : Value → String
  | .regular c => "r" ++ OB c
  | .null => "null"
  | .unset => "unset"
  | .other t => "other" ++ toString t

def inet (i : Inet) : String := OB i.addr ++ "/" ++ N i.port

def cpo (o : ContinuousPagingOptions) : String := s!"{o.maxPages}/{o.pagesPerSecond}/{o.nextPages}"

def qo (o : QueryOptions) : String :=
  "QO(" ++ ",".intercalate [N o.consistency, OL (O value) o.positionalValues, OM (O value) o.namedValues,
    T o.skipMetadata, N o.pageSize, T o.pageSizeInBytes, OB o.pagingState, O N o.serialConsistency,
    O N o.defaultTimestamp, B o.keyspace, O N o.nowInSeconds, O cpo o.continuousPagingOptions] ++ ")"

mutual
def dataType : DataType → String
  | .prim c => "p" ++ N c
  | .custom cn => "custom(" ++ B cn ++ ")"
  | .list e => "list(" ++ dataType e ++ ")"
  | .set e => "set(" ++ dataType e ++ ")"
  | .map k v => "map(" ++ dataType k ++ "," ++ dataType v ++ ")"
  | .tuple fs => "tuple(" ++ dataTypes fs ++ ")"
  | .udt ks n names ts => "udt(" ++ B ks ++ "," ++ B n ++ "," ++ L B names ++ "," ++ dataTypes ts ++ ")"
def dataTypes : List DataType → String
  | [] => ""
  | [t] => dataType t
  | t :: ts => dataType t ++ ";" ++ dataTypes ts
end

def column (c : ColumnMetadata) : String :=
  "C(" ++ ",".intercalate [B c.keyspace, B c.table, B c.name, N c.index, O dataType c.type] ++ ")"

def varsMeta (m : VariablesMetadata) : String := "VM(" ++ OL N m.pkIndices ++ "," ++ OL column m.columns ++ ")"

def rowsMeta (m : RowsMetadata) : String :=
  "RM(" ++ ",".intercalate [N m.columnCount, OB m.pagingState, OB m.newResultMetadataId, N m.continuousPageNumber,
    T m.lastContinuousPage, OL column m.columns] ++ ")"

def schemaChange (sc : SchemaChange) : String :=
  ",".intercalate [B sc.changeType, B sc.target, B sc.keyspace, B sc.object, OL B sc.arguments]

def reason (r : FailureReason) : String := OB r.endpoint ++ "=" ++ N r.code

def batchChild (c : BatchChild) : String := "BC(" ++ B c.query ++ "," ++ OB c.id ++ "," ++ OL (O value) c.values ++ ")"

def errorMsg : ErrorMsg → String
  | .simple c m => s!"Error{c}({B m})"
  | .unavailable m c r a => "Unavailable(" ++ ",".intercalate [B m, N c, N r, N a] ++ ")"
  | .readTimeout m c r b d => "ReadTimeout(" ++ ",".intercalate [B m, N c, N r, N b, T d] ++ ")"
  | .writeTimeout m c r b w k => "WriteTimeout(" ++ ",".intercalate [B m, N c, N r, N b, B w, N k] ++ ")"
  | .readFailure m c r b n f d => "ReadFailure(" ++ ",".intercalate [B m, N c, N r, N b, N n, OL reason f, T d] ++ ")"
  | .writeFailure m c r b n f w => "WriteFailure(" ++ ",".intercalate [B m, N c, N r, N b, N n, OL reason f, B w] ++ ")"
  | .functionFailure m k f a => "FunctionFailure(" ++ ",".intercalate [B m, B k, B f, OL B a] ++ ")"
  | .unprepared m i => "Unprepared(" ++ B m ++ "," ++ OB i ++ ")"
  | .alreadyExists m k t => "AlreadyExists(" ++ ",".intercalate [B m, B k, B t] ++ ")"

def resultMsg : ResultMsg → String
  | .void => "Void()"
  | .setKeyspace k => "SetKeyspace(" ++ B k ++ ")"
  | .schemaChange sc => "SchemaChangeResult(" ++ schemaChange sc ++ ")"
  | .prepared a b v r => "Prepared(" ++ ",".intercalate [OB a, OB b, O varsMeta v, O rowsMeta r] ++ ")"
  | .rows m d => "Rows(" ++ O rowsMeta m ++ "," ++ OL (OL OB) d ++ ")"

def eventMsg : EventMsg → String
  | .schemaChange sc => "SchemaChangeEvent(" ++ schemaChange sc ++ ")"
  | .statusChange t a => "StatusChange(" ++ B t ++ "," ++ O inet a ++ ")"
  | .topologyChange t a => "TopologyChange(" ++ B t ++ "," ++ O inet a ++ ")"

def msg : Msg → String
  | .startup o => "Startup(" ++ OM B o ++ ")"
  | .options => "Options()"
  | .ready => "Ready()"
  | .query q o => "Query(" ++ B q ++ "," ++ O qo o ++ ")"
  | .prepare q k => "Prepare(" ++ B q ++ "," ++ B k ++ ")"
  | .execute a b o => "Execute(" ++ ",".intercalate [OB a, OB b, O qo o] ++ ")"
  | .batch b => "Batch(" ++ ",".intercalate [N b.type, OL batchChild b.children, N b.consistency,
      O N b.serialConsistency, O N b.defaultTimestamp, B b.keyspace, O N b.nowInSeconds] ++ ")"
  | .register l => "Register(" ++ OL B l ++ ")"
  | .authResponse t => "AuthResponse(" ++ OB t ++ ")"
  | .authChallenge t => "AuthChallenge(" ++ OB t ++ ")"
  | .authSuccess t => "AuthSuccess(" ++ OB t ++ ")"
  | .authenticate a => "Authenticate(" ++ B a ++ ")"
  | .supported o => "Supported(" ++ OM (L B) o ++ ")"
  | .revise a b c => s!"Revise({a},{b},{c})"
  | .error e => errorMsg e
  | .result r => resultMsg r
  | .event e => eventMsg e

def header (h : Header) : String :=
  "H(" ++ ",".intercalate [T h.isResponse, N h.version, N h.flags, N h.streamId, N h.opCode, N h.bodyLength] ++ ")"

def body (b : Body) : String :=
  "Y(" ++ ",".intercalate [OB b.tracingId, OM OB b.customPayload, OL B b.warnings, msg b.message] ++ ")"

def frame (f : Frame) : String := "F(" ++ header f.header ++ "," ++ body f.body ++ ")"

end Cql.Show
