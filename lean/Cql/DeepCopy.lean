/-!
# Deep copies over a heap of tagged trees (model for C17)

Go values are trees whose pointer, slice, map and interface nodes carry the *location* of the memory they refer to.
A deep-copy routine is described by a `Plan` (what the generated `DeepCopyInto` does to a value of a given `Shape`);
`copy` executes a plan, allocating fresh locations from a counter (Go's `new`/`make`). The shapes and plans of all
types of /repo are regenerated from the Go source on every run (`Cql/Gen/DeepCopy.lean`).
-/
namespace Cql.DeepCopy

/-- the shape of a Go type, as far as copying is concerned -/
inductive Shape where
  | scalar                          -- numbers, booleans, strings, arrays of scalars: immutable or copied by value
  | ptr (s : Shape)
  | slice (s : Shape)
  | map (s : Shape)                 -- keys are scalars
  | struct (fields : List Shape)    -- a struct value without a deep-copy method of its own
  | named (name : Nat)              -- a struct type with its own `DeepCopyInto` (index into `Env.types` names)
  | iface (name : Nat)              -- an interface with a `DeepCopy<name>()` method
  deriving Repr, Inhabited

/-- what the copy code does at one place -/
inductive Plan where
  | assign                          -- `*out = *in`, `copy(*out, *in)`, `(*out)[key] = val`: the value is copied shallowly
  | newPtr (p : Plan)               -- `if in != nil { *out = new(T); p on the pointee }`
  | makeSlice (p : Plan)            -- `if in != nil { *out = make([]E, len(*in)); p on every element }`
  | makeMap (p : Plan)              -- `if in != nil { *out = make(map[K]V, len(*in)); p on every value }`
  | fields (ps : List Plan)         -- struct value: shallow copy, then `ps` field by field
  | call (name : Nat)               -- `(*in).DeepCopyInto(*out)` of the named struct type
  | dispatch (name : Nat)           -- `out.F = in.F.DeepCopy<name>()` on an interface value
  deriving Repr, Inhabited

/-- one named struct type: field shapes and field plans of its `DeepCopyInto` -/
structure TypeInfo where
  name : Nat
  label : String
  fieldNames : List String
  shapes : List Shape
  plans : List Plan
  deriving Repr, Inhabited

/-- all named types; interfaces with their implementing struct types -/
structure Env where
  types : List TypeInfo
  ifaces : List (Nat × List Nat)
  deriving Repr, Inhabited

def Env.find (env : Env) (T : Nat) : Option TypeInfo := env.types.find? (·.name == T)
def Env.shapes (env : Env) (T : Nat) : List Shape := ((env.find T).map (·.shapes)).getD []
def Env.plans (env : Env) (T : Nat) : List Plan := ((env.find T).map (·.plans)).getD []
def Env.impls (env : Env) (I : Nat) : List Nat := ((env.ifaces.find? (·.1 == I)).map (·.2)).getD []

/-- heap values: every reference node carries its location -/
inductive Val where
  | scalar (n : Nat)
  | nil                                                   -- nil pointer / slice / map / interface
  | ptr (loc : Nat) (v : Val)
  | slice (loc : Nat) (elems : List Val)
  | map (loc : Nat) (keys : List Nat) (vals : List Val)
  | struct (fields : List Val)
  | iface (dyn : Nat) (loc : Nat) (fields : List Val)  -- interface holding `*dyn`, the struct living at `loc`
  deriving Repr, Inhabited

mutual
/-- run a plan on a value; `n` is the next unused location -/
def copy (env : Env) (p : Plan) : Val → Nat → Val × Nat
  | .ptr l v, n =>
    match p with
    | .newPtr q => let r := copy env q v (n + 1); (.ptr n r.1, r.2)
    | _ => (.ptr l v, n)
  | .slice l es, n =>
    match p with
    | .makeSlice q => let r := copyAll env q es (n + 1); (.slice n r.1, r.2)
    | _ => (.slice l es, n)
  | .map l ks vs, n =>
    match p with
    | .makeMap q => let r := copyAll env q vs (n + 1); (.map n ks r.1, r.2)
    | _ => (.map l ks vs, n)
  | .struct fs, n =>
    match p with
    | .fields ps => let r := copyFields env ps fs n; (.struct r.1, r.2)
    | .call T => let r := copyFields env (env.plans T) fs n; (.struct r.1, r.2)
    | _ => (.struct fs, n)
  | .iface dyn l fs, n =>
    match p with
    | .dispatch _ => let r := copyFields env (env.plans dyn) fs (n + 1); (.iface dyn n r.1, r.2)
    | _ => (.iface dyn l fs, n)
  | .scalar k, n => (.scalar k, n)
  | .nil, n => (.nil, n)
/-- the same plan on every element -/
def copyAll (env : Env) (p : Plan) : List Val → Nat → List Val × Nat
  | [], n => ([], n)
  | v :: vs, n =>
    let r := copy env p v n
    let rs := copyAll env p vs r.2
    (r.1 :: rs.1, rs.2)
/-- field by field; fields beyond the plans keep what the shallow struct copy gave them -/
def copyFields (env : Env) : List Plan → List Val → Nat → List Val × Nat
  | _, [], n => ([], n)
  | ps, v :: vs, n =>
    let r := copy env (ps.headD .assign) v n
    let rs := copyFields env ps.tail vs r.2
    (r.1 :: rs.1, rs.2)
end

mutual
/-- the value with all locations forgotten: what `reflect.DeepEqual` compares -/
def erase : Val → Val
  | .scalar k => .scalar k
  | .nil => .nil
  | .ptr _ v => .ptr 0 (erase v)
  | .slice _ es => .slice 0 (eraseAll es)
  | .map _ ks vs => .map 0 ks (eraseAll vs)
  | .struct fs => .struct (eraseAll fs)
  | .iface d _ fs => .iface d 0 (eraseAll fs)
def eraseAll : List Val → List Val
  | [] => []
  | v :: vs => erase v :: eraseAll vs
end

mutual
/-- every location reachable from the value -/
def locs : Val → List Nat
  | .scalar _ => []
  | .nil => []
  | .ptr l v => l :: locs v
  | .slice l es => l :: locsAll es
  | .map l _ vs => l :: locsAll vs
  | .struct fs => locsAll fs
  | .iface _ l fs => l :: locsAll fs
def locsAll : List Val → List Nat
  | [] => []
  | v :: vs => locs v ++ locsAll vs
end

mutual
/-- the value inhabits the shape -/
def hasShape (env : Env) (s : Shape) : Val → Bool
  | .scalar _ => match s with | .scalar => true | _ => false
  | .nil => match s with | .ptr _ | .slice _ | .map _ | .iface _ => true | _ => false
  | .ptr _ v => match s with | .ptr t => hasShape env t v | _ => false
  | .slice _ es => match s with | .slice t => allShape env t es | _ => false
  | .map _ ks vs => match s with | .map t => ks.length == vs.length && allShape env t vs | _ => false
  | .struct fs =>
    match s with
    | .struct ss => fieldsShape env ss fs
    | .named T => fieldsShape env (env.shapes T) fs
    | _ => false
  | .iface d _ fs =>
    match s with
    | .iface I => (env.impls I).contains d && fieldsShape env (env.shapes d) fs
    | _ => false
def allShape (env : Env) (s : Shape) : List Val → Bool
  | [] => true
  | v :: vs => hasShape env s v && allShape env s vs
def fieldsShape (env : Env) : List Shape → List Val → Bool
  | [], [] => true
  | s :: ss, v :: vs => hasShape env s v && fieldsShape env ss vs
  | _, _ => false
end

/-- values of the shape hold no reference: a shallow copy of them shares nothing -/
def flat (env : Env) : Nat → Shape → Bool
  | _, .scalar => true
  | f + 1, .struct ss => ss.all (flat env f)
  | f + 1, .named T => (env.shapes T).all (flat env f)
  | _, _ => false

mutual
/-- the plan leaves no reference of the shape shared -/
def covers (env : Env) (f : Nat) : Shape → Plan → Bool
  | s, .assign => flat env f s
  | .ptr s, .newPtr p => covers env f s p
  | .slice s, .makeSlice p => covers env f s p
  | .map s, .makeMap p => covers env f s p
  | .struct ss, .fields ps => coversFields env f ss ps
  | .named T, .call T' => T == T' && (env.find T).isSome
  | .iface I, .dispatch I' => I == I'
  | _, _ => false
/-- field by field; a field without a plan is only shallowly copied -/
def coversFields (env : Env) (f : Nat) : List Shape → List Plan → Bool
  | [], _ => true
  | s :: ss, [] => flat env f s && coversFields env f ss []
  | s :: ss, p :: ps => covers env f s p && coversFields env f ss ps
end

/-- fuel for `flat`: the nesting depth of struct values never exceeds the number of named types + a margin -/
def fuel (env : Env) : Nat := env.types.length + 8

/-- the whole environment is covered: every named type by its own plans, every interface implementation is a named
    type of the environment -/
def Env.ok (env : Env) : Bool :=
  env.types.all (fun t => coversFields env (fuel env) t.shapes t.plans) &&
  env.ifaces.all (fun i => i.2.all fun d => (env.find d).isSome)

/-- type-level paths (within one named type) at which the copy shares memory with the original:
    the prediction the harness compares with the behaviour of the real `DeepCopy` -/
def aliased (env : Env) (f : Nat) : Nat → String → Shape → Plan → List String
  | 0, path, _, _ => [path ++ "!depth"]
  | d + 1, path, s, p =>
    match s, p with
    | s, .assign => if flat env f s then [] else [path]
    | .ptr s, .newPtr p => aliased env f d (path ++ "*") s p
    | .slice s, .makeSlice p => aliased env f d (path ++ "[]") s p
    | .map s, .makeMap p => aliased env f d (path ++ "{}") s p
    | .struct ss, .fields ps =>
      ((ss.zipIdx).map fun (s, i) => aliased env f d (path ++ "." ++ toString i) s (ps.getD i .assign)).flatten
    | .named T, .call T' => if T == T' then [] else [path ++ "!call"]
    | .iface I, .dispatch I' => if I == I' then [] else [path ++ "!dispatch"]
    | _, _ => [path ++ "!mismatch"]

def aliasedOfType (env : Env) (t : TypeInfo) : List String :=
  ((t.shapes.zipIdx).map fun (s, i) =>
    aliased env (fuel env) 16 (t.label ++ "." ++ t.fieldNames.getD i (toString i)) s (t.plans.getD i .assign)).flatten

end Cql.DeepCopy
