import Cql.Value
/-!
# Data type serialization formats, transcribed from the protocol specifications

Source: `/repo/specs/native_protocol_v5.spec` §3 "Notations" (`[int]`, `[short]`, `[bytes]`, `[short bytes]`,
`[unsigned vint]`, `[vint]`), §5 "Data Type Serialization Formats" (§5.1 – §5.24) and §6 "User Defined Types";
for protocol v2 `/repo/specs/native_protocol_v2.spec` §6 "Collection types". (The v4 specification numbers the same
sections 6 and 7.)

Everything here is arithmetic and independent of the Go-shaped model in `Cql/Value.lean`: the only things shared
are the types `DataType`, `CqlVal` and `Bytes`.
-/
namespace Cql.Spec
open Cql Cql.Value

/-! ## §3 Notations -/

/-- "all encodings are big-endian" (§5 preamble): the `k`-byte big-endian numeral of `n`, byte `i` (from the left)
    being digit `k-1-i` in base 256 -/
def be (k n : Nat) : Bytes := (List.range k).map fun i => UInt8.ofNat (n / 256 ^ (k - 1 - i) % 256)

/-- a `k`-byte two's complement integer: the big-endian numeral of `v mod 2^(8k)` -/
def twosV (k : Nat) (v : Int) : Bytes := be k (v % ((256 ^ k : Nat) : Int)).toNat

/-- `[int]`: "A 4 bytes integer" (signed) -/
def intV (v : Int) : Bytes := twosV 4 v

/-- `[short]`: "A 2 bytes unsigned integer" -/
def shortV (n : Nat) : Bytes := be 2 n

/-- `[bytes]`: "A [int] n, followed by n bytes if n >= 0. If n < 0, no byte should follow and the value represented
    is `null`"; §5.21: "Null values may be represented by using length -1" -/
def bytesOpt : Option Bytes → Bytes
  | none => intV (-1)
  | some b => intV b.length ++ b

/-- `[short bytes]`: "A [short] n, followed by n bytes if n >= 0" -/
def shortBytesV (b : Bytes) : Bytes := shortV b.length ++ b

/-- `[unsigned vint]`: with `e` extra bytes the first byte starts with `e` one-bits; then (for `e < 8`) a zero bit,
    which leaves `7 - e` payload bits in the first byte and `8e` in the extra bytes: `7e + 7` in all. "If the
    encoded integer is 8 bytes long the vint will be encoded on 9 bytes and the first byte will be: 11111111"
    (`e = 8`, 64 payload bits). The number of extra bytes is the least that holds the value. -/
def vintExtraFrom (v : Nat) : Nat → Nat → Nat
  | 0, e => e
  | fuel + 1, e => if v < 2 ^ (7 * e + 7) then e else vintExtraFrom v fuel (e + 1)

def vintExtra (v : Nat) : Nat := vintExtraFrom v 8 0

/-- the `e` one-bits at the top of the first byte (`256 - 2^(8-e)`), then the value, in `e + 1` bytes
    "most significant byte first" -/
def unsignedVint (v : Nat) : Bytes :=
  be (vintExtra v + 1) ((256 - 2 ^ (8 - vintExtra v)) * 256 ^ vintExtra v + v)

/-- "Zig-zag encoding converts numbers as follows: 0 = 0, -1 = 1, 1 = 2, -2 = 3, 2 = 4, -3 = 5, 3 = 6 and so forth" -/
def zigZag (n : Int) : Nat := if n ≥ 0 then (2 * n).toNat else (-2 * n - 1).toNat

/-- `[vint]`: "encoded using zig-zag encoding and then sent like an [unsigned vint]" -/
def vint (n : Int) : Bytes := unsignedVint (zigZag n)

/-! ## §5.24 varint -/

/-- `v` is denoted by a `k`-byte two's complement numeral -/
def fitsTwos (k : Nat) (v : Int) : Bool :=
  decide (-((2 ^ (8 * k - 1) : Nat) : Int) ≤ v ∧ v < ((2 ^ (8 * k - 1) : Nat) : Int))

def minTwosLenFrom (v : Int) : Nat → Nat → Nat
  | 0, k => k
  | fuel + 1, k => if fitsTwos k v then k else minTwosLenFrom v fuel (k + 1)

/-- the least `k ≥ 1` such that `-2^(8k-1) ≤ v < 2^(8k-1)` -/
def minTwosLen (v : Int) : Nat := minTwosLenFrom v v.natAbs 1

/-- §5.24 "A variable-length two's complement encoding of a signed integer": the shortest one (the example table:
    positive numbers get a leading 0x00 only when their most significant bit would otherwise read as a sign) -/
def minimalTwosComplement (v : Int) : Bytes := twosV (minTwosLen v) v

/-! ## §5.1 – §5.24: scalar formats -/

inductive Format where
  | bytes              -- §5.1 ascii, §5.3 blob, §5.16 text, §5.23 varchar, custom: the bytes themselves
  | int (k : Nat)      -- §5.2 bigint (8), §5.11 int (4), §5.15 smallint (2), §5.20 tinyint (1), §5.17 time (8),
                       -- §5.18 timestamp (8), counter (8): "A k byte two's complement integer"
  | boolean            -- §5.4
  | date               -- §5.5
  | decimal            -- §5.6
  | double             -- §5.7
  | duration           -- §5.8
  | float              -- §5.9
  | inet               -- §5.10
  | uuid               -- §5.19 timeuuid, §5.22 uuid
  | varint             -- §5.24
  deriving Repr, DecidableEq

open Cql.Gen in
/-- type code ↦ format (§4.2.5.2 lists the codes; §5 the formats). `0x000A` (text) is not a type code of the
    protocol versions modelled here: servers send varchar. -/
def formatTable : List (Nat × Format) :=
  [(DataTypeCodeAscii, .bytes), (DataTypeCodeBigint, .int 8), (DataTypeCodeBlob, .bytes),
   (DataTypeCodeBoolean, .boolean), (DataTypeCodeCounter, .int 8), (DataTypeCodeDate, .date),
   (DataTypeCodeDecimal, .decimal), (DataTypeCodeDouble, .double), (DataTypeCodeDuration, .duration),
   (DataTypeCodeFloat, .float), (DataTypeCodeInet, .inet), (DataTypeCodeInt, .int 4),
   (DataTypeCodeSmallint, .int 2), (DataTypeCodeTime, .int 8), (DataTypeCodeTimestamp, .int 8),
   (DataTypeCodeTimeuuid, .uuid), (DataTypeCodeTinyint, .int 1), (DataTypeCodeUuid, .uuid),
   (DataTypeCodeVarchar, .bytes), (DataTypeCodeVarint, .varint)]

def formatOf (c : Nat) : Option Format := formatTable.lookup c

def serializeScalar : Format → CqlVal → Bytes
  | .bytes, .bytes b => b                                   -- "Any sequence of bytes"
  | .int k, .int v => twosV k v                              -- "A k byte two's complement integer"
  | .boolean, .bool b => if b then [1] else [0]             -- §5.4 "A single byte. A value of 0 denotes false"; 1 recommended for true
  | .date, .int days => be 4 (days + 2147483648).toNat      -- §5.5 "An unsigned integer representing days with epoch centered at 2^31"
  | .decimal, .decimal u s => intV s ++ minimalTwosComplement u   -- §5.6 "an [int] scale component followed by a varint encoding of the unscaled value"
  | .double, .double bits => be 8 bits                      -- §5.7 "An 8 byte floating point number in the IEEE 754 binary64 format"
  | .duration, .duration m d n => vint m ++ vint d ++ vint n     -- §5.8 "3 signed variable length integers ([vint]s)": months, days, nanoseconds
  | .float, .float bits => be 4 bits                        -- §5.9 "A 4 byte floating point number in the IEEE 754 binary32 format"
  | .inet, .bytes b => b                                    -- §5.10 "A 4 byte or 16 byte sequence"
  | .uuid, .bytes b => b                                    -- §5.19 / §5.22 "A 16 byte sequence"
  | .varint, .int v => minimalTwosComplement v              -- §5.24
  | _, _ => []

/-- the 16-byte form `::ffff:a.b.c.d` of an IPv4 address -/
def v4Mapped (b : Bytes) : Bool := b.take 12 == [0, 0, 0, 0, 0, 0, 0, 0, 0, 0, 255, 255]

/-- the value is one the format can denote -/
def HasFormat : Format → CqlVal → Prop
  | .bytes, .bytes _ => True
  | .int k, .int v => fitsTwos k v = true
  | .boolean, .bool _ => True
  | .date, .int days => -2147483648 ≤ days ∧ days ≤ 2147483647        -- wire value in [0, 2^32)
  | .decimal, .decimal _ s => -2147483648 ≤ s ∧ s ≤ 2147483647         -- the scale is an [int]
  | .double, .double bits => bits < 18446744073709551616
  -- §5.8 "The number of months and days must be valid 32 bits integers whereas the number of nanoseconds must be a
  -- valid 64 bits integer"
  | .duration, .duration m d n =>
    (-2147483648 ≤ m ∧ m ≤ 2147483647) ∧ (-2147483648 ≤ d ∧ d ≤ 2147483647) ∧
    (-9223372036854775808 ≤ n ∧ n ≤ 9223372036854775807)
  | .float, .float bits => bits < 4294967296
  -- SUSPECT: §5.10 admits every 16-byte sequence, but the Go codec rewrites a 16-byte IPv4-mapped address
  -- (`::ffff:a.b.c.d`) to its 4-byte form on encode, so such a value comes back 4 bytes long
  -- (see `Cql.Props.C11.inet_v4mapped_not_roundtrip`); the hypothesis `v4Mapped b = false` keeps that visible.
  | .inet, .bytes b => b.length = 4 ∨ (b.length = 16 ∧ v4Mapped b = false)
  | .uuid, .bytes b => b.length = 16
  | .varint, .int _ => True
  | _, _ => False

/-! ## §5.12 list, §5.13 map, §5.14 set, §5.21 tuple, §6 UDT; v2 §6 -/

/-- v3 and later: `[int]` counts and `[bytes]` elements; v2: `[short]` counts and `[short bytes]` elements -/
def fourByte (version : Nat) : Bool := decide (version ≥ 3)

/-- v5 §5.12 "A [int] n indicating the number of elements"; v2 §6 "a [short] n indicating the size of the list" -/
def count (version : Nat) (n : Nat) : Bytes := if fourByte version then intV n else shortV n

/-- v5 §5.12 "Each element is [bytes] representing the serialized value"; v2 §6 "Each element is [short bytes]" -/
def element (version : Nat) (o : Option Bytes) : Bytes :=
  if fourByte version then bytesOpt o else shortBytesV (o.getD [])

mutual
def serialize (version : Nat) : DataType → CqlVal → Bytes
  | .prim c, x =>
    match formatOf c with
    | some f => serializeScalar f x
    | none => []
  | .custom _, x => serializeScalar .bytes x
  -- §5.12 / §5.14
  | .list e, .list xs => count version xs.length ++ (xs.map fun o => element version (o.map (serialize version e))).flatten
  | .set e, .list xs => count version xs.length ++ (xs.map fun o => element version (o.map (serialize version e))).flatten
  -- §5.13 "followed by n entries. Each entry is composed of two [bytes] representing the key and value"
  | .map k v, .map es =>
    count version es.length ++
      (es.map fun p => element version (p.1.map (serialize version k)) ++
        element version (p.2.map (serialize version v))).flatten
  -- §5.21 "A sequence of [bytes] values representing the items in a tuple"
  | .tuple ts, .tuple fs => serializeFields version ts fs
  -- §6 "A UDT value is composed of successive [bytes] values, one for each field of the UDT value (in the order
  -- defined by the type). A UDT value will generally have one value for each field of the type it represents, but it
  -- is allowed to have less values than the type has fields": `serializeFields` writes one `[bytes]` per VALUE, so a
  -- value list shorter than `ts` is that shorter form (see `Cql.Props.C12.C12_udt_fewer_fields`)
  | .udt _ _ _ ts, .udt fs => serializeFields version ts fs
  | _, _ => []

def serializeFields (version : Nat) : List DataType → List (Option CqlVal) → Bytes
  | t :: ts, f :: fs => bytesOpt (f.map (serialize version t)) ++ serializeFields version ts fs
  | _, _ => []
end

/-- a possibly-null element: `none` is NULL -/
def serializeOpt (version : Nat) (t : DataType) (o : Option CqlVal) : Option Bytes := o.map (serialize version t)

-- every leaf of the type has a serialization format
mutual
def Supported : DataType → Bool
  | .prim c => (formatOf c).isSome
  | .custom _ => true
  | .list e => Supported e
  | .set e => Supported e
  | .map k v => Supported k && Supported v
  | .tuple ts => SupportedList ts
  | .udt _ _ _ ts => SupportedList ts
def SupportedList : List DataType → Bool
  | [] => true
  | t :: ts => Supported t && SupportedList ts
end

/-- an element of a collection: NULL only where the format has a length to say so (`[bytes]`, not `[short bytes]`);
    otherwise well-typed and short enough for its length prefix (`[bytes]`: < 2^31, `[short bytes]`: < 2^16) -/
def ElemOk (version : Nat) (P : CqlVal → Prop) (ser : CqlVal → Bytes) : Option CqlVal → Prop
  | none => fourByte version = true
  | some y => P y ∧ (ser y).length < (if fourByte version then 2147483648 else 65536)

/-- a tuple / UDT field: always `[bytes]` -/
def FieldOk (P : CqlVal → Prop) (ser : CqlVal → Bytes) : Option CqlVal → Prop
  | none => True
  | some y => P y ∧ (ser y).length < 2147483648

/-- the count fits its field: `[int]` (non-negative) or `[short]` -/
def CountOk (version : Nat) (n : Nat) : Prop := n < (if fourByte version then 2147483648 else 65536)

-- well-typedness and representability of a value of a type, at any nesting depth
mutual
def HasType (version : Nat) : DataType → CqlVal → Prop
  | .prim c, x => ∃ f, formatOf c = some f ∧ HasFormat f x
  | .custom _, x => HasFormat .bytes x
  | .list e, .list xs => CountOk version xs.length ∧ ∀ o ∈ xs, ElemOk version (HasType version e) (serialize version e) o
  | .set e, .list xs => CountOk version xs.length ∧ ∀ o ∈ xs, ElemOk version (HasType version e) (serialize version e) o
  | .map k v, .map es =>
    CountOk version es.length ∧
    ∀ p ∈ es, ElemOk version (HasType version k) (serialize version k) p.1 ∧
      ElemOk version (HasType version v) (serialize version v) p.2
  -- SUSPECT: a tuple / UDT type without fields has the empty byte string as its only value, and the Go decoders
  -- read every empty byte string as NULL; `ts ≠ []` keeps that visible (see `Cql.Props.C11.empty_tuple_not_roundtrip`)
  | .tuple ts, .tuple fs => ts ≠ [] ∧ HasFields version ts fs
  | .udt _ _ names ts, .udt fs => ts ≠ [] ∧ names.length = ts.length ∧ HasFields version ts fs
  | _, _ => False

def HasFields (version : Nat) : List DataType → List (Option CqlVal) → Prop
  | [], [] => True
  | t :: ts, f :: fs => FieldOk (HasType version t) (serialize version t) f ∧ HasFields version ts fs
  | _, _ => False
end

/-! ## the specifications' own examples -/

-- §5.24 table
example : minimalTwosComplement 0 = [0x00] := by decide
example : minimalTwosComplement 1 = [0x01] := by decide
example : minimalTwosComplement 127 = [0x7F] := by decide
example : minimalTwosComplement 128 = [0x00, 0x80] := by decide
example : minimalTwosComplement 129 = [0x00, 0x81] := by decide
example : minimalTwosComplement (-1) = [0xFF] := by decide
example : minimalTwosComplement (-128) = [0x80] := by decide
example : minimalTwosComplement (-129) = [0xFF, 0x7F] := by decide

-- §3 [unsigned vint]: "256 000 will be encoded on 3 bytes as [110]00011 11101000 00000000"
example : unsignedVint 256000 = [0b11000011, 0b11101000, 0b00000000] := by decide
-- "If the encoded integer is 8 bytes long the vint will be encoded on 9 bytes and the first byte will be: 11111111"
example : unsignedVint 0xFFFFFFFFFFFFFFFF = [0xFF, 0xFF, 0xFF, 0xFF, 0xFF, 0xFF, 0xFF, 0xFF, 0xFF] := by decide
-- §3 [vint]: "0 = 0, -1 = 1, 1 = 2, -2 = 3, 2 = 4, -3 = 5, 3 = 6"
example : [0, -1, 1, -2, 2, -3, 3].map zigZag = [0, 1, 2, 3, 4, 5, 6] := by decide
-- §5.5 "0: -5877641-06-23, 2^31: 1970-1-1": the epoch is the unsigned value 2^31
example : serializeScalar .date (.int 0) = [0x80, 0, 0, 0] := by decide
example : serializeScalar .date (.int (-2147483648)) = [0, 0, 0, 0] := by decide

end Cql.Spec
