import Cql.Bytes
/-!
# The notations of the native-protocol specifications (§3 "Notations" of native_protocol_v2..v5.spec)

Written from the documents, independently of `Cql/Prim.lean` (which follows the Go code): every notation is a
total function into bytes defined by plain arithmetic on the denoted value; no `Res`, no length truncation, no
Go-specific representation. `Cql/Lemmas/SpecPrim.lean` proves that the Go-shaped writers produce exactly these
bytes whenever the value is representable.

Integers are unbounded `Nat`/`Int`; a `[string]` is the list of its UTF-8 bytes; a null `[bytes]` is `none`.
-/
namespace Cql.Spec
open Cql

/-- the byte holding bits `8k .. 8k+7` of `n` -/
def byteAt (n k : Nat) : UInt8 := UInt8.ofNat (n / 256 ^ k % 256)

/-- "[byte]  A 1 byte unsigned integer" -/
def byte (n : Nat) : Bytes := [byteAt n 0]
/-- "[short]  A 2 bytes unsigned integer" (big-endian: "All values are big-endian", §2) -/
def short (n : Nat) : Bytes := [byteAt n 1, byteAt n 0]
/-- "[int]  A 4 bytes integer" — of an unsigned bit pattern -/
def uint (n : Nat) : Bytes := [byteAt n 3, byteAt n 2, byteAt n 1, byteAt n 0]
/-- "[long]  A 8 bytes integer" — of an unsigned bit pattern -/
def ulong (n : Nat) : Bytes :=
  [byteAt n 7, byteAt n 6, byteAt n 5, byteAt n 4, byteAt n 3, byteAt n 2, byteAt n 1, byteAt n 0]

/-- two's complement bit pattern of a signed value in `w` bits -/
def twos (w : Nat) (i : Int) : Nat := (i % (2 : Int) ^ w).toNat
/-- "[int]  A 4 bytes signed integer" -/
def int (i : Int) : Bytes := uint (twos 32 i)
/-- "[long]  A 8 bytes signed integer" -/
def long (i : Int) : Bytes := ulong (twos 64 i)

/-- "[string]  A [short] n, followed by n bytes representing an UTF-8 string." -/
def string (s : Bytes) : Bytes := short s.length ++ s
/-- "[long string]  An [int] n, followed by n bytes representing an UTF-8 string." -/
def longString (s : Bytes) : Bytes := uint s.length ++ s
/-- "[uuid]  A 16 bytes long uuid." -/
def uuid (u : Bytes) : Bytes := u
/-- "[string list]  A [short] n, followed by n [string]." -/
def stringList (l : List Bytes) : Bytes := short l.length ++ (l.map string).flatten
/-- "[bytes]  A [int] n, followed by n bytes if n >= 0. If n < 0, no byte should follow and the value
    represented is `null`." (the library writes −1) -/
def bytes : Option Bytes → Bytes
  | none => int (-1)
  | some b => uint b.length ++ b
/-- "[value]  A [int] n, followed by n bytes if n >= 0. If n == -1 no byte should follow and the value
    represented is `null`. If n == -2 no byte should follow and the value represented is `not set`" (v4+) -/
inductive Val where
  | bytes (b : Bytes) | null | unset
  deriving Repr, DecidableEq
def value : Val → Bytes
  | .bytes b => uint b.length ++ b
  | .null => int (-1)
  | .unset => int (-2)
/-- "[short bytes]  A [short] n, followed by n bytes if n >= 0." -/
def shortBytes (b : Bytes) : Bytes := short b.length ++ b
/-- "[inetaddr]  An IP address (without a port) … one [byte] n, that represents the address size, followed by n
    [byte] representing the IP address" -/
def inetaddr (ip : Bytes) : Bytes := byte ip.length ++ ip
/-- "[inet]  An address (ip and port) … one [byte] n … followed by n [byte] … followed by one [int] port" -/
def inet (ip : Bytes) (port : Int) : Bytes := inetaddr ip ++ int port
/-- "[consistency]  A consistency level specification. This is a [short]" -/
def consistency (c : Nat) : Bytes := short c
/-- "[string map]  A [short] n, followed by n pair <k><v> where <k> and <v> are [string]." -/
def stringMap (m : List (Bytes × Bytes)) : Bytes :=
  short m.length ++ (m.map fun p => string p.1 ++ string p.2).flatten
/-- "[string multimap]  A [short] n, followed by n pair <k><v> where <k> is a [string] and <v> is a [string list]." -/
def stringMultiMap (m : List (Bytes × List Bytes)) : Bytes :=
  short m.length ++ (m.map fun p => string p.1 ++ stringList p.2).flatten
/-- "[bytes map]  A [short] n, followed by n pair <k><v> where <k> is a [string] and <v> is a [bytes]." -/
def bytesMap (m : List (Bytes × Option Bytes)) : Bytes :=
  short m.length ++ (m.map fun p => string p.1 ++ bytes p.2).flatten

/-- the bits of a flags field: the sum of the masks of the flags that are set (masks are distinct powers of two) -/
def flagBits (fs : List (Bool × Nat)) : Nat := (fs.map fun p => if p.1 then p.2 else 0).sum

end Cql.Spec
