import Cql.Crc
/-!
# The v5 outer framing, transcribed from `/repo/specs/native_protocol_v5.spec` §1, §2.1, §2.2, §2.3.2

The specification calls the checksummed unit a *frame* (and the inner CQL unit an *envelope*); the Go library calls it a
*segment* (`segment/*.go`). This file is written from the document with plain arithmetic (`+`, `*`, `/`, `%`) and does
not import the code-shaped model `Cql.Segment`; `Cql/Props/C06.lean` proves that `EncodeSegment` produces exactly these
bytes.

What the document fixes: the order and the widths of the fields (§2.1 items 1–6, §2.2 items 1–7 and the two bit diagrams),
that the CRC24 covers the header (§2.1 l.100–102, item 4; §2.2 item 5 "CRC24 of Header contents") and the CRC32 the payload
as transmitted (§1 l.92–93; §2.2 l.131–132 "This is the CRC of the compressed payload").
What the document leaves to the reference implementation (Cassandra `org.apache.cassandra.net.Crc`, `FrameEncoderCrc`,
`FrameEncoderLZ4`), and is taken from there: little-endian byte order of the header value and of both checksums, the CRC-24
polynomial `0x1974F0B` / initial value `0x875060`, and the four bytes `FA 2D 55 CA` that are fed to the CRC-32 before the
payload. These parameters are the ones the Go library states it copied (`crc/crc24.go`, `crc/crc32.go`) and are tied to the
extracted source constants in `C06_constants`.
-/
namespace Cql.Spec

/-- `k` bytes of `n`, least significant byte first: byte number `i` is `(n / 256^i) mod 256`
    (byte order: reference implementation; the bit diagrams of §2.1/§2.2 number bits from the first byte on the wire) -/
def leBytes (k n : Nat) : Bytes := (List.range k).map fun i => UInt8.ofNat (n / 256 ^ i % 256)

/-- the integer a byte string denotes when read least significant byte first: `Σ bᵢ · 256^i` -/
def leValue : Bytes → Nat
  | [] => 0
  | b :: bs => b.toNat + 256 * leValue bs

/-- one byte of the reference CRC-24 (Cassandra `Crc.crc24`, on a 32-bit `int`): `crc ^= (bytes & 0xff) << 16`, then eight
    times `crc <<= 1; if ((crc & 0x1000000) != 0) crc ^= CRC24_POLY` (`Cql.Crc.crc24Bit` is that bit step) -/
def crc24ByteRef (crc : BitVec 32) (b : UInt8) : BitVec 32 :=
  Cql.Crc.iter Cql.Crc.crc24Bit 8 (crc ^^^ (BitVec.ofNat 32 b.toNat <<< 16))

/-- "CRC24 of the header" (§2.1 item 4, §2.2 item 5): the CRC-24 (polynomial `0x1974F0B`, initial value `0x875060`) of the
    header bytes, consumed one byte at a time in wire order. A function of the byte string alone: the 64-bit register
    `ChecksumKoopman` works on does not appear (`Cql.Segment.crc24_eq_bytewise` proves the two agree). -/
def crc24OfBytes (hb : Bytes) : Nat := (hb.foldl crc24ByteRef Cql.Crc.crc24Init).toNat

/-- the bytes fed to the CRC-32 in front of every payload (reference implementation; not in the document) -/
def crc32Seed : Bytes := [0xFA, 0x2D, 0x55, 0xCA]

/-- "Payload CRC32" (§2.1 item 6, §2.2 item 7): the standard (IEEE, reflected, complemented) CRC-32 of the seed bytes
    followed by the payload as transmitted -/
def crc32Seeded (payload : Bytes) : Nat := (Cql.Crc.crc32Update 0#32 (crc32Seed ++ payload)).toNat

/-- §2.1 "Uncompressed Format": a 6 byte header, the payload, its CRC32. -/
def specSegmentUncompressed (selfContained : Bool) (payload : Bytes) : Bytes :=
  -- §2.1 item 1 "Payload length (17 bits)" in bits 0–16, item 2 "isSelfContained flag (1 bit)" in bit 17,
  -- item 3 "Header padding (6 bits)" zero: 17 + 1 + 6 = 24 bits = 3 bytes
  let headerValue := payload.length + (if selfContained then 2 ^ 17 else 0)
  let headerBytes := leBytes 3 headerValue
  headerBytes
    ++ leBytes 3 (crc24OfBytes headerBytes)   -- §2.1 item 4 "CRC24 of the header (24 bits)"
    ++ payload                                -- §2.1 item 5 "Payload"
    ++ leBytes 4 (crc32Seeded payload)        -- §2.1 item 6 "Payload CRC32 (32 bits)"

/-- §2.2 "LZ4 Compressed Format": an 8 byte header, the payload as transmitted (`wire`), its CRC32.
    `uncompressedLength` is the value of the header's second field. -/
def specSegmentCompressed (selfContained : Bool) (wire : Bytes) (uncompressedLength : Nat) : Bytes :=
  -- §2.2 item 1 "Compressed length (17 bits)" in bits 0–16, item 2 "Uncompressed length (17 bits)" in bits 17–33,
  -- item 3 "isSelfContained flag (1 bit)" in bit 34, item 4 "Header padding (5 bits)" zero: 17+17+1+5 = 40 bits = 5 bytes
  let headerValue := wire.length + 2 ^ 17 * uncompressedLength + (if selfContained then 2 ^ 34 else 0)
  let headerBytes := leBytes 5 headerValue
  headerBytes
    ++ leBytes 3 (crc24OfBytes headerBytes)   -- §2.2 item 5 "CRC24 of Header contents (24 bits)"
    ++ wire                                   -- §2.2 item 6 "Compressed Payload"
    ++ leBytes 4 (crc32Seeded wire)           -- §2.2 item 7 "CRC32 of Compressed Payload (32 bits)" (l.131–132)

/-- §2.1 l.101 "The max size for the payload is 128KiB", item 5 "up to 2 ^ 17 - 1": the largest length 17 bits can carry -/
def maxPayloadLength : Nat := 2 ^ 17 - 1

end Cql.Spec
