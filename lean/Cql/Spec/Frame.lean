import Cql.Msg
import Cql.Spec.Notations
/-!
# The frame header and what precedes the message in a frame body, as the specification documents prescribe them

Written from §1 "Overview" and §2 "Frame header" (§2.4 "Frame Payload" in v5) of `/repo/specs/native_protocol_v2.spec`,
`…_v3.spec`, `…_v4.spec`, `…_v5.spec`, `dse_protocol_v1.spec`, `dse_protocol_v2.spec` — NOT from the Go code and not from
`Cql/Impl`. Plain arithmetic (`+`, `/`, `%`) instead of the bit operators the code uses, explicit lists instead of
the generated tables. `Cql/Lemmas/SpecFrame.lean` proves that the code-shaped model produces exactly these bytes and
accepts exactly these headers.

Version numbers are the low seven bits of the version byte: 2, 3, 4, 5, and for DSE "the next most significant bit must
be set to one to indicate that this is a dse private version": 0x41 (DSE v1), 0x42 (DSE v2).
(`dse_protocol_v2.spec` §2.1 still prints "0x41 / 0xC1 … (1 for the protocol defined in this document)", copied
from the v1 document; its title, its §10.2 and the v1 document make v2 = 0x42.)
-/
namespace Cql.Spec
open Cql

/-! ## versions -/

def versionV2 : Nat := 0x02     -- v2 §2.1 "0x02 Request frame for this protocol version"
def versionV3 : Nat := 0x03     -- v3 §2.1
def versionV4 : Nat := 0x04     -- v4 §2.1
def versionV5 : Nat := 0x05     -- v5 §2.4.1.1
def versionDse1 : Nat := 0x41   -- DSE v1 §2.1 "0x41 (0100 0001) Request frame for this dse protocol version"
def versionDse2 : Nat := 0x42   -- DSE v2

/-- the versions for which there is a document -/
def knownVersions : List Nat := [versionV2, versionV3, versionV4, versionV5, versionDse1, versionDse2]

/-- "The next most significant bit must be set to one to indicate that this is a dse private version" -/
def isDse (version : Nat) : Bool := version == versionDse1 || version == versionDse2

/-! ## §2.2 flags: "described by the mask that allows selecting them" -/

def flagCompression : Nat := 0x01    -- "0x01: Compression flag."
def flagTracing : Nat := 0x02        -- "0x02: Tracing flag."
def flagCustomPayload : Nat := 0x04  -- "0x04: Custom payload flag." (v4, v5, DSE)
def flagWarning : Nat := 0x08        -- "0x08: Warning flag." (v4, v5, DSE)
def flagUseBeta : Nat := 0x10        -- "0x10: Use beta flag." (v5, DSE)

/-- "A flag is set if the bit corresponding to its `mask` is set" (`mask` a power of two) -/
def flagSet (flags mask : Nat) : Bool := flags / mask % 2 == 1

/-! ## §2.4 opcodes: "An integer byte that distinguishes the actual message" -/

def opError : Nat := 0x00
def opStartup : Nat := 0x01
def opReady : Nat := 0x02
def opAuthenticate : Nat := 0x03
def opOptions : Nat := 0x05
def opSupported : Nat := 0x06
def opQuery : Nat := 0x07
def opResult : Nat := 0x08
def opPrepare : Nat := 0x09
def opExecute : Nat := 0x0A
def opRegister : Nat := 0x0B
def opEvent : Nat := 0x0C
def opBatch : Nat := 0x0D
def opAuthChallenge : Nat := 0x0E
def opAuthResponse : Nat := 0x0F
def opAuthSuccess : Nat := 0x10
/-- DSE v1 §2.4 "0xFF CANCEL", DSE v2 §2.4 "0xFF REVISE_REQUEST" -/
def opReviseRequest : Nat := 0xFF

/-- §4.1 "Requests": STARTUP, AUTH_RESPONSE, OPTIONS, QUERY, PREPARE, EXECUTE, BATCH, REGISTER (§4.1.1 – §4.1.8 of every
    document) -/
def requestOpcodesAll : List Nat :=
  [opStartup, opAuthResponse, opOptions, opQuery, opPrepare, opExecute, opBatch, opRegister]

/-- the requests of one version: DSE adds §4.1.9 CANCEL / REVISE_REQUEST -/
def requestOpcodes (version : Nat) : List Nat :=
  requestOpcodesAll ++ (if isDse version then [opReviseRequest] else [])

/-- §4.2 "Responses": ERROR, READY, AUTHENTICATE, SUPPORTED, RESULT, EVENT, AUTH_CHALLENGE, AUTH_SUCCESS (§4.2.1 – §4.2.8) -/
def responseOpcodes : List Nat :=
  [opError, opReady, opAuthenticate, opSupported, opResult, opEvent, opAuthChallenge, opAuthSuccess]

/-- the opcode list of §2.4 of one version -/
def declaredOpcodes (version : Nat) : List Nat := requestOpcodes version ++ responseOpcodes

/-! ## §1/§2: the header -/

/-- §2.1: "The most significant bit of version is used to define the direction of the message: 0 indicates a request,
    1 indicates a response. … The rest of that byte is the protocol version" — e.g. "0x04 Request frame", "0x84
    Response frame" -/
def versionByte (version : Nat) (isResponse : Bool) : Nat := version + (if isResponse then 0x80 else 0)

/-- §2.3 stream. v2: "A frame has a stream id (one signed byte)"; v3 and later: "A frame has a stream id (a [short] value)".
    The id is given as the 16-bit two's-complement pattern of the signed value; for v2 (values −128 … 127) its low byte
    is the signed byte. -/
def streamField (version streamId : Nat) : Bytes :=
  if version ≤ versionV2 then byte streamId else short streamId

/-- §1. v2: "Each frame contains a fixed size header (8 bytes)": version, flags, stream, opcode, length.
    v3+/DSE: "a fixed size header (9 bytes)": version, flags, stream (2 bytes), opcode, length.
    §2.5: "length: A 4 byte integer representing the length of the body of the frame". "The protocol is big-endian". -/
def header (version : Nat) (isResponse : Bool) (flags streamId opcode bodyLength : Nat) : Bytes :=
  byte (versionByte version isResponse) ++ byte flags ++ streamField version streamId ++ byte opcode ++ uint bodyLength

/-- §1: 8 bytes in v2, 9 bytes from v3 -/
def headerLength (version : Nat) : Nat := if version ≤ versionV2 then 8 else 9

/-! ## the header is well formed -/

/-- the version bits of a version byte: "the rest of that byte" -/
def versionOf (b0 : Nat) : Nat := b0 % 0x80
/-- the direction bit of a version byte: "1 indicates a response" -/
def isResponseByte (b0 : Nat) : Bool := b0 / 0x80 % 2 == 1

/-- A header obeys the specification: its version is one of the documented ones, its opcode is in the opcode list of
    that version, and the direction bit agrees with the section (§4.1 Requests / §4.2 Responses) that defines the
    message. -/
def HeaderOk (b0 opcode : Nat) : Prop :=
  versionOf b0 ∈ knownVersions ∧
  opcode ∈ declaredOpcodes (versionOf b0) ∧
  (if isResponseByte b0 then opcode ∈ responseOpcodes else opcode ∈ requestOpcodes (versionOf b0))

instance (b0 opcode : Nat) : Decidable (HeaderOk b0 opcode) := by unfold HeaderOk; infer_instance

/-- the same with the union of the opcode lists of all documents (0xFF allowed whatever the version) -/
def HeaderOkAnyVersion (b0 opcode : Nat) : Prop :=
  versionOf b0 ∈ knownVersions ∧
  (if isResponseByte b0 then opcode ∈ responseOpcodes else opcode ∈ requestOpcodesAll ++ [opReviseRequest])

instance (b0 opcode : Nat) : Decidable (HeaderOkAnyVersion b0 opcode) := by unfold HeaderOkAnyVersion; infer_instance

/-! ## §2.2: what precedes the message in the body -/

/-- an optional element of a layout, written `[<x>]` in the documents -/
def opt (present : Bool) (b : Bytes) : Bytes := if present then b else []

/-- the custom-payload and warning flags exist in v4, v5 and DSE (v2/v3 §2.2 end after the tracing flag: "The rest of
    the flags is currently unused and ignored") -/
def hasPayloadAndWarnings (version : Nat) : Bool := decide (version ≥ versionV4)

/-- 0x02: "If a response frame has the tracing flag set, its body contains a tracing ID. The tracing ID is a [uuid] and
    is the first thing in the frame body." (a request with the flag only asks for tracing: nothing in its body) -/
def tracingPresent (isResponse : Bool) (flags : Nat) : Bool := isResponse && flagSet flags flagTracing

/-- 0x08: "If a response frame has the warning flag set, its body will contain the text of the warnings." -/
def warningsPresent (version : Nat) (isResponse : Bool) (flags : Nat) : Bool :=
  hasPayloadAndWarnings version && isResponse && flagSet flags flagWarning

/-- 0x04: "For a request or response frame, this indicates that a generic key-value custom payload … is present" -/
def payloadPresent (version flags : Nat) : Bool := hasPayloadAndWarnings version && flagSet flags flagCustomPayload

/-- The order. Tracing id: "is the first thing in the frame body". Warnings: "The warnings are a [string list] and will
    be the first value in the frame body if the tracing flag is not set, or directly after the tracing ID if it is."
    Custom payload: "Type of custom payload is [bytes map]"; v5 §2.4.1.2: "If either or both of the tracing and warning
    flags are set, the custom payload will follow those indicated elements in the body. If neither are set, the custom
    payload will be the first value in the body." (v4 and DSE do not place the payload in words, but the warnings
    sentence leaves it no place except after the warnings.) Then "the rest of the body will then be the usual body
    corresponding to the response opcode". -/
def bodyPrefix (version : Nat) (isResponse : Bool) (flags : Nat) (b : Body) : Bytes :=
  opt (tracingPresent isResponse flags) (uuid (b.tracingId.getD [])) ++
  opt (warningsPresent version isResponse flags) (stringList (b.warnings.getD [])) ++
  opt (payloadPresent version flags) (bytesMap (b.customPayload.getD []))

end Cql.Spec
