import Cql.Msg
import Cql.Spec.Notations
import Cql.Spec.Features
/-!
# The bodies of the RESPONSE messages, as the specification documents lay them out

Written from `/repo/specs/native_protocol_v2.spec`, `…_v3.spec`, `…_v4.spec`, `…_v5.spec`, `dse_protocol_v1.spec`,
`dse_protocol_v2.spec` (§4.2 "Responses" and the "Error codes" section of each; the DSE documents are native v4 plus
the deltas they list) — NOT from the Go code and not from `Cql/Impl`. Every function is a total function
`version → message → Bytes` over the message structures of `Cql/Msg.lean`, built as a concatenation of the notations of
`Cql/Spec/Notations.lean`; every numeric constant (error code, result kind, option id, flag mask) and every string
constant is written here from the documents, independently of `Cql/Gen/Constants.lean`.
`Cql/Lemmas/SpecResponses.lean` proves that the code-shaped encoders of `Cql/Impl` produce exactly these bytes.

Conventions.
* `version` is the wire value: 2 3 4 5, 65 (DSE v1 = `0x41`), 66 (DSE v2 = `0x42`). Version tests are membership in
  explicit lists of the documents that have the feature; any other number has none of the optional features.
* The structures carry fixed-width integers as unsigned bit patterns, so an `[int]` field `n` is `uint n`.
* A nil slice / map denotes the empty one where the format has no null (`[string list]`, `[short bytes]`, counts).
* Where a structure holds something the documents give no layout for (a nil address, a nil column type, an unknown
  schema-change target) the function returns the empty string for that piece; the `Valid*` predicates exclude those.
-/
namespace Cql.Spec
open Cql

/-- the bytes of an ASCII literal of the documents -/
def respAscii (s : String) : Bytes := s.toList.map fun c => UInt8.ofNat c.toNat

/-! ## which document has what -/

/-- v3 §10 "Changes from v2" (new SCHEMA_CHANGE layout, UDT and tuple types); every later document keeps them -/
def respSince3 (v : Nat) : Bool := [3, 4, 5, 65, 66].contains v
/-- v4 §10 "Changes from v3" (`<pk_count>` in Prepared, FUNCTION / AGGREGATE targets, date / time / smallint / tinyint) -/
def respSince4 (v : Nat) : Bool := [4, 5, 65, 66].contains v
/-- option id 0x0015 Duration: v5 §4.2.5.2, DSE v1 / v2 §4.2.5.2 -/
def respHasDuration (v : Nat) : Bool := [5, 65, 66].contains v
/-- the DSE documents (continuous paging fields of Rows metadata) -/
def respIsDse (v : Nat) : Bool := [65, 66].contains v
/-- `<reasonmap>` instead of `<numfailures>`: v5 §8, DSE v1 / v2 §9 -/
def respHasReasonMap (v : Nat) : Bool := feature v .reasonMap == some true
/-- `<contentions>` in Write_timeout: v5 §8 only -/
def respHasContentions (v : Nat) : Bool := feature v .contentions == some true
/-- `<result_metadata_id>`, Metadata_changed, `<new_metadata_id>`: v5 §4.2.5, DSE v2 §10.2 -/
def respHasMetadataId (v : Nat) : Bool := feature v .resultMetadataId == some true

/-! ## addresses -/

/-- The IP address a Go `net.IP` value denotes. `net.IP` holds an IPv4 address either in 4 bytes or in the 16-byte
    IPv4-mapped form `::ffff:a.b.c.d` (that is what `net.IPv4` and `net.ParseIP` return, and `To4` recognises); both
    denote the 4-byte IPv4 address. Every other value denotes itself. -/
def ipOf (ip : Bytes) : Bytes :=
  if ip.length = 16 ∧ ip.take 12 = [0, 0, 0, 0, 0, 0, 0, 0, 0, 0, 0xff, 0xff] then ip.drop 12 else ip

/-- the signed value of a 32-bit pattern -/
def signed32 (n : Nat) : Int := if n < 2147483648 then (n : Int) else (n : Int) - 4294967296

/-- "[inet] An address (ip and port) to a node." — of a possibly-nil `*Inet` (nil denotes nothing) -/
def inetOf : Option Prim.Inet → Bytes
  | none => []
  | some i => inet (ipOf (i.addr.getD [])) (signed32 i.port)

/-! ## ERROR (§4.2.1; codes: v2 §8, v3 / v4 §9, v5 §8, DSE §9) -/

def strCas : Bytes := respAscii "CAS"

/-- "The supported error codes …" -/
def errorCode : ErrorMsg → Nat
  | .simple code _ => code
  | .unavailable .. => 0x1000       -- "0x1000    Unavailable exception."
  | .writeTimeout .. => 0x1100      -- "0x1100    Write_timeout"
  | .readTimeout .. => 0x1200       -- "0x1200    Read_timeout"
  | .readFailure .. => 0x1300       -- "0x1300    Read_failure" (v4+)
  | .functionFailure .. => 0x1400   -- "0x1400    Function_failure" (v4+)
  | .writeFailure .. => 0x1500      -- "0x1500    Write_failure" (v4+)
  | .alreadyExists .. => 0x2400     -- "0x2400    Already_exists"
  | .unprepared .. => 0x2500        -- "0x2500    Unprepared"

def errorMessage : ErrorMsg → Bytes
  | .simple _ m => m
  | .unavailable m .. => m
  | .readTimeout m .. => m
  | .writeTimeout m .. => m
  | .readFailure m .. => m
  | .writeFailure m .. => m
  | .functionFailure m .. => m
  | .unprepared m .. => m
  | .alreadyExists m .. => m

/-- the codes of every document for which nothing follows `<message>`: 0x0000 Server error, 0x000A Protocol error,
    0x0100 Bad credentials / Authentication error, 0x1001 Overloaded, 0x1002 Is_bootstrapping, 0x1003 Truncate_error,
    0x2000 Syntax_error, 0x2100 Unauthorized, 0x2200 Invalid, 0x2300 Config_error -/
def errorCodesBodyless : List Nat := [0x0000, 0x000A, 0x0100, 0x1001, 0x1002, 0x1003, 0x2000, 0x2100, 0x2200, 0x2300]

/-- the codes a document lists: v2 / v3 have neither Read_failure, Function_failure nor Write_failure (v4 §10:
    "Read_failure error code was added. Function_failure error code was added."); v5 adds 0x1600 CDC_WRITE_FAILURE and
    0x1700 CAS_WRITE_UNKNOWN; the DSE documents add 0x8000 Client_write_failure. -/
def errorCodeDefined (v code : Nat) : Bool :=
  errorCodesBodyless.contains code || [0x1000, 0x1100, 0x1200, 0x2400, 0x2500].contains code ||
  (respSince4 v && [0x1300, 0x1400, 0x1500].contains code) ||
  (v == 5 && [0x1600, 0x1700].contains code) || (respIsDse v && code == 0x8000)

/-- "<data_present> is a single byte. If its value is 0, it means the replica that was asked for data has not
    responded. Otherwise, the value is != 0." (the value written for "present" is 1) -/
def dataPresent (b : Bool) : Bytes := byte (if b then 1 else 0)

/-- "<reasonmap> … The map is encoded starting with an [int] n followed by n pairs of <endpoint><failurecode> where
    <endpoint> is an [inetaddr] and <failurecode> is a [short]." -/
def reasonMap (m : List Prim.FailureReason) : Bytes :=
  uint m.length ++ (m.map fun r => inetaddr (ipOf (r.endpoint.getD [])) ++ short r.code).flatten

/-- v4: "<numfailures> is an [int] representing the number of nodes that experience a failure"; v5 / DSE: `<reasonmap>`
    in its place -/
def failures (version numFailures : Nat) (reasons : Option (List Prim.FailureReason)) : Bytes :=
  if respHasReasonMap version then reasonMap (reasons.getD []) else uint numFailures

/-- what follows `<code><message>` -/
def errorBody (version : Nat) : ErrorMsg → Bytes
  | .simple _ _ => []
  -- "Unavailable exception. The rest of the ERROR message body will be <cl><required><alive>"
  | .unavailable _ cl required alive => consistency cl ++ uint required ++ uint alive
  -- "Read_timeout … <cl><received><blockfor><data_present>"
  | .readTimeout _ cl received blockFor dp => consistency cl ++ uint received ++ uint blockFor ++ dataPresent dp
  -- "Write_timeout … <cl><received><blockfor><writeType>"; v5: "<cl><received><blockfor><writeType><contentions> …
  -- <contentions> is a [short] … The field only presents when the <writeType> is "CAS"."
  | .writeTimeout _ cl received blockFor writeType contentions =>
    consistency cl ++ uint received ++ uint blockFor ++ string writeType ++
      (if respHasContentions version ∧ writeType = strCas then short contentions else [])
  -- "Read_failure … <cl><received><blockfor><numfailures><data_present>" (v5 / DSE: `<reasonmap>`)
  | .readFailure _ cl received blockFor numFailures reasons dp =>
    consistency cl ++ uint received ++ uint blockFor ++ failures version numFailures reasons ++ dataPresent dp
  -- "Write_failure … <cl><received><blockfor><numfailures><write_type>" (v5 / DSE: `<reasonmap>`)
  | .writeFailure _ cl received blockFor numFailures reasons writeType =>
    consistency cl ++ uint received ++ uint blockFor ++ failures version numFailures reasons ++ string writeType
  -- "Function_failure … <keyspace><function><arg_types> … <arg_types> [string list]"
  | .functionFailure _ keyspace function arguments =>
    string keyspace ++ string function ++ stringList (arguments.getD [])
  -- "Unprepared … The rest of the ERROR message body will be [short bytes] representing the unknown ID."
  | .unprepared _ id => shortBytes (id.getD [])
  -- "Already_exists … The rest of the ERROR message body will be <ks><table>" (two [string])
  | .alreadyExists _ keyspace table => string keyspace ++ string table

/-- §4.2.1: "The body of the message will be an error code ([int]) followed by a [string] error message. Then,
    depending on the exception, more content may follow." -/
def error (version : Nat) (e : ErrorMsg) : Bytes :=
  uint (errorCode e) ++ string (errorMessage e) ++ errorBody version e

/-! ## READY, AUTHENTICATE, SUPPORTED, AUTH_CHALLENGE, AUTH_SUCCESS -/

/-- §4.2.2: "The body of a READY message is empty." -/
def ready (_version : Nat) : Bytes := []
/-- §4.2.3: "The body consists of a single [string] indicating the full class name of the IAuthenticator in use." -/
def authenticate (_version : Nat) (authenticator : Bytes) : Bytes := string authenticator
/-- §4.2.4: "The body of a SUPPORTED message is a [string multimap]." -/
def supported (_version : Nat) (options : Option (List (Bytes × List Bytes))) : Bytes :=
  stringMultiMap (options.getD [])
/-- §4.2.7: "The body of this message is a single [bytes] token." -/
def authChallenge (_version : Nat) (token : Option Bytes) : Bytes := bytes token
/-- §4.2.8 (v2 / v3: §4.2.7): "The body of this message is a single [bytes] token" -/
def authSuccess (_version : Nat) (token : Option Bytes) : Bytes := bytes token

/-! ## the `[option]` type descriptors of column specifications (§4.2.5.2) -/

/-- the native-type ids ("in which case the option has no value") a document lists:
    v2: 0x0001 Ascii … 0x0010 Inet including 0x000A Text; v3 drops 0x000A Text (its table has no such line);
    v4 adds 0x0011 Date, 0x0012 Time, 0x0013 Smallint, 0x0014 Tinyint; v5 and DSE add 0x0015 Duration. -/
def nativeIdDefined (v id : Nat) : Bool :=
  [0x0001, 0x0002, 0x0003, 0x0004, 0x0005, 0x0006, 0x0007, 0x0008, 0x0009, 0x000B, 0x000C, 0x000D, 0x000E, 0x000F,
    0x0010].contains id ||
  (v == 2 && id == 0x000A) ||
  (respSince4 v && [0x0011, 0x0012, 0x0013, 0x0014].contains id) ||
  (respHasDuration v && id == 0x0015)

-- "[option]  A pair of <id><value> where <id> is a [short] representing the option id and <value> depends on that
-- option (and can be of size 0)." The layout of each id is the same in every document that has the id.
mutual
def optionT : DataType → Bytes
  -- "a native type (see below), in which case the option has no value"
  | .prim id => short id
  -- "0x0000    Custom: the value is a [string]"
  | .custom className => short 0x0000 ++ string className
  -- "0x0020    List: the value is an [option], representing the type of the elements of the list."
  | .list e => short 0x0020 ++ optionT e
  -- "0x0021    Map: the value is two [option], representing the types of the keys and values of the map"
  | .map k v => short 0x0021 ++ optionT k ++ optionT v
  -- "0x0022    Set: the value is an [option], representing the type of the elements of the set"
  | .set e => short 0x0022 ++ optionT e
  -- "0x0030    UDT: the value is <ks><udt_name><n><name_1><type_1>...<name_n><type_n>" with `<ks>`, `<udt_name>`
  -- [string], "<n> is a [short] representing the number of fields of the UDT", `<name_i>` [string], `<type_i>` [option]
  | .udt ks name names types =>
    short 0x0030 ++ string ks ++ string name ++ short names.length ++ optionUdtFields names types
  -- "0x0031    Tuple: the value is <n><type_1>...<type_n> where <n> is a [short] representing the number of values
  -- in the type, and <type_i> are [option]"
  | .tuple fs => short 0x0031 ++ short fs.length ++ optionList fs

def optionList : List DataType → Bytes
  | [] => []
  | t :: ts => optionT t ++ optionList ts

def optionUdtFields : List Bytes → List DataType → Bytes
  | [], _ => []
  | _ :: _, [] => []
  | n :: ns, t :: ts => string n ++ optionT t ++ optionUdtFields ns ts
end

-- whether every option id used by a type is listed by the document of that version (UDT 0x0030 and tuple 0x0031
-- exist from v3 on: they are absent from the v2 table)
mutual
def typeDefined (v : Nat) : DataType → Bool
  | .prim id => nativeIdDefined v id
  | .custom _ => true
  | .list e => typeDefined v e
  | .map k w => typeDefined v k && typeDefined v w
  | .set e => typeDefined v e
  | .udt _ _ _ types => respSince3 v && typeDefinedList v types
  | .tuple fs => respSince3 v && typeDefinedList v fs
def typeDefinedList (v : Nat) : List DataType → Bool
  | [] => true
  | t :: ts => typeDefined v t && typeDefinedList v ts
end

/-! ## Schema_change (RESULT §4.2.5.5 and EVENT §4.2.6 share the layout) -/

def strKeyspace : Bytes := respAscii "KEYSPACE"
def strTable : Bytes := respAscii "TABLE"
def strType : Bytes := respAscii "TYPE"
def strFunction : Bytes := respAscii "FUNCTION"
def strAggregate : Bytes := respAscii "AGGREGATE"

/-- v3+: "<options> depends on the preceding <target>" -/
def schemaChangeOptions (sc : SchemaChange) : Bytes :=
  -- "If <target> is "KEYSPACE", then <options> will be a single [string] representing the keyspace changed."
  if sc.target = strKeyspace then string sc.keyspace
  -- "If <target> is "TABLE" or "TYPE", then <options> will be 2 [string]: the first one will be the keyspace
  -- containing the affected object, and the second one will be the name of said affected object"
  else if sc.target = strTable ∨ sc.target = strType then string sc.keyspace ++ string sc.object
  -- v4+: "If <target> is "FUNCTION" or "AGGREGATE", multiple arguments follow: [string] keyspace containing the user
  -- defined function / aggregate, [string] the function/aggregate name, [string list] one string for each argument type"
  else if sc.target = strFunction ∨ sc.target = strAggregate then
    string sc.keyspace ++ string sc.object ++ stringList (sc.arguments.getD [])
  else []

def schemaChangeBody (version : Nat) (sc : SchemaChange) : Bytes :=
  -- v3+: "<change_type><target><options>", `<change_type>` and `<target>` [string]
  if respSince3 version then string sc.changeType ++ string sc.target ++ schemaChangeOptions sc
  -- v2: "composed of 3 [string]: <change><keyspace><table> … <table> will be empty (i.e. the empty string "") if the
  -- change was affecting a keyspace and not a table."
  else string sc.changeType ++ string sc.keyspace ++ string (if sc.target = strKeyspace then [] else sc.object)

/-! ## EVENT (§4.2.6) -/

def eventType : EventMsg → Bytes
  | .topologyChange .. => respAscii "TOPOLOGY_CHANGE"
  | .statusChange .. => respAscii "STATUS_CHANGE"
  | .schemaChange _ => respAscii "SCHEMA_CHANGE"

def eventBody (version : Nat) : EventMsg → Bytes
  -- "TOPOLOGY_CHANGE … The body of the message (after the event type) consists of a [string] and an [inet],
  -- corresponding respectively to the type of change … followed by the address of the new/removed node."
  | .topologyChange t a => string t ++ inetOf a
  -- "STATUS_CHANGE … consists of a [string] and an [inet], corresponding respectively to the type of status change
  -- ("UP" or "DOWN") followed by the address of the concerned node."
  | .statusChange t a => string t ++ inetOf a
  | .schemaChange sc => schemaChangeBody version sc

/-- "The body of an EVENT message will start with a [string] representing the event type. The rest of the message
    depends on the event type." -/
def event (version : Nat) (e : EventMsg) : Bytes := string (eventType e) ++ eventBody version e

/-! ## RESULT (§4.2.5) -/

/-- "only one table spec (keyspace and table name)": every column belongs to the keyspace and table of the first.
    (Whether to use the global form is the sender's choice; this is the condition under which it is possible, and the
    structures have no separate field for it.) -/
def sameTable : List ColumnMetadata → Bool
  | [] => false
  | c :: cs => cs.all fun d => d.keyspace == c.keyspace && d.table == c.table

/-- "<global_table_spec> … is composed of two [string] representing the (unique) keyspace name and table name the
    columns belong to." -/
def globalTableSpec : List ColumnMetadata → Bytes
  | [] => []
  | c :: _ => string c.keyspace ++ string c.table

/-- "(<ksname><tablename>)?<name><type>  The initial <ksname> and <tablename> are two [string] and are only present if
    the Global_tables_spec flag is not set. The <column_name> is a [string] and <type> is an [option]" -/
def colSpec (global : Bool) (c : ColumnMetadata) : Bytes :=
  (if global then [] else string c.keyspace ++ string c.table) ++ string c.name ++
    (match c.type with | some t => optionT t | none => [])

/-- "[<global_table_spec>?<col_spec_1>...<col_spec_n>]" -/
def colSpecs (global : Bool) (cols : List ColumnMetadata) : Bytes :=
  (if global then globalTableSpec cols else []) ++ (cols.map (colSpec global)).flatten

/-- a bit pattern is a positive `int32` -/
def positive32 (n : Nat) : Bool := decide (0 < n ∧ n < 2147483648)

/-- `<metadata>` of Rows / `<result_metadata>` of Prepared:
    "<flags><columns_count>[<paging_state>][<global_table_spec>?<col_spec_1>...<col_spec_n>]" (v2–v4),
    v5: "…[<paging_state>][<new_metadata_id>][<global_table_spec>?…]",
    DSE v1: "…[<paging_state>][<continuous_page_no>][<global_table_spec>?…]",
    DSE v2: "…[<paging_state>][<new_metadata_id>][<continuous_page_no>][<global_table_spec>?…]".
    Which flags a `RowsMetadata` value stands for: no column specifications = No_metadata; a paging state = Has_more_pages;
    a new result metadata id = Metadata_changed; a positive page number = continuous paging. -/
def rowsMetadata (version : Nat) (m : RowsMetadata) : Bytes :=
  let cols := m.columns.getD []
  let noMetadata := cols.isEmpty
  let global := sameTable cols
  let more := m.pagingState.isSome
  let changed := respHasMetadataId version && m.newResultMetadataId.isSome
  let continuous := respIsDse version && positive32 m.continuousPageNumber
  let last := continuous && m.lastContinuousPage
  -- "<flags> is an [int]. … A flag is set if the bit corresponding to its `mask` is set."
  uint (flagBits [
      (global, 0x0001),           -- "0x0001    Global_tables_spec"
      (more, 0x0002),             -- "0x0002    Has_more_pages … If set, the <paging_state> will be present."
      (noMetadata, 0x0004),       -- "0x0004    No_metadata: … no <global_table_spec> nor <col_spec_i>"
      (changed, 0x0008),          -- v5 / DSE v2: "0x0008    Metadata_changed: … <new_metadata_id> has to be supplied"
      (continuous, 0x40000000),   -- DSE: "0x40000000 continuous paging: … <continuous_page_no> will be present"
      (last, 0x80000000)]) ++     -- DSE: "0x80000000 Last_continuous_page"
  -- "<columns_count> is an [int] representing the number of columns selected by the query"
  uint m.columnCount ++
  -- "The <paging_state> is a [bytes] value"
  (if more then bytes m.pagingState else []) ++
  -- "<new_metadata_id> is [short bytes] representing the new, changed resultset metadata."
  (if changed then shortBytes (m.newResultMetadataId.getD []) else []) ++
  -- "<continuous_page_no> … is an [int] that identifies the sequential number of this page in the session"
  (if continuous then uint m.continuousPageNumber else []) ++
  (if noMetadata then [] else colSpecs global cols)

/-- a nil `*RowsMetadata`: "<result_metadata> may be empty (have the No_metadata flag and 0 columns" -/
def rowsMetadataOpt (version : Nat) : Option RowsMetadata → Bytes
  | none => uint 0x0004 ++ uint 0
  | some m => rowsMetadata version m

/-- `<metadata>` of Prepared. v4+: "<flags><columns_count><pk_count>[<pk_index_1>...<pk_index_n>][<global_table_spec>?
    <col_spec_1>...<col_spec_n>]" with `<flags>`, `<columns_count>`, `<pk_count>` [int], "<pk_index_i> is a short";
    v2 / v3: "<metadata> is defined exactly as for a Rows RESULT (… you can however assume that the Has_more_pages flag
    is always off)", i.e. `<flags><columns_count>[<global_table_spec>?<col_spec_1>...<col_spec_n>]`. -/
def variablesMetadata (version : Nat) (m : VariablesMetadata) : Bytes :=
  let cols := m.columns.getD []
  let global := sameTable cols
  let pk := m.pkIndices.getD []
  uint (flagBits [(global, 0x0001)]) ++ uint cols.length ++
  (if respSince4 version then uint pk.length ++ (pk.map short).flatten else []) ++
  colSpecs global cols

/-- a nil `*VariablesMetadata`: no bind markers -/
def variablesMetadataOpt (version : Nat) : Option VariablesMetadata → Bytes
  | none => uint 0 ++ uint 0 ++ (if respSince4 version then uint 0 else [])
  | some m => variablesMetadata version m

/-- "<rows_count> is an [int] … <rows_content> is composed of <row_1>...<row_m> … Each <row_i> is composed of
    <value_1>...<value_n> … where <value_j> is a [bytes]" -/
def rowsContent (data : List (Option (List (Option Bytes)))) : Bytes :=
  uint data.length ++ (data.map fun row => ((row.getD []).map bytes).flatten).flatten

/-- "The first element of the body of a RESULT message is an [int] representing the `kind` of result." -/
def resultKind : ResultMsg → Nat
  | .void => 0x0001              -- "0x0001    Void"
  | .rows .. => 0x0002           -- "0x0002    Rows"
  | .setKeyspace _ => 0x0003     -- "0x0003    Set_keyspace"
  | .prepared .. => 0x0004       -- "0x0004    Prepared"
  | .schemaChange _ => 0x0005    -- "0x0005    Schema_change"

def resultBody (version : Nat) : ResultMsg → Bytes
  -- §4.2.5.1: "The rest of the body for a Void result is empty."
  | .void => []
  -- §4.2.5.2: "<metadata><rows_count><rows_content>"
  | .rows metadata data => rowsMetadataOpt version metadata ++ rowsContent (data.getD [])
  -- §4.2.5.3: "a single [string] indicating the name of the keyspace that has been set"
  | .setKeyspace ks => string ks
  -- §4.2.5.4: "<id><metadata><result_metadata>" — v5 / DSE v2: "<id><result_metadata_id><metadata><result_metadata>";
  -- "<id> is [short bytes] representing the prepared query ID", "<result_metadata_id> is [short bytes]"
  | .prepared id resultMetadataId variables result =>
    shortBytes (id.getD []) ++
    (if respHasMetadataId version then shortBytes (resultMetadataId.getD []) else []) ++
    variablesMetadataOpt version variables ++ rowsMetadataOpt version result
  -- §4.2.5.5: "the same as the body for a "SCHEMA_CHANGE" event"
  | .schemaChange sc => schemaChangeBody version sc

def result (version : Nat) (r : ResultMsg) : Bytes := uint (resultKind r) ++ resultBody version r

end Cql.Spec
