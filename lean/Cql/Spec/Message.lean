import Cql.Spec.Frame
import Cql.Spec.Requests
import Cql.Spec.Responses
/-!
# The frame as the specification documents lay it out (§2 header, §2.2 optional body parts, §4 message bodies)

Assembled from the per-message functions of `Cql/Spec/Requests.lean` and `Cql/Spec/Responses.lean`.
-/
namespace Cql.Spec
open Cql

/-- the message body §4 prescribes for the message in the given version -/
def messageBody (version : Nat) : Msg → Bytes
  | .ready => ready version
  | .authenticate a => authenticate version a
  | .supported o => supported version o
  | .authChallenge t => authChallenge version t
  | .authSuccess t => authSuccess version t
  | .error e => error version e
  | .result r => result version r
  | .event e => event version e
  | m => (requestBody version m).getD []

/-- "the frame body": optional tracing id / warnings / custom payload, then the message -/
def frameBody (h : Header) (b : Body) : Bytes :=
  bodyPrefix h.version h.isResponse h.flags b ++ messageBody h.version b.message

/-- a whole uncompressed frame: the header, whose length field is the body's length, then the body -/
def frame (f : Frame) : Bytes :=
  header f.header.version f.header.isResponse f.header.flags f.header.streamId f.header.opCode
    (frameBody f.header f.body).length ++ frameBody f.header f.body

end Cql.Spec
