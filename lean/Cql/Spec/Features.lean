/-
Per-version feature table transcribed from /repo/specs (native_protocol_v2..v5.spec, dse_protocol_v1..v2.spec).
Written from the documents, independently of primitive/constants.go. `none` = the documents are silent
or inconsistent for that version, and the code is not judged there.
Versions are the wire values: 2 3 4 5, 65 (DSE v1), 66 (DSE v2).
-/
namespace Cql.Spec

inductive Feature where
  | collLen4            -- collection sizes/element lengths are [int]      (v3 §10 "Changes from v2")
  | queryFlags4         -- QUERY/EXECUTE/BATCH flags are [int]            (v5 §9; DSE specs §4.1.4)
  | batchFlags          -- BATCH has <flags>                              (v3 §10)
  | prepareFlags        -- PREPARE has [int] flags                        (v5 §9; DSE v1 §10 "does not"; DSE v2 §10.2)
  | resultMetadataId    -- result_metadata_id                             (v5 §9; DSE v2 §10.2)
  | reasonMap           -- <reasonmap> replaces <numfailures>             (v5 §9; DSE v1/v2 §9)
  | contentions         -- <contentions> in Write_timeout                 (v5 §9 only)
  | modernFraming       -- checksummed segments                           (v5 §2 only)
  | unsetValues         -- [value] length -2                              (v4 §3)
  | snappy              -- snappy body compression                        (all but v5 §5)
  | lz4
  | noCompression
  | qfValues | qfSkipMetadata | qfPageSize | qfPagingState | qfSerialConsistency
  | qfDefaultTimestamp  -- v3 §10
  | qfValueNames        -- v3 §10
  | qfKeyspace          -- v5 §9, DSE v2 §10.2, DSE v1 §10 "does not"
  | qfNowInSeconds      -- v5 §9 (DSE specs have no now_in_seconds)
  | qfDsePageSizeBytes | qfDseContinuousPaging   -- DSE v1 §4.1.4
  | sctKeyspace | sctTable
  | sctType             -- v3 §10
  | sctFunction | sctAggregate   -- v4 §10
  | tcNewNode | tcRemovedNode
  | tcMovedNode         -- listed by v3 §4.2.6 only; v4/v5/DSE documents omit it: not judged there
  | reviseCancel        -- DSE v1 §4.1.9
  | reviseMorePages     -- DSE v2 §10.2
  | header9             -- 9-byte header (2-byte stream id)               (v3 §10)
  deriving DecidableEq, Repr

def Feature.all : List Feature :=
  [.collLen4, .queryFlags4, .batchFlags, .prepareFlags, .resultMetadataId, .reasonMap, .contentions,
   .modernFraming, .unsetValues, .snappy, .lz4, .noCompression, .qfValues, .qfSkipMetadata, .qfPageSize,
   .qfPagingState, .qfSerialConsistency, .qfDefaultTimestamp, .qfValueNames, .qfKeyspace, .qfNowInSeconds,
   .qfDsePageSizeBytes, .qfDseContinuousPaging, .sctKeyspace, .sctTable, .sctType, .sctFunction,
   .sctAggregate, .tcNewNode, .tcRemovedNode, .tcMovedNode, .reviseCancel, .reviseMorePages, .header9]

def versions : List Nat := [2, 3, 4, 5, 65, 66]

/-- helper: table row in the order v2 v3 v4 v5 dse1 dse2 -/
def row (v : Nat) (r : List (Option Bool)) : Option Bool :=
  match v with
  | 2 => r.getD 0 none | 3 => r.getD 1 none | 4 => r.getD 2 none | 5 => r.getD 3 none
  | 65 => r.getD 4 none | 66 => r.getD 5 none | _ => none

private def T : Option Bool := some true
private def F : Option Bool := some false

def feature (v : Nat) : Feature → Option Bool
  | .collLen4 => row v [F, T, T, T, T, T]
  | .queryFlags4 => row v [F, F, F, T, T, T]
  | .batchFlags => row v [F, T, T, T, T, T]
  | .prepareFlags => row v [F, F, F, T, F, T]
  | .resultMetadataId => row v [F, F, F, T, F, T]
  | .reasonMap => row v [F, F, F, T, T, T]
  | .contentions => row v [F, F, F, T, F, F]
  | .modernFraming => row v [F, F, F, T, F, F]
  | .unsetValues => row v [F, F, T, T, T, T]
  | .snappy => row v [T, T, T, F, T, T]
  | .lz4 => row v [T, T, T, T, T, T]
  | .noCompression => row v [T, T, T, T, T, T]
  | .qfValues | .qfSkipMetadata | .qfPageSize | .qfPagingState | .qfSerialConsistency => row v [T, T, T, T, T, T]
  | .qfDefaultTimestamp => row v [F, T, T, T, T, T]
  | .qfValueNames => row v [F, T, T, T, T, T]
  | .qfKeyspace => row v [F, F, F, T, F, T]
  | .qfNowInSeconds => row v [F, F, F, T, F, F]
  | .qfDsePageSizeBytes | .qfDseContinuousPaging => row v [F, F, F, F, T, T]
  | .sctKeyspace | .sctTable => row v [T, T, T, T, T, T]
  | .sctType => row v [F, T, T, T, T, T]
  | .sctFunction | .sctAggregate => row v [F, F, T, T, T, T]
  | .tcNewNode | .tcRemovedNode => row v [T, T, T, T, T, T]
  | .tcMovedNode => row v [F, T, none, none, none, none]
  | .reviseCancel => row v [F, F, F, F, T, T]
  | .reviseMorePages => row v [F, F, F, F, F, T]
  | .header9 => row v [F, T, T, T, T, T]

end Cql.Spec
