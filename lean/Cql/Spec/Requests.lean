import Cql.Msg
import Cql.Spec.Notations
import Cql.Spec.Frame
/-!
# The request messages, as the specification documents prescribe them

Written from §4.1 "Requests" of `/repo/specs/native_protocol_v2.spec`, `…_v3.spec`, `…_v4.spec`, `…_v5.spec`,
`dse_protocol_v1.spec`, `dse_protocol_v2.spec` — NOT from the Go code and not from `Cql/Impl`: each function is the
body layout the document prints (`<a><b>[<c>]…`), every element in the notation the document names, `if version …`
where the documents differ. Total functions `version → fields → Bytes` over the message structures of `Cql/Msg.lean`.
`Cql/Lemmas/SpecRequests.lean` proves that the code-shaped encoders produce exactly these bytes.

How the Go structures denote what the documents talk about (these are reading conventions, not layout):
an optional element is present iff its field is set (pointer/slice non-nil, string non-empty, `PageSize > 0`); a nil
`Options` pointer stands for the zero options; a nil map / list stands for the empty one; a `Value` whose contents are nil
is the null value.
-/
namespace Cql.Spec
open Cql

/-! ## which version has what (§10 "Changes" of each document and the layouts themselves) -/

/-- QUERY §4.1.4 / BATCH §4.1.7: v2, v3, v4 "<flags> is a [byte]"; v5, DSE v1, DSE v2 "<flags> is a [int]" -/
def flagsAreInt (version : Nat) : Bool := version == versionV5 || isDse version
/-- v3 §10: "QUERY, EXECUTE and BATCH messages can now optionally provide the default timestamp", "…the names for the
    values": flags 0x20 and 0x40 are absent from v2 §4.1.4 -/
def hasTimestampAndNames (version : Nat) : Bool := decide (version ≥ versionV3)
/-- <keyspace>: v5 §4.1.4/§4.1.5/§4.1.7 flag 0x80 / 0x01; DSE v2 §10.2 "Added keyspace field in QUERY, PREPARE, and BATCH
    messages"; DSE v1 §10 "Does _not_ have keyspace field" -/
def hasKeyspace (version : Nat) : Bool := version == versionV5 || version == versionDse2
/-- <now_in_seconds>: v5 only (flag 0x0100); the DSE documents have no such flag -/
def hasNowInSeconds (version : Nat) : Bool := version == versionV5
/-- PREPARE <flags>: v5 §4.1.5; DSE v2 §10.2 "Added [int] flags field in PREPARE message"; DSE v1 §10 "Does _not_ have
    [int] flags field in PREPARE message" -/
def hasPrepareFlags (version : Nat) : Bool := version == versionV5 || version == versionDse2
/-- EXECUTE <result_metadata_id>: v5 §4.1.6; DSE v2 §10.2 "Added <result_metadata_id> to … EXECUTE request" -/
def hasResultMetadataId (version : Nat) : Bool := version == versionV5 || version == versionDse2
/-- BATCH <flags>: v3 §4.1.7; v2 §4.1.7 ends with <consistency> -/
def hasBatchFlags (version : Nat) : Bool := decide (version ≥ versionV3)
/-- v4 §3 [value]: "If n == -2 no byte should follow and the value represented is `not set`"; v2, v3: bound values are
    "[bytes]" -/
def hasValueNotation (version : Nat) : Bool := decide (version ≥ versionV4)
/-- DSE v2 §10.2 "Added [next_pages] to continuous paging QUERY messages", "added revision type 2" -/
def hasNextPages (version : Nat) : Bool := version == versionDse2

/-- <flags> of QUERY, EXECUTE, BATCH -/
def flagsField (version flags : Nat) : Bytes := if flagsAreInt version then uint flags else byte flags

/-! ## bound values -/

/-- what a Go `*primitive.Value` denotes: regular contents, null (also: regular with nil contents), or "not set" -/
def valOf : Option Prim.Value → Val
  | some (.regular (some b)) => .bytes b
  | some .unset => .unset
  | _ => .null

/-- a value as a [bytes]: contents, or null (v2 / v3 have no "not set") -/
def asBytes : Val → Option Bytes
  | .bytes b => some b
  | _ => none

/-- one bound value: a [value] from v4, a [bytes] in v2 / v3 -/
def boundValue (version : Nat) (v : Val) : Bytes :=
  if hasValueNotation version then value v else bytes (asBytes v)

/-- "a [short] <n> followed by <n> [value] values" -/
def positionalValues (version : Nat) (vs : List (Option Prim.Value)) : Bytes :=
  short vs.length ++ (vs.map fun v => boundValue version (valOf v)).flatten

/-- "if the 0x40 flag is present, each value will be preceded by a [string] name": <n>[name_1]<value_1>… -/
def namedValues (version : Nat) (vs : List (Bytes × Option Prim.Value)) : Bytes :=
  short vs.length ++ (vs.map fun p => string p.1 ++ boundValue version (valOf p.2)).flatten

/-! ## §4.1.1 STARTUP, §4.1.2 AUTH_RESPONSE, §4.1.3 OPTIONS, §4.1.8 REGISTER -/

/-- "The body is a [string map] of options." -/
def startup (_version : Nat) (options : Option (List (Bytes × Bytes))) : Bytes := stringMap (options.getD [])

/-- "The body of this message is a single [bytes] token." -/
def authResponse (_version : Nat) (token : Option Bytes) : Bytes := bytes token

/-- "The body of an OPTIONS message should be empty" -/
def options (_version : Nat) : Bytes := []

/-- "The body of the message is a [string list] representing the event types to register for." -/
def register (_version : Nat) (eventTypes : Option (List Bytes)) : Bytes := stringList (eventTypes.getD [])

/-! ## §4.1.4 QUERY: `<query><query_parameters>` -/

-- "Supported flags are, given their mask:"
def qfValues : Nat := 0x01              -- "0x01: Values."
def qfSkipMetadata : Nat := 0x02        -- "0x02: Skip_metadata."
def qfPageSize : Nat := 0x04            -- "0x04: Page_size."
def qfPagingState : Nat := 0x08         -- "0x08: With_paging_state."
def qfSerialConsistency : Nat := 0x10   -- "0x10: With serial consistency."
def qfDefaultTimestamp : Nat := 0x20    -- "0x20: With default timestamp." (v3+)
def qfNamesForValues : Nat := 0x40      -- "0x40: With names for values." (v3+)
def qfKeyspace : Nat := 0x80            -- "0x0080: With keyspace." (v5, DSE v2)
def qfNowInSeconds : Nat := 0x0100      -- "0x0100: With now in seconds." (v5)
def qfPageSizeBytes : Nat := 0x40000000 -- "0x40000000: Page_size_bytes." (DSE)
def qfContinuousPaging : Nat := 0x80000000  -- "0x80000000: With continuous paging." (DSE)

/-- 0x01 Values: bound values are given, by position or by name -/
def qpValues (o : QueryOptions) : Bool := o.positionalValues.isSome || o.namedValues.isSome
/-- 0x40 With names for values (v3+) -/
def qpNames (version : Nat) (o : QueryOptions) : Bool := hasTimestampAndNames version && o.namedValues.isSome
/-- 0x04 Page_size: "<result_page_size> is a positive [int]" (DSE wording); a non-positive `PageSize` means no paging -/
def qpPageSize (o : QueryOptions) : Bool := decide (0 < o.pageSize ∧ o.pageSize < 2147483648)
def qpTimestamp (version : Nat) (o : QueryOptions) : Bool := hasTimestampAndNames version && o.defaultTimestamp.isSome
def qpKeyspace (version : Nat) (o : QueryOptions) : Bool := hasKeyspace version && o.keyspace != []
def qpNow (version : Nat) (o : QueryOptions) : Bool := hasNowInSeconds version && o.nowInSeconds.isSome
/-- 0x40000000 "If set, <result_page_size> is expressed in bytes." -/
def qpPageSizeBytes (version : Nat) (o : QueryOptions) : Bool := isDse version && (qpPageSize o && o.pageSizeInBytes)
def qpContinuous (version : Nat) (o : QueryOptions) : Bool := isDse version && o.continuousPagingOptions.isSome

/-- "<flags> … whose bits define the options for this query … A flag is set if the bit corresponding to its `mask` is
    set": one bit per element that is present -/
def queryFlags (version : Nat) (o : QueryOptions) : Nat :=
  flagBits [(qpValues o, qfValues), (o.skipMetadata, qfSkipMetadata), (qpPageSize o, qfPageSize),
    (o.pagingState.isSome, qfPagingState), (o.serialConsistency.isSome, qfSerialConsistency),
    (qpTimestamp version o, qfDefaultTimestamp), (qpNames version o, qfNamesForValues),
    (qpKeyspace version o, qfKeyspace), (qpNow version o, qfNowInSeconds),
    (qpPageSizeBytes version o, qfPageSizeBytes), (qpContinuous version o, qfContinuousPaging)]

/-- DSE v1 §4.1.4 0x80000000: "<max_num_pages>, an [int] …", "<pages_per_second>, an [int] …"; DSE v2 adds
    "<next_pages>, an [int] indicating the number of pages that the client is ready to receive" -/
def continuousPagingOptions (version : Nat) (c : ContinuousPagingOptions) : Bytes :=
  uint c.maxPages ++ uint c.pagesPerSecond ++ opt (hasNextPages version) (uint c.nextPages)

/-- "[<n>[name_1]<value_1>...[name_n]<value_n>]" -/
def qpValuesField (version : Nat) (o : QueryOptions) : Bytes :=
  if qpNames version o then namedValues version (o.namedValues.getD [])
  else positionalValues version (o.positionalValues.getD [])

/-- `<query_parameters>`:
    v2     `<consistency><flags>[<n><value_1>...<value_n>][<result_page_size>][<paging_state>][<serial_consistency>]`
    v3, v4 `…[<serial_consistency>][<timestamp>]`
    v5     `…[<serial_consistency>][<timestamp>][<keyspace>][<now_in_seconds>]`
    DSE v1 `…[<serial_consistency>][<timestamp>][continuous_paging_options]`
    DSE v2 `…[<serial_consistency>][<timestamp>][<keyspace>][continuous_paging_options]`
    "<consistency> is the [consistency] level", "<result_page_size> is an [int]", "<paging_state> is a [bytes] value",
    "<serial_consistency> is the [consistency] level for the serial phase", "<timestamp> is a [long]",
    "<keyspace> is a [string]", "<now_in_seconds> is an [int]". -/
def queryParameters (version : Nat) (o : QueryOptions) : Bytes :=
  consistency o.consistency ++ flagsField version (queryFlags version o) ++
  opt (qpValues o) (qpValuesField version o) ++
  opt (qpPageSize o) (uint o.pageSize) ++
  opt o.pagingState.isSome (bytes o.pagingState) ++
  opt o.serialConsistency.isSome (consistency (o.serialConsistency.getD 0)) ++
  opt (qpTimestamp version o) (ulong (o.defaultTimestamp.getD 0)) ++
  opt (qpKeyspace version o) (string o.keyspace) ++
  opt (qpNow version o) (uint (o.nowInSeconds.getD 0)) ++
  opt (qpContinuous version o) (continuousPagingOptions version (o.continuousPagingOptions.getD ⟨0, 0, 0⟩))

/-- "The body of the message must be: <query><query_parameters> where <query> is a [long string]" -/
def query (version : Nat) (q : Bytes) (opts : Option QueryOptions) : Bytes :=
  longString q ++ queryParameters version (opts.getD QueryOptions.default)

/-- The message uses only elements its version defines (the layouts above simply have no place for the others). -/
structure QueryFieldsDefined (version : Nat) (o : QueryOptions) : Prop where
  timestamp : o.defaultTimestamp.isSome = true → hasTimestampAndNames version = true
  names : o.namedValues.isSome = true → hasTimestampAndNames version = true
  keyspace : (o.keyspace != []) = true → hasKeyspace version = true
  now : o.nowInSeconds.isSome = true → hasNowInSeconds version = true
  pageSizeBytes : (qpPageSize o && o.pageSizeInBytes) = true → isDse version = true
  continuous : o.continuousPagingOptions.isSome = true → isDse version = true

/-! ## §4.1.5 PREPARE -/

def pfKeyspace : Nat := 0x01   -- "0x01: With keyspace."

/-- v2, v3, v4, DSE v1: "The body consists of the CQL query to prepare as a [long string]."
    v5, DSE v2: "<query><flags>[<keyspace>] … <flags> is a [int] … 0x01: With keyspace. If set, <keyspace> must be
    present. <keyspace> is a [string]" -/
def prepare (version : Nat) (q keyspace : Bytes) : Bytes :=
  longString q ++
  opt (hasPrepareFlags version) (uint (flagBits [(keyspace != [], pfKeyspace)]) ++ opt (keyspace != []) (string keyspace))

/-! ## §4.1.6 EXECUTE -/

/-- v2 – v4, DSE v1: "<id><query_parameters> where <id> is the prepared query ID. It's the [short bytes] returned as a
    response to a PREPARE message"; v5, DSE v2: "<id><result_metadata_id><query_parameters>" -/
def execute (version : Nat) (queryId resultMetadataId : Option Bytes) (opts : Option QueryOptions) : Bytes :=
  shortBytes (queryId.getD []) ++ opt (hasResultMetadataId version) (shortBytes (resultMetadataId.getD [])) ++
  queryParameters version (opts.getD QueryOptions.default)

/-! ## §4.1.7 BATCH -/

/-- `<query_i>`: "<kind><string_or_id><n>[<name_1>]<value_1>...[<name_n>]<value_n>": "<kind> is a [byte] … If <kind> == 0,
    it should be a [long string] query string … Otherwise (that is, if <kind> == 1), it should be a [short bytes]
    representing a prepared query ID. <n> is a [short] indicating the number (possibly 0) of following values."
    (names: "this feature does not work and should not be used" — never written). A child is a prepared one iff it
    carries an id. -/
def batchChild (version : Nat) (c : BatchChild) : Bytes :=
  (if c.id.getD [] != [] then byte 1 ++ shortBytes (c.id.getD []) else byte 0 ++ longString c.query) ++
  positionalValues version (c.values.getD [])

def batchKeyspace (version : Nat) (b : Batch) : Bool := hasKeyspace version && b.keyspace != []
def batchNow (version : Nat) (b : Batch) : Bool := hasNowInSeconds version && b.nowInSeconds.isSome

/-- "It is similar to the <flags> from QUERY and EXECUTE methods, except that the 4 rightmost bits must always be 0":
    0x10 serial consistency, 0x20 default timestamp, (0x40 never), 0x80 keyspace (v5, DSE v2), 0x0100 now in seconds (v5) -/
def batchFlags (version : Nat) (b : Batch) : Nat :=
  flagBits [(b.serialConsistency.isSome, qfSerialConsistency), (b.defaultTimestamp.isSome, qfDefaultTimestamp),
    (batchKeyspace version b, qfKeyspace), (batchNow version b, qfNowInSeconds)]

/-- v2     `<type><n><query_1>...<query_n><consistency>`
    v3, v4, DSE v1 `…<consistency><flags>[<serial_consistency>][<timestamp>]`
    DSE v2 `…<flags>[<serial_consistency>][<timestamp>][<keyspace>]`
    v5     `…<flags>[<serial_consistency>][<timestamp>][<keyspace>][<now_in_seconds>]`
    "<type> is a [byte]", "<n> is a [short] indicating the number of following queries" -/
def batch (version : Nat) (b : Batch) : Bytes :=
  byte b.type ++ short (b.children.getD []).length ++ ((b.children.getD []).map (batchChild version)).flatten ++
  consistency b.consistency ++
  opt (hasBatchFlags version)
    (flagsField version (batchFlags version b) ++
     opt b.serialConsistency.isSome (consistency (b.serialConsistency.getD 0)) ++
     opt b.defaultTimestamp.isSome (ulong (b.defaultTimestamp.getD 0)) ++
     opt (batchKeyspace version b) (string b.keyspace) ++
     opt (batchNow version b) (uint (b.nowInSeconds.getD 0)))

/-! ## DSE §4.1.9 CANCEL (v1) / REVISE_REQUEST (v2) -/

def reviseCancel : Nat := 0x00000001     -- "0x00000001 to cancel a continuous paging session"
def reviseMorePages : Nat := 0x00000002  -- "0x00000002 to request more pages for a continuous paging session" (DSE v2)

/-- "an [int] identifying the revision type", "an [int] equal to the stream id of the initial request message",
    DSE v2: "Optional parameters specific to the revision type: for revision type 2, then [next_pages]" (an [int], §4.1.4) -/
def revise (version : Nat) (revisionType targetStreamId nextPages : Nat) : Bytes :=
  uint revisionType ++ uint targetStreamId ++
  opt (hasNextPages version && revisionType == reviseMorePages) (uint nextPages)

/-! ## all requests -/

/-- the body of a request message (`none` for the responses, which `Cql/Spec/Responses.lean` defines) -/
def requestBody (version : Nat) : Msg → Option Bytes
  | .startup o => some (startup version o)
  | .options => some (options version)
  | .query q o => some (query version q o)
  | .prepare q ks => some (prepare version q ks)
  | .execute a b o => some (execute version a b o)
  | .batch b => some (batch version b)
  | .register l => some (register version l)
  | .authResponse t => some (authResponse version t)
  | .revise a b c => some (revise version a b c)
  | _ => none

/-- the opcode under which §2.4 lists each request -/
def requestOpcode : Msg → Option Nat
  | .startup _ => some opStartup
  | .options => some opOptions
  | .query _ _ => some opQuery
  | .prepare _ _ => some opPrepare
  | .execute _ _ _ => some opExecute
  | .batch _ => some opBatch
  | .register _ => some opRegister
  | .authResponse _ => some opAuthResponse
  | .revise _ _ _ => some opReviseRequest
  | _ => none

end Cql.Spec
