/-!
# `Send` racing with `Close` on a connection (client/client.go, client/server.go), at the granularity of atomic steps

A connection has a `closed` flag (set once by compare-and-swap), an outgoing channel that `Close` closes, and — in the
repaired code — a read/write lock (`channelsLock`): `Send` holds the read lock from its check of the flag to its
(non-blocking) channel send; `Close` sets the flag first and then closes the channel under the write lock. Sending on a
closed channel is a run-time panic in Go. The original code had no lock: `Send` checked the flag and then sent.
Every step below is one atomic action of one goroutine; any interleaving is allowed, subject to the lock's rules when
`locked = true`.
-/
namespace Cql.CloseMicro

inductive SPc where      -- a sender
  | idle | holdsR | checkedOpen | refused | sent | panicked
  deriving Repr, DecidableEq

inductive CPc where      -- the closer
  | idle | flagSet | holdsW | chanClosed | finished
  deriving Repr, DecidableEq

structure St where
  closedFlag : Bool := false
  chanClosed : Bool := false
  readers : Nat := 0          -- read-lock holders
  writer : Bool := false      -- write lock held
  senders : List SPc := []
  closer : CPc := .idle
  deriving Repr, DecidableEq

inductive Ev where
  | sender (i : Nat)
  | closer
  deriving Repr, DecidableEq

/-- one atomic step of sender `i`'s `Send`; a step that is blocked (by the lock) leaves the state unchanged -/
def senderStep (locked : Bool) (s : St) (pc : SPc) : St × SPc :=
  match pc with
  | .idle =>
    if locked then (if s.writer then (s, .idle) else ({ s with readers := s.readers + 1 }, .holdsR))
    else (s, .holdsR)                                     -- no lock in the original code: nothing to acquire
  | .holdsR =>                                            -- `if c.IsClosed() { return error }`
    if s.closedFlag then
      (if locked then { s with readers := s.readers - 1 } else s, .refused)
    else (s, .checkedOpen)
  | .checkedOpen =>                                       -- `select { case c.outgoing <- f: … }`
    let s' := if locked then { s with readers := s.readers - 1 } else s
    if s.chanClosed then (s', .panicked) else (s', .sent)
  | pc => (s, pc)

/-- one atomic step of `Close` -/
def closerStep (locked : Bool) (s : St) : St :=
  match s.closer with
  | .idle => { s with closedFlag := true, closer := .flagSet }           -- `setClosed()` (compare-and-swap)
  | .flagSet =>
    if locked then (if s.readers = 0 ∧ !s.writer then { s with writer := true, closer := .holdsW } else s)
    else { s with closer := .holdsW }
  | .holdsW => { s with chanClosed := true, closer := .chanClosed }      -- `close(outgoing)`
  | .chanClosed => { s with writer := false, closer := .finished }
  | .finished => s

def step (locked : Bool) (s : St) : Ev → St
  | .sender i =>
    match s.senders[i]? with
    | none => s
    | some pc => let r := senderStep locked s pc; { r.1 with senders := r.1.senders.set i r.2 }
  | .closer => closerStep locked s

def run (locked : Bool) (s : St) : List Ev → St
  | [] => s
  | e :: es => run locked (step locked s e) es

end Cql.CloseMicro
