import Lean
/-! `#audit_namespace N` prints, for every theorem whose name starts with `N`, the axioms it depends on. -/
open Lean Elab Command

elab "#audit_namespace " ns:ident : command => do
  let env ← getEnv
  let nsName := ns.getId
  let names := env.constants.fold (init := #[]) fun acc n ci =>
    if nsName.isPrefixOf n && !n.isInternalDetail then
      match ci with
      | .thmInfo _ => acc.push n
      | _ => acc
    else acc
  let names := names.qsort (fun a b => a.toString < b.toString)
  for n in names do
    let axs ← Lean.collectAxioms n
    let axs := axs.qsort (fun a b => a.toString < b.toString)
    IO.println s!"AUDIT {n} : {axs.toList}"
  IO.println s!"AUDIT-COUNT {names.size}"
