import Cql.Prim
import Cql.Segment
import Cql.Impl.Frame
/-!
# The compression wrappers (`compression/lz4/lz4.go`, `compression/snappy/snappy.go`)

The block functions of the third-party libraries (`github.com/pierrec/lz4/v4`, `github.com/golang/snappy`) are parameters
(`BlockCodec`); what is modelled is the repository's own code around them: the 4-byte length prefix, the special cases for
empty messages, the buffer-growing loop of `decompress`, and how much of its input `DecompressWithLength` consumes.
-/
namespace Cql.Compress
open Cql Cql.Prim

/-- the third-party block functions -/
structure BlockCodec where
  /-- `lz4.CompressBlock(src, dst, nil)` with `len(dst) = lz4.CompressBlockBound(len(src))`: the bytes `dst[:written]` -/
  compressBlock : Bytes → Res Bytes
  /-- `lz4.UncompressBlock(src, dst)` with `len(dst) = dstSize`: the bytes `dst[:written]`, or an error (in particular when
      the decompressed data do not fit) -/
  uncompressBlock : Bytes → Nat → Res Bytes
  /-- `snappy.Encode(nil, src)` -/
  encode : Bytes → Bytes
  /-- `snappy.DecodedLen(src)`: the decompressed length the block header declares -/
  decodedLen : Bytes → Res Nat
  /-- `snappy.Decode(nil, src)` -/
  decode : Bytes → Res Bytes

/-! ## LZ4 -/

/-- `Compressor.Compress`: the raw block (payload format of v5 segments) -/
def lz4Compress (codec : BlockCodec) (src : Bytes) : Res Bytes :=
  codec.compressBlock src

/-- `Compressor.CompressWithLength`: `binary.BigEndian.PutUint32(…, uint32(len(uncompressedMessage)))`, then the block -/
def lz4CompressWithLength (codec : BlockCodec) (src : Bytes) : Res Bytes := do
  let block ← codec.compressBlock src
  pure (writeInt (src.length % 4294967296) ++ block)

/-- `maxCompressionRatio` -/
def maxCompressionRatio : Nat := 255

/-- the loop of `decompress`:
    `for i := …; ; i *= 2 { dest = make([]byte, i); if written, err = lz4.UncompressBlock(source, dest); err == nil || i > compressedLength*maxCompressionRatio { break } }`
    followed by `return dest[:written], err`. `fuel` bounds the number of iterations (see `growLoop_fuel`: 9 is never
    exhausted); running out of it is reported as a panic so that it cannot be mistaken for a returned error. -/
def growLoop (codec : BlockCodec) (src : Bytes) : Nat → Nat → Res Bytes
  | 0, _ => .panic "decompress: out of fuel"
  | fuel + 1, i =>
    match codec.uncompressBlock src i with
    | .ok d => .ok d
    | .err e => if i > src.length * maxCompressionRatio then .err e else growLoop codec src fuel (i * 2)
    | .panic e => .panic e

def growFuel : Nat := 9

/-- `decompress(source)` -/
def decompress (codec : BlockCodec) (src : Bytes) : Res Bytes :=
  if src.length = 0 ∨ src = [0] then .ok []      -- `compressedLength == 0 || (compressedLength == 1 && source[0] == 0)`
  else growLoop codec src growFuel (src.length * 2)

/-- `Compressor.Decompress`: reads the whole source -/
def lz4Decompress (codec : BlockCodec) (src : Bytes) : Res Bytes :=
  decompress codec src

/-- `Compressor.DecompressWithLength` on a source that can deliver `chunk`: the decompressed bytes and the part of the
    chunk left unread. The prefix is read with `binary.Read` (4 bytes or an error); when it is 0 exactly one more byte is
    discarded (`io.CopyN(ioutil.Discard, source, 1)`) and nothing is written; otherwise `Decompress` reads everything that
    is left and the value of the prefix is not used any further. -/
def lz4DecompressWithLengthRest (codec : BlockCodec) (chunk : Bytes) : Res (Bytes × Bytes) :=
  if chunk.length < 4 then .err "cannot read compressed length"
  else
    let decompressedLength := beNat (chunk.take 4)
    let tail := chunk.drop 4
    if decompressedLength = 0 then
      match tail with
      | [] => .err "cannot read empty message"
      | _ :: unread => .ok ([], unread)
    else do
      let d ← lz4Decompress codec tail
      pure (d, [])

/-- `DecompressWithLength`, the bytes written to `dest` -/
def lz4DecompressWithLength (codec : BlockCodec) (chunk : Bytes) : Res Bytes := do
  let r ← lz4DecompressWithLengthRest codec chunk
  pure r.1

/-! ## Snappy (`snappy.Encode` output carries the decompressed length itself) -/

def snappyCompressWithLength (codec : BlockCodec) (src : Bytes) : Res Bytes :=
  .ok (codec.encode src)

/-- `maxCompressionRatio` of compression/snappy/snappy.go -/
def snappyMaxRatio : Nat := 64

/-- the decoding step of `DecompressWithLength`: the declared length is checked against what the compressed bytes can
    expand to before `snappy.Decode` allocates it -/
def snappyDecodeChecked (codec : BlockCodec) (chunk : Bytes) : Res Bytes := do
  let n ← codec.decodedLen chunk
  if n > snappyMaxRatio * chunk.length then .err "declared length is impossible"
  else codec.decode chunk

/-- reads the whole source -/
def snappyDecompressWithLengthRest (codec : BlockCodec) (chunk : Bytes) : Res (Bytes × Bytes) := do
  let d ← snappyDecodeChecked codec chunk
  pure (d, [])

def snappyDecompressWithLength (codec : BlockCodec) (chunk : Bytes) : Res Bytes :=
  snappyDecodeChecked codec chunk

/-! ## the compressors as the frame and segment codecs see them -/

/-- `lz4.Compressor` as a `frame.BodyCompressor` -/
def lz4BodyCompressor (codec : BlockCodec) : Cql.Impl.BodyCompressor :=
  { compressWithLength := lz4CompressWithLength codec, decompressWithLength := lz4DecompressWithLengthRest codec }

/-- `snappy.Compressor` as a `frame.BodyCompressor` -/
def snappyBodyCompressor (codec : BlockCodec) : Cql.Impl.BodyCompressor :=
  { compressWithLength := snappyCompressWithLength codec, decompressWithLength := snappyDecompressWithLengthRest codec }

/-- `lz4.Compressor` as a `segment.PayloadCompressor` -/
def lz4PayloadCompressor (codec : BlockCodec) : Cql.Segment.PayloadCompressor :=
  { compress := lz4Compress codec, decompress := lz4Decompress codec }

/-! ## what is assumed of the third-party block functions -/

/-- The contract of the LZ4 block functions that the wrappers rely on. Each clause is a property of the LZ4 block format
    or of `pierrec/lz4`'s documented behaviour; `literalCodec_lz4Law` shows the contract is satisfiable. -/
structure Lz4Law (codec : BlockCodec) : Prop where
  /-- with a destination of `CompressBlockBound` size `CompressBlock` cannot run out of space -/
  compress_total : ∀ x, ∃ c, codec.compressBlock x = .ok c
  /-- the block of the empty input is the single token `00` ("written = 1", as the comments in `lz4.go` say) -/
  compress_nil : codec.compressBlock [] = .ok [0]
  /-- `UncompressBlock` restores the input when the destination is large enough … -/
  uncompress_fits : ∀ x c dst, x ≠ [] → codec.compressBlock x = .ok c → x.length ≤ dst → codec.uncompressBlock c dst = .ok x
  /-- … and returns an error (`ErrInvalidSourceShortBuffer`) when it is not -/
  uncompress_short : ∀ x c dst, x ≠ [] → codec.compressBlock x = .ok c → dst < x.length →
    ∃ e, codec.uncompressBlock c dst = .err e
  /-- the block format's ratio bound: every additional byte of a sequence encodes at most 255 more bytes -/
  ratio : ∀ x c, x ≠ [] → codec.compressBlock x = .ok c → x.length ≤ 255 * c.length
  /-- `00` is the block of the empty input only (the format is uniquely decodable) -/
  block_ne_zero : ∀ x c, x ≠ [] → codec.compressBlock x = .ok c → c ≠ [0]
  /-- `written ≤ len(dst) = CompressBlockBound(len(src)) = len(src) + len(src)/255 + 16` -/
  bound : ∀ x c, codec.compressBlock x = .ok c → c.length ≤ x.length + x.length / 255 + 16

/-- The contract of the Snappy block functions. -/
structure SnappyLaw (codec : BlockCodec) : Prop where
  decode_encode : ∀ x, codec.decode (codec.encode x) = .ok x
  /-- the block header carries the length of what was encoded -/
  decodedLen_encode : ∀ x, codec.decodedLen (codec.encode x) = .ok x.length
  /-- the format's ratio bound: no element produces more than 64 bytes and every element occupies at least one byte -/
  ratio : ∀ x, x.length ≤ snappyMaxRatio * (codec.encode x).length
  /-- `len(snappy.Encode(nil, src)) ≤ snappy.MaxEncodedLen(len(src)) = 32 + len(src) + len(src)/6` -/
  bound : ∀ x, (codec.encode x).length ≤ 32 + x.length + x.length / 6

/-! ## a trivial block codec ("all literals"), for non-vacuity and tests -/

/-- block of `x`: `00` for the empty input, otherwise a marker byte `01` and the input itself; the Snappy side is the
    identity -/
def literalCodec : BlockCodec :=
  { compressBlock := fun x => if x.length = 0 then .ok [0] else .ok (1 :: x)
    uncompressBlock := fun c dstSize =>
      match c with
      | 1 :: x => if x.length ≤ dstSize then .ok x else .err "short buffer"
      | _ => .err "invalid source"
    encode := fun x => x
    decodedLen := fun x => .ok x.length
    decode := fun x => .ok x }

end Cql.Compress
