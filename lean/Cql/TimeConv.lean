/-!
# Overflow-checked time arithmetic (`datacodec/math.go`, `timestamp.go`, `date.go`, `time.go`)

Go `int64` values are `Int`s kept within −2^63 … 2^63−1; every Go operation that can wrap is written with an explicit
`wrap64`. The sign tests written with bit operations in the source — `((x ^ r) & (y ^ r)) < 0`, `(x ^ y) < 0` — are
written as what they test: "`a ^ b` is negative" ⟺ `a` and `b` have different signs, "`a & b` is negative" ⟺ both are
negative. Go's `/` on integers truncates toward zero (`tquot`).
-/
namespace Cql.TimeConv

def minI64 : Int := -9223372036854775808
def maxI64 : Int := 9223372036854775807

def inI64 (i : Int) : Prop := -9223372036854775808 ≤ i ∧ i ≤ 9223372036854775807
instance (i : Int) : Decidable (inI64 i) := by unfold inI64; infer_instance

/-- two's-complement wrap-around of an `int64` result -/
def wrap64 (i : Int) : Int := (i + 9223372036854775808) % 18446744073709551616 - 9223372036854775808

/-- Go's integer division (truncation toward zero), on `Int` -/
def tquot (a b : Int) : Int :=
  if 0 ≤ a then (if 0 ≤ b then a / b else -(a / (-b))) else (if 0 ≤ b then -((-a) / b) else (-a) / (-b))

def neg (a : Int) : Bool := decide (a < 0)

/-- `addExact` -/
def addExact (x y : Int) : Int × Bool :=
  let r := wrap64 (x + y)
  if (neg x != neg r) && (neg y != neg r) then (0, true) else (r, false)

/-- `multiplyExact` -/
def multiplyExact (x y : Int) : Int × Bool :=
  if x = 0 ∨ y = 0 ∨ x = 1 ∨ y = 1 then (wrap64 (x * y), false)
  else if x = minI64 ∨ y = minI64 then (0, true)
  else
    let r := wrap64 (x * y)
    if wrap64 (tquot r y) ≠ x then (0, true) else (r, false)

/-- `floorDiv` -/
def floorDiv (x y : Int) : Int :=
  let r := wrap64 (tquot x y)
  if (neg x != neg y) && wrap64 (r * y) ≠ x then wrap64 (r - 1) else r

/-- `floorMod` -/
def floorMod (x y : Int) : Int := wrap64 (x - wrap64 (floorDiv x y * y))

inductive R where
  | ok (v : Int)
  | outOfRange
  deriving Repr, DecidableEq

/-- `ConvertTimeToEpochMillis`, on what the `time.Time` holds: `t.Unix()` seconds and `t.Nanosecond()` -/
def timeToEpochMillis (seconds nanos : Int) : R :=
  if seconds < 0 ∧ nanos > 0 then
    let m := multiplyExact (wrap64 (seconds + 1)) 1000
    if m.2 then .outOfRange
    else
      let a := addExact m.1 (wrap64 (tquot nanos 1000000 - 1000))
      if a.2 then .outOfRange else .ok a.1
  else
    let m := multiplyExact seconds 1000
    if m.2 then .outOfRange
    else
      let a := addExact m.1 (tquot nanos 1000000)
      if a.2 then .outOfRange else .ok a.1

/-- `ConvertEpochMillisToTime`: the (seconds, nanoseconds) handed to `time.Unix` -/
def epochMillisToTime (millis : Int) : Int × Int := (floorDiv millis 1000, wrap64 (floorMod millis 1000 * 1000000))

/-- `ConvertTimeToEpochDays` on `t.Unix()` -/
def timeToEpochDays (seconds : Int) : R :=
  let days := floorDiv seconds 86400
  if days < -2147483648 ∨ days > 2147483647 then .outOfRange else .ok days

/-- `ConvertEpochDaysToTime`: the seconds handed to `time.Unix` -/
def epochDaysToTime (days : Int) : Int := wrap64 (days * 86400)

/-- `ConvertDurationToNanosOfDay` / `ConvertNanosOfDayToDuration` (`TimeMaxDuration = 24h − 1ns`) -/
def durationToNanosOfDay (d : Int) : R := if d < 0 ∨ d > 86399999999999 then .outOfRange else .ok d

end Cql.TimeConv
