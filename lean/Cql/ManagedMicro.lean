/-!
# Managed stream ids under concurrency: senders racing the arrival of final responses

`client/inflight.go`, automatic stream-id assignment. A sender (`onOutgoingFrameEnqueued` with `ManagedStreamId`) does, in
this order and with other goroutines free to run in between:

  1. `borrowStreamId`  — take an id from the pool (a buffered channel filled with 1..N); none there → refused;
  2. under the READ lock: table full, or the id already registered → refused (the borrowed id is NOT handed back);
  3. `addInFlight`, under the WRITE lock: look again, then register the id (or refuse, id not handed back).

The connection's single reader goroutine (`onIncomingFrameReceived` for a final response) does

  a. under the READ lock: look the id up; unknown → dropped;
  b. `removeInFlight` — erase the registration (WRITE lock);
  c. `releaseStreamId` — put the id back into the pool.

The model works at the granularity of these steps (each is atomic; anything may run in between). Senders are anonymous: a
sender between steps 1 and 3 is identified by the id it holds (`held`); steps 2 and 3 may be taken for any held id in any
order and any number of times, which includes every real execution (where 2 precedes 3 exactly once). An id that went
with a refused sender is in `leaked` — nothing ever takes it out again. `releaseFirst = true` is the variant in which (c)
comes before (b), a plausible-looking reordering that `Cql/Props/C09Concurrent.lean` shows to be wrong, while the code's
order is shown to be right for every interleaving.
-/
namespace Cql.ManagedMicro

inductive RPc where
  | idle
  | found (id : Nat)                 -- looked up, registered
  | half (id : Nat)                  -- between the two effects
  deriving Repr, DecidableEq

structure St where
  n : Nat
  pool : List Nat                    -- free ids, oldest first
  inFlight : List Nat := []          -- registered ids
  held : List Nat := []              -- borrowed by a sender that has not finished
  leaked : List Nat := []            -- went with a refused sender
  reader : RPc := .idle
  deriving Repr, DecidableEq

def init (n : Nat) : St := { n := n, pool := List.range' 1 n }

inductive Ev where
  | borrow                           -- a new sender: step 1
  | check (id : Nat)                 -- the sender holding `id`: step 2
  | add (id : Nat)                   -- the sender holding `id`: step 3
  | arrive (id : Nat)                -- the final response for `id` arrives (taken up only when the reader is idle): step a
  | reader                           -- the reader's next step: b or c
  deriving Repr, DecidableEq

def admissible (s : St) (id : Nat) : Bool := decide (s.inFlight.length < s.n) && !s.inFlight.contains id

def readerStep (releaseFirst : Bool) (s : St) : St :=
  match s.reader with
  | .idle => s
  | .found id =>
    if releaseFirst then { s with pool := s.pool ++ [id], reader := .half id }
    else { s with inFlight := s.inFlight.erase id, reader := .half id }
  | .half id =>
    if releaseFirst then { s with inFlight := s.inFlight.erase id, reader := .idle }
    else { s with pool := s.pool ++ [id], reader := .idle }

def step (releaseFirst : Bool) (s : St) : Ev → St
  | .borrow =>
    match s.pool with
    | [] => s
    | id :: rest => { s with pool := rest, held := id :: s.held }
  | .check id =>
    if s.held.contains id && !admissible s id then { s with held := s.held.erase id, leaked := id :: s.leaked } else s
  | .add id =>
    if s.held.contains id then
      if admissible s id then { s with held := s.held.erase id, inFlight := id :: s.inFlight }
      else { s with held := s.held.erase id, leaked := id :: s.leaked }
    else s
  | .arrive id =>
    match s.reader with
    | .idle => if s.inFlight.contains id then { s with reader := .found id } else s
    | _ => s
  | .reader => readerStep releaseFirst s

def run (releaseFirst : Bool) (s : St) : List Ev → St
  | [] => s
  | e :: es => run releaseFirst (step releaseFirst s e) es

/-- the id the reader has removed from the table and not yet put back (code order) -/
def heldByReader (s : St) : List Nat :=
  match s.reader with
  | .half id => [id]
  | _ => []

/-- every id that exists, wherever it is (code order) -/
def allIds (s : St) : List Nat := s.pool ++ (s.inFlight ++ (s.held ++ (s.leaked ++ heldByReader s)))

end Cql.ManagedMicro
