import Cql.Impl.Requests
import Cql.Lemmas.PrimRT
import Cql.Lemmas.NoPanic
import Cql.Lemmas.QueryOptionsRT
namespace Cql.Impl
open Cql Cql.Prim Cql.Parser Cql.Gen

/-! ## additions to the query-options lemmas: `Options == nil`, length, no-panic -/

/-- `&QueryOptions{}` is valid for every version (consistency ANY, nothing else set) -/
theorem validQO_default (version : Nat) : ValidQO version QueryOptions.default where
  consistency := by decide
  notBoth := fun h => by cases h
  positional := fun l h => by cases h
  named := fun l h => by cases h
  pageSize := by decide
  pagingState := fun c h => by cases h
  serial := fun c h => by cases h
  timestamp := fun t h => by cases h
  keyspace := by decide
  now := fun n h => by cases h
  cont := fun c h => by cases h
  wide := fun _ => ⟨rfl, rfl, rfl⟩

/-- validity of a possibly-nil options pointer: nil stands for `&QueryOptions{}` -/
def ValidQO? (version : Nat) (o? : Option QueryOptions) : Prop := ∀ o, o? = some o → ValidQO version o

/-- Go encodes `Options == nil` as `&QueryOptions{}` and always decodes a non-nil struct -/
def canonQO? (version : Nat) (o? : Option QueryOptions) : Option QueryOptions :=
  some (canonQO version (o?.getD QueryOptions.default))

theorem decodeQO_RT (version : Nat) (o? : Option QueryOptions) (hv : ValidQO? version o?) (b : Bytes)
    (hw : encodeQueryOptions version o? = .ok b) (rest : Bytes) :
    (decodeQueryOptions version).run (b ++ rest) = .ok (canonQO version (o?.getD QueryOptions.default), rest) := by
  cases o? with
  | some o => exact decodeQO_RT_some version o (hv o rfl) b hw rest
  | none =>
    have he : encodeQueryOptions version none = encodeQueryOptions version (some QueryOptions.default) := rfl
    rw [he] at hw
    exact decodeQO_RT_some version QueryOptions.default (validQO_default version) b hw rest

private theorem whenW_len_optN (c : Bool) (e : Res Bytes) (n : Nat) (b : Bytes) (hw : whenW c e = .ok b)
    (h : c = true → ∀ b', e = .ok b' → b'.length = n) : b.length = optN c n := by
  cases c with
  | true => exact h rfl b hw
  | false => rw [whenW_false] at hw; rw [← Res.ok_inj hw]; rfl

theorem encodeQueryValues_len (version : Nat) (o : QueryOptions) (flags : Nat) (b : Bytes)
    (hw : encodeQueryValues version o flags = .ok b) : lengthOfQueryValues o flags = .ok b.length := by
  rw [encodeQueryValues] at hw
  rw [lengthOfQueryValues]
  refine whenL_whenW_len _ _ _ b hw (fun _ b' hb' => ?_)
  cases hn : has flags QueryFlagValueNames with
  | true =>
    rw [hn, if_pos rfl] at hb'
    rw [if_pos rfl]
    exact writeNamedValues_len version _ b' hb'
  | false =>
    rw [hn, if_neg (by decide)] at hb'
    rw [if_neg (by decide)]
    exact writePositionalValues_len version _ b' hb'

theorem encodeQO_len_some (version : Nat) (o : QueryOptions) (b : Bytes)
    (hw : encodeQueryOptions version (some o) = .ok b) : lengthOfQueryOptions version (some o) = .ok b.length := by
  rw [encodeQueryOptions] at hw
  simp only [Option.getD_some] at hw
  obtain ⟨_, _, hw⟩ := Res.bind_ok_inv hw
  obtain ⟨vals, hvals, hw⟩ := Res.bind_ok_inv hw
  obtain ⟨serial, hserial, hw⟩ := Res.bind_ok_inv hw
  obtain ⟨ks, hks, hw⟩ := Res.bind_ok_inv hw
  obtain ⟨cont, hcont, hw⟩ := Res.bind_ok_inv hw
  have hs := whenW_len_optN _ _ lengthOfShort serial hserial (fun _ b' hb' => by
    rw [encodeSerial] at hb'
    obtain ⟨_, _, hb'⟩ := Res.bind_ok_inv hb'
    rw [← Res.pure_ok_inv hb', writeShort_len]; rfl)
  have hk := whenW_len_optN _ _ (lengthOfString o.keyspace) ks hks (fun _ b' hb' => by
    rw [encodeKeyspace] at hb'
    obtain ⟨_, _, hb'⟩ := Res.bind_ok_inv hb'
    rw [← Res.pure_ok_inv hb', writeString_len])
  rw [lengthOfQueryOptions]
  simp only [Option.getD_some]
  rw [encodeQueryValues_len version o o.flags vals hvals,
    whenL_whenW_len _ _ (lengthOfContinuousPagingOptions version) cont hcont
      (fun _ b' hb' => encodeCPO_len version _ b' hb'),
    ← Res.pure_ok_inv hw]
  simp only [List.length_append]
  rw [writeShort_len, writeQueryFlags_len, optB_len _ _ _ (writeInt_len _), optB_len _ _ _ (writeBytes_len _),
    hs, optB_len _ _ _ (writeLong_len _), hk, optB_len _ _ _ (writeInt_len _)]
  rfl

theorem encodeQO_len (version : Nat) (o? : Option QueryOptions) (b : Bytes)
    (hw : encodeQueryOptions version o? = .ok b) : lengthOfQueryOptions version o? = .ok b.length := by
  cases o? with
  | some o => exact encodeQO_len_some version o b hw
  | none =>
    have he : encodeQueryOptions version none = encodeQueryOptions version (some QueryOptions.default) := rfl
    have hl : lengthOfQueryOptions version none = lengthOfQueryOptions version (some QueryOptions.default) := rfl
    rw [he] at hw
    rw [hl]
    exact encodeQO_len_some version QueryOptions.default b hw

/-! ### the encoder refuses no valid options

(`res_bind_ok`, `whenW_ok`, `whenW_len_optN`, `writeAll_ok`, `writeValue_ok`, `writePositionalValues_ok`,
`writeNamedValues_ok` are generic and `private` only to avoid name clashes with sibling files; they belong in
`Combinators.lean` / `PrimRT.lean`.) -/

private theorem res_bind_ok {α β} {r : Res α} {f : α → Res β} {a : α} (h : r = .ok a) (h2 : ∃ b, f a = .ok b) :
    ∃ b, (r >>= f) = .ok b := by
  rw [Res.bind_eq_ok h]; exact h2

private theorem whenW_ok (c : Bool) (e : Res Bytes) (h : c = true → ∃ b, e = .ok b) : ∃ b, whenW c e = .ok b := by
  cases c with
  | true => exact h rfl
  | false => exact ⟨[], rfl⟩

private theorem writeAll_ok {α} (w : α → Res Bytes) (l : List α) (h : ∀ x ∈ l, ∃ b, w x = .ok b) :
    ∃ b, writeAll w l = .ok b := by
  induction l with
  | nil => exact ⟨[], rfl⟩
  | cons x xs ih =>
    obtain ⟨a, ha⟩ := h x List.mem_cons_self
    obtain ⟨b, hb⟩ := ih (fun y hy => h y (List.mem_cons_of_mem _ hy))
    rw [writeAll]
    exact res_bind_ok ha (res_bind_ok hb ⟨_, rfl⟩)

private theorem writeValue_ok (version : Nat) (x : Option Value) (h : validValue version x) :
    ∃ b, writeValue version x = .ok b := by
  cases x with
  | none => exact False.elim h
  | some v =>
    cases v with
    | null => exact ⟨_, rfl⟩
    | unset =>
      have h' : version ≥ ProtocolVersion4 := h
      have hs : ProtocolVersion_SupportsUnsetValues version = true := by
        rw [ProtocolVersion_SupportsUnsetValues]; exact decide_eq_true h'
      rw [writeValue, hs, if_pos rfl]; exact ⟨_, rfl⟩
    | regular c =>
      cases c with
      | none => exact ⟨_, rfl⟩
      | some c => exact ⟨_, rfl⟩
    | other t => exact False.elim h

private theorem writePositionalValues_ok (version : Nat) (vs : List (Option Value)) (h : ∀ v ∈ vs, validValue version v) :
    ∃ b, writePositionalValues version vs = .ok b := by
  obtain ⟨body, hb⟩ := writeAll_ok (writeValue version) vs (fun x hx => writeValue_ok version x (h x hx))
  rw [writePositionalValues]
  exact res_bind_ok hb ⟨_, rfl⟩

private theorem writeNamedValues_ok (version : Nat) (vs : List (Bytes × Option Value))
    (h : ∀ p ∈ vs, validValue version p.2) : ∃ b, writeNamedValues version vs = .ok b := by
  obtain ⟨body, hb⟩ := writeAll_ok (writeNamedValue version) vs (fun x hx => by
    obtain ⟨v, hv⟩ := writeValue_ok version x.2 (h x hx)
    rw [writeNamedValue]
    exact res_bind_ok hv ⟨_, rfl⟩)
  rw [writeNamedValues]
  exact res_bind_ok hb ⟨_, rfl⟩

theorem encodeQueryValues_ok (version : Nat) (o : QueryOptions) (hv : ValidQO version o) (flags : Nat) :
    ∃ b, encodeQueryValues version o flags = .ok b := by
  rw [encodeQueryValues]
  refine whenW_ok _ _ (fun _ => ?_)
  cases hn : has flags QueryFlagValueNames with
  | true =>
    rw [if_pos rfl]
    refine writeNamedValues_ok version _ (fun p hp => ?_)
    cases hl : o.namedValues with
    | none => rw [hl] at hp; cases hp
    | some l => rw [hl] at hp; exact ((hv.named l hl).2 p hp).2
  | false =>
    rw [if_neg (by decide)]
    refine writePositionalValues_ok version _ (fun p hp => ?_)
    cases hl : o.positionalValues with
    | none => rw [hl] at hp; cases hp
    | some l => rw [hl] at hp; exact (hv.positional l hl).2 p hp

/-- `ValidQO` does not say that continuous paging exists only in the DSE versions; the encoder refuses it elsewhere,
    so `encodeX_ok` needs this clause (spec: continuous paging is a DSE v1/v2 feature) -/
def ContOnlyDse (version : Nat) (o? : Option QueryOptions) : Prop :=
  ∀ o c, o? = some o → o.continuousPagingOptions = some c → ProtocolVersion_IsDse version = true

theorem encodeQO_ok_some (version : Nat) (o : QueryOptions) (hv : ValidQO version o)
    (hd : ∀ c, o.continuousPagingOptions = some c → ProtocolVersion_IsDse version = true) :
    ∃ b, encodeQueryOptions version (some o) = .ok b := by
  have F := qflags_has (o.positionalValues.isSome || o.namedValues.isSome)
    (o.positionalValues.isNone && o.namedValues.isSome)
    o.skipMetadata (pos32 o.pageSize) (pos32 o.pageSize && o.pageSizeInBytes) o.pagingState.isSome
    o.serialConsistency.isSome o.defaultTimestamp.isSome (o.keyspace != []) o.nowInSeconds.isSome
    o.continuousPagingOptions.isSome
  rw [← QueryOptions.flags] at F
  obtain ⟨_, _, _, _, _, _, f7, _, f9, _, f11, _⟩ := F
  have hg : guard (CheckValidConsistencyLevel o.consistency) "invalid consistency level" = .ok () := by
    rw [CheckValidConsistencyLevel, hv.consistency]; rfl
  obtain ⟨vals, hvals⟩ := encodeQueryValues_ok version o hv o.flags
  obtain ⟨serial, hserial⟩ := whenW_ok (has o.flags QueryFlagSerialConsistency) (encodeSerial o) (fun h => by
    rw [f7] at h
    cases hs : o.serialConsistency with
    | none => rw [hs] at h; cases h
    | some c =>
      have hc : guard (CheckSerialConsistencyLevel c) "invalid serial consistency level" = .ok () := by
        rw [CheckSerialConsistencyLevel, hv.serial c hs]; rfl
      rw [encodeSerial, hs]
      simp only [Option.getD_some]
      exact res_bind_ok hc ⟨_, rfl⟩)
  obtain ⟨ks, hks⟩ := whenW_ok (has o.flags QueryFlagWithKeyspace) (encodeKeyspace o.keyspace) (fun h => by
    rw [f9] at h
    rw [encodeKeyspace, h]; exact ⟨_, rfl⟩)
  obtain ⟨cont, hcont⟩ := whenW_ok (has o.flags QueryFlagDseWithContinuousPagingOptions)
    (encodeContinuousPagingOptions version (o.continuousPagingOptions.getD ⟨0, 0, 0⟩)) (fun h => by
    rw [f11] at h
    cases hc : o.continuousPagingOptions with
    | none => rw [hc] at h; cases h
    | some c =>
      have hdse : CheckDseProtocolVersion version = true := by rw [CheckDseProtocolVersion, hd c hc]; rfl
      rw [encodeContinuousPagingOptions, hdse]; exact ⟨_, rfl⟩)
  rw [encodeQueryOptions]
  simp only [Option.getD_some]
  exact res_bind_ok hg (res_bind_ok hvals (res_bind_ok hserial (res_bind_ok hks
    (res_bind_ok hcont ⟨_, rfl⟩))))

theorem encodeQO_ok (version : Nat) (o? : Option QueryOptions) (hv : ValidQO? version o?)
    (hd : ContOnlyDse version o?) : ∃ b, encodeQueryOptions version o? = .ok b := by
  cases o? with
  | some o => exact encodeQO_ok_some version o (hv o rfl) (fun c hc => hd o c rfl hc)
  | none =>
    have he : encodeQueryOptions version none = encodeQueryOptions version (some QueryOptions.default) := rfl
    rw [he]
    exact encodeQO_ok_some version QueryOptions.default (validQO_default version) (fun c hc => by cases hc)

/-! ### no panic -/

theorem readQueryFlags_noPanic (version : Nat) : NoPanic (readQueryFlags version) := by
  rw [readQueryFlags]; no_panic

theorem decodeCPO_noPanic (version : Nat) : NoPanic (decodeContinuousPagingOptions version) := by
  rw [decodeContinuousPagingOptions]; no_panic

theorem decodeQueryValues_noPanic (version flags : Nat) : NoPanic (decodeQueryValues version flags) := by
  rw [decodeQueryValues]; no_panic [NoPanic.readNamedValues version, NoPanic.readPositionalValues version]

theorem decodeSerial_noPanic : NoPanic decodeSerial := by
  rw [decodeSerial]; no_panic

theorem decodeQO_noPanic (version : Nat) : NoPanic (decodeQueryOptions version) := by
  rw [decodeQueryOptions]
  no_panic [readQueryFlags_noPanic version, decodeCPO_noPanic version, decodeQueryValues_noPanic version,
    decodeSerial_noPanic, NoPanic.readBytes, NoPanic.readString]

/-! ## STARTUP -/

/-- from the specs: a `[string map]`, so at most 65535 entries of `[string]`s. (The specs also make `CQL_VERSION`
    mandatory; the codec does not look at the keys, and neither do the proofs. Key uniqueness is a property of the Go
    map type that the association-list model does not need either.) -/
structure ValidStartup (_version : Nat) (options : Option (List (Bytes × Bytes))) : Prop where
  count : (options.getD []).length < 65536
  strings : ∀ p ∈ options.getD [], p.1.length < 65536 ∧ p.2.length < 65536

/-- a `[string map]` has no null: a nil map reads back as the empty map -/
def canonStartup (_version : Nat) (options : Option (List (Bytes × Bytes))) : Option (List (Bytes × Bytes)) :=
  some (options.getD [])

theorem decodeStartup_RT (version : Nat) (options : Option (List (Bytes × Bytes)))
    (hv : ValidStartup version options) (b : Bytes) (hw : encodeStartup version options = .ok b) (rest : Bytes) :
    (decodeStartup version).run (b ++ rest) = .ok (canonStartup version options, rest) := by
  rw [encodeStartup] at hw
  rw [← Res.ok_inj hw, decodeStartup, map_run, readStringMap_RT _ hv.count hv.strings rest]
  rfl

theorem encodeStartup_len (version : Nat) (options : Option (List (Bytes × Bytes))) (b : Bytes)
    (hw : encodeStartup version options = .ok b) : lengthOfStartup version options = .ok b.length := by
  rw [encodeStartup] at hw
  rw [← Res.ok_inj hw, lengthOfStartup, writeStringMap_len]

theorem encodeStartup_ok (version : Nat) (options : Option (List (Bytes × Bytes)))
    (_hv : ValidStartup version options) : ∃ b, encodeStartup version options = .ok b := ⟨_, rfl⟩

theorem decodeStartup_noPanic (version : Nat) : NoPanic (decodeStartup version) := by
  rw [decodeStartup]; no_panic [NoPanic.readStringMap]

example : ValidStartup 4 (some [([67, 81, 76], [51, 46, 48])]) :=
  ⟨by decide, by decide⟩

/-! ## OPTIONS, READY (empty bodies) -/

def ValidOptions (_version : Nat) : Prop := True
def canonOptions (_version : Nat) : Unit := ()

theorem decodeOptions_RT (version : Nat) (_hv : ValidOptions version) (b : Bytes) (hw : encodeOptions version = .ok b)
    (rest : Bytes) : (decodeOptions version).run (b ++ rest) = .ok (canonOptions version, rest) := by
  rw [encodeOptions] at hw
  rw [← Res.ok_inj hw]; rfl

theorem encodeOptions_len (version : Nat) (b : Bytes) (hw : encodeOptions version = .ok b) :
    lengthOfOptions version = .ok b.length := by
  rw [encodeOptions] at hw
  rw [← Res.ok_inj hw]; rfl

theorem encodeOptions_ok (version : Nat) (_hv : ValidOptions version) : ∃ b, encodeOptions version = .ok b := ⟨_, rfl⟩

theorem decodeOptions_noPanic (version : Nat) : NoPanic (decodeOptions version) := by
  rw [decodeOptions]; no_panic

example : ValidOptions 4 := trivial

def ValidReady (_version : Nat) : Prop := True
def canonReady (_version : Nat) : Unit := ()

theorem decodeReady_RT (version : Nat) (_hv : ValidReady version) (b : Bytes) (hw : encodeReady version = .ok b)
    (rest : Bytes) : (decodeReady version).run (b ++ rest) = .ok (canonReady version, rest) := by
  rw [encodeReady] at hw
  rw [← Res.ok_inj hw]; rfl

theorem encodeReady_len (version : Nat) (b : Bytes) (hw : encodeReady version = .ok b) :
    lengthOfReady version = .ok b.length := by
  rw [encodeReady] at hw
  rw [← Res.ok_inj hw]; rfl

theorem encodeReady_ok (version : Nat) (_hv : ValidReady version) : ∃ b, encodeReady version = .ok b := ⟨_, rfl⟩

theorem decodeReady_noPanic (version : Nat) : NoPanic (decodeReady version) := by
  rw [decodeReady]; no_panic

example : ValidReady 4 := trivial

/-! ## AUTH_RESPONSE, AUTH_CHALLENGE, AUTH_SUCCESS -/

/-- a `[bytes]` token: null or fewer than 2^31 bytes -/
def ValidAuthToken (token : Option Bytes) : Prop := ∀ c, token = some c → c.length < 2147483648

def ValidAuthResponse (_version : Nat) (token : Option Bytes) : Prop := ValidAuthToken token
def ValidAuthChallenge (_version : Nat) (token : Option Bytes) : Prop := ValidAuthToken token
def ValidAuthSuccess (_version : Nat) (token : Option Bytes) : Prop := ValidAuthToken token

/-- nothing is erased: `[bytes]` distinguishes null from empty -/
def canonAuthResponse (_version : Nat) (token : Option Bytes) : Option Bytes := token
def canonAuthChallenge (_version : Nat) (token : Option Bytes) : Option Bytes := token
def canonAuthSuccess (_version : Nat) (token : Option Bytes) : Option Bytes := token

theorem decodeAuthResponse_RT (version : Nat) (token : Option Bytes) (hv : ValidAuthResponse version token) (b : Bytes)
    (hw : encodeAuthResponse version token = .ok b) (rest : Bytes) :
    (decodeAuthResponse version).run (b ++ rest) = .ok (canonAuthResponse version token, rest) := by
  rw [encodeAuthResponse] at hw
  rw [← Res.ok_inj hw, decodeAuthResponse]; exact readBytes_RT token hv rest

theorem encodeAuthResponse_len (version : Nat) (token : Option Bytes) (b : Bytes)
    (hw : encodeAuthResponse version token = .ok b) : lengthOfAuthResponse version token = .ok b.length := by
  rw [encodeAuthResponse] at hw
  rw [← Res.ok_inj hw, lengthOfAuthResponse, writeBytes_len]

theorem encodeAuthResponse_ok (version : Nat) (token : Option Bytes) (_hv : ValidAuthResponse version token) :
    ∃ b, encodeAuthResponse version token = .ok b := ⟨_, rfl⟩

theorem decodeAuthResponse_noPanic (version : Nat) : NoPanic (decodeAuthResponse version) := by
  rw [decodeAuthResponse]; exact NoPanic.readBytes

example : ValidAuthResponse 4 (some [0, 99, 0, 112]) := fun c h => by cases h; decide

theorem decodeAuthChallenge_RT (version : Nat) (token : Option Bytes) (hv : ValidAuthChallenge version token) (b : Bytes)
    (hw : encodeAuthChallenge version token = .ok b) (rest : Bytes) :
    (decodeAuthChallenge version).run (b ++ rest) = .ok (canonAuthChallenge version token, rest) := by
  rw [encodeAuthChallenge] at hw
  rw [← Res.ok_inj hw, decodeAuthChallenge]; exact readBytes_RT token hv rest

theorem encodeAuthChallenge_len (version : Nat) (token : Option Bytes) (b : Bytes)
    (hw : encodeAuthChallenge version token = .ok b) : lengthOfAuthChallenge version token = .ok b.length := by
  rw [encodeAuthChallenge] at hw
  rw [← Res.ok_inj hw, lengthOfAuthChallenge, writeBytes_len]

theorem encodeAuthChallenge_ok (version : Nat) (token : Option Bytes) (_hv : ValidAuthChallenge version token) :
    ∃ b, encodeAuthChallenge version token = .ok b := ⟨_, rfl⟩

theorem decodeAuthChallenge_noPanic (version : Nat) : NoPanic (decodeAuthChallenge version) := by
  rw [decodeAuthChallenge]; exact NoPanic.readBytes

example : ValidAuthChallenge 4 (some [1, 2, 3]) := fun c h => by cases h; decide

theorem decodeAuthSuccess_RT (version : Nat) (token : Option Bytes) (hv : ValidAuthSuccess version token) (b : Bytes)
    (hw : encodeAuthSuccess version token = .ok b) (rest : Bytes) :
    (decodeAuthSuccess version).run (b ++ rest) = .ok (canonAuthSuccess version token, rest) := by
  rw [encodeAuthSuccess] at hw
  rw [← Res.ok_inj hw, decodeAuthSuccess]; exact readBytes_RT token hv rest

theorem encodeAuthSuccess_len (version : Nat) (token : Option Bytes) (b : Bytes)
    (hw : encodeAuthSuccess version token = .ok b) : lengthOfAuthSuccess version token = .ok b.length := by
  rw [encodeAuthSuccess] at hw
  rw [← Res.ok_inj hw, lengthOfAuthSuccess, writeBytes_len]

theorem encodeAuthSuccess_ok (version : Nat) (token : Option Bytes) (_hv : ValidAuthSuccess version token) :
    ∃ b, encodeAuthSuccess version token = .ok b := ⟨_, rfl⟩

theorem decodeAuthSuccess_noPanic (version : Nat) : NoPanic (decodeAuthSuccess version) := by
  rw [decodeAuthSuccess]; exact NoPanic.readBytes

/-- the specs allow a null token on AUTH_SUCCESS -/
example : ValidAuthSuccess 4 none := fun c h => by cases h

/-! ## AUTHENTICATE -/

/-- the authenticator class name: a non-empty `[string]` -/
structure ValidAuthenticate (_version : Nat) (authenticator : Bytes) : Prop where
  nonEmpty : authenticator ≠ []
  length : authenticator.length < 65536

/-- nothing is erased -/
def canonAuthenticate (_version : Nat) (authenticator : Bytes) : Bytes := authenticator

theorem decodeAuthenticate_RT (version : Nat) (a : Bytes) (hv : ValidAuthenticate version a) (b : Bytes)
    (hw : encodeAuthenticate version a = .ok b) (rest : Bytes) :
    (decodeAuthenticate version).run (b ++ rest) = .ok (canonAuthenticate version a, rest) := by
  rw [encodeAuthenticate] at hw
  obtain ⟨_, _, hw⟩ := Res.bind_ok_inv hw
  rw [← Res.pure_ok_inv hw, decodeAuthenticate]; exact readString_RT a hv.length rest

theorem encodeAuthenticate_len (version : Nat) (a : Bytes) (b : Bytes)
    (hw : encodeAuthenticate version a = .ok b) : lengthOfAuthenticate version a = .ok b.length := by
  rw [encodeAuthenticate] at hw
  obtain ⟨_, _, hw⟩ := Res.bind_ok_inv hw
  rw [← Res.pure_ok_inv hw, lengthOfAuthenticate, writeString_len]

theorem encodeAuthenticate_ok (version : Nat) (a : Bytes) (hv : ValidAuthenticate version a) :
    ∃ b, encodeAuthenticate version a = .ok b := by
  have hq : (a != []) = true := by simpa using hv.nonEmpty
  rw [encodeAuthenticate, hq]; exact ⟨_, rfl⟩

theorem decodeAuthenticate_noPanic (version : Nat) : NoPanic (decodeAuthenticate version) := by
  rw [decodeAuthenticate]; exact NoPanic.readString

example : ValidAuthenticate 4 [80, 119, 100] := ⟨by decide, by decide⟩

/-! ## SUPPORTED -/

/-- a `[string multimap]`: at most 65535 keys, each with a `[string list]` -/
structure ValidSupported (_version : Nat) (options : Option (List (Bytes × List Bytes))) : Prop where
  count : (options.getD []).length < 65536
  entries : ∀ p ∈ options.getD [], p.1.length < 65536 ∧ p.2.length < 65536 ∧ ∀ s ∈ p.2, s.length < 65536

/-- a `[string multimap]` has no null: a nil map reads back as the empty map -/
def canonSupported (_version : Nat) (options : Option (List (Bytes × List Bytes))) :
    Option (List (Bytes × List Bytes)) := some (options.getD [])

theorem decodeSupported_RT (version : Nat) (options : Option (List (Bytes × List Bytes)))
    (hv : ValidSupported version options) (b : Bytes) (hw : encodeSupported version options = .ok b) (rest : Bytes) :
    (decodeSupported version).run (b ++ rest) = .ok (canonSupported version options, rest) := by
  rw [encodeSupported] at hw
  rw [← Res.ok_inj hw, decodeSupported, map_run, readStringMultiMap_RT _ hv.count hv.entries rest]
  rfl

theorem encodeSupported_len (version : Nat) (options : Option (List (Bytes × List Bytes))) (b : Bytes)
    (hw : encodeSupported version options = .ok b) : lengthOfSupported version options = .ok b.length := by
  rw [encodeSupported] at hw
  rw [← Res.ok_inj hw, lengthOfSupported, writeStringMultiMap_len]

theorem encodeSupported_ok (version : Nat) (options : Option (List (Bytes × List Bytes)))
    (_hv : ValidSupported version options) : ∃ b, encodeSupported version options = .ok b := ⟨_, rfl⟩

theorem decodeSupported_noPanic (version : Nat) : NoPanic (decodeSupported version) := by
  rw [decodeSupported]; no_panic [NoPanic.readStringMultiMap]

example : ValidSupported 4 (some [([67, 81, 76], [[51], [52]]), ([67], [])]) :=
  ⟨by decide, by decide⟩

/-! ## REGISTER -/

/-- a `[string list]` of declared event types. The specs do not say in words that the list is non-empty, but the Go
    encoder refuses an empty one (registering for nothing is meaningless), so `encodeRegister_ok` needs `nonEmpty`. -/
structure ValidRegister (_version : Nat) (eventTypes : Option (List Bytes)) : Prop where
  -- SUSPECT: (minor) forced by `encodeRegister_ok` only. The specs define the body as a `[string list]` without a
  -- minimum size; `Register{EventTypes: []}` is refused by the encoder although the decoder accepts the bytes `00 00`.
  nonEmpty : eventTypes.getD [] ≠ []
  count : (eventTypes.getD []).length < 65536
  valid : ∀ e ∈ eventTypes.getD [], EventType_IsValid e = true

/-- nothing is erased (a valid list is non-nil) -/
def canonRegister (_version : Nat) (eventTypes : Option (List Bytes)) : Option (List Bytes) := eventTypes

private theorem eventType_lt (e : Bytes) (h : EventType_IsValid e = true) : e.length < 65536 := by
  have : ∀ x ∈ EventType_IsValid_cases, x.length < 65536 := by decide
  exact this e (by simpa [EventType_IsValid] using h)

theorem decodeRegister_RT (version : Nat) (ets : Option (List Bytes)) (hv : ValidRegister version ets) (b : Bytes)
    (hw : encodeRegister version ets = .ok b) (rest : Bytes) :
    (decodeRegister version).run (b ++ rest) = .ok (canonRegister version ets, rest) := by
  cases ets with
  | none => exact absurd rfl hv.nonEmpty
  | some l =>
    rw [encodeRegister] at hw
    simp only [Option.getD_some] at hw
    obtain ⟨_, _, hw⟩ := Res.bind_ok_inv hw
    obtain ⟨_, hg, hw⟩ := Res.bind_ok_inv hw
    rw [← Res.pure_ok_inv hw, decodeRegister,
      bind_ok (readStringList_RT l hv.count (fun s hs => eventType_lt s (hv.valid s hs)) rest),
      guard_ok_inv hg, bind_ok (guardP_true _ _)]
    rfl

theorem encodeRegister_len (version : Nat) (ets : Option (List Bytes)) (b : Bytes)
    (hw : encodeRegister version ets = .ok b) : lengthOfRegister version ets = .ok b.length := by
  rw [encodeRegister] at hw
  obtain ⟨_, _, hw⟩ := Res.bind_ok_inv hw
  obtain ⟨_, _, hw⟩ := Res.bind_ok_inv hw
  rw [← Res.pure_ok_inv hw, lengthOfRegister, writeStringList_len]

theorem encodeRegister_ok (version : Nat) (ets : Option (List Bytes)) (hv : ValidRegister version ets) :
    ∃ b, encodeRegister version ets = .ok b := by
  have h1 : ((ets.getD []).length != 0) = true := by
    cases hl : ets.getD [] with
    | nil => exact absurd hl hv.nonEmpty
    | cons x xs => rfl
  have h2 : (ets.getD []).all CheckValidEventType = true := by
    rw [List.all_eq_true]
    intro e he
    rw [CheckValidEventType, hv.valid e he]; rfl
  rw [encodeRegister, h1, h2]; exact ⟨_, rfl⟩

theorem decodeRegister_noPanic (version : Nat) : NoPanic (decodeRegister version) := by
  rw [decodeRegister]; no_panic [NoPanic.readStringList]

example : ValidRegister 4 (some [EventTypeSchemaChange, EventTypeStatusChange]) :=
  ⟨by decide, by decide, by decide⟩

/-! ## REVISE_REQUEST -/

/-- from the DSE specs: a DSE version, a revision type declared for that version, two `[int]`s -/
structure ValidRevise (version : Nat) (revisionType targetStreamId nextPages : Nat) : Prop where
  dse : ProtocolVersion_IsDse version = true
  type : DseRevisionType_IsValid revisionType = true
  typeVersion : ProtocolVersion_SupportsDseRevisionType version revisionType = true
  streamId : targetStreamId < 4294967296
  nextPages : nextPages < 4294967296

/-- `<next_pages>` is on the wire only for revision type 2 (more pages) -/
def canonRevise (_version : Nat) (revisionType targetStreamId nextPages : Nat) : Nat × Nat × Nat :=
  (revisionType, targetStreamId, if revisionType == DseRevisionTypeMoreContinuousPages then nextPages else 0)

private theorem revisionType_lt (t : Nat) (h : DseRevisionType_IsValid t = true) : t < 4294967296 := by
  have : ∀ x ∈ DseRevisionType_IsValid_cases, x < 4294967296 := by decide
  exact this t (by simpa [DseRevisionType_IsValid] using h)

theorem decodeRevise_RT (version t sid next : Nat) (hv : ValidRevise version t sid next) (b : Bytes)
    (hw : encodeRevise version t sid next = .ok b) (rest : Bytes) :
    (decodeRevise version).run (b ++ rest) = .ok (canonRevise version t sid next, rest) := by
  rw [encodeRevise] at hw
  obtain ⟨_, hg1, hw⟩ := Res.bind_ok_inv hw
  obtain ⟨_, hg2, hw⟩ := Res.bind_ok_inv hw
  rw [← Res.pure_ok_inv hw]
  simp only [List.append_assoc]
  rw [decodeRevise, guard_ok_inv hg1, bind_ok (guardP_true _ _), bind_ok (readInt_RT _ (revisionType_lt t hv.type) _),
    guard_ok_inv hg2, bind_ok (guardP_true _ _), bind_ok (readInt_RT _ hv.streamId _),
    bind_ok (whenP_optB_RT (t == DseRevisionTypeMoreContinuousPages) readInt 0
      (if t == DseRevisionTypeMoreContinuousPages then next else 0) _ _
      (fun h => by rw [h, if_pos rfl]; exact readInt_RT _ hv.nextPages _)
      (fun h => by rw [h]; rfl))]
  rfl

theorem encodeRevise_len (version t sid next : Nat) (b : Bytes) (hw : encodeRevise version t sid next = .ok b) :
    lengthOfRevise version t sid next = .ok b.length := by
  rw [encodeRevise] at hw
  obtain ⟨_, hg1, hw⟩ := Res.bind_ok_inv hw
  obtain ⟨_, _, hw⟩ := Res.bind_ok_inv hw
  rw [lengthOfRevise, hg1, ← Res.pure_ok_inv hw, List.length_append, List.length_append, writeInt_len, writeInt_len,
    optB_len _ _ _ (writeInt_len _)]
  rfl

theorem encodeRevise_ok (version t sid next : Nat) (hv : ValidRevise version t sid next) :
    ∃ b, encodeRevise version t sid next = .ok b := by
  have h1 : CheckDseProtocolVersion version = true := by rw [CheckDseProtocolVersion, hv.dse]; rfl
  have h2 : CheckValidDseRevisionType t version = true := by
    rw [CheckValidDseRevisionType, hv.type, hv.typeVersion]; rfl
  rw [encodeRevise, h1, h2]; exact ⟨_, rfl⟩

theorem decodeRevise_noPanic (version : Nat) : NoPanic (decodeRevise version) := by
  rw [decodeRevise]; no_panic

example : ValidRevise ProtocolVersionDse2 DseRevisionTypeMoreContinuousPages 7 3 :=
  ⟨by decide, by decide, by decide, by decide, by decide⟩

/-! ## QUERY -/

/-- from the specs: a `[long string]` and valid query parameters (nil `Options` stands for `&QueryOptions{}`) -/
structure ValidQuery (version : Nat) (query : Bytes) (opts : Option QueryOptions) : Prop where
  queryLen : query.length < 2147483648
  optsValid : ValidQO? version opts
  contDse : ContOnlyDse version opts

/-- `Options == nil` reads back as `&QueryOptions{}`; then `canonQO` -/
def canonQuery (version : Nat) (query : Bytes) (opts : Option QueryOptions) : Bytes × Option QueryOptions :=
  (query, canonQO? version opts)

theorem decodeQuery_RT (version : Nat) (q : Bytes) (opts : Option QueryOptions) (hv : ValidQuery version q opts)
    (b : Bytes) (hw : encodeQuery version q opts = .ok b) (rest : Bytes) :
    (decodeQuery version).run (b ++ rest) = .ok (canonQuery version q opts, rest) := by
  rw [encodeQuery] at hw
  obtain ⟨o, ho, hw⟩ := Res.bind_ok_inv hw
  rw [← Res.pure_ok_inv hw, List.append_assoc, decodeQuery, bind_ok (readLongString_RT q hv.queryLen _),
    bind_ok (decodeQO_RT version opts hv.optsValid o ho rest)]
  rfl

theorem encodeQuery_len (version : Nat) (q : Bytes) (opts : Option QueryOptions) (b : Bytes)
    (hw : encodeQuery version q opts = .ok b) : lengthOfQuery version q opts = .ok b.length := by
  rw [encodeQuery] at hw
  obtain ⟨o, ho, hw⟩ := Res.bind_ok_inv hw
  rw [lengthOfQuery, encodeQO_len version opts o ho, ← Res.pure_ok_inv hw, List.length_append, writeLongString_len]
  rfl

theorem encodeQuery_ok (version : Nat) (q : Bytes) (opts : Option QueryOptions) (hv : ValidQuery version q opts) :
    ∃ b, encodeQuery version q opts = .ok b := by
  obtain ⟨o, ho⟩ := encodeQO_ok version opts hv.optsValid hv.contDse
  rw [encodeQuery]
  exact res_bind_ok ho ⟨_, rfl⟩

theorem decodeQuery_noPanic (version : Nat) : NoPanic (decodeQuery version) := by
  rw [decodeQuery]; no_panic [NoPanic.readLongString, decodeQO_noPanic version]

example : ValidQuery 4 [83, 69, 76] none :=
  ⟨by decide, fun o h => (by cases h), fun o c h => (by cases h)⟩

example : ValidQuery 4 [83, 69, 76]
    (some { consistency := ConsistencyLevelQuorum,
            positionalValues := some [some (.regular (some [1])), some .null], namedValues := none,
            skipMetadata := true, pageSize := 100, pageSizeInBytes := false, pagingState := some [9],
            serialConsistency := some ConsistencyLevelLocalSerial, defaultTimestamp := some 5, keyspace := [],
            nowInSeconds := none, continuousPagingOptions := none }) := by
  refine ⟨by decide, fun o h => ?_, fun o c h hc => ?_⟩
  · cases h
    refine ⟨by decide, fun _ => rfl, fun l hl => ?_, fun l hl => (by cases hl), by decide,
      fun c hc => (by cases hc; decide), fun c hc => (by cases hc; decide), fun t ht => (by cases ht; decide),
      by decide, fun n hn => (by cases hn), fun c hc => (by cases hc), fun _ => ⟨rfl, rfl, rfl⟩⟩
    cases hl
    refine ⟨by decide, fun v hv => ?_⟩
    simp at hv
    rcases hv with rfl | rfl
    · exact (by decide : [1].length < 2147483648)
    · trivial
  · cases h; cases hc

/-! ## EXECUTE -/

/-- a prepared id: present, non-empty, fits `[short bytes]` -/
def ValidId (id : Option Bytes) : Prop := ∃ i, id = some i ∧ i ≠ [] ∧ i.length < 65536

/-- from the specs: the prepared id; the result metadata id exactly where the version has it (v5, DSE v2);
    valid query parameters -/
structure ValidExecute (version : Nat) (queryId resultMetadataId : Option Bytes) (opts : Option QueryOptions) :
    Prop where
  qid : ValidId queryId
  rid : ProtocolVersion_SupportsResultMetadataId version = true → ValidId resultMetadataId
  noRid : ProtocolVersion_SupportsResultMetadataId version = false → resultMetadataId = none
  optsValid : ValidQO? version opts
  contDse : ContOnlyDse version opts

/-- `Options == nil` reads back as `&QueryOptions{}`; then `canonQO` -/
def canonExecute (version : Nat) (queryId resultMetadataId : Option Bytes) (opts : Option QueryOptions) :
    Option Bytes × Option Bytes × Option QueryOptions :=
  (queryId, resultMetadataId, canonQO? version opts)

theorem decodeExecuteId_RT (id : Option Bytes) (hv : ValidId id) (msg msg' : String) (b : Bytes)
    (hw : encodeExecuteId id msg = .ok b) (rest : Bytes) :
    (decodeExecuteId msg').run (b ++ rest) = .ok (id, rest) := by
  obtain ⟨i, rfl, hne, hl⟩ := hv
  rw [encodeExecuteId] at hw
  obtain ⟨_, _, hw⟩ := Res.bind_ok_inv hw
  have hne' : (i != []) = true := by simpa using hne
  rw [← Res.pure_ok_inv hw, decodeExecuteId, bind_ok (readShortBytes_RT (some i) hl rest)]
  simp only [Option.getD_some]
  rw [hne', bind_ok (guardP_true _ _)]
  rfl

theorem encodeExecuteId_len (id : Option Bytes) (msg : String) (b : Bytes) (hw : encodeExecuteId id msg = .ok b) :
    b.length = lengthOfShortBytes id := by
  rw [encodeExecuteId] at hw
  obtain ⟨_, _, hw⟩ := Res.bind_ok_inv hw
  rw [← Res.pure_ok_inv hw, writeShortBytes_len]

theorem encodeExecuteId_ok (id : Option Bytes) (hv : ValidId id) (msg : String) :
    ∃ b, encodeExecuteId id msg = .ok b := by
  obtain ⟨i, rfl, hne, _⟩ := hv
  have hne' : (i != []) = true := by simpa using hne
  rw [encodeExecuteId]
  simp only [Option.getD_some]
  rw [hne']; exact ⟨_, rfl⟩

theorem decodeExecuteId_noPanic (msg : String) : NoPanic (decodeExecuteId msg) := by
  rw [decodeExecuteId]; no_panic [NoPanic.readShortBytes]

theorem decodeExecute_RT (version : Nat) (qid rid : Option Bytes) (opts : Option QueryOptions)
    (hv : ValidExecute version qid rid opts) (b : Bytes) (hw : encodeExecute version qid rid opts = .ok b)
    (rest : Bytes) :
    (decodeExecute version).run (b ++ rest) = .ok (canonExecute version qid rid opts, rest) := by
  rw [encodeExecute] at hw
  obtain ⟨q, hq, hw⟩ := Res.bind_ok_inv hw
  obtain ⟨r, hr, hw⟩ := Res.bind_ok_inv hw
  obtain ⟨o, ho, hw⟩ := Res.bind_ok_inv hw
  rw [← Res.pure_ok_inv hw]
  simp only [List.append_assoc]
  rw [decodeExecute, bind_ok (decodeExecuteId_RT qid hv.qid _ _ q hq _),
    bind_ok (whenP_whenW_RT (ProtocolVersion_SupportsResultMetadataId version)
      (decodeExecuteId "EXECUTE missing result metadata id") none rid _ r hr _
      (fun h b' hb' => decodeExecuteId_RT rid (hv.rid h) _ _ b' hb' _)
      (fun h => hv.noRid h)),
    bind_ok (decodeQO_RT version opts hv.optsValid o ho rest)]
  rfl

theorem encodeExecute_len (version : Nat) (qid rid : Option Bytes) (opts : Option QueryOptions) (b : Bytes)
    (hw : encodeExecute version qid rid opts = .ok b) : lengthOfExecute version qid rid opts = .ok b.length := by
  rw [encodeExecute] at hw
  obtain ⟨q, hq, hw⟩ := Res.bind_ok_inv hw
  obtain ⟨r, hr, hw⟩ := Res.bind_ok_inv hw
  obtain ⟨o, ho, hw⟩ := Res.bind_ok_inv hw
  have hr' := whenW_len_optN _ _ (lengthOfShortBytes rid) r hr (fun _ b' hb' => encodeExecuteId_len rid _ b' hb')
  rw [lengthOfExecute, encodeQO_len version opts o ho, ← Res.pure_ok_inv hw, List.length_append, List.length_append,
    encodeExecuteId_len qid _ q hq, hr']
  rfl

theorem encodeExecute_ok (version : Nat) (qid rid : Option Bytes) (opts : Option QueryOptions)
    (hv : ValidExecute version qid rid opts) : ∃ b, encodeExecute version qid rid opts = .ok b := by
  obtain ⟨q, hq⟩ := encodeExecuteId_ok qid hv.qid "EXECUTE missing query id"
  obtain ⟨r, hr⟩ := whenW_ok (ProtocolVersion_SupportsResultMetadataId version)
    (encodeExecuteId rid "EXECUTE missing result metadata id") (fun h => encodeExecuteId_ok rid (hv.rid h) _)
  obtain ⟨o, ho⟩ := encodeQO_ok version opts hv.optsValid hv.contDse
  rw [encodeExecute]
  exact res_bind_ok hq (res_bind_ok hr (res_bind_ok ho ⟨_, rfl⟩))

theorem decodeExecute_noPanic (version : Nat) : NoPanic (decodeExecute version) := by
  rw [decodeExecute]; no_panic [decodeExecuteId_noPanic, decodeQO_noPanic version]

example : ValidExecute 5 (some [1, 2]) (some [3]) none :=
  ⟨⟨_, rfl, by decide, by decide⟩, fun _ => ⟨_, rfl, by decide, by decide⟩, fun h => (by cases h),
    fun o h => (by cases h), fun o c h => (by cases h)⟩

example : ValidExecute 4 (some [1, 2]) none none :=
  ⟨⟨_, rfl, by decide, by decide⟩, fun h => (by cases h), fun _ => rfl,
    fun o h => (by cases h), fun o c h => (by cases h)⟩

/-! ## BATCH -/

/-- each flag test reads back the presence test that set it; the value-names flag is never set -/
theorem bflags_has : ∀ (b1 b2 b3 b4 : Bool),
    has (bflags b1 b2 b3 b4) QueryFlagSerialConsistency = b1 ∧
    has (bflags b1 b2 b3 b4) QueryFlagDefaultTimestamp = b2 ∧
    has (bflags b1 b2 b3 b4) QueryFlagWithKeyspace = b3 ∧
    has (bflags b1 b2 b3 b4) QueryFlagNowInSeconds = b4 ∧
    has (bflags b1 b2 b3 b4) QueryFlagValueNames = false ∧
    bflags b1 b2 b3 b4 < 4294967296 := by decide

theorem bflags_lt256 : ∀ (b1 b2 b3 : Bool), bflags b1 b2 b3 false < 256 := by decide

/-! ### version facts (for an arbitrary version number) -/

theorem batchFlags_serial (version : Nat) (h : ProtocolVersion_SupportsBatchQueryFlags version = true) :
    ProtocolVersion_SupportsQueryFlag version QueryFlagSerialConsistency = true := by
  rw [ProtocolVersion_SupportsBatchQueryFlags] at h
  have h3 : version ≥ ProtocolVersion3 := of_decide_eq_true h
  show decide (version ≥ ProtocolVersion2) = true
  exact decide_eq_true (Nat.le_trans (by decide) h3)

theorem batchFlags_timestamp (version : Nat) (h : ProtocolVersion_SupportsBatchQueryFlags version = true) :
    ProtocolVersion_SupportsQueryFlag version QueryFlagDefaultTimestamp = true := h

theorem keyspace_batchFlags (version : Nat)
    (h : ProtocolVersion_SupportsQueryFlag version QueryFlagWithKeyspace = true) :
    ProtocolVersion_SupportsBatchQueryFlags version = true := by
  have h' : (decide (version ≥ ProtocolVersion5) && (version != ProtocolVersionDse1)) = true := h
  rw [Bool.and_eq_true] at h'
  have h5 : version ≥ ProtocolVersion5 := of_decide_eq_true h'.1
  rw [ProtocolVersion_SupportsBatchQueryFlags]
  exact decide_eq_true (Nat.le_trans (by decide) h5)

theorem now_batchFlags (version : Nat)
    (h : ProtocolVersion_SupportsQueryFlag version QueryFlagNowInSeconds = true) :
    ProtocolVersion_SupportsBatchQueryFlags version = true ∧ ProtocolVersion_Uses4BytesQueryFlags version = true := by
  have h' : ((decide (version ≥ ProtocolVersion5) && (version != ProtocolVersionDse1)) &&
      (version != ProtocolVersionDse2)) = true := h
  rw [Bool.and_eq_true, Bool.and_eq_true] at h'
  have h5 : version ≥ ProtocolVersion5 := of_decide_eq_true h'.1.1
  rw [ProtocolVersion_SupportsBatchQueryFlags, ProtocolVersion_Uses4BytesQueryFlags]
  exact ⟨decide_eq_true (Nat.le_trans (by decide) h5), h'.1.1⟩

/-! ### children -/

/-- a `<query_i>`: exactly one of query string / prepared id (the Go struct can hold both; "`Id` absent" is nil or
    empty), a `[long string]` or `[short bytes]`, at most 65535 valid values -/
structure ValidBatchChild (version : Nat) (c : BatchChild) : Prop where
  -- SUSPECT: (minor) `query ≠ []` for a kind-0 child is forced by `encodeBatch_ok` only: the Go struct has no kind
  -- field (the kind is `Query != ""`), so a kind-0 child with an empty `[long string]` — which the decoder accepts and
  -- returns as `BatchChild{Query: "", Id: nil}` — cannot be written back ("cannot write empty BATCH query id").
  oneOf : (c.query ≠ [] ∧ c.id.getD [] = []) ∨ (c.query = [] ∧ c.id.getD [] ≠ [])
  queryLen : c.query.length < 2147483648
  idLen : (c.id.getD []).length < 65536
  count : (c.values.getD []).length < 65536
  values : ∀ v ∈ c.values.getD [], validValue version v

/-- a kind-0 child has no `[short bytes]` on the wire, so an empty non-nil `Id` next to a query reads back nil; the value
    count is always written, so nil values read back empty; values go through `canonValue` -/
def canonBatchChild (c : BatchChild) : BatchChild :=
  { query := c.query
    id := if c.query != [] then none else c.id
    values := some ((c.values.getD []).map (Option.map canonValue)) }

theorem decodeBatchChildHead_RT (version : Nat) (c : BatchChild) (hv : ValidBatchChild version c) (b : Bytes)
    (hw : encodeBatchChildHead c = .ok b) (rest : Bytes) :
    decodeBatchChildHead.run (b ++ rest) = .ok ((c.query, if c.query != [] then none else c.id), rest) := by
  rw [encodeBatchChildHead] at hw
  rcases hv.oneOf with ⟨hq, _⟩ | ⟨hq, hi⟩
  · have hq' : (c.query != []) = true := by simpa using hq
    rw [hq', if_pos rfl] at hw
    rw [hq', if_pos rfl, ← Res.ok_inj hw, List.append_assoc, decodeBatchChildHead,
      bind_ok (readByte_RT _ (by decide) _), if_pos rfl, map_run, readLongString_RT _ hv.queryLen _]
  · have hq' : (c.query != []) = false := by rw [hq]; rfl
    rw [hq', if_neg (by decide)] at hw
    obtain ⟨_, _, hw⟩ := Res.bind_ok_inv hw
    have hid : c.id = some (c.id.getD []) := by
      cases h : c.id with
      | none => rw [h] at hi; exact absurd rfl hi
      | some x => rfl
    rw [hq', if_neg (by decide), ← Res.pure_ok_inv hw, List.append_assoc, decodeBatchChildHead,
      bind_ok (readByte_RT _ (by decide) _), if_neg (by decide), if_pos rfl, map_run,
      readShortBytes_RT _ hv.idLen _, ← hid, hq]

theorem decodeBatchChild_RT (version : Nat) (c : BatchChild) (hv : ValidBatchChild version c) (b : Bytes)
    (hw : encodeBatchChild version c = .ok b) (rest : Bytes) :
    (decodeBatchChild version).run (b ++ rest) = .ok (canonBatchChild c, rest) := by
  rw [encodeBatchChild] at hw
  obtain ⟨head, hhead, hw⟩ := Res.bind_ok_inv hw
  obtain ⟨vals, hvals, hw⟩ := Res.bind_ok_inv hw
  rw [← Res.pure_ok_inv hw, List.append_assoc, decodeBatchChild,
    bind_ok (decodeBatchChildHead_RT version c hv head hhead _),
    bind_ok (readPositionalValues_RT version _ hv.count hv.values vals hvals rest)]
  rfl

theorem encodeBatchChild_len (version : Nat) (c : BatchChild) (b : Bytes) (hw : encodeBatchChild version c = .ok b) :
    lengthOfBatchChild c = .ok b.length := by
  rw [encodeBatchChild] at hw
  obtain ⟨head, hhead, hw⟩ := Res.bind_ok_inv hw
  obtain ⟨vals, hvals, hw⟩ := Res.bind_ok_inv hw
  rw [lengthOfBatchChild, writePositionalValues_len version _ vals hvals, ← Res.pure_ok_inv hw, List.length_append]
  rw [encodeBatchChildHead] at hhead
  cases hq : (c.query != []) with
  | true =>
    rw [hq, if_pos rfl] at hhead
    rw [if_pos rfl, ← Res.ok_inj hhead, List.length_append, writeByte_len, writeLongString_len]; rfl
  | false =>
    rw [hq, if_neg (by decide)] at hhead
    obtain ⟨_, _, hhead⟩ := Res.bind_ok_inv hhead
    rw [if_neg (by decide), ← Res.pure_ok_inv hhead, List.length_append, writeByte_len, writeShortBytes_len]; rfl

theorem encodeBatchChild_ok (version : Nat) (c : BatchChild) (hv : ValidBatchChild version c) :
    ∃ b, encodeBatchChild version c = .ok b := by
  obtain ⟨vals, hvals⟩ := writePositionalValues_ok version (c.values.getD []) hv.values
  have hhead : ∃ h, encodeBatchChildHead c = .ok h := by
    rw [encodeBatchChildHead]
    rcases hv.oneOf with ⟨hq, _⟩ | ⟨hq, hi⟩
    · have hq' : (c.query != []) = true := by simpa using hq
      rw [hq', if_pos rfl]; exact ⟨_, rfl⟩
    · have hq' : (c.query != []) = false := by rw [hq]; rfl
      have hi' : (c.id.getD [] != []) = true := by simpa using hi
      rw [hq', if_neg (by decide), hi']; exact ⟨_, rfl⟩
  obtain ⟨head, hhead⟩ := hhead
  rw [encodeBatchChild]
  exact res_bind_ok hhead (res_bind_ok hvals ⟨_, rfl⟩)

theorem decodeBatchChild_noPanic (version : Nat) : NoPanic (decodeBatchChild version) := by
  have h1 : NoPanic decodeBatchChildHead := by
    rw [decodeBatchChildHead]; no_panic [NoPanic.readLongString, NoPanic.readShortBytes]
  rw [decodeBatchChild]; no_panic [h1, NoPanic.readPositionalValues version]

/-! ### the message -/

/-- version-validity of BATCH, from the specs (v2 §4.1.7: no flags at all; v3/v4/DSE v1: serial consistency and
    timestamp; v5, DSE v2: keyspace; v5: now-in-seconds). The consistency levels only need to fit a `[short]`:
    neither the Go encoder nor the decoder validates them for BATCH (the specs do name the legal values). -/
structure ValidBatch (version : Nat) (b : Batch) : Prop where
  type : BatchType_IsValid b.type = true
  count : (b.children.getD []).length < 65536
  children : ∀ c ∈ b.children.getD [], ValidBatchChild version c
  consistency : b.consistency < 65536
  serial : ∀ c, b.serialConsistency = some c → c < 65536
  timestamp : ∀ t, b.defaultTimestamp = some t → t < 18446744073709551616
  keyspace : b.keyspace.length < 65536
  now : ∀ n, b.nowInSeconds = some n → n < 4294967296
  serialVersion : b.serialConsistency ≠ none → ProtocolVersion_SupportsBatchQueryFlags version = true
  timestampVersion : b.defaultTimestamp ≠ none → ProtocolVersion_SupportsBatchQueryFlags version = true
  keyspaceVersion : b.keyspace ≠ [] → ProtocolVersion_SupportsQueryFlag version QueryFlagWithKeyspace = true
  nowVersion : b.nowInSeconds ≠ none → ProtocolVersion_SupportsQueryFlag version QueryFlagNowInSeconds = true

/-- `<n>` is always written, so a nil child list reads back empty; children through `canonBatchChild` -/
def canonBatch (_version : Nat) (b : Batch) : Batch :=
  { b with children := some ((b.children.getD []).map canonBatchChild) }

private theorem batchType_lt (t : Nat) (h : BatchType_IsValid t = true) : t < 256 := by
  have : ∀ x ∈ BatchType_IsValid_cases, x < 256 := by decide
  exact this t (by simpa [BatchType_IsValid] using h)

theorem ValidBatch.noTail {version : Nat} {b : Batch} (hv : ValidBatch version b)
    (h : ProtocolVersion_SupportsBatchQueryFlags version = false) :
    b.serialConsistency = none ∧ b.defaultTimestamp = none ∧ b.keyspace = [] ∧ b.nowInSeconds = none := by
  refine ⟨?_, ?_, ?_, ?_⟩
  · cases hs : b.serialConsistency with
    | none => rfl
    | some x => have := hv.serialVersion (by rw [hs]; intro h'; cases h'); rw [this] at h; cases h
  · cases hs : b.defaultTimestamp with
    | none => rfl
    | some x => have := hv.timestampVersion (by rw [hs]; intro h'; cases h'); rw [this] at h; cases h
  · cases hs : b.keyspace with
    | nil => rfl
    | cons x xs =>
      have := keyspace_batchFlags version (hv.keyspaceVersion (by rw [hs]; intro h'; cases h'))
      rw [this] at h; cases h
  · cases hs : b.nowInSeconds with
    | none => rfl
    | some x =>
      have := (now_batchFlags version (hv.nowVersion (by rw [hs]; intro h'; cases h'))).1
      rw [this] at h; cases h

theorem batch_flags_lt256 {version : Nat} {b : Batch} (hv : ValidBatch version b)
    (h4 : ProtocolVersion_Uses4BytesQueryFlags version = false) : b.flags < 256 := by
  have hn : b.nowInSeconds = none := by
    cases hs : b.nowInSeconds with
    | none => rfl
    | some x =>
      have := (now_batchFlags version (hv.nowVersion (by rw [hs]; intro h'; cases h'))).2
      rw [this] at h4; cases h4
  rw [Batch.flags, hn]; exact bflags_lt256 _ _ _

theorem decodeBatchTail_RT (version : Nat) (b : Batch) (hv : ValidBatch version b)
    (hs : ProtocolVersion_SupportsBatchQueryFlags version = true) (bs : Bytes)
    (hw : encodeBatchTail version b = .ok bs) (rest : Bytes) :
    (decodeBatchTail version).run (bs ++ rest) =
      .ok (⟨b.serialConsistency, b.defaultTimestamp, b.keyspace, b.nowInSeconds⟩, rest) := by
  have F := bflags_has b.serialConsistency.isSome b.defaultTimestamp.isSome (b.keyspace != []) b.nowInSeconds.isSome
  rw [← Batch.flags] at F
  obtain ⟨f1, f2, f3, f4, f5, flt⟩ := F
  have hnames : (!(has b.flags QueryFlagValueNames)) = true := by rw [f5]; rfl
  have b1 : bhas version b.flags QueryFlagSerialConsistency = has b.flags QueryFlagSerialConsistency := by
    rw [bhas, batchFlags_serial version hs, Bool.true_and]
  have b2 : bhas version b.flags QueryFlagDefaultTimestamp = has b.flags QueryFlagDefaultTimestamp := by
    rw [bhas, batchFlags_timestamp version hs, Bool.true_and]
  rw [encodeBatchTail, b1, b2] at hw
  obtain ⟨ks, hks, hw⟩ := Res.bind_ok_inv hw
  rw [← Res.pure_ok_inv hw]
  simp only [List.append_assoc]
  rw [decodeBatchTail, bind_ok (readQueryFlags_RT version b.flags flt (batch_flags_lt256 hv) _), hnames,
    bind_ok (guardP_true _ _)]
  -- serial consistency
  rw [bind_ok (whenP_optB_RT (has b.flags QueryFlagSerialConsistency) (some <$> readShort) none b.serialConsistency _ _
    (fun h => by
      rw [f1] at h
      cases hc : b.serialConsistency with
      | none => rw [hc] at h; cases h
      | some c => rw [map_run, Option.getD_some, readShort_RT c (hv.serial c hc) _])
    (fun h => by rw [f1] at h; cases hc : b.serialConsistency with
      | none => rfl
      | some x => rw [hc] at h; cases h))]
  -- default timestamp
  rw [bind_ok (whenP_optB_RT (has b.flags QueryFlagDefaultTimestamp) (some <$> readLong) none b.defaultTimestamp _ _
    (fun h => by
      rw [f2] at h
      cases ht : b.defaultTimestamp with
      | none => rw [ht] at h; cases h
      | some t => rw [map_run, Option.getD_some, readLong_RT t (hv.timestamp t ht) _])
    (fun h => by rw [f2] at h; cases ht : b.defaultTimestamp with
      | none => rfl
      | some x => rw [ht] at h; cases h))]
  -- keyspace
  rw [bind_ok (whenP_whenW_RT (bhas version b.flags QueryFlagWithKeyspace) readString [] b.keyspace _ ks hks _
    (fun _ b' hb' => by
      rw [encodeKeyspace] at hb'
      obtain ⟨_, _, hb'⟩ := Res.bind_ok_inv hb'
      rw [← Res.pure_ok_inv hb']; exact readString_RT _ hv.keyspace _)
    (fun h => by
      cases hk : b.keyspace with
      | nil => rfl
      | cons x xs =>
        have hsup := hv.keyspaceVersion (by rw [hk]; intro h'; cases h')
        rw [bhas, f3, hsup, hk] at h; cases h))]
  -- now in seconds
  rw [bind_ok (whenP_optB_RT (bhas version b.flags QueryFlagNowInSeconds) (some <$> readInt) none b.nowInSeconds _ _
    (fun h => by
      cases hn : b.nowInSeconds with
      | none => rw [bhas, f4, hn] at h; simp at h
      | some n => rw [map_run, Option.getD_some, readInt_RT n (hv.now n hn) _])
    (fun h => by
      cases hn : b.nowInSeconds with
      | none => rfl
      | some n =>
        have hsup := hv.nowVersion (by rw [hn]; intro h'; cases h')
        rw [bhas, f4, hsup, hn] at h; cases h))]
  rfl

theorem decodeBatch_RT (version : Nat) (b : Batch) (hv : ValidBatch version b) (bs : Bytes)
    (hw : encodeBatch version b = .ok bs) (rest : Bytes) :
    (decodeBatch version).run (bs ++ rest) = .ok (canonBatch version b, rest) := by
  rw [encodeBatch] at hw
  obtain ⟨_, hg, hw⟩ := Res.bind_ok_inv hw
  obtain ⟨_, _, hw⟩ := Res.bind_ok_inv hw
  obtain ⟨cs, hcs, hw⟩ := Res.bind_ok_inv hw
  obtain ⟨tail, htail, hw⟩ := Res.bind_ok_inv hw
  rw [← Res.pure_ok_inv hw, Nat.mod_eq_of_lt hv.count]
  simp only [List.append_assoc]
  rw [decodeBatch, bind_ok (readByte_RT _ (batchType_lt _ hv.type) _), guard_ok_inv hg, bind_ok (guardP_true _ _),
    bind_ok (readShort_RT _ hv.count _),
    bind_ok (readN_writeAll_RT (decodeBatchChild version) (encodeBatchChild version) canonBatchChild _
      (fun x hx bx hbx r => decodeBatchChild_RT version x (hv.children x hx) bx hbx r) cs hcs _),
    bind_ok (readShort_RT _ hv.consistency _),
    bind_ok (whenP_whenW_RT (ProtocolVersion_SupportsBatchQueryFlags version) (decodeBatchTail version)
      ⟨none, none, [], none⟩ ⟨b.serialConsistency, b.defaultTimestamp, b.keyspace, b.nowInSeconds⟩ _ tail htail rest
      (fun h b' hb' => decodeBatchTail_RT version b hv h b' hb' rest)
      (fun h => by
        obtain ⟨h1, h2, h3, h4⟩ := hv.noTail h
        rw [h1, h2, h3, h4]))]
  rfl

theorem encodeBatchTail_len (version : Nat) (b : Batch) (bs : Bytes) (hw : encodeBatchTail version b = .ok bs) :
    bs.length = lengthOfBatchTail version b := by
  rw [encodeBatchTail] at hw
  obtain ⟨ks, hks, hw⟩ := Res.bind_ok_inv hw
  have hk := whenW_len_optN _ _ (lengthOfString b.keyspace) ks hks (fun _ b' hb' => by
    rw [encodeKeyspace] at hb'
    obtain ⟨_, _, hb'⟩ := Res.bind_ok_inv hb'
    rw [← Res.pure_ok_inv hb', writeString_len])
  rw [← Res.pure_ok_inv hw]
  simp only [List.length_append]
  rw [writeQueryFlags_len, optB_len _ _ _ (writeShort_len _), optB_len _ _ _ (writeLong_len _), hk,
    optB_len _ _ _ (writeInt_len _)]
  rfl

theorem encodeBatch_len (version : Nat) (b : Batch) (bs : Bytes) (hw : encodeBatch version b = .ok bs) :
    lengthOfBatch version b = .ok bs.length := by
  rw [encodeBatch] at hw
  obtain ⟨_, _, hw⟩ := Res.bind_ok_inv hw
  obtain ⟨_, hg, hw⟩ := Res.bind_ok_inv hw
  obtain ⟨cs, hcs, hw⟩ := Res.bind_ok_inv hw
  obtain ⟨tail, htail, hw⟩ := Res.bind_ok_inv hw
  have ht := whenW_len_optN _ _ (lengthOfBatchTail version b) tail htail
    (fun _ b' hb' => encodeBatchTail_len version b b' hb')
  rw [lengthOfBatch, guard_ok_inv hg, sumAll_writeAll_len (encodeBatchChild version) lengthOfBatchChild _
    (fun x _ bx hbx => encodeBatchChild_len version x bx hbx) cs hcs, ← Res.pure_ok_inv hw]
  simp only [List.length_append]
  rw [writeByte_len, writeShort_len, writeShort_len, ht]
  rfl

theorem encodeBatchTail_ok (version : Nat) (b : Batch) : ∃ bs, encodeBatchTail version b = .ok bs := by
  have F := bflags_has b.serialConsistency.isSome b.defaultTimestamp.isSome (b.keyspace != []) b.nowInSeconds.isSome
  rw [← Batch.flags] at F
  obtain ⟨ks, hks⟩ := whenW_ok (bhas version b.flags QueryFlagWithKeyspace) (encodeKeyspace b.keyspace) (fun h => by
    rw [bhas, F.2.2.1, Bool.and_eq_true] at h
    rw [encodeKeyspace, h.2]; exact ⟨_, rfl⟩)
  rw [encodeBatchTail]
  exact res_bind_ok hks ⟨_, rfl⟩

theorem encodeBatch_ok (version : Nat) (b : Batch) (hv : ValidBatch version b) :
    ∃ bs, encodeBatch version b = .ok bs := by
  have h1 : guard (CheckValidBatchType b.type) "invalid BATCH type" = .ok () := by
    rw [CheckValidBatchType, hv.type]; rfl
  have h2 : guard (decide ((b.children.getD []).length ≤ 65535))
      "BATCH messages can contain at most 65535 child queries" = .ok () := by
    have : (b.children.getD []).length ≤ 65535 := Nat.le_of_lt_succ hv.count
    rw [decide_eq_true this]; rfl
  obtain ⟨cs, hcs⟩ := writeAll_ok (encodeBatchChild version) (b.children.getD [])
    (fun c hc => encodeBatchChild_ok version c (hv.children c hc))
  obtain ⟨tail, htail⟩ := whenW_ok (ProtocolVersion_SupportsBatchQueryFlags version) (encodeBatchTail version b)
    (fun _ => encodeBatchTail_ok version b)
  rw [encodeBatch]
  exact res_bind_ok h1 (res_bind_ok h2 (res_bind_ok hcs (res_bind_ok htail ⟨_, rfl⟩)))

theorem decodeBatch_noPanic (version : Nat) : NoPanic (decodeBatch version) := by
  have h1 : NoPanic (decodeBatchTail version) := by
    rw [decodeBatchTail]; no_panic [readQueryFlags_noPanic version, NoPanic.readString]
  rw [decodeBatch]; no_panic [h1, decodeBatchChild_noPanic version]

/-- non-vacuity: a v5 batch with both child kinds and every optional field -/
example : ValidBatch 5
    { type := BatchTypeUnlogged,
      children := some [⟨[73, 78, 83], none, some [some (.regular (some [1])), some .null]⟩,
                        ⟨[], some [171, 205], none⟩],
      consistency := ConsistencyLevelQuorum, serialConsistency := some ConsistencyLevelSerial,
      defaultTimestamp := some 1234, keyspace := [107, 115], nowInSeconds := some 42 } := by
  refine ⟨by decide, by decide, fun c hc => ?_, by decide, fun c h => (by cases h; decide),
    fun t h => (by cases h; decide), by decide, fun n h => (by cases h; decide),
    fun _ => (by decide), fun _ => (by decide), fun _ => (by decide), fun _ => (by decide)⟩
  simp at hc
  rcases hc with rfl | rfl
  · refine ⟨Or.inl ⟨by decide, rfl⟩, by decide, by decide, by decide, fun v hv => ?_⟩
    simp at hv
    rcases hv with rfl | rfl
    · exact (by decide : [1].length < 2147483648)
    · trivial
  · exact ⟨Or.inr ⟨rfl, by decide⟩, by decide, by decide, by decide, fun v hv => (by cases hv)⟩

/-- non-vacuity: a v2 batch (no flags) -/
example : ValidBatch 2
    { type := BatchTypeLogged, children := some [⟨[], some [1], some []⟩], consistency := ConsistencyLevelOne,
      serialConsistency := none, defaultTimestamp := none, keyspace := [], nowInSeconds := none } := by
  refine ⟨by decide, by decide, fun c hc => ?_, by decide, fun c h => (by cases h), fun t h => (by cases h), by decide,
    fun n h => (by cases h), fun h => absurd rfl h, fun h => absurd rfl h, fun h => absurd rfl h, fun h => absurd rfl h⟩
  simp at hc
  subst hc
  exact ⟨Or.inr ⟨rfl, by decide⟩, by decide, by decide, by decide, fun v hv => (by cases hv)⟩

end Cql.Impl
