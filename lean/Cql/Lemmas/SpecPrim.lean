import Cql.Prim
import Cql.Spec.Notations
/-! The Go-shaped primitive writers produce the specification's notations. -/
namespace Cql.SpecPrim
open Cql Cql.Prim

theorem byte_eq (n : Nat) : writeByte n = Spec.byte n := by
  simp [writeByte, beBytes, Spec.byte, Spec.byteAt]

theorem short_eq (n : Nat) : writeShort n = Spec.short n := by
  simp [writeShort, beBytes, Spec.short, Spec.byteAt]

theorem int_eq (n : Nat) : writeInt n = Spec.uint n := by
  simp [writeInt, beBytes, Spec.uint, Spec.byteAt, Nat.div_div_eq_div_mul]

theorem long_eq (n : Nat) : writeLong n = Spec.ulong n := by
  simp [writeLong, beBytes, Spec.ulong, Spec.byteAt, Nat.div_div_eq_div_mul]

theorem ofInt_eq (w : Nat) (i : Int) : ofInt w i = Spec.twos w i := by
  simp [ofInt, Spec.twos]

theorem short_mod (n : Nat) : Spec.short (n % 65536) = Spec.short n := by
  simp [Spec.short, Spec.byteAt]; congr 1; omega

theorem uint_mod (n : Nat) : Spec.uint (n % 4294967296) = Spec.uint n := by
  simp [Spec.uint, Spec.byteAt]; refine ⟨?_, ?_, ?_⟩ <;> (congr 1; omega)

theorem string_eq (s : Bytes) : writeString s = Spec.string s := by
  rw [writeString, short_eq, short_mod]; rfl

theorem longString_eq (s : Bytes) : writeLongString s = Spec.longString s := by
  rw [writeLongString, int_eq, uint_mod]; rfl

theorem neg_one : Spec.int (-1) = Spec.uint 4294967295 := by decide
theorem neg_two : Spec.int (-2) = Spec.uint 4294967294 := by decide

theorem bytes_eq (b : Option Bytes) : writeBytes b = Spec.bytes b := by
  cases b with
  | none => rw [writeBytes, int_eq, Spec.bytes, neg_one]
  | some b => rw [writeBytes, int_eq, uint_mod]; rfl

theorem shortBytes_eq (b : Option Bytes) : writeShortBytes b = Spec.shortBytes (b.getD []) := by
  simp only [writeShortBytes]; rw [short_eq, short_mod]; rfl

theorem map_string (l : List Bytes) : l.map writeString = l.map Spec.string :=
  List.map_congr_left fun s _ => string_eq s

theorem stringList_eq (l : List Bytes) : writeStringList l = Spec.stringList l := by
  rw [writeStringList, short_eq, short_mod, map_string]; rfl

end Cql.SpecPrim
