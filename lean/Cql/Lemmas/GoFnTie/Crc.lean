import Cql.Crc
import Cql.Segment
import Cql.Gen.GoFnCrc
/-! Tie lemmas for `crc/crc24.go` and the header words of `segment/encode.go` (scheme: see `Cql/Lemmas/GoFnTie/Time.lean`). -/
set_option linter.unusedSimpArgs false
namespace Cql.GoFnTie
open Cql Cql.Gen.GoFn

/-! ### `crc/crc24.go` -/

theorem forUpFrom_const {σ : Type} (f : σ → σ) (n i : Nat) (s : σ) :
    GoRt.forUpFrom (fun _ s => f s) n i s = Crc.iter f n s := by
  induction n generalizing i s with
  | zero => rfl
  | succ n ih => rw [GoRt.forUpFrom, Crc.iter, ih]

theorem forUp_const {σ : Type} (f : σ → σ) (n : Nat) (s : σ) : GoRt.forUp n s (fun _ s => f s) = Crc.iter f n s :=
  forUpFrom_const f n 0 s

theorem count_8 : GoRt.count 8#64 = 8 := by decide

/-- `ChecksumKoopman` as written is the model's `crc24`, for the number of iterations its `len` allows -/
theorem checksumKoopman_tie (data len : BitVec 64) :
    ChecksumKoopman data len = Crc.crc24 data (GoRt.count len) := by
  unfold ChecksumKoopman Crc.crc24 Crc.crc24From
  have hbit : (fun (i2 : Nat) (crc : BitVec 32) =>
      let j : BitVec 64 := BitVec.ofNat 64 i2
      let crc := crc <<< (1 : Nat)
      let crc := (if ((crc &&& 16777216#32) != 0#32) then
          let crc := crc ^^^ 26693387#32
          crc
        else crc)
      crc) = fun _ crc => Crc.crc24Bit crc := by
    funext i2 crc
    simp only [Crc.crc24Bit, Crc.crc24Poly, bne_iff_ne]
  rw [hbit]
  have h8 : ∀ c, GoRt.forUp (GoRt.count 8#64) c (fun _ crc => Crc.crc24Bit crc) = Crc.iter Crc.crc24Bit 8 c :=
    fun c => by rw [count_8]; exact forUp_const _ _ _
  simp only [h8]
  have hbyte : (fun (i1 : Nat) (st : BitVec 32 × BitVec 64) =>
      (Crc.iter Crc.crc24Bit 8 (st.1 ^^^ (BitVec.setWidth 32 st.2 <<< (16 : Nat))), st.2 >>> (8 : Nat)))
      = fun _ st => Crc.crc24Byte st := by
    funext i1 st
    rfl
  rw [hbyte]
  exact congrArg Prod.fst (forUp_const Crc.crc24Byte _ _)

end Cql.GoFnTie
namespace Cql.GoFnTie
open Cql Cql.Gen.GoFn

/-! ### `segment/encode.go`: the header word and header length handed to `writeHeaderDataAndCrc` -/

theorem signExtend64_nonneg (l : BitVec 32) (h : l.toNat < 2147483648) : (BitVec.signExtend 64 l).toNat = l.toNat := by
  have hm : l.msb = false := by
    rw [BitVec.msb_eq_false_iff_two_mul_lt]; omega
  rw [BitVec.signExtend_eq_setWidth_of_msb_false hm, BitVec.toNat_setWidth]
  omega

/-- `encodeHeaderUncompressed` as written hands the model's header word and the uncompressed header length on -/
theorem encodeHeaderUncompressed_tie (l : BitVec 32) (sc : Bool) (h : l.toNat < 2147483648) :
    Segment.encodeHeaderUncompressed sc l.toNat =
      Segment.writeHeaderDataAndCrc (encodeHeaderUncompressed l sc).1.toNat (encodeHeaderUncompressed l sc).2.toNat := by
  unfold Segment.encodeHeaderUncompressed encodeHeaderUncompressed
  cases sc <;> simp [BitVec.toNat_or, signExtend64_nonneg l h, Segment.uncompressedHeaderLength]

/-- `encodeHeaderCompressed` as written hands the model's header word and the compressed header length on
    (both lengths below 2^17, as `EncodeSegment` guarantees) -/
theorem encodeHeaderCompressed_tie (c u : BitVec 32) (sc : Bool) (hc : c.toNat < 131072) (hu : u.toNat < 131072) :
    Segment.encodeHeaderCompressed sc c.toNat u.toNat =
      Segment.writeHeaderDataAndCrc (encodeHeaderCompressed c u sc).1.toNat (encodeHeaderCompressed c u sc).2.toNat := by
  unfold Segment.encodeHeaderCompressed encodeHeaderCompressed
  have h1 := signExtend64_nonneg c (by omega)
  have h2 := signExtend64_nonneg u (by omega)
  have h3 : u.toNat <<< 17 % 18446744073709551616 = u.toNat <<< 17 := by
    rw [Nat.shiftLeft_eq]; omega
  cases sc <;> simp [BitVec.toNat_or, BitVec.toNat_shiftLeft, h1, h2, h3, Segment.compressedHeaderLength]

/-! ### `segment/decode.go`: the fields `decodeSegmentHeader` extracts after its CRC check -/

theorem toNat_low17 (w : BitVec 64) : (BitVec.setWidth 32 (w &&& 131071#64)).toNat = w.toNat &&& 131071 := by
  rw [BitVec.toNat_setWidth, BitVec.toNat_and]
  have e : (131071#64 : BitVec 64).toNat = 131071 := rfl
  rw [e]
  have h : w.toNat &&& 131071 ≤ 131071 := Nat.and_le_right
  exact Nat.mod_eq_of_lt (by omega)

theorem beq_one_iff (w : BitVec 64) : ((w &&& 1#64) == 1#64) = decide (w.toNat &&& 1 = 1) := by
  have e : (1#64 : BitVec 64).toNat = 1 := rfl
  by_cases h : w.toNat &&& 1 = 1
  · have : (w &&& 1#64) = 1#64 := by
      apply BitVec.eq_of_toNat_eq; rw [BitVec.toNat_and, e, h]
    simp [this, h]
  · have : (w &&& 1#64) ≠ 1#64 := by
      intro hc; apply h
      have := congrArg BitVec.toNat hc
      rwa [BitVec.toNat_and, e] at this
    rw [decide_eq_false h]
    exact beq_false_of_ne this

theorem beq_zero32_iff (x : BitVec 32) : (x == 0#32) = decide (x.toNat = 0) := by
  by_cases h : x = 0#32
  · subst h; simp
  · have : x.toNat ≠ 0 := fun e => h (BitVec.eq_of_toNat_eq (by simpa using e))
    simp [h, this]

/-- `decodeSegmentHeader` as written, after the CRC check, without a compressor: what it puts into the `Header` -/
theorem decodeFields_nil (crc : BitVec 32) (w : BitVec 64) :
    decodeSegmentHeaderFields crc w true =
      (decide ((w.toNat >>> 17) &&& 1 = 1), BitVec.setWidth 32 (w &&& 131071#64), 0#32, crc, false) := by
  unfold decodeSegmentHeaderFields
  simp only [if_true, beq_one_iff, BitVec.toNat_ushiftRight]

/-- … and with a compressor: the two 17-bit lengths, swapped back when the uncompressed length is announced as 0 -/
theorem decodeFields_some (crc : BitVec 32) (w : BitVec 64) :
    decodeSegmentHeaderFields crc w false =
      (if (w.toNat >>> 17) &&& 131071 = 0 then
        (decide ((w.toNat >>> 34) &&& 1 = 1), BitVec.setWidth 32 (w &&& 131071#64), 0#32, crc, false)
       else
        (decide ((w.toNat >>> 34) &&& 1 = 1), BitVec.setWidth 32 ((w >>> (17 : Nat)) &&& 131071#64),
          BitVec.setWidth 32 (w &&& 131071#64), crc, false)) := by
  unfold decodeSegmentHeaderFields
  have hz : (BitVec.setWidth 32 ((w >>> (17 : Nat)) &&& 131071#64) == 0#32) = decide ((w.toNat >>> 17) &&& 131071 = 0) := by
    rw [beq_zero32_iff, toNat_low17, BitVec.toNat_ushiftRight]
  have h34 : ((w >>> (17 : Nat)) >>> (17 : Nat)).toNat = w.toNat >>> 34 := by
    rw [BitVec.toNat_ushiftRight, BitVec.toNat_ushiftRight, ← Nat.shiftRight_add]
  by_cases h : (w.toNat >>> 17) &&& 131071 = 0
  · simp only [Bool.false_eq_true, if_false, hz, h, decide_true, if_true, beq_one_iff, h34]
  · simp only [Bool.false_eq_true, if_false, hz, h, decide_false, beq_one_iff, h34]

/-- the header word of `encodeHeaderUncompressed` as written -/
theorem encodeHeaderUncompressed_word (l : BitVec 32) (sc : Bool) (h : l.toNat < 2147483648) :
    (encodeHeaderUncompressed l sc).1.toNat = (l.toNat ||| (if sc then 1 <<< 17 else 0)) := by
  unfold encodeHeaderUncompressed
  cases sc <;> simp [BitVec.toNat_or, signExtend64_nonneg l h]

/-- the header word of `encodeHeaderCompressed` as written -/
theorem encodeHeaderCompressed_word (c u : BitVec 32) (sc : Bool) (hc : c.toNat < 131072) (hu : u.toNat < 131072) :
    (encodeHeaderCompressed c u sc).1.toNat = (c.toNat ||| (u.toNat <<< 17) ||| (if sc then 1 <<< 34 else 0)) := by
  unfold encodeHeaderCompressed
  have h1 := signExtend64_nonneg c (by omega)
  have h2 := signExtend64_nonneg u (by omega)
  have h3 : u.toNat <<< 17 % 18446744073709551616 = u.toNat <<< 17 := by
    rw [Nat.shiftLeft_eq]; omega
  cases sc <;> simp [BitVec.toNat_or, BitVec.toNat_shiftLeft, h1, h2, h3]

/-- `codec.headerLength` as written is the model's `headerLength` -/
theorem headerLength_tie (c : Option Segment.PayloadCompressor) :
    (headerLength c.isNone).toNat = Segment.headerLength c := by
  cases c <;> rfl

end Cql.GoFnTie
