import Cql.Vint
import Cql.Gen.GoFnVint
/-! Tie lemmas for `primitive/vint.go` (see `Cql/Lemmas/GoFnTie/Time.lean` for the description of the scheme). -/
set_option linter.unusedSimpArgs false
namespace Cql.GoFnTie
open Cql Cql.Gen.GoFn

/-! ### `primitive/vint.go` -/

theorem encodeZigZag_tie (n : BitVec 64) : encodeZigZag n = Vint.encodeZigZag n := rfl
theorem decodeZigZag_tie (n : BitVec 64) : decodeZigZag n = Vint.decodeZigZag n := rfl

theorem bitLen_tie (n : Nat) : GoRt.bitLen n = Vint.bitLen n := rfl

/-- the arithmetic of `LengthOfUnsignedVint` on a leading-zero count `k ≤ 64`, as written on Go `int`s -/
theorem lengthOfLz (k : Nat) (hk : k < 65) :
    (let numBytes := BitVec.sshiftRight (639#64 - (BitVec.ofNat 64 k * 9#64)) 6
     if BitVec.sle numBytes 1#64 then 1#64 else numBytes).toNat
      = if Vint.numBytesOfLz k ≤ 1 then 1 else Vint.numBytesOfLz k := by
  revert k
  decide

/-- `LengthOfUnsignedVint` as written is the model's `lengthOfUnsignedVint` -/
theorem lengthOfUnsignedVint_tie (v : BitVec 64) :
    (LengthOfUnsignedVint v).toNat = Vint.lengthOfUnsignedVint v.toNat := by
  unfold LengthOfUnsignedVint Vint.lengthOfUnsignedVint Vint.numBytes Vint.leadingZeros64 GoRt.lz64
  rw [bitLen_tie]
  exact lengthOfLz (64 - Vint.bitLen v.toNat) (by omega)

theorem lengthOfVint_tie (v : BitVec 64) : (LengthOfVint v).toNat = Vint.lengthOfVint v := by
  unfold LengthOfVint Vint.lengthOfVint
  rw [lengthOfUnsignedVint_tie, encodeZigZag_tie]

end Cql.GoFnTie
