import Cql.TimeConv
import Cql.Gen.GoFnTime
/-!
# Tie lemmas: the hand-written models = the functions regenerated from the Go source (`Cql/Gen/GoFn*.lean`)

`verif-extract` (generator `gofn`) translates the library's pure integer functions statement by statement onto bit vectors
of the width of the Go types. Each lemma here proves, for ALL arguments, that such a regenerated function computes what
the hand-written model function computes (the model works on `Int` with explicit `wrap64`, on `Nat`, or on `BitVec`):

* `datacodec/math.go`: `addExact_tie`, `multiplyExact_tie`, `floorDiv_tie`, `floorMod_tie` — in particular the sign tests
  written with bit operations (`((x ^ r) & (y ^ r)) < 0`, `(x ^ y) < 0`) ARE the sign comparisons of the model, and Go's
  `/` on `int64` (`BitVec.sdiv`) is the truncating quotient;
* `timestamp.go`, `date.go`, `time.go`: `timeToEpochMillis_tie`, `epochMillisToTime_tie`, `timeToEpochDays_tie`,
  `epochDaysToTime_tie`, `durationToNanosOfDay_tie`, `nanosOfDayToDuration_tie`;
* `primitive/vint.go`: `encodeZigZag_tie`, `decodeZigZag_tie`, `lengthOfUnsignedVint_tie`, `lengthOfVint_tie`;
* `crc/crc24.go`: `checksumKoopman_tie` (the two nested counted loops are the model's `iter`);
* `segment/encode.go`: `encodeHeaderUncompressed_tie`, `encodeHeaderCompressed_tie`.

The property theorems are restated for the regenerated functions in `Props/C13AsWritten`, `Props/C03AsWritten`,
`Props/C06AsWritten`, `Props/C07AsWritten`. When the Go source changes what one of these functions computes, the lemma for
it stops checking. No Mathlib; axioms: `propext`, `Classical.choice`, `Quot.sound` only.
-/
set_option linter.unusedSimpArgs false
namespace Cql.GoFnTie
open Cql Cql.Gen.GoFn

/-! ### `int64` arithmetic on `BitVec 64` is the model's `Int` arithmetic with `wrap64` -/

theorem wrap64_eq_bmod (i : Int) : TimeConv.wrap64 i = i.bmod (2 ^ 64) := by
  rw [TimeConv.wrap64, Int.bmod_def]
  have : ((2:Nat)^64 : Nat) = 18446744073709551616 := by decide
  rw [this]
  split <;> omega

theorem toInt_range (x : BitVec 64) : TimeConv.inI64 x.toInt := by
  have h1 := @BitVec.toInt_lt 64 x
  have h2 := @BitVec.le_toInt 64 x
  simp at h1 h2
  exact ⟨by omega, by omega⟩

theorem toInt_add64 (x y : BitVec 64) : (x + y).toInt = TimeConv.wrap64 (x.toInt + y.toInt) := by
  rw [BitVec.toInt_add, wrap64_eq_bmod]

theorem toInt_sub64 (x y : BitVec 64) : (x - y).toInt = TimeConv.wrap64 (x.toInt - y.toInt) := by
  rw [BitVec.toInt_sub, wrap64_eq_bmod]

theorem toInt_mul64 (x y : BitVec 64) : (x * y).toInt = TimeConv.wrap64 (x.toInt * y.toInt) := by
  rw [BitVec.toInt_mul, wrap64_eq_bmod]

theorem tquot_eq_tdiv (a b : Int) : TimeConv.tquot a b = a.tdiv b := by
  unfold TimeConv.tquot
  by_cases ha : 0 ≤ a <;> by_cases hb : 0 ≤ b <;> simp only [ha, hb, if_true, if_false]
  · exact (Int.tdiv_eq_ediv_of_nonneg ha).symm
  · have : b = -(-b) := by omega
    rw [this, Int.tdiv_neg, Int.tdiv_eq_ediv_of_nonneg ha]; simp
  · have : a = -(-a) := by omega
    rw [this, Int.neg_tdiv, Int.tdiv_eq_ediv_of_nonneg (by omega)]; simp
  · have h1 : a = -(-a) := by omega
    have h2 : b = -(-b) := by omega
    rw [h1, h2, Int.neg_tdiv, Int.tdiv_neg, Int.tdiv_eq_ediv_of_nonneg (by omega)]; simp

theorem toInt_sdiv64 (x y : BitVec 64) : (BitVec.sdiv x y).toInt = TimeConv.wrap64 (TimeConv.tquot x.toInt y.toInt) := by
  rw [BitVec.toInt_sdiv, wrap64_eq_bmod, tquot_eq_tdiv]

theorem neg_toInt (x : BitVec 64) : TimeConv.neg x.toInt = x.msb := by
  rw [TimeConv.neg, BitVec.msb_eq_toInt]

theorem toInt_inj64 {x y : BitVec 64} : x = y ↔ x.toInt = y.toInt := BitVec.toInt_inj.symm

end Cql.GoFnTie

namespace Cql.GoFnTie
open Cql Cql.Gen.GoFn

theorem beq_toInt (x y : BitVec 64) : (x == y) = decide (x.toInt = y.toInt) := by
  by_cases h : x = y
  · subst h; simp
  · have : x.toInt ≠ y.toInt := fun e => h (BitVec.toInt_inj.mp e)
    simp [h, this]

theorem bne_toInt (x y : BitVec 64) : (x != y) = decide (x.toInt ≠ y.toInt) := by
  rw [bne, beq_toInt]; simp

theorem toInt_zero64 : (0#64 : BitVec 64).toInt = 0 := by decide
theorem toInt_one64 : (1#64 : BitVec 64).toInt = 1 := by decide
theorem toInt_min64 : (9223372036854775808#64 : BitVec 64).toInt = TimeConv.minI64 := by decide

/-- `addExact` as written in `datacodec/math.go` is the model's `addExact` -/
theorem addExact_tie (x y : BitVec 64) :
    ((addExact x y).1.toInt, (addExact x y).2) = TimeConv.addExact x.toInt y.toInt := by
  unfold addExact TimeConv.addExact
  simp only [BitVec.slt_zero_eq_msb, BitVec.msb_and, BitVec.msb_xor, neg_toInt, ← toInt_add64]
  split <;> simp_all [toInt_zero64]

/-- `multiplyExact` as written is the model's `multiplyExact` -/
theorem multiplyExact_tie (x y : BitVec 64) :
    ((multiplyExact x y).1.toInt, (multiplyExact x y).2) = TimeConv.multiplyExact x.toInt y.toInt := by
  unfold multiplyExact TimeConv.multiplyExact
  simp only [beq_toInt, bne_toInt, toInt_zero64, toInt_one64, toInt_min64, ← toInt_mul64, ← toInt_sdiv64]
  split <;> split <;> simp_all [toInt_zero64] <;> split <;> simp_all [toInt_zero64]

end Cql.GoFnTie

namespace Cql.GoFnTie
open Cql Cql.Gen.GoFn

theorem addExact_fst (x y : BitVec 64) : (addExact x y).1.toInt = (TimeConv.addExact x.toInt y.toInt).1 :=
  congrArg Prod.fst (addExact_tie x y)
theorem addExact_snd (x y : BitVec 64) : (addExact x y).2 = (TimeConv.addExact x.toInt y.toInt).2 :=
  congrArg Prod.snd (addExact_tie x y)
theorem multiplyExact_fst (x y : BitVec 64) : (multiplyExact x y).1.toInt = (TimeConv.multiplyExact x.toInt y.toInt).1 :=
  congrArg Prod.fst (multiplyExact_tie x y)
theorem multiplyExact_snd (x y : BitVec 64) : (multiplyExact x y).2 = (TimeConv.multiplyExact x.toInt y.toInt).2 :=
  congrArg Prod.snd (multiplyExact_tie x y)

theorem slt_toInt (x y : BitVec 64) : BitVec.slt x y = decide (x.toInt < y.toInt) := rfl
theorem sle_toInt (x y : BitVec 64) : BitVec.sle x y = decide (x.toInt ≤ y.toInt) := rfl

theorem toInt_1000 : (1000#64 : BitVec 64).toInt = 1000 := by decide
theorem toInt_1000000 : (1000000#64 : BitVec 64).toInt = 1000000 := by decide
theorem toInt_86400 : (86400#64 : BitVec 64).toInt = 86400 := by decide

/-- `floorDiv` as written is the model's `floorDiv` -/
theorem floorDiv_tie (x y : BitVec 64) : (floorDiv x y).toInt = TimeConv.floorDiv x.toInt y.toInt := by
  unfold floorDiv TimeConv.floorDiv
  simp only [BitVec.slt_zero_eq_msb, BitVec.msb_xor, neg_toInt, bne_toInt, ← toInt_sdiv64, ← toInt_mul64]
  split <;> simp_all [wrap64_eq_bmod]

/-- `floorMod` as written is the model's `floorMod` -/
theorem floorMod_tie (x y : BitVec 64) : (floorMod x y).toInt = TimeConv.floorMod x.toInt y.toInt := by
  unfold floorMod TimeConv.floorMod
  rw [toInt_sub64, toInt_mul64, floorDiv_tie]

/-- result of a Go function `(int64, error)` / `(int64, overflow bool)` in the model's terms -/
def toR (p : BitVec 64 × Bool) : TimeConv.R := if p.2 then .outOfRange else .ok p.1.toInt


theorem wrap64_id' (i : Int) (h : TimeConv.inI64 i) : TimeConv.wrap64 i = i := by
  unfold TimeConv.wrap64; unfold TimeConv.inI64 at h; omega

theorem tquot_million (n : BitVec 64) :
    TimeConv.wrap64 (TimeConv.tquot n.toInt 1000000) = TimeConv.tquot n.toInt 1000000 := by
  apply wrap64_id'
  have h := toInt_range n
  unfold TimeConv.inI64 at *
  unfold TimeConv.tquot
  split <;> simp <;> omega

/-- `ConvertTimeToEpochMillis` as written (on `t.Unix()`, `t.Nanosecond()`) is the model's `timeToEpochMillis` -/
theorem timeToEpochMillis_tie (s n : BitVec 64) :
    toR (ConvertTimeToEpochMillis s n) = TimeConv.timeToEpochMillis s.toInt n.toInt := by
  unfold ConvertTimeToEpochMillis TimeConv.timeToEpochMillis toR
  by_cases hc : (BitVec.slt s 0#64 && BitVec.slt 0#64 n) = true
  · have hc' : s.toInt < 0 ∧ n.toInt > 0 := by simpa [slt_toInt, toInt_zero64] using hc
    by_cases hm : (multiplyExact (s + 1#64) 1000#64).2 = true
    · have hm' := hm
      rw [multiplyExact_snd, toInt_add64, toInt_one64, toInt_1000] at hm'
      simp [hc, hc', hm, hm']
    · have hm' := hm
      rw [multiplyExact_snd, toInt_add64, toInt_one64, toInt_1000] at hm'
      by_cases ha : (addExact (multiplyExact (s + 1#64) 1000#64).1 (BitVec.sdiv n 1000000#64 - 1000#64)).2 = true
      · have ha' := ha
        rw [addExact_snd, multiplyExact_fst, toInt_sub64, toInt_sdiv64, toInt_add64, toInt_one64, toInt_1000, toInt_1000000, tquot_million] at ha'
        simp [hc, hc', hm, hm', ha, ha']
      · have ha' := ha
        rw [addExact_snd, multiplyExact_fst, toInt_sub64, toInt_sdiv64, toInt_add64, toInt_one64, toInt_1000, toInt_1000000, tquot_million] at ha'
        simp [hc, hc', hm, hm', ha, ha']
        rw [addExact_fst, multiplyExact_fst, toInt_sub64, toInt_sdiv64, toInt_add64, toInt_one64, toInt_1000, toInt_1000000, tquot_million]
  · have hc' : ¬ (s.toInt < 0 ∧ n.toInt > 0) := by simpa [slt_toInt, toInt_zero64] using hc
    by_cases hm : (multiplyExact s 1000#64).2 = true
    · have hm' := hm
      rw [multiplyExact_snd, toInt_1000] at hm'
      simp [hc, hc', hm, hm']
    · have hm' := hm
      rw [multiplyExact_snd, toInt_1000] at hm'
      by_cases ha : (addExact (multiplyExact s 1000#64).1 (BitVec.sdiv n 1000000#64)).2 = true
      · have ha' := ha
        rw [addExact_snd, multiplyExact_fst, toInt_sdiv64, toInt_1000, toInt_1000000, tquot_million] at ha'
        simp [hc, hc', hm, hm', ha, ha']
      · have ha' := ha
        rw [addExact_snd, multiplyExact_fst, toInt_sdiv64, toInt_1000, toInt_1000000, tquot_million] at ha'
        simp [hc, hc', hm, hm', ha, ha']
        rw [addExact_fst, multiplyExact_fst, toInt_sdiv64, toInt_1000, toInt_1000000, tquot_million]

end Cql.GoFnTie

namespace Cql.GoFnTie
open Cql Cql.Gen.GoFn

/-- `ConvertEpochMillisToTime` as written: the pair handed to `time.Unix` is the model's -/
theorem epochMillisToTime_tie (m : BitVec 64) :
    ((ConvertEpochMillisToTime m).1.toInt, (ConvertEpochMillisToTime m).2.toInt) = TimeConv.epochMillisToTime m.toInt := by
  unfold ConvertEpochMillisToTime TimeConv.epochMillisToTime
  simp only [floorDiv_tie, toInt_mul64, floorMod_tie, toInt_1000, toInt_1000000]

theorem toInt_minI32 : (18446744071562067968#64 : BitVec 64).toInt = -2147483648 := by decide
theorem toInt_maxI32 : (2147483647#64 : BitVec 64).toInt = 2147483647 := by decide

/-- result of a Go function `(int32, error)` in the model's terms -/
def toR32 (p : BitVec 32 × Bool) : TimeConv.R := if p.2 then .outOfRange else .ok p.1.toInt

theorem toInt_setWidth32 (d : BitVec 64) (h : -2147483648 ≤ d.toInt ∧ d.toInt ≤ 2147483647) :
    (BitVec.setWidth 32 d).toInt = d.toInt := by
  rw [BitVec.toInt_setWidth]
  have h2 := BitVec.toInt_eq_toNat_bmod d
  rw [Int.bmod_def] at *
  simp at *
  omega

/-- `ConvertTimeToEpochDays` as written (on `t.UTC().Unix()`) is the model's `timeToEpochDays` -/
theorem timeToEpochDays_tie (s : BitVec 64) :
    toR32 (ConvertTimeToEpochDays s) = TimeConv.timeToEpochDays s.toInt := by
  unfold ConvertTimeToEpochDays TimeConv.timeToEpochDays toR32
  simp only [slt_toInt, floorDiv_tie, toInt_86400, toInt_minI32, toInt_maxI32]
  split
  · rename_i h; simp at h; simp [h]
  · rename_i h; simp at h
    have h' : ¬ (TimeConv.floorDiv s.toInt 86400 < -2147483648 ∨ TimeConv.floorDiv s.toInt 86400 > 2147483647) := by omega
    rw [if_neg h']
    have hw := toInt_setWidth32 (floorDiv s 86400#64) (by rw [floorDiv_tie, toInt_86400]; exact h)
    simp only [hw, floorDiv_tie, toInt_86400, Bool.false_eq_true, if_false]

theorem toInt_signExtend64 (d : BitVec 32) : (BitVec.signExtend 64 d).toInt = d.toInt :=
  BitVec.toInt_signExtend_of_le (by decide)

/-- `ConvertEpochDaysToTime` as written: the seconds handed to `time.Unix` are the model's (and the nanoseconds 0) -/
theorem epochDaysToTime_tie (d : BitVec 32) :
    (ConvertEpochDaysToTime d).1.toInt = TimeConv.epochDaysToTime d.toInt ∧ (ConvertEpochDaysToTime d).2 = 0#64 := by
  unfold ConvertEpochDaysToTime TimeConv.epochDaysToTime
  simp only [toInt_mul64, toInt_signExtend64, toInt_86400, and_self]

theorem toInt_timeMax : (86399999999999#64 : BitVec 64).toInt = 86399999999999 := by decide

/-- `ConvertDurationToNanosOfDay` as written is the model's `durationToNanosOfDay` -/
theorem durationToNanosOfDay_tie (d : BitVec 64) :
    toR (ConvertDurationToNanosOfDay d) = TimeConv.durationToNanosOfDay d.toInt := by
  unfold ConvertDurationToNanosOfDay TimeConv.durationToNanosOfDay toR
  simp only [slt_toInt, toInt_zero64, toInt_timeMax]
  split <;> rename_i h <;> simp at h <;> simp [h]

/-- `ConvertNanosOfDayToDuration` as written is the same test -/
theorem nanosOfDayToDuration_tie (d : BitVec 64) :
    toR (ConvertNanosOfDayToDuration d) = TimeConv.durationToNanosOfDay d.toInt := by
  unfold ConvertNanosOfDayToDuration TimeConv.durationToNanosOfDay toR
  simp only [slt_toInt, toInt_zero64, toInt_timeMax]
  split <;> rename_i h <;> simp at h <;> simp [h]

/-- `ConvertTimeToNanosOfDay` as written: on clock fields within their ranges nothing wraps and the result is the count of
    nanoseconds since midnight -/
theorem nanosOfDay_tie (ns s m h : BitVec 64) (hns : ns.toNat < 1000000000) (hs : s.toNat < 60) (hm : m.toNat < 60)
    (hh : h.toNat < 24) :
    (ConvertTimeToNanosOfDay ns s m h).toNat =
      ns.toNat + s.toNat * 1000000000 + m.toNat * 60000000000 + h.toNat * 3600000000000 := by
  rw [ConvertTimeToNanosOfDay]
  have e1 : (1000000000#64 : BitVec 64).toNat = 1000000000 := rfl
  have e2 : (60000000000#64 : BitVec 64).toNat = 60000000000 := rfl
  have e3 : (3600000000000#64 : BitVec 64).toNat = 3600000000000 := rfl
  rw [BitVec.toNat_add, BitVec.toNat_add, BitVec.toNat_add, BitVec.toNat_mul, BitVec.toNat_mul, BitVec.toNat_mul, e1, e2, e3]
  omega

end Cql.GoFnTie
