import Cql.Segment
import Cql.Lemmas.PrimRT
import Cql.Lemmas.Crc24Enum
/-!
# Helper lemmas for C07 (error detection of the two CRCs)

Part 1: xor-linearity of the CRC-24 (`crc24From_xor`), range of its result (`crc24From_lt`), soundness of the
enumeration `walk` (`walk_sound`, `crc24_core`), and the byte-level facts (`leNat`, `leBytes`, `xorBytes`,
`popcountBytes`) needed to state the result on wire bytes.

Part 2: the reflected CRC-32 as a bit-serial machine (`feed`): linearity, injectivity of the bit step, bursts,
two-bit errors, the residue property of the appended checksum.
-/
namespace Cql.Crc.Detect


theorem iter_add {α} (f : α → α) (a b : Nat) (x : α) : iter f (a + b) x = iter f b (iter f a x) := by
  induction a generalizing x with
  | zero => rw [Nat.zero_add]; rfl
  | succ a ih => rw [Nat.add_right_comm]; exact ih (f x)

theorem iter_succ_out {α} (f : α → α) (k : Nat) (x : α) : iter f (k + 1) x = f (iter f k x) :=
  iter_add f k 1 x

theorem iter_lin {α} [HXor α α α] (f : α → α) (hf : ∀ a b, f (a ^^^ b) = f a ^^^ f b) (k : Nat) (a b : α) :
    iter f k (a ^^^ b) = iter f k a ^^^ iter f k b := by
  induction k generalizing a b with
  | zero => rfl
  | succ k ih => show iter f k (f (a ^^^ b)) = iter f k (f a) ^^^ iter f k (f b); rw [hf, ih]

theorem mask24_eq : (0x1000000#32 : BitVec 32) = BitVec.twoPow 32 24 := by decide

theorem crc24Bit_eq (c : BitVec 32) :
    crc24Bit c = (c <<< 1) ^^^ (if c.getLsbD 23 = true then crc24Poly else 0#32) := by
  rw [crc24Bit]
  simp only [mask24_eq, BitVec.and_twoPow, BitVec.getLsbD_shiftLeft]
  have h0 : BitVec.twoPow 32 24 ≠ 0#32 := by decide
  cases c.getLsbD 23 <;> simp [h0]

theorem crc24Bit_xor (a b : BitVec 32) : crc24Bit (a ^^^ b) = crc24Bit a ^^^ crc24Bit b := by
  rw [crc24Bit_eq, crc24Bit_eq a, crc24Bit_eq b, BitVec.shiftLeft_xor_distrib, BitVec.getLsbD_xor]
  have hp : ∀ x y p : BitVec 32, x ^^^ y = (x ^^^ p) ^^^ (y ^^^ p) := by
    intro x y p; ext i; simp only [BitVec.getElem_xor]; cases x[i] <;> cases y[i] <;> cases p[i] <;> rfl
  cases a.getLsbD 23 <;> cases b.getLsbD 23
  · simp
  · simp [BitVec.xor_assoc]
  · simp only [Bool.true_xor, Bool.not_false, if_true, Bool.false_eq_true, if_false, BitVec.xor_zero]
    ext i; simp only [BitVec.getElem_xor]; cases (a <<< 1)[i] <;> cases (b <<< 1)[i] <;> cases crc24Poly[i] <;> rfl
  · simp only [Bool.xor_self, Bool.false_eq_true, if_false, if_true, BitVec.xor_zero]
    exact hp _ _ _

theorem crc24Byte_eq (a : BitVec 32) (d : BitVec 64) :
    crc24Byte (a, d) = (iter crc24Bit 8 (a ^^^ ((d.setWidth 32) <<< 16)), d >>> 8) := rfl

theorem xor_xor_xor_comm {w} (a b c d : BitVec w) : (a ^^^ b) ^^^ (c ^^^ d) = (a ^^^ c) ^^^ (b ^^^ d) := by
  ext i; simp only [BitVec.getElem_xor]; cases a[i] <;> cases b[i] <;> cases c[i] <;> cases d[i] <;> rfl

theorem crc24Byte_xor (a b : BitVec 32) (d e : BitVec 64) :
    crc24Byte (a ^^^ b, d ^^^ e)
      = ((crc24Byte (a, d)).1 ^^^ (crc24Byte (b, e)).1, (crc24Byte (a, d)).2 ^^^ (crc24Byte (b, e)).2) := by
  rw [crc24Byte_eq, crc24Byte_eq, crc24Byte_eq, BitVec.setWidth_xor, BitVec.shiftLeft_xor_distrib,
    BitVec.ushiftRight_xor_distrib, xor_xor_xor_comm, iter_lin crc24Bit crc24Bit_xor]

theorem crc24Iter_xor (n : Nat) (a b : BitVec 32) (d e : BitVec 64) :
    iter crc24Byte n (a ^^^ b, d ^^^ e)
      = ((iter crc24Byte n (a, d)).1 ^^^ (iter crc24Byte n (b, e)).1,
         (iter crc24Byte n (a, d)).2 ^^^ (iter crc24Byte n (b, e)).2) := by
  induction n generalizing a b d e with
  | zero => rfl
  | succ n ih =>
    show iter crc24Byte n (crc24Byte (a ^^^ b, d ^^^ e)) = _
    rw [crc24Byte_xor, ih]; rfl

/-- (a) xor-linearity of the CRC-24 in (register, data) -/
theorem crc24From_xor (a b : BitVec 32) (d e : BitVec 64) (n : Nat) :
    crc24From (a ^^^ b) (d ^^^ e) n = crc24From a d n ^^^ crc24From b e n := by
  rw [crc24From, crc24From, crc24From, crc24Iter_xor]

theorem crc24_xor (d e : BitVec 64) (n : Nat) : crc24 (d ^^^ e) n = crc24 d n ^^^ crc24From 0#32 e n := by
  rw [crc24, crc24, ← crc24From_xor, BitVec.xor_zero]

theorem crc24From_zero (n : Nat) : crc24From 0#32 0#64 n = 0#32 := by
  have h := crc24From_xor 0#32 0#32 0#64 0#64 n
  rw [BitVec.xor_self, BitVec.xor_self] at h
  rw [h, BitVec.xor_self]   -- h : crc 0 0 = crc 0 0 ^^^ crc 0 0
theorem pcB_eq_zero {w : Nat} (k : Nat) (x : BitVec w) (h : pcB k x = 0) : ∀ i, i < k → x.getLsbD i = false := by
  induction k with
  | zero => intro i hi; omega
  | succ k ih =>
    rw [pcB] at h
    intro i hi
    by_cases hik : i = k
    · subst hik; cases hb : x.getLsbD i with
      | false => rfl
      | true => rw [hb] at h; simp at h
    · exact ih (by omega) i (by omega)

theorem pcB_congr {w : Nat} (k : Nat) (x y : BitVec w) (h : ∀ i, i < k → x.getLsbD i = y.getLsbD i) :
    pcB k x = pcB k y := by
  induction k with
  | zero => rfl
  | succ k ih => rw [pcB, pcB, ih (fun i hi => h i (by omega)), h k (by omega)]

theorem pcB_pos {w : Nat} (x : BitVec w) (h : x ≠ 0#w) : 1 ≤ pcB w x := by
  apply Nat.pos_of_ne_zero
  intro h0
  apply h
  apply BitVec.eq_of_getLsbD_eq
  intro i hi
  rw [pcB_eq_zero w x h0 i hi]; simp

theorem eq_zero_of_bits {w : Nat} (k : Nat) (e : BitVec w) (h1 : ∀ i, k ≤ i → e.getLsbD i = false)
    (h2 : pcB k e = 0) : e = 0#w := by
  apply BitVec.eq_of_getLsbD_eq
  intro i _
  by_cases hik : i < k
  · rw [pcB_eq_zero k e h2 i hik]; simp
  · rw [h1 i (by omega)]; simp

theorem walk_sound (n k : Nat) : ∀ (used : Nat) (acc : BitVec 32), walk (synList n k) used acc = true →
    ∀ e : BitVec 64, (∀ i, k ≤ i → e.getLsbD i = false) → used + pcB k e ≤ 7 →
      used + pcB k e = 0 ∨ 8 ≤ pcB 32 (acc ^^^ crc24From 0#32 e n) + (used + pcB k e) := by
  induction k with
  | zero =>
    intro used acc h e he _
    have e0 : e = 0#64 := eq_zero_of_bits 0 e he rfl
    subst e0
    rw [synList, walk, leafOk, Bool.or_eq_true, decide_eq_true_eq] at h
    rw [crc24From_zero, BitVec.xor_zero, pcB, Nat.add_zero]
    rcases h with h | h
    · left; simpa using h
    · right; exact h
  | succ k ih =>
    intro used acc h e he hw
    rw [synList, walk] at h
    by_cases h7 : used = 7
    · rw [if_pos h7] at h
      have e0 : e = 0#64 := eq_zero_of_bits (k + 1) e he (by omega)
      subst e0
      rw [crc24From_zero, BitVec.xor_zero]
      have : 1 ≤ pcB 32 acc := pcB_pos acc (by simpa using h)
      right; omega
    · rw [if_neg h7, Bool.and_eq_true] at h
      rw [pcB] at hw ⊢
      cases hb : e.getLsbD k with
      | false =>
        rw [hb] at hw
        simp only [Bool.toNat_false, Nat.add_zero] at hw ⊢
        refine ih used acc h.1 e ?_ hw
        intro i hi
        by_cases hik : i = k
        · rw [hik]; exact hb
        · exact he i (by omega)
      | true =>
        rw [hb] at hw
        simp only [Bool.toNat_true] at hw ⊢
        have hk : k < 64 := BitVec.lt_of_getLsbD hb
        have hbits : ∀ i, (e ^^^ BitVec.twoPow 64 k).getLsbD i = (e.getLsbD i ^^ decide (k = i)) := by
          intro i; rw [BitVec.getLsbD_xor, BitVec.getLsbD_twoPow]; simp [hk]
        have hpc : pcB k (e ^^^ BitVec.twoPow 64 k) = pcB k e := by
          apply pcB_congr; intro i hi; rw [hbits, decide_eq_false (by omega), Bool.xor_false]
        have hsplit : e = (e ^^^ BitVec.twoPow 64 k) ^^^ BitVec.twoPow 64 k := by
          rw [BitVec.xor_assoc, BitVec.xor_self, BitVec.xor_zero]
        have hcrc : crc24From 0#32 e n = crc24From 0#32 (e ^^^ BitVec.twoPow 64 k) n ^^^ syn n k := by
          rw [syn, ← crc24From_xor, BitVec.xor_zero, ← hsplit]
        have := ih (used + 1) (acc ^^^ syn n k) h.2 (e ^^^ BitVec.twoPow 64 k) (by
          intro i hi
          rw [hbits]
          by_cases hik : i = k
          · subst hik; rw [hb]; simp
          · rw [he i (by omega)]; simp; omega) (by rw [hpc]; omega)
        rw [hpc] at this
        rw [hcrc, ← BitVec.xor_assoc, BitVec.xor_assoc acc, BitVec.xor_comm _ (syn n k), ← BitVec.xor_assoc]
        rcases this with h0 | h8
        · omega
        · right; omega

/-- (b) what a successful enumeration means: no nonzero error pattern of total weight ≤ 7 (data bits below `k` plus
checksum bits) maps the data error to the checksum error -/
theorem crc24_core (n k : Nat) (hwalk : walk (synList n k) 0 0#32 = true) (e : BitVec 64) (c : BitVec 32)
    (he : ∀ i, k ≤ i → e.getLsbD i = false) (hpos : 0 < pcB k e + pcB 32 c) (hle : pcB k e + pcB 32 c ≤ 7) :
    crc24From 0#32 e n ≠ c := by
  intro heq
  have h := walk_sound n k 0 0#32 hwalk e he (by omega)
  rw [BitVec.zero_xor, heq] at h
  rcases h with h | h
  · have e0 : e = 0#64 := eq_zero_of_bits k e he (by omega)
    rw [e0, crc24From_zero] at heq
    rw [← heq] at hpos
    have : pcB 32 (0#32) = 0 := by decide
    omega
  · omega

/-! ### the result of the CRC-24 fits in 24 bits -/

theorem crc24Poly_hi (i : Nat) (h : 25 ≤ i) : crc24Poly.getLsbD i = false := by
  rw [← BitVec.testBit_toNat]
  apply Nat.testBit_lt_two_pow
  calc crc24Poly.toNat < 2 ^ 25 := by decide
    _ ≤ 2 ^ i := Nat.pow_le_pow_right (by decide) h

theorem crc24Bit_hi (j : Nat) (x : BitVec 32) (hx : ∀ i, 24 ≤ i → i < 24 + j → x.getLsbD i = false) :
    ∀ i, 24 ≤ i → i < 24 + (j + 1) → (crc24Bit x).getLsbD i = false := by
  intro i h1 h2
  rw [crc24Bit_eq, BitVec.getLsbD_xor, BitVec.getLsbD_shiftLeft]
  by_cases h24 : i = 24
  · subst h24
    cases x.getLsbD 23 <;> decide
  · have hp : (if x.getLsbD 23 = true then crc24Poly else 0#32).getLsbD i = false := by
      cases x.getLsbD 23
      · simp
      · simp only [if_true]; exact crc24Poly_hi i (by omega)
    rw [hp, hx (i - 1) (by omega) (by omega)]; simp

theorem iter_crc24Bit_hi (k j : Nat) (x : BitVec 32) (hx : ∀ i, 24 ≤ i → i < 24 + j → x.getLsbD i = false) :
    ∀ i, 24 ≤ i → i < 24 + (j + k) → (iter crc24Bit k x).getLsbD i = false := by
  induction k generalizing j x with
  | zero => exact hx
  | succ k ih =>
    intro i h1 h2
    exact ih (j + 1) (crc24Bit x) (crc24Bit_hi j x hx) i h1 (by omega)

theorem iter8_crc24Bit_lt (x : BitVec 32) : (iter crc24Bit 8 x).toNat < 2 ^ 24 := by
  apply Nat.lt_pow_two_of_testBit
  intro i hi
  rw [BitVec.testBit_toNat]
  by_cases h32 : i < 32
  · exact iter_crc24Bit_hi 8 0 x (fun i h1 h2 => by omega) i hi (by omega)
  · exact BitVec.getLsbD_of_ge _ i (by omega)

/-- the checksum of at least one byte is a 24-bit value (so its three wire bytes carry it completely) -/
theorem crc24From_lt (a : BitVec 32) (d : BitVec 64) (n : Nat) : (crc24From a d (n + 1)).toNat < 2 ^ 24 := by
  rw [crc24From, iter_succ_out]
  exact iter8_crc24Bit_lt _

end Cql.Crc.Detect

/-! ## Wire bytes as little-endian numbers -/
namespace Cql.Crc.Detect
open Cql Cql.Segment

/-- bytewise xor (the received bytes are `xorBytes sent mask`) -/
def xorBytes (a b : Bytes) : Bytes := List.zipWith (· ^^^ ·) a b

/-- number of set bits among the low `k` bits of a number -/
def pcNat : Nat → Nat → Nat
  | 0, _ => 0
  | k + 1, x => pcNat k x + (x.testBit k).toNat

def popcount8 (b : UInt8) : Nat := pcNat 8 b.toNat

/-- number of set bits of a byte string = number of flipped bits when it is used as a mask -/
def popcountBytes : Bytes → Nat
  | [] => 0
  | b :: bs => popcount8 b + popcountBytes bs

theorem xorBytes_length (a b : Bytes) (h : a.length = b.length) : (xorBytes a b).length = a.length := by
  rw [xorBytes, List.length_zipWith, h, Nat.min_self]

theorem xorBytes_append (a a' b b' : Bytes) (h : a.length = b.length) :
    xorBytes (a ++ a') (b ++ b') = xorBytes a b ++ xorBytes a' b' := by
  rw [xorBytes, xorBytes, xorBytes, List.zipWith_append h]

theorem leBytes_length (k n : Nat) : (leBytes k n).length = k := by
  induction k generalizing n with
  | zero => rfl
  | succ k ih => rw [leBytes, List.length_cons, ih]

theorem leNat_lt (bs : Bytes) : leNat bs < 2 ^ (8 * bs.length) := by
  induction bs with
  | nil => decide
  | cons b bs ih =>
    rw [leNat, List.length_cons, Nat.mul_succ, Nat.pow_add]
    have := UInt8.toNat_lt b
    omega

theorem leNat_leBytes (k n : Nat) : leNat (leBytes k n) = n % 2 ^ (8 * k) := by
  induction k generalizing n with
  | zero => rw [leBytes, leNat, Nat.mul_zero, Nat.pow_zero, Nat.mod_one]
  | succ k ih =>
    rw [leBytes, leNat, ih, UInt8.toNat_ofNat', Nat.mul_succ, Nat.pow_add, Nat.mul_comm (2 ^ (8 * k)), Nat.mod_mul]
    have : (2 : Nat) ^ 8 = 256 := by decide
    rw [this, Nat.mod_mod]

theorem leNat_leBytes_of_lt (k n : Nat) (h : n < 2 ^ (8 * k)) : leNat (leBytes k n) = n := by
  rw [leNat_leBytes, Nat.mod_eq_of_lt h]

theorem testBit_byte_add (b r i : Nat) (hb : b < 2 ^ 8) :
    (b + 256 * r).testBit i = if i < 8 then b.testBit i else r.testBit (i - 8) := by
  rw [Nat.add_comm]; exact Nat.testBit_two_pow_mul_add r hb i

theorem byte_add_xor (a b x y : Nat) (ha : a < 2 ^ 8) (hb : b < 2 ^ 8) :
    (a + 256 * x) ^^^ (b + 256 * y) = (a ^^^ b) + 256 * (x ^^^ y) := by
  apply Nat.eq_of_testBit_eq
  intro i
  rw [Nat.testBit_xor, testBit_byte_add a x i ha, testBit_byte_add b y i hb,
    testBit_byte_add _ _ i (Nat.xor_lt_two_pow ha hb)]
  by_cases h : i < 8
  · rw [if_pos h, if_pos h, if_pos h, Nat.testBit_xor]
  · rw [if_neg h, if_neg h, if_neg h, Nat.testBit_xor]

theorem leNat_xorBytes (a b : Bytes) (h : a.length = b.length) : leNat (xorBytes a b) = leNat a ^^^ leNat b := by
  induction a generalizing b with
  | nil => cases b with
    | nil => rfl
    | cons y ys => simp at h
  | cons x xs ih => cases b with
    | nil => simp at h
    | cons y ys =>
      have hl : xs.length = ys.length := by simpa using h
      show leNat ((x ^^^ y) :: xorBytes xs ys) = _
      rw [leNat, leNat, leNat, ih ys hl, UInt8.toNat_xor, byte_add_xor _ _ _ _ (UInt8.toNat_lt x) (UInt8.toNat_lt y)]

/-! ### popcounts -/

theorem pcNat_congr (k x y : Nat) (h : ∀ i, i < k → x.testBit i = y.testBit i) : pcNat k x = pcNat k y := by
  induction k with
  | zero => rfl
  | succ k ih => rw [pcNat, pcNat, ih (fun i hi => h i (by omega)), h k (by omega)]

theorem pcNat_add (a m x : Nat) : pcNat (a + m) x = pcNat a x + pcNat m (x / 2 ^ a) := by
  induction m with
  | zero => rfl
  | succ m ih => rw [← Nat.add_assoc, pcNat, pcNat, ih, Nat.testBit_div_two_pow, Nat.add_assoc, Nat.add_comm m a]

theorem pcNat_of_lt (m k x : Nat) (hx : x < 2 ^ k) : pcNat (k + m) x = pcNat k x := by
  rw [pcNat_add, Nat.div_eq_of_lt hx]
  have : ∀ m, pcNat m 0 = 0 := by
    intro m; induction m with
    | zero => rfl
    | succ m ih => rw [pcNat, ih, Nat.zero_testBit]; rfl
  rw [this]; rfl

theorem pcB_ofNat (w k x : Nat) (h : k ≤ w) : pcB k (BitVec.ofNat w x) = pcNat k x := by
  induction k with
  | zero => rfl
  | succ k ih =>
    rw [pcB, pcNat, ih (by omega), BitVec.getLsbD_ofNat, decide_eq_true (by omega : k < w), Bool.true_and]

theorem popcountBytes_eq (bs : Bytes) : popcountBytes bs = pcNat (8 * bs.length) (leNat bs) := by
  induction bs with
  | nil => rfl
  | cons b bs ih =>
    rw [popcountBytes, leNat, List.length_cons, Nat.mul_succ, Nat.add_comm (8 * bs.length) 8, pcNat_add, ih, popcount8]
    have hb := UInt8.toNat_lt b
    have h1 : (b.toNat + 256 * leNat bs) / 2 ^ 8 = leNat bs := by omega
    rw [h1]
    congr 1
    apply pcNat_congr
    intro i hi
    rw [testBit_byte_add _ _ _ hb, if_pos hi]

theorem popcountBytes_append (a b : Bytes) : popcountBytes (a ++ b) = popcountBytes a + popcountBytes b := by
  induction a with
  | nil => rw [List.nil_append, popcountBytes, Nat.zero_add]
  | cons x xs ih => rw [List.cons_append, popcountBytes, popcountBytes, ih, Nat.add_assoc]

end Cql.Crc.Detect

/-! ## (c) the CRC-24 core on wire bytes -/
namespace Cql.Crc.Detect
open Cql Cql.Segment

theorem nat_xor_cancel (a x y : Nat) (h : a ^^^ x = a ^^^ y) : x = y := by
  have := congrArg (a ^^^ ·) h
  simp only [← Nat.xor_assoc, Nat.xor_self, Nat.zero_xor] at this
  exact this

/-- header data bytes `hd` and CRC bytes, xor-ed with masks `mh` / `mc` of total weight 1..7: the receiver's comparison
`crc24 (received data) ≠ received crc` holds -/
theorem crc24_reject_split (n : Nat) (hwalk : walk (synList (n + 1) (8 * (n + 1))) 0 0#32 = true)
    (hn8 : 8 * (n + 1) ≤ 64) (d : Nat) (hd : d < 2 ^ (8 * (n + 1))) (mh mc : Bytes)
    (hmh : mh.length = n + 1) (hmc : mc.length = 3)
    (hpos : 0 < popcountBytes mh + popcountBytes mc) (hle : popcountBytes mh + popcountBytes mc ≤ 7) :
    (crc24 (BitVec.ofNat 64 (leNat (xorBytes (leBytes (n + 1) d) mh))) (n + 1)).toNat
      ≠ leNat (xorBytes (leBytes 3 (crc24 (BitVec.ofNat 64 d) (n + 1)).toNat) mc) := by
  have hcrc : (crc24 (BitVec.ofNat 64 d) (n + 1)).toNat < 2 ^ (8 * 3) := crc24From_lt _ _ n
  have hmcl : leNat mc < 2 ^ 24 := by have := leNat_lt mc; rw [hmc] at this; exact this
  have hmhl : leNat mh < 2 ^ (8 * (n + 1)) := by have := leNat_lt mh; rw [hmh] at this; exact this
  rw [leNat_xorBytes _ _ (by rw [leBytes_length, hmh]), leNat_xorBytes _ _ (by rw [leBytes_length, hmc]),
    leNat_leBytes_of_lt _ _ hd, leNat_leBytes_of_lt _ _ hcrc, BitVec.ofNat_xor, crc24_xor, BitVec.toNat_xor]
  intro heq
  have h1 := nat_xor_cancel _ _ _ heq
  have h2 : crc24From 0#32 (BitVec.ofNat 64 (leNat mh)) (n + 1) = BitVec.ofNat 32 (leNat mc) := by
    apply BitVec.eq_of_toNat_eq
    rw [h1, BitVec.toNat_ofNat, Nat.mod_eq_of_lt (by omega)]
  have he : ∀ i, 8 * (n + 1) ≤ i → (BitVec.ofNat 64 (leNat mh)).getLsbD i = false := by
    intro i hi
    rw [BitVec.getLsbD_ofNat, Nat.testBit_lt_two_pow (Nat.lt_of_lt_of_le hmhl (Nat.pow_le_pow_right (by decide) hi)),
      Bool.and_false]
  have hp1 : pcB (8 * (n + 1)) (BitVec.ofNat 64 (leNat mh)) = popcountBytes mh := by
    rw [pcB_ofNat _ _ _ hn8, popcountBytes_eq, hmh]
  have hp2 : pcB 32 (BitVec.ofNat 32 (leNat mc)) = popcountBytes mc := by
    rw [pcB_ofNat _ _ _ (Nat.le_refl _), popcountBytes_eq, hmc]
    exact pcNat_of_lt 8 24 _ hmcl
  exact crc24_core (n + 1) (8 * (n + 1)) hwalk _ _ he (by rw [hp1, hp2]; exact hpos) (by rw [hp1, hp2]; exact hle) h2

end Cql.Crc.Detect

namespace Cql.Crc.Detect
open Cql Cql.Segment

/-! ## Part 2: CRC-32 -/

theorem one32_eq : (1#32 : BitVec 32) = BitVec.twoPow 32 0 := by decide

theorem crc32Bit_eq (c : BitVec 32) :
    crc32Bit c = (c >>> 1) ^^^ (if c.getLsbD 0 = true then crc32Poly else 0#32) := by
  rw [crc32Bit]
  simp only [one32_eq, BitVec.and_twoPow]
  have h0 : ¬ (0#32 = BitVec.twoPow 32 0) := by decide
  cases c.getLsbD 0 <;> simp [h0]

/-- (a) the bit step of the CRC-32 is xor-linear -/
theorem crc32Bit_xor (a b : BitVec 32) : crc32Bit (a ^^^ b) = crc32Bit a ^^^ crc32Bit b := by
  rw [crc32Bit_eq, crc32Bit_eq a, crc32Bit_eq b, BitVec.ushiftRight_xor_distrib, BitVec.getLsbD_xor]
  cases a.getLsbD 0 <;> cases b.getLsbD 0
  · simp
  · simp [BitVec.xor_assoc]
  · simp only [Bool.true_xor, Bool.not_false, if_true, Bool.false_eq_true, if_false, BitVec.xor_zero]
    rw [BitVec.xor_assoc, BitVec.xor_assoc, BitVec.xor_comm (b >>> 1)]
  · simp only [Bool.xor_self, Bool.false_eq_true, if_false, if_true, BitVec.xor_zero]
    rw [xor_xor_xor_comm, BitVec.xor_self, BitVec.xor_zero]

theorem crc32Bit_eq_zero (x : BitVec 32) (h : crc32Bit x = 0#32) : x = 0#32 := by
  have h31 : (crc32Bit x).getLsbD 31 = x.getLsbD 0 := by
    rw [crc32Bit_eq, BitVec.getLsbD_xor, BitVec.getLsbD_ushiftRight, BitVec.getLsbD_of_ge x 32 (Nat.le_refl _)]
    cases x.getLsbD 0 <;> decide
  have hx0 : x.getLsbD 0 = false := by rw [← h31, h]; decide
  rw [crc32Bit_eq, hx0] at h
  simp only [Bool.false_eq_true, if_false, BitVec.xor_zero] at h
  apply BitVec.eq_of_getLsbD_eq
  intro i hi
  cases i with
  | zero => rw [hx0]; decide
  | succ j =>
    have := congrArg (fun v => v.getLsbD j) h
    simp only [BitVec.getLsbD_ushiftRight] at this
    rw [Nat.add_comm, this]; simp

/-- (a) … and injective -/
theorem crc32Bit_inj (a b : BitVec 32) (h : crc32Bit a = crc32Bit b) : a = b := by
  have h0 : crc32Bit (a ^^^ b) = 0#32 := by rw [crc32Bit_xor, h, BitVec.xor_self]
  exact BitVec.xor_eq_zero_iff.mp (crc32Bit_eq_zero _ h0)

theorem iter_inj {α} (f : α → α) (hf : ∀ a b, f a = f b → a = b) (k : Nat) (a b : α) (h : iter f k a = iter f k b) :
    a = b := by
  induction k generalizing a b with
  | zero => exact h
  | succ k ih => exact hf a b (ih (f a) (f b) h)

theorem iter_crc32Bit_zero (k : Nat) : iter crc32Bit k 0#32 = 0#32 := by
  induction k with
  | zero => rfl
  | succ k ih => show iter crc32Bit k (crc32Bit 0#32) = _; rw [show crc32Bit 0#32 = 0#32 by decide, ih]

end Cql.Crc.Detect
namespace Cql.Crc.Detect
open Cql Cql.Segment

/-! ### the CRC-32 as a bit-serial machine over a little-endian number -/

def bit32 (b : Bool) : BitVec 32 := if b then 1#32 else 0#32

/-- feed the `k` low bits of `N` (least significant first) into the register -/
def feed : Nat → BitVec 32 → Nat → BitVec 32
  | 0, c, _ => c
  | k + 1, c, N => feed k (crc32Bit (c ^^^ bit32 (N.testBit 0))) (N / 2)

theorem bit32_xor (x y : Bool) : bit32 (x ^^ y) = bit32 x ^^^ bit32 y := by
  cases x <;> cases y <;> decide

theorem nat_xor_div_two (M N : Nat) : (M ^^^ N) / 2 = M / 2 ^^^ N / 2 := by
  apply Nat.eq_of_testBit_eq; intro i
  rw [Nat.testBit_div_two, Nat.testBit_xor, Nat.testBit_xor, Nat.testBit_div_two, Nat.testBit_div_two]

/-- joint linearity in (register, input) -/
theorem feed_xor (k : Nat) (a b : BitVec 32) (M N : Nat) : feed k (a ^^^ b) (M ^^^ N) = feed k a M ^^^ feed k b N := by
  induction k generalizing a b M N with
  | zero => rfl
  | succ k ih =>
    rw [feed, feed, feed, Nat.testBit_xor, bit32_xor, xor_xor_xor_comm, crc32Bit_xor, nat_xor_div_two, ih]

theorem feed_zero_input (k : Nat) (c : BitVec 32) : feed k c 0 = iter crc32Bit k c := by
  induction k generalizing c with
  | zero => rfl
  | succ k ih =>
    rw [feed, Nat.zero_testBit, Nat.zero_div, ih]
    show _ = iter crc32Bit k (crc32Bit c)
    rw [show bit32 false = 0#32 from rfl, BitVec.xor_zero]

theorem feed_add (a m : Nat) (c : BitVec 32) (N : Nat) : feed (a + m) c N = feed m (feed a c N) (N / 2 ^ a) := by
  induction a generalizing c N with
  | zero => rw [Nat.zero_add, Nat.pow_zero, Nat.div_one]; rfl
  | succ a ih =>
    rw [Nat.add_right_comm, feed, feed, ih, Nat.div_div_eq_div_mul, Nat.pow_succ, Nat.mul_comm]

theorem feed_mod (a : Nat) (c : BitVec 32) (N : Nat) : feed a c (N % 2 ^ a) = feed a c N := by
  induction a generalizing c N with
  | zero => rfl
  | succ a ih =>
    rw [feed, feed, Nat.testBit_mod_two_pow, decide_eq_true (Nat.succ_pos a), Bool.true_and]
    have : N % 2 ^ (a + 1) / 2 = N / 2 % 2 ^ a := by
      rw [Nat.pow_succ, Nat.mul_comm, Nat.mod_mul_right_div_self]
    rw [this, ih]

theorem ofNat_shr_one (N : Nat) (h : N < 2 ^ 32) : BitVec.ofNat 32 N >>> 1 = BitVec.ofNat 32 (N / 2) := by
  apply BitVec.eq_of_toNat_eq
  rw [BitVec.toNat_ushiftRight, BitVec.toNat_ofNat, BitVec.toNat_ofNat, Nat.shiftRight_eq_div_pow]
  omega

theorem crc32Bit_ofNat (N : Nat) (h : N < 2 ^ 32) :
    crc32Bit (BitVec.ofNat 32 N) = crc32Bit (bit32 (N.testBit 0)) ^^^ BitVec.ofNat 32 (N / 2) := by
  rw [crc32Bit_eq, crc32Bit_eq (bit32 _), ofNat_shr_one N h, BitVec.getLsbD_ofNat]
  cases N.testBit 0
  · simp [bit32]
  · simp [bit32, BitVec.xor_comm]

/-- at most 32 bits fed into the register = the bits xor-ed into the register at once, then that many bit steps -/
theorem feed_eq_iter (k : Nat) (hk : k ≤ 32) (c : BitVec 32) (N : Nat) (hN : N < 2 ^ k) :
    feed k c N = iter crc32Bit k (c ^^^ BitVec.ofNat 32 N) := by
  induction k generalizing c N with
  | zero =>
    have : N = 0 := by omega
    subst this; rw [feed]; show c = c ^^^ 0#32; rw [BitVec.xor_zero]
  | succ k ih =>
    have hN32 : N < 2 ^ 32 := Nat.lt_of_lt_of_le hN (Nat.pow_le_pow_right (by decide) hk)
    rw [feed, ih (by omega) _ _ (by rw [Nat.pow_succ] at hN; omega)]
    show _ = iter crc32Bit k (crc32Bit (c ^^^ BitVec.ofNat 32 N))
    rw [crc32Bit_xor c (BitVec.ofNat 32 N), crc32Bit_ofNat N hN32, crc32Bit_xor c (bit32 _), BitVec.xor_assoc]

end Cql.Crc.Detect
namespace Cql.Crc.Detect
open Cql Cql.Segment

theorem crc32Byte_eq_feed (c : BitVec 32) (b : UInt8) : crc32Byte c b = feed 8 c b.toNat := by
  rw [crc32Byte, feed_eq_iter 8 (by decide) c _ (UInt8.toNat_lt b)]

theorem crc32Raw_cons (c : BitVec 32) (b : UInt8) (bs : Bytes) :
    crc32Raw c (b :: bs) = crc32Raw (crc32Byte c b) bs := by
  rw [crc32Raw, crc32Raw, List.foldl_cons]

theorem crc32Raw_append (c : BitVec 32) (a b : Bytes) : crc32Raw c (a ++ b) = crc32Raw (crc32Raw c a) b := by
  rw [crc32Raw, crc32Raw, crc32Raw, List.foldl_append]

/-- the byte-wise CRC-32 is the bit-serial machine run over the bytes as one little-endian number -/
theorem crc32Raw_eq_feed (c : BitVec 32) (bs : Bytes) : crc32Raw c bs = feed (8 * bs.length) c (leNat bs) := by
  induction bs generalizing c with
  | nil => rfl
  | cons b bs ih =>
    have hb := UInt8.toNat_lt b
    have h1 : (b.toNat + 256 * leNat bs) / 2 ^ 8 = leNat bs := by omega
    have h2 : (b.toNat + 256 * leNat bs) % 2 ^ 8 = b.toNat := by omega
    rw [crc32Raw_cons, ih, crc32Byte_eq_feed, leNat, List.length_cons, Nat.mul_succ, Nat.add_comm (8 * bs.length) 8,
      feed_add, h1, ← feed_mod 8 c (b.toNat + 256 * leNat bs), h2]

/-- (a) difference of two runs over equally long byte strings = the run of the difference from the difference register -/
theorem crc32Raw_xor (a b : BitVec 32) (x y : Bytes) (h : x.length = y.length) :
    crc32Raw (a ^^^ b) (xorBytes x y) = crc32Raw a x ^^^ crc32Raw b y := by
  rw [crc32Raw_eq_feed, crc32Raw_eq_feed a, crc32Raw_eq_feed b, xorBytes_length x y h, leNat_xorBytes x y h, ← h, feed_xor]

/-- (a) affine in the data: flipping the bits of `mask` changes the register by the run of `mask` from register 0 -/
theorem crc32Raw_mask (c : BitVec 32) (x mask : Bytes) (h : x.length = mask.length) :
    crc32Raw c (xorBytes x mask) = crc32Raw c x ^^^ crc32Raw 0#32 mask := by
  rw [← crc32Raw_xor c 0#32 x mask h, BitVec.xor_zero]

/-! ### bursts -/

theorem feed_shift (s m W : Nat) : feed (s + m) 0#32 (W * 2 ^ s) = feed m 0#32 W := by
  rw [feed_add, ← feed_mod s, Nat.mul_mod_left, feed_zero_input, iter_crc32Bit_zero,
    Nat.mul_div_cancel _ (Nat.two_pow_pos s)]

theorem feed_nonzero (m W : Nat) (hW : 0 < W) (h32 : W < 2 ^ 32) (hm : W < 2 ^ m) : feed m 0#32 W ≠ 0#32 := by
  have key : ∀ k t, k ≤ 32 → W < 2 ^ k → feed (k + t) 0#32 W = 0#32 → False := by
    intro k t hk hWk h
    rw [feed_add, Nat.div_eq_of_lt hWk, feed_zero_input, feed_eq_iter k hk _ _ hWk, BitVec.zero_xor] at h
    have h1 := iter_inj crc32Bit crc32Bit_inj t _ _ (h.trans (iter_crc32Bit_zero t).symm)
    have h2 := iter_inj crc32Bit crc32Bit_inj k _ _ (h1.trans (iter_crc32Bit_zero k).symm)
    have h3 := congrArg BitVec.toNat h2
    rw [BitVec.toNat_ofNat, Nat.mod_eq_of_lt h32] at h3
    have : (0#32 : BitVec 32).toNat = 0 := rfl
    omega
  intro h
  by_cases hm32 : m ≤ 32
  · exact key m 0 hm32 hm h
  · have e : m = 32 + (m - 32) := by omega
    rw [e] at h
    exact key 32 (m - 32) (Nat.le_refl _) h32 h

/-- a nonzero word of at most 32 bits placed anywhere in a stream of `L` bits leaves a nonzero register -/
theorem feed_burst (L s W : Nat) (hW : 0 < W) (h32 : W < 2 ^ 32) (hL : W * 2 ^ s < 2 ^ L) :
    feed L 0#32 (W * 2 ^ s) ≠ 0#32 := by
  have hs : s < L := by
    apply (Nat.pow_lt_pow_iff_right (by decide : 1 < 2)).mp
    calc 2 ^ s = 1 * 2 ^ s := (Nat.one_mul _).symm
      _ ≤ W * 2 ^ s := Nat.mul_le_mul_right _ hW
      _ < 2 ^ L := hL
  have hLs : L = s + (L - s) := by omega
  have hm : W < 2 ^ (L - s) := by
    rw [hLs, Nat.pow_add, Nat.mul_comm] at hL
    exact Nat.lt_of_mul_lt_mul_left hL
  rw [hLs, feed_shift]
  exact feed_nonzero _ W hW h32 hm

theorem feed_one (m : Nat) : feed (m + 1) 0#32 1 = iter crc32Bit (m + 1) 1#32 := by
  rw [Nat.add_comm, feed_add, feed_eq_iter 1 (by decide) _ _ (by decide), feed_zero_input, BitVec.zero_xor, iter_add]

/-- one set bit at position `i` of an `L`-bit stream -/
theorem feed_single (L i : Nat) (h : i < L) : feed L 0#32 (2 ^ i) = iter crc32Bit (L - i) 1#32 := by
  have h1 : L = i + ((L - i - 1) + 1) := by omega
  have h2 : L - i = (L - i - 1) + 1 := by omega
  rw [h2]
  generalize L - i - 1 = m at h1
  rw [h1, ← Nat.one_mul (2 ^ i), feed_shift, feed_one]

/-- two set bits: detected unless the bit-step returns the state `1` to itself after `j - i` steps -/
theorem feed_two (L i j : Nat) (hij : i < j) (hj : j < L) (hper : iter crc32Bit (j - i) 1#32 ≠ 1#32) :
    feed L 0#32 (2 ^ i ^^^ 2 ^ j) ≠ 0#32 := by
  have := feed_xor L 0#32 0#32 (2 ^ i) (2 ^ j)
  rw [BitVec.xor_zero] at this
  rw [this, feed_single L i (by omega), feed_single L j hj]
  intro h
  have h1 := BitVec.xor_eq_zero_iff.mp h
  have h2 : L - i = (j - i) + (L - j) := by omega
  rw [h2, iter_add] at h1
  exact hper (iter_inj crc32Bit crc32Bit_inj _ _ _ h1)

end Cql.Crc.Detect

namespace Cql.Crc.Detect
open Cql Cql.Segment Cql.Prim Cql.Parser

/-! ## the receiver's checks -/

theorem decodeSegmentHeader_reject (c : Option PayloadCompressor) (hb cb rest : Bytes)
    (h1 : hb.length = headerLength c) (h2 : cb.length = crc24Length)
    (hne : (crc24 (BitVec.ofNat 64 (leNat hb)) (headerLength c)).toNat ≠ leNat cb) :
    (decodeSegmentHeader c).run (hb ++ (cb ++ rest)) = .err "crc mismatch on header" := by
  rw [decodeSegmentHeader, bind_ok (take_RT _ hb _ h1), bind_ok (take_RT _ cb _ h2)]
  simp only []
  rw [if_pos hne]
  rfl

/-- the receiver's payload check, exactly as in `decodeSegmentPayload`: the last four bytes, little-endian, are the
`checksumIEEE` of everything before them -/
def accepts (wire : Bytes) : Bool :=
  decide ((checksumIEEE (wire.take (wire.length - 4))).toNat = leNat (wire.drop (wire.length - 4)))

theorem accepts_append (body cb : Bytes) (h : cb.length = 4) :
    accepts (body ++ cb) = decide ((checksumIEEE body).toNat = leNat cb) := by
  rw [accepts, List.length_append, h, Nat.add_sub_cancel, List.take_left', List.drop_left'] <;> rfl

/-- the payload length the decoder reads for a header -/
def payloadWireLength (c : Option PayloadCompressor) (h : Header) : Nat :=
  if c.isNone || h.compressedPayloadLength = 0 then h.uncompressedPayloadLength else h.compressedPayloadLength

theorem decodeSegmentPayload_reject (c : Option PayloadCompressor) (h : Header) (body cb rest : Bytes)
    (h1 : body.length = payloadWireLength c h) (h2 : cb.length = 4) (hacc : accepts (body ++ cb) = false) :
    (decodeSegmentPayload c h).run (body ++ (cb ++ rest)) = .err "crc mismatch on payload" := by
  rw [accepts_append body cb h2, decide_eq_false_iff_not] at hacc
  rw [payloadWireLength] at h1
  rw [decodeSegmentPayload]
  rw [bind_ok (take_RT _ body _ h1), bind_ok (take_RT _ cb _ h2)]
  simp only []
  rw [if_pos hacc]
  rfl

/-- register value with which `checksumIEEE` starts its raw run -/
def crc32Start : BitVec 32 := ~~~ initialChecksum

/-- the residue: register after the raw run over a byte string followed by its own checksum -/
def crc32Residue : BitVec 32 := iter crc32Bit 32 (BitVec.allOnes 32)

theorem checksumIEEE_eq (bs : Bytes) : checksumIEEE bs = ~~~ crc32Raw crc32Start bs := by
  rw [checksumIEEE, crc32Update, crc32Start]

theorem crc32Raw_four (r : BitVec 32) (cb : Bytes) (h : cb.length = 4) :
    crc32Raw r cb = iter crc32Bit 32 (r ^^^ BitVec.ofNat 32 (leNat cb)) := by
  have hl := leNat_lt cb
  rw [h] at hl
  rw [crc32Raw_eq_feed, h, feed_eq_iter 32 (Nat.le_refl _) r _ hl]

/-- (b) an accepted wire image leaves the constant residue in the raw register -/
theorem accepts_residue (body cb : Bytes) (h : cb.length = 4) (hacc : accepts (body ++ cb) = true) :
    crc32Raw crc32Start (body ++ cb) = crc32Residue := by
  rw [accepts_append body cb h, decide_eq_true_eq] at hacc
  rw [crc32Raw_append, crc32Raw_four _ cb h, ← hacc, BitVec.ofNat_toNat, BitVec.setWidth_eq, checksumIEEE_eq,
    crc32Residue]
  congr 1
  ext i
  simp only [BitVec.getElem_xor, BitVec.getElem_not, BitVec.getElem_allOnes]
  cases (crc32Raw crc32Start body)[i] <;> rfl

end Cql.Crc.Detect
namespace Cql.Crc.Detect
open Cql Cql.Segment Cql.Prim Cql.Parser

theorem xor_self_cancel32 (r x : BitVec 32) (h : r = r ^^^ x) : x = 0#32 := by
  have := congrArg (r ^^^ ·) h
  simp only [← BitVec.xor_assoc, BitVec.xor_self, BitVec.zero_xor] at this
  exact this.symm

theorem writePayloadCrc_length (bs : Bytes) : (writePayloadCrc bs).length = 4 := by
  rw [writePayloadCrc, leBytes_length]

theorem accepts_sent (payload : Bytes) : accepts (payload ++ writePayloadCrc payload) = true := by
  rw [accepts_append _ _ (writePayloadCrc_length payload), writePayloadCrc,
    leNat_leBytes_of_lt 4 _ (checksumIEEE payload).isLt, decide_eq_true rfl]

/-- (b) core: a mask whose own raw CRC-32 (from register 0) is nonzero turns a sent payload+CRC into a rejected one -/
theorem accepts_corrupt (payload mask : Bytes) (hlen : mask.length = payload.length + 4)
    (hm : crc32Raw 0#32 mask ≠ 0#32) : accepts (xorBytes (payload ++ writePayloadCrc payload) mask) = false := by
  have hw : (payload ++ writePayloadCrc payload).length = mask.length := by
    rw [List.length_append, writePayloadCrc_length, hlen]
  cases hacc : accepts (xorBytes (payload ++ writePayloadCrc payload) mask) with
  | false => rfl
  | true =>
    exfalso
    have hl := xorBytes_length _ _ hw
    rw [← List.take_append_drop payload.length (xorBytes (payload ++ writePayloadCrc payload) mask)] at hacc
    have h1 := accepts_residue _ _ (by rw [List.length_drop, hl, hw, hlen]; omega) hacc
    rw [List.take_append_drop, crc32Raw_mask _ _ _ hw,
      accepts_residue _ _ (writePayloadCrc_length payload) (accepts_sent payload)] at h1
    exact hm (xor_self_cancel32 _ _ h1.symm)

/-! ### masks as sets of bit positions -/

/-- bit `p` of a byte string: byte `p / 8`, bit `p % 8` counted from the least significant — the order in which the
reflected CRC-32 consumes the bits -/
def bitAt (bs : Bytes) (p : Nat) : Bool := (bs.getD (p / 8) 0).toNat.testBit (p % 8)

theorem bitAt_eq (bs : Bytes) (p : Nat) : bitAt bs p = (leNat bs).testBit p := by
  induction bs generalizing p with
  | nil => rw [bitAt, leNat, Nat.zero_testBit, List.getD_nil]; exact Nat.zero_testBit _
  | cons b bs ih =>
    rw [leNat, testBit_byte_add _ _ _ (UInt8.toNat_lt b)]
    by_cases h : p < 8
    · rw [if_pos h, bitAt, Nat.div_eq_of_lt h, Nat.mod_eq_of_lt h]; rfl
    · have h1 : p / 8 = (p - 8) / 8 + 1 := by omega
      have h2 : p % 8 = (p - 8) % 8 := by omega
      rw [if_neg h, ← ih, bitAt, bitAt, h1, h2, List.getD_cons_succ]

theorem burst_of_window (N s : Nat) (hN : N ≠ 0) (hwin : ∀ p, N.testBit p = true → s ≤ p ∧ p < s + 32) :
    ∃ W, 0 < W ∧ W < 2 ^ 32 ∧ N = W * 2 ^ s := by
  have hmod : N % 2 ^ s = 0 := by
    apply Nat.eq_of_testBit_eq
    intro i
    rw [Nat.testBit_mod_two_pow, Nat.zero_testBit]
    cases hb : N.testBit i with
    | false => rw [Bool.and_false]
    | true => rw [decide_eq_false (by have := (hwin i hb).1; omega)]; rfl
  have hN' : N = N / 2 ^ s * 2 ^ s := by
    have := Nat.div_add_mod N (2 ^ s)
    rw [hmod, Nat.add_zero, Nat.mul_comm] at this
    exact this.symm
  refine ⟨N / 2 ^ s, ?_, ?_, hN'⟩
  · apply Nat.pos_of_ne_zero
    intro h0
    rw [h0, Nat.zero_mul] at hN'
    exact hN hN'
  · apply Nat.lt_pow_two_of_testBit
    intro i hi
    rw [Nat.testBit_div_two_pow]
    cases hb : N.testBit (i + s) with
    | false => rfl
    | true => have := (hwin _ hb).2; omega

/-- a nonzero mask whose set bits lie in a window of 32 consecutive bit positions has a nonzero raw CRC-32 -/
theorem mask_burst (mask : Bytes) (s p0 : Nat) (hp0 : bitAt mask p0 = true)
    (hwin : ∀ p, bitAt mask p = true → s ≤ p ∧ p < s + 32) : crc32Raw 0#32 mask ≠ 0#32 := by
  have hN : leNat mask ≠ 0 := by
    intro h0; rw [bitAt_eq, h0, Nat.zero_testBit] at hp0; exact Bool.false_ne_true hp0
  obtain ⟨W, hW, h32, hNW⟩ := burst_of_window (leNat mask) s hN (fun p hp => hwin p (by rw [bitAt_eq]; exact hp))
  have hL := leNat_lt mask
  rw [crc32Raw_eq_feed, hNW]
  rw [hNW] at hL
  exact feed_burst _ s W hW h32 hL

/-- a mask with exactly the two bits `i < j` set has a nonzero raw CRC-32 unless the bit step maps `1` to itself in
`j - i` steps -/
theorem mask_two (mask : Bytes) (i j : Nat) (hij : i < j)
    (hbits : ∀ p, bitAt mask p = (decide (p = i) || decide (p = j)))
    (hper : iter crc32Bit (j - i) 1#32 ≠ 1#32) : crc32Raw 0#32 mask ≠ 0#32 := by
  have hN : leNat mask = 2 ^ i ^^^ 2 ^ j := by
    apply Nat.eq_of_testBit_eq
    intro p
    rw [← bitAt_eq, hbits, Nat.testBit_xor, Nat.testBit_two_pow, Nat.testBit_two_pow]
    by_cases h1 : p = i
    · subst h1; simp; omega
    · by_cases h2 : p = j
      · subst h2; simp; omega
      · simp [h1, h2, Ne.symm h1, Ne.symm h2]
  have hj : j < 8 * mask.length := by
    apply Nat.lt_of_not_le
    intro hle
    have h1 : bitAt mask j = true := by rw [hbits]; simp
    rw [bitAt_eq, Nat.testBit_lt_two_pow (Nat.lt_of_lt_of_le (leNat_lt mask) (Nat.pow_le_pow_right (by decide) hle))] at h1
    exact Bool.false_ne_true h1
  rw [crc32Raw_eq_feed, hN]
  exact feed_two _ i j hij hj hper

end Cql.Crc.Detect

/-! ## Lifting to the decoders -/
namespace Cql.Crc.Detect
open Cql Cql.Segment Cql.Prim Cql.Parser

/-- (1c) header bytes as written by `writeHeaderDataAndCrc`, 1..7 bits flipped anywhere in data or CRC: rejected -/
theorem header_reject_generic (c : Option PayloadCompressor) (n : Nat) (hn : headerLength c = n + 1)
    (hwalk : walk (synList (n + 1) (8 * (n + 1))) 0 0#32 = true) (hn8 : 8 * (n + 1) ≤ 64)
    (d : Nat) (hd : d < 2 ^ (8 * (n + 1))) (mask rest : Bytes) (hlen : mask.length = n + 1 + 3)
    (h1 : 1 ≤ popcountBytes mask) (h7 : popcountBytes mask ≤ 7) :
    (decodeSegmentHeader c).run (xorBytes (writeHeaderDataAndCrc d (n + 1)) mask ++ rest)
      = .err "crc mismatch on header" := by
  have hsplit := List.take_append_drop (n + 1) mask
  have hmh : (mask.take (n + 1)).length = n + 1 := by rw [List.length_take, hlen]; omega
  have hmc : (mask.drop (n + 1)).length = 3 := by rw [List.length_drop, hlen]; omega
  have hpc : popcountBytes (mask.take (n + 1)) + popcountBytes (mask.drop (n + 1)) = popcountBytes mask := by
    rw [← popcountBytes_append, hsplit]
  rw [writeHeaderDataAndCrc, ← hsplit, xorBytes_append _ _ _ _ (by rw [leBytes_length, hmh]), List.append_assoc]
  apply decodeSegmentHeader_reject
  · rw [xorBytes_length _ _ (by rw [leBytes_length, hmh]), leBytes_length, hn]
  · rw [xorBytes_length _ _ (by rw [leBytes_length, hmc]; rfl), leBytes_length]
  · rw [hn]
    exact crc24_reject_split n hwalk hn8 d hd _ _ hmh hmc (by omega) (by omega)

/-- the error patterns over payload+CRC-32 that the CRC-32 is guaranteed to detect: a nonzero pattern inside a window of
32 consecutive bit positions (a burst; in particular one flipped bit), or exactly two flipped bits -/
def Crc32Detectable (mask : Bytes) : Prop :=
  (∃ s p0, bitAt mask p0 = true ∧ ∀ p, bitAt mask p = true → s ≤ p ∧ p < s + 32)
  ∨ (∃ i j, i < j ∧ ∀ p, bitAt mask p = (decide (p = i) || decide (p = j)))

theorem bitAt_lt (mask : Bytes) (p : Nat) (h : bitAt mask p = true) : p < 8 * mask.length := by
  apply Nat.lt_of_not_le
  intro hle
  rw [bitAt_eq, Nat.testBit_lt_two_pow (Nat.lt_of_lt_of_le (leNat_lt mask) (Nat.pow_le_pow_right (by decide) hle))] at h
  exact Bool.false_ne_true h

/-- what is needed of the period computation (`crc32_period` in `Crc32Period/All.lean`) -/
def PeriodBound (n : Nat) : Prop := ∀ k, 1 ≤ k → k ≤ n → iter crc32Bit k 1#32 ≠ 1#32

theorem detectable_nonzero (n : Nat) (hper : PeriodBound n) (mask : Bytes) (hlen : 8 * mask.length ≤ n)
    (h : Crc32Detectable mask) : crc32Raw 0#32 mask ≠ 0#32 := by
  rcases h with ⟨s, p0, hp0, hwin⟩ | ⟨i, j, hij, hbits⟩
  · exact mask_burst mask s p0 hp0 hwin
  · have hj : j < 8 * mask.length := bitAt_lt mask j (by rw [hbits]; simp)
    exact mask_two mask i j hij hbits (hper (j - i) (by omega) (by omega))

theorem payload_reject_generic (n : Nat) (hper : PeriodBound n) (c : Option PayloadCompressor) (h : Header)
    (payload mask rest : Bytes) (hh : payloadWireLength c h = payload.length)
    (hlen : mask.length = payload.length + 4) (hn : 8 * (payload.length + 4) ≤ n) (hm : Crc32Detectable mask) :
    (decodeSegmentPayload c h).run (xorBytes (payload ++ writePayloadCrc payload) mask ++ rest)
      = .err "crc mismatch on payload" := by
  have hacc := accepts_corrupt payload mask hlen (detectable_nonzero n hper mask (by rw [hlen]; exact hn) hm)
  have hw : (payload ++ writePayloadCrc payload).length = mask.length := by
    rw [List.length_append, writePayloadCrc_length, hlen]
  have hl := xorBytes_length _ _ hw
  rw [← List.take_append_drop payload.length (xorBytes (payload ++ writePayloadCrc payload) mask)] at hacc ⊢
  rw [List.append_assoc]
  apply decodeSegmentPayload_reject _ _ _ _ _ _ _ hacc
  · rw [List.length_take, hl, hw, hlen, hh]; omega
  · rw [List.length_drop, hl, hw, hlen]; omega

end Cql.Crc.Detect
