import Cql.Crc
/-!
# The finite core of the CRC-24 detection guarantee

`walk` enumerates every set of at most 7 data-bit positions (top position first), carrying the xor of the positions'
syndromes (`syn n p` = the CRC register reached from register 0 by the data word with the single bit `p`).
By linearity of the CRC that xor is the CRC contribution of the error pattern. A leaf is accepted when the
pattern is empty or when the syndrome weight plus the pattern weight is at least 8.

The two theorems `crc24_weight_core_3` / `crc24_weight_core_5` are the only uses of `native_decide` in the
CRC-24 development (536 154 and 23 242 038 nonzero patterns); the soundness of `walk` (what `walk … = true` means) is
proved in `Cql/Lemmas/CrcLemmas.lean` (`walk_sound`) in the ordinary way.
-/
namespace Cql.Crc.Detect

/-- number of set bits among the low `k` bits -/
def pcB {w : Nat} : Nat → BitVec w → Nat
  | 0, _ => 0
  | k + 1, x => pcB k x + (x.getLsbD k).toNat

/-- syndrome of data bit `pos` for an `n`-byte header -/
def syn (n pos : Nat) : BitVec 32 := crc24From 0#32 (BitVec.twoPow 64 pos) n

/-- syndromes of positions `k-1, …, 0` -/
def synList (n : Nat) : Nat → List (BitVec 32)
  | 0 => []
  | k + 1 => syn n k :: synList n k

def leafOk (used : Nat) (acc : BitVec 32) : Bool := used == 0 || decide (8 ≤ pcB 32 acc + used)

/-- all choices of at most `7 - used` further positions among those of the list -/
def walk : List (BitVec 32) → Nat → BitVec 32 → Bool
  | [], used, acc => leafOk used acc
  | s :: ss, used, acc =>
    if used = 7 then acc != 0#32 else walk ss used acc && walk ss (used + 1) (acc ^^^ s)

end Cql.Crc.Detect

namespace Cql.Crc.Detect

/-- 3-byte header (no compressor): all 536 154 error patterns of 1..7 of the 24 data bits -/
theorem crc24_weight_core_3 : walk (synList 3 24) 0 0#32 = true := by native_decide

/-- 5-byte header (with a compressor): all 23 242 038 error patterns of 1..7 of the 40 data bits -/
theorem crc24_weight_core_5 : walk (synList 5 40) 0 0#32 = true := by native_decide

end Cql.Crc.Detect
