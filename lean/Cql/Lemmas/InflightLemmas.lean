import Cql.Inflight
/-! Helper lemmas about the association-list operations of the in-flight model. -/
namespace Cql.Inflight

def keys (m : List (Int × Nat)) : List Int := m.map (·.1)

theorem lookup_none_iff (m : List (Int × Nat)) (k : Int) : lookup m k = none ↔ k ∉ keys m := by
  induction m with
  | nil => simp [lookup, keys]
  | cons p ps ih =>
    by_cases h : p.1 = k
    · simp [lookup, keys, List.find?, h]
    · have h' : (p.1 == k) = false := by simpa using h
      have ih' := ih
      simp only [lookup, keys] at ih' ⊢
      rw [List.find?_cons, h']
      simp only [List.map_cons, List.mem_cons]
      rw [ih']
      constructor
      · intro hk hk'; rcases hk' with hk' | hk'
        · exact h hk'.symm
        · exact hk hk'
      · intro hk hk'; exact hk (Or.inr hk')

theorem lookup_some_mem (m : List (Int × Nat)) (k : Int) (h : Nat) (hl : lookup m k = some h) : (k, h) ∈ m := by
  induction m with
  | nil => simp [lookup] at hl
  | cons p ps ih =>
    by_cases hp : p.1 = k
    · have : lookup (p :: ps) k = some p.2 := by simp [lookup, List.find?, hp]
      rw [this] at hl
      have : p = (k, h) := by cases p; simp_all
      rw [this]; exact List.mem_cons_self
    · have h' : (p.1 == k) = false := by simpa using hp
      have : lookup (p :: ps) k = lookup ps k := by simp only [lookup]; rw [List.find?_cons, h']
      rw [this] at hl
      exact List.mem_cons_of_mem _ (ih hl)

theorem keys_erase_count (m : List (Int × Nat)) (k i : Int) :
    (keys (erase m k)).count i = if i = k then 0 else (keys m).count i := by
  induction m with
  | nil => simp [erase, keys]
  | cons p ps ih =>
    simp only [erase, keys] at ih ⊢
    by_cases hp : p.1 = k
    · have : (p.1 != k) = false := by simp [hp]
      rw [List.filter_cons, this]
      simp only [Bool.false_eq_true, if_false]
      rw [ih]
      by_cases hi : i = k
      · simp [hi]
      · simp only [hi, if_false, List.map_cons, List.count_cons]
        have : (p.1 == i) = false := by simp [hp]; exact fun h => hi h.symm
        simp [this]
    · have : (p.1 != k) = true := by simp [hp]
      rw [List.filter_cons, this]
      simp only [if_true, List.map_cons, List.count_cons]
      rw [ih]
      by_cases hi : i = k
      · subst hi
        have : (p.1 == i) = false := by simpa using hp
        simp [this]
      · simp [hi]

theorem erase_length (m : List (Int × Nat)) (k : Int) (h : (keys m).count k = 1) : (erase m k).length + 1 = m.length := by
  induction m with
  | nil => simp [keys] at h
  | cons p ps ih =>
    simp only [erase, keys] at ih h ⊢
    by_cases hp : p.1 = k
    · have hb : (p.1 != k) = false := by simp [hp]
      rw [List.filter_cons, hb]
      simp only [Bool.false_eq_true, if_false, List.length_cons]
      have hc : (List.map (fun x => x.1) ps).count k = 0 := by
        simp only [List.map_cons, List.count_cons, hp, beq_self_eq_true, if_true] at h; omega
      have : ps.filter (fun x => x.1 != k) = ps := by
        apply List.filter_eq_self.mpr
        intro a ha
        by_cases hak : a.1 = k
        · exfalso
          have : k ∈ List.map (fun x => x.1) ps := by rw [← hak]; exact List.mem_map_of_mem ha
          exact (List.count_eq_zero.mp hc) this
        · simp [hak]
      rw [this]
    · have hb : (p.1 != k) = true := by simp [hp]
      rw [List.filter_cons, hb]
      simp only [if_true, List.length_cons]
      have hc : (List.map (fun x => x.1) ps).count k = 1 := by
        have : (p.1 == k) = false := by simpa using hp
        simp only [List.map_cons, List.count_cons, this] at h; simpa using h
      have := ih hc
      omega

theorem mem_erase (m : List (Int × Nat)) (k : Int) (p : Int × Nat) : p ∈ erase m k ↔ p ∈ m ∧ p.1 ≠ k := by
  simp [erase]

theorem idsFrom_count (a n : Nat) (i : Int) :
    (idsFrom a n).count i = if (a : Int) ≤ i ∧ i < (a : Int) + n then 1 else 0 := by
  induction n generalizing a with
  | zero => simp [idsFrom]
  | succ n ih =>
    rw [idsFrom, List.count_cons, ih]
    by_cases h : (a : Int) = i
    · subst h
      have : ((a : Int) == (a : Int)) = true := by simp
      simp only [this, if_true]
      have h1 : ¬ (((a + 1 : Nat) : Int) ≤ (a : Int) ∧ (a : Int) < ((a + 1 : Nat) : Int) + (n : Int)) := by omega
      have h2 : ((a : Int) ≤ (a : Int) ∧ (a : Int) < (a : Int) + ((n + 1 : Nat) : Int)) := by omega
      rw [if_neg h1, if_pos h2]
    · have : ((a : Int) == i) = false := by simpa using h
      simp only [this, Bool.false_eq_true, if_false, Nat.add_zero]
      by_cases h1 : (((a + 1 : Nat) : Int) ≤ i ∧ i < ((a + 1 : Nat) : Int) + (n : Int))
      · rw [if_pos h1, if_pos (by omega)]
      · rw [if_neg h1, if_neg (by omega)]

theorem idsFrom_length (a n : Nat) : (idsFrom a n).length = n := by
  induction n generalizing a with
  | zero => rfl
  | succ n ih => rw [idsFrom, List.length_cons, ih]

end Cql.Inflight
