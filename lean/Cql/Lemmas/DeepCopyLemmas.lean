import Cql.DeepCopy
/-! Meta-theorem for C17: a covered plan produces an equal value made of fresh locations only. -/
namespace Cql.DeepCopy

/-- what a correct deep copy achieves, with the allocation counter going from `n` to `n'` -/
structure Good (n : Nat) (ls ls' : List Nat) (n' : Nat) : Prop where
  mono : n ≤ n'
  fresh : ∀ l ∈ ls', n ≤ l ∧ l < n'

theorem flat_ptr (env : Env) (f : Nat) (s : Shape) : flat env f (.ptr s) = false := by cases f <;> rfl
theorem flat_slice (env : Env) (f : Nat) (s : Shape) : flat env f (.slice s) = false := by cases f <;> rfl
theorem flat_map (env : Env) (f : Nat) (s : Shape) : flat env f (.map s) = false := by cases f <;> rfl
theorem flat_iface (env : Env) (f : Nat) (s : Nat) : flat env f (.iface s) = false := by cases f <;> rfl

mutual
theorem flat_locs (env : Env) : ∀ (v : Val) (f : Nat) (s : Shape), flat env f s = true → hasShape env s v = true →
    locs v = []
  | .scalar _, _, _, _, _ => by simp [locs]
  | .nil, _, _, _, _ => by simp [locs]
  | .ptr _ _, f, s, hf, hs => by
    cases s <;> simp [hasShape] at hs
    rw [flat_ptr] at hf; cases hf
  | .slice _ _, f, s, hf, hs => by
    cases s <;> simp [hasShape] at hs
    rw [flat_slice] at hf; cases hf
  | .map _ _ _, f, s, hf, hs => by
    cases s <;> simp [hasShape] at hs
    rw [flat_map] at hf; cases hf
  | .iface _ _ _, f, s, hf, hs => by
    cases s <;> simp [hasShape] at hs
    rw [flat_iface] at hf; cases hf
  | .struct fs, f, s, hf, hs => by
    cases s with
    | struct ss =>
      cases f with
      | zero => simp [flat] at hf
      | succ f =>
        simp only [hasShape] at hs
        simp only [flat] at hf
        simp only [locs]
        exact flat_locs_fields env fs f ss hf hs
    | named T =>
      cases f with
      | zero => simp [flat] at hf
      | succ f =>
        simp only [hasShape] at hs
        simp only [flat] at hf
        simp only [locs]
        exact flat_locs_fields env fs f _ hf hs
    | _ => simp [hasShape] at hs
theorem flat_locs_fields (env : Env) : ∀ (vs : List Val) (f : Nat) (ss : List Shape),
    ss.all (flat env f) = true → fieldsShape env ss vs = true → locsAll vs = []
  | [], _, _, _, _ => by simp [locsAll]
  | v :: vs, f, ss, hf, hs => by
    cases ss with
    | nil => simp [fieldsShape] at hs
    | cons s ss =>
      simp only [fieldsShape, Bool.and_eq_true] at hs
      simp only [List.all_cons, Bool.and_eq_true] at hf
      simp only [locsAll]
      rw [flat_locs env v f s hf.1 hs.1, flat_locs_fields env vs f ss hf.2 hs.2]; rfl
end

theorem copy_assign (env : Env) (v : Val) (n : Nat) : copy env .assign v n = (v, n) := by
  cases v <;> simp [copy]

theorem Env.find_name {env : Env} {T : Nat} {t : TypeInfo} (h : env.find T = some t) : t ∈ env.types := by
  exact List.mem_of_find?_eq_some h

theorem Env.ok_type {env : Env} (hok : env.ok = true) {T : Nat} (h : (env.find T).isSome = true) :
    coversFields env (fuel env) (env.shapes T) (env.plans T) = true := by
  obtain ⟨t, ht⟩ := Option.isSome_iff_exists.mp h
  simp only [Env.ok, Bool.and_eq_true, List.all_eq_true] at hok
  have := hok.1 t (Env.find_name ht)
  simp only [Env.shapes, Env.plans, ht, Option.map_some, Option.getD_some]
  exact this

theorem Env.ok_impl {env : Env} (hok : env.ok = true) {I d : Nat} (h : (env.impls I).contains d = true) :
    (env.find d).isSome = true := by
  simp only [Env.impls] at h
  cases hf : env.ifaces.find? (·.1 == I) with
  | none => simp [hf] at h
  | some i =>
    simp only [hf, Option.map_some, Option.getD_some, List.contains_iff_mem] at h
    simp only [Env.ok, Bool.and_eq_true, List.all_eq_true] at hok
    exact hok.2 i (List.mem_of_find?_eq_some hf) d h

/-- the copy is equal to the original up to locations -/
structure Copied (n : Nat) (v v' : Val) (n' : Nat) : Prop where
  eq : erase v' = erase v
  good : Good n (locs v) (locs v') n'

structure CopiedAll (n : Nat) (vs vs' : List Val) (n' : Nat) : Prop where
  eq : eraseAll vs' = eraseAll vs
  good : Good n (locsAll vs) (locsAll vs') n'

theorem Copied.same (n : Nat) (v : Val) (h : locs v = []) : Copied n v v n :=
  ⟨rfl, ⟨Nat.le_refl n, by rw [h]; intro l hl; cases hl⟩⟩

theorem CopiedAll.cons {n n1 n2 : Nat} {v v' : Val} {vs vs' : List Val} (h1 : Copied n v v' n1)
    (h2 : CopiedAll n1 vs vs' n2) : CopiedAll n (v :: vs) (v' :: vs') n2 := by
  refine ⟨by simp only [eraseAll]; rw [h1.eq, h2.eq], ⟨Nat.le_trans h1.good.mono h2.good.mono, ?_⟩⟩
  intro l hl
  simp only [locsAll, List.mem_append] at hl
  cases hl with
  | inl h => have := h1.good.fresh l h; have := h2.good.mono; omega
  | inr h => have := h2.good.fresh l h; have := h1.good.mono; omega

mutual
theorem copy_good (env : Env) (hok : env.ok = true) : ∀ (v : Val) (s : Shape) (p : Plan) (n : Nat),
    covers env (fuel env) s p = true → hasShape env s v = true →
    Copied n v (copy env p v n).1 (copy env p v n).2
  | .scalar k, _, p, n, _, _ => by
    have : copy env p (.scalar k) n = (.scalar k, n) := by simp [copy]
    rw [this]; exact Copied.same n _ (by simp [locs])
  | .nil, _, p, n, _, _ => by
    have : copy env p .nil n = (.nil, n) := by simp [copy]
    rw [this]; exact Copied.same n _ (by simp [locs])
  | .ptr l v, s, p, n, hc, hs => by
    cases s <;> simp only [hasShape] at hs <;> try (cases hs)
    rename_i t
    cases p <;> simp only [covers, flat_ptr] at hc <;> try (cases hc)
    rename_i q
    have ih := copy_good env hok v t q (n + 1) hc hs
    simp only [copy]
    refine ⟨by simp only [erase]; rw [ih.eq], ⟨by have := ih.good.mono; omega, ?_⟩⟩
    intro l' hl'
    simp only [locs, List.mem_cons] at hl'
    cases hl' with
    | inl h => have := ih.good.mono; omega
    | inr h => have := ih.good.fresh l' h; omega
  | .slice l es, s, p, n, hc, hs => by
    cases s <;> simp only [hasShape] at hs <;> try (cases hs)
    rename_i t
    cases p <;> simp only [covers, flat_slice] at hc <;> try (cases hc)
    rename_i q
    have ih := copyAll_good env hok es t q (n + 1) hc hs
    simp only [copy]
    refine ⟨by simp only [erase]; rw [ih.eq], ⟨by have := ih.good.mono; omega, ?_⟩⟩
    intro l' hl'
    simp only [locs, List.mem_cons] at hl'
    cases hl' with
    | inl h => have := ih.good.mono; omega
    | inr h => have := ih.good.fresh l' h; omega
  | .map l ks vs, s, p, n, hc, hs => by
    cases s <;> simp only [hasShape] at hs <;> try (cases hs)
    rename_i t
    simp only [Bool.and_eq_true] at hs
    cases p <;> simp only [covers, flat_map] at hc <;> try (cases hc)
    rename_i q
    have ih := copyAll_good env hok vs t q (n + 1) hc hs.2
    simp only [copy]
    refine ⟨by simp only [erase]; rw [ih.eq], ⟨by have := ih.good.mono; omega, ?_⟩⟩
    intro l' hl'
    simp only [locs, List.mem_cons] at hl'
    cases hl' with
    | inl h => have := ih.good.mono; omega
    | inr h => have := ih.good.fresh l' h; omega
  | .struct fs, s, p, n, hc, hs => by
    cases p with
    | assign =>
      rw [copy_assign]
      simp only [covers] at hc
      exact Copied.same n _ (flat_locs env _ _ _ hc hs)
    | fields ps =>
      cases s <;> simp only [covers] at hc <;> try (cases hc)
      rename_i ss
      simp only [hasShape] at hs
      have ih := copyFields_good env hok fs ss ps n hc hs
      simp only [copy]
      exact ⟨by simp only [erase]; rw [ih.eq], by simp only [locs]; exact ih.good⟩
    | call T' =>
      cases s <;> simp only [covers] at hc <;> try (cases hc)
      rename_i T
      simp only [Bool.and_eq_true, beq_iff_eq] at hc
      obtain ⟨hT, hfind⟩ := hc
      subst hT
      simp only [hasShape] at hs
      have ih := copyFields_good env hok fs _ _ n (Env.ok_type hok hfind) hs
      simp only [copy]
      exact ⟨by simp only [erase]; rw [ih.eq], by simp only [locs]; exact ih.good⟩
    | newPtr q =>
      cases s <;> first | (simp [hasShape] at hs; done) | (simp [covers] at hc)
    | makeSlice q =>
      cases s <;> first | (simp [hasShape] at hs; done) | (simp [covers] at hc)
    | makeMap q =>
      cases s <;> first | (simp [hasShape] at hs; done) | (simp [covers] at hc)
    | dispatch q =>
      cases s <;> first | (simp [hasShape] at hs; done) | (simp [covers] at hc)
  | .iface d l fs, s, p, n, hc, hs => by
    cases s <;> simp only [hasShape] at hs <;> try (cases hs)
    rename_i I
    simp only [Bool.and_eq_true] at hs
    cases p <;> simp only [covers, flat_iface] at hc <;> try (cases hc)
    rename_i I'
    have ih := copyFields_good env hok fs _ _ (n + 1) (Env.ok_type hok (Env.ok_impl hok hs.1)) hs.2
    simp only [copy]
    refine ⟨by simp only [erase]; rw [ih.eq], ⟨by have := ih.good.mono; omega, ?_⟩⟩
    intro l' hl'
    simp only [locs, List.mem_cons] at hl'
    cases hl' with
    | inl h => have := ih.good.mono; omega
    | inr h => have := ih.good.fresh l' h; omega
theorem copyAll_good (env : Env) (hok : env.ok = true) : ∀ (vs : List Val) (s : Shape) (p : Plan) (n : Nat),
    covers env (fuel env) s p = true → allShape env s vs = true →
    CopiedAll n vs (copyAll env p vs n).1 (copyAll env p vs n).2
  | [], _, _, n, _, _ => by
    simp only [copyAll]
    exact ⟨rfl, ⟨Nat.le_refl n, by intro l hl; simp [locsAll] at hl⟩⟩
  | v :: vs, s, p, n, hc, hs => by
    simp only [allShape, Bool.and_eq_true] at hs
    simp only [copyAll]
    exact CopiedAll.cons (copy_good env hok v s p n hc hs.1) (copyAll_good env hok vs s p _ hc hs.2)
theorem copyFields_good (env : Env) (hok : env.ok = true) : ∀ (vs : List Val) (ss : List Shape) (ps : List Plan) (n : Nat),
    coversFields env (fuel env) ss ps = true → fieldsShape env ss vs = true →
    CopiedAll n vs (copyFields env ps vs n).1 (copyFields env ps vs n).2
  | [], _, _, n, _, _ => by
    simp only [copyFields]
    exact ⟨rfl, ⟨Nat.le_refl n, by intro l hl; simp [locsAll] at hl⟩⟩
  | v :: vs, ss, ps, n, hc, hs => by
    cases ss with
    | nil => simp [fieldsShape] at hs
    | cons s ss =>
      simp only [fieldsShape, Bool.and_eq_true] at hs
      simp only [copyFields]
      cases ps with
      | nil =>
        simp only [coversFields, Bool.and_eq_true] at hc
        have h1 : covers env (fuel env) s .assign = true := by simp only [covers]; exact hc.1
        exact CopiedAll.cons (copy_good env hok v s .assign n h1 hs.1)
          (copyFields_good env hok vs ss [] _ hc.2 hs.2)
      | cons p ps =>
        simp only [coversFields, Bool.and_eq_true] at hc
        exact CopiedAll.cons (copy_good env hok v s p n hc.1 hs.1)
          (copyFields_good env hok vs ss ps _ hc.2 hs.2)
end

end Cql.DeepCopy
