import Cql.Spec.Responses
import Cql.Lemmas.SpecPrim
import Cql.Lemmas.MessageRT
/-!
# The response encoders of `Cql/Impl` produce the bytes the specification documents prescribe (C02, responses)

For every response message `X`: `Impl.encodeX version x = .ok b → b = Spec.x version x` for version-valid `x`
(`ValidX`, from the `*RT` files) on a version that has a document (`version ∈ SupportedProtocolVersions`).
`Cql/Spec/Responses.lean` is written from the documents; a field order, width or flag bit that the Go encoder and decoder
get wrong symmetrically would make these theorems unprovable.
-/
namespace Cql.SpecResponses
open Cql Cql.Prim Cql.Gen Cql.Impl Cql.SpecPrim

/-! ### the documents and the code agree on which version has what -/

theorem since3_agree : ∀ v ∈ SupportedProtocolVersions, Spec.respSince3 v = decide (v ≥ ProtocolVersion3) := by decide
theorem since4_agree : ∀ v ∈ SupportedProtocolVersions, Spec.respSince4 v = decide (v ≥ ProtocolVersion4) := by decide
theorem isDse_agree : ∀ v ∈ SupportedProtocolVersions, Spec.respIsDse v = ProtocolVersion_IsDse v := by decide
theorem reasonMap_agree : ∀ v ∈ SupportedProtocolVersions,
    Spec.respHasReasonMap v = ProtocolVersion_SupportsReadWriteFailureReasonMap v := by decide
theorem contentions_agree : ∀ v ∈ SupportedProtocolVersions,
    Spec.respHasContentions v = ProtocolVersion_SupportsWriteTimeoutContentions v := by decide
theorem metadataId_agree : ∀ v ∈ SupportedProtocolVersions,
    Spec.respHasMetadataId v = ProtocolVersion_SupportsResultMetadataId v := by decide

/-! ### the string constants of the documents are those of the code -/

theorem strCas_eq : Spec.strCas = WriteTypeCas := by decide
theorem strKeyspace_eq : Spec.strKeyspace = SchemaChangeTargetKeyspace := by decide
theorem strTable_eq : Spec.strTable = SchemaChangeTargetTable := by decide
theorem strType_eq : Spec.strType = SchemaChangeTargetType := by decide
theorem strFunction_eq : Spec.strFunction = SchemaChangeTargetFunction := by decide
theorem strAggregate_eq : Spec.strAggregate = SchemaChangeTargetAggregate := by decide

/-! ### notations not covered by `SpecPrim` -/

theorem stringMultiMap_eq (m : List (Bytes × List Bytes)) : writeStringMultiMap m = Spec.stringMultiMap m := by
  rw [writeStringMultiMap, short_eq, short_mod, Spec.stringMultiMap]
  congr 2
  exact List.map_congr_left fun p _ => by rw [writeStringMultiPair, string_eq, stringList_eq]

theorem two_pow_32 : (2 : Int) ^ 32 = 4294967296 := by decide

/-- an `[int]` field carried as a bit pattern is the `[int]` of its signed value -/
theorem int_signed32 (n : Nat) : Spec.int (Spec.signed32 n) = Spec.uint n := by
  rw [Spec.int, ← uint_mod n]
  congr 1
  rw [Spec.twos, Spec.signed32, two_pow_32]
  split <;> omega

theorem prefix_eq : v4InV6Prefix = [0, 0, 0, 0, 0, 0, 0, 0, 0, 0, 0xff, 0xff] := by decide

/-- `WriteInetAddr` writes the `[inetaddr]` of the address the `net.IP` denotes -/
theorem inetAddr_eq (ip : Option Bytes) (b : Bytes) (hw : writeInetAddr ip = .ok b) :
    b = Spec.inetaddr (Spec.ipOf (ip.getD [])) := by
  cases ip with
  | none => rw [writeInetAddr] at hw; cases hw
  | some ip =>
    rw [writeInetAddr] at hw
    rw [Option.getD_some, Spec.inetaddr, Spec.ipOf, ← prefix_eq, ← byte_eq]
    cases h4 : to4 ip with
    | some b4 =>
      rw [h4] at hw
      rw [← Res.ok_inj hw]
      rw [to4] at h4
      by_cases hl : ip.length = 4
      · rw [if_pos hl] at h4
        rw [← Option.some.inj h4, if_neg (by omega), hl]
      · rw [if_neg hl] at h4
        by_cases h16 : ip.length = 16 ∧ ip.take 12 = v4InV6Prefix
        · rw [if_pos h16] at h4
          rw [← Option.some.inj h4, if_pos h16, List.length_drop, h16.1]
        · rw [if_neg h16] at h4; cases h4
    | none =>
      rw [h4] at hw
      rw [to4] at h4
      by_cases hl : ip.length = 4
      · rw [if_pos hl] at h4; cases h4
      · rw [if_neg hl] at h4
        by_cases h16 : ip.length = 16 ∧ ip.take 12 = v4InV6Prefix
        · rw [if_pos h16] at h4; cases h4
        · rw [if_neg h16]
          by_cases hl16 : ip.length = 16
          · have ht : to16 ip = some ip := by rw [to16, if_neg hl, if_pos hl16]
            simp only [ht] at hw
            rw [← Res.ok_inj hw, hl16]
          · have ht : to16 ip = none := by rw [to16, if_neg hl, if_neg hl16]
            simp only [ht] at hw
            cases hw

theorem inet_eq (a : Option Inet) (b : Bytes) (hw : writeInet a = .ok b) : b = Spec.inetOf a := by
  cases a with
  | none => rw [writeInet] at hw; cases hw
  | some i =>
    rw [writeInet] at hw
    obtain ⟨x, hx, hw⟩ := Res.bind_ok_inv hw
    rw [← Res.pure_ok_inv hw, inetAddr_eq _ _ hx, int_eq, Spec.inetOf, Spec.inet, int_signed32]

/-- a list written element by element is the concatenation of the elements' notations -/
theorem writeAll_spec {α} (w : α → Res Bytes) (s : α → Bytes) (l : List α)
    (h : ∀ x ∈ l, ∀ b, w x = .ok b → b = s x) (b : Bytes) (hw : writeAll w l = .ok b) :
    b = (l.map s).flatten := by
  induction l generalizing b with
  | nil => rw [writeAll] at hw; rw [← Res.ok_inj hw]; rfl
  | cons x xs ih =>
    rw [writeAll] at hw
    obtain ⟨a, ha, hw⟩ := Res.bind_ok_inv hw
    obtain ⟨c, hc, hw⟩ := Res.bind_ok_inv hw
    rw [← Res.pure_ok_inv hw, h x List.mem_cons_self a ha,
      ih (fun y hy => h y (List.mem_cons_of_mem _ hy)) c hc, List.map_cons, List.flatten_cons]

theorem guard_pure_inv {c : Bool} {e : String} {x t : Bytes}
    (h : (do Impl.guard c e; pure x : Res Bytes) = .ok t) : t = x := by
  obtain ⟨_, _, h⟩ := Res.bind_ok_inv h
  exact (Res.pure_ok_inv h).symm

/-! ## READY, AUTHENTICATE, SUPPORTED, AUTH_CHALLENGE, AUTH_SUCCESS -/

theorem encodeReady_spec (version : Nat) (_hv : ValidReady version) (b : Bytes) (hw : encodeReady version = .ok b) :
    b = Spec.ready version := by
  rw [encodeReady] at hw; rw [← Res.ok_inj hw]; rfl

theorem encodeAuthenticate_spec (version : Nat) (a : Bytes) (_hv : ValidAuthenticate version a) (b : Bytes)
    (hw : encodeAuthenticate version a = .ok b) : b = Spec.authenticate version a := by
  rw [encodeAuthenticate] at hw
  rw [guard_pure_inv hw, string_eq]; rfl

theorem encodeSupported_spec (version : Nat) (o : Option (List (Bytes × List Bytes))) (_hv : ValidSupported version o)
    (b : Bytes) (hw : encodeSupported version o = .ok b) : b = Spec.supported version o := by
  rw [encodeSupported] at hw; rw [← Res.ok_inj hw, stringMultiMap_eq]; rfl

theorem encodeAuthChallenge_spec (version : Nat) (t : Option Bytes) (_hv : ValidAuthChallenge version t) (b : Bytes)
    (hw : encodeAuthChallenge version t = .ok b) : b = Spec.authChallenge version t := by
  rw [encodeAuthChallenge] at hw; rw [← Res.ok_inj hw, bytes_eq]; rfl

theorem encodeAuthSuccess_spec (version : Nat) (t : Option Bytes) (_hv : ValidAuthSuccess version t) (b : Bytes)
    (hw : encodeAuthSuccess version t = .ok b) : b = Spec.authSuccess version t := by
  rw [encodeAuthSuccess] at hw; rw [← Res.ok_inj hw, bytes_eq]; rfl

/-! ## ERROR -/

theorem errorCode_eq (e : ErrorMsg) : e.code = Spec.errorCode e := by cases e <;> rfl
theorem errorMessage_eq (e : ErrorMsg) : e.message = Spec.errorMessage e := by cases e <;> rfl

/-- the bodyless codes of the documents are exactly the codes with an empty `case` in the Go switch -/
theorem bodyless_eq : Spec.errorCodesBodyless = simpleErrorCodes := by decide

theorem dataPresent_eq (d : Bool) : writeDataPresent d = Spec.dataPresent d := by
  cases d <;> rw [writeDataPresent, Spec.dataPresent, ← byte_eq] <;> rfl

theorem failureReason_eq (r : FailureReason) (b : Bytes) (hw : writeFailureReason r = .ok b) :
    b = Spec.inetaddr (Spec.ipOf (r.endpoint.getD [])) ++ Spec.short r.code := by
  rw [writeFailureReason] at hw
  obtain ⟨a, ha, hw⟩ := Res.bind_ok_inv hw
  cases hc : FailureCode_IsValid r.code with
  | false => rw [hc] at hw; cases hw
  | true => rw [hc, if_pos rfl] at hw; rw [← Res.pure_ok_inv hw, inetAddr_eq _ _ ha, short_eq]

theorem reasonMap_eq (m : List FailureReason) (b : Bytes) (hw : writeReasonMap m = .ok b) : b = Spec.reasonMap m := by
  rw [writeReasonMap] at hw
  obtain ⟨body, hb, hw⟩ := Res.bind_ok_inv hw
  rw [← Res.pure_ok_inv hw, int_eq, uint_mod, Spec.reasonMap,
    writeAll_spec writeFailureReason _ m (fun r _ b hb => failureReason_eq r b hb) body hb]

theorem failures_eq (version : Nat) (hsv : version ∈ SupportedProtocolVersions) (nf : Nat)
    (rs : Option (List FailureReason)) (b : Bytes) (hw : encodeFailures version nf rs = .ok b) :
    b = Spec.failures version nf rs := by
  rw [encodeFailures] at hw
  rw [Spec.failures, reasonMap_agree version hsv]
  cases h : ProtocolVersion_SupportsReadWriteFailureReasonMap version with
  | true => rw [h, if_pos rfl] at hw; rw [if_pos rfl]; exact reasonMap_eq _ _ hw
  | false =>
    rw [h, if_neg (by decide)] at hw
    rw [if_neg (by decide), ← Res.ok_inj hw, int_eq]

theorem contentions_eq (version : Nat) (hsv : version ∈ SupportedProtocolVersions) (wt : Bytes) (ct : Nat) :
    optB (writesContentions version wt) (writeShort ct) =
      (if Spec.respHasContentions version ∧ wt = Spec.strCas then Spec.short ct else []) := by
  rw [writesContentions, contentions_agree version hsv, strCas_eq, short_eq]
  cases h1 : ProtocolVersion_SupportsWriteTimeoutContentions version with
  | false => rw [if_neg (by simp)]; rfl
  | true =>
    by_cases h2 : wt = WriteTypeCas
    · rw [if_pos ⟨rfl, h2⟩, h2]; rfl
    · rw [if_neg (fun h => h2 h.2)]
      have : (wt == WriteTypeCas) = false := by simpa using h2
      rw [this]; rfl

theorem encodeErrorBody_spec (version : Nat) (hsv : version ∈ SupportedProtocolVersions) (e : ErrorMsg) (b : Bytes)
    (hw : encodeErrorBody version e = .ok b) : b = Spec.errorBody version e := by
  cases e with
  | simple code msg => rw [encodeErrorBody] at hw; rw [guard_pure_inv hw]; rfl
  | unavailable msg cl rq al =>
    rw [encodeErrorBody] at hw; rw [← Res.ok_inj hw, short_eq, int_eq, int_eq]; rfl
  | readTimeout msg cl rc bf dp =>
    rw [encodeErrorBody] at hw; rw [← Res.ok_inj hw, short_eq, int_eq, int_eq, dataPresent_eq]; rfl
  | writeTimeout msg cl rc bf wt ct =>
    rw [encodeErrorBody] at hw
    rw [← Res.ok_inj hw, short_eq, int_eq, int_eq, string_eq, contentions_eq version hsv]; rfl
  | readFailure msg cl rc bf nf rs dp =>
    rw [encodeErrorBody] at hw
    obtain ⟨f, hf, hw⟩ := Res.bind_ok_inv hw
    rw [← Res.pure_ok_inv hw, short_eq, int_eq, int_eq, dataPresent_eq, failures_eq version hsv nf rs f hf]; rfl
  | writeFailure msg cl rc bf nf rs wt =>
    rw [encodeErrorBody] at hw
    obtain ⟨f, hf, hw⟩ := Res.bind_ok_inv hw
    rw [← Res.pure_ok_inv hw, short_eq, int_eq, int_eq, string_eq, failures_eq version hsv nf rs f hf]; rfl
  | functionFailure msg ks fn args =>
    rw [encodeErrorBody] at hw; rw [← Res.ok_inj hw, string_eq, string_eq, stringList_eq]; rfl
  | unprepared msg id =>
    rw [encodeErrorBody] at hw; rw [← Res.ok_inj hw, shortBytes_eq]; rfl
  | alreadyExists msg ks tb =>
    rw [encodeErrorBody] at hw; rw [← Res.ok_inj hw, string_eq, string_eq]; rfl

/-- ERROR: `<code:[int]><message:[string]>` and the code-specific tail of the version's "Error codes" section -/
theorem encodeError_spec (version : Nat) (hsv : version ∈ SupportedProtocolVersions) (e : ErrorMsg)
    (_hv : ValidError version e) (b : Bytes) (hw : encodeError version e = .ok b) : b = Spec.error version e := by
  rw [encodeError] at hw
  obtain ⟨body, hb, hw⟩ := Res.bind_ok_inv hw
  rw [← Res.pure_ok_inv hw, int_eq, string_eq, encodeErrorBody_spec version hsv e body hb, errorCode_eq,
    errorMessage_eq, Spec.error]

/-! ## Schema_change (RESULT and EVENT) -/

/-- what the v3+ encoders write after `<keyspace>` (the `switch sce.Target`, without its emptiness checks) -/
def tailOf (sc : SchemaChange) : Bytes :=
  if sc.target = SchemaChangeTargetKeyspace then []
  else if sc.target = SchemaChangeTargetTable ∨ sc.target = SchemaChangeTargetType then writeString sc.object
  else if sc.target = SchemaChangeTargetAggregate ∨ sc.target = SchemaChangeTargetFunction then
    writeString sc.object ++ writeStringList (sc.arguments.getD [])
  else []

theorem eventTarget3_tail (sc : SchemaChange) (tail : Bytes) (hw : encodeEventTarget3 sc = .ok tail) :
    tail = tailOf sc := by
  rw [encodeEventTarget3] at hw
  rw [tailOf]
  by_cases h1 : sc.target = SchemaChangeTargetKeyspace
  · rw [if_pos h1] at hw ⊢; exact (Res.pure_ok_inv hw).symm
  · rw [if_neg h1] at hw ⊢
    by_cases h2 : sc.target = SchemaChangeTargetTable ∨ sc.target = SchemaChangeTargetType
    · rw [if_pos h2] at hw ⊢; exact guard_pure_inv hw
    · rw [if_neg h2] at hw ⊢
      by_cases h3 : sc.target = SchemaChangeTargetAggregate ∨ sc.target = SchemaChangeTargetFunction
      · rw [if_pos h3] at hw ⊢; exact guard_pure_inv hw
      · rw [if_neg h3] at hw ⊢; exact (Res.pure_ok_inv hw).symm

theorem resultTarget3_tail (sc : SchemaChange) (tail : Bytes) (hw : encodeResultTarget3 sc = .ok tail) :
    tail = tailOf sc := by
  rw [encodeResultTarget3] at hw
  rw [tailOf]
  by_cases h1 : sc.target = SchemaChangeTargetKeyspace
  · rw [if_pos h1] at hw ⊢; exact (Res.pure_ok_inv hw).symm
  · rw [if_neg h1] at hw ⊢
    by_cases h2 : sc.target = SchemaChangeTargetTable ∨ sc.target = SchemaChangeTargetType
    · rw [if_pos h2] at hw ⊢; exact guard_pure_inv hw
    · rw [if_neg h2] at hw ⊢
      by_cases h3 : sc.target = SchemaChangeTargetAggregate ∨ sc.target = SchemaChangeTargetFunction
      · rw [if_pos h3] at hw ⊢; exact guard_pure_inv hw
      · rw [if_neg h3] at hw ⊢; exact (Res.pure_ok_inv hw).symm

/-- v3+: `<keyspace>` and what follows it are the `<options>` of the target -/
theorem tailOf_spec (version : Nat) (sc : SchemaChange) (hv : ValidSchemaChange version sc) :
    Spec.string sc.keyspace ++ tailOf sc = Spec.schemaChangeOptions sc := by
  rw [Spec.schemaChangeOptions, tailOf, strKeyspace_eq, strTable_eq, strType_eq, strFunction_eq, strAggregate_eq]
  rcases hv.target with h | h | ⟨h, _⟩ | ⟨h | h, _⟩
  · rw [h, if_pos rfl, if_pos rfl, List.append_nil]
  · rw [h, if_neg (by decide), if_pos (Or.inl rfl), if_neg (by decide), if_pos (Or.inl rfl), string_eq]
  · rw [h, if_neg (by decide), if_pos (Or.inr rfl), if_neg (by decide), if_pos (Or.inr rfl), string_eq]
  · rw [h, if_neg (by decide), if_neg (by decide), if_pos (Or.inl rfl), if_neg (by decide), if_neg (by decide),
      if_pos (Or.inr rfl), string_eq, stringList_eq, List.append_assoc]
  · rw [h, if_neg (by decide), if_neg (by decide), if_pos (Or.inr rfl), if_neg (by decide), if_neg (by decide),
      if_pos (Or.inl rfl), string_eq, stringList_eq, List.append_assoc]

/-- v2: `<table>`, empty for a keyspace change -/
theorem target2_spec (version : Nat) (sc : SchemaChange) (hv : ValidSchemaChange version sc)
    (h3 : ¬ version ≥ ProtocolVersion3) (tail : Bytes) (hw : encodeSchemaChangeTarget2 sc = .ok tail) :
    tail = Spec.string (if sc.target = Spec.strKeyspace then [] else sc.object) := by
  rw [encodeSchemaChangeTarget2] at hw
  rw [strKeyspace_eq]
  rcases hv.target with h | h | ⟨_, h⟩ | ⟨_, h⟩
  · rw [h, if_pos rfl] at hw
    rw [h, if_pos rfl, guard_pure_inv hw, string_eq]
  · rw [h, if_neg (by decide), if_pos rfl] at hw
    rw [h, if_neg (by decide), guard_pure_inv hw, string_eq]
  · exact absurd h h3
  · exact absurd (Nat.le_trans (by decide) h) h3

theorem encodeSchemaChangeEventBody_spec (version : Nat) (hsv : version ∈ SupportedProtocolVersions)
    (sc : SchemaChange) (hv : ValidSchemaChange version sc) (b : Bytes)
    (hw : encodeSchemaChangeEventBody version sc = .ok b) : b = Spec.schemaChangeBody version sc := by
  rw [encodeSchemaChangeEventBody] at hw
  obtain ⟨_, _, hw⟩ := Res.bind_ok_inv hw
  rw [Spec.schemaChangeBody, since3_agree version hsv]
  by_cases h3 : version ≥ ProtocolVersion3
  · rw [if_pos h3] at hw
    obtain ⟨_, _, hw⟩ := Res.bind_ok_inv hw
    obtain ⟨_, _, hw⟩ := Res.bind_ok_inv hw
    obtain ⟨tail, ht, hw⟩ := Res.bind_ok_inv hw
    rw [decide_eq_true h3, if_pos rfl, ← Res.pure_ok_inv hw, eventTarget3_tail sc tail ht, string_eq, string_eq,
      string_eq, List.append_assoc _ (Spec.string sc.keyspace) _, tailOf_spec version sc hv]
  · rw [if_neg h3] at hw
    obtain ⟨_, _, hw⟩ := Res.bind_ok_inv hw
    obtain ⟨_, _, hw⟩ := Res.bind_ok_inv hw
    obtain ⟨tail, ht, hw⟩ := Res.bind_ok_inv hw
    rw [decide_eq_false h3, if_neg (by decide), ← Res.pure_ok_inv hw, string_eq, string_eq,
      target2_spec version sc hv h3 tail ht]

theorem encodeSchemaChangeResultBody_spec (version : Nat) (hsv : version ∈ SupportedProtocolVersions)
    (sc : SchemaChange) (hv : ValidSchemaChange version sc) (b : Bytes)
    (hw : encodeSchemaChangeResultBody version sc = .ok b) : b = Spec.schemaChangeBody version sc := by
  rw [encodeSchemaChangeResultBody] at hw
  obtain ⟨_, _, hw⟩ := Res.bind_ok_inv hw
  rw [Spec.schemaChangeBody, since3_agree version hsv]
  by_cases h3 : version ≥ ProtocolVersion3
  · rw [if_pos h3] at hw
    obtain ⟨_, _, hw⟩ := Res.bind_ok_inv hw
    obtain ⟨_, _, hw⟩ := Res.bind_ok_inv hw
    obtain ⟨tail, ht, hw⟩ := Res.bind_ok_inv hw
    rw [decide_eq_true h3, if_pos rfl, ← Res.pure_ok_inv hw, resultTarget3_tail sc tail ht, string_eq, string_eq,
      string_eq, List.append_assoc _ (Spec.string sc.keyspace) _, tailOf_spec version sc hv]
  · rw [if_neg h3] at hw
    obtain ⟨_, _, hw⟩ := Res.bind_ok_inv hw
    obtain ⟨_, _, hw⟩ := Res.bind_ok_inv hw
    obtain ⟨tail, ht, hw⟩ := Res.bind_ok_inv hw
    rw [decide_eq_false h3, if_neg (by decide), ← Res.pure_ok_inv hw, string_eq, string_eq,
      target2_spec version sc hv h3 tail ht]

/-! ## EVENT -/

theorem eventType_eq (e : EventMsg) : e.eventType = Spec.eventType e := by
  cases e with
  | schemaChange sc => show EventTypeSchemaChange = Spec.respAscii "SCHEMA_CHANGE"; decide
  | statusChange t a => show EventTypeStatusChange = Spec.respAscii "STATUS_CHANGE"; decide
  | topologyChange t a => show EventTypeTopologyChange = Spec.respAscii "TOPOLOGY_CHANGE"; decide

theorem encodeEventBody_spec (version : Nat) (hsv : version ∈ SupportedProtocolVersions) (e : EventMsg)
    (hv : ValidEvent version e) (b : Bytes) (hw : encodeEventBody version e = .ok b) :
    b = Spec.eventBody version e := by
  cases e with
  | schemaChange sc =>
    rw [encodeEventBody] at hw
    exact encodeSchemaChangeEventBody_spec version hsv sc hv b hw
  | statusChange t a =>
    rw [encodeEventBody, encodeStatusChangeBody] at hw
    obtain ⟨_, _, hw⟩ := Res.bind_ok_inv hw
    obtain ⟨x, hx, hw⟩ := Res.bind_ok_inv hw
    rw [← Res.pure_ok_inv hw, string_eq, inet_eq a x hx]; rfl
  | topologyChange t a =>
    rw [encodeEventBody, encodeTopologyChangeBody] at hw
    obtain ⟨_, _, hw⟩ := Res.bind_ok_inv hw
    obtain ⟨x, hx, hw⟩ := Res.bind_ok_inv hw
    rw [← Res.pure_ok_inv hw, string_eq, inet_eq a x hx]; rfl

/-- EVENT: `<event type:[string]>` and the type-specific body of §4.2.6 of the version's document -/
theorem encodeEvent_spec (version : Nat) (hsv : version ∈ SupportedProtocolVersions) (e : EventMsg)
    (hv : ValidEvent version e) (b : Bytes) (hw : encodeEvent version e = .ok b) : b = Spec.event version e := by
  rw [encodeEvent] at hw
  obtain ⟨_, _, hw⟩ := Res.bind_ok_inv hw
  obtain ⟨body, hb, hw⟩ := Res.bind_ok_inv hw
  rw [← Res.pure_ok_inv hw, string_eq, encodeEventBody_spec version hsv e hv body hb, eventType_eq, Spec.event]

/-! ## `[option]` type descriptors -/

mutual
/-- `WriteDataType` writes the `[option]` of §4.2.5.2 (no validity needed: every byte string it returns is one) -/
theorem write_spec (version : Nat) : ∀ (t : DataType) (b : Bytes), DataType.write version t = .ok b → b = Spec.optionT t
  | .prim c, b, hw => by
    rw [DataType.write] at hw
    by_cases h : CheckValidDataTypeCode c version = true
    · rw [if_pos h] at hw; rw [← Res.ok_inj hw, short_eq, Spec.optionT]
    · rw [if_neg h] at hw; cases hw
  | .custom cn, b, hw => by
    rw [DataType.write] at hw
    rw [← Res.ok_inj hw, short_eq, string_eq, Spec.optionT]; rfl
  | .list e, b, hw => by
    rw [DataType.write] at hw
    obtain ⟨be, hbe, hw⟩ := Res.bind_ok_inv hw
    rw [← Res.pure_ok_inv hw, short_eq, write_spec version e be hbe, Spec.optionT]; rfl
  | .set e, b, hw => by
    rw [DataType.write] at hw
    obtain ⟨be, hbe, hw⟩ := Res.bind_ok_inv hw
    rw [← Res.pure_ok_inv hw, short_eq, write_spec version e be hbe, Spec.optionT]; rfl
  | .map k v, b, hw => by
    rw [DataType.write] at hw
    obtain ⟨bk, hbk, hw⟩ := Res.bind_ok_inv hw
    obtain ⟨bv, hbv, hw⟩ := Res.bind_ok_inv hw
    rw [← Res.pure_ok_inv hw, short_eq, write_spec version k bk hbk, write_spec version v bv hbv, Spec.optionT]; rfl
  | .tuple fs, b, hw => by
    rw [DataType.write] at hw
    obtain ⟨bf, hbf, hw⟩ := Res.bind_ok_inv hw
    rw [← Res.pure_ok_inv hw, short_eq, short_eq, short_mod, writeList_spec version fs bf hbf, Spec.optionT]; rfl
  | .udt ks name names types, b, hw => by
    rw [DataType.write] at hw
    by_cases h : names.length ≠ types.length
    · rw [if_pos h] at hw; cases hw
    · rw [if_neg h] at hw
      obtain ⟨bf, hbf, hw⟩ := Res.bind_ok_inv hw
      have hl : types.length = names.length := by omega
      rw [← Res.pure_ok_inv hw, short_eq, short_eq, short_mod, string_eq, string_eq,
        writeUdtFields_spec version names types bf hbf, Spec.optionT, hl]; rfl

theorem writeList_spec (version : Nat) : ∀ (ts : List DataType) (b : Bytes), DataType.writeList version ts = .ok b →
    b = Spec.optionList ts
  | [], b, hw => by rw [DataType.writeList] at hw; rw [← Res.ok_inj hw, Spec.optionList]
  | t :: ts, b, hw => by
    rw [DataType.writeList] at hw
    obtain ⟨a, ha, hw⟩ := Res.bind_ok_inv hw
    obtain ⟨c, hc, hw⟩ := Res.bind_ok_inv hw
    rw [← Res.pure_ok_inv hw, write_spec version t a ha, writeList_spec version ts c hc, Spec.optionList]

theorem writeUdtFields_spec (version : Nat) : ∀ (names : List Bytes) (ts : List DataType) (b : Bytes),
    DataType.writeUdtFields version names ts = .ok b → b = Spec.optionUdtFields names ts
  | [], ts, b, hw => by rw [DataType.writeUdtFields] at hw; rw [← Res.ok_inj hw, Spec.optionUdtFields]
  | _ :: _, [], b, hw => by rw [DataType.writeUdtFields] at hw; rw [← Res.ok_inj hw, Spec.optionUdtFields]
  | n :: ns, t :: ts, b, hw => by
    rw [DataType.writeUdtFields] at hw
    obtain ⟨a, ha, hw⟩ := Res.bind_ok_inv hw
    obtain ⟨c, hc, hw⟩ := Res.bind_ok_inv hw
    rw [← Res.pure_ok_inv hw, string_eq, write_spec version t a ha, writeUdtFields_spec version ns ts c hc,
      Spec.optionUdtFields]
end

/-- the statement in the form asked for: a well-formed type descriptor is written as the specification's `[option]` -/
theorem _root_.Cql.DataType.write_spec (version : Nat) (t : DataType) (_hwf : DataType.Wf t) (b : Bytes)
    (hw : DataType.write version t = .ok b) : b = Spec.optionT t := SpecResponses.write_spec version t b hw

/-! ## column specifications -/

theorem encodeColumn_spec (version : Nat) (global : Bool) (c : ColumnMetadata) (b : Bytes)
    (hw : encodeColumn version global c = .ok b) : b = Spec.colSpec global c := by
  rw [encodeColumn] at hw
  obtain ⟨t, ht, hw⟩ := Res.bind_ok_inv hw
  rw [Spec.colSpec]
  cases hc : c.type with
  | none => rw [hc, writeDataTypeOpt] at ht; cases ht
  | some ty =>
    rw [hc, writeDataTypeOpt] at ht
    rw [← Res.pure_ok_inv hw, write_spec version ty t ht, string_eq, string_eq, string_eq]
    cases global <;> rfl

theorem encodeColumnsMetadata_spec (version : Nat) (global : Bool) (cols : List ColumnMetadata) (b : Bytes)
    (hw : encodeColumnsMetadata version global cols = .ok b) : b = Spec.colSpecs global cols := by
  rw [encodeColumnsMetadata] at hw
  obtain ⟨g, hg, hw⟩ := Res.bind_ok_inv hw
  obtain ⟨body, hb, hw⟩ := Res.bind_ok_inv hw
  rw [← Res.pure_ok_inv hw, Spec.colSpecs,
    writeAll_spec (encodeColumn version global) (Spec.colSpec global) cols
      (fun c _ x hx => encodeColumn_spec version global c x hx) body hb]
  congr 1
  cases global with
  | false => rw [encodeGlobalSpec] at hg; rw [← Res.ok_inj hg]; rfl
  | true =>
    cases cols with
    | nil => rw [encodeGlobalSpec] at hg; cases hg
    | cons c cs => rw [encodeGlobalSpec] at hg; rw [← Res.ok_inj hg, string_eq, string_eq]; rfl

theorem colSpecs_nil (global : Bool) : Spec.colSpecs global [] = [] := by cases global <;> rfl

/-- the `if len(cols) > 0 { encodeColumnsMetadata }` of both metadata encoders -/
theorem colsB_spec (version : Nat) (global : Bool) (cols : List ColumnMetadata) (b : Bytes)
    (hw : whenW (decide (cols.length > 0)) (encodeColumnsMetadata version global cols) = .ok b) :
    b = Spec.colSpecs global cols := by
  cases cols with
  | nil => rw [show decide (([] : List ColumnMetadata).length > 0) = false from rfl, whenW_false] at hw
           rw [← Res.ok_inj hw, colSpecs_nil]
  | cons c cs =>
    rw [show decide ((c :: cs).length > 0) = true from by simp, whenW_true] at hw
    exact encodeColumnsMetadata_spec version global _ b hw

theorem sameTable_eq (cols : List ColumnMetadata) : haveSameTable cols = Spec.sameTable cols := by
  cases cols with
  | nil => rfl
  | cons c cs =>
    rw [haveSameTable, Spec.sameTable]
    congr 1
    funext d
    rw [Bool.eq_iff_iff]; simp

/-- GLOBAL_TABLES_SPEC as `RowsMetadata.Flags()` computes it -/
theorem rowsGlobal_eq (cols : List ColumnMetadata) :
    (!decide (cols.length = 0) && haveSameTable cols) = Spec.sameTable cols := by
  cases cols with
  | nil => rfl
  | cons c cs =>
    rw [show decide ((c :: cs).length = 0) = false from by simp, sameTable_eq]; rfl

/-- GLOBAL_TABLES_SPEC as `VariablesMetadata.Flags()` computes it -/
theorem varsGlobal_eq (cols : List ColumnMetadata) :
    (decide (cols.length > 0) && haveSameTable cols) = Spec.sameTable cols := by
  cases cols with
  | nil => rfl
  | cons c cs =>
    rw [show decide ((c :: cs).length > 0) = true from by simp, sameTable_eq]; rfl

theorem isEmpty_eq {α} (l : List α) : l.isEmpty = decide (l.length = 0) := by cases l <;> simp

/-! ## Rows metadata -/

/-- `RowsMetadata.Flags()` sets the masks of §4.2.5.2 (0x0001, 0x0002, 0x0004, 0x0008, 0x40000000, 0x80000000) -/
theorem rflags_bits : ∀ (b1 b2 b3 b4 b5 b6 : Bool), rflags b1 b2 b3 b4 b5 b6 =
    Spec.flagBits [(!b1 && b2, 0x0001), (b3, 0x0002), (b1, 0x0004), (b4, 0x0008), (b5, 0x40000000),
      (b5 && b6, 0x80000000)] := by decide

theorem vflags_bits : ∀ (g : Bool), vflags g = Spec.flagBits [(g, 0x0001)] := by decide

theorem rowsMetadata_unfold (version : Nat) (m : RowsMetadata) : Spec.rowsMetadata version m =
    Spec.uint (Spec.flagBits [
      (Spec.sameTable (m.columns.getD []), 0x0001), (m.pagingState.isSome, 0x0002),
      ((m.columns.getD []).isEmpty, 0x0004),
      (Spec.respHasMetadataId version && m.newResultMetadataId.isSome, 0x0008),
      (Spec.respIsDse version && Spec.positive32 m.continuousPageNumber, 0x40000000),
      (Spec.respIsDse version && Spec.positive32 m.continuousPageNumber && m.lastContinuousPage, 0x80000000)]) ++
    Spec.uint m.columnCount ++
    (if m.pagingState.isSome then Spec.bytes m.pagingState else []) ++
    (if Spec.respHasMetadataId version && m.newResultMetadataId.isSome then
      Spec.shortBytes (m.newResultMetadataId.getD []) else []) ++
    (if Spec.respIsDse version && Spec.positive32 m.continuousPageNumber then Spec.uint m.continuousPageNumber
      else []) ++
    (if (m.columns.getD []).isEmpty then [] else
      Spec.colSpecs (Spec.sameTable (m.columns.getD [])) (m.columns.getD [])) := rfl

theorem positive32_eq (n : Nat) : Spec.positive32 n = pos32 n := rfl

/-- Metadata_changed exists only where the version has result metadata ids (`ValidRowsMetadata.newIdVersion`) -/
theorem changed_eq (version : Nat) (hsv : version ∈ SupportedProtocolVersions) (m : RowsMetadata)
    (hv : ValidRowsMetadata version m) :
    (Spec.respHasMetadataId version && m.newResultMetadataId.isSome) = m.newResultMetadataId.isSome := by
  rw [metadataId_agree version hsv]
  cases h : m.newResultMetadataId.isSome with
  | false => exact Bool.and_false _
  | true => rw [hv.newIdVersion h]; rfl

/-- the continuous-paging fields exist only in the DSE versions (`ValidRowsMetadata.dse`) -/
theorem continuous_eq (version : Nat) (hsv : version ∈ SupportedProtocolVersions) (m : RowsMetadata)
    (hv : ValidRowsMetadata version m) :
    (Spec.respIsDse version && Spec.positive32 m.continuousPageNumber) = pos32 m.continuousPageNumber := by
  rw [isDse_agree version hsv, positive32_eq]
  cases h : ProtocolVersion_IsDse version with
  | true => rfl
  | false => rw [(hv.dse h).1]; rfl

theorem noMeta_colSpecs (g : Bool) (cols : List ColumnMetadata) :
    (if cols.isEmpty then [] else Spec.colSpecs g cols) = Spec.colSpecs g cols := by
  cases cols with
  | nil => rw [colSpecs_nil]; rfl
  | cons c cs => rfl

theorem encodeRowsMetadata'_spec (version : Nat) (hsv : version ∈ SupportedProtocolVersions) (m : RowsMetadata)
    (hv : ValidRowsMetadata version m) (b : Bytes) (hw : encodeRowsMetadata' version m = .ok b) :
    b = Spec.rowsMetadata version m := by
  rw [encodeRowsMetadata'] at hw
  obtain ⟨_, _, hw⟩ := Res.bind_ok_inv hw
  obtain ⟨colsB, hcols, hw⟩ := Res.bind_ok_inv hw
  have F := rflags_has (decide ((m.columns.getD []).length = 0)) (haveSameTable (m.columns.getD []))
    m.pagingState.isSome m.newResultMetadataId.isSome (pos32 m.continuousPageNumber) m.lastContinuousPage
  have B := rflags_bits (decide ((m.columns.getD []).length = 0)) (haveSameTable (m.columns.getD []))
    m.pagingState.isSome m.newResultMetadataId.isSome (pos32 m.continuousPageNumber) m.lastContinuousPage
  rw [← RowsMetadata.flags] at F B
  obtain ⟨_, f2, f3, f4, f5, _, _⟩ := F
  obtain ⟨hwc, hnm⟩ := writesColumns_eq m
  rw [hwc, hnm, f2, rowsGlobal_eq] at hcols
  rw [← Res.pure_ok_inv hw, f3, f4, f5, B, rowsGlobal_eq, int_eq, int_eq, int_eq, bytes_eq, shortBytes_eq,
    colsB_spec version _ _ colsB hcols, rowsMetadata_unfold, changed_eq version hsv m hv,
    continuous_eq version hsv m hv, noMeta_colSpecs, isEmpty_eq, optB, optB, optB]

theorem rowsMetadata_zero (version : Nat) :
    Spec.rowsMetadata version RowsMetadata.zero = Spec.uint 0x0004 ++ Spec.uint 0 := by
  rw [rowsMetadata_unfold]
  cases Spec.respHasMetadataId version <;> cases Spec.respIsDse version <;> rfl

/-- `<metadata>` of Rows / `<result_metadata>` of Prepared -/
theorem encodeRowsMetadata_spec (version : Nat) (hsv : version ∈ SupportedProtocolVersions) (m? : Option RowsMetadata)
    (hv : ∀ m, m? = some m → ValidRowsMetadata version m) (b : Bytes) (hw : encodeRowsMetadata version m? = .ok b) :
    b = Spec.rowsMetadataOpt version m? := by
  rw [encodeRowsMetadata] at hw
  rw [encodeRowsMetadata'_spec version hsv _ (ValidRowsMetadata.getD hv) b hw]
  cases m? with
  | none => rw [Spec.rowsMetadataOpt]; exact rowsMetadata_zero version
  | some m => rfl

/-! ## Prepared: variables metadata -/

theorem pkIndices_eq (l : List Nat) :
    encodePkIndices l = Spec.uint l.length ++ (l.map Spec.short).flatten := by
  rw [encodePkIndices, int_eq, uint_mod]
  congr 2
  exact List.map_congr_left fun i _ => short_eq i

theorem variablesMetadata_unfold (version : Nat) (m : VariablesMetadata) : Spec.variablesMetadata version m =
    Spec.uint (Spec.flagBits [(Spec.sameTable (m.columns.getD []), 0x0001)]) ++ Spec.uint (m.columns.getD []).length ++
    (if Spec.respSince4 version then
      Spec.uint (m.pkIndices.getD []).length ++ ((m.pkIndices.getD []).map Spec.short).flatten else []) ++
    Spec.colSpecs (Spec.sameTable (m.columns.getD [])) (m.columns.getD []) := rfl

theorem encodeVariablesMetadata'_spec (version : Nat) (hsv : version ∈ SupportedProtocolVersions)
    (m : VariablesMetadata) (b : Bytes) (hw : encodeVariablesMetadata' version m = .ok b) :
    b = Spec.variablesMetadata version m := by
  rw [encodeVariablesMetadata'] at hw
  obtain ⟨colsB, hcols, hw⟩ := Res.bind_ok_inv hw
  have F := vflags_has (decide ((m.columns.getD []).length > 0) && haveSameTable (m.columns.getD []))
  have B := vflags_bits (decide ((m.columns.getD []).length > 0) && haveSameTable (m.columns.getD []))
  rw [← VariablesMetadata.flags] at F B
  rw [F.1, varsGlobal_eq] at hcols
  rw [← Res.pure_ok_inv hw, B, varsGlobal_eq, int_eq, int_eq, uint_mod, pkIndices_eq,
    colsB_spec version _ _ colsB hcols, variablesMetadata_unfold, since4_agree version hsv, optB]

theorem variablesMetadata_zero (version : Nat) : Spec.variablesMetadata version VariablesMetadata.zero =
    Spec.uint 0 ++ Spec.uint 0 ++ (if Spec.respSince4 version then Spec.uint 0 else []) := by
  rw [variablesMetadata_unfold]
  cases Spec.respSince4 version <;> rfl

/-- `<metadata>` of Prepared -/
theorem encodeVariablesMetadata_spec (version : Nat) (hsv : version ∈ SupportedProtocolVersions)
    (m? : Option VariablesMetadata) (_hv : ∀ m, m? = some m → ValidVariablesMetadata version m) (b : Bytes)
    (hw : encodeVariablesMetadata version m? = .ok b) : b = Spec.variablesMetadataOpt version m? := by
  rw [encodeVariablesMetadata] at hw
  rw [encodeVariablesMetadata'_spec version hsv _ b hw]
  cases m? with
  | none => rw [Spec.variablesMetadataOpt]; exact variablesMetadata_zero version
  | some m => rfl

/-! ## RESULT -/

theorem encodePreparedBody_spec (version : Nat) (hsv : version ∈ SupportedProtocolVersions) (p : PreparedResult)
    (hv : ValidPreparedBody version p) (b : Bytes) (hw : encodePreparedBody version p = .ok b) :
    b = Spec.resultBody version p.toMsg := by
  rw [encodePreparedBody] at hw
  obtain ⟨_, _, hw⟩ := Res.bind_ok_inv hw
  obtain ⟨_, _, hw⟩ := Res.bind_ok_inv hw
  obtain ⟨vars, hvars, hw⟩ := Res.bind_ok_inv hw
  obtain ⟨res, hres, hw⟩ := Res.bind_ok_inv hw
  rw [← Res.pure_ok_inv hw, shortBytes_eq, shortBytes_eq,
    encodeVariablesMetadata_spec version hsv p.variables hv.variables vars hvars,
    encodeRowsMetadata_spec version hsv p.result hv.result res hres, PreparedResult.toMsg, Spec.resultBody,
    metadataId_agree version hsv, optB]

theorem rowsData_eq (data : List (Option (List (Option Bytes)))) : encodeRowsData data = Spec.rowsContent data := by
  rw [encodeRowsData, int_eq, uint_mod, Spec.rowsContent]
  congr 2
  refine List.map_congr_left fun row _ => ?_
  rw [encodeRow]
  congr 1
  exact List.map_congr_left fun c _ => bytes_eq c

theorem encodeRowsBody_spec (version : Nat) (hsv : version ∈ SupportedProtocolVersions) (r : RowsResult)
    (hv : ValidRowsBody version r) (b : Bytes) (hw : encodeRowsBody version r = .ok b) :
    b = Spec.resultBody version r.toMsg := by
  rw [encodeRowsBody] at hw
  obtain ⟨mb, hm, hw⟩ := Res.bind_ok_inv hw
  rw [← Res.pure_ok_inv hw, encodeRowsMetadata_spec version hsv r.metadata hv.metadata mb hm, rowsData_eq,
    RowsResult.toMsg, Spec.resultBody]

theorem resultType_eq (r : ResultMsg) : r.resultType = Spec.resultKind r := by cases r <;> rfl

theorem encodeResultBody_spec (version : Nat) (hsv : version ∈ SupportedProtocolVersions) (r : ResultMsg)
    (hv : ValidResult version r) (b : Bytes) (hw : encodeResultBody version r = .ok b) :
    b = Spec.resultBody version r := by
  cases r with
  | void => rw [encodeResultBody, encodeVoidBody] at hw; rw [← Res.pure_ok_inv hw]; rfl
  | setKeyspace ks =>
    rw [encodeResultBody, encodeSetKeyspaceBody] at hw
    rw [guard_pure_inv hw, string_eq]; rfl
  | schemaChange sc =>
    rw [encodeResultBody] at hw
    exact encodeSchemaChangeResultBody_spec version hsv sc hv b hw
  | prepared id rid vars res =>
    rw [encodeResultBody] at hw
    exact encodePreparedBody_spec version hsv ⟨id, rid, vars, res⟩ hv b hw
  | rows m d =>
    rw [encodeResultBody] at hw
    exact encodeRowsBody_spec version hsv ⟨m, d⟩ hv.1 b hw

/-- RESULT, every kind: `<kind:[int]>` and the kind-specific body of §4.2.5 of the version's document -/
theorem encodeResult_spec (version : Nat) (hsv : version ∈ SupportedProtocolVersions) (r : ResultMsg)
    (hv : ValidResult version r) (b : Bytes) (hw : encodeResult version r = .ok b) : b = Spec.result version r := by
  rw [encodeResult] at hw
  obtain ⟨_, _, hw⟩ := Res.bind_ok_inv hw
  obtain ⟨body, hb, hw⟩ := Res.bind_ok_inv hw
  rw [← Res.pure_ok_inv hw, int_eq, encodeResultBody_spec version hsv r hv body hb, resultType_eq, Spec.result]

/-! ## specification-formatted bytes decode to the message they denote

The other direction of C02, for the specification's encoding of a version-valid message: the encoder refuses no valid
message (`encodeX_ok`), what it writes is the specification's bytes (above), and the decoder reads that back
(`decodeX_RT`) — up to `canonX`, the distinctions the wire cannot carry. -/

theorem decodeError_spec (version : Nat) (hsv : version ∈ SupportedProtocolVersions) (e : ErrorMsg)
    (hv : ValidError version e) (rest : Bytes) :
    (decodeError version).run (Spec.error version e ++ rest) = .ok (canonError version e, rest) := by
  obtain ⟨b, hb⟩ := encodeError_ok version e hv
  rw [← encodeError_spec version hsv e hv b hb]
  exact decodeError_RT version e hv b hb rest

theorem decodeEvent_spec (version : Nat) (hsv : version ∈ SupportedProtocolVersions) (e : EventMsg)
    (hv : ValidEvent version e) (rest : Bytes) :
    (decodeEvent version).run (Spec.event version e ++ rest) = .ok (canonEvent version e, rest) := by
  obtain ⟨b, hb⟩ := encodeEvent_ok version e hv
  rw [← encodeEvent_spec version hsv e hv b hb]
  exact decodeEvent_RT version e hv b hb rest

theorem decodeResult_spec (version : Nat) (hsv : version ∈ SupportedProtocolVersions) (r : ResultMsg)
    (hv : ValidResult version r) (rest : Bytes) :
    (decodeResult version).run (Spec.result version r ++ rest) = .ok (canonResult version r, rest) := by
  obtain ⟨b, hb⟩ := encodeResult_ok version r hv
  rw [← encodeResult_spec version hsv r hv b hb]
  exact decodeResult_RT version r hv b hb rest

theorem decodeAuthenticate_spec (version : Nat) (a : Bytes) (hv : ValidAuthenticate version a) (rest : Bytes) :
    (decodeAuthenticate version).run (Spec.authenticate version a ++ rest) = .ok (a, rest) := by
  obtain ⟨b, hb⟩ := encodeAuthenticate_ok version a hv
  rw [← encodeAuthenticate_spec version a hv b hb]
  exact decodeAuthenticate_RT version a hv b hb rest

theorem decodeSupported_spec (version : Nat) (o : Option (List (Bytes × List Bytes))) (hv : ValidSupported version o)
    (rest : Bytes) :
    (decodeSupported version).run (Spec.supported version o ++ rest) = .ok (some (o.getD []), rest) := by
  obtain ⟨b, hb⟩ := encodeSupported_ok version o hv
  rw [← encodeSupported_spec version o hv b hb]
  exact decodeSupported_RT version o hv b hb rest

theorem decodeAuthChallenge_spec (version : Nat) (t : Option Bytes) (hv : ValidAuthChallenge version t) (rest : Bytes) :
    (decodeAuthChallenge version).run (Spec.authChallenge version t ++ rest) = .ok (t, rest) := by
  obtain ⟨b, hb⟩ := encodeAuthChallenge_ok version t hv
  rw [← encodeAuthChallenge_spec version t hv b hb]
  exact decodeAuthChallenge_RT version t hv b hb rest

theorem decodeAuthSuccess_spec (version : Nat) (t : Option Bytes) (hv : ValidAuthSuccess version t) (rest : Bytes) :
    (decodeAuthSuccess version).run (Spec.authSuccess version t ++ rest) = .ok (t, rest) := by
  obtain ⟨b, hb⟩ := encodeAuthSuccess_ok version t hv
  rw [← encodeAuthSuccess_spec version t hv b hb]
  exact decodeAuthSuccess_RT version t hv b hb rest

/-! ## non-vacuity -/

/-- map<varchar, list<udt k.u { f : tuple<int, uuid>, g : set<custom "x"> }>> -/
def exType : DataType :=
  .map (.prim DataTypeCodeVarchar)
    (.list (.udt [107] [117] [[102], [103]]
      [.tuple [.prim DataTypeCodeInt, .prim DataTypeCodeUuid], .set (.custom [120])]))

theorem exType_wf : DataType.Wf exType := by
  rw [exType]
  simp only [DataType.Wf, DataType.WfList]
  decide

/-- column "m" of k.t with the nested type, column "p" of k.t : bigint (same table: global table spec) -/
def exColN : ColumnMetadata := ⟨[107], [116], [109], 0, some exType⟩
def exColP : ColumnMetadata := ⟨[107], [116], [112], 0, some (.prim DataTypeCodeBigint)⟩

theorem exColN_valid : ValidColumn exColN := ⟨by decide, by decide, by decide, _, rfl, exType_wf⟩
theorem exColP_valid : ValidColumn exColP :=
  ⟨by decide, by decide, by decide, _, rfl, by rw [DataType.Wf]; decide⟩

def exMeta : RowsMetadata :=
  { columnCount := 2, pagingState := some [0xCA, 0xFE], newResultMetadataId := none, continuousPageNumber := 0,
    lastContinuousPage := false, columns := some [exColN, exColP] }

theorem exMeta_valid : ValidRowsMetadata 4 exMeta where
  columnCount := by decide
  columns := by
    intro cols h _
    cases h
    refine ⟨rfl, fun c hc => ?_⟩
    simp only [List.mem_cons, List.mem_nil_iff, or_false] at hc
    rcases hc with rfl | rfl
    · exact exColN_valid
    · exact exColP_valid
  pagingState := by intro c h; cases h; decide
  newId := by intro c h; cases h
  newIdVersion := by intro h; cases h
  page := by decide
  dse := fun _ => ⟨rfl, rfl⟩

/-- a Rows result on v4: nested column type, paging state, two rows with a null and an empty cell -/
def exRows : ResultMsg :=
  .rows (some exMeta) (some [some [some [1, 2, 3], none], some [some [], some [0, 0, 0, 0, 0, 0, 0, 7]]])

theorem exRows_valid : ValidResult 4 exRows := by
  refine ⟨⟨?_, ?_, ?_, ?_⟩, by intro h; cases h⟩
  · intro m h; cases h; exact exMeta_valid
  · intro d h; cases h; decide
  · intro d h row hr
    cases h
    simp only [List.mem_cons, List.mem_nil_iff, or_false] at hr
    rcases hr with rfl | rfl <;> exact validRow_of _ _ rfl (by decide)
  · intro d h _; cases h; decide

/-- the encoder accepts it and writes the specification's bytes: kind 2; flags 0x3 (Global_tables_spec,
    Has_more_pages); 2 columns; paging state CAFE; "k" "t"; "m" map<varchar, list<udt …>>; "p" bigint; 2 rows -/
example : encodeResult 4 exRows = .ok (Spec.result 4 exRows) := by
  obtain ⟨b, hb⟩ := encodeResult_ok 4 exRows exRows_valid
  rw [hb, encodeResult_spec 4 (by decide) exRows exRows_valid b hb]

example : Spec.result 4 exRows =
    [0, 0, 0, 2,  0, 0, 0, 3,  0, 0, 0, 2,  0, 0, 0, 2, 0xCA, 0xFE,  0, 1, 107, 0, 1, 116,
     0, 1, 109,  0, 0x21,  0, 0x0D,  0, 0x20,  0, 0x30, 0, 1, 107, 0, 1, 117, 0, 2,
       0, 1, 102,  0, 0x31, 0, 2, 0, 0x09, 0, 0x0C,   0, 1, 103,  0, 0x22, 0, 0, 0, 1, 120,
     0, 1, 112,  0, 0x02,
     0, 0, 0, 2,  0, 0, 0, 3, 1, 2, 3,  255, 255, 255, 255,  0, 0, 0, 0,  0, 0, 0, 8, 0, 0, 0, 0, 0, 0, 0, 7] := by
  decide

/-- a v5 Read_failure with a reason map: an IPv4 endpoint, an IPv4 endpoint in Go's 16-byte form, an IPv6 endpoint -/
def exReadFailure : ErrorMsg :=
  .readFailure [111, 111, 112, 115] ConsistencyLevelQuorum 1 2 0
    (some [⟨some [10, 0, 0, 1], FailureCodeTooManyTombstonesRead⟩,
           ⟨some [0, 0, 0, 0, 0, 0, 0, 0, 0, 0, 255, 255, 10, 0, 0, 2], FailureCodeUnknown⟩,
           ⟨some [0x20, 1, 0x0d, 0xb8, 0, 0, 0, 0, 0, 0, 0, 0, 0, 0, 0, 1], FailureCodeIndexNotAvailable⟩]) true

theorem exReadFailure_valid : ValidError 5 exReadFailure := by
  refine ⟨by decide, by decide, by decide, by decide, by decide, fun _ => ⟨by decide, ?_⟩⟩
  intro r hr
  simp only [Option.getD_some, List.mem_cons, List.mem_nil_iff, or_false] at hr
  rcases hr with rfl | rfl | rfl
  · exact ⟨⟨_, rfl, Or.inl rfl⟩, by decide⟩
  · exact ⟨⟨_, rfl, Or.inr rfl⟩, by decide⟩
  · exact ⟨⟨_, rfl, Or.inr rfl⟩, by decide⟩

example : encodeError 5 exReadFailure = .ok (Spec.error 5 exReadFailure) := by
  obtain ⟨b, hb⟩ := encodeError_ok 5 exReadFailure exReadFailure_valid
  rw [hb, encodeError_spec 5 (by decide) exReadFailure exReadFailure_valid b hb]

/-- code 0x1300, "oops", QUORUM, received 1, blockfor 2, reason map of 3 (`<endpoint:[inetaddr]><failurecode:[short]>`),
    data present -/
example : Spec.error 5 exReadFailure =
    [0, 0, 0x13, 0,  0, 4, 111, 111, 112, 115,  0, 4,  0, 0, 0, 1,  0, 0, 0, 2,  0, 0, 0, 3,
     4, 10, 0, 0, 1, 0, 1,   4, 10, 0, 0, 2, 0, 0,
     16, 0x20, 1, 0x0d, 0xb8, 0, 0, 0, 0, 0, 0, 0, 0, 0, 0, 0, 1, 0, 2,   1] := by decide

/-- the same error on v4 carries `<numfailures>` instead -/
example : Spec.error 4 (.readFailure [] ConsistencyLevelOne 0 1 3 none false) =
    [0, 0, 0x13, 0,  0, 0,  0, 1,  0, 0, 0, 0,  0, 0, 0, 1,  0, 0, 0, 3,  0] := by decide

/-- a v4 SCHEMA_CHANGE event for a FUNCTION: CREATED FUNCTION ks.fn(int, text) -/
def exFunctionEvent : EventMsg :=
  .schemaChange ⟨SchemaChangeTypeCreated, SchemaChangeTargetFunction, [107, 115], [102, 110],
    some [[105, 110, 116], [116, 101, 120, 116]]⟩

theorem exFunctionEvent_valid : ValidEvent 4 exFunctionEvent where
  changeType := by decide
  target := Or.inr (Or.inr (Or.inr ⟨Or.inr rfl, by decide⟩))
  keyspace := ⟨by decide, by decide⟩
  objectKs := by intro h; exact absurd h (by decide)
  objectOther := by intro _; decide
  objectLen := by decide
  argumentsOnly := by intro h; exact absurd (Or.inr rfl) h
  argumentsLen := by intro l h; cases h; exact ⟨by decide, by decide⟩

example : encodeEvent 4 exFunctionEvent = .ok (Spec.event 4 exFunctionEvent) := by
  obtain ⟨b, hb⟩ := encodeEvent_ok 4 exFunctionEvent exFunctionEvent_valid
  rw [hb, encodeEvent_spec 4 (by decide) exFunctionEvent exFunctionEvent_valid b hb]

/-- "SCHEMA_CHANGE" "CREATED" "FUNCTION" "ks" "fn" ["int", "text"] -/
example : Spec.event 4 exFunctionEvent =
    [0, 13, 83, 67, 72, 69, 77, 65, 95, 67, 72, 65, 78, 71, 69,  0, 7, 67, 82, 69, 65, 84, 69, 68,
     0, 8, 70, 85, 78, 67, 84, 73, 79, 78,  0, 2, 107, 115,  0, 2, 102, 110,
     0, 2, 0, 3, 105, 110, 116, 0, 4, 116, 101, 120, 116] := by decide

/-- the v2 layout of the same kind of event has no `<target>`: `<change><keyspace><table>` -/
example : Spec.event 2 (.schemaChange ⟨SchemaChangeTypeDropped, SchemaChangeTargetKeyspace, [107], [], none⟩) =
    [0, 13, 83, 67, 72, 69, 77, 65, 95, 67, 72, 65, 78, 71, 69,  0, 7, 68, 82, 79, 80, 80, 69, 68,  0, 1, 107,  0, 0] := by
  decide

/-- a DSE v2 Prepared result: result metadata id, pk indices, and result metadata with Metadata_changed and the
    continuous-paging fields: flags 0xC000000B -/
example : Spec.result 66 (.prepared (some [1, 2]) (some [3, 4]) (some ⟨some [1], some [exColP]⟩)
      (some { exMeta with newResultMetadataId := some [9], continuousPageNumber := 3, lastContinuousPage := true })) =
    [0, 0, 0, 4,  0, 2, 1, 2,  0, 2, 3, 4,
     0, 0, 0, 1,  0, 0, 0, 1,  0, 0, 0, 1, 0, 1,  0, 1, 107, 0, 1, 116,  0, 1, 112, 0, 2,
     0xC0, 0, 0, 0x0B,  0, 0, 0, 2,  0, 0, 0, 2, 0xCA, 0xFE,  0, 1, 9,  0, 0, 0, 3,  0, 1, 107, 0, 1, 116,
     0, 1, 109,  0, 0x21,  0, 0x0D,  0, 0x20,  0, 0x30, 0, 1, 107, 0, 1, 117, 0, 2,
       0, 1, 102,  0, 0x31, 0, 2, 0, 0x09, 0, 0x0C,   0, 1, 103,  0, 0x22, 0, 0, 0, 1, 120,
     0, 1, 112,  0, 0x02] := by decide

/-! ## findings

No refinement theorem above needed an extra hypothesis: on version-valid messages the encoders write exactly the
specification's bytes. What the comparison with the documents does show lies OUTSIDE those theorems: things the
documents define that the library cannot read or represent, and things the library writes although the version's
document does not define them (the `Valid*` predicates do not exclude them, and for them `Cql.Spec` extrapolates
the layout of the first document that has the item). -/

-- FIXED in /repo 617fb97 (was a SUSPECT): `native_protocol_v2.spec` §4.2.5.2 lists option id "0x000A    Text"; `ReadDataType`
-- had no `case DataTypeCodeText`, so a specification-formatted v2 Rows / Prepared result with a `text` column was refused.
-- It is now read as varchar (constants.go: "alias for DataTypeCodeVarchar").
example : Spec.nativeIdDefined 2 0x000A = true := by decide
example : (DataType.read 2).run [0x00, 0x0A] = .ok (.prim 0x000D, []) := rfl
example : DataType.write 2 (.prim 0x000A) = .ok [0x00, 0x0A] := by decide

-- SUSPECT: (v5 / DSE error codes) `native_protocol_v5.spec` §8 defines "0x1600    CDC_WRITE_FAILURE" and
-- "0x1700    CAS_WRITE_UNKNOWN … <cl><received><blockfor>"; `dse_protocol_v1/v2.spec` §9 define
-- "0x8000    Client_write_failure". The library has no message for them: a specification-formatted ERROR with such a
-- code is refused by the decoder, and no `ErrorMsg` encodes to one.
example : Spec.errorCodeDefined 5 0x1700 = true ∧ Spec.errorCodeDefined 5 0x1600 = true ∧
    Spec.errorCodeDefined 65 0x8000 = true := by decide
/-- CAS_WRITE_UNKNOWN "x", cl = QUORUM, received 1, blockfor 2 -/
example : (decodeError 5).run [0, 0, 0x17, 0,  0, 1, 120,  0, 4,  0, 0, 0, 1,  0, 0, 0, 2] =
    .err "unknown ERROR code" := by decide
example : (decodeError 65).run [0, 0, 0x80, 0,  0, 1, 120] = .err "unknown ERROR code" := by decide
example : encodeError 5 (.simple 0x1700 [120]) = .err "unknown ERROR code" := by decide

-- SUSPECT: (no version check on what is written) the encoders write, and `DataType.Wf` / `ValidError` accept, items
-- the version's document does not have: 0x0015 Duration before v5, tuples / UDTs on v2, date / time / smallint /
-- tinyint before v4 (`CheckValidDataTypeCode` ignores its `version` argument); Read_failure / Write_failure /
-- Function_failure on v2 / v3 (v4 §10: "Read_failure error code was added. Function_failure error code was added").
example : DataType.Wf (.prim DataTypeCodeDuration) ∧ Spec.typeDefined 3 (.prim DataTypeCodeDuration) = false ∧
    DataType.write 3 (.prim DataTypeCodeDuration) = .ok [0x00, 0x15] := ⟨by rw [DataType.Wf]; decide, by decide, by decide⟩
example : Spec.typeDefined 2 (.tuple [.prim DataTypeCodeInt]) = false ∧
    DataType.write 2 (.tuple [.prim DataTypeCodeInt]) = .ok [0x00, 0x31, 0, 1, 0x00, 0x09] := ⟨by decide, by decide⟩
example : ValidError 3 (.readFailure [] ConsistencyLevelOne 0 1 2 none false) ∧
    Spec.errorCodeDefined 3 0x1300 = false ∧
    encodeError 3 (.readFailure [] ConsistencyLevelOne 0 1 2 none false) =
      .ok [0, 0, 0x13, 0,  0, 0,  0, 1,  0, 0, 0, 0,  0, 0, 0, 1,  0, 0, 0, 2,  0] :=
  ⟨⟨by decide, by decide, by decide, by decide, by decide, fun h => absurd h (by decide)⟩, by decide, by decide⟩

-- SUSPECT: (minor, validity) v5 §4.2.5.2: "0x0008    Metadata_changed: if set, the No_metadata flag has to be unset".
-- `RowsMetadata.Flags()` sets both for a metadata with a new result metadata id and no column specifications, and
-- `ValidRowsMetadata` does not exclude it: flags 0x0000000C.
example : encodeRowsMetadata' 5 { RowsMetadata.zero with newResultMetadataId := some [1] } =
    .ok [0, 0, 0, 0x0C,  0, 0, 0, 0,  0, 1, 1] := by decide
example : ValidRowsMetadata 5 { RowsMetadata.zero with newResultMetadataId := some [1] } :=
  ⟨by decide, fun _ h => (by cases h), fun _ h => (by cases h), fun c h => (by cases h; decide), fun _ => by decide,
    by decide, fun _ => ⟨rfl, rfl⟩⟩

end Cql.SpecResponses
