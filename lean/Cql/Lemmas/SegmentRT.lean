import Cql.Segment
import Cql.Spec.Segment
import Cql.Lemmas.PrimRT
import Cql.Lemmas.NoPanic
import Cql.Lemmas.Crc24
/-!
Helper lemmas for C06 (v5 segments): little-endian integers, the bit packing of the two header layouts, the step lemmas
of `decodeSegmentHeader` / `decodeSegmentPayload`, `NoPanic`, the byte-wise reading of `ChecksumKoopman`, and the identification
of the encoder's output with the specification layout of `Cql/Spec/Segment.lean`.
Style: `rw` with equation lemmas and `Parser.bind_ok` (STYLE.md); the property theorems are in `Cql/Props/C06.lean`.
-/
namespace Cql.Segment
open Cql Cql.Prim Cql.Parser Cql.Crc

/-! ### little-endian integers -/

theorem leBytes_length (k n : Nat) : (leBytes k n).length = k := by
  induction k generalizing n with
  | zero => rfl
  | succ k ih => rw [leBytes, List.length_cons, ih]

theorem leNat_leBytes (k n : Nat) : leNat (leBytes k n) = n % 256 ^ k := by
  induction k generalizing n with
  | zero => rw [leBytes, leNat, Nat.pow_zero, Nat.mod_one]
  | succ k ih =>
    rw [leBytes, leNat, ih]
    have h : (UInt8.ofNat (n % 256)).toNat = n % 256 := by
      rw [UInt8.toNat_ofNat']; exact Nat.mod_eq_of_lt (Nat.mod_lt _ (by decide))
    rw [h, Nat.pow_succ, Nat.mul_comm (256 ^ k) 256, Nat.mod_mul]

theorem leNat_leBytes_of_lt (k n : Nat) (h : n < 256 ^ k) : leNat (leBytes k n) = n := by
  rw [leNat_leBytes, Nat.mod_eq_of_lt h]

theorem leNat_lt (bs : Bytes) : leNat bs < 256 ^ bs.length := by
  induction bs with
  | nil => exact Nat.lt_succ_self 0
  | cons b bs ih =>
    rw [leNat, List.length_cons, Nat.pow_succ]
    have hb : b.toNat < 256 := b.toNat_lt
    omega

/-! ### bit packing of the header value (`|`, `<<`, `>>`, `&` as arithmetic) -/

theorem and_131071 (x : Nat) : x &&& 131071 = x % 131072 := Nat.and_two_pow_sub_one_eq_mod x 17

theorem shr_17 (x : Nat) : x >>> 17 = x / 131072 := Nat.shiftRight_eq_div_pow x 17

theorem shr_34 (x : Nat) : x >>> 34 = x / 17179869184 := Nat.shiftRight_eq_div_pow x 34

theorem or_shl_17 (c u : Nat) (hc : c < 131072) : c ||| (u <<< 17) = c + 131072 * u := by
  rw [Nat.shiftLeft_eq, Nat.or_comm, Nat.mul_comm u]
  have := Nat.two_pow_add_eq_or_of_lt (i := 17) (b := c) hc u
  rw [← this]; exact Nat.add_comm _ _

theorem or_shl_34 (x : Nat) (hx : x < 17179869184) (f : Nat) : x ||| (f <<< 34) = x + 17179869184 * f := by
  rw [Nat.shiftLeft_eq, Nat.or_comm, Nat.mul_comm f]
  have := Nat.two_pow_add_eq_or_of_lt (i := 34) (b := x) hx f
  rw [← this]; exact Nat.add_comm _ _

/-- the header value of the uncompressed layout, as a sum -/
theorem headerU_eq (sc : Bool) (len : Nat) (hlen : len < 131072) :
    (len ||| (if sc then 1 <<< 17 else 0)) = len + (if sc then 131072 else 0) := by
  cases sc with
  | false => exact Nat.or_zero len
  | true =>
    rw [if_pos rfl, if_pos rfl, or_shl_17 len 1 hlen]

/-- the header value of the compressed layout, as a sum -/
theorem headerC_eq (sc : Bool) (c u : Nat) (hc : c < 131072) (hu : u < 131072) :
    (c ||| (u <<< 17) ||| (if sc then 1 <<< 34 else 0)) = c + 131072 * u + (if sc then 17179869184 else 0) := by
  rw [or_shl_17 c u hc]
  cases sc with
  | false => exact Nat.or_zero _
  | true =>
    rw [if_pos rfl, if_pos rfl, or_shl_34 _ (by omega) 1]

theorem headerU_facts (sc : Bool) (len : Nat) (hlen : len < 131072) :
    (len ||| (if sc then 1 <<< 17 else 0)) < 16777216 ∧
    (len ||| (if sc then 1 <<< 17 else 0)) &&& 131071 = len ∧
    ((((len ||| (if sc then 1 <<< 17 else 0)) >>> 17) &&& 1 = 1) ↔ sc = true) := by
  rw [headerU_eq sc len hlen, and_131071, shr_17, Nat.and_one_is_mod]
  cases sc with
  | false =>
    refine ⟨by simp only [Bool.false_eq_true, if_false]; omega, by simp only [Bool.false_eq_true, if_false]; omega, ?_⟩
    simp only [Bool.false_eq_true, if_false, iff_false]; omega
  | true =>
    refine ⟨by simp only [if_true]; omega, by simp only [if_true]; omega, ?_⟩
    simp only [if_true, iff_true]; omega

theorem headerC_facts (sc : Bool) (c u : Nat) (hc : c < 131072) (hu : u < 131072) :
    (c ||| (u <<< 17) ||| (if sc then 1 <<< 34 else 0)) < 1099511627776 ∧
    (c ||| (u <<< 17) ||| (if sc then 1 <<< 34 else 0)) &&& 131071 = c ∧
    ((c ||| (u <<< 17) ||| (if sc then 1 <<< 34 else 0)) >>> 17) &&& 131071 = u ∧
    ((((c ||| (u <<< 17) ||| (if sc then 1 <<< 34 else 0)) >>> 34) &&& 1 = 1) ↔ sc = true) := by
  rw [headerC_eq sc c u hc hu, and_131071, and_131071, shr_17, shr_34, Nat.and_one_is_mod]
  cases sc with
  | false =>
    simp only [Bool.false_eq_true, if_false, iff_false]
    refine ⟨by omega, by omega, by omega, by omega⟩
  | true =>
    simp only [if_true, iff_true]
    refine ⟨by omega, by omega, by omega, by omega⟩


/-! ### the decoder, step by step -/

theorem writeHeaderDataAndCrc_eq (hd hl : Nat) :
    writeHeaderDataAndCrc hd hl = leBytes hl hd ++ leBytes crc24Length (crc24 (BitVec.ofNat 64 hd) hl).toNat := by
  rw [writeHeaderDataAndCrc]

theorem writeHeaderDataAndCrc_len (hd hl : Nat) : (writeHeaderDataAndCrc hd hl).length = hl + crc24Length := by
  rw [writeHeaderDataAndCrc_eq, List.length_append, leBytes_length, leBytes_length]

/-- header without compressor: any 24-bit header value written by `writeHeaderDataAndCrc` is accepted and split -/
theorem decodeSegmentHeader_none_run (hd : Nat) (hlt : hd < 16777216) (rest : Bytes) :
    (decodeSegmentHeader none).run (writeHeaderDataAndCrc hd uncompressedHeaderLength ++ rest) =
      .ok ({ isSelfContained := decide ((hd >>> 17) &&& 1 = 1), uncompressedPayloadLength := hd &&& maxPayloadLength,
             compressedPayloadLength := 0, crc24 := (crc24 (BitVec.ofNat 64 hd) uncompressedHeaderLength).toNat }, rest) := by
  rw [writeHeaderDataAndCrc_eq, decodeSegmentHeader, headerLength, List.append_assoc,
    bind_ok (take_RT _ _ _ (leBytes_length _ _)), bind_ok (take_RT _ _ _ (leBytes_length _ _))]
  have h1 : hd < 256 ^ uncompressedHeaderLength := hlt
  have h2 : (crc24 (BitVec.ofNat 64 hd) uncompressedHeaderLength).toNat < 256 ^ crc24Length := crc24_lt _ _
  rw [leNat_leBytes_of_lt _ _ h1, leNat_leBytes_of_lt _ _ h2]
  simp only []
  rw [if_neg (fun h => h rfl)]
  rfl

/-- header with a compressor, the uncompressed-length field is not zero -/
theorem decodeSegmentHeader_some_run (comp : PayloadCompressor) (hd : Nat) (hlt : hd < 1099511627776)
    (hu : (hd >>> 17) &&& maxPayloadLength ≠ 0) (rest : Bytes) :
    (decodeSegmentHeader (some comp)).run (writeHeaderDataAndCrc hd compressedHeaderLength ++ rest) =
      .ok ({ isSelfContained := decide ((hd >>> 34) &&& 1 = 1), uncompressedPayloadLength := (hd >>> 17) &&& maxPayloadLength,
             compressedPayloadLength := hd &&& maxPayloadLength,
             crc24 := (crc24 (BitVec.ofNat 64 hd) compressedHeaderLength).toNat }, rest) := by
  rw [writeHeaderDataAndCrc_eq, decodeSegmentHeader, headerLength, List.append_assoc,
    bind_ok (take_RT _ _ _ (leBytes_length _ _)), bind_ok (take_RT _ _ _ (leBytes_length _ _))]
  have h1 : hd < 256 ^ compressedHeaderLength := hlt
  have h2 : (crc24 (BitVec.ofNat 64 hd) compressedHeaderLength).toNat < 256 ^ crc24Length := crc24_lt _ _
  rw [leNat_leBytes_of_lt _ _ h1, leNat_leBytes_of_lt _ _ h2]
  simp only []
  rw [if_neg (fun h => h rfl), if_neg hu]
  rfl

/-- header with a compressor, uncompressed-length field zero: "the sender chose not to compress" -/
theorem decodeSegmentHeader_some_run0 (comp : PayloadCompressor) (hd : Nat) (hlt : hd < 1099511627776)
    (hu : (hd >>> 17) &&& maxPayloadLength = 0) (rest : Bytes) :
    (decodeSegmentHeader (some comp)).run (writeHeaderDataAndCrc hd compressedHeaderLength ++ rest) =
      .ok ({ isSelfContained := decide ((hd >>> 34) &&& 1 = 1), uncompressedPayloadLength := hd &&& maxPayloadLength,
             compressedPayloadLength := 0,
             crc24 := (crc24 (BitVec.ofNat 64 hd) compressedHeaderLength).toNat }, rest) := by
  rw [writeHeaderDataAndCrc_eq, decodeSegmentHeader, headerLength, List.append_assoc,
    bind_ok (take_RT _ _ _ (leBytes_length _ _)), bind_ok (take_RT _ _ _ (leBytes_length _ _))]
  have h1 : hd < 256 ^ compressedHeaderLength := hlt
  have h2 : (crc24 (BitVec.ofNat 64 hd) compressedHeaderLength).toNat < 256 ^ crc24Length := crc24_lt _ _
  rw [leNat_leBytes_of_lt _ _ h1, leNat_leBytes_of_lt _ _ h2]
  simp only []
  rw [if_neg (fun h => h rfl), if_pos hu]
  rfl

theorem writePayloadCrc_len (bs : Bytes) : (writePayloadCrc bs).length = 4 := by
  rw [writePayloadCrc, leBytes_length]

theorem leNat_writePayloadCrc (bs : Bytes) : leNat (writePayloadCrc bs) = (checksumIEEE bs).toNat := by
  rw [writePayloadCrc]
  exact leNat_leBytes_of_lt 4 _ (checksumIEEE bs).isLt

/-- payload taken as it is: no compressor, or a header whose compressed length is 0 -/
theorem decodeSegmentPayload_plain (c : Option PayloadCompressor) (h : Header) (p : Bytes)
    (hplain : (c.isNone || decide (h.compressedPayloadLength = 0)) = true)
    (hlen : h.uncompressedPayloadLength = p.length) (rest : Bytes) :
    (decodeSegmentPayload c h).run (p ++ (writePayloadCrc p ++ rest)) = .ok ((p, (checksumIEEE p).toNat), rest) := by
  rw [decodeSegmentPayload]
  simp only []
  rw [hplain, if_pos rfl, hlen, bind_ok (take_append_run p _),
    bind_ok (take_RT 4 _ rest (writePayloadCrc_len p)), leNat_writePayloadCrc, if_neg (fun h => h rfl), if_pos rfl]
  rfl

/-- payload decompressed: header carries a non-zero compressed length -/
theorem decodeSegmentPayload_comp (comp : PayloadCompressor) (h : Header) (w p : Bytes)
    (hc : h.compressedPayloadLength = w.length) (hne : w.length ≠ 0) (hdec : comp.decompress w = .ok p) (rest : Bytes) :
    (decodeSegmentPayload (some comp) h).run (w ++ (writePayloadCrc w ++ rest)) = .ok ((p, (checksumIEEE w).toNat), rest) := by
  have hplain : ((some comp).isNone || decide (h.compressedPayloadLength = 0)) = false := by
    rw [hc]; exact decide_eq_false hne
  rw [decodeSegmentPayload]
  simp only []
  rw [hplain, if_neg (by decide), hc, bind_ok (take_append_run w _),
    bind_ok (take_RT 4 _ rest (writePayloadCrc_len w)), leNat_writePayloadCrc, if_neg (fun h => h rfl), if_neg (by decide)]
  simp only [hdec]


/-! ### no panic -/

theorem decodeSegmentHeader_noPanic (c : Option PayloadCompressor) : NoPanic (decodeSegmentHeader c) := by
  rw [decodeSegmentHeader]
  cases c with
  | none => simp only []; no_panic
  | some comp => simp only []; no_panic

/-- the step that calls the third-party decompressor -/
theorem decompressStep_noPanic (comp : PayloadCompressor) (hc : ∀ x e, comp.decompress x ≠ .panic e) (encoded : Bytes)
    (actual : Nat) :
    NoPanic (⟨fun s => match comp.decompress encoded with
        | .ok raw => .ok ((raw, actual), s)
        | .err e => .err e
        | .panic e => .panic e⟩ : Parser (Bytes × Nat)) := by
  intro s e h
  cases hd : comp.decompress encoded with
  | ok raw => simp only [hd] at h; cases h
  | err m => simp only [hd] at h; cases h
  | panic m => exact hc _ _ hd

theorem decodeSegmentPayload_noPanic (c : Option PayloadCompressor) (h : Header)
    (hc : ∀ comp, c = some comp → ∀ x e, comp.decompress x ≠ .panic e) : NoPanic (decodeSegmentPayload c h) := by
  rw [decodeSegmentPayload]
  cases c with
  | none => simp only []; no_panic
  | some comp => simp only []; no_panic [decompressStep_noPanic comp (hc comp rfl)]

theorem decodeSegment_noPanic (c : Option PayloadCompressor)
    (hc : ∀ comp, c = some comp → ∀ x e, comp.decompress x ≠ .panic e) : NoPanic (decodeSegment c) := by
  rw [decodeSegment]
  no_panic [decodeSegmentHeader_noPanic c, decodeSegmentPayload_noPanic c _ hc]



/-! ### header round trips -/

theorem decide_of_iff_bool {P : Prop} [Decidable P] (sc : Bool) (h : P ↔ sc = true) : decide P = sc := by
  cases sc with
  | false => exact decide_eq_false (fun hp => by cases h.mp hp)
  | true => exact decide_eq_true (h.mpr rfl)

theorem decodeSegmentHeader_uncompressed_RT (sc : Bool) (len : Nat) (hlen : len < 131072) (rest : Bytes) :
    (decodeSegmentHeader none).run (encodeHeaderUncompressed sc len ++ rest) =
      .ok ({ isSelfContained := sc, uncompressedPayloadLength := len, compressedPayloadLength := 0,
             crc24 := (crc24 (BitVec.ofNat 64 (len ||| (if sc then 1 <<< 17 else 0))) uncompressedHeaderLength).toNat },
           rest) := by
  obtain ⟨h1, h2, h3⟩ := headerU_facts sc len hlen
  rw [encodeHeaderUncompressed, decodeSegmentHeader_none_run _ h1, maxPayloadLength, h2, decide_of_iff_bool sc h3]

/-- both length fields in use (the uncompressed length is not 0) -/
theorem decodeSegmentHeader_compressed_RT (comp : PayloadCompressor) (sc : Bool) (c u : Nat) (hc : c < 131072)
    (hu : u < 131072) (hu0 : u ≠ 0) (rest : Bytes) :
    (decodeSegmentHeader (some comp)).run (encodeHeaderCompressed sc c u ++ rest) =
      .ok ({ isSelfContained := sc, uncompressedPayloadLength := u, compressedPayloadLength := c,
             crc24 := (crc24 (BitVec.ofNat 64 (c ||| (u <<< 17) ||| (if sc then 1 <<< 34 else 0))) compressedHeaderLength).toNat },
           rest) := by
  obtain ⟨h1, h2, h3, h4⟩ := headerC_facts sc c u hc hu
  rw [encodeHeaderCompressed, decodeSegmentHeader_some_run comp _ h1 (by rw [maxPayloadLength, h3]; exact hu0),
    maxPayloadLength, h2, h3, decide_of_iff_bool sc h4]

/-- the "not compressed" marker: uncompressed-length field 0, the payload length in the compressed-length field;
    the decoder moves it back -/
theorem decodeSegmentHeader_fallback_RT (comp : PayloadCompressor) (sc : Bool) (len : Nat) (hlen : len < 131072)
    (rest : Bytes) :
    (decodeSegmentHeader (some comp)).run (encodeHeaderCompressed sc len 0 ++ rest) =
      .ok ({ isSelfContained := sc, uncompressedPayloadLength := len, compressedPayloadLength := 0,
             crc24 := (crc24 (BitVec.ofNat 64 (len ||| (0 <<< 17) ||| (if sc then 1 <<< 34 else 0))) compressedHeaderLength).toNat },
           rest) := by
  obtain ⟨h1, h2, h3, h4⟩ := headerC_facts sc len 0 hlen (by decide)
  rw [encodeHeaderCompressed, decodeSegmentHeader_some_run0 comp _ h1 (by rw [maxPayloadLength, h3]),
    maxPayloadLength, h2, decide_of_iff_bool sc h4]




/-! ### `ChecksumKoopman` on the little-endian register = the byte-at-a-time reference CRC-24 -/

/-- dropping the low byte of the register -/
theorem register_shift (b : UInt8) (v : Nat) (hv : v < 72057594037927936) :
    (BitVec.ofNat 64 (b.toNat + 256 * v)) >>> 8 = BitVec.ofNat 64 v := by
  apply BitVec.eq_of_toNat_eq
  have hb : b.toNat < 256 := b.toNat_lt
  rw [BitVec.toNat_ushiftRight, BitVec.toNat_ofNat, BitVec.toNat_ofNat, Nat.shiftRight_eq_div_pow]
  have e64 : (2 : Nat) ^ 64 = 18446744073709551616 := by decide
  have e8 : (2 : Nat) ^ 8 = 256 := by decide
  rw [e64, e8]
  omega

/-- the Go code xors `uint32(data) << 16` into the register without masking `data` to its low byte; below bit 24 this is
    the same as xoring the low byte only -/
theorem register_xor_agree (crc : BitVec 32) (b : UInt8) (v : Nat) :
    Agree 0 (crc ^^^ ((BitVec.ofNat 64 (b.toNat + 256 * v)).setWidth 32 <<< 16)) (crc ^^^ (BitVec.ofNat 32 b.toNat <<< 16)) := by
  intro i hi
  rw [BitVec.getLsbD_xor, BitVec.getLsbD_xor, BitVec.getLsbD_shiftLeft, BitVec.getLsbD_shiftLeft]
  congr 1
  by_cases h16 : i < 16
  · rw [decide_eq_true h16]; simp only [Bool.not_true, Bool.and_false, Bool.false_and]
  · congr 1
    rw [BitVec.getLsbD_setWidth, BitVec.getLsbD_ofNat, BitVec.getLsbD_ofNat]
    have hb : b.toNat < 256 := b.toNat_lt
    have hmod : (b.toNat + 256 * v) % 2 ^ 8 = b.toNat := by
      have e8 : (2 : Nat) ^ 8 = 256 := by decide
      rw [e8]; omega
    have ht := Nat.testBit_mod_two_pow (b.toNat + 256 * v) 8 (i - 16)
    rw [hmod, decide_eq_true (by omega : i - 16 < 8), Bool.true_and] at ht
    rw [ht, decide_eq_true (by omega : i - 16 < 32), decide_eq_true (by omega : i - 16 < 64), Bool.true_and, Bool.true_and]

theorem crc24Byte_register (crc : BitVec 32) (b : UInt8) (v : Nat) (hv : v < 72057594037927936) :
    crc24Byte (crc, BitVec.ofNat 64 (b.toNat + 256 * v)) = (Spec.crc24ByteRef crc b, BitVec.ofNat 64 v) := by
  rw [crc24Byte, Spec.crc24ByteRef]
  show (iter crc24Bit 8 (crc ^^^ ((BitVec.ofNat 64 (b.toNat + 256 * v)).setWidth 32 <<< 16)),
        (BitVec.ofNat 64 (b.toNat + 256 * v)) >>> 8) = _
  rw [register_shift b v hv, iter8_crc24Bit_congr _ _ (register_xor_agree crc b v)]

theorem crc24From_bytewise : ∀ (bs : Bytes) (crc : BitVec 32), bs.length ≤ 8 →
    crc24From crc (BitVec.ofNat 64 (leNat bs)) bs.length = bs.foldl Spec.crc24ByteRef crc
  | [], _, _ => rfl
  | b :: bs, crc, h => by
    have hl : bs.length ≤ 7 := by rw [List.length_cons] at h; omega
    have hv : leNat bs < 72057594037927936 :=
      Nat.lt_of_lt_of_le (leNat_lt bs) (by
        have : (72057594037927936 : Nat) = 256 ^ 7 := by decide
        rw [this]; exact Nat.pow_le_pow_right (by decide) hl)
    rw [leNat, List.length_cons, crc24From, iter, crc24Byte_register crc b (leNat bs) hv, List.foldl_cons]
    exact crc24From_bytewise bs (Spec.crc24ByteRef crc b) (by omega)

/-- **`ChecksumKoopman(data, len)` is the CRC-24 of the `len ≤ 8` bytes the register holds, least significant first** -/
theorem crc24_eq_bytewise (bs : Bytes) (h : bs.length ≤ 8) :
    (crc24 (BitVec.ofNat 64 (leNat bs)) bs.length).toNat = Spec.crc24OfBytes bs := by
  rw [crc24, crc24From_bytewise bs crc24Init h, Spec.crc24OfBytes]


/-! ### the specification's arithmetic notions coincide with the code-shaped ones -/

theorem spec_leBytes_eq (k n : Nat) : Spec.leBytes k n = leBytes k n := by
  induction k generalizing n with
  | zero => rfl
  | succ k ih =>
    rw [leBytes, ← ih, Spec.leBytes, Spec.leBytes, List.range_succ_eq_map, List.map_cons, List.map_map,
      Nat.pow_zero, Nat.div_one]
    congr 1
    apply List.map_congr_left
    intro i _
    show UInt8.ofNat (n / 256 ^ (i + 1) % 256) = UInt8.ofNat (n / 256 / 256 ^ i % 256)
    rw [Nat.div_div_eq_div_mul, Nat.pow_succ, Nat.mul_comm]

theorem spec_leValue_eq (bs : Bytes) : Spec.leValue bs = leNat bs := by
  induction bs with
  | nil => rfl
  | cons b bs ih => rw [Spec.leValue, leNat, ih]

/-- the specification's byte-wise CRC-24 of the `k ≤ 8` little-endian header bytes is what the code computes on the register -/
theorem spec_crc24OfBytes (k hv : Nat) (hk : k ≤ 8) (h : hv < 256 ^ k) :
    Spec.crc24OfBytes (leBytes k hv) = (crc24 (BitVec.ofNat 64 hv) k).toNat := by
  have := crc24_eq_bytewise (leBytes k hv) (by rw [leBytes_length]; exact hk)
  rw [leNat_leBytes_of_lt k hv h, leBytes_length] at this
  exact this.symm

theorem spec_crc32Seeded (p : Bytes) : Spec.crc32Seeded p = (checksumIEEE p).toNat := by
  rw [Spec.crc32Seeded, checksumIEEE, initialChecksum, crc32Update, crc32Update, crc32Update, BitVec.not_not,
    crc32Raw, crc32Raw, crc32Raw, List.foldl_append]
  rfl



/-! ### encoder output = specification layout -/

theorem headerU_eq_pow (sc : Bool) (len : Nat) (hlen : len < 131072) :
    (len ||| (if sc then 1 <<< 17 else 0)) = len + (if sc then 2 ^ 17 else 0) := headerU_eq sc len hlen

theorem headerC_eq_pow (sc : Bool) (c u : Nat) (hc : c < 131072) (hu : u < 131072) :
    (c ||| (u <<< 17) ||| (if sc then 1 <<< 34 else 0)) = c + 2 ^ 17 * u + (if sc then 2 ^ 34 else 0) :=
  headerC_eq sc c u hc hu

theorem uncompressed_layout (sc : Bool) (p : Bytes) (hp : p.length ≤ 131071) :
    encodeHeaderUncompressed sc p.length ++ p ++ writePayloadCrc p = Spec.specSegmentUncompressed sc p := by
  have hlt := (headerU_facts sc p.length (by omega)).1
  rw [headerU_eq_pow sc p.length (by omega)] at hlt
  rw [Spec.specSegmentUncompressed]
  rw [spec_leBytes_eq, spec_leBytes_eq, spec_leBytes_eq, spec_crc24OfBytes 3 _ (by decide) hlt, spec_crc32Seeded,
    encodeHeaderUncompressed, writeHeaderDataAndCrc_eq, headerU_eq_pow sc p.length (by omega), writePayloadCrc]
  rfl

theorem compressed_layout (sc : Bool) (w : Bytes) (u : Nat) (hw : w.length ≤ 131071) (hu : u ≤ 131071) :
    encodeHeaderCompressed sc w.length u ++ w ++ writePayloadCrc w = Spec.specSegmentCompressed sc w u := by
  have hlt := (headerC_facts sc w.length u (by omega) (by omega)).1
  rw [headerC_eq_pow sc w.length u (by omega) (by omega)] at hlt
  rw [Spec.specSegmentCompressed]
  rw [spec_leBytes_eq, spec_leBytes_eq, spec_leBytes_eq, spec_crc24OfBytes 5 _ (by decide) hlt, spec_crc32Seeded,
    encodeHeaderCompressed, writeHeaderDataAndCrc_eq, headerC_eq_pow sc w.length u (by omega) (by omega), writePayloadCrc]
  rfl


/-! ### inversion of the encoder -/

/-- inversion of a successful `encodeSegment` with a compressor -/
theorem encodeSegment_some_inv (comp : PayloadCompressor) (sc : Bool) (p b : Bytes) (hp : p.length ≤ 131071)
    (hw : encodeSegment (some comp) sc p = .ok b) :
    ∃ c, comp.compress p = .ok c ∧
      b = if c.length ≤ p.length then encodeHeaderCompressed sc c.length p.length ++ c ++ writePayloadCrc c
          else encodeHeaderCompressed sc p.length 0 ++ p ++ writePayloadCrc p := by
  rw [encodeSegment, if_neg (by rw [maxPayloadLength]; omega)] at hw
  obtain ⟨c, hc, hw⟩ := Res.bind_ok_inv hw
  refine ⟨c, hc, ?_⟩
  by_cases hle : c.length ≤ p.length
  · rw [if_pos hle] at hw; rw [if_pos hle]; exact (Res.pure_ok_inv hw).symm
  · rw [if_neg hle] at hw; rw [if_neg hle]; exact (Res.pure_ok_inv hw).symm

end Cql.Segment
