import Cql.Vint
import Cql.Lemmas.PrimRT
import Cql.Lemmas.NoPanic
/-!
Lemmas about the vint model: the contracts of `bitLen`, the nine magnitude classes of `WriteUnsignedVint`, the
round trip of `ReadUnsignedVint`, and the zig-zag inverse. Kernel-checked with `decide` over the 65 leading-zero
counts and over the first bytes; everything else is `omega`-level arithmetic.
-/
namespace Cql.Vint
open Cql Cql.Prim Cql.Parser

/-! ### `bitLen` contract -/

theorem bitLen_le_iff (n k : Nat) : bitLen n ≤ k ↔ n < 2 ^ k := by
  rw [bitLen]
  by_cases h : n = 0
  · rw [if_pos h, h]; exact ⟨fun _ => Nat.two_pow_pos k, fun _ => Nat.zero_le _⟩
  · rw [if_neg h]
    exact (Nat.log2_lt h)

theorem lt_two_pow_bitLen (n : Nat) : n < 2 ^ bitLen n := (bitLen_le_iff n _).mp (Nat.le_refl _)

theorem two_pow_le_of_lt_bitLen (n k : Nat) (h : k < bitLen n) : 2 ^ k ≤ n := by
  apply Nat.le_of_not_lt
  intro hlt
  have := (bitLen_le_iff n k).mpr hlt
  omega

/-! ### big-endian helpers -/

theorem beBytes_head (k n : Nat) : beBytes (k + 1) n = UInt8.ofNat (n / 256 ^ k % 256) :: beBytes k n := by
  induction k generalizing n with
  | zero => rw [beBytes, beBytes, beBytes, Nat.pow_zero, Nat.div_one]; rfl
  | succ k ih =>
    have : n / 256 / 256 ^ k = n / 256 ^ (k + 1) := by
      rw [Nat.div_div_eq_div_mul, Nat.pow_succ, Nat.mul_comm]
    rw [beBytes, ih, this, beBytes]; rfl

theorem beBytes_congr (k n m : Nat) (h : n % 256 ^ k = m % 256 ^ k) : beBytes k n = beBytes k m := by
  induction k generalizing n m with
  | zero => rfl
  | succ k ih =>
    have hp : 256 ^ (k + 1) = 256 * 256 ^ k := by rw [Nat.pow_succ, Nat.mul_comm]
    rw [hp] at h
    have h1 : n % 256 = m % 256 := by
      have a := Nat.mod_mul_right_mod n 256 (256 ^ k)
      have b := Nat.mod_mul_right_mod m 256 (256 ^ k)
      rw [← a, ← b, h]
    have h2 : n / 256 % 256 ^ k = m / 256 % 256 ^ k := by
      have a := Nat.mod_mul_right_div_self n 256 (256 ^ k)
      have b := Nat.mod_mul_right_div_self m 256 (256 ^ k)
      rw [← a, ← b, h]
    rw [beBytes, beBytes, ih _ _ h2, h1]

theorem readByte_cons (b : UInt8) (rest : Bytes) : readByte.run (b :: rest) = .ok (b.toNat, rest) := by
  rw [readByte, readBE]
  show (if (b :: rest).length < 1 then Res.err "eof" else Res.ok (beNat ((b :: rest).take 1), (b :: rest).drop 1)) = _
  rw [if_neg (by rw [List.length_cons]; omega)]
  show Res.ok (beNat [b], rest) = _
  have : beNat [b] = b.toNat := by
    show 0 * 256 + b.toNat = _
    omega
  rw [this]

/-! ### the nine magnitude classes -/

/-- the table behind `numBytes`, over all 65 possible leading-zero counts -/
theorem numBytes_table : ∀ lz, lz ≤ 64 →
    (max 1 (numBytesOfLz lz) ≤ 9) ∧
    (max 1 (numBytesOfLz lz) ≤ 8 → 64 - lz ≤ 7 * max 1 (numBytesOfLz lz)) ∧
    (2 ≤ numBytesOfLz lz → 7 * (numBytesOfLz lz - 1) < 64 - lz) := by decide

theorem lengthOfUnsignedVint_eq_max (v : Nat) : lengthOfUnsignedVint v = max 1 (numBytes v) := by
  rw [lengthOfUnsignedVint]
  by_cases h : numBytes v ≤ 1
  · rw [if_pos h]; omega
  · rw [if_neg h]; omega

/-- `n = LengthOfUnsignedVint(v)` bytes carry `7n` value bits (all 64 when `n = 9`), and `n` is the least such count -/
theorem vint_class (v : Nat) (hv : v < 18446744073709551616) :
    1 ≤ lengthOfUnsignedVint v ∧ lengthOfUnsignedVint v ≤ 9 ∧
    (lengthOfUnsignedVint v ≤ 8 → v < 2 ^ (7 * lengthOfUnsignedVint v)) ∧
    (2 ≤ lengthOfUnsignedVint v → 2 ^ (7 * (lengthOfUnsignedVint v - 1)) ≤ v) := by
  have hb : bitLen v ≤ 64 := (bitLen_le_iff v 64).mpr hv
  have ht := numBytes_table (leadingZeros64 v) (by rw [leadingZeros64]; omega)
  have hlz : 64 - leadingZeros64 v = bitLen v := by rw [leadingZeros64]; omega
  rw [hlz] at ht
  rw [lengthOfUnsignedVint_eq_max, numBytes]
  refine ⟨by omega, ht.1, fun h => (bitLen_le_iff v _).mp (ht.2.1 h), fun h => ?_⟩
  have h2 : 2 ≤ numBytesOfLz (leadingZeros64 v) := by omega
  have := ht.2.2 h2
  apply two_pow_le_of_lt_bitLen
  have hm : max 1 (numBytesOfLz (leadingZeros64 v)) = numBytesOfLz (leadingZeros64 v) := by omega
  rw [hm]; exact this

/-- facts about the first byte `q ||| mask`, for every count of extra bytes and every admissible payload `q` -/
def firstByteOk (e q : Nat) : Bool :=
  let fb := q ||| firstByteMask e
  decide (fb < 256) && (if e = 0 then decide (fb &&& 128 = 0) else decide (fb &&& 128 ≠ 0)) &&
    decide (remainingBytes fb = e) && decide (fb &&& (255 >>> e) = q) && decide (fb = (256 - 2 ^ (8 - e)) + q)

theorem firstByte_table : ∀ e, e < 9 → ∀ q, q < 2 ^ (7 - e) → firstByteOk e q = true := by decide

theorem firstByte_facts (e q : Nat) (he : e ≤ 8) (hq : q < 2 ^ (7 - e)) :
    (q ||| firstByteMask e) < 256 ∧ (e = 0 → (q ||| firstByteMask e) &&& 128 = 0) ∧
    (e ≠ 0 → (q ||| firstByteMask e) &&& 128 ≠ 0) ∧ remainingBytes (q ||| firstByteMask e) = e ∧
    (q ||| firstByteMask e) &&& (255 >>> e) = q ∧ (q ||| firstByteMask e) = (256 - 2 ^ (8 - e)) + q := by
  have h := firstByte_table e (by omega) q hq
  rw [firstByteOk] at h
  simp only [Bool.and_eq_true, decide_eq_true_eq] at h
  obtain ⟨⟨⟨⟨h1, h2⟩, h3⟩, h4⟩, h5⟩ := h
  refine ⟨h1, fun h0 => ?_, fun h0 => ?_, h3, h4, h5⟩
  · rw [if_pos h0] at h2; exact of_decide_eq_true h2
  · rw [if_neg h0] at h2; exact of_decide_eq_true h2

theorem pow256 (e : Nat) : 256 ^ e = 2 ^ (8 * e) := by
  rw [Nat.pow_mul]

/-- the payload bits left for the first byte -/
theorem vint_top_lt (v e : Nat) (he : e ≤ 8) (hv : v < 18446744073709551616) (h7 : e ≤ 7 → v < 2 ^ (7 * (e + 1))) :
    v / 256 ^ e < 2 ^ (7 - e) := by
  rw [pow256, Nat.div_lt_iff_lt_mul (Nat.two_pow_pos _), ← Nat.pow_add]
  by_cases h : e ≤ 7
  · have : 7 - e + 8 * e = 7 * (e + 1) := by omega
    rw [this]; exact h7 h
  · have : e = 8 := by omega
    subst this; exact hv

/-- `WriteUnsignedVint` in closed form: `e` extra bytes, a first byte holding `e` one-bits, a zero bit (when `e < 8`)
    and the top payload bits, then the `e` low bytes of `v` -/
theorem writeUnsignedVint_eq (v : Nat) (hv : v < 18446744073709551616) :
    writeUnsignedVint v =
      UInt8.ofNat (v / 256 ^ (lengthOfUnsignedVint v - 1) ||| firstByteMask (lengthOfUnsignedVint v - 1)) ::
        beBytes (lengthOfUnsignedVint v - 1) v := by
  have hc := vint_class v hv
  rw [writeUnsignedVint, lengthOfUnsignedVint]
  by_cases h : numBytes v ≤ 1
  · rw [if_pos h, if_pos h]
    have h1 : lengthOfUnsignedVint v = 1 := by rw [lengthOfUnsignedVint, if_pos h]
    have hlt : v < 128 := by have := hc.2.2.1 (by omega); rw [h1] at this; exact this
    have hm : firstByteMask 0 = 0 := by decide
    show [UInt8.ofNat (v % 256)] = [UInt8.ofNat (v / 256 ^ 0 ||| firstByteMask 0)]
    rw [hm, Nat.pow_zero, Nat.div_one, Nat.or_zero, Nat.mod_eq_of_lt (by omega)]
  · rw [if_neg h, if_neg h]
    obtain ⟨e, he⟩ : ∃ e, numBytes v = e + 1 := ⟨numBytes v - 1, by omega⟩
    rw [he, Nat.add_sub_cancel, beBytes_head, orHead]
    have hq : v / 256 ^ e % 256 = v / 256 ^ e := by
      apply Nat.mod_eq_of_lt
      have h1 : lengthOfUnsignedVint v = e + 1 := by rw [lengthOfUnsignedVint, if_neg h, he]
      have := vint_top_lt v e (by omega) hv (fun h7 => by have := hc.2.2.1 (by omega); rw [h1] at this; exact this)
      have h2 : 2 ^ (7 - e) ≤ 2 ^ 7 := Nat.pow_le_pow_right (by decide) (by omega)
      omega
    rw [hq, UInt8.toNat_ofNat', Nat.mod_eq_of_lt (by rw [← hq]; exact Nat.mod_lt _ (by decide))]

theorem writeUnsignedVint_len (v : Nat) (hv : v < 18446744073709551616) :
    (writeUnsignedVint v).length = lengthOfUnsignedVint v := by
  rw [writeUnsignedVint_eq v hv, List.length_cons, beBytes_length]
  have := (vint_class v hv).1
  omega

/-! ### reading back -/

theorem shiftIn_eq_nat (val x : Nat) (hb : x < 256) (h : val * 256 + x < 18446744073709551616) :
    (val <<< 8) % 18446744073709551616 ||| (x &&& 255) = val * 256 + x := by
  have hlt : val * 256 < 18446744073709551616 := Nat.lt_of_le_of_lt (Nat.le_add_right _ _) h
  have h256 : (2 : Nat) ^ 8 = 256 := by decide
  have h1 : x &&& 255 = x := by
    have := Nat.and_two_pow_sub_one_eq_mod x 8
    rw [Nat.mod_eq_of_lt (by rw [h256]; exact hb)] at this
    exact this
  have := Nat.two_pow_add_eq_or_of_lt (by rw [h256]; exact hb) val
  rw [h256] at this
  have hmod : val * 256 % 18446744073709551616 = val * 256 := Nat.mod_eq_of_lt hlt
  rw [h1, Nat.shiftLeft_eq, h256, hmod, Nat.mul_comm]
  exact this.symm

theorem shiftIn_eq (val : Nat) (b : UInt8) (h : val * 256 + b.toNat < 18446744073709551616) :
    shiftIn val b = val * 256 + b.toNat := by
  rw [shiftIn]; exact shiftIn_eq_nat val b.toNat b.toNat_lt h

/-- the read loop accumulates the big-endian tail onto the payload bits of the first byte -/
theorem foldl_shiftIn (k : Nat) : ∀ w q, q * 256 ^ k + w % 256 ^ k < 18446744073709551616 →
    (beBytes k w).foldl shiftIn q = q * 256 ^ k + w % 256 ^ k := by
  induction k with
  | zero => intro w q _; rw [beBytes, Nat.pow_zero, Nat.mod_one]; show q = _; omega
  | succ k ih =>
    intro w q hlt
    have hp : 256 ^ (k + 1) = 256 * 256 ^ k := by rw [Nat.pow_succ, Nat.mul_comm]
    have hm : w % (256 * 256 ^ k) = w % 256 + 256 * (w / 256 % 256 ^ k) := Nat.mod_mul
    rw [hp, hm] at hlt
    rw [hp, hm]
    have hqa : q * (256 * 256 ^ k) = 256 * (q * 256 ^ k) := by
      rw [Nat.mul_left_comm]
    rw [hqa] at hlt
    rw [hqa]
    have hb : (UInt8.ofNat (w % 256)).toNat = w % 256 := by
      rw [UInt8.toNat_ofNat']; exact Nat.mod_eq_of_lt (Nat.mod_lt _ (by decide))
    rw [beBytes, List.foldl_append, ih (w / 256) q (by omega)]
    show shiftIn _ (UInt8.ofNat (w % 256)) = _
    rw [shiftIn_eq _ _ (by rw [hb]; omega), hb]
    omega

theorem readUnsignedVint_RT (v : Nat) (hv : v < 18446744073709551616) (rest : Bytes) :
    readUnsignedVint.run (writeUnsignedVint v ++ rest) = .ok (v, rest) := by
  have hc := vint_class v hv
  rw [writeUnsignedVint_eq v hv]
  obtain ⟨e, he⟩ : ∃ e, lengthOfUnsignedVint v = e + 1 := ⟨lengthOfUnsignedVint v - 1, by omega⟩
  rw [he, Nat.add_sub_cancel]
  have he8 : e ≤ 8 := by omega
  have hq := vint_top_lt v e he8 hv (fun h7 => by have := hc.2.2.1 (by omega); rw [he] at this; exact this)
  obtain ⟨f1, f2, f3, f4, f5, _⟩ := firstByte_facts e _ he8 hq
  rw [readUnsignedVint, List.cons_append, bind_ok (readByte_cons _ _), UInt8.toNat_ofNat', Nat.mod_eq_of_lt f1]
  by_cases h0 : e = 0
  · rw [if_pos (f2 h0)]
    subst h0
    have hm : firstByteMask 0 = 0 := by decide
    rw [hm, Nat.pow_zero, Nat.div_one, Nat.or_zero]
    rfl
  · rw [if_neg (f3 h0), f4, f5]
    show (take e >>= fun tail => pure (tail.foldl shiftIn (v / 256 ^ e))).run (beBytes e v ++ rest) = _
    have hdm : v / 256 ^ e * 256 ^ e + v % 256 ^ e = v := by
      rw [Nat.mul_comm]; exact Nat.div_add_mod v _
    rw [bind_ok (take_RT e _ rest (beBytes_length e v)), foldl_shiftIn e v _ (by rw [hdm]; exact hv), hdm]
    rfl

/-! ### zig-zag -/

/-- `encodeZigZag` arithmetically: non-negative `n` go to `2n`, negative `n` (pattern `x ≥ 2^63`) to `2^65 - 1 - 2x`,
    i.e. `-2n - 1` -/
theorem encodeZigZag_toNat (n : BitVec 64) : (encodeZigZag n).toNat =
    if n.toNat < 9223372036854775808 then 2 * n.toNat else 36893488147419103231 - 2 * n.toNat := by
  rw [encodeZigZag]
  cases hm : n.msb with
  | false =>
    have hlt : n.toNat < 9223372036854775808 := by
      have := (BitVec.msb_eq_false_iff_two_mul_lt (x := n)).mp hm; omega
    rw [BitVec.sshiftRight_eq_of_msb_false hm, if_pos hlt]
    have h0 : n >>> 63 = 0#64 := by
      apply BitVec.eq_of_toNat_eq
      rw [BitVec.toNat_ushiftRight, Nat.shiftRight_eq_div_pow]
      show n.toNat / 9223372036854775808 = 0
      omega
    rw [h0, BitVec.zero_xor, BitVec.toNat_shiftLeft, Nat.shiftLeft_eq]
    show n.toNat * 2 % 18446744073709551616 = _
    omega
  | true =>
    have hge : ¬ n.toNat < 9223372036854775808 := by
      have := (BitVec.msb_eq_true_iff_two_mul_ge (x := n)).mp hm; omega
    rw [BitVec.sshiftRight_eq_of_msb_true hm, if_neg hge]
    have h0 : ~~~n >>> 63 = 0#64 := by
      apply BitVec.eq_of_toNat_eq
      rw [BitVec.toNat_ushiftRight, Nat.shiftRight_eq_div_pow, BitVec.toNat_not]
      show (18446744073709551616 - 1 - n.toNat) / 9223372036854775808 = 0
      omega
    rw [h0]
    have h1 : ~~~(0#64) ^^^ (n <<< 1) = ~~~(n <<< 1) := by
      have : ~~~(0#64) = BitVec.allOnes 64 := by decide
      rw [this, BitVec.allOnes_xor]
    rw [h1, BitVec.toNat_not, BitVec.toNat_shiftLeft, Nat.shiftLeft_eq]
    show 18446744073709551616 - 1 - n.toNat * 2 % 18446744073709551616 = _
    have := n.isLt
    omega

theorem decodeZigZag_encodeZigZag (n : BitVec 64) : decodeZigZag (encodeZigZag n) = n := by
  have he := encodeZigZag_toNat n
  generalize encodeZigZag n = m at he
  rw [decodeZigZag]
  have hand : (m &&& 1#64).toNat = m.toNat % 2 := by
    rw [BitVec.toNat_and]; exact Nat.and_one_is_mod _
  have hn := n.isLt
  by_cases hlt : n.toNat < 9223372036854775808
  · rw [if_pos hlt] at he
    have h1 : m &&& 1#64 = 0#64 := by
      apply BitVec.eq_of_toNat_eq; rw [hand, he]; show _ = 0; omega
    rw [h1]
    have h2 : -(0#64) = 0#64 := by decide
    rw [h2, BitVec.xor_zero]
    apply BitVec.eq_of_toNat_eq
    rw [BitVec.toNat_ushiftRight, Nat.shiftRight_eq_div_pow, he]
    show 2 * n.toNat / 2 = _
    omega
  · rw [if_neg hlt] at he
    have h1 : m &&& 1#64 = 1#64 := by
      apply BitVec.eq_of_toNat_eq; rw [hand, he]; show _ = 1; omega
    rw [h1, BitVec.neg_one_eq_allOnes, BitVec.xor_allOnes]
    apply BitVec.eq_of_toNat_eq
    rw [BitVec.toNat_not, BitVec.toNat_ushiftRight, Nat.shiftRight_eq_div_pow, he]
    show 18446744073709551616 - 1 - (36893488147419103231 - 2 * n.toNat) / 2 = _
    omega

theorem readVint_RT (n : BitVec 64) (rest : Bytes) : readVint.run (writeVint n ++ rest) = .ok (n, rest) := by
  rw [readVint, writeVint, bind_ok (readUnsignedVint_RT _ (encodeZigZag n).isLt rest), BitVec.ofNat_toNat,
    BitVec.setWidth_eq, decodeZigZag_encodeZigZag]
  rfl

theorem writeVint_len (n : BitVec 64) : (writeVint n).length = lengthOfVint n := by
  rw [writeVint, lengthOfVint]; exact writeUnsignedVint_len _ (encodeZigZag n).isLt

/-! ### no panic -/

theorem NoPanic.readUnsignedVint : NoPanic readUnsignedVint := by
  rw [Vint.readUnsignedVint]; no_panic

theorem NoPanic.readVint : NoPanic readVint := by
  rw [Vint.readVint]; no_panic [NoPanic.readUnsignedVint]

end Cql.Vint
