import Cql.Prim
/-!
Round-trip (`*_RT`) and length (`*_len`) lemmas for the primitive notations. Style: `rw` with propositional
equation lemmas and `Parser.bind_ok`; no `unfold` / `simp only [f]` on model functions (see DESIGN.md §7).
-/
namespace Cql.Prim
open Cql Cql.Parser

/-! ### big-endian core -/

theorem beBytes_length (k n : Nat) : (beBytes k n).length = k := by
  induction k generalizing n with
  | zero => rfl
  | succ k ih => rw [beBytes, List.length_append, ih]; rfl

theorem beNat_append_single (bs : Bytes) (b : UInt8) : beNat (bs ++ [b]) = beNat bs * 256 + b.toNat := by
  rw [beNat, List.foldl_append]; rfl

theorem beNat_beBytes (k n : Nat) : beNat (beBytes k n) = n % 256 ^ k := by
  induction k generalizing n with
  | zero => rw [beBytes, Nat.pow_zero, Nat.mod_one]; rfl
  | succ k ih =>
    rw [beBytes, beNat_append_single, ih]
    have h : (UInt8.ofNat (n % 256)).toNat = n % 256 := by
      rw [UInt8.toNat_ofNat']; exact Nat.mod_eq_of_lt (Nat.mod_lt _ (by decide))
    rw [h, Nat.pow_succ]
    have := Nat.mod_mul_right_div_self n 256 (256 ^ k)
    have h2 : n % (256 ^ k * 256) = n % (256 * 256 ^ k) := by rw [Nat.mul_comm]
    rw [h2, Nat.mod_mul, Nat.mul_comm, Nat.add_comm]

theorem take_append_run (b rest : Bytes) : (take b.length).run (b ++ rest) = .ok (b, rest) := by
  rw [take]
  show (if (b ++ rest).length < b.length then _ else _) = _
  rw [if_neg (by rw [List.length_append]; omega), List.take_left', List.drop_left']
  · rfl
  · rfl

theorem take_RT (k : Nat) (b rest : Bytes) (h : b.length = k) : (take k).run (b ++ rest) = .ok (b, rest) := by
  subst h; exact take_append_run b rest

theorem readBE_RT (k n : Nat) (h : n < 256 ^ k) (rest : Bytes) :
    (readBE k).run (beBytes k n ++ rest) = .ok (n, rest) := by
  rw [readBE]
  show (if (beBytes k n ++ rest).length < k then _ else _) = _
  have hl := beBytes_length k n
  rw [if_neg (by rw [List.length_append, hl]; omega)]
  have h1 : (beBytes k n ++ rest).take k = beBytes k n := List.take_left' hl
  have h2 : (beBytes k n ++ rest).drop k = rest := List.drop_left' hl
  rw [h1, h2, beNat_beBytes, Nat.mod_eq_of_lt h]

theorem readByte_RT (n : Nat) (h : n < 256) (rest : Bytes) : readByte.run (writeByte n ++ rest) = .ok (n, rest) := by
  rw [readByte, writeByte]; exact readBE_RT 1 n (by omega) rest
theorem readShort_RT (n : Nat) (h : n < 65536) (rest : Bytes) : readShort.run (writeShort n ++ rest) = .ok (n, rest) := by
  rw [readShort, writeShort]; exact readBE_RT 2 n (by omega) rest
theorem readInt_RT (n : Nat) (h : n < 4294967296) (rest : Bytes) : readInt.run (writeInt n ++ rest) = .ok (n, rest) := by
  rw [readInt, writeInt]; exact readBE_RT 4 n (by omega) rest
theorem readLong_RT (n : Nat) (h : n < 18446744073709551616) (rest : Bytes) :
    readLong.run (writeLong n ++ rest) = .ok (n, rest) := by
  rw [readLong, writeLong]; exact readBE_RT 8 n (by omega) rest

theorem writeByte_len (n : Nat) : (writeByte n).length = 1 := by rw [writeByte]; exact beBytes_length 1 n
theorem writeShort_len (n : Nat) : (writeShort n).length = 2 := by rw [writeShort]; exact beBytes_length 2 n
theorem writeInt_len (n : Nat) : (writeInt n).length = 4 := by rw [writeInt]; exact beBytes_length 4 n
theorem writeLong_len (n : Nat) : (writeLong n).length = 8 := by rw [writeLong]; exact beBytes_length 8 n

/-! ### [string], [long string], [bytes], [short bytes] -/

theorem readString_RT (s : Bytes) (h : s.length < 65536) (rest : Bytes) :
    readString.run (writeString s ++ rest) = .ok (s, rest) := by
  rw [readString, writeString, Nat.mod_eq_of_lt h, List.append_assoc, bind_ok (readShort_RT _ h _)]
  exact take_append_run s rest

theorem writeString_len (s : Bytes) : (writeString s).length = lengthOfString s := by
  rw [writeString, List.length_append, writeShort_len, lengthOfString]; rfl

theorem readLongString_RT (s : Bytes) (h : s.length < 2147483648) (rest : Bytes) :
    readLongString.run (writeLongString s ++ rest) = .ok (s, rest) := by
  have h' : s.length < 4294967296 := by omega
  rw [readLongString, writeLongString, Nat.mod_eq_of_lt h', List.append_assoc, bind_ok (readInt_RT _ h' _)]
  have hn : isNeg32 s.length = false := by rw [isNeg32]; exact decide_eq_false (by omega)
  rw [hn]
  exact take_append_run s rest

theorem writeLongString_len (s : Bytes) : (writeLongString s).length = lengthOfLongString s := by
  rw [writeLongString, List.length_append, writeInt_len, lengthOfLongString]; rfl

/-- nil stays nil, empty stays empty (the wire carries the distinction) -/
theorem readBytes_RT (b : Option Bytes) (h : ∀ c, b = some c → c.length < 2147483648) (rest : Bytes) :
    readBytes.run (writeBytes b ++ rest) = .ok (b, rest) := by
  cases b with
  | none =>
    rw [readBytes, writeBytes, bind_ok (readInt_RT _ (by decide) _)]
    have hn : isNeg32 4294967295 = true := by decide
    rw [hn]; rfl
  | some c =>
    have hc := h c rfl
    have h' : c.length < 4294967296 := by omega
    rw [readBytes, writeBytes, Nat.mod_eq_of_lt h', List.append_assoc, bind_ok (readInt_RT _ h' _)]
    have hn : isNeg32 c.length = false := by rw [isNeg32]; exact decide_eq_false (by omega)
    rw [hn]
    by_cases h0 : c.length = 0
    · have : c = [] := List.length_eq_zero_iff.mp h0
      subst this; rfl
    · rw [if_neg h0]
      show ((take c.length) >>= fun b => pure (some b)).run (c ++ rest) = _
      rw [bind_ok (take_append_run c rest)]; rfl

theorem writeBytes_len (b : Option Bytes) : (writeBytes b).length = lengthOfBytes b := by
  cases b with
  | none => rw [writeBytes, writeInt_len, lengthOfBytes]; rfl
  | some c => rw [writeBytes, List.length_append, writeInt_len, lengthOfBytes]; rfl

/-- `[short bytes]` cannot carry nil: nil reads back as empty -/
theorem readShortBytes_RT (b : Option Bytes) (h : (b.getD []).length < 65536) (rest : Bytes) :
    readShortBytes.run (writeShortBytes b ++ rest) = .ok (some (b.getD []), rest) := by
  rw [readShortBytes, writeShortBytes]
  show (readShort >>= _).run (writeShort ((b.getD []).length % 65536) ++ b.getD [] ++ rest) = _
  rw [Nat.mod_eq_of_lt h, List.append_assoc, bind_ok (readShort_RT _ h _)]
  by_cases h0 : (b.getD []).length = 0
  · have : b.getD [] = [] := List.length_eq_zero_iff.mp h0
    rw [this]; rfl
  · rw [if_neg h0]
    show ((take (b.getD []).length) >>= fun x => pure (some x)).run (b.getD [] ++ rest) = _
    rw [bind_ok (take_append_run _ rest)]; rfl

theorem writeShortBytes_len (b : Option Bytes) : (writeShortBytes b).length = lengthOfShortBytes b := by
  rw [writeShortBytes, lengthOfShortBytes]
  show (writeShort _ ++ b.getD []).length = _
  rw [List.length_append, writeShort_len]; rfl

/-! ### counted repetition -/

theorem readN_RT {α β} (p : Parser β) (w : α → Bytes) (c : α → β) (l : List α)
    (h : ∀ x ∈ l, ∀ rest, p.run (w x ++ rest) = .ok (c x, rest)) (rest : Bytes) :
    (readN l.length p).run ((l.map w).flatten ++ rest) = .ok (l.map c, rest) := by
  induction l with
  | nil => rfl
  | cons x xs ih =>
    rw [List.length_cons, readN, List.map_cons, List.flatten_cons, List.append_assoc,
      bind_ok (h x List.mem_cons_self _),
      bind_ok (ih (fun y hy => h y (List.mem_cons_of_mem _ hy)))]
    rfl

theorem readN_RT_id {α} (p : Parser α) (w : α → Bytes) (l : List α)
    (h : ∀ x ∈ l, ∀ rest, p.run (w x ++ rest) = .ok (x, rest)) (rest : Bytes) :
    (readN l.length p).run ((l.map w).flatten ++ rest) = .ok (l, rest) := by
  have := readN_RT p w id l h rest
  rwa [List.map_id] at this

theorem flatten_map_length {α} (w : α → Bytes) (len : α → Nat) (l : List α) (h : ∀ x ∈ l, (w x).length = len x) :
    ((l.map w).flatten).length = (l.map len).sum := by
  induction l with
  | nil => rfl
  | cons x xs ih =>
    rw [List.map_cons, List.flatten_cons, List.length_append, List.map_cons, List.sum_cons,
      h x List.mem_cons_self, ih (fun y hy => h y (List.mem_cons_of_mem _ hy))]

/-! ### [string list] and the maps -/

theorem readStringList_RT (l : List Bytes) (hl : l.length < 65536) (hs : ∀ s ∈ l, s.length < 65536) (rest : Bytes) :
    readStringList.run (writeStringList l ++ rest) = .ok (l, rest) := by
  rw [readStringList, writeStringList, Nat.mod_eq_of_lt hl, List.append_assoc, bind_ok (readShort_RT _ hl _)]
  exact readN_RT_id readString writeString l (fun s h r => readString_RT s (hs s h) r) rest

theorem writeStringList_len (l : List Bytes) : (writeStringList l).length = lengthOfStringList l := by
  rw [writeStringList, List.length_append, writeShort_len, lengthOfStringList,
    flatten_map_length writeString lengthOfString l (fun s _ => writeString_len s)]; rfl

theorem readStringPair_RT (p : Bytes × Bytes) (h1 : p.1.length < 65536) (h2 : p.2.length < 65536) (rest : Bytes) :
    readStringPair.run (writeStringPair p ++ rest) = .ok (p, rest) := by
  rw [readStringPair, writeStringPair, List.append_assoc, bind_ok (readString_RT _ h1 _),
    bind_ok (readString_RT _ h2 _)]; rfl

theorem readStringMap_RT (m : List (Bytes × Bytes)) (hl : m.length < 65536)
    (hs : ∀ p ∈ m, p.1.length < 65536 ∧ p.2.length < 65536) (rest : Bytes) :
    readStringMap.run (writeStringMap m ++ rest) = .ok (m, rest) := by
  rw [readStringMap, writeStringMap, Nat.mod_eq_of_lt hl, List.append_assoc, bind_ok (readShort_RT _ hl _)]
  exact readN_RT_id readStringPair writeStringPair m (fun p h r => readStringPair_RT p (hs p h).1 (hs p h).2 r) rest

theorem writeStringMap_len (m : List (Bytes × Bytes)) : (writeStringMap m).length = lengthOfStringMap m := by
  rw [writeStringMap, List.length_append, writeShort_len, lengthOfStringMap,
    flatten_map_length writeStringPair (fun p => lengthOfString p.1 + lengthOfString p.2) m
      (fun p _ => by rw [writeStringPair, List.length_append, writeString_len, writeString_len])]; rfl

theorem readStringMultiPair_RT (p : Bytes × List Bytes) (h1 : p.1.length < 65536) (h2 : p.2.length < 65536)
    (h3 : ∀ s ∈ p.2, s.length < 65536) (rest : Bytes) :
    readStringMultiPair.run (writeStringMultiPair p ++ rest) = .ok (p, rest) := by
  rw [readStringMultiPair, writeStringMultiPair, List.append_assoc, bind_ok (readString_RT _ h1 _),
    bind_ok (readStringList_RT _ h2 h3 _)]; rfl

theorem readStringMultiMap_RT (m : List (Bytes × List Bytes)) (hl : m.length < 65536)
    (hs : ∀ p ∈ m, p.1.length < 65536 ∧ p.2.length < 65536 ∧ ∀ s ∈ p.2, s.length < 65536) (rest : Bytes) :
    readStringMultiMap.run (writeStringMultiMap m ++ rest) = .ok (m, rest) := by
  rw [readStringMultiMap, writeStringMultiMap, Nat.mod_eq_of_lt hl, List.append_assoc, bind_ok (readShort_RT _ hl _)]
  exact readN_RT_id readStringMultiPair writeStringMultiPair m
    (fun p h r => readStringMultiPair_RT p (hs p h).1 (hs p h).2.1 (hs p h).2.2 r) rest

theorem writeStringMultiMap_len (m : List (Bytes × List Bytes)) :
    (writeStringMultiMap m).length = lengthOfStringMultiMap m := by
  rw [writeStringMultiMap, List.length_append, writeShort_len, lengthOfStringMultiMap,
    flatten_map_length writeStringMultiPair (fun p => lengthOfString p.1 + lengthOfStringList p.2) m
      (fun p _ => by rw [writeStringMultiPair, List.length_append, writeString_len, writeStringList_len])]; rfl

theorem readBytesPair_RT (p : Bytes × Option Bytes) (h1 : p.1.length < 65536)
    (h2 : ∀ c, p.2 = some c → c.length < 2147483648) (rest : Bytes) :
    readBytesPair.run (writeBytesPair p ++ rest) = .ok (p, rest) := by
  rw [readBytesPair, writeBytesPair, List.append_assoc, bind_ok (readString_RT _ h1 _),
    bind_ok (readBytes_RT _ h2 _)]; rfl

theorem readBytesMap_RT (m : List (Bytes × Option Bytes)) (hl : m.length < 65536)
    (hs : ∀ p ∈ m, p.1.length < 65536 ∧ ∀ c, p.2 = some c → c.length < 2147483648) (rest : Bytes) :
    readBytesMap.run (writeBytesMap m ++ rest) = .ok (m, rest) := by
  rw [readBytesMap, writeBytesMap, Nat.mod_eq_of_lt hl, List.append_assoc, bind_ok (readShort_RT _ hl _)]
  exact readN_RT_id readBytesPair writeBytesPair m (fun p h r => readBytesPair_RT p (hs p h).1 (hs p h).2 r) rest

theorem writeBytesMap_len (m : List (Bytes × Option Bytes)) : (writeBytesMap m).length = lengthOfBytesMap m := by
  rw [writeBytesMap, List.length_append, writeShort_len, lengthOfBytesMap,
    flatten_map_length writeBytesPair (fun p => lengthOfString p.1 + lengthOfBytes p.2) m
      (fun p _ => by rw [writeBytesPair, List.length_append, writeString_len, writeBytes_len])]; rfl

end Cql.Prim

namespace Cql.Prim
open Cql Cql.Parser

/-! ### fallible element writers -/

theorem readN_writeAll_RT {α β} (p : Parser β) (w : α → Res Bytes) (c : α → β) (l : List α)
    (h : ∀ x ∈ l, ∀ b, w x = .ok b → ∀ rest, p.run (b ++ rest) = .ok (c x, rest)) :
    ∀ bs, writeAll w l = .ok bs → ∀ rest, (readN l.length p).run (bs ++ rest) = .ok (l.map c, rest) := by
  induction l with
  | nil =>
    intro bs hw rest
    rw [writeAll] at hw
    rw [← Res.ok_inj hw]; rfl
  | cons x xs ih =>
    intro bs hw rest
    rw [writeAll] at hw
    obtain ⟨a, ha, hw⟩ := Res.bind_ok_inv hw
    obtain ⟨b, hb, hw⟩ := Res.bind_ok_inv hw
    rw [← Res.pure_ok_inv hw, List.length_cons, readN, List.append_assoc,
      bind_ok (h x List.mem_cons_self a ha _),
      bind_ok (ih (fun y hy => h y (List.mem_cons_of_mem _ hy)) b hb rest)]
    rfl

theorem sumAll_writeAll_len {α} (w : α → Res Bytes) (len : α → Res Nat) (l : List α)
    (h : ∀ x ∈ l, ∀ b, w x = .ok b → len x = .ok b.length) :
    ∀ bs, writeAll w l = .ok bs → sumAll len l = .ok bs.length := by
  induction l with
  | nil =>
    intro bs hw
    rw [writeAll] at hw
    rw [← Res.ok_inj hw]; rfl
  | cons x xs ih =>
    intro bs hw
    rw [writeAll] at hw
    obtain ⟨a, ha, hw⟩ := Res.bind_ok_inv hw
    obtain ⟨b, hb, hw⟩ := Res.bind_ok_inv hw
    rw [← Res.pure_ok_inv hw, sumAll, h x List.mem_cons_self a ha,
      ih (fun y hy => h y (List.mem_cons_of_mem _ hy)) b hb, List.length_append]
    rfl

/-! ### [uuid] -/

theorem readUuid_RT (u : Option Bytes) (b : Bytes) (hw : writeUuid u = .ok b) (hl : b.length = 16) (rest : Bytes) :
    readUuid.run (b ++ rest) = .ok (b, rest) := by
  rw [readUuid]; exact take_RT 16 b rest hl

theorem writeUuid_ok (u : Option Bytes) (b : Bytes) (hw : writeUuid u = .ok b) : u = some b := by
  cases u with
  | none => rw [writeUuid] at hw; cases hw
  | some x => rw [writeUuid] at hw; rw [Res.ok_inj hw]

/-! ### [inetaddr], [inet] -/

/-- an address as it reads back: IPv4 (held in 4 or 16 bytes) in its 16-byte form -/
def canonIp (ip : Bytes) : Bytes :=
  match to4 ip with
  | some b4 => v4InV6Prefix ++ b4
  | none => ip

def validIp (ip : Bytes) : Prop := ip.length = 4 ∨ ip.length = 16

theorem to4_length (ip b4 : Bytes) (h : to4 ip = some b4) : b4.length = 4 := by
  rw [to4] at h
  by_cases h4 : ip.length = 4
  · rw [if_pos h4] at h; cases h; exact h4
  · rw [if_neg h4] at h
    by_cases h16 : ip.length = 16 ∧ ip.take 12 = v4InV6Prefix
    · rw [if_pos h16] at h; cases h; rw [List.length_drop, h16.1]
    · rw [if_neg h16] at h; cases h

theorem readInetAddr_RT (ip : Bytes) (hv : validIp ip) (b : Bytes) (hw : writeInetAddr (some ip) = .ok b) (rest : Bytes) :
    readInetAddr.run (b ++ rest) = .ok (canonIp ip, rest) := by
  rw [writeInetAddr] at hw
  rw [canonIp]
  cases h4 : to4 ip with
  | some b4 =>
    rw [h4] at hw
    have hw := Res.ok_inj hw
    rw [← hw, readInetAddr, List.append_assoc, bind_ok (readByte_RT 4 (by decide) _), if_pos rfl,
      bind_ok (take_RT 4 b4 rest (to4_length ip b4 h4))]
    rfl
  | none =>
    rw [h4] at hw
    have h16 : ip.length = 16 := by
      rcases hv with h | h
      · rw [to4, if_pos h] at h4; cases h4
      · exact h
    have ht : to16 ip = some ip := by
      rw [to16, if_neg (by omega), if_pos h16]
    simp only [ht] at hw
    have hw := Res.ok_inj hw
    rw [← hw, readInetAddr, List.append_assoc, bind_ok (readByte_RT 16 (by decide) _), if_neg (by decide), if_pos rfl]
    exact take_RT 16 ip rest h16

theorem writeInetAddr_len (ip : Option Bytes) (hv : ∀ x, ip = some x → validIp x) (b : Bytes) (hw : writeInetAddr ip = .ok b) :
    lengthOfInetAddr ip = .ok b.length := by
  cases ip with
  | none => rw [writeInetAddr] at hw; cases hw
  | some x =>
    rw [writeInetAddr] at hw
    rw [lengthOfInetAddr]
    cases h4 : to4 x with
    | some b4 =>
      rw [h4] at hw
      rw [← Res.ok_inj hw, List.length_append, writeByte_len, to4_length x b4 h4]; rfl
    | none =>
      rw [h4] at hw
      have h16 : x.length = 16 := by
        rcases hv x rfl with h | h
        · rw [to4, if_pos h] at h4; cases h4
        · exact h
      have ht : to16 x = some x := by rw [to16, if_neg (by omega), if_pos h16]
      simp only [ht] at hw
      rw [← Res.ok_inj hw, List.length_append, writeByte_len]
      show _ = Res.ok (1 + x.length)
      rw [h16]; rfl

/-- the writer refuses no address of a legal length -/
theorem writeInetAddr_ok (ip : Bytes) (hv : validIp ip) : ∃ b, writeInetAddr (some ip) = .ok b := by
  rw [writeInetAddr]
  cases h4 : to4 ip with
  | some b4 => exact ⟨_, rfl⟩
  | none =>
    have h16 : ip.length = 16 := by
      rcases hv with h | h
      · rw [to4, if_pos h] at h4; cases h4
      · exact h
    have ht : to16 ip = some ip := by rw [to16, if_neg (by omega), if_pos h16]
    simp only [ht]; exact ⟨_, rfl⟩

def canonInet (i : Inet) : Inet := { addr := i.addr.map canonIp, port := i.port }

theorem readInet_RT (i : Inet) (ip : Bytes) (hip : i.addr = some ip) (hv : validIp ip) (hp : i.port < 4294967296)
    (b : Bytes) (hw : writeInet (some i) = .ok b) (rest : Bytes) :
    readInet.run (b ++ rest) = .ok (canonInet i, rest) := by
  rw [writeInet] at hw
  obtain ⟨a, ha, hw⟩ := Res.bind_ok_inv hw
  rw [hip] at ha
  rw [← Res.pure_ok_inv hw, readInet, List.append_assoc, bind_ok (readInetAddr_RT ip hv a ha _),
    bind_ok (readInt_RT _ hp _), canonInet, hip]
  rfl

theorem writeInet_len (i : Option Inet) (hv : ∀ x ip, i = some x → x.addr = some ip → validIp ip) (b : Bytes)
    (hw : writeInet i = .ok b) : lengthOfInet i = .ok b.length := by
  cases i with
  | none => rw [writeInet] at hw; cases hw
  | some x =>
    rw [writeInet] at hw
    obtain ⟨a, ha, hw⟩ := Res.bind_ok_inv hw
    rw [lengthOfInet, writeInetAddr_len x.addr (fun ip h => hv x ip rfl h) a ha, ← Res.pure_ok_inv hw,
      List.length_append, writeInt_len]
    rfl

/-! ### [value] -/

/-- a regular value with nil contents is written as null and reads back as null
    (`NewValue(nil)` itself makes that identification) -/
def canonValue : Value → Value
  | .regular none => .null
  | v => v

def validValue (version : Nat) : Option Value → Prop
  | none => False
  | some (.regular (some b)) => b.length < 2147483648
  | some (.regular none) => True
  | some .null => True
  | some .unset => version ≥ Gen.ProtocolVersion4
  | some (.other _) => False

theorem readValue_RT (version : Nat) (v : Value) (b : Bytes) (hw : writeValue version (some v) = .ok b)
    (hv : validValue version (some v)) (rest : Bytes) :
    (readValue version).run (b ++ rest) = .ok (canonValue v, rest) := by
  cases v with
  | null =>
    rw [writeValue] at hw
    rw [← Res.ok_inj hw, readValue, bind_ok (readInt_RT _ (by decide) _), if_pos rfl]; rfl
  | unset =>
    rw [writeValue] at hw
    have hv' : version ≥ Gen.ProtocolVersion4 := hv
    have hs : Gen.ProtocolVersion_SupportsUnsetValues version = true := by
      rw [Gen.ProtocolVersion_SupportsUnsetValues]; exact decide_eq_true hv'
    rw [hs, if_pos rfl] at hw
    rw [← Res.ok_inj hw, readValue, bind_ok (readInt_RT _ (by decide) _), if_neg (by decide), if_pos rfl,
      if_neg (by omega)]
    rfl
  | regular c =>
    cases c with
    | none =>
      rw [writeValue] at hw
      rw [← Res.ok_inj hw, readValue, bind_ok (readInt_RT _ (by decide) _), if_pos rfl]; rfl
    | some c =>
      rw [writeValue] at hw
      have hc : c.length < 2147483648 := hv
      have h' : c.length < 4294967296 := by omega
      rw [Nat.mod_eq_of_lt h'] at hw
      rw [← Res.ok_inj hw, readValue, List.append_assoc, bind_ok (readInt_RT _ h' _), if_neg (by omega),
        if_neg (by omega)]
      have hn : isNeg32 c.length = false := by rw [isNeg32]; exact decide_eq_false (by omega)
      rw [hn]
      by_cases h0 : c.length = 0
      · have : c = [] := List.length_eq_zero_iff.mp h0
        subst this; rfl
      · rw [if_neg h0]
        show ((take c.length) >>= fun b => pure (Value.regular (some b))).run (c ++ rest) = _
        rw [bind_ok (take_append_run c rest)]; rfl
  | other t => rw [writeValue] at hw; cases hw

theorem writeValue_len (version : Nat) (v : Option Value) (b : Bytes) (hw : writeValue version v = .ok b) :
    lengthOfValue v = .ok b.length := by
  cases v with
  | none => rw [writeValue] at hw; cases hw
  | some v =>
    cases v with
    | null => rw [writeValue] at hw; rw [← Res.ok_inj hw, lengthOfValue, writeInt_len]; rfl
    | unset =>
      rw [writeValue] at hw
      cases hs : Gen.ProtocolVersion_SupportsUnsetValues version with
      | true => rw [hs, if_pos rfl] at hw; rw [← Res.ok_inj hw, lengthOfValue, writeInt_len]; rfl
      | false => rw [hs, if_neg (by decide)] at hw; cases hw
    | regular c =>
      cases c with
      | none => rw [writeValue] at hw; rw [← Res.ok_inj hw, lengthOfValue, writeInt_len]; rfl
      | some c =>
        rw [writeValue] at hw
        rw [← Res.ok_inj hw, lengthOfValue, List.length_append, writeInt_len]; rfl
    | other t => rw [writeValue] at hw; cases hw

theorem readPositionalValues_RT (version : Nat) (vs : List (Option Value)) (hl : vs.length < 65536)
    (hv : ∀ v ∈ vs, validValue version v) (b : Bytes) (hw : writePositionalValues version vs = .ok b) (rest : Bytes) :
    (readPositionalValues version).run (b ++ rest) = .ok (vs.map (Option.map canonValue), rest) := by
  rw [writePositionalValues] at hw
  obtain ⟨body, hb, hw⟩ := Res.bind_ok_inv hw
  rw [← Res.pure_ok_inv hw, Nat.mod_eq_of_lt hl, readPositionalValues, List.append_assoc,
    bind_ok (readShort_RT _ hl _)]
  refine readN_writeAll_RT (some <$> readValue version) (writeValue version) (Option.map canonValue) vs ?_ body hb rest
  intro x hx bx hbx r
  cases x with
  | none => rw [writeValue] at hbx; cases hbx
  | some v =>
    rw [map_run, readValue_RT version v bx hbx (hv _ hx) r]; rfl

theorem writePositionalValues_len (version : Nat) (vs : List (Option Value)) (b : Bytes)
    (hw : writePositionalValues version vs = .ok b) : lengthOfPositionalValues vs = .ok b.length := by
  rw [writePositionalValues] at hw
  obtain ⟨body, hb, hw⟩ := Res.bind_ok_inv hw
  rw [lengthOfPositionalValues, sumAll_writeAll_len (writeValue version) lengthOfValue vs
    (fun x _ bx hbx => writeValue_len version x bx hbx) body hb, ← Res.pure_ok_inv hw, List.length_append, writeShort_len]
  rfl

theorem readNamedValues_RT (version : Nat) (vs : List (Bytes × Option Value)) (hl : vs.length < 65536)
    (hv : ∀ p ∈ vs, p.1.length < 65536 ∧ validValue version p.2) (b : Bytes)
    (hw : writeNamedValues version vs = .ok b) (rest : Bytes) :
    (readNamedValues version).run (b ++ rest) = .ok (vs.map (fun p => (p.1, p.2.map canonValue)), rest) := by
  rw [writeNamedValues] at hw
  obtain ⟨body, hb, hw⟩ := Res.bind_ok_inv hw
  rw [← Res.pure_ok_inv hw, Nat.mod_eq_of_lt hl, readNamedValues, List.append_assoc,
    bind_ok (readShort_RT _ hl _)]
  refine readN_writeAll_RT (readNamedValue version) (writeNamedValue version) (fun p => (p.1, p.2.map canonValue)) vs ?_ body hb rest
  intro x hx bx hbx r
  rw [writeNamedValue] at hbx
  obtain ⟨vb, hvb, hbx⟩ := Res.bind_ok_inv hbx
  obtain ⟨k, v⟩ := x
  cases v with
  | none => rw [writeValue] at hvb; cases hvb
  | some v =>
    rw [← Res.pure_ok_inv hbx, readNamedValue, List.append_assoc, bind_ok (readString_RT k (hv _ hx).1 _),
      bind_ok (readValue_RT version v vb hvb (hv _ hx).2 r)]
    rfl

theorem writeNamedValues_len (version : Nat) (vs : List (Bytes × Option Value)) (b : Bytes)
    (hw : writeNamedValues version vs = .ok b) : lengthOfNamedValues vs = .ok b.length := by
  rw [writeNamedValues] at hw
  obtain ⟨body, hb, hw⟩ := Res.bind_ok_inv hw
  rw [lengthOfNamedValues, sumAll_writeAll_len (writeNamedValue version) _ vs ?_ body hb, ← Res.pure_ok_inv hw,
    List.length_append, writeShort_len]
  · rfl
  · intro x _ bx hbx
    rw [writeNamedValue] at hbx
    obtain ⟨vb, hvb, hbx⟩ := Res.bind_ok_inv hbx
    show (lengthOfValue x.2 >>= fun v => pure (lengthOfString x.1 + v)) = _
    rw [writeValue_len version x.2 vb hvb, ← Res.pure_ok_inv hbx, List.length_append, writeString_len]
    rfl

/-! ### reason map -/

def canonReason (r : FailureReason) : FailureReason := { endpoint := r.endpoint.map canonIp, code := r.code }

theorem readFailureReason_RT (r : FailureReason) (ip : Bytes) (hip : r.endpoint = some ip) (hv : validIp ip)
    (b : Bytes) (hw : writeFailureReason r = .ok b) (rest : Bytes) :
    readFailureReason.run (b ++ rest) = .ok (canonReason r, rest) := by
  rw [writeFailureReason] at hw
  obtain ⟨a, ha, hw⟩ := Res.bind_ok_inv hw
  rw [hip] at ha
  cases hc : Gen.FailureCode_IsValid r.code with
  | false => rw [hc, if_neg (by decide)] at hw; cases hw
  | true =>
    rw [hc, if_pos rfl] at hw
    have hlt : r.code < 65536 := by
      have : ∀ x ∈ Gen.FailureCode_IsValid_cases, x < 65536 := by decide
      exact this _ (by simpa [Gen.FailureCode_IsValid] using hc)
    rw [← Res.pure_ok_inv hw, readFailureReason, List.append_assoc, bind_ok (readInetAddr_RT ip hv a ha _),
      bind_ok (readShort_RT _ hlt _), hc, if_pos rfl, canonReason, hip]
    rfl

theorem readReasonMap_RT (m : List FailureReason) (hl : m.length < 2147483648)
    (hv : ∀ r ∈ m, ∃ ip, r.endpoint = some ip ∧ validIp ip) (b : Bytes) (hw : writeReasonMap m = .ok b) (rest : Bytes) :
    readReasonMap.run (b ++ rest) = .ok (m.map canonReason, rest) := by
  rw [writeReasonMap] at hw
  obtain ⟨body, hb, hw⟩ := Res.bind_ok_inv hw
  have hl' : m.length < 4294967296 := by omega
  rw [← Res.pure_ok_inv hw, Nat.mod_eq_of_lt hl', readReasonMap, List.append_assoc, bind_ok (readInt_RT _ hl' _)]
  have hn : isNeg32 m.length = false := by rw [isNeg32]; exact decide_eq_false (by omega)
  rw [hn]
  refine readN_writeAll_RT readFailureReason writeFailureReason canonReason m ?_ body hb rest
  intro x hx bx hbx r
  obtain ⟨ip, hip, hvip⟩ := hv x hx
  exact readFailureReason_RT x ip hip hvip bx hbx r

theorem writeReasonMap_len (m : List FailureReason) (hv : ∀ r ∈ m, ∀ ip, r.endpoint = some ip → validIp ip)
    (b : Bytes) (hw : writeReasonMap m = .ok b) : lengthOfReasonMap m = .ok b.length := by
  rw [writeReasonMap] at hw
  obtain ⟨body, hb, hw⟩ := Res.bind_ok_inv hw
  rw [lengthOfReasonMap, sumAll_writeAll_len writeFailureReason _ m ?_ body hb, ← Res.pure_ok_inv hw,
    List.length_append, writeInt_len]
  · rfl
  · intro x hx bx hbx
    rw [writeFailureReason] at hbx
    obtain ⟨a, ha, hbx⟩ := Res.bind_ok_inv hbx
    show (lengthOfInetAddr x.endpoint >>= fun a => pure (a + lengthOfShort)) = _
    rw [writeInetAddr_len x.endpoint (hv x hx) a ha]
    cases hc : Gen.FailureCode_IsValid x.code with
    | false => rw [hc, if_neg (by decide)] at hbx; cases hbx
    | true =>
      rw [hc, if_pos rfl] at hbx
      rw [← Res.pure_ok_inv hbx, List.length_append, writeShort_len]; rfl

/-! ### stream id -/

theorem readStreamId_RT (version id : Nat) (hid : id < 65536) (b : Bytes) (hw : writeStreamId version id = .ok b)
    (rest : Bytes) : (readStreamId version).run (b ++ rest) = .ok (id, rest) := by
  rw [writeStreamId] at hw
  rw [readStreamId]
  by_cases hv : version ≥ Gen.ProtocolVersion3
  · rw [if_pos hv] at hw
    rw [if_pos hv, ← Res.ok_inj hw]
    exact readShort_RT id hid rest
  · rw [if_neg hv] at hw
    rw [if_neg hv]
    by_cases hr : toInt16 id > 127 ∨ toInt16 id < -128
    · rw [if_pos hr] at hw; cases hw
    · rw [if_neg hr] at hw
      rw [← Res.ok_inj hw, bind_ok (readByte_RT (id % 256) (Nat.mod_lt _ (by decide)) rest)]
      show Res.ok (_, rest) = _
      congr 2
      rw [toInt16] at hr
      by_cases h15 : id ≥ 32768
      · rw [if_pos h15] at hr
        have : id % 256 ≥ 128 := by omega
        rw [if_pos this]; omega
      · rw [if_neg h15] at hr
        have : ¬ id % 256 ≥ 128 := by omega
        rw [if_neg this]; omega

end Cql.Prim
