import Cql.DataType
import Cql.Lemmas.PrimRT
/-! Round trip and length lemmas for type descriptors, by mutual structural recursion over the type tree. -/
namespace Cql.DataType
open Cql Cql.Prim Cql.Parser Cql.Gen

-- well-formedness of a type descriptor for the wire: decodable primitive codes, counts and names that fit
-- their 16-bit length fields, as many UDT field names as field types
mutual
def Wf : DataType → Prop
  | prim c => c ∈ primCodes
  | custom cn => cn.length < 65536
  | list e => Wf e
  | set e => Wf e
  | map k v => Wf k ∧ Wf v
  | tuple fs => fs.length < 65536 ∧ WfList fs
  | udt ks name names types =>
    ks.length < 65536 ∧ name.length < 65536 ∧ names.length = types.length ∧ types.length < 65536 ∧
    (∀ n ∈ names, n.length < 65536) ∧ WfList types
def WfList : List DataType → Prop
  | [] => True
  | t :: ts => Wf t ∧ WfList ts
end

private theorem prim_valid (c : Nat) (h : c ∈ primCodes) (version : Nat) :
    CheckValidDataTypeCode c version = true ∧ c < 65536 ∧ primCodes.contains c = true := by
  have : ∀ x ∈ primCodes, DataTypeCode_IsValid x = true ∧ x < 65536 := by decide
  have hx := this c h
  refine ⟨?_, hx.2, by simpa using h⟩
  rw [CheckValidDataTypeCode, hx.1]; rfl

private theorem code_facts (version : Nat) :
    (∀ c ∈ [DataTypeCodeCustom, DataTypeCodeList, DataTypeCodeMap, DataTypeCodeSet, DataTypeCodeUdt, DataTypeCodeTuple],
      CheckValidDataTypeCode c version = true ∧ primCodes.contains c = false) := by
  intro c hc
  have : ∀ x ∈ [DataTypeCodeCustom, DataTypeCodeList, DataTypeCodeMap, DataTypeCodeSet, DataTypeCodeUdt, DataTypeCodeTuple],
      DataTypeCode_IsValid x = true ∧ primCodes.contains x = false := by decide
  have hx := this c hc
  refine ⟨?_, hx.2⟩
  rw [CheckValidDataTypeCode, hx.1]; rfl

theorem readUdtField_RT (p : Parser DataType) (n : Bytes) (hn : n.length < 65536) (t : DataType) (a : Bytes)
    (hp : ∀ rest, p.run (a ++ rest) = .ok (t, rest)) (rest : Bytes) :
    (readUdtField p).run (writeString n ++ (a ++ rest)) = .ok ((n, t), rest) := by
  rw [readUdtField, bind_ok (readString_RT n hn _), bind_ok (hp rest)]
  rfl

mutual
theorem readF_write (version : Nat) : ∀ (t : DataType), Wf t → ∀ b, write version t = .ok b →
    ∀ fuel, depth t ≤ fuel → ∀ rest, (readF version fuel).run (b ++ rest) = .ok (t, rest)
  | prim c, hwf, b, hw, fuel, hd, rest => by
    have hp := prim_valid c hwf version
    rw [write, hp.1, if_pos rfl] at hw
    rw [← Res.ok_inj hw]
    obtain ⟨f, rfl⟩ : ∃ f, fuel = f + 1 := ⟨fuel - 1, by rw [depth] at hd; omega⟩
    rw [readF, bind_ok (readShort_RT c hp.2.1 rest), hp.1, hp.2.2]
    rfl
  | custom cn, hwf, b, hw, fuel, hd, rest => by
    rw [write] at hw
    rw [← Res.ok_inj hw]
    obtain ⟨f, rfl⟩ : ∃ f, fuel = f + 1 := ⟨fuel - 1, by rw [depth] at hd; omega⟩
    have hc := code_facts version DataTypeCodeCustom (by decide)
    rw [readF, List.append_assoc, bind_ok (readShort_RT _ (by decide) _), hc.1, hc.2]
    show (readString >>= fun cn => pure (custom cn)).run _ = _
    rw [bind_ok (readString_RT cn hwf rest)]
    rfl
  | list e, hwf, b, hw, fuel, hd, rest => by
    rw [write] at hw
    obtain ⟨be, hbe, hw⟩ := Res.bind_ok_inv hw
    rw [← Res.pure_ok_inv hw]
    obtain ⟨f, rfl⟩ : ∃ f, fuel = f + 1 := ⟨fuel - 1, by rw [depth] at hd; omega⟩
    have hc := code_facts version DataTypeCodeList (by decide)
    rw [readF, List.append_assoc, bind_ok (readShort_RT _ (by decide) _), hc.1, hc.2]
    show (readF version f >>= fun e => pure (list e)).run _ = _
    rw [bind_ok (readF_write version e hwf be hbe f (by rw [depth] at hd; omega) rest)]
    rfl
  | set e, hwf, b, hw, fuel, hd, rest => by
    rw [write] at hw
    obtain ⟨be, hbe, hw⟩ := Res.bind_ok_inv hw
    rw [← Res.pure_ok_inv hw]
    obtain ⟨f, rfl⟩ : ∃ f, fuel = f + 1 := ⟨fuel - 1, by rw [depth] at hd; omega⟩
    have hc := code_facts version DataTypeCodeSet (by decide)
    rw [readF, List.append_assoc, bind_ok (readShort_RT _ (by decide) _), hc.1, hc.2]
    show (readF version f >>= fun e => pure (set e)).run _ = _
    rw [bind_ok (readF_write version e hwf be hbe f (by rw [depth] at hd; omega) rest)]
    rfl
  | map k v, hwf, b, hw, fuel, hd, rest => by
    rw [write] at hw
    obtain ⟨bk, hbk, hw⟩ := Res.bind_ok_inv hw
    obtain ⟨bv, hbv, hw⟩ := Res.bind_ok_inv hw
    rw [← Res.pure_ok_inv hw]
    obtain ⟨f, rfl⟩ : ∃ f, fuel = f + 1 := ⟨fuel - 1, by rw [depth] at hd; omega⟩
    have hc := code_facts version DataTypeCodeMap (by decide)
    rw [Wf] at hwf
    rw [readF, List.append_assoc, List.append_assoc, bind_ok (readShort_RT _ (by decide) _), hc.1, hc.2]
    show (readF version f >>= fun k => readF version f >>= fun v => pure (map k v)).run _ = _
    rw [bind_ok (readF_write version k hwf.1 bk hbk f (by rw [depth] at hd; omega) _),
      bind_ok (readF_write version v hwf.2 bv hbv f (by rw [depth] at hd; omega) rest)]
    rfl
  | tuple fs, hwf, b, hw, fuel, hd, rest => by
    rw [write] at hw
    obtain ⟨bf, hbf, hw⟩ := Res.bind_ok_inv hw
    rw [← Res.pure_ok_inv hw]
    obtain ⟨f, rfl⟩ : ∃ f, fuel = f + 1 := ⟨fuel - 1, by rw [depth] at hd; omega⟩
    have hc := code_facts version DataTypeCodeTuple (by decide)
    rw [Wf] at hwf
    rw [readF, List.append_assoc, List.append_assoc, bind_ok (readShort_RT _ (by decide) _), hc.1, hc.2,
      Nat.mod_eq_of_lt hwf.1]
    show (readShort >>= fun n => readN n (readF version f) >>= fun fs => pure (tuple fs)).run _ = _
    rw [bind_ok (readShort_RT _ hwf.1 _),
      bind_ok (readN_writeList version fs hwf.2 bf hbf f (by rw [depth] at hd; omega) rest)]
    rfl
  | udt ks name names types, hwf, b, hw, fuel, hd, rest => by
    rw [write] at hw
    rw [Wf] at hwf
    obtain ⟨h1, h2, h3, h4, h5, h6⟩ := hwf
    rw [if_neg (by simpa using h3)] at hw
    obtain ⟨bf, hbf, hw⟩ := Res.bind_ok_inv hw
    rw [← Res.pure_ok_inv hw]
    obtain ⟨f, rfl⟩ : ∃ f, fuel = f + 1 := ⟨fuel - 1, by rw [depth] at hd; omega⟩
    have hc := code_facts version DataTypeCodeUdt (by decide)
    rw [readF, List.append_assoc, List.append_assoc, List.append_assoc, List.append_assoc,
      bind_ok (readShort_RT _ (by decide) _), hc.1, hc.2, Nat.mod_eq_of_lt h4]
    show (readString >>= fun ks => readString >>= fun name => readShort >>= fun n =>
      readN n (readUdtField (readF version f)) >>= fun fs => pure (udt ks name (fs.map (·.1)) (fs.map (·.2)))).run _ = _
    rw [bind_ok (readString_RT ks h1 _), bind_ok (readString_RT name h2 _), bind_ok (readShort_RT _ h4 _),
      bind_ok (readN_writeUdtFields version names types h3 h5 h6 bf hbf f (by rw [depth] at hd; omega) rest)]
    show Res.ok (udt ks name ((names.zip types).map (·.1)) ((names.zip types).map (·.2)), rest) = _
    rw [← List.unzip_fst, ← List.unzip_snd, List.unzip_zip h3]

theorem readN_writeList (version : Nat) : ∀ (ts : List DataType), WfList ts → ∀ b, writeList version ts = .ok b →
    ∀ fuel, depthList ts ≤ fuel → ∀ rest, (readN ts.length (readF version fuel)).run (b ++ rest) = .ok (ts, rest)
  | [], _, b, hw, fuel, _, rest => by
    rw [writeList] at hw
    rw [← Res.ok_inj hw]; rfl
  | t :: ts, hwf, b, hw, fuel, hd, rest => by
    rw [writeList] at hw
    obtain ⟨a, ha, hw⟩ := Res.bind_ok_inv hw
    obtain ⟨c, hc, hw⟩ := Res.bind_ok_inv hw
    rw [WfList] at hwf
    rw [depthList] at hd
    rw [← Res.pure_ok_inv hw, List.length_cons, readN, List.append_assoc,
      bind_ok (readF_write version t hwf.1 a ha fuel (by omega) _),
      bind_ok (readN_writeList version ts hwf.2 c hc fuel (by omega) rest)]
    rfl

theorem readN_writeUdtFields (version : Nat) : ∀ (names : List Bytes) (ts : List DataType), names.length = ts.length →
    (∀ n ∈ names, n.length < 65536) → WfList ts → ∀ b, writeUdtFields version names ts = .ok b →
    ∀ fuel, depthList ts ≤ fuel → ∀ rest,
      (readN ts.length (readUdtField (readF version fuel))).run (b ++ rest) = .ok (names.zip ts, rest)
  | [], [], _, _, _, b, hw, fuel, _, rest => by
    rw [writeUdtFields] at hw
    rw [← Res.ok_inj hw]; rfl
  | [], _ :: _, hl, _, _, _, _, _, _, _ => by cases hl
  | _ :: _, [], hl, _, _, _, _, _, _, _ => by cases hl
  | n :: ns, t :: ts, hl, hn, hwf, b, hw, fuel, hd, rest => by
    rw [writeUdtFields] at hw
    obtain ⟨a, ha, hw⟩ := Res.bind_ok_inv hw
    obtain ⟨c, hc, hw⟩ := Res.bind_ok_inv hw
    rw [WfList] at hwf
    rw [depthList] at hd
    rw [← Res.pure_ok_inv hw, List.length_cons, readN, List.append_assoc, List.append_assoc,
      bind_ok (readUdtField_RT (readF version fuel) n (hn n List.mem_cons_self) t a
        (fun r => readF_write version t hwf.1 a ha fuel (by omega) r) _),
      bind_ok (readN_writeUdtFields version ns ts (by simpa using hl) (fun m hm => hn m (List.mem_cons_of_mem _ hm))
        hwf.2 c hc fuel (by omega) rest)]
    rfl
end

/-! ### every nesting level writes at least its 2-byte code: fuel = input length suffices -/
mutual
theorem depth_le_length (version : Nat) : ∀ (t : DataType) b, write version t = .ok b → depth t ≤ b.length
  | prim c, b, hw => by
    rw [write] at hw
    by_cases h : CheckValidDataTypeCode c version = true
    · rw [if_pos h] at hw; rw [← Res.ok_inj hw, writeShort_len, depth]; omega
    · rw [if_neg h] at hw; cases hw
  | custom cn, b, hw => by
    rw [write] at hw
    rw [← Res.ok_inj hw, List.length_append, writeShort_len, depth]; omega
  | list e, b, hw => by
    rw [write] at hw
    obtain ⟨be, hbe, hw⟩ := Res.bind_ok_inv hw
    have := depth_le_length version e be hbe
    rw [← Res.pure_ok_inv hw, List.length_append, writeShort_len, depth]; omega
  | set e, b, hw => by
    rw [write] at hw
    obtain ⟨be, hbe, hw⟩ := Res.bind_ok_inv hw
    have := depth_le_length version e be hbe
    rw [← Res.pure_ok_inv hw, List.length_append, writeShort_len, depth]; omega
  | map k v, b, hw => by
    rw [write] at hw
    obtain ⟨bk, hbk, hw⟩ := Res.bind_ok_inv hw
    obtain ⟨bv, hbv, hw⟩ := Res.bind_ok_inv hw
    have h1 := depth_le_length version k bk hbk
    have h2 := depth_le_length version v bv hbv
    rw [← Res.pure_ok_inv hw, List.length_append, List.length_append, writeShort_len, depth]; omega
  | tuple fs, b, hw => by
    rw [write] at hw
    obtain ⟨bf, hbf, hw⟩ := Res.bind_ok_inv hw
    have := depthList_le_length version fs bf hbf
    rw [← Res.pure_ok_inv hw, List.length_append, List.length_append, writeShort_len, writeShort_len, depth]; omega
  | udt ks name names types, b, hw => by
    rw [write] at hw
    by_cases h : names.length ≠ types.length
    · rw [if_pos h] at hw; cases hw
    · rw [if_neg h] at hw
      obtain ⟨bf, hbf, hw⟩ := Res.bind_ok_inv hw
      have := depthList_le_udt version names types bf hbf (by simpa using h)
      rw [← Res.pure_ok_inv hw, List.length_append, List.length_append, List.length_append, List.length_append,
        writeShort_len, writeShort_len, depth]; omega

theorem depthList_le_length (version : Nat) : ∀ (ts : List DataType) b, writeList version ts = .ok b → depthList ts ≤ b.length
  | [], b, _ => by rw [depthList]; omega
  | t :: ts, b, hw => by
    rw [writeList] at hw
    obtain ⟨a, ha, hw⟩ := Res.bind_ok_inv hw
    obtain ⟨c, hc, hw⟩ := Res.bind_ok_inv hw
    have h1 := depth_le_length version t a ha
    have h2 := depthList_le_length version ts c hc
    rw [← Res.pure_ok_inv hw, List.length_append, depthList]; omega

theorem depthList_le_udt (version : Nat) : ∀ (names : List Bytes) (ts : List DataType) b,
    writeUdtFields version names ts = .ok b → names.length = ts.length → depthList ts ≤ b.length
  | [], [], b, _, _ => by rw [depthList]; omega
  | [], _ :: _, _, _, hl => by cases hl
  | _ :: _, [], _, _, hl => by cases hl
  | n :: ns, t :: ts, b, hw, hl => by
    rw [writeUdtFields] at hw
    obtain ⟨a, ha, hw⟩ := Res.bind_ok_inv hw
    obtain ⟨c, hc, hw⟩ := Res.bind_ok_inv hw
    have h1 := depth_le_length version t a ha
    have h2 := depthList_le_udt version ns ts c hc (by simpa using hl)
    rw [← Res.pure_ok_inv hw, List.length_append, List.length_append, depthList]; omega
end

/-- `ReadDataType` after `WriteDataType`: same type, exactly the written bytes consumed -/
theorem read_RT (version : Nat) (t : DataType) (hwf : Wf t) (b : Bytes) (hw : write version t = .ok b) (rest : Bytes) :
    (read version).run (b ++ rest) = .ok (t, rest) := by
  rw [read]
  show (readF version ((b ++ rest).length + 1)).run (b ++ rest) = _
  have := depth_le_length version t b hw
  exact readF_write version t hwf b hw _ (by rw [List.length_append]; omega) rest

/-! ### `LengthOfDataType` agrees with `WriteDataType` -/
mutual
theorem write_len (version : Nat) : ∀ (t : DataType) b, write version t = .ok b → lengthOf version t = .ok b.length
  | prim c, b, hw => by
    rw [write] at hw
    by_cases h : CheckValidDataTypeCode c version = true
    · rw [if_pos h] at hw; rw [← Res.ok_inj hw, writeShort_len, lengthOf]; rfl
    · rw [if_neg h] at hw; cases hw
  | custom cn, b, hw => by
    rw [write] at hw
    rw [← Res.ok_inj hw, List.length_append, writeShort_len, writeString_len, lengthOf]; rfl
  | list e, b, hw => by
    rw [write] at hw
    obtain ⟨be, hbe, hw⟩ := Res.bind_ok_inv hw
    rw [← Res.pure_ok_inv hw, lengthOf, write_len version e be hbe, List.length_append, writeShort_len]; rfl
  | set e, b, hw => by
    rw [write] at hw
    obtain ⟨be, hbe, hw⟩ := Res.bind_ok_inv hw
    rw [← Res.pure_ok_inv hw, lengthOf, write_len version e be hbe, List.length_append, writeShort_len]; rfl
  | map k v, b, hw => by
    rw [write] at hw
    obtain ⟨bk, hbk, hw⟩ := Res.bind_ok_inv hw
    obtain ⟨bv, hbv, hw⟩ := Res.bind_ok_inv hw
    rw [← Res.pure_ok_inv hw, lengthOf, write_len version k bk hbk, write_len version v bv hbv, List.length_append,
      List.length_append, writeShort_len, Nat.add_assoc]; rfl
  | tuple fs, b, hw => by
    rw [write] at hw
    obtain ⟨bf, hbf, hw⟩ := Res.bind_ok_inv hw
    rw [← Res.pure_ok_inv hw, lengthOf, writeList_len version fs bf hbf, List.length_append, List.length_append,
      writeShort_len, writeShort_len, Nat.add_assoc]; rfl
  | udt ks name names types, b, hw => by
    rw [write] at hw
    by_cases h : names.length ≠ types.length
    · rw [if_pos h] at hw; cases hw
    · rw [if_neg h] at hw
      obtain ⟨bf, hbf, hw⟩ := Res.bind_ok_inv hw
      rw [← Res.pure_ok_inv hw, lengthOf, if_neg h, writeUdtFields_len version names types bf hbf,
        List.length_append, List.length_append, List.length_append, List.length_append,
        writeShort_len, writeShort_len, writeString_len, writeString_len]
      show Res.ok _ = Res.ok _
      congr 1
      simp only [lengthOfShort]; omega

theorem writeList_len (version : Nat) : ∀ (ts : List DataType) b, writeList version ts = .ok b →
    lengthOfList version ts = .ok b.length
  | [], b, hw => by rw [writeList] at hw; rw [← Res.ok_inj hw, lengthOfList]; rfl
  | t :: ts, b, hw => by
    rw [writeList] at hw
    obtain ⟨a, ha, hw⟩ := Res.bind_ok_inv hw
    obtain ⟨c, hc, hw⟩ := Res.bind_ok_inv hw
    rw [← Res.pure_ok_inv hw, lengthOfList, write_len version t a ha, writeList_len version ts c hc, List.length_append]
    rfl

theorem writeUdtFields_len (version : Nat) : ∀ (names : List Bytes) (ts : List DataType) b,
    writeUdtFields version names ts = .ok b → lengthOfUdtFields version names ts = .ok b.length
  | [], ts, b, hw => by rw [writeUdtFields] at hw; rw [← Res.ok_inj hw, lengthOfUdtFields]; rfl
  | _ :: _, [], b, hw => by rw [writeUdtFields] at hw; rw [← Res.ok_inj hw, lengthOfUdtFields]; rfl
  | n :: ns, t :: ts, b, hw => by
    rw [writeUdtFields] at hw
    obtain ⟨a, ha, hw⟩ := Res.bind_ok_inv hw
    obtain ⟨c, hc, hw⟩ := Res.bind_ok_inv hw
    rw [← Res.pure_ok_inv hw, lengthOfUdtFields, write_len version t a ha, writeUdtFields_len version ns ts c hc,
      List.length_append, List.length_append, writeString_len]
    rfl
end

end Cql.DataType
