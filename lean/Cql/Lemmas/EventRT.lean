import Cql.Impl.Event
import Cql.Lemmas.PrimRT
import Cql.Lemmas.NoPanic
/-!
Round-trip, length, encoder-totality and no-panic lemmas for `Cql/Impl/Event.lean`:
the EVENT message, and the Void / SetKeyspace / SchemaChange RESULT bodies (everything after the `[int]` result type).
-/
namespace Cql.Impl
open Cql Cql.Prim Cql.Parser Cql.Gen

/-! ### validity and canonical forms -/

/-- Version-validity of a schema change (RESULT Schema_change and EVENT SCHEMA_CHANGE share it), from
    `native_protocol_v2.spec` §4.2.5.5 / §4.2.6 and `native_protocol_v3.spec`, `native_protocol_v4.spec` §4.2.6. -/
structure ValidSchemaChange (version : Nat) (sc : SchemaChange) : Prop where
  /-- `<change_type>` is one of "CREATED", "UPDATED", "DROPPED" -/
  changeType : SchemaChangeType_IsValid sc.changeType = true
  /-- v2 knows keyspaces and tables only; "TYPE" is new in v3; "FUNCTION" and "AGGREGATE" are new in v4 -/
  target : sc.target = SchemaChangeTargetKeyspace ∨ sc.target = SchemaChangeTargetTable ∨
    (sc.target = SchemaChangeTargetType ∧ version ≥ ProtocolVersion3) ∨
    ((sc.target = SchemaChangeTargetAggregate ∨ sc.target = SchemaChangeTargetFunction) ∧ version ≥ ProtocolVersion4)
  /-- the keyspace is always named -/
  keyspace : sc.keyspace ≠ [] ∧ sc.keyspace.length < 65536
  /-- a keyspace change names no object (v2: "the table name will be empty"; v3+: `<options>` is the keyspace alone) -/
  objectKs : sc.target = SchemaChangeTargetKeyspace → sc.object = []
  /-- every other target names the affected table / type / function / aggregate -/
  objectOther : sc.target ≠ SchemaChangeTargetKeyspace → sc.object ≠ []
  objectLen : sc.object.length < 65536
  /-- only functions and aggregates have an argument list; for other targets it is not on the wire -/
  argumentsOnly : ¬ (sc.target = SchemaChangeTargetAggregate ∨ sc.target = SchemaChangeTargetFunction) →
    sc.arguments = none
  /-- a `[string list]`: `[short]` count, `[string]` elements -/
  argumentsLen : ∀ l, sc.arguments = some l → l.length < 65536 ∧ ∀ s ∈ l, s.length < 65536

/-- The argument list as it reads back: for FUNCTION / AGGREGATE a nil `Arguments` is written as a `[string list]` of
    count 0 (the format has no null) and `ReadStringList` returns an empty non-nil slice. -/
def canonArgs (sc : SchemaChange) : Option (List Bytes) :=
  if sc.target = SchemaChangeTargetAggregate ∨ sc.target = SchemaChangeTargetFunction then some (sc.arguments.getD [])
  else sc.arguments

/-- The only distinction the wire cannot carry is nil vs empty `Arguments` (see `canonArgs`). In v2 the decoder DERIVES
    the target from `Object == ""`; under `ValidSchemaChange` that is the original target, so no clause is needed. -/
def canonSchemaChange (_version : Nat) (sc : SchemaChange) : SchemaChange :=
  { sc with arguments := canonArgs sc }

/-- RESULT Set_keyspace: "the name of the keyspace that has been set", a `[string]` -/
structure ValidSetKeyspaceBody (keyspace : Bytes) : Prop where
  nonEmpty : keyspace ≠ []
  len : keyspace.length < 65536

/-- nothing is erased -/
def canonSetKeyspaceBody (keyspace : Bytes) : Bytes := keyspace

/-- an `[inet]` that is present, with a 4- or 16-byte address and an `[int]` port -/
def ValidAddress (a : Option Inet) : Prop :=
  ∃ i ip, a = some i ∧ i.addr = some ip ∧ validIp ip ∧ i.port < 4294967296

/-- Version-validity of an EVENT (§4.2.6 of the v2 / v3 / v4 specs): "UP" / "DOWN"; "NEW_NODE" / "REMOVED_NODE" and,
    from v3, "MOVED_NODE"; the node address is mandatory. -/
def ValidEvent (version : Nat) : EventMsg → Prop
  | .schemaChange sc => ValidSchemaChange version sc
  | .statusChange t a => StatusChangeType_IsValid t = true ∧ ValidAddress a
  | .topologyChange t a =>
    (t = TopologyChangeTypeNewNode ∨ t = TopologyChangeTypeRemovedNode ∨
      (t = TopologyChangeTypeMovedNode ∧ version ≥ ProtocolVersion3)) ∧ ValidAddress a

/-- schema changes: see `canonSchemaChange`; addresses: an IPv4 address held in 16 bytes is written in 4 and always
    read back in the 16-byte form (`canonInet`). -/
def canonEvent (version : Nat) : EventMsg → EventMsg
  | .schemaChange sc => .schemaChange (canonSchemaChange version sc)
  | .statusChange t a => .statusChange t (a.map canonInet)
  | .topologyChange t a => .topologyChange t (a.map canonInet)

/-! ### facts about the string constants -/

private theorem target_cases (t : Bytes) (h : SchemaChangeTarget_IsValid t = true) :
    t = SchemaChangeTargetKeyspace ∨ t = SchemaChangeTargetTable ∨ t = SchemaChangeTargetType ∨
    t = SchemaChangeTargetFunction ∨ t = SchemaChangeTargetAggregate := by
  have : ∀ x ∈ SchemaChangeTarget_IsValid_cases, x = SchemaChangeTargetKeyspace ∨ x = SchemaChangeTargetTable ∨
      x = SchemaChangeTargetType ∨ x = SchemaChangeTargetFunction ∨ x = SchemaChangeTargetAggregate := by decide
  exact this t (by simpa [SchemaChangeTarget_IsValid] using h)

private theorem target_lt (t : Bytes) (h : SchemaChangeTarget_IsValid t = true) : t.length < 65536 := by
  have : ∀ x ∈ SchemaChangeTarget_IsValid_cases, x.length < 65536 := by decide
  exact this t (by simpa [SchemaChangeTarget_IsValid] using h)

private theorem changeType_lt (t : Bytes) (h : SchemaChangeType_IsValid t = true) : t.length < 65536 := by
  have : ∀ x ∈ SchemaChangeType_IsValid_cases, x.length < 65536 := by decide
  exact this t (by simpa [SchemaChangeType_IsValid] using h)

private theorem statusType_lt (t : Bytes) (h : StatusChangeType_IsValid t = true) : t.length < 65536 := by
  have : ∀ x ∈ StatusChangeType_IsValid_cases, x.length < 65536 := by decide
  exact this t (by simpa [StatusChangeType_IsValid] using h)

private theorem sup_type (v : Nat) :
    ProtocolVersion_SupportsSchemaChangeTarget v SchemaChangeTargetType = decide (v ≥ ProtocolVersion3) := rfl
private theorem sup_fn (v : Nat) :
    ProtocolVersion_SupportsSchemaChangeTarget v SchemaChangeTargetFunction = decide (v ≥ ProtocolVersion4) := rfl
private theorem sup_ag (v : Nat) :
    ProtocolVersion_SupportsSchemaChangeTarget v SchemaChangeTargetAggregate = decide (v ≥ ProtocolVersion4) := rfl

private theorem check_eq (t : Bytes) (v : Nat) : CheckValidSchemaChangeTarget t v =
    (SchemaChangeTarget_IsValid t && ProtocolVersion_SupportsSchemaChangeTarget v t) := by
  rw [CheckValidSchemaChangeTarget]
  cases SchemaChangeTarget_IsValid t <;> cases ProtocolVersion_SupportsSchemaChangeTarget v t <;> rfl

private theorem v3_le_v4 : ProtocolVersion3 ≤ ProtocolVersion4 := by decide

/-- before v3 the target check lets only KEYSPACE and TABLE through -/
private theorem check_v2 (t : Bytes) (v : Nat) (h : CheckValidSchemaChangeTarget t v = true)
    (hv3 : ¬ v ≥ ProtocolVersion3) : t = SchemaChangeTargetKeyspace ∨ t = SchemaChangeTargetTable := by
  rw [check_eq] at h
  simp only [Bool.and_eq_true] at h
  rcases target_cases t h.1 with e | e | e | e | e
  · exact Or.inl e
  · exact Or.inr e
  · rw [e, sup_type] at h; exact absurd (of_decide_eq_true h.2) hv3
  · rw [e, sup_fn] at h; exact absurd (Nat.le_trans v3_le_v4 (of_decide_eq_true h.2)) hv3
  · rw [e, sup_ag] at h; exact absurd (Nat.le_trans v3_le_v4 (of_decide_eq_true h.2)) hv3

namespace ValidSchemaChange
variable {version : Nat} {sc : SchemaChange}

theorem check (hv : ValidSchemaChange version sc) : CheckValidSchemaChangeTarget sc.target version = true := by
  rw [check_eq]
  rcases hv.target with h | h | ⟨h, h3⟩ | ⟨h | h, h4⟩
  · rw [h]; rfl
  · rw [h]; rfl
  · rw [h, sup_type, decide_eq_true h3]; rfl
  · rw [h, sup_ag, decide_eq_true h4]; rfl
  · rw [h, sup_fn, decide_eq_true h4]; rfl

theorem isValid (hv : ValidSchemaChange version sc) : SchemaChangeTarget_IsValid sc.target = true := by
  have := hv.check
  rw [check_eq] at this
  simp only [Bool.and_eq_true] at this
  exact this.1

/-- the three arms of the `switch sce.Target` -/
theorem arms (hv : ValidSchemaChange version sc) :
    sc.target = SchemaChangeTargetKeyspace ∨
    (sc.target = SchemaChangeTargetTable ∨ sc.target = SchemaChangeTargetType) ∨
    (sc.target = SchemaChangeTargetAggregate ∨ sc.target = SchemaChangeTargetFunction) := by
  rcases hv.target with h | h | ⟨h, _⟩ | ⟨h, _⟩
  · exact Or.inl h
  · exact Or.inr (Or.inl (Or.inl h))
  · exact Or.inr (Or.inl (Or.inr h))
  · exact Or.inr (Or.inr h)

theorem argsLen (hv : ValidSchemaChange version sc) :
    (sc.arguments.getD []).length < 65536 ∧ ∀ s ∈ sc.arguments.getD [], s.length < 65536 := by
  cases ha : sc.arguments with
  | none => exact ⟨by decide, fun s hs => by cases hs⟩
  | some l => exact hv.argumentsLen l ha

end ValidSchemaChange

/-- the arms of the switch exclude one another -/
private theorem arms_disjoint (t : Bytes) :
    (t = SchemaChangeTargetKeyspace →
      ¬ (t = SchemaChangeTargetTable ∨ t = SchemaChangeTargetType) ∧
      ¬ (t = SchemaChangeTargetAggregate ∨ t = SchemaChangeTargetFunction)) ∧
    ((t = SchemaChangeTargetTable ∨ t = SchemaChangeTargetType) →
      ¬ t = SchemaChangeTargetKeyspace ∧ ¬ (t = SchemaChangeTargetAggregate ∨ t = SchemaChangeTargetFunction)) ∧
    ((t = SchemaChangeTargetAggregate ∨ t = SchemaChangeTargetFunction) →
      ¬ t = SchemaChangeTargetKeyspace ∧ ¬ (t = SchemaChangeTargetTable ∨ t = SchemaChangeTargetType)) := by
  refine ⟨fun h => ?_, fun h => ?_, fun h => ?_⟩
  · rw [h]; decide
  · rcases h with h | h <;> rw [h] <;> decide
  · rcases h with h | h <;> rw [h] <;> decide

private theorem canon_notFA (v : Nat) (sc : SchemaChange)
    (hfa : ¬ (sc.target = SchemaChangeTargetAggregate ∨ sc.target = SchemaChangeTargetFunction)) :
    canonSchemaChange v sc = sc := by
  rw [canonSchemaChange, canonArgs, if_neg hfa]

private theorem bne_nil_of_ne {l : Bytes} (h : l ≠ []) : (l != []) = true := by
  cases l with
  | nil => exact absurd rfl h
  | cons x xs => rfl

private theorem ne_of_bne_nil {l : Bytes} (h : (l != []) = true) : l ≠ [] := by
  cases l with
  | nil => cases h
  | cons x xs => intro h'; cases h'

private theorem eq_of_beq_nil {l : Bytes} (h : (l == []) = true) : l = [] := by
  cases l with
  | nil => rfl
  | cons x xs => cases h

/-! ### proof devices: the event and result encoders are instances of one shape -/

/-- both v3 target switches; the FUNCTION / AGGREGATE emptiness test `g` and the messages are parameters -/
private def encTarget3 (g : Bool) (m1 m2 : String) (sc : SchemaChange) : Res Bytes :=
  if sc.target = SchemaChangeTargetKeyspace then pure []
  else if sc.target = SchemaChangeTargetTable ∨ sc.target = SchemaChangeTargetType then do
    guard (sc.object != []) m1
    pure (writeString sc.object)
  else if sc.target = SchemaChangeTargetAggregate ∨ sc.target = SchemaChangeTargetFunction then do
    guard g m2
    pure (writeString sc.object ++ writeStringList (sc.arguments.getD []))
  else pure []

private theorem eventTarget3_eq (sc : SchemaChange) : encodeEventTarget3 sc =
    encTarget3 (sc.keyspace != []) "EVENT SchemaChange: cannot write empty object"
      "EVENT SchemaChange: cannot write empty object" sc := rfl

private theorem resultTarget3_eq (sc : SchemaChange) : encodeResultTarget3 sc =
    encTarget3 (sc.object != []) "RESULT SchemaChange: cannot write empty object"
      "RESULT SchemaChange: cannot write empty object" sc := rfl

/-- both schema-change body encoders; the v3 target switch and the message are parameters -/
private def encBody (tail3 : SchemaChange → Res Bytes) (mk : String) (version : Nat) (sc : SchemaChange) : Res Bytes := do
  guard (CheckValidSchemaChangeType sc.changeType) "invalid schema change type"
  if version ≥ ProtocolVersion3 then do
    guard (CheckValidSchemaChangeTarget sc.target version) "invalid schema change target"
    guard (sc.keyspace != []) mk
    let tail ← tail3 sc
    pure (writeString sc.changeType ++ writeString sc.target ++ writeString sc.keyspace ++ tail)
  else do
    guard (CheckValidSchemaChangeTarget sc.target version) "invalid schema change target"
    guard (sc.keyspace != []) mk
    let tail ← encodeSchemaChangeTarget2 sc
    pure (writeString sc.changeType ++ writeString sc.keyspace ++ tail)

private theorem eventBody_eq (version : Nat) (sc : SchemaChange) : encodeSchemaChangeEventBody version sc =
    encBody encodeEventTarget3 "EVENT SchemaChange: cannot write empty keyspace" version sc := rfl

private theorem resultBody_eq (version : Nat) (sc : SchemaChange) : encodeSchemaChangeResultBody version sc =
    encBody encodeResultTarget3 "RESULT SchemaChange: cannot write empty keyspace" version sc := rfl

/-! ### the v3 target switch -/

private theorem encTarget3_RT (g : Bool) (m1 m2 : String) (v : Nat) (sc : SchemaChange) (hv : ValidSchemaChange v sc)
    (b : Bytes) (hw : encTarget3 g m1 m2 sc = .ok b) (rest : Bytes) :
    (decodeSchemaChangeTarget3 sc.target).run (b ++ rest) = .ok ((sc.object, canonArgs sc), rest) := by
  rw [encTarget3] at hw
  rw [decodeSchemaChangeTarget3, canonArgs]
  obtain ⟨d1, d2, d3⟩ := arms_disjoint sc.target
  rcases hv.arms with h | h | h
  · rw [if_pos h] at hw
    rw [if_pos h, ← Res.pure_ok_inv hw, hv.objectKs h, if_neg (d1 h).2, hv.argumentsOnly (d1 h).2]
    rfl
  · rw [if_neg (d2 h).1, if_pos h] at hw
    obtain ⟨_, _, hw⟩ := Res.bind_ok_inv hw
    rw [if_neg (d2 h).1, if_pos h, ← Res.pure_ok_inv hw, bind_ok (readString_RT _ hv.objectLen _),
      if_neg (d2 h).2, hv.argumentsOnly (d2 h).2]
    rfl
  · rw [if_neg (d3 h).1, if_neg (d3 h).2, if_pos h] at hw
    obtain ⟨_, _, hw⟩ := Res.bind_ok_inv hw
    rw [if_neg (d3 h).1, if_neg (d3 h).2, if_pos h, ← Res.pure_ok_inv hw, List.append_assoc,
      bind_ok (readString_RT _ hv.objectLen _),
      bind_ok (readStringList_RT _ hv.argsLen.1 hv.argsLen.2 _), if_pos h]
    rfl

private theorem encTarget3_len (g : Bool) (m1 m2 : String) (sc : SchemaChange) (b : Bytes)
    (hw : encTarget3 g m1 m2 sc = .ok b) : lengthOfSchemaChangeTarget3 sc = b.length := by
  rw [encTarget3] at hw
  rw [lengthOfSchemaChangeTarget3]
  by_cases h1 : sc.target = SchemaChangeTargetKeyspace
  · rw [if_pos h1] at hw
    rw [if_pos h1, ← Res.pure_ok_inv hw]; rfl
  · rw [if_neg h1] at hw
    rw [if_neg h1]
    by_cases h2 : sc.target = SchemaChangeTargetTable ∨ sc.target = SchemaChangeTargetType
    · rw [if_pos h2] at hw
      obtain ⟨_, _, hw⟩ := Res.bind_ok_inv hw
      rw [if_pos h2, ← Res.pure_ok_inv hw, writeString_len]
    · rw [if_neg h2] at hw
      rw [if_neg h2]
      by_cases h3 : sc.target = SchemaChangeTargetAggregate ∨ sc.target = SchemaChangeTargetFunction
      · rw [if_pos h3] at hw
        obtain ⟨_, _, hw⟩ := Res.bind_ok_inv hw
        rw [if_pos h3, ← Res.pure_ok_inv hw, List.length_append, writeString_len, writeStringList_len]
      · rw [if_neg h3] at hw
        rw [if_neg h3, ← Res.pure_ok_inv hw]; rfl

private theorem encTarget3_ok (g : Bool) (m1 m2 : String) (v : Nat) (sc : SchemaChange) (hv : ValidSchemaChange v sc)
    (hg : (sc.target = SchemaChangeTargetAggregate ∨ sc.target = SchemaChangeTargetFunction) → g = true) :
    ∃ b, encTarget3 g m1 m2 sc = .ok b := by
  rw [encTarget3]
  obtain ⟨_, d2, d3⟩ := arms_disjoint sc.target
  rcases hv.arms with h | h | h
  · rw [if_pos h]; exact ⟨_, rfl⟩
  · rw [if_neg (d2 h).1, if_pos h, bne_nil_of_ne (hv.objectOther (d2 h).1)]; exact ⟨_, rfl⟩
  · rw [if_neg (d3 h).1, if_neg (d3 h).2, if_pos h, hg h]; exact ⟨_, rfl⟩

/-! ### the schema-change body -/

private theorem sc_eta (sc : SchemaChange) (t ob : Bytes) (ht : sc.target = t) (ho : sc.object = ob)
    (ha : sc.arguments = none) :
    ({ changeType := sc.changeType, target := t, keyspace := sc.keyspace, object := ob, arguments := none }
      : SchemaChange) = sc := by
  subst ht ho
  obtain ⟨ct, tg, ks, ob, ar⟩ := sc
  have ha' : ar = none := ha
  subst ha'
  rfl

private theorem encBody_RT (tail3 : SchemaChange → Res Bytes) (mk : String) (v : Nat) (sc : SchemaChange)
    (hv : ValidSchemaChange v sc)
    (h3 : ∀ b, tail3 sc = .ok b → ∀ rest,
      (decodeSchemaChangeTarget3 sc.target).run (b ++ rest) = .ok ((sc.object, canonArgs sc), rest))
    (b : Bytes) (hw : encBody tail3 mk v sc = .ok b) (rest : Bytes) :
    (decodeSchemaChangeBody v).run (b ++ rest) = .ok (canonSchemaChange v sc, rest) := by
  rw [encBody] at hw
  obtain ⟨_, _, hw⟩ := Res.bind_ok_inv hw
  rw [decodeSchemaChangeBody]
  have hct := changeType_lt _ hv.changeType
  by_cases hv3 : v ≥ ProtocolVersion3
  · rw [if_pos hv3] at hw
    obtain ⟨_, hck, hw⟩ := Res.bind_ok_inv hw
    obtain ⟨_, _, hw⟩ := Res.bind_ok_inv hw
    obtain ⟨tail, htail, hw⟩ := Res.bind_ok_inv hw
    rw [← Res.pure_ok_inv hw]
    simp only [List.append_assoc]
    rw [bind_ok (readString_RT _ hct _), if_pos hv3, bind_ok (readString_RT _ (target_lt _ hv.isValid) _),
      guard_ok_inv hck, bind_ok (guardP_true _ _), bind_ok (readString_RT _ hv.keyspace.2 _),
      bind_ok (h3 tail htail rest)]
    rfl
  · rw [if_neg hv3] at hw
    obtain ⟨_, hck, hw⟩ := Res.bind_ok_inv hw
    obtain ⟨_, _, hw⟩ := Res.bind_ok_inv hw
    obtain ⟨tail, htail, hw⟩ := Res.bind_ok_inv hw
    rw [← Res.pure_ok_inv hw]
    simp only [List.append_assoc]
    rw [bind_ok (readString_RT _ hct _), if_neg hv3, bind_ok (readString_RT _ hv.keyspace.2 _)]
    obtain ⟨d1, d2, _⟩ := arms_disjoint sc.target
    rw [encodeSchemaChangeTarget2] at htail
    rcases check_v2 _ _ (guard_ok_inv hck) hv3 with h | h
    · rw [if_pos h] at htail
      obtain ⟨_, _, htail⟩ := Res.bind_ok_inv htail
      rw [← Res.pure_ok_inv htail, bind_ok (readString_RT [] (by decide) _), if_pos rfl,
        canon_notFA v sc (d1 h).2]
      exact congrArg (fun x => Res.ok (x, rest)) (sc_eta sc _ _ h (hv.objectKs h) (hv.argumentsOnly (d1 h).2))
    · have hnk := (d2 (Or.inl h)).1
      have hfa := (d2 (Or.inl h)).2
      rw [if_neg hnk, if_pos h] at htail
      obtain ⟨_, hob, htail⟩ := Res.bind_ok_inv htail
      rw [← Res.pure_ok_inv htail, bind_ok (readString_RT _ hv.objectLen _),
        if_neg (ne_of_bne_nil (guard_ok_inv hob)), canon_notFA v sc hfa]
      exact congrArg (fun x => Res.ok (x, rest)) (sc_eta sc _ _ h rfl (hv.argumentsOnly hfa))

private theorem encBody_len (tail3 : SchemaChange → Res Bytes) (mk : String) (v : Nat) (sc : SchemaChange)
    (h3 : ∀ b, tail3 sc = .ok b → lengthOfSchemaChangeTarget3 sc = b.length)
    (b : Bytes) (hw : encBody tail3 mk v sc = .ok b) : lengthOfSchemaChangeBody v sc = .ok b.length := by
  rw [encBody] at hw
  obtain ⟨_, _, hw⟩ := Res.bind_ok_inv hw
  rw [lengthOfSchemaChangeBody]
  by_cases hv3 : v ≥ ProtocolVersion3
  · rw [if_pos hv3] at hw
    obtain ⟨_, hck, hw⟩ := Res.bind_ok_inv hw
    obtain ⟨_, _, hw⟩ := Res.bind_ok_inv hw
    obtain ⟨tail, htail, hw⟩ := Res.bind_ok_inv hw
    rw [guard_ok_inv hck, if_pos hv3, ← Res.pure_ok_inv hw, h3 tail htail]
    simp only [List.length_append]
    rw [writeString_len, writeString_len, writeString_len]
    rfl
  · rw [if_neg hv3] at hw
    obtain ⟨_, hck, hw⟩ := Res.bind_ok_inv hw
    obtain ⟨_, _, hw⟩ := Res.bind_ok_inv hw
    obtain ⟨tail, htail, hw⟩ := Res.bind_ok_inv hw
    have htl : tail.length = lengthOfString sc.object := by
      rw [encodeSchemaChangeTarget2] at htail
      rcases check_v2 _ _ (guard_ok_inv hck) hv3 with h | h
      · rw [if_pos h] at htail
        obtain ⟨_, hob, htail⟩ := Res.bind_ok_inv htail
        rw [← Res.pure_ok_inv htail, eq_of_beq_nil (guard_ok_inv hob), writeString_len]
      · rw [if_neg (by rw [h]; decide), if_pos h] at htail
        obtain ⟨_, _, htail⟩ := Res.bind_ok_inv htail
        rw [← Res.pure_ok_inv htail, writeString_len]
    rw [guard_ok_inv hck, if_neg hv3, ← Res.pure_ok_inv hw]
    simp only [List.length_append]
    rw [writeString_len, writeString_len, htl]
    rfl

private theorem encBody_ok (tail3 : SchemaChange → Res Bytes) (mk : String) (v : Nat) (sc : SchemaChange)
    (hv : ValidSchemaChange v sc) (h3 : ∃ b, tail3 sc = .ok b) : ∃ b, encBody tail3 mk v sc = .ok b := by
  obtain ⟨t, ht⟩ := h3
  have hct : CheckValidSchemaChangeType sc.changeType = true := by
    rw [CheckValidSchemaChangeType, hv.changeType]; rfl
  rw [encBody, hct, hv.check, bne_nil_of_ne hv.keyspace.1]
  by_cases hv3 : v ≥ ProtocolVersion3
  · rw [if_pos hv3, ht]; exact ⟨_, rfl⟩
  · rw [if_neg hv3, encodeSchemaChangeTarget2]
    rcases check_v2 _ _ hv.check hv3 with h | h
    · rw [if_pos h, hv.objectKs h]; exact ⟨_, rfl⟩
    · have hnk : ¬ sc.target = SchemaChangeTargetKeyspace := by rw [h]; decide
      rw [if_neg hnk, if_pos h, bne_nil_of_ne (hv.objectOther hnk)]; exact ⟨_, rfl⟩

theorem decodeSchemaChangeBody_noPanic (version : Nat) : NoPanic (decodeSchemaChangeBody version) := by
  have h1 : ∀ t, NoPanic (decodeSchemaChangeTarget3 t) := by
    intro t; rw [decodeSchemaChangeTarget3]; no_panic [NoPanic.readString, NoPanic.readStringList]
  rw [decodeSchemaChangeBody]; no_panic [NoPanic.readString, h1]

/-! ### RESULT SchemaChange body -/

theorem decodeSchemaChangeResultBody_RT (version : Nat) (sc : SchemaChange) (hv : ValidSchemaChange version sc)
    (b : Bytes) (hw : encodeSchemaChangeResultBody version sc = .ok b) (rest : Bytes) :
    (decodeSchemaChangeResultBody version).run (b ++ rest) = .ok (canonSchemaChange version sc, rest) := by
  rw [resultBody_eq] at hw
  rw [decodeSchemaChangeResultBody]
  exact encBody_RT _ _ version sc hv
    (fun b' hb' r => by rw [resultTarget3_eq] at hb'; exact encTarget3_RT _ _ _ version sc hv b' hb' r) b hw rest

theorem encodeSchemaChangeResultBody_len (version : Nat) (sc : SchemaChange) (b : Bytes)
    (hw : encodeSchemaChangeResultBody version sc = .ok b) :
    lengthOfSchemaChangeResultBody version sc = .ok b.length := by
  rw [resultBody_eq] at hw
  rw [lengthOfSchemaChangeResultBody]
  exact encBody_len _ _ version sc
    (fun b' hb' => by rw [resultTarget3_eq] at hb'; exact encTarget3_len _ _ _ sc b' hb') b hw

theorem encodeSchemaChangeResultBody_ok (version : Nat) (sc : SchemaChange) (hv : ValidSchemaChange version sc) :
    ∃ b, encodeSchemaChangeResultBody version sc = .ok b := by
  rw [resultBody_eq]
  refine encBody_ok _ _ version sc hv ?_
  rw [resultTarget3_eq]
  refine encTarget3_ok _ _ _ version sc hv (fun h => ?_)
  exact bne_nil_of_ne (hv.objectOther ((arms_disjoint sc.target).2.2 h).1)

theorem decodeSchemaChangeResultBody_noPanic (version : Nat) : NoPanic (decodeSchemaChangeResultBody version) := by
  rw [decodeSchemaChangeResultBody]; exact decodeSchemaChangeBody_noPanic version

/-! ### EVENT SchemaChange body -/

theorem decodeSchemaChangeEventBody_RT (version : Nat) (sc : SchemaChange) (hv : ValidSchemaChange version sc)
    (b : Bytes) (hw : encodeSchemaChangeEventBody version sc = .ok b) (rest : Bytes) :
    (decodeSchemaChangeBody version).run (b ++ rest) = .ok (canonSchemaChange version sc, rest) := by
  rw [eventBody_eq] at hw
  exact encBody_RT _ _ version sc hv
    (fun b' hb' r => by rw [eventTarget3_eq] at hb'; exact encTarget3_RT _ _ _ version sc hv b' hb' r) b hw rest

theorem encodeSchemaChangeEventBody_len (version : Nat) (sc : SchemaChange) (b : Bytes)
    (hw : encodeSchemaChangeEventBody version sc = .ok b) :
    lengthOfSchemaChangeBody version sc = .ok b.length := by
  rw [eventBody_eq] at hw
  exact encBody_len _ _ version sc
    (fun b' hb' => by rw [eventTarget3_eq] at hb'; exact encTarget3_len _ _ _ sc b' hb') b hw

theorem encodeSchemaChangeEventBody_ok (version : Nat) (sc : SchemaChange) (hv : ValidSchemaChange version sc) :
    ∃ b, encodeSchemaChangeEventBody version sc = .ok b := by
  rw [eventBody_eq]
  refine encBody_ok _ _ version sc hv ?_
  rw [eventTarget3_eq]
  exact encTarget3_ok _ _ _ version sc hv (fun _ => bne_nil_of_ne hv.keyspace.1)

/-! ### RESULT Void / SetKeyspace bodies -/

theorem decodeVoidBody_RT (b : Bytes) (hw : encodeVoidBody = .ok b) (rest : Bytes) :
    decodeVoidBody.run (b ++ rest) = .ok ((), rest) := by
  rw [encodeVoidBody] at hw
  rw [← Res.pure_ok_inv hw]; rfl

theorem encodeVoidBody_len (b : Bytes) (hw : encodeVoidBody = .ok b) : lengthOfVoidBody = .ok b.length := by
  rw [encodeVoidBody] at hw
  rw [← Res.pure_ok_inv hw]; rfl

theorem encodeVoidBody_ok : ∃ b, encodeVoidBody = .ok b := ⟨_, rfl⟩

theorem decodeVoidBody_noPanic : NoPanic decodeVoidBody := by rw [decodeVoidBody]; no_panic

theorem decodeSetKeyspaceBody_RT (ks : Bytes) (hv : ValidSetKeyspaceBody ks) (b : Bytes)
    (hw : encodeSetKeyspaceBody ks = .ok b) (rest : Bytes) :
    decodeSetKeyspaceBody.run (b ++ rest) = .ok (canonSetKeyspaceBody ks, rest) := by
  rw [encodeSetKeyspaceBody] at hw
  obtain ⟨_, _, hw⟩ := Res.bind_ok_inv hw
  rw [← Res.pure_ok_inv hw, decodeSetKeyspaceBody, canonSetKeyspaceBody]
  exact readString_RT ks hv.len rest

theorem encodeSetKeyspaceBody_len (ks : Bytes) (b : Bytes) (hw : encodeSetKeyspaceBody ks = .ok b) :
    lengthOfSetKeyspaceBody ks = .ok b.length := by
  rw [encodeSetKeyspaceBody] at hw
  obtain ⟨_, _, hw⟩ := Res.bind_ok_inv hw
  rw [← Res.pure_ok_inv hw, lengthOfSetKeyspaceBody, writeString_len]; rfl

theorem encodeSetKeyspaceBody_ok (ks : Bytes) (hv : ValidSetKeyspaceBody ks) : ∃ b, encodeSetKeyspaceBody ks = .ok b := by
  rw [encodeSetKeyspaceBody, bne_nil_of_ne hv.nonEmpty]; exact ⟨_, rfl⟩

theorem decodeSetKeyspaceBody_noPanic : NoPanic decodeSetKeyspaceBody := by
  rw [decodeSetKeyspaceBody]; exact NoPanic.readString

/-! ### status / topology change bodies -/

private theorem decodeNodeChangeBody_RT (t : Bytes) (ht : t.length < 65536) (a : Option Inet) (ha : ValidAddress a)
    (ab : Bytes) (hw : writeInet a = .ok ab) (rest : Bytes) :
    decodeNodeChangeBody.run (writeString t ++ ab ++ rest) = .ok ((t, a.map canonInet), rest) := by
  obtain ⟨i, ip, rfl, hip, hvip, hp⟩ := ha
  rw [decodeNodeChangeBody, List.append_assoc, bind_ok (readString_RT _ ht _),
    bind_ok (readInet_RT i ip hip hvip hp ab hw rest)]
  rfl

/-- what `encodeEvent_len` needs: an address that is present has 4 or 16 bytes (Go's `net.IP` admits any length;
    `WriteInetAddr` then writes a length byte 16 and NO address bytes while `LengthOfInetAddr` counts 16) -/
def EventIpWf : EventMsg → Prop
  | .schemaChange _ => True
  | .statusChange _ a => ∀ x ip, a = some x → x.addr = some ip → validIp ip
  | .topologyChange _ a => ∀ x ip, a = some x → x.addr = some ip → validIp ip

private theorem ValidAddress.ipWf {a : Option Inet} (ha : ValidAddress a) :
    ∀ x ip, a = some x → x.addr = some ip → validIp ip := by
  obtain ⟨i, ip, rfl, hip, hvip, _⟩ := ha
  intro x ip' hx hip'
  cases hx
  rw [hip] at hip'
  cases hip'
  exact hvip

theorem ValidEvent.ipWf {version : Nat} {e : EventMsg} (hv : ValidEvent version e) : EventIpWf e := by
  cases e with
  | schemaChange sc => trivial
  | statusChange t a => exact ValidAddress.ipWf hv.2
  | topologyChange t a => exact ValidAddress.ipWf hv.2

private theorem nodeChange_len (t : Bytes) (a : Option Inet) (hwf : ∀ x ip, a = some x → x.addr = some ip → validIp ip)
    (ab : Bytes) (hw : writeInet a = .ok ab) :
    lengthOfNodeChangeBody t a = .ok (writeString t ++ ab).length := by
  rw [lengthOfNodeChangeBody, writeInet_len a hwf ab hw, List.length_append, writeString_len]
  rfl

private theorem topologyType_lt (v : Nat) (t : Bytes) (h : CheckValidTopologyChangeType t v = true) :
    t.length < 65536 := by
  have hi : TopologyChangeType_IsValid t = true := by
    rw [CheckValidTopologyChangeType] at h
    cases hi : TopologyChangeType_IsValid t with
    | true => rfl
    | false => rw [hi] at h; cases h
  have : ∀ x ∈ TopologyChangeType_IsValid_cases, x.length < 65536 := by decide
  exact this t (by simpa [TopologyChangeType_IsValid] using hi)

private theorem statusType_of_check (t : Bytes) (h : CheckValidStatusChangeType t = true) :
    StatusChangeType_IsValid t = true := by
  rw [CheckValidStatusChangeType] at h
  cases hi : StatusChangeType_IsValid t with
  | true => rfl
  | false => rw [hi] at h; cases h

/-! ### EVENT -/

private theorem eventType_facts (e : EventMsg) : e.eventType.length < 65536 ∧ CheckValidEventType e.eventType = true := by
  cases e with
  | schemaChange sc =>
    show EventTypeSchemaChange.length < 65536 ∧ CheckValidEventType EventTypeSchemaChange = true
    decide
  | statusChange t a =>
    show EventTypeStatusChange.length < 65536 ∧ CheckValidEventType EventTypeStatusChange = true
    decide
  | topologyChange t a =>
    show EventTypeTopologyChange.length < 65536 ∧ CheckValidEventType EventTypeTopologyChange = true
    decide

theorem decodeEvent_RT (version : Nat) (e : EventMsg) (hv : ValidEvent version e) (b : Bytes)
    (hw : encodeEvent version e = .ok b) (rest : Bytes) :
    (decodeEvent version).run (b ++ rest) = .ok (canonEvent version e, rest) := by
  rw [encodeEvent] at hw
  obtain ⟨_, _, hw⟩ := Res.bind_ok_inv hw
  obtain ⟨body, hbody, hw⟩ := Res.bind_ok_inv hw
  rw [← Res.pure_ok_inv hw, List.append_assoc, decodeEvent, bind_ok (readString_RT _ (eventType_facts e).1 _)]
  cases e with
  | schemaChange sc =>
    rw [encodeEventBody] at hbody
    show (decodeEventBody version EventTypeSchemaChange).run _ = _
    rw [decodeEventBody, if_pos rfl, map_run, decodeSchemaChangeEventBody_RT version sc hv body hbody rest]
    rfl
  | statusChange t a =>
    rw [encodeEventBody, encodeStatusChangeBody] at hbody
    obtain ⟨_, hck, hbody⟩ := Res.bind_ok_inv hbody
    obtain ⟨ab, hab, hbody⟩ := Res.bind_ok_inv hbody
    show (decodeEventBody version EventTypeStatusChange).run _ = _
    rw [decodeEventBody, if_neg (by decide), if_pos rfl, map_run, ← Res.pure_ok_inv hbody,
      decodeNodeChangeBody_RT t (statusType_lt t hv.1) a hv.2 ab hab rest]
    rfl
  | topologyChange t a =>
    rw [encodeEventBody, encodeTopologyChangeBody] at hbody
    obtain ⟨_, hck, hbody⟩ := Res.bind_ok_inv hbody
    obtain ⟨ab, hab, hbody⟩ := Res.bind_ok_inv hbody
    show (decodeEventBody version EventTypeTopologyChange).run _ = _
    rw [decodeEventBody, if_neg (by decide), if_neg (by decide), if_pos rfl, map_run, ← Res.pure_ok_inv hbody,
      decodeNodeChangeBody_RT t (topologyType_lt version t (guard_ok_inv hck)) a hv.2 ab hab rest]
    rfl

/-- `ValidEvent` is not needed; only that addresses have a length `net.IP` can meaningfully have (`EventIpWf`) -/
theorem encodeEvent_len (version : Nat) (e : EventMsg) (hwf : EventIpWf e) (b : Bytes)
    (hw : encodeEvent version e = .ok b) : lengthOfEvent version e = .ok b.length := by
  rw [encodeEvent] at hw
  obtain ⟨_, _, hw⟩ := Res.bind_ok_inv hw
  obtain ⟨body, hbody, hw⟩ := Res.bind_ok_inv hw
  have hb : lengthOfEventBody version e = .ok body.length := by
    cases e with
    | schemaChange sc =>
      rw [encodeEventBody] at hbody
      rw [lengthOfEventBody]; exact encodeSchemaChangeEventBody_len version sc body hbody
    | statusChange t a =>
      rw [encodeEventBody, encodeStatusChangeBody] at hbody
      obtain ⟨_, _, hbody⟩ := Res.bind_ok_inv hbody
      obtain ⟨ab, hab, hbody⟩ := Res.bind_ok_inv hbody
      rw [lengthOfEventBody, ← Res.pure_ok_inv hbody]; exact nodeChange_len t a hwf ab hab
    | topologyChange t a =>
      rw [encodeEventBody, encodeTopologyChangeBody] at hbody
      obtain ⟨_, _, hbody⟩ := Res.bind_ok_inv hbody
      obtain ⟨ab, hab, hbody⟩ := Res.bind_ok_inv hbody
      rw [lengthOfEventBody, ← Res.pure_ok_inv hbody]; exact nodeChange_len t a hwf ab hab
  rw [lengthOfEvent, hb, ← Res.pure_ok_inv hw, List.length_append, writeString_len]
  rfl

private theorem writeInet_ok (a : Option Inet) (ha : ValidAddress a) : ∃ b, writeInet a = .ok b := by
  obtain ⟨i, ip, rfl, hip, hvip, _⟩ := ha
  obtain ⟨a, ha⟩ := Prim.writeInetAddr_ok ip hvip
  rw [writeInet, hip, ha]; exact ⟨_, rfl⟩

private theorem topology_check (version : Nat) (t : Bytes)
    (h : t = TopologyChangeTypeNewNode ∨ t = TopologyChangeTypeRemovedNode ∨
      (t = TopologyChangeTypeMovedNode ∧ version ≥ ProtocolVersion3)) :
    CheckValidTopologyChangeType t version = true := by
  rcases h with h | h | ⟨h, h3⟩
  · rw [h]; rfl
  · rw [h]; rfl
  · have hs : ProtocolVersion_SupportsTopologyChangeType version TopologyChangeTypeMovedNode =
        decide (version ≥ ProtocolVersion3) := rfl
    rw [h, CheckValidTopologyChangeType, hs, decide_eq_true h3]; rfl

theorem encodeEvent_ok (version : Nat) (e : EventMsg) (hv : ValidEvent version e) :
    ∃ b, encodeEvent version e = .ok b := by
  have hb : ∃ body, encodeEventBody version e = .ok body := by
    cases e with
    | schemaChange sc => rw [encodeEventBody]; exact encodeSchemaChangeEventBody_ok version sc hv
    | statusChange t a =>
      obtain ⟨ab, hab⟩ := writeInet_ok a hv.2
      have hck : CheckValidStatusChangeType t = true := by rw [CheckValidStatusChangeType, hv.1]; rfl
      rw [encodeEventBody, encodeStatusChangeBody, hck, hab]; exact ⟨_, rfl⟩
    | topologyChange t a =>
      obtain ⟨ab, hab⟩ := writeInet_ok a hv.2
      rw [encodeEventBody, encodeTopologyChangeBody, topology_check version t hv.1, hab]; exact ⟨_, rfl⟩
  obtain ⟨body, hbody⟩ := hb
  rw [encodeEvent, (eventType_facts e).2, hbody]; exact ⟨_, rfl⟩

theorem decodeEvent_noPanic (version : Nat) : NoPanic (decodeEvent version) := by
  have h1 : NoPanic decodeNodeChangeBody := by
    rw [decodeNodeChangeBody]; no_panic [NoPanic.readString, NoPanic.readInet]
  have h2 : ∀ t, NoPanic (decodeEventBody version t) := by
    intro t; rw [decodeEventBody]; no_panic [decodeSchemaChangeBody_noPanic version, h1]
  rw [decodeEvent]; no_panic [NoPanic.readString, h2]

/-! ### non-vacuity -/

/-- CREATED FUNCTION ks.f(int, text) on v4 -/
example : ValidEvent 4 (.schemaChange
    ⟨SchemaChangeTypeCreated, SchemaChangeTargetFunction, [107, 115], [102],
      some [[105, 110, 116], [116, 101, 120, 116]]⟩) :=
  { changeType := by decide, target := by decide, keyspace := by decide, objectKs := by decide,
    objectOther := by decide, objectLen := by decide, argumentsOnly := by decide,
    argumentsLen := fun l h => by cases h; decide }

/-- DROPPED KEYSPACE ks on v2 (as a RESULT body and as an EVENT) -/
example : ValidSchemaChange 2 ⟨SchemaChangeTypeDropped, SchemaChangeTargetKeyspace, [107, 115], [], none⟩ :=
  { changeType := by decide, target := by decide, keyspace := by decide, objectKs := by decide,
    objectOther := by decide, objectLen := by decide, argumentsOnly := by decide,
    argumentsLen := fun l h => by cases h }

/-- UPDATED TABLE ks.t on v2 -/
example : ValidEvent 2 (.schemaChange ⟨SchemaChangeTypeUpdated, SchemaChangeTargetTable, [107, 115], [116], none⟩) :=
  { changeType := by decide, target := by decide, keyspace := by decide, objectKs := by decide,
    objectOther := by decide, objectLen := by decide, argumentsOnly := by decide,
    argumentsLen := fun l h => by cases h }

/-- UP 127.0.0.1:9042 -/
example : ValidEvent 3 (.statusChange StatusChangeTypeUp (some ⟨some [127, 0, 0, 1], 9042⟩)) :=
  ⟨by decide, _, _, rfl, rfl, Or.inl rfl, by decide⟩

/-- MOVED_NODE [::1]:9042 on v3 -/
example : ValidEvent 3 (.topologyChange TopologyChangeTypeMovedNode
    (some ⟨some [0, 0, 0, 0, 0, 0, 0, 0, 0, 0, 0, 0, 0, 0, 0, 1], 9042⟩)) :=
  ⟨Or.inr (Or.inr ⟨rfl, by decide⟩), _, _, rfl, rfl, Or.inr rfl, by decide⟩

example : ValidSetKeyspaceBody [107, 115] := ⟨by decide, by decide⟩

/-- the examples are really encodable, and the nil argument list really reads back as empty -/
example : (encodeEvent 4 (.schemaChange ⟨SchemaChangeTypeCreated, SchemaChangeTargetAggregate, [107], [97], none⟩)).isOk
    = true := by decide
example : canonEvent 4 (.schemaChange ⟨SchemaChangeTypeCreated, SchemaChangeTargetAggregate, [107], [97], none⟩) =
    .schemaChange ⟨SchemaChangeTypeCreated, SchemaChangeTargetAggregate, [107], [97], some []⟩ := by decide

end Cql.Impl
