import Cql.Impl.Error
import Cql.Lemmas.PrimRT
import Cql.Lemmas.NoPanic
/-! Round trip, length, totality-on-valid-input and no-panic for the ERROR response (`message/error.go`). -/
namespace Cql.Impl
open Cql Cql.Prim Cql.Parser Cql.Gen

/-! ### validity (from `native_protocol_v4.spec` §9 / `native_protocol_v5.spec` §8 "Error codes") -/

/-- a `<reasonmap>`: an `[int]` count (so fewer than 2^31 entries) of `<endpoint:[inetaddr]><failurecode:[short]>`;
    an `[inetaddr]` has 4 or 16 address bytes.
    -- SUSPECT: `FailureCode_IsValid r.code` is forced by the Go code (`WriteReasonMap` and `ReadReasonMap` both call
    `CheckValidFailureCode`, which knows only 0x0000–0x0006), NOT by the specs: `native_protocol_v5.spec` §8 says only
    "<failurecode> is a [short]", and `dse_protocol_v1/v2.spec` §9 say "Any other value for <failurecode> must be
    considered as an Unknown reason (but drivers should not fail) as new <failurecode> may be added without a bump of
    the protocol version". A READ_FAILURE / WRITE_FAILURE whose reason map contains code 0x0007 is spec-valid but is
    refused in both directions (witnesses at the end of this file). The clause is needed only by `encodeError_ok`;
    `decodeError_RT` gets it from the success of the encoder. -/
def ValidReasons (l : List FailureReason) : Prop :=
  l.length < 2147483648 ∧
  ∀ r ∈ l, (∃ ip, r.endpoint = some ip ∧ validIp ip) ∧ FailureCode_IsValid r.code = true

/-- `<numfailures>` is an `[int]`; the reason map is constrained only where the version puts it on the wire -/
def ValidFailures (version numFailures : Nat) (reasons : Option (List FailureReason)) : Prop :=
  numFailures < 4294967296 ∧
  (ProtocolVersion_SupportsReadWriteFailureReasonMap version = true → ValidReasons (reasons.getD []))

/-- Version-validity of an ERROR body.
    CHOICE for `<cl>`: the spec calls it a `[consistency]`, but neither Go direction validates it, and the proofs
    need nothing beyond the field fitting its `uint16` type — so only `< 65536` is required (weakest possible).
    CHOICE for the WRITE TIMEOUT write type: the spec enumerates the strings, the Go decoder does not check them,
    so only `[string]` size is required. For WRITE FAILURE the decoder calls `CheckValidWriteType`, so the write type
    must be declared (which is what the spec says anyway). -/
def ValidError (version : Nat) : ErrorMsg → Prop
  | .simple code msg => isSimpleErrorCode code = true ∧ msg.length < 65536
  | .unavailable msg cl required alive =>
    msg.length < 65536 ∧ cl < 65536 ∧ required < 4294967296 ∧ alive < 4294967296
  | .readTimeout msg cl received blockFor _ =>
    msg.length < 65536 ∧ cl < 65536 ∧ received < 4294967296 ∧ blockFor < 4294967296
  | .writeTimeout msg cl received blockFor writeType contentions =>
    msg.length < 65536 ∧ cl < 65536 ∧ received < 4294967296 ∧ blockFor < 4294967296 ∧
    writeType.length < 65536 ∧ contentions < 65536
  | .readFailure msg cl received blockFor numFailures reasons _ =>
    msg.length < 65536 ∧ cl < 65536 ∧ received < 4294967296 ∧ blockFor < 4294967296 ∧
    ValidFailures version numFailures reasons
  | .writeFailure msg cl received blockFor numFailures reasons writeType =>
    msg.length < 65536 ∧ cl < 65536 ∧ received < 4294967296 ∧ blockFor < 4294967296 ∧
    ValidFailures version numFailures reasons ∧ WriteType_IsValid writeType = true
  | .functionFailure msg keyspace function arguments =>
    msg.length < 65536 ∧ keyspace.length < 65536 ∧ function.length < 65536 ∧
    (arguments.getD []).length < 65536 ∧ ∀ s ∈ arguments.getD [], s.length < 65536
  | .unprepared msg id => msg.length < 65536 ∧ (id.getD []).length < 65536
  | .alreadyExists msg keyspace table =>
    msg.length < 65536 ∧ keyspace.length < 65536 ∧ table.length < 65536

/-! ### what a round trip erases -/

/-- `NumFailures` / `FailureReasons` as they read back -/
def canonFailures (version numFailures : Nat) (reasons : Option (List FailureReason)) :
    Nat × Option (List FailureReason) :=
  if ProtocolVersion_SupportsReadWriteFailureReasonMap version then
    -- v5+/DSE: `<numfailures>` is not on the wire (reads back 0); a nil map is written as count 0 and read back
    -- as an empty non-nil slice; an IPv4 endpoint held in 4 bytes reads back in `net.IPv4`'s 16-byte form
    (0, some ((reasons.getD []).map canonReason))
  else
    -- up to v4: `<reasonmap>` is not on the wire (the decoder leaves `FailureReasons` nil)
    (numFailures, none)

def canonError (version : Nat) : ErrorMsg → ErrorMsg
  -- `<contentions>` is on the wire only for write type "CAS" on a version that has it; otherwise it reads back 0
  | .writeTimeout msg cl received blockFor writeType contentions =>
    .writeTimeout msg cl received blockFor writeType (if readsContentions version writeType then contentions else 0)
  -- exactly one of `<numfailures>` / `<reasonmap>` is on the wire: see `canonFailures`
  | .readFailure msg cl received blockFor numFailures reasons dataPresent =>
    .readFailure msg cl received blockFor (canonFailures version numFailures reasons).1
      (canonFailures version numFailures reasons).2 dataPresent
  | .writeFailure msg cl received blockFor numFailures reasons writeType =>
    .writeFailure msg cl received blockFor (canonFailures version numFailures reasons).1
      (canonFailures version numFailures reasons).2 writeType
  -- a `[string list]` has no null: nil `Arguments` are written as count 0 and read back as an empty slice
  | .functionFailure msg keyspace function arguments =>
    .functionFailure msg keyspace function (some (arguments.getD []))
  -- `[short bytes]` has no null: a nil `Id` is written as length 0 and read back as an empty slice
  | .unprepared msg id => .unprepared msg (some (id.getD []))
  -- everything else (including the data-present flag, a Bool written as 0/1 and read as `b > 0`) survives unchanged
  | e => e

/-! ### shared pieces -/

theorem decodeDataPresent_RT (d : Bool) (rest : Bytes) :
    decodeDataPresent.run (writeDataPresent d ++ rest) = .ok (d, rest) := by
  cases d with
  | true =>
    rw [decodeDataPresent, show writeDataPresent true = writeByte 1 from rfl, bind_ok (readByte_RT 1 (by decide) _)]
    rfl
  | false =>
    rw [decodeDataPresent, show writeDataPresent false = writeByte 0 from rfl, bind_ok (readByte_RT 0 (by decide) _)]
    rfl

theorem writeDataPresent_len (d : Bool) : (writeDataPresent d).length = lengthOfByte := by
  cases d with
  | true => rw [show writeDataPresent true = writeByte 1 from rfl, writeByte_len]; rfl
  | false => rw [show writeDataPresent false = writeByte 0 from rfl, writeByte_len]; rfl

theorem reads_eq_writes (version : Nat) (wt : Bytes) : readsContentions version wt = writesContentions version wt := by
  rw [readsContentions, writesContentions, Bool.and_comm]

theorem decodeFailures_RT (version nf : Nat) (rs : Option (List FailureReason)) (hv : ValidFailures version nf rs)
    (b : Bytes) (hw : encodeFailures version nf rs = .ok b) (rest : Bytes) :
    (decodeFailures version).run (b ++ rest) = .ok (canonFailures version nf rs, rest) := by
  rw [encodeFailures] at hw
  rw [decodeFailures, canonFailures]
  cases hs : ProtocolVersion_SupportsReadWriteFailureReasonMap version with
  | true =>
    rw [hs, if_pos rfl] at hw
    obtain ⟨hl, hr⟩ := hv.2 hs
    rw [if_pos rfl, if_pos rfl, map_run,
      readReasonMap_RT (rs.getD []) hl (fun r h => (hr r h).1) b hw rest]
  | false =>
    rw [hs, if_neg (by decide)] at hw
    rw [if_neg (by decide), if_neg (by decide), map_run, ← Res.ok_inj hw, readInt_RT nf hv.1 rest]

private theorem writeAll_ok {α} (w : α → Res Bytes) (l : List α) (h : ∀ x ∈ l, ∃ b, w x = .ok b) :
    ∃ b, writeAll w l = .ok b := by
  induction l with
  | nil => exact ⟨[], rfl⟩
  | cons x xs ih =>
    obtain ⟨a, ha⟩ := h x List.mem_cons_self
    obtain ⟨b, hb⟩ := ih (fun y hy => h y (List.mem_cons_of_mem _ hy))
    refine ⟨a ++ b, ?_⟩
    rw [writeAll, ha, hb]; rfl

theorem writeReasonMap_ok (l : List FailureReason) (hv : ValidReasons l) : ∃ b, writeReasonMap l = .ok b := by
  have h : ∃ body, writeAll writeFailureReason l = .ok body := by
    apply writeAll_ok
    intro r hr
    obtain ⟨⟨ip, hip, hvip⟩, hc⟩ := hv.2 r hr
    obtain ⟨a, ha⟩ := Prim.writeInetAddr_ok ip hvip
    refine ⟨a ++ writeShort r.code, ?_⟩
    rw [writeFailureReason, hip, ha, hc]; rfl
  obtain ⟨body, hb⟩ := h
  refine ⟨writeInt (l.length % 4294967296) ++ body, ?_⟩
  rw [writeReasonMap, hb]; rfl

theorem encodeFailures_ok (version nf : Nat) (rs : Option (List FailureReason)) (hv : ValidFailures version nf rs) :
    ∃ b, encodeFailures version nf rs = .ok b := by
  rw [encodeFailures]
  cases hs : ProtocolVersion_SupportsReadWriteFailureReasonMap version with
  | true => rw [if_pos rfl]; exact writeReasonMap_ok _ (hv.2 hs)
  | false => rw [if_neg (by decide)]; exact ⟨_, rfl⟩

/-- the only fact `EncodedLength` needs: every reason-map endpoint that is written has 4 or 16 bytes
    (`LengthOfInetAddr` counts 16 bytes for any slice that is not IPv4, whatever its real length) -/
def EndpointsOk (version : Nat) : ErrorMsg → Prop
  | .readFailure _ _ _ _ _ reasons _ =>
    ProtocolVersion_SupportsReadWriteFailureReasonMap version = true →
      ∀ r ∈ reasons.getD [], ∀ ip, r.endpoint = some ip → validIp ip
  | .writeFailure _ _ _ _ _ reasons _ =>
    ProtocolVersion_SupportsReadWriteFailureReasonMap version = true →
      ∀ r ∈ reasons.getD [], ∀ ip, r.endpoint = some ip → validIp ip
  | _ => True

theorem ValidFailures.endpoints {version nf : Nat} {rs : Option (List FailureReason)} (hv : ValidFailures version nf rs)
    (hs : ProtocolVersion_SupportsReadWriteFailureReasonMap version = true) :
    ∀ r ∈ rs.getD [], ∀ ip, r.endpoint = some ip → validIp ip := by
  intro r hr ip hip
  obtain ⟨⟨ip', hip', hvip⟩, _⟩ := (hv.2 hs).2 r hr
  rw [hip] at hip'
  cases hip'
  exact hvip

theorem ValidError.endpointsOk {version : Nat} {e : ErrorMsg} (hv : ValidError version e) : EndpointsOk version e := by
  cases e with
  | readFailure msg cl rc bf nf rs dp => exact fun hs => hv.2.2.2.2.endpoints hs
  | writeFailure msg cl rc bf nf rs wt => exact fun hs => hv.2.2.2.2.1.endpoints hs
  | _ => exact True.intro

/-! ### round trip, one lemma per constructor -/

theorem decodeUnavailable_RT (msg : Bytes) (cl rq al : Nat) (hcl : cl < 65536) (hrq : rq < 4294967296)
    (hal : al < 4294967296) (rest : Bytes) :
    (decodeUnavailable msg).run (writeShort cl ++ (writeInt rq ++ (writeInt al ++ rest))) =
      .ok (.unavailable msg cl rq al, rest) := by
  rw [decodeUnavailable, bind_ok (readShort_RT _ hcl _), bind_ok (readInt_RT _ hrq _), bind_ok (readInt_RT _ hal _)]
  rfl

theorem decodeReadTimeout_RT (msg : Bytes) (cl rc bf : Nat) (dp : Bool) (hcl : cl < 65536) (hrc : rc < 4294967296)
    (hbf : bf < 4294967296) (rest : Bytes) :
    (decodeReadTimeout msg).run (writeShort cl ++ (writeInt rc ++ (writeInt bf ++ (writeDataPresent dp ++ rest)))) =
      .ok (.readTimeout msg cl rc bf dp, rest) := by
  rw [decodeReadTimeout, bind_ok (readShort_RT _ hcl _), bind_ok (readInt_RT _ hrc _), bind_ok (readInt_RT _ hbf _),
    bind_ok (decodeDataPresent_RT dp _)]
  rfl

theorem decodeWriteTimeout_RT (version : Nat) (msg : Bytes) (cl rc bf : Nat) (wt : Bytes) (ct : Nat) (hcl : cl < 65536)
    (hrc : rc < 4294967296) (hbf : bf < 4294967296) (hwt : wt.length < 65536) (hct : ct < 65536) (rest : Bytes) :
    (decodeWriteTimeout version msg).run (writeShort cl ++ (writeInt rc ++ (writeInt bf ++ (writeString wt ++
        (optB (writesContentions version wt) (writeShort ct) ++ rest))))) =
      .ok (canonError version (.writeTimeout msg cl rc bf wt ct), rest) := by
  rw [decodeWriteTimeout, bind_ok (readShort_RT _ hcl _), bind_ok (readInt_RT _ hrc _), bind_ok (readInt_RT _ hbf _),
    bind_ok (readString_RT _ hwt _), reads_eq_writes,
    bind_ok (whenP_optB_RT (writesContentions version wt) readShort 0
      (if writesContentions version wt then ct else 0) _ _
      (fun h => by rw [h, if_pos rfl]; exact readShort_RT _ hct _)
      (fun h => by rw [h, if_neg (by decide)]))]
  rw [canonError, reads_eq_writes]
  rfl

theorem decodeReadFailure_RT (version : Nat) (msg : Bytes) (cl rc bf nf : Nat) (rs : Option (List FailureReason))
    (dp : Bool) (hcl : cl < 65536) (hrc : rc < 4294967296) (hbf : bf < 4294967296)
    (hf : ValidFailures version nf rs) (f : Bytes) (hw : encodeFailures version nf rs = .ok f) (rest : Bytes) :
    (decodeReadFailure version msg).run
        (writeShort cl ++ (writeInt rc ++ (writeInt bf ++ (f ++ (writeDataPresent dp ++ rest))))) =
      .ok (canonError version (.readFailure msg cl rc bf nf rs dp), rest) := by
  rw [decodeReadFailure, bind_ok (readShort_RT _ hcl _), bind_ok (readInt_RT _ hrc _), bind_ok (readInt_RT _ hbf _),
    bind_ok (decodeFailures_RT version nf rs hf f hw _), bind_ok (decodeDataPresent_RT dp _)]
  rfl

private theorem writeType_lt (wt : Bytes) (h : WriteType_IsValid wt = true) : wt.length < 65536 := by
  have : ∀ x ∈ WriteType_IsValid_cases, x.length < 65536 := by decide
  exact this wt (by simpa [WriteType_IsValid] using h)

theorem decodeWriteFailure_RT (version : Nat) (msg : Bytes) (cl rc bf nf : Nat) (rs : Option (List FailureReason))
    (wt : Bytes) (hcl : cl < 65536) (hrc : rc < 4294967296) (hbf : bf < 4294967296)
    (hf : ValidFailures version nf rs) (hwt : WriteType_IsValid wt = true)
    (f : Bytes) (hw : encodeFailures version nf rs = .ok f) (rest : Bytes) :
    (decodeWriteFailure version msg).run
        (writeShort cl ++ (writeInt rc ++ (writeInt bf ++ (f ++ (writeString wt ++ rest))))) =
      .ok (canonError version (.writeFailure msg cl rc bf nf rs wt), rest) := by
  have hck : CheckValidWriteType wt = true := by rw [CheckValidWriteType, hwt]; rfl
  rw [decodeWriteFailure, bind_ok (readShort_RT _ hcl _), bind_ok (readInt_RT _ hrc _), bind_ok (readInt_RT _ hbf _),
    bind_ok (decodeFailures_RT version nf rs hf f hw _), bind_ok (readString_RT _ (writeType_lt wt hwt) _),
    hck, bind_ok (guardP_true _ _)]
  rfl

theorem decodeFunctionFailure_RT (msg ks fn : Bytes) (args : Option (List Bytes)) (hks : ks.length < 65536)
    (hfn : fn.length < 65536) (hl : (args.getD []).length < 65536) (hs : ∀ s ∈ args.getD [], s.length < 65536)
    (rest : Bytes) :
    (decodeFunctionFailure msg).run (writeString ks ++ (writeString fn ++ (writeStringList (args.getD []) ++ rest))) =
      .ok (.functionFailure msg ks fn (some (args.getD [])), rest) := by
  rw [decodeFunctionFailure, bind_ok (readString_RT _ hks _), bind_ok (readString_RT _ hfn _),
    bind_ok (readStringList_RT _ hl hs _)]
  rfl

theorem decodeAlreadyExists_RT (msg ks tb : Bytes) (hks : ks.length < 65536) (htb : tb.length < 65536) (rest : Bytes) :
    (decodeAlreadyExists msg).run (writeString ks ++ (writeString tb ++ rest)) = .ok (.alreadyExists msg ks tb, rest) := by
  rw [decodeAlreadyExists, bind_ok (readString_RT _ hks _), bind_ok (readString_RT _ htb _)]
  rfl

theorem decodeUnprepared_RT (msg : Bytes) (id : Option Bytes) (hid : (id.getD []).length < 65536) (rest : Bytes) :
    (decodeUnprepared msg).run (writeShortBytes id ++ rest) = .ok (.unprepared msg (some (id.getD [])), rest) := by
  rw [decodeUnprepared, bind_ok (readShortBytes_RT _ hid _)]
  rfl

/-! ### the switch on the code -/

theorem decodeErrorBody_simple (v code : Nat) (msg : Bytes) (h : isSimpleErrorCode code = true) :
    decodeErrorBody v code msg = pure (.simple code msg) := by rw [decodeErrorBody, if_pos h]
theorem decodeErrorBody_unavailable (v : Nat) (msg : Bytes) :
    decodeErrorBody v ErrorCodeUnavailable msg = decodeUnavailable msg := rfl
theorem decodeErrorBody_readTimeout (v : Nat) (msg : Bytes) :
    decodeErrorBody v ErrorCodeReadTimeout msg = decodeReadTimeout msg := rfl
theorem decodeErrorBody_writeTimeout (v : Nat) (msg : Bytes) :
    decodeErrorBody v ErrorCodeWriteTimeout msg = decodeWriteTimeout v msg := rfl
theorem decodeErrorBody_readFailure (v : Nat) (msg : Bytes) :
    decodeErrorBody v ErrorCodeReadFailure msg = decodeReadFailure v msg := rfl
theorem decodeErrorBody_writeFailure (v : Nat) (msg : Bytes) :
    decodeErrorBody v ErrorCodeWriteFailure msg = decodeWriteFailure v msg := rfl
theorem decodeErrorBody_functionFailure (v : Nat) (msg : Bytes) :
    decodeErrorBody v ErrorCodeFunctionFailure msg = decodeFunctionFailure msg := rfl
theorem decodeErrorBody_alreadyExists (v : Nat) (msg : Bytes) :
    decodeErrorBody v ErrorCodeAlreadyExists msg = decodeAlreadyExists msg := rfl
theorem decodeErrorBody_unprepared (v : Nat) (msg : Bytes) :
    decodeErrorBody v ErrorCodeUnprepared msg = decodeUnprepared msg := rfl

theorem decodeErrorBody_RT (version : Nat) (e : ErrorMsg) (hv : ValidError version e) (b : Bytes)
    (hw : encodeErrorBody version e = .ok b) (rest : Bytes) :
    (decodeErrorBody version e.code e.message).run (b ++ rest) = .ok (canonError version e, rest) := by
  cases e with
  | simple code msg =>
    rw [encodeErrorBody] at hw
    obtain ⟨_, _, hw⟩ := Res.bind_ok_inv hw
    rw [← Res.pure_ok_inv hw]
    show (decodeErrorBody version code msg).run _ = _
    rw [decodeErrorBody_simple version code msg hv.1]; rfl
  | unavailable msg cl rq al =>
    obtain ⟨_, hcl, hrq, hal⟩ := hv
    rw [encodeErrorBody] at hw; rw [← Res.ok_inj hw]; simp only [List.append_assoc]
    show (decodeErrorBody version ErrorCodeUnavailable msg).run _ = _
    rw [decodeErrorBody_unavailable]
    exact decodeUnavailable_RT msg cl rq al hcl hrq hal rest
  | readTimeout msg cl rc bf dp =>
    obtain ⟨_, hcl, hrc, hbf⟩ := hv
    rw [encodeErrorBody] at hw; rw [← Res.ok_inj hw]; simp only [List.append_assoc]
    show (decodeErrorBody version ErrorCodeReadTimeout msg).run _ = _
    rw [decodeErrorBody_readTimeout]
    exact decodeReadTimeout_RT msg cl rc bf dp hcl hrc hbf rest
  | writeTimeout msg cl rc bf wt ct =>
    obtain ⟨_, hcl, hrc, hbf, hwt, hct⟩ := hv
    rw [encodeErrorBody] at hw; rw [← Res.ok_inj hw]; simp only [List.append_assoc]
    show (decodeErrorBody version ErrorCodeWriteTimeout msg).run _ = _
    rw [decodeErrorBody_writeTimeout]
    exact decodeWriteTimeout_RT version msg cl rc bf wt ct hcl hrc hbf hwt hct rest
  | readFailure msg cl rc bf nf rs dp =>
    obtain ⟨_, hcl, hrc, hbf, hf⟩ := hv
    rw [encodeErrorBody] at hw
    obtain ⟨f, hfw, hw⟩ := Res.bind_ok_inv hw
    rw [← Res.pure_ok_inv hw]; simp only [List.append_assoc]
    show (decodeErrorBody version ErrorCodeReadFailure msg).run _ = _
    rw [decodeErrorBody_readFailure]
    exact decodeReadFailure_RT version msg cl rc bf nf rs dp hcl hrc hbf hf f hfw rest
  | writeFailure msg cl rc bf nf rs wt =>
    obtain ⟨_, hcl, hrc, hbf, hf, hwt⟩ := hv
    rw [encodeErrorBody] at hw
    obtain ⟨f, hfw, hw⟩ := Res.bind_ok_inv hw
    rw [← Res.pure_ok_inv hw]; simp only [List.append_assoc]
    show (decodeErrorBody version ErrorCodeWriteFailure msg).run _ = _
    rw [decodeErrorBody_writeFailure]
    exact decodeWriteFailure_RT version msg cl rc bf nf rs wt hcl hrc hbf hf hwt f hfw rest
  | functionFailure msg ks fn args =>
    obtain ⟨_, hks, hfn, hl, hs⟩ := hv
    rw [encodeErrorBody] at hw; rw [← Res.ok_inj hw]; simp only [List.append_assoc]
    show (decodeErrorBody version ErrorCodeFunctionFailure msg).run _ = _
    rw [decodeErrorBody_functionFailure]
    exact decodeFunctionFailure_RT msg ks fn args hks hfn hl hs rest
  | unprepared msg id =>
    obtain ⟨_, hid⟩ := hv
    rw [encodeErrorBody] at hw
    rw [← Res.ok_inj hw]
    show (decodeErrorBody version ErrorCodeUnprepared msg).run _ = _
    rw [decodeErrorBody_unprepared]
    exact decodeUnprepared_RT msg id hid rest
  | alreadyExists msg ks tb =>
    obtain ⟨_, hks, htb⟩ := hv
    rw [encodeErrorBody] at hw; rw [← Res.ok_inj hw]; simp only [List.append_assoc]
    show (decodeErrorBody version ErrorCodeAlreadyExists msg).run _ = _
    rw [decodeErrorBody_alreadyExists]
    exact decodeAlreadyExists_RT msg ks tb hks htb rest

private theorem simple_lt (c : Nat) (h : isSimpleErrorCode c = true) : c < 4294967296 := by
  have : ∀ x ∈ simpleErrorCodes, x < 4294967296 := by decide
  exact this c (by simpa [isSimpleErrorCode] using h)

theorem ValidError.code_lt {version : Nat} {e : ErrorMsg} (hv : ValidError version e) : e.code < 4294967296 := by
  cases e with
  | simple code msg => exact simple_lt code hv.1
  | unavailable => exact (by decide : ErrorCodeUnavailable < 4294967296)
  | readTimeout => exact (by decide : ErrorCodeReadTimeout < 4294967296)
  | writeTimeout => exact (by decide : ErrorCodeWriteTimeout < 4294967296)
  | readFailure => exact (by decide : ErrorCodeReadFailure < 4294967296)
  | writeFailure => exact (by decide : ErrorCodeWriteFailure < 4294967296)
  | functionFailure => exact (by decide : ErrorCodeFunctionFailure < 4294967296)
  | unprepared => exact (by decide : ErrorCodeUnprepared < 4294967296)
  | alreadyExists => exact (by decide : ErrorCodeAlreadyExists < 4294967296)

theorem ValidError.message_lt {version : Nat} {e : ErrorMsg} (hv : ValidError version e) : e.message.length < 65536 := by
  cases e with
  | simple code msg => exact hv.2
  | _ => exact hv.1

theorem decodeError_RT (version : Nat) (e : ErrorMsg) (hv : ValidError version e) (b : Bytes)
    (hw : encodeError version e = .ok b) (rest : Bytes) :
    (decodeError version).run (b ++ rest) = .ok (canonError version e, rest) := by
  rw [encodeError] at hw
  obtain ⟨body, hbody, hw⟩ := Res.bind_ok_inv hw
  rw [← Res.pure_ok_inv hw]
  simp only [List.append_assoc]
  rw [decodeError, bind_ok (readInt_RT _ hv.code_lt _), bind_ok (readString_RT _ hv.message_lt _)]
  exact decodeErrorBody_RT version e hv body hbody rest

/-! ### EncodedLength agrees with Encode -/

theorem encodeFailures_len (version nf : Nat) (rs : Option (List FailureReason))
    (hip : ProtocolVersion_SupportsReadWriteFailureReasonMap version = true →
      ∀ r ∈ rs.getD [], ∀ ip, r.endpoint = some ip → validIp ip)
    (f : Bytes) (hw : encodeFailures version nf rs = .ok f) :
    (if ProtocolVersion_SupportsReadWriteFailureReasonMap version then lengthOfReasonMap (rs.getD [])
     else .ok lengthOfInt) = .ok f.length := by
  rw [encodeFailures] at hw
  cases hs : ProtocolVersion_SupportsReadWriteFailureReasonMap version with
  | true =>
    rw [hs, if_pos rfl] at hw
    rw [if_pos rfl]
    exact writeReasonMap_len _ (hip hs) f hw
  | false =>
    rw [hs, if_neg (by decide)] at hw
    rw [if_neg (by decide), ← Res.ok_inj hw, writeInt_len]; rfl

theorem encodeErrorBody_len (version : Nat) (e : ErrorMsg) (hip : EndpointsOk version e) (b : Bytes)
    (hw : encodeErrorBody version e = .ok b) : lengthOfErrorBody version e = .ok b.length := by
  cases e with
  | simple code msg =>
    rw [encodeErrorBody] at hw
    obtain ⟨_, hg, hw⟩ := Res.bind_ok_inv hw
    rw [lengthOfErrorBody, hg, ← Res.pure_ok_inv hw]; rfl
  | unavailable msg cl rq al =>
    rw [encodeErrorBody] at hw
    rw [← Res.ok_inj hw, lengthOfErrorBody, List.length_append, List.length_append, writeShort_len, writeInt_len,
      writeInt_len]; rfl
  | readTimeout msg cl rc bf dp =>
    rw [encodeErrorBody] at hw
    rw [← Res.ok_inj hw, lengthOfErrorBody, List.length_append, List.length_append, List.length_append,
      writeShort_len, writeInt_len, writeInt_len, writeDataPresent_len]; rfl
  | writeTimeout msg cl rc bf wt ct =>
    rw [encodeErrorBody] at hw
    rw [← Res.ok_inj hw, lengthOfErrorBody, List.length_append, List.length_append, List.length_append,
      List.length_append, writeShort_len, writeInt_len, writeInt_len, writeString_len,
      optB_len _ _ lengthOfShort (writeShort_len ct)]; rfl
  | readFailure msg cl rc bf nf rs dp =>
    rw [encodeErrorBody] at hw
    obtain ⟨f, hf, hw⟩ := Res.bind_ok_inv hw
    have hl := encodeFailures_len version nf rs hip f hf
    rw [← Res.pure_ok_inv hw, lengthOfErrorBody, List.length_append, List.length_append, List.length_append,
      List.length_append, writeShort_len, writeInt_len, writeInt_len, writeDataPresent_len]
    cases hs : ProtocolVersion_SupportsReadWriteFailureReasonMap version with
    | true =>
      rw [hs, if_pos rfl] at hl
      rw [if_pos rfl, hl]
      show Res.ok (2 + 4 + 4 + 1 + f.length) = Res.ok (2 + 4 + 4 + f.length + 1)
      congr 1
      omega
    | false =>
      rw [hs, if_neg (by decide)] at hl
      rw [if_neg (by decide), ← Res.ok_inj hl]; rfl
  | writeFailure msg cl rc bf nf rs wt =>
    rw [encodeErrorBody] at hw
    obtain ⟨f, hf, hw⟩ := Res.bind_ok_inv hw
    have hl := encodeFailures_len version nf rs hip f hf
    rw [← Res.pure_ok_inv hw, lengthOfErrorBody, List.length_append, List.length_append, List.length_append,
      List.length_append, writeShort_len, writeInt_len, writeInt_len, writeString_len]
    cases hs : ProtocolVersion_SupportsReadWriteFailureReasonMap version with
    | true =>
      rw [hs, if_pos rfl] at hl
      rw [if_pos rfl, hl]
      show Res.ok (2 + 4 + 4 + lengthOfString wt + f.length) = Res.ok (2 + 4 + 4 + f.length + lengthOfString wt)
      congr 1
      omega
    | false =>
      rw [hs, if_neg (by decide)] at hl
      rw [if_neg (by decide), ← Res.ok_inj hl]
      show Res.ok (2 + 4 + 4 + lengthOfString wt + 4) = Res.ok (2 + 4 + 4 + 4 + lengthOfString wt)
      congr 1
      omega
  | functionFailure msg ks fn args =>
    rw [encodeErrorBody] at hw
    rw [← Res.ok_inj hw, lengthOfErrorBody, List.length_append, List.length_append, writeString_len,
      writeString_len, writeStringList_len]
  | unprepared msg id =>
    rw [encodeErrorBody] at hw
    rw [← Res.ok_inj hw, lengthOfErrorBody, writeShortBytes_len]
  | alreadyExists msg ks tb =>
    rw [encodeErrorBody] at hw
    rw [← Res.ok_inj hw, lengthOfErrorBody, List.length_append, writeString_len, writeString_len]

/-- `EncodedLength` is the length of what `Encode` writes. The hypothesis is strictly weaker than `ValidError`
    (see `ValidError.endpointsOk`) and is really needed: for a reason-map endpoint that has neither 4 nor 16 bytes
    `LengthOfInetAddr` still counts 1 + 16. -/
theorem encodeError_len (version : Nat) (e : ErrorMsg) (hip : EndpointsOk version e) (b : Bytes)
    (hw : encodeError version e = .ok b) : lengthOfError version e = .ok b.length := by
  rw [encodeError] at hw
  obtain ⟨body, hbody, hw⟩ := Res.bind_ok_inv hw
  rw [lengthOfError, encodeErrorBody_len version e hip body hbody, ← Res.pure_ok_inv hw, List.length_append,
    List.length_append, writeInt_len, writeString_len]
  rfl

/-- the same, from `ValidError` -/
theorem encodeError_len' (version : Nat) (e : ErrorMsg) (hv : ValidError version e) (b : Bytes)
    (hw : encodeError version e = .ok b) : lengthOfError version e = .ok b.length :=
  encodeError_len version e hv.endpointsOk b hw

/-! ### the encoder refuses no valid message -/

theorem encodeError_ok (version : Nat) (e : ErrorMsg) (hv : ValidError version e) :
    ∃ b, encodeError version e = .ok b := by
  cases e with
  | simple code msg => rw [encodeError, encodeErrorBody, hv.1]; exact ⟨_, rfl⟩
  | readFailure msg cl rc bf nf rs dp =>
    obtain ⟨f, hf⟩ := encodeFailures_ok version nf rs hv.2.2.2.2
    rw [encodeError, encodeErrorBody, hf]; exact ⟨_, rfl⟩
  | writeFailure msg cl rc bf nf rs wt =>
    obtain ⟨f, hf⟩ := encodeFailures_ok version nf rs hv.2.2.2.2.1
    rw [encodeError, encodeErrorBody, hf]; exact ⟨_, rfl⟩
  | _ => exact ⟨_, rfl⟩

/-! ### no panic -/

theorem decodeError_noPanic (version : Nat) : NoPanic (decodeError version) := by
  have hdp : NoPanic decodeDataPresent := by rw [decodeDataPresent]; no_panic
  have hfl : NoPanic (decodeFailures version) := by rw [decodeFailures]; no_panic [NoPanic.readReasonMap]
  have h1 : ∀ m, NoPanic (decodeUnavailable m) := by intro m; rw [decodeUnavailable]; no_panic
  have h2 : ∀ m, NoPanic (decodeReadTimeout m) := by intro m; rw [decodeReadTimeout]; no_panic [hdp]
  have h3 : ∀ m, NoPanic (decodeWriteTimeout version m) := by
    intro m; rw [decodeWriteTimeout]; no_panic [NoPanic.readString]
  have h4 : ∀ m, NoPanic (decodeReadFailure version m) := by intro m; rw [decodeReadFailure]; no_panic [hdp, hfl]
  have h5 : ∀ m, NoPanic (decodeWriteFailure version m) := by
    intro m; rw [decodeWriteFailure]; no_panic [NoPanic.readString, hfl]
  have h6 : ∀ m, NoPanic (decodeFunctionFailure m) := by
    intro m; rw [decodeFunctionFailure]; no_panic [NoPanic.readString, NoPanic.readStringList]
  have h7 : ∀ m, NoPanic (decodeAlreadyExists m) := by intro m; rw [decodeAlreadyExists]; no_panic [NoPanic.readString]
  have h8 : ∀ m, NoPanic (decodeUnprepared m) := by intro m; rw [decodeUnprepared]; no_panic [NoPanic.readShortBytes]
  have hb : ∀ c m, NoPanic (decodeErrorBody version c m) := by
    intro c m; rw [decodeErrorBody]; no_panic [h1 m, h2 m, h3 m, h4 m, h5 m, h6 m, h7 m, h8 m]
  rw [decodeError]; no_panic [NoPanic.readString, hb]

/-! ### non-vacuity -/

/-- a simple error: SYNTAX_ERROR "bad" -/
example : ValidError 4 (.simple ErrorCodeSyntaxError [98, 97, 100]) := ⟨by decide, by decide⟩

/-- UNAVAILABLE -/
example : ValidError 3 (.unavailable [117] ConsistencyLevelQuorum 3 1) := ⟨by decide, by decide, by decide, by decide⟩

/-- WRITE TIMEOUT with write type "CAS" and 7 contentions on v5 -/
example : ValidError 5 (.writeTimeout [116] ConsistencyLevelSerial 1 2 WriteTypeCas 7) :=
  ⟨by decide, by decide, by decide, by decide, by decide, by decide⟩

/-- … and the contentions survive the round trip there, but not on v4 -/
example : canonError 5 (.writeTimeout [116] 8 1 2 WriteTypeCas 7) = .writeTimeout [116] 8 1 2 WriteTypeCas 7 := by decide
example : canonError 4 (.writeTimeout [116] 8 1 2 WriteTypeCas 7) = .writeTimeout [116] 8 1 2 WriteTypeCas 0 := by decide

/-- READ FAILURE on v5 with a two-entry reason map (one IPv4 endpoint in 4 bytes, one IPv6 endpoint) -/
example : ValidError 5 (.readFailure [114] ConsistencyLevelOne 0 1 0
    (some [⟨some [10, 0, 0, 1], FailureCodeTooManyTombstonesRead⟩,
           ⟨some [32, 1, 13, 184, 0, 0, 0, 0, 0, 0, 0, 0, 0, 0, 0, 1], FailureCodeUnknown⟩]) true) := by
  refine ⟨by decide, by decide, by decide, by decide, by decide, fun _ => ⟨by decide, ?_⟩⟩
  intro r hr
  simp only [Option.getD_some, List.mem_cons, List.not_mem_nil, or_false] at hr
  rcases hr with rfl | rfl
  · exact ⟨⟨_, rfl, Or.inl rfl⟩, by decide⟩
  · exact ⟨⟨_, rfl, Or.inr rfl⟩, by decide⟩

/-- WRITE FAILURE on v4 (`<numfailures>`, no reason map) -/
example : ValidError 4 (.writeFailure [119] ConsistencyLevelAll 1 3 2 none WriteTypeBatchLog) :=
  ⟨by decide, by decide, by decide, by decide, ⟨by decide, fun h => absurd h (by decide)⟩, by decide⟩

/-- FUNCTION FAILURE with nil arguments, UNPREPARED with a nil id, ALREADY EXISTS -/
example : ValidError 4 (.functionFailure [102] [107] [103] none) := by
  refine ⟨by decide, by decide, by decide, by decide, ?_⟩
  intro s hs; cases hs
example : ValidError 4 (.unprepared [117] none) := ⟨by decide, by decide⟩
example : ValidError 4 (.alreadyExists [97] [107] [116]) := ⟨by decide, by decide, by decide⟩

/-! ### witnesses for the `-- SUSPECT:` clause of `ValidReasons` -/

/-- READ_FAILURE on v5 with reason map {10.0.0.1 ↦ 0x0007}: the encoder refuses it … -/
example : encodeError 5 (.readFailure [] ConsistencyLevelOne 0 1 0 (some [⟨some [10, 0, 0, 1], 7⟩]) false) =
    .err "invalid failure code" := by decide

/-- … and the decoder refuses its wire form
    `00001300 0000 0001 00000000 00000001 00000001 04 0a000001 0007 00` instead of reporting an unknown reason -/
example : (decodeError 5).run
    [0, 0, 19, 0, 0, 0, 0, 1, 0, 0, 0, 0, 0, 0, 0, 1, 0, 0, 0, 1, 4, 10, 0, 0, 1, 0, 7, 0] =
    .err "invalid failure code" := by decide

-- the same bytes with code 0x0006 decode
set_option maxRecDepth 4096 in
example : (decodeError 5).run
    [0, 0, 19, 0, 0, 0, 0, 1, 0, 0, 0, 0, 0, 0, 0, 1, 0, 0, 0, 1, 4, 10, 0, 0, 1, 0, 6, 0] =
    .ok (.readFailure [] ConsistencyLevelOne 0 1 0
      (some [⟨some [0, 0, 0, 0, 0, 0, 0, 0, 0, 0, 255, 255, 10, 0, 0, 1], FailureCodeKeyspaceNotFound⟩]) false, []) := by
  decide

end Cql.Impl
